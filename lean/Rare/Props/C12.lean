import Rare.Proofs.C12Parse
import Rare.Proofs.C12Grammar
import Rare.Proofs.C12Scan
import Rare.Proofs.C12Ext
import Rare.Proofs.C12Amd64
import Rare.Proofs.C12Utf8
import Rare.Proofs.C12LazyM
import Rare.Proofs.C12RxM
import Rare.Gen.C12
/-!
Property C12 – dissect matching equals its specification; ignore-case only adds matches.

Vocabulary (definitions in `Rare/Spec/C12.lean`, `Rare/Model/C12.lean`):

* `Pat` = leading literal + tokens `(key, trailing literal)`; `p.render` is the pattern TEXT
  `lit₀%{key₁}lit₁…`; `p.Shape` = literals contain no `%{`, keys contain no `}` (the grammar);
  every byte string that compiles is such a text (`compile_errors` covers texts ending in an
  unclosed token as well).
* `compileEx text ic` mirrors `dissect.CompileEx`; `matchAll d lines` mirrors
  `inst := d.CreateInstance(); for each line: inst.FindSubmatchIndex(line)` with the `IntPool`
  as explicit memory and every returned slice read only AFTER THE LAST CALL.
* `specDissect p line` / `specDissectIC p line` / `firstIndex` are the specification;
  `specFor ic` picks the one for the mode.

The model is of the code after the two `fix:` commits (F16: one byte-wise ASCII fold for pattern
and line; F17: a delimiter ends at the next `%{`).  With the old code `ci_monotone` was false
(`héllo=%{v}` vs `héllo=1`) – see `known_findings/C12.json`.
-/
namespace Rare.C12

/-- `firstIndex` is the least position where the needle is a prefix of the remainder. -/
theorem firstIndex_least (needle hay : Bytes) (i : Nat) :
    firstIndex needle hay = some i ↔
      (i ≤ hay.length ∧ needle <+: hay.drop i ∧ ∀ j < i, ¬ needle <+: hay.drop j) :=
  firstIndex_spec needle hay i

/-- **The result equals the specification** – for every well-formed pattern text that compiles
(either mode) and every SEQUENCE of lines matched by one instance, each index slice, re-read after
the last call, is exactly the specification's answer for its line (`none` = no match).
For `ic = false` the right-hand side is `specDissect p line`. -/
theorem dissect_eq_spec (ic : Bool) (p : Pat) (hp : p.Shape) (d : Dissect)
    (hc : compileEx p.render ic = .ok d) (lines : List Bytes) :
    matchAll d lines = .ok (lines.map fun l => (specFor ic p l).map (·.map Int.ofNat)) :=
  matchAll_eq hp hc lines

/-- **Every byte string is a pattern text**: `p.render` for a well-formed `p`, optionally followed
by an unclosed token – so `compile_errors` below decides `CompileEx` on ALL inputs. -/
theorem every_text_is_pattern (s : Bytes) :
    ∃ (p : Pat) (tail : Option Bytes), p.Shape ∧ (∀ j, tail = some j → rbrace ∉ j) ∧
      s = p.render ++ tailText tail :=
  parse_total s

/-- `dissect_eq_spec` for an arbitrary byte string as pattern: whatever compiles IS the text of a
well-formed pattern, and the results are that pattern's specification. -/
theorem dissect_eq_spec_all (ic : Bool) (pat : Bytes) (d : Dissect) (hc : compileEx pat ic = .ok d) :
    ∃ p : Pat, p.Shape ∧ pat = p.render ∧ ∀ lines : List Bytes,
      matchAll d lines = .ok (lines.map fun l => (specFor ic p l).map (·.map Int.ofNat)) := by
  obtain ⟨p, hp, hs⟩ := compiles_is_pattern hc
  exact ⟨p, hp, hs, fun lines => dissect_eq_spec ic p hp d (hs ▸ hc) lines⟩

/-- single line, case-sensitive: the statement of the property verbatim -/
theorem dissect_eq_spec_one (p : Pat) (hp : p.Shape) (d : Dissect)
    (hc : compileEx p.render false = .ok d) (line : Bytes) :
    matchAll d [line] = .ok [(specDissect p line).map (·.map Int.ofNat)] := by
  simpa [specFor] using dissect_eq_spec false p hp d hc [line]

/-- **All offsets are ordered and within the line**: a returned slice is
`[s, e, c₁s, c₁e, c₂s, c₂e, …]` with `s ≤ c₁s ≤ c₁e ≤ c₂s ≤ … ≤ e ≤ len(line)`; the first
capture starts no earlier than the end of the leading literal. -/
theorem offsets_ordered_in_line (ic : Bool) (p : Pat) (hp : p.Shape) (d : Dissect)
    (hc : compileEx p.render ic = .ok d) (line : Bytes) (r : List Int)
    (hr : matchAll d [line] = .ok [some r]) :
    ∃ (s e : Nat) (caps : List Nat), r = (s :: e :: caps).map Int.ofNat ∧
      (s :: (caps ++ [e])).Pairwise (· ≤ ·) ∧ e ≤ line.length ∧
      ∀ x ∈ caps, s + p.pre.length ≤ x := by
  rw [dissect_eq_spec ic p hp d hc] at hr
  simp only [List.map_cons, List.map_nil, Except.ok.injEq, List.cons.injEq, and_true] at hr
  cases hs : specFor ic p line with
  | none => rw [hs] at hr; cases hr
  | some r0 =>
    rw [hs] at hr
    simp only [Option.map_some, Option.some.injEq] at hr
    cases ic with
    | false =>
      obtain ⟨s, e, caps, h1, h2, h3, h4⟩ := specDissect_ordered (by simpa [specFor] using hs)
      exact ⟨s, e, caps, by rw [← hr, h1], h2, h3, h4⟩
    | true =>
      obtain ⟨s, e, caps, h1, h2, h3, h4⟩ :=
        specDissect_ordered (p := p.lowerLits) (line := lower line) (by simpa [specFor, specDissectIC] using hs)
      refine ⟨s, e, caps, by rw [← hr, h1], h2, by simpa [lower_length] using h3, ?_⟩
      simpa [Pat.lowerLits, lower_length] using h4

/-- **Compile errors.**  A pattern text is `p.render` optionally followed by an unclosed token
`%{junk` (`junk` without `}`).  `CompileEx` answers exactly what `specErrors` says: scanning the
tokens left to right, an empty trailing literal although something follows is `sequential`
(adjacent tokens), a captured name seen before is `conflict`, reaching the unclosed tail is
`unclosed`; otherwise the compiled structure is: tokens with (name, delimiter – lowered when
ignore-case –, skip flag), the (lowered) prefix, the name table numbering captured names 1, 2, …
and that count. -/
theorem compile_errors (ic : Bool) (p : Pat) (hp : p.Shape) (tail : Option Bytes)
    (htail : ∀ j, tail = some j → rbrace ∉ j) :
    compileEx (p.render ++ tailText tail) ic =
      match specErrors tail.isSome p.toks [] with
      | some e => .error (cerr e)
      | none => .ok { tokens := p.toks.map (tokOf ic), pre := if ic then lower p.pre else p.pre, ic := ic,
                      groupNames := nameTable p.toks, groupCount := capCount p.toks } :=
  compileEx_render ic p hp tail htail

/-- **Ignore-case only adds matches**: every line matched case-sensitively is matched with
ignore-case (same pattern text, all bytes – no ASCII restriction). -/
theorem ci_monotone (p : Pat) (hp : p.Shape) (d dI : Dissect)
    (hc : compileEx p.render false = .ok d) (hcI : compileEx p.render true = .ok dI)
    (line : Bytes) (r : List Int) (hr : matchAll d [line] = .ok [some r]) :
    ∃ r', matchAll dI [line] = .ok [some r'] := by
  rw [dissect_eq_spec false p hp d hc] at hr
  rw [dissect_eq_spec true p hp dI hcI]
  simp only [List.map_cons, List.map_nil, Except.ok.injEq, List.cons.injEq, and_true, specFor] at hr ⊢
  cases hs : specDissect p line with
  | none => simp [hs] at hr
  | some r0 =>
    obtain ⟨r', h'⟩ := specDissect_ci_mono hs
    exact ⟨r'.map Int.ofNat, by simp [h']⟩

/-- the two modes accept the same pattern texts -/
theorem ci_compiles_iff (p : Pat) (hp : p.Shape) :
    (∃ d, compileEx p.render false = .ok d) ↔ (∃ d, compileEx p.render true = .ok d) := by
  rw [compileEx_pat false p hp, compileEx_pat true p hp]
  cases specErrors false p.toks [] <;> simp

/-- **Ignore-case = case-sensitive on lower-cased pattern and line.**  `lower` lowers ASCII
letters byte-wise (on ASCII text this is `strings.ToLower`); `p.lowerLits` lowers the literals of
the pattern (key names do not influence offsets).  Holds for all bytes, in particular for ASCII
pattern and line; the lowered pattern is again a well-formed text and compiles whenever `p` does. -/
theorem ci_ascii (p : Pat) (hp : p.Shape) (dI : Dissect) (hcI : compileEx p.render true = .ok dI) :
    ∃ dL, compileEx p.lowerLits.render false = .ok dL ∧
      ∀ lines : List Bytes, matchAll dI lines = matchAll dL (lines.map lower) := by
  have hpl := shape_lowerLits hp
  have hok := (compileEx_ok hp hcI).1
  have hcl : compileEx p.lowerLits.render false = .ok (compiled false p.lowerLits) := by
    rw [compileEx_pat false p.lowerLits hpl]
    have : specErrors false p.lowerLits.toks [] = none := by
      simp only [Pat.lowerLits, specErrors_lowerLit, hok]
    rw [this]
  refine ⟨_, hcl, fun lines => ?_⟩
  rw [dissect_eq_spec true p hp dI hcI, dissect_eq_spec false p.lowerLits hpl _ hcl]
  simp [specFor, specDissectIC, Function.comp_def]

/-- **Slices handed out by `IntPool.Get` never overlap** – for every pool size and every sequence
of requests (across any number of refills): the views are pairwise disjoint, lie inside allocated
arrays, and have the requested lengths. -/
theorem pool_disjoint (size : Nat) (ns : List Nat) (vs : List View) (p' : Pool)
    (h : getMany (Pool.new size) ns = .ok (vs, p')) :
    vs.Pairwise View.Disjoint ∧ (∀ v ∈ vs, p'.Valid v) ∧ vs.map (·.len) = ns := by
  obtain ⟨_, _, _, hb, _, hpw, hl⟩ := getMany_spec ns (Pool.new size) (Pool.new_wf size) vs p' h
  exact ⟨hpw, fun v hv => (hb v hv).1, hl⟩

/-- `Get` panics only when a single request exceeds the pool size (never in dissect: the size is
1024 requests) -/
theorem pool_no_panic (size : Nat) (ns : List Nat) (h : ∀ n ∈ ns, n ≤ size) :
    ∃ vs p', getMany (Pool.new size) ns = .ok (vs, p') := by
  obtain ⟨vs, p', hm, _⟩ := getMany_succeeds ns (Pool.new size) (by simpa [Pool.new] using h)
  exact ⟨vs, p', hm⟩

/-- **Results returned for earlier lines are not altered by matching later lines**: what the
slices of the first lines hold after ALL calls is what they held after only those first calls. -/
theorem earlier_results_unaltered (ic : Bool) (p : Pat) (hp : p.Shape) (d : Dissect)
    (hc : compileEx p.render ic = .ok d) (lines more : List Bytes) :
    ∃ r rAll, matchAll d lines = .ok r ∧ matchAll d (lines ++ more) = .ok rAll ∧
      rAll.take lines.length = r := by
  refine ⟨_, _, dissect_eq_spec ic p hp d hc lines, dissect_eq_spec ic p hp d hc (lines ++ more), ?_⟩
  simp [List.map_append]

/-- the slices one instance returns for a sequence of lines are pairwise disjoint in the pool -/
theorem results_disjoint (ic : Bool) (p : Pat) (hp : p.Shape) (d : Dissect)
    (hc : compileEx p.render ic = .ok d) (lines : List Bytes) :
    ∃ vs s', runLines d.createInstance lines = .ok (vs, s') ∧
      (vs.filterMap id).Pairwise View.Disjoint := by
  rw [(compileEx_ok hp hc).2]
  have hcount : (compiled ic p).groupCount = capCount (if ic then p.toks.map Tok.lowerLit else p.toks) := by
    cases ic <;> simp [compiled, capCount_lowerLit]
  obtain ⟨vs, s', hr, _, _, _, _, _, hpw⟩ :=
    runLines_spec (if ic then p.toks.map Tok.lowerLit else p.toks) lines (compiled ic p).createInstance
      (tokRels_compiled ic p.toks) hcount (Pool.new_wf _)
      (by simp only [Dissect.createInstance, Pool.new]; omega)
  exact ⟨vs, s', hr, hpw⟩

/-- **Tie to the source (regenerated on every run)**: the pool sizing expressions of
`CreateInstance` / `FindSubmatchIndex` and the needles of `CompileEx`, extracted from the Go AST
into `Rare.Gen.C12`, are the ones the model uses; every request fits the pool 1024 times. -/
theorem gen_pool_sizing (d : Dissect) :
    d.createInstance.pool.size = Gen.C12.poolSize d.groupCount ∧
    (∀ g, Gen.C12.getSize g = g * 2 + 2) ∧
    (∀ g, 1024 * Gen.C12.getSize g ≤ Gen.C12.poolSize g) ∧
    Gen.C12.compileNeedles = [[pct, lbrace], [rbrace], [pct, lbrace]] := by
  refine ⟨by simp [Dissect.createInstance, Pool.new, Gen.C12.poolSize], fun g => rfl, ?_, by decide⟩
  intro g; simp only [Gen.C12.getSize, Gen.C12.poolSize]; omega

/-! ### Pattern compilation against the grammar of dissect patterns (`Spec/C12Grammar.lean`)

    pattern ::= literal ( "%{" key "}" literal )*      literal: no "%{" inside      key: no "}" inside

delimiters between adjacent tokens non-empty, names of capturing tokens pairwise different. -/

/-- **`CompileEx` succeeds iff the text is a pattern of the grammar** – for every byte string and
either mode.  `PatternText s` = there is a derivation `p` (`p.Grammar`: leading literal and every
delimiter free of `%{`, keys free of `}`, a non-empty delimiter between adjacent tokens, captured names
pairwise different) whose text `p.render` is `s`.  In particular a `%` that is not followed by `{` is
an ordinary literal byte wherever it stands (the repaired F17 behaviour), and a `%{` without a later
`}` is not derivable. -/
theorem compile_iff_pattern_grammar (s : Bytes) (ic : Bool) :
    (∃ d, compileEx s ic = .ok d) ↔ PatternText s :=
  compileEx_ok_iff_grammar s ic

/-- …and the compiled structure of a derivation: one token per grammar token with its name (without
the `?` flag), its delimiter EXACTLY as written (lowered when ignore-case) and its skip flag; the
(lowered) leading literal; the name table numbering the capturing tokens 1, 2, …; their count. -/
theorem compile_of_derivation (p : Pat) (g : p.Grammar) (ic : Bool) :
    compileEx p.render ic =
      .ok { tokens := p.toks.map (tokOf ic), pre := if ic then lower p.pre else p.pre, ic := ic,
            groupNames := nameTable p.toks, groupCount := capCount p.toks } :=
  compileEx_of_grammar p g ic

/-- Everything outside the grammar is rejected with one of the three Go errors (the model's `fuel`
error – "the loop did not terminate" – never occurs): "rejected" and "not a pattern" coincide.
Which of the three errors is reported is `compile_errors` (+ `every_text_is_pattern`). -/
theorem compile_rejects_iff_not_grammar (s : Bytes) (ic : Bool) :
    (∃ e, compileEx s ic = .error e ∧ e ≠ .fuel) ↔ ¬ PatternText s := by
  rw [← compile_iff_pattern_grammar s ic]
  constructor
  · rintro ⟨e, he, _⟩ ⟨d, hd⟩
    rw [hd] at he; cases he
  · intro hno
    cases hc : compileEx s ic with
    | ok d => exact absurd ⟨d, hc⟩ hno
    | error e => exact ⟨e, rfl, fun hf => compileEx_no_fuel s ic (hf ▸ hc)⟩

/-- The grammar is decidable by ONE left-to-right pass with two states (`scanPattern`: inside a
literal / inside a key; it never looks at `CompileEx`'s `strings.Index` searches).  The correspondence
runs this recogniser against the real `CompileEx` (op `grammar`). -/
theorem accepts_iff_grammar (s : Bytes) : acceptsPattern s = true ↔ PatternText s := by
  rw [← compile_iff_pattern_grammar s false]
  exact accepts_iff_compiles s false

/-- A `%` not followed by `{`, a lone `{` and a `}` are literal bytes: a text without the two-byte
sequence `%{` is a pattern (with no token), compiles, and its whole text is the leading literal. -/
theorem bare_percent_is_literal (s : Bytes) (h : ¬ tokOpen <:+: s) (ic : Bool) :
    PatternText s ∧ compileEx s ic = .ok (compiled ic ⟨s, []⟩) := by
  have g : (⟨s, []⟩ : Pat).Grammar := ⟨h, by simp, by simp, trivial, by simp [capturedNames]⟩
  have hr : (⟨s, []⟩ : Pat).render = s := by simp [Pat.render]
  exact ⟨⟨⟨s, []⟩, g, hr.symm⟩, by simpa [hr] using compileEx_of_grammar ⟨s, []⟩ g ic⟩

/-- **Tie to the source (regenerated on every run)**: the searches, the slice expressions and the
branch conditions of `CompileEx` printed from the Go AST are the ones `compileStep` mirrors:
`start := Index(expr, "%{")`, `expr[start+2:]`, `stop := Index(expr, "}")`, `expr[:stop]`,
`expr[stop+1:]`, `end := Index(expr, "%{")` (NOT a search for a bare `%`), `end == 0` = sequential,
`keyName[0] == '?'` = named skip, the duplicate test on `groupNames`. -/
theorem compile_code_matches_source :
    Gen.C12.compileSearches = [("strings.Index", [37, 123]), ("strings.Index", [125]), ("strings.Index", [37, 123])] ∧
    Gen.C12.compileSlices = ["expr[:start]", "expr[start+2:]", "expr[:stop]", "expr[stop+1:]", "expr[:end]", "expr[end:]", "keyName[1:]"] ∧
    Gen.C12.compileConds = ["start < 0", "len(parts) == 0", "len(parts) == 0", "stop < 0", "end < 0", "end == 0",
      "ignoreCase", "len(keyName) == 0", "keyName[0] == '?'", "!skipped", "_, ok := groupNames[keyName]; ok", "ignoreCase"] := by
  decide


/-! ### Round 4 – what Go runs behind `strings.Index`, the exact fold, named slots, source ties -/

/-- **`strings.Index` is no longer "by contract"**: the executable mirror of go1.23
`stringslite.Index` (`goIndex`: the four `switch` arms, the `IndexByte`-skip loop with its `fails`
cut-over, `IndexRabinKarp` with the wrap-around `uint32` rolling hash and `HashStr`'s
square-and-multiply `pow`) returns, for ALL byte strings, the contract value `stringsIndex` the
dissect model is written against.  (The amd64 assembly `bytealg.IndexString` used for needles of at
most 63 bytes stays an oracle; the correspondence op `index` runs the real `strings.Index` and
`bytes.Index` against `goIndex`.) -/
theorem go_index_eq_contract (s sub : Bytes) : goIndex s sub = stringsIndex s sub :=
  goIndex_eq s sub

/-- …spelled out: `goIndex` is the LEAST position where the needle is a prefix of the remainder,
`-1` exactly when there is none, and never one of the model's "Go would panic" (`-3`) / "fuel"
(`-2`) sentinels – the index expressions `s[i]`, `s[i+1]`, `s[i-n]` of the loops stay in range. -/
theorem go_index_least (s sub : Bytes) :
    (∀ i : Nat, goIndex s sub = (i : Int) ↔
      (i ≤ s.length ∧ sub <+: s.drop i ∧ ∀ j < i, ¬ sub <+: s.drop j)) ∧
    (goIndex s sub = -1 ↔ ∀ k ≤ s.length, ¬ sub <+: s.drop k) ∧
    -1 ≤ goIndex s sub := by
  rw [goIndex_eq]
  refine ⟨fun i => ?_, ?_, stringsIndex_ge s sub⟩
  · rw [← firstIndex_spec]
    unfold stringsIndex
    cases firstIndex sub s <;> simp <;> omega
  · rw [← firstIndex_none_iff]
    unfold stringsIndex
    cases firstIndex sub s <;> simp <;> omega

/-- the edge cases the property text names: the empty needle is found at 0 (also in the empty
string), a needle longer than the hay is not found, a string is found in itself at 0 -/
theorem go_index_edges (s sub : Bytes) :
    goIndex s [] = 0 ∧ (s.length < sub.length → goIndex s sub = -1) ∧ goIndex s s = 0 := by
  refine ⟨by simp [goIndex, goIndexWith], fun h => ?_, ?_⟩
  · rw [goIndex_eq]
    simp [stringsIndex, firstIndex_none_of_short h]
  · rw [goIndex_eq]
    simpa using stringsIndex_of_least (s := s) (sub := s) (i := 0) (by omega) (by simp) (by omega)

/-- `bytealg.IndexRabinKarp` (the fall-back of long searches) computes the contract whenever Go may
call it, i.e. `len(sep) ≤ len(s)` – hash collisions cannot produce a wrong answer (every hash hit
is verified) and the rolling hash cannot miss an occurrence (it IS the hash of the window, in
`uint32` arithmetic). -/
theorem rabin_karp_eq_contract (s sub : Bytes) (h : sub.length ≤ s.length) :
    indexRabinKarp s sub = stringsIndex s sub :=
  indexRabinKarp_eq s sub h

/-- **`indexIgnoreCase` (case.go), all four `switch` arms and both loops**, for ANY second argument
(also one that is not lowered, also the empty one): the least position where it is a prefix of the
byte-wise ASCII-lowered line. -/
theorem index_ignore_case_contract (s low : Bytes) :
    indexIgnoreCase s low = goIndex (lower s) low ∧
    (∀ i : Nat, indexIgnoreCase s low = (i : Int) ↔
      (i ≤ s.length ∧ low <+: lower (s.drop i) ∧ ∀ j < i, ¬ low <+: lower (s.drop j))) := by
  refine ⟨by rw [indexIgnoreCase_eq, goIndex_eq], fun i => ?_⟩
  rw [indexIgnoreCase_eq]
  have := (go_index_least (lower s) low).1 i
  rw [goIndex_eq] at this
  simpa [lower_length, lower_drop] using this

/-- the search function a compiled pattern installs (`indexOf`) is one of the two executable
searches: `strings.Index` as Go runs it, or `indexIgnoreCase` -/
theorem dissect_runs_go_index (d : Dissect) (src of_ : Bytes) :
    d.indexOf src of_ = if d.ic then indexIgnoreCase src of_ else goIndex src of_ := by
  simp [Dissect.indexOf, goIndex_eq]

/-- **The fold of ignore-case, exactly** (`lowerASCII`'s `for i := range b` loop = `lower`): it is
positional and length-preserving – byte `i` of the folded text is `lowerByte` of byte `i` – so every
offset computed on the folded line IS an offset of the original line; it changes `A`–`Z` only, in
particular no byte ≥ 0x80 (no UTF-8 lead or continuation byte), and it is idempotent. -/
theorem ci_fold_exact (s : Bytes) :
    lowerASCII s = lower s ∧ (lower s).length = s.length ∧
    (∀ i : Nat, (lower s)[i]? = s[i]?.map lowerByte) ∧
    (∀ c : UInt8, ¬ (65 ≤ c ∧ c ≤ 90) → lowerByte c = c) ∧
    (∀ c : UInt8, 65 ≤ c ∧ c ≤ 90 → lowerByte c = c + 32) ∧
    lower (lower s) = lower s := by
  refine ⟨lowerASCII_eq s, lower_length s, lower_getElem? s, fun c h => lowerByte_of_not_upper h,
    fun c h => by simp [lowerByte, h], ?_⟩
  apply lower_of_noUpper
  intro c hc
  simp only [lower, List.mem_map] at hc
  obtain ⟨x, _, hx⟩ := hc
  rw [← hx]
  unfold lowerByte
  split
  · rename_i h
    have h1 := UInt8.le_iff_toNat_le.mp h.1
    have h2 := UInt8.le_iff_toNat_le.mp h.2
    intro h'
    have h3 := UInt8.le_iff_toNat_le.mp h'.2
    simp only [UInt8.toNat_add] at h3
    simp at h1 h2 h3
    omega
  · rename_i h; exact h

/-- **Offsets of an ignore-case match index the ORIGINAL line**: the reported start `s` satisfies
`s + len(prefix) ≤ len(line)`, the original bytes `line[s : s+len(prefix)]` fold to the folded
leading literal, and no earlier position of the original line does. -/
theorem ci_offsets_index_original (p : Pat) (hp : p.Shape) (dI : Dissect)
    (hcI : compileEx p.render true = .ok dI) (line : Bytes) (r : List Int)
    (hr : matchAll dI [line] = .ok [some r]) :
    ∃ (s : Nat) (rest : List Int), r = (s : Int) :: rest ∧ s + p.pre.length ≤ line.length ∧
      lower ((line.drop s).take p.pre.length) = lower p.pre ∧
      ∀ j < s, ¬ lower p.pre <+: lower (line.drop j) := by
  rw [dissect_eq_spec true p hp dI hcI] at hr
  simp only [List.map_cons, List.map_nil, Except.ok.injEq, List.cons.injEq, and_true, specFor, if_true] at hr
  cases hs : specDissectIC p line with
  | none => simp [hs] at hr
  | some r0 =>
    rw [hs] at hr
    simp only [Option.map_some, Option.some.injEq] at hr
    obtain ⟨s, rest, h1, h2, h3, h4⟩ := specDissectIC_leading hs
    exact ⟨s, rest.map Int.ofNat, by rw [← hr, h1]; rfl, h2, h3, h4⟩

/-- `ci_monotone`, quantitatively (all bytes): when the case-sensitive run matches a line with `{0}`
= `[s, e)`, the ignore-case run matches it with `{0}` = `[s', e')` where `s' ≤ s` and `e' ≤ e` – the
leading literal and every delimiter are found no later – and with the same number of captures.
(`ci_boundary_counterexamples` shows `s' < s` happens.) -/
theorem ci_monotone_no_later (p : Pat) (hp : p.Shape) (d dI : Dissect)
    (hc : compileEx p.render false = .ok d) (hcI : compileEx p.render true = .ok dI)
    (line : Bytes) (r : List Int) (hr : matchAll d [line] = .ok [some r]) :
    ∃ (s e s' e' : Nat) (caps caps' : List Int), r = (s : Int) :: (e : Int) :: caps ∧
      matchAll dI [line] = .ok [some ((s' : Int) :: (e' : Int) :: caps')] ∧
      s' ≤ s ∧ e' ≤ e ∧ caps'.length = caps.length := by
  rw [dissect_eq_spec false p hp d hc] at hr
  rw [dissect_eq_spec true p hp dI hcI]
  simp only [List.map_cons, List.map_nil, Except.ok.injEq, List.cons.injEq, and_true, specFor,
    Bool.false_eq_true, if_false, if_true] at hr ⊢
  cases hs : specDissect p line with
  | none => simp [hs] at hr
  | some r0 =>
    rw [hs] at hr
    simp only [Option.map_some, Option.some.injEq] at hr
    obtain ⟨s, e, caps, s', e', caps', h1, h2, h3, h4, h5⟩ := specDissect_ci_mono_le hs
    refine ⟨s, e, s', e', caps.map Int.ofNat, caps'.map Int.ofNat, by rw [← hr, h1]; rfl, ?_, h3, h4, by simp [h5]⟩
    rw [h2]; rfl

/-- **Where the two modes coincide**: when neither the line nor the literals of the pattern contain
an ASCII upper-case letter (any other bytes, e.g. arbitrary UTF-8, are allowed) ignore-case matching
IS case-sensitive matching – same matches, same offsets. -/
theorem ci_eq_cs_without_upper (p : Pat) (hp : p.Shape) (d dI : Dissect)
    (hc : compileEx p.render false = .ok d) (hcI : compileEx p.render true = .ok dI)
    (hpre : NoUpper p.pre) (hlits : ∀ t ∈ p.toks, NoUpper t.lit)
    (lines : List Bytes) (hl : ∀ l ∈ lines, NoUpper l) :
    matchAll dI lines = matchAll d lines := by
  rw [dissect_eq_spec true p hp dI hcI, dissect_eq_spec false p hp d hc]
  congr 1
  apply List.map_congr_left
  intro l hlm
  simp only [specFor, if_true, Bool.false_eq_true, if_false]
  rw [specDissectIC_of_noUpper (hl l hlm) hpre hlits]

/-- …and just outside that class they differ, in both ways (kernel-checked witnesses).
(1) The fold is ASCII-only: the pattern `É=%{v}` does not match the line `é=1` with ignore-case
although U+00C9 lower-cases to U+00E9 (nor does U+212A KELVIN SIGN match `k`).
(2) With an upper-case letter in the line, both modes may match and report DIFFERENT offsets:
`a=%{v}` on `A=1 a=2` gives `[4,7,6,7]` case-sensitively and `[0,7,2,7]` with ignore-case
(ignore-case finds the earlier `A=`), so `ci_monotone` cannot be strengthened to equal results. -/
theorem ci_boundary_counterexamples :
    matchAll (compiled true ⟨[195, 137, 61], [⟨[118], []⟩]⟩) [[195, 169, 61, 49]] = .ok [none] ∧
    matchAll (compiled true ⟨[226, 132, 170, 61], [⟨[118], []⟩]⟩) [[107, 61, 49]] = .ok [none] ∧
    matchAll (compiled false ⟨[97, 61], [⟨[118], []⟩]⟩) [[65, 61, 49, 32, 97, 61, 50]] = .ok [some [4, 7, 6, 7]] ∧
    matchAll (compiled true ⟨[97, 61], [⟨[118], []⟩]⟩) [[65, 61, 49, 32, 97, 61, 50]] = .ok [some [0, 7, 2, 7]] := by
  simp only [matchAll_compiled, Except.ok.injEq]
  decide

/-- **Named-field view** (`SubexpNameTable` + the index slice): a result has exactly
`2·groupCount + 2` entries, and for every entry `(name, i)` of the name table, `name` is the `i`-th
capturing token of the pattern (1-based, in pattern order) and the slots `r[2i]`, `r[2i+1]` exist,
are ordered, and lie inside the line – so `line[r[2i]:r[2i+1]]` never panics. -/
theorem named_slots (ic : Bool) (p : Pat) (hp : p.Shape) (d : Dissect)
    (hc : compileEx p.render ic = .ok d) (line : Bytes) (r : List Int)
    (hr : matchAll d [line] = .ok [some r]) :
    r.length = 2 * d.groupCount + 2 ∧
    ∀ nm i, (nm, i) ∈ d.groupNames →
      1 ≤ i ∧ i ≤ d.groupCount ∧ (capturedNames p.toks)[i - 1]? = some nm ∧
      ∃ a b : Nat, r[2 * i]? = some (a : Int) ∧ r[2 * i + 1]? = some (b : Int) ∧ a ≤ b ∧ b ≤ line.length := by
  have hd := (compileEx_ok hp hc).2
  rw [dissect_eq_spec ic p hp d hc] at hr
  simp only [List.map_cons, List.map_nil, Except.ok.injEq, List.cons.injEq, and_true] at hr
  cases hs : specFor ic p line with
  | none => simp [hs] at hr
  | some r0 =>
    rw [hs] at hr
    simp only [Option.map_some, Option.some.injEq] at hr
    obtain ⟨hlen, hslot⟩ := specFor_slots hs
    subst hd
    refine ⟨by rw [← hr]; simpa [compiled] using hlen, fun nm i hm => ?_⟩
    have hm' : (nm, i) ∈ nameTable p.toks := hm
    obtain ⟨h1, h2⟩ := mem_nameTable.mp hm'
    have hi : i ≤ capCount p.toks := by
      rw [capCount_eq_names]
      rcases Nat.lt_or_ge (i - 1) (capturedNames p.toks).length with h' | h'
      · omega
      · rw [List.getElem?_eq_none h'] at h2; cases h2
    obtain ⟨a, b, ha, hb, hab, hbl⟩ := hslot i h1 hi
    refine ⟨h1, hi, h2, a, b, ?_, ?_, hab, hbl⟩
    · rw [← hr]; simp [ha]
    · rw [← hr]; simp [hb]

/-- The name table of a compiled pattern is a function (a Go map): a name has ONE index, the
indices are exactly `1 … groupCount`, and skipped tokens (`%{}`, `%{?name}`) have no entry even when
a captured token carries the same name. -/
theorem name_table_is_map (s : Bytes) (ic : Bool) (d : Dissect) (hc : compileEx s ic = .ok d) :
    (∀ nm i j, (nm, i) ∈ d.groupNames → (nm, j) ∈ d.groupNames → i = j) ∧
    (∀ i, 1 ≤ i → i ≤ d.groupCount → ∃ nm, (nm, i) ∈ d.groupNames) ∧
    d.groupNames.length = d.groupCount := by
  obtain ⟨p, g, hs⟩ := (compile_iff_pattern_grammar s ic).mp ⟨d, hc⟩
  have hd : d = compiled ic p := by
    have := compile_of_derivation p g ic
    rw [← hs, hc] at this
    exact Except.ok.inj this
  subst hd
  refine ⟨fun nm i j hi hj => nameTable_functional g.names hi hj, fun i h1 h2 => ?_, ?_⟩
  · have h2' : i - 1 < (capturedNames p.toks).length := by
      have : i ≤ capCount p.toks := h2
      rw [capCount_eq_names] at this; omega
    exact ⟨(capturedNames p.toks)[i - 1], mem_nameTable.mpr ⟨h1, List.getElem?_eq_getElem h2'⟩⟩
  · show (nameTable p.toks).length = capCount p.toks
    rw [nameTable_eq, capCount_eq_names]; simp

/-- **Instances and goroutines**: `FindSubmatchIndex` never changes the compiled pattern – the
instance it returns carries the same `Dissect` – so all it mutates is the instance's own pool.
Together with `find_access_table` (the real method assigns nothing through its receiver and the
only receiver calls are `s.indexOf` and `s.groupPool.Get`) and the wiring (each extractor worker
calls `CreateInstance` once: `pkg/extractor/extractor.go asyncWorker`) instances of one pattern on
different goroutines share only read-only data. -/
theorem find_preserves_dissect (s s' : Instance) (str : Bytes) (r : Option View)
    (h : findSubmatchIndex s str = .ok (r, s')) : s'.d = s.d :=
  find_same_dissect h

/-- **Two instances of one compiled pattern do not disturb each other** (two extractor workers):
for EVERY interleaving of calls to two instances created from the same `Dissect` the run succeeds,
and what each instance's slices hold after all calls is the specification's answer for the lines
THAT instance was given, in order – as if the other instance did not exist. -/
theorem instances_independent (ic : Bool) (p : Pat) (hp : p.Shape) (d : Dissect)
    (hc : compileEx p.render ic = .ok d) (sched : List (Bool × Bytes)) :
    ∃ rs a' b', runTwo d.createInstance d.createInstance sched = .ok (rs, a', b') ∧
      (pick true rs).map (·.map a'.pool.read) =
        (pick true sched).map (fun l => (specFor ic p l).map (·.map Int.ofNat)) ∧
      (pick false rs).map (·.map b'.pool.read) =
        (pick false sched).map (fun l => (specFor ic p l).map (·.map Int.ofNat)) := by
  obtain ⟨va, a', ha, _⟩ := results_disjoint ic p hp d hc (pick true sched)
  obtain ⟨vb, b', hb, _⟩ := results_disjoint ic p hp d hc (pick false sched)
  obtain ⟨rs, hrs⟩ := runTwo_ok sched _ _ va a' vb b' ha hb
  obtain ⟨h1, h2⟩ := runTwo_split sched _ _ rs a' b' hrs
  refine ⟨rs, a', b', hrs, ?_, ?_⟩
  · have := dissect_eq_spec ic p hp d hc (pick true sched)
    simp only [matchAll, h1, Except.ok.injEq] at this
    exact this
  · have := dissect_eq_spec ic p hp d hc (pick false sched)
    simp only [matchAll, h2, Except.ok.injEq] at this
    exact this

/-- **Tie to the source (regenerated on every run)**: what `FindSubmatchIndex` and `IntPool.Get` do
through their receivers, from the Go AST: `FindSubmatchIndex` assigns nothing through `s` (all its
assignments go to locals and to the fresh slice `ret`), its receiver calls are the two searches and
one `Get`; `Get` writes `s.pool` only. -/
theorem find_access_table :
    Gen.C12.findReceiverWrites = [] ∧
    Gen.C12.findReceiverCalls = ["s.indexOf", "s.groupPool.Get", "s.indexOf"] ∧
    Gen.C12.poolGetReceiverWrites = ["s.pool", "s.pool"] := by
  decide

/-- **Tie to the source**: the match loop of `FindSubmatchIndex` statement by statement – the
guard on the empty prefix, `start += len(s.prefix)`, `ret[0] = start - len(s.prefix)`, the empty
delimiter taking `len(str[start:])`, the search in `str[start:]`, the two capture slots and
`idx += 2` under `!token.skip`, `start + endOffset + len(token.until)`, `ret[1] = start` – is the
text `findSubmatchIndex` / `tokenLoop` of the model mirror. -/
theorem find_code_matches_source :
    Gen.C12.findSkeleton =
      ["str := *(*string)(unsafe.Pointer(&b))", "start := 0", "if s.prefix != \"\"",
       "start = s.indexOf(str, s.prefix)", "if start < 0", "return nil", "end",
       "start += len(s.prefix)", "end", "ret := s.groupPool.Get(s.groupCount*2 + 2)",
       "ret[0] = start - len(s.prefix)", "idx := 2", "range _, token := s.tokens", "endOffset := 0",
       "if token.until == \"\"", "endOffset = len(str[start:])", "else",
       "endOffset = s.indexOf(str[start:], token.until)", "if endOffset < 0", "return nil", "end", "end",
       "if !token.skip", "ret[idx] = start", "ret[idx+1] = start + endOffset", "idx += 2", "end",
       "start = start + endOffset + len(token.until)", "end", "ret[1] = start", "return ret"] := by
  decide

/-- **Tie to the source**: the WHOLE of `CompileEx`, statement by statement – in particular which
search function is installed (`indexOfFunc := strings.Index`, `indexOfFunc = indexIgnoreCase` under
`ignoreCase`), that both the delimiters and the prefix are lowered with `lowerASCII`, and the fields
of the returned `Dissect` – is the text `compileStep` / `compileEx` mirror (`compile_code_matches_source`
pins searches, slices and conditions only). -/
theorem compile_skeleton_matches_source :
    Gen.C12.compileSkeleton =
      ["parts := make([]token, 0)", "groupNames := make(map[string]int)", "var prefix string",
       "groupIndex := 0", "for ; ; ", "start := strings.Index(expr, \"%{\")", "if start < 0",
       "if len(parts) == 0", "prefix = expr", "end", "break", "end", "if len(parts) == 0",
       "prefix = expr[:start]", "end", "expr = expr[start+2:]", "stop := strings.Index(expr, \"}\")",
       "if stop < 0", "return nil, ErrorUnclosedToken", "end", "keyName := expr[:stop]",
       "expr = expr[stop+1:]", "end := strings.Index(expr, \"%{\")", "if end < 0", "end = len(expr)", "else",
       "if end == 0", "return nil, ErrorSequentialToken", "end", "end", "keyUntil := expr[:end]",
       "expr = expr[end:]", "if ignoreCase", "keyUntil = lowerASCII(keyUntil)", "end", "skipped := false",
       "switch", "case len(keyName) == 0", "skipped = true", "case keyName[0] == '?'", "skipped = true",
       "keyName = keyName[1:]", "end",
       "parts = append(parts, token{ name: keyName, until: keyUntil, skip: skipped, })", "if !skipped",
       "if _, ok := groupNames[keyName]; ok", "return nil, ErrorKeyConflict", "end", "groupIndex++",
       "groupNames[keyName] = groupIndex", "end", "end", "indexOfFunc := strings.Index", "if ignoreCase",
       "indexOfFunc = indexIgnoreCase", "prefix = lowerASCII(prefix)", "end",
       "return &Dissect{ groupNames: groupNames, groupCount: groupIndex, tokens: parts, prefix: prefix, indexOf: indexOfFunc, }, nil"] := by
  rfl

/-- **Tie to the source**: `indexIgnoreCase` (four arms, loop bounds `i < n`, `i <= len(s)-n`,
`j < n`, the comparison `lowerByte(s[i+j]) != loweredSubstr[j]`) and `lowerASCII`, statement by
statement, are what `indexIgnoreCase` / `icLoop` / `foldEq` / `lowerASCIILoop` mirror. -/
theorem ic_code_matches_source :
    Gen.C12.icSkeleton =
      ["n := len(loweredSubstr)", "switch", "case n == 0", "return 0", "case len(s) < n", "return -1",
       "case len(s) == n", "for i := 0; i < n; i++", "if lowerByte(s[i]) != loweredSubstr[i]", "return -1",
       "end", "end", "return 0", "default", "for i := 0; i <= len(s)-n; i++", "match := true",
       "for j := 0; j < n; j++", "if lowerByte(s[i+j]) != loweredSubstr[j]", "match = false", "break",
       "end", "end", "if match", "return i", "end", "end", "return -1", "end"] ∧
    Gen.C12.lowerASCIISkeleton =
      ["b := []byte(s)", "range i := b", "b[i] = lowerByte(b[i])", "end", "return string(b)"] := by
  decide

/-- **Tie to the source**: `IntPool.Get` and `CreateInstance`, statement by statement (refill test
`len(s.pool) < n`, panic test `n > s.size`, `ret = s.pool[:n]`, `s.pool = s.pool[n:]`; nothing is
ever handed back) are what `Pool.get` / `createInstance` mirror. -/
theorem pool_code_matches_source :
    Gen.C12.poolGetSkeleton =
      ["if len(s.pool) < n", "if n > s.size", "panic(\"pool not large enough\")", "end",
       "s.pool = make([]int, s.size)", "end", "ret = s.pool[:n]", "s.pool = s.pool[n:]", "return"] ∧
    Gen.C12.createInstanceSkeleton =
      ["return &DissectInstance{ s, slicepool.NewIntPool((s.groupCount*2 + 2) * 1024), }"] := by
  decide

/-- `MustCompile` panics exactly on the texts outside the grammar (and `Compile` is the
case-sensitive `CompileEx`). -/
theorem must_compile_panics_iff_not_pattern (s : Bytes) :
    (∃ m, mustCompile s = .error m) ↔ ¬ PatternText s := by
  rw [← compile_iff_pattern_grammar s false]
  unfold mustCompile compile
  cases compileEx s false with
  | ok d => simp
  | error e => simp

/-- **Tie to the source**: `lowerByte` of case.go, translated from the Go AST (`'A' <= c && c <=
'Z'`, `c + ('a' - 'A')`), is the fold of the specification on every byte. -/
theorem gen_lowerByte_eq (c : UInt8) : Gen.C12.lowerByte c = lowerByte c := by
  simp [Gen.C12.lowerByte, lowerByte]

/-! ### Round 4b – histories on one instance, the amd64 arm of `strings.Index`, state of the types -/

/-- **The answer for a line does not depend on what the instance matched before or after**
("forall sequences of lines matched by one instance"): in ANY history `hist ++ line :: more` run by
one instance, the slice returned for `line` – re-read after the last call – is the answer a fresh
instance gives for `line` alone.  An instance that remembered anything about earlier lines (a column
at which a literal was found, a previous result) and let it influence a later answer would make this
false; the correspondence op `hist` runs the real code three ways (one instance / fresh instance per
line / one instance over a re-used buffer) on histories built to tempt such a memory. -/
theorem history_independent (ic : Bool) (p : Pat) (hp : p.Shape) (d : Dissect)
    (hc : compileEx p.render ic = .ok d) (hist : List Bytes) (line : Bytes) (more : List Bytes) :
    ∃ before r after, matchAll d (hist ++ line :: more) = .ok (before ++ r :: after) ∧
      before.length = hist.length ∧ matchAll d [line] = .ok [r] := by
  refine ⟨hist.map fun l => (specFor ic p l).map (·.map Int.ofNat), (specFor ic p line).map (·.map Int.ofNat),
    more.map fun l => (specFor ic p l).map (·.map Int.ofNat), ?_, by simp, ?_⟩
  · rw [dissect_eq_spec ic p hp d hc]; simp
  · rw [dissect_eq_spec ic p hp d hc]; simp

/-- …hence the ORDER in which one instance is given the lines is irrelevant: a permutation of the
lines yields the same permutation of the results (batches may reach a worker in any order). -/
theorem order_irrelevant (ic : Bool) (p : Pat) (hp : p.Shape) (d : Dissect)
    (hc : compileEx p.render ic = .ok d) (l₁ l₂ : List Bytes) (h : l₁.Perm l₂) :
    ∃ r₁ r₂, matchAll d l₁ = .ok r₁ ∧ matchAll d l₂ = .ok r₂ ∧ r₁.Perm r₂ :=
  ⟨_, _, dissect_eq_spec ic p hp d hc l₁, dissect_eq_spec ic p hp d hc l₂, h.map _⟩

/-- **The leading literal is located at its FIRST occurrence – after any history, in both modes.**
Whatever lines the instance matched before, a match of `line` starts at an `s` with
`s + len(prefix) ≤ len(line)`, the bytes `line[s : s+len(prefix)]` equal the prefix (after the mode's
fold: identity, or the byte-wise ASCII fold for ignore-case), and NO earlier position `j < s` holds
the (folded) prefix.  (`ci_offsets_index_original` is the single-line ignore-case instance.) -/
theorem leading_literal_first (ic : Bool) (p : Pat) (hp : p.Shape) (d : Dissect)
    (hc : compileEx p.render ic = .ok d) (hist : List Bytes) (line : Bytes)
    (before : List (Option (List Int))) (r : List Int)
    (h : matchAll d (hist ++ [line]) = .ok (before ++ [some r])) (hlen : before.length = hist.length) :
    ∃ (s : Nat) (rest : List Int), r = (s : Int) :: rest ∧ s + p.pre.length ≤ line.length ∧
      foldFor ic ((line.drop s).take p.pre.length) = foldFor ic p.pre ∧
      ∀ j < s, ¬ foldFor ic p.pre <+: foldFor ic (line.drop j) := by
  rw [dissect_eq_spec ic p hp d hc] at h
  simp only [List.map_append, List.map_cons, List.map_nil, Except.ok.injEq] at h
  have h2 := (List.append_inj h (by simp [hlen])).2
  simp only [List.cons.injEq, and_true] at h2
  cases hs : specFor ic p line with
  | none => rw [hs] at h2; cases h2
  | some r0 =>
    rw [hs] at h2
    simp only [Option.map_some, Option.some.injEq] at h2
    cases ic with
    | false =>
      obtain ⟨s, rest, h1, h3, h4, h5⟩ := specDissect_leading (by simpa [specFor] using hs)
      exact ⟨s, rest.map Int.ofNat, by rw [← h2, h1]; rfl, h3, by simpa [foldFor] using h4, by simpa [foldFor] using h5⟩
    | true =>
      obtain ⟨s, rest, h1, h3, h4, h5⟩ := specDissectIC_leading (by simpa [specFor] using hs)
      exact ⟨s, rest.map Int.ofNat, by rw [← h2, h1]; rfl, h3, by simpa [foldFor] using h4, by simpa [foldFor] using h5⟩

/-- Kernel-checked histories in which a remembered column would be valid evidence for a wrong answer.
(1) `id=%{v};` on `xxxxxid=1;` (prefix at column 5) and then `id=2;id=3;` (prefix at column 0 AND at
column 5): the second answer is `[0,5,3,4]` (v = `2`), not `[5,10,8,9]`.  (2) `a%{v}b` on `..a1b` and
then `aba`: `[0,2,1,1]` – starting at the remembered column 2 there would be no match at all.
(3) the same as (1) with ignore-case and mixed-case lines.  (4) ignore-case finds the first occurrence
in ANY case: `user=%{u} msg=%{m}` on `USER=bob MSG=hello user=x msg=y` gives u = `bob` ([5,8]), not `x`. -/
theorem history_witnesses :
    matchAll (compiled false histPat)
      [[120, 120, 120, 120, 120, 105, 100, 61, 49, 59], [105, 100, 61, 50, 59, 105, 100, 61, 51, 59]] =
      .ok [some [5, 10, 8, 9], some [0, 5, 3, 4]] ∧
    matchAll (compiled false ⟨[97], [⟨[118], [98]⟩]⟩) [[46, 46, 97, 49, 98], [97, 98, 97]] =
      .ok [some [2, 5, 3, 4], some [0, 2, 1, 1]] ∧
    matchAll (compiled true histPat)
      [[120, 120, 120, 120, 120, 105, 100, 61, 49, 59], [73, 100, 61, 50, 59, 105, 68, 61, 51, 59]] =
      .ok [some [5, 10, 8, 9], some [0, 5, 3, 4]] ∧
    matchAll (compiled true ⟨[117, 115, 101, 114, 61], [⟨[117], [32, 109, 115, 103, 61]⟩, ⟨[109], []⟩]⟩)
      [[85, 83, 69, 82, 61, 98, 111, 98, 32, 77, 83, 71, 61, 104, 101, 108, 108, 111, 32,
        117, 115, 101, 114, 61, 120, 32, 109, 115, 103, 61, 121]] = .ok [some [0, 31, 5, 8, 13, 31]] := by
  simp only [matchAll_compiled, Except.ok.injEq]
  decide

/-- **`strings.Index` as this platform runs it** (go1.23 `stringslite.Index` compiled for amd64):
the arm `case n <= bytealg.MaxLen` – a hay of at most `MaxBruteForce` = 64 bytes goes straight to the
assembly routine `bytealg.IndexString`, a longer one through the `IndexByte`-skip loop that hands the
rest `s[i:]` to `IndexString` once `fails > Cutover(i) = (i+16)/8` – and for longer needles the
portable loop with Rabin–Karp.  For EVERY `MaxLen` (63 with AVX2, 31 without) and every routine `asm`
that meets the documented contract of `IndexString` on needles of `2 … MaxLen` bytes (any hay, also
one shorter than the needle – the loop does hand it such a rest), the result is the contract
`stringsIndex` for ALL byte strings.  So the only thing taken on trust for needles up to 63 bytes is
the assembly routine itself (compared by the `index` op); the dispatch around it is proved. -/
theorem go_index_amd64_eq_contract (maxLen : Nat) (asm : Bytes → Bytes → Int)
    (hasm : ∀ s' u : Bytes, 2 ≤ u.length → u.length ≤ maxLen → asm s' u = stringsIndex s' u)
    (s sub : Bytes) :
    goIndexAmd64 maxLen asm s sub = stringsIndex s sub ∧ goIndexAmd64 maxLen asm s sub = goIndex s sub := by
  have h := goIndexAmd64_eq maxLen asm hasm s sub
  exact ⟨h, by rw [h, goIndex_eq]⟩

/-- With `MaxLen = 0` (a platform without the assembly routine) the amd64 text IS the portable
search: the oracle is never consulted. -/
theorem go_index_amd64_no_asm (asm : Bytes → Bytes → Int) (s sub : Bytes) :
    goIndexAmd64 0 asm s sub = goIndex s sub := by
  rw [(go_index_amd64_eq_contract 0 asm (fun _ u h2 h0 => by omega) s sub).2]

/-- **Tie to the source (regenerated on every run)**: the STATE of the types.  A `DissectInstance`
is the shared `*Dissect` plus its pool and nothing else (the model's `Instance`: `d`, `pool`) – there
is no field in which an instance could remember anything about earlier lines; `Dissect` has the five
fields of the model's `Dissect` (the function value `indexOf` is the model's flag `ic`), a token is
(name, until, skip), an `IntPool` is (size, pool).  And the inventory of the three files: no further
function, method or package-level variable stands next to the mirrored ones. -/
theorem state_matches_source :
    Gen.C12.instanceFields = ["*Dissect", "groupPool *slicepool.IntPool"] ∧
    Gen.C12.dissectFields = ["tokens []token", "prefix string", "indexOf func(src, of string) int",
      "groupNames map[string]int", "groupCount int"] ∧
    Gen.C12.tokenFields = ["name string", "until string", "skip bool"] ∧
    Gen.C12.intPoolFields = ["size int", "pool []int"] ∧
    Gen.C12.dissectDecls = ["CompileEx", "Compile", "MustCompile", "Dissect.CreateInstance",
      "DissectInstance.FindSubmatchIndex", "Dissect.SubexpNameTable"] ∧
    Gen.C12.caseDecls = ["lowerByte", "lowerASCII", "indexIgnoreCase"] ∧
    Gen.C12.intPoolDecls = ["NewIntPool", "IntPool.Get"] := by
  decide

/-- **Tie to the source**: the small functions around the mirrored ones – `NewIntPool` (one array of
`size` ints: `Pool.new`), `SubexpNameTable` (the compiled map itself), `Compile` (= `CompileEx(expr,
false)`: `compile`), `MustCompile` (`mustCompile`), and the factory of `pkg/matchers/factory.go`:
`ToFactory` wraps the compiled pattern and EVERY `CreateInstance` of the wrapper calls the pattern's
`CreateInstance` – no instance is cached or shared between workers (the `par` op also demands two
distinct objects from two calls). -/
theorem aux_code_matches_source :
    Gen.C12.newIntPoolSkeleton = ["return &IntPool{ size: size, pool: make([]int, size), }"] ∧
    Gen.C12.nameTableSkeleton = ["return s.groupNames"] ∧
    Gen.C12.compileFnSkeleton = ["return CompileEx(expr, false)"] ∧
    Gen.C12.mustCompileSkeleton = ["d, err := Compile(expr)", "if err != nil", "panic(err)", "end", "return d"] ∧
    Gen.C12.toFactorySkeleton = ["return &factoryWrapper[T]{f}"] ∧
    Gen.C12.factoryCreateSkeleton = ["return s.matcher.CreateInstance()"] := by
  decide

/-- **Tie to the TOOLCHAIN's source (regenerated on every run from GOROOT/src of the Go that builds
`rare`)**: the library code the model mirrors is not part of /repo, so its text is pinned as well –
`internal/stringslite.Index` statement by statement (the five `switch` arms, the amd64 arm with
`MaxBruteForce`, `fails++; i++`, `fails > bytealg.Cutover(i)`, `IndexString(s[i:], substr)`; the
portable loop with `i++; fails++`, `fails >= 4+i>>4 && i < t`, `IndexRabinKarp(s[i:], substr)`),
`bytealg.IndexRabinKarp`, `bytealg.HashStr`, `Cutover`, the two values of `MaxLen`, and the constants
`PrimeRK`, `MaxBruteForce` – are what `goIndexAmd64` / `goIndexLoopAsm` / `goIndexLoop` / `indexRabinKarp`
/ `hashBytes` / `powLoop` / `cutoverAmd64` mirror.  A toolchain whose search differs breaks this theorem
instead of leaving `go_index_eq_contract` to speak about code that no longer runs. -/
theorem stdlib_index_matches_source :
    Gen.C12.stdIndexSkeleton =
      ["n := len(substr)", "switch", "case n == 0", "return 0", "case n == 1", "return IndexByte(s, substr[0])",
       "case n == len(s)", "if substr == s", "return 0", "end", "return -1", "case n > len(s)", "return -1",
       "case n <= bytealg.MaxLen", "if len(s) <= bytealg.MaxBruteForce", "return bytealg.IndexString(s, substr)", "end",
       "c0 := substr[0]", "c1 := substr[1]", "i := 0", "t := len(s) - n + 1", "fails := 0", "for ; i < t; ",
       "if s[i] != c0", "o := IndexByte(s[i+1:t], c0)", "if o < 0", "return -1", "end", "i += o + 1", "end",
       "if s[i+1] == c1 && s[i:i+n] == substr", "return i", "end", "fails++", "i++", "if fails > bytealg.Cutover(i)",
       "r := bytealg.IndexString(s[i:], substr)", "if r >= 0", "return r + i", "end", "return -1", "end", "end",
       "return -1", "end",
       "c0 := substr[0]", "c1 := substr[1]", "i := 0", "t := len(s) - n + 1", "fails := 0", "for ; i < t; ",
       "if s[i] != c0", "o := IndexByte(s[i+1:t], c0)", "if o < 0", "return -1", "end", "i += o + 1", "end",
       "if s[i+1] == c1 && s[i:i+n] == substr", "return i", "end", "i++", "fails++", "if fails >= 4+i>>4 && i < t",
       "j := bytealg.IndexRabinKarp(s[i:], substr)", "if j < 0", "return -1", "end", "return i + j", "end", "end",
       "return -1"] ∧
    Gen.C12.stdRabinKarpSkeleton =
      ["hashss, pow := HashStr(sep)", "n := len(sep)", "var h uint32", "for i := 0; i < n; i++",
       "h = h*PrimeRK + uint32(s[i])", "end", "if h == hashss && string(s[:n]) == string(sep)", "return 0", "end",
       "for i := n; i < len(s); ", "h *= PrimeRK", "h += uint32(s[i])", "h -= pow * uint32(s[i-n])", "i++",
       "if h == hashss && string(s[i-n:i]) == string(sep)", "return i - n", "end", "end", "return -1"] ∧
    Gen.C12.stdHashStrSkeleton =
      ["hash := uint32(0)", "for i := 0; i < len(sep); i++", "hash = hash*PrimeRK + uint32(sep[i])", "end",
       "var pow, sq uint32 = 1, PrimeRK", "for i := len(sep); i > 0; i >>= 1", "if i&1 != 0", "pow *= sq", "end",
       "sq *= sq", "end", "return hash, pow"] ∧
    Gen.C12.stdCutoverSkeleton = ["return (n + 16) / 8"] ∧
    Gen.C12.stdAmd64InitSkeleton = ["if cpu.X86.HasAVX2", "MaxLen = 63", "else", "MaxLen = 31", "end"] ∧
    Gen.C12.stdPrimeRK = primeRK.toNat ∧ Gen.C12.stdMaxBruteForce = maxBruteForce ∧
    (∀ n, cutoverAmd64 n = (n + 16) / 8) :=
  ⟨rfl, rfl, rfl, rfl, rfl, by decide, by decide, fun _ => rfl⟩

/-- **UTF-8 text is never cut inside a character** ("any literals incl. multi-byte UTF-8"): when the
line, the leading literal and every delimiter are structurally valid UTF-8 (`Utf8`: each lead byte is
followed by exactly the continuation bytes it announces – every really valid UTF-8 string is), EVERY
offset of a result – start and end of `{0}`, start and end of every capture – is a character
boundary of the line (`Boundary line n`: `line[:n]` and `line[n:]` are both valid), in BOTH modes.  So
`{name}` and `{0}` are always valid UTF-8 again.  Ignore-case keeps this because its fold changes
single-byte characters only (the repaired F16 defect folded lead bytes of multi-byte characters). -/
theorem offsets_on_char_boundaries (ic : Bool) (p : Pat) (hp : p.Shape) (d : Dissect)
    (hc : compileEx p.render ic = .ok d) (line : Bytes) (r : List Int)
    (hr : matchAll d [line] = .ok [some r])
    (hl : Utf8 line) (hpre : Utf8 p.pre) (hlits : ∀ t ∈ p.toks, Utf8 t.lit) :
    ∀ x ∈ r, ∃ n : Nat, x = (n : Int) ∧ Boundary line n := by
  rw [dissect_eq_spec ic p hp d hc] at hr
  simp only [List.map_cons, List.map_nil, Except.ok.injEq, List.cons.injEq, and_true] at hr
  cases hs : specFor ic p line with
  | none => rw [hs] at hr; cases hr
  | some r0 =>
    rw [hs] at hr
    simp only [Option.map_some, Option.some.injEq] at hr
    intro x hx
    rw [← hr, List.mem_map] at hx
    obtain ⟨n, hn, rfl⟩ := hx
    exact ⟨n, rfl, specFor_boundaries hl hpre hlits hs n hn⟩

/-- …and a captured text of valid UTF-8 input is valid UTF-8: for slots `a ≤ b` of a result,
`line[a:b]` is `Utf8`. -/
theorem captures_are_utf8 (line : Bytes) (a b : Nat) (hab : a ≤ b) (ha : Boundary line a) (hb : Boundary line b) :
    Utf8 ((line.drop a).take (b - a)) := by
  -- `line[:a]` is a valid prefix of the valid `line[:b]`: decode in lock-step, the rest is `line[a:b]`
  have hpre : line.take a <+: line.take b := by
    have : line.take a = (line.take b).take a := by rw [List.take_take, Nat.min_eq_left hab]
    rw [this]; exact List.take_prefix _ _
  have h := utf8_prefix_rest ha.2.1 hb.2.1 hpre
  rw [List.length_take, Nat.min_eq_left ha.1, List.drop_take] at h
  exact h

/-- Just outside the class (kernel-checked): a delimiter that is NOT valid UTF-8 – the lone
continuation byte `A9` – cuts the character `é` = `C3 A9` in two: `%{a}\xA9` on `é` captures `[0,1]`
= the lone lead byte `C3`; position 1 is not a boundary.  The line itself is valid. -/
theorem char_boundary_counterexample :
    matchAll (compiled false ⟨[], [⟨[97], [169]⟩]⟩) [[195, 169]] = .ok [some [0, 2, 0, 1]] ∧
    Utf8 [195, 169] ∧ ¬ Utf8 [169] ∧ ¬ Boundary [195, 169] 1 := by
  refine ⟨?_, utf8_of_chk (by decide), ?_, not_boundary_inside_char⟩
  · simp only [matchAll_compiled, Except.ok.injEq]; decide
  · intro h
    obtain ⟨k, hk⟩ := utf8_head h 169 [] rfl
    have : leadLen 169 = none := by decide
    rw [this] at hk; cases hk

/-! ### Round 4c – the declarative specification: leftmost, laziest split ("replicates logic from regex") -/

/-- **The scan never needs to backtrack.**  `lazyFor` is the dissect pattern read as the regular
expression `lit₀(.*?)lit₁(.*?)lit₂…` and run by a BACKTRACKING matcher (`Spec/C12Lazy.lean`: starts
of the leading literal and token lengths tried in increasing order; a choice is undone when the
rest of the pattern fails after it).  For every compiled pattern, both modes and every history
matched by one instance, each returned slice – re-read after the last call – is the backtracking
matcher's answer: committing to the FIRST occurrence of every literal loses no match and changes
no offset.  (The correspondence op `lazy` runs the real code against this matcher AND against Go's
`regexp` on that expression.) -/
theorem dissect_eq_backtracking (ic : Bool) (p : Pat) (hp : p.Shape) (d : Dissect)
    (hc : compileEx p.render ic = .ok d) (lines : List Bytes) :
    matchAll d lines = .ok (lines.map fun l => (lazyFor ic p l).map (·.map Int.ofNat)) := by
  rw [dissect_eq_spec ic p hp d hc]
  simp only [lazyFor_eq_specFor]

/-- …for specification and matcher alone, and for EVERY pattern value (also those no text denotes:
empty literals between tokens): the one-pass scan equals the backtracking matcher. -/
theorem spec_eq_backtracking (p : Pat) (line : Bytes) :
    specDissect p line = lazyDissect p line ∧ specDissectIC p line = lazyDissectIC p line :=
  ⟨(lazyDissect_eq_spec p line).symm, (lazyDissect_eq_spec _ _).symm⟩

/-- **A line matches iff it CAN be read as an instance of the pattern – and the answer is the
leftmost, laziest reading.**  `IsMatch q l s ns`: the leading literal stands at `s` and the token
texts have the lengths `ns`, each followed by its trailing literal (a token without one ends the
line).  With `q`/`l` the pattern and line as the mode compares them (`patFor`, `foldFor`: as
written, or ASCII-folded): the real answer is `some r` exactly when `r` is the index slice
(`offsetsOf`) of the reading whose choice vector `(s, n₁, n₂, …)` is lexicographically least –
earliest start, then shortest first token, then shortest second token, … -/
theorem match_is_least_split (ic : Bool) (p : Pat) (hp : p.Shape) (d : Dissect)
    (hc : compileEx p.render ic = .ok d) (line : Bytes) (r : List Int) :
    matchAll d [line] = .ok [some r] ↔
      ∃ s ns, IsMatch (patFor ic p) (foldFor ic line) s ns ∧
        (∀ s' ns', IsMatch (patFor ic p) (foldFor ic line) s' ns' → lexLE (s :: ns) (s' :: ns')) ∧
        r = (offsetsOf (patFor ic p) s ns).map Int.ofNat := by
  rw [matchAll_one hp hc, specFor_patFor]
  constructor
  · intro h
    cases hs : specDissect (patFor ic p) (foldFor ic line) with
    | none => rw [hs] at h; cases h
    | some r0 =>
      rw [hs] at h
      simp only [Option.map_some, Option.some.injEq] at h
      obtain ⟨s, ns, hm, hmin, hr⟩ := (specDissect_least_split _ _ _).mp hs
      exact ⟨s, ns, hm, hmin, by rw [h, hr]⟩
  · rintro ⟨s, ns, hm, hmin, rfl⟩
    rw [(specDissect_least_split _ _ _).mpr ⟨s, ns, hm, hmin, rfl⟩]
    rfl

/-- **No match means that NO reading exists** (completeness): the real code answers `nil` exactly
when the line cannot be split according to the pattern in any way – not merely when the split
that starts at the first occurrences fails. -/
theorem no_match_iff_no_split (ic : Bool) (p : Pat) (hp : p.Shape) (d : Dissect)
    (hc : compileEx p.render ic = .ok d) (line : Bytes) :
    matchAll d [line] = .ok [none] ↔ ¬ ∃ s ns, IsMatch (patFor ic p) (foldFor ic line) s ns := by
  rw [matchAll_one hp hc, specFor_patFor, ← specDissect_none_iff]
  cases specDissect (patFor ic p) (foldFor ic line) <;> simp

/-- **No match iff the line is not an instance of the pattern – the specification without any
position or search.**  `IsInstance q l`: `l = before ++ lit₀ v₁ lit₁ … vₙ litₙ ++ after` for SOME
texts `vᵢ` (one per token, captured or skipped), `after` empty when the last token has no trailing
literal.  The real code answers `nil` exactly when the line (as the mode compares it) is no such
text, and a match otherwise. -/
theorem match_iff_instance (ic : Bool) (p : Pat) (hp : p.Shape) (d : Dissect)
    (hc : compileEx p.render ic = .ok d) (line : Bytes) :
    (matchAll d [line] = .ok [none] ↔ ¬ IsInstance (patFor ic p) (foldFor ic line)) ∧
    ((∃ r, matchAll d [line] = .ok [some r]) ↔ IsInstance (patFor ic p) (foldFor ic line)) := by
  have hi := isInstance_iff_isMatch (patFor ic p) (midLits_patFor hp hc) (foldFor ic line)
  have hn := no_match_iff_no_split ic p hp d hc line
  refine ⟨by rw [hn, hi], ?_⟩
  rw [hi]
  constructor
  · rintro ⟨r, hr⟩
    obtain ⟨s, ns, hm, _, _⟩ := (match_is_least_split ic p hp d hc line r).mp hr
    exact ⟨s, ns, hm⟩
  · intro hex
    rw [matchAll_one hp hc] at hn
    cases hs : specFor ic p line with
    | none => exact absurd hex (hn.mp (by rw [hs]; rfl))
    | some r0 => exact ⟨r0.map Int.ofNat, by rw [matchAll_one hp hc, hs]; rfl⟩

/-- **`{0}` is the pattern with the token texts filled in.**  A match `[s, e, …]` comes with one
text per token (captured or skipped), cut out of the line, such that `line[s:e]` IS
`lit₀ v₁ lit₁ v₂ lit₂ … vₙ litₙ` (`instantiate`) – byte for byte when case-sensitive, after the
ASCII fold of both sides with ignore-case.  So `{0}` starts with the leading literal, ends with
the last delimiter and contains every delimiter in order. -/
theorem span_is_instantiated_pattern (ic : Bool) (p : Pat) (hp : p.Shape) (d : Dissect)
    (hc : compileEx p.render ic = .ok d) (line : Bytes) (r : List Int)
    (h : matchAll d [line] = .ok [some r]) :
    ∃ (s e : Nat) (rest : List Int) (vs : List Bytes), r = (s : Int) :: (e : Int) :: rest ∧ s ≤ e ∧
      e ≤ line.length ∧ vs.length = p.toks.length ∧
      foldFor ic ((line.drop s).take (e - s)) = instantiate (patFor ic p) vs := by
  rw [matchAll_one hp hc, specFor_patFor] at h
  cases hs : specDissect (patFor ic p) (foldFor ic line) with
  | none => rw [hs] at h; cases h
  | some r0 =>
    rw [hs] at h
    simp only [Option.map_some, Option.some.injEq] at h
    obtain ⟨s, e, caps, vs, hr, hse, he, hvs, hspan⟩ := specDissect_span hs
    refine ⟨s, e, caps.map Int.ofNat, vs, by rw [h, hr]; rfl, hse, by simpa [foldFor_length] using he,
      by rw [hvs, patFor_toks_length], ?_⟩
    rw [foldFor_take, foldFor_drop, hspan]

/-- **Nothing behind `{0}` matters when the pattern ends in a literal.**  If every token has a
trailing literal (for a compiled pattern: the last one has) and a line matches with `{0}` ending at
`e`, then EVERY line that agrees with it on the first `e` bytes – cut off there, or continued by any
other bytes – gets the same answer: the scan never looks past the last delimiter it found. -/
theorem match_ignores_text_after_span (ic : Bool) (p : Pat) (hp : p.Shape) (d : Dissect)
    (hc : compileEx p.render ic = .ok d) (hlit : ∀ t ∈ p.toks, t.lit ≠ [])
    (line : Bytes) (s e : Nat) (rest : List Int)
    (h : matchAll d [line] = .ok [some ((s : Int) :: (e : Int) :: rest)]) (other : Bytes) :
    matchAll d [line.take e ++ other] = .ok [some ((s : Int) :: (e : Int) :: rest)] := by
  rw [matchAll_one hp hc, specFor_patFor] at h ⊢
  cases hs : specDissect (patFor ic p) (foldFor ic line) with
  | none => rw [hs] at h; cases h
  | some r0 =>
    rw [hs] at h
    simp only [Option.map_some, Option.some.injEq] at h
    match r0, h, hs with
    | [], h, _ => simp at h
    | [_], h, _ => simp at h
    | s0 :: e0 :: caps, h, hs =>
      simp only [List.map_cons, List.cons.injEq] at h
      obtain ⟨h1, h2, h3⟩ := h
      have h1 : s = s0 := Int.ofNat_inj.mp h1
      have h2 : e = e0 := Int.ofNat_inj.mp h2
      subst h1 h2
      have := specDissect_take_append (foldFor ic other) (patFor_lit_ne ic p hlit) hs
      rw [foldFor_append, foldFor_take, this, h3]
      rfl

/-- Just outside that class (kernel-checked): `a=%{v}` – the last token has no trailing literal –
on `a=1` and on `a=1x`: `[0,3,2,3]` and `[0,4,2,4]`; and the boundary of `no_match_iff_no_split`:
`ab%{v}ba` on `aba` has no reading (the literals would have to overlap), on `abba` it has one. -/
theorem after_span_counterexample :
    matchAll (compiled false ⟨[97, 61], [⟨[118], []⟩]⟩) [[97, 61, 49], [97, 61, 49, 120]] =
      .ok [some [0, 3, 2, 3], some [0, 4, 2, 4]] ∧
    matchAll (compiled false ⟨[97, 98], [⟨[118], [98, 97]⟩]⟩) [[97, 98, 97], [97, 98, 98, 97]] =
      .ok [none, some [0, 4, 2, 2]] := by
  simp only [matchAll_compiled, Except.ok.injEq]
  decide

/-- Kernel-checked readings: on `k=1;k=2;x` the pattern `k=%{v};` has the readings `(0,[1])`,
`(0,[5])` (v = `1;k=2`) and `(4,[1])`; the least is the answer `[0,4,2,3]`.  With a backtracking
matcher the second token of `%{a}-%{b}:` on `1-2-3:4` is tried at lengths 0..2 before the `:` follows;
the answer `[0,6,0,1,2,5]` (a = `1`, b = `2-3`) is the first-occurrence answer. -/
theorem lazy_witnesses :
    IsMatch ⟨[107, 61], [⟨[118], [59]⟩]⟩ [107, 61, 49, 59, 107, 61, 50, 59, 120] 0 [1] ∧
    IsMatch ⟨[107, 61], [⟨[118], [59]⟩]⟩ [107, 61, 49, 59, 107, 61, 50, 59, 120] 0 [5] ∧
    IsMatch ⟨[107, 61], [⟨[118], [59]⟩]⟩ [107, 61, 49, 59, 107, 61, 50, 59, 120] 4 [1] ∧
    lexLE [0, 1] [0, 5] ∧ lexLE [0, 1] [4, 1] ∧
    offsetsOf ⟨[107, 61], [⟨[118], [59]⟩]⟩ 0 [1] = [0, 4, 2, 3] ∧
    lazyDissect ⟨[107, 61], [⟨[118], [59]⟩]⟩ [107, 61, 49, 59, 107, 61, 50, 59, 120] = some [0, 4, 2, 3] ∧
    lazyDissect ⟨[], [⟨[97], [45]⟩, ⟨[98], [58]⟩]⟩ [49, 45, 50, 45, 51, 58, 52] = some [0, 6, 0, 1, 2, 5] := by
  refine ⟨?_, ?_, ?_, ?_, ?_, ?_, ?_, ?_⟩ <;> decide

/-! ### Round 4c – seam C12 / C02: the pattern as an expression of C02's model of Go's regexp engine -/

/-- **"replicates logic from regex", as a theorem between the two matchers' models.**  `patRe p` is
the dissect pattern as an expression of C02's regex model (`Model/C02Rx.lean`, the engine behind
`--match`): `lit₀(.*?)lit₁(.*?)…litₙ` with `(?s)`, captured tokens numbered groups around a lazy
loop, skipped tokens the bare loop, a last token without trailing literal the greedy loop.
`rxDissect` is C02's `FindSubmatchIndex` (leftmost-first backtracking priority, `-1` for groups
that did not take part) on that expression.  For every compiled pattern, both modes (pattern and
line as the mode compares them) and every history, the dissect instance returns exactly what the
regex engine's model returns – offsets, group order, match/no match. -/
theorem dissect_eq_regexp_model (ic : Bool) (p : Pat) (hp : p.Shape) (d : Dissect)
    (hc : compileEx p.render ic = .ok d) (lines : List Bytes) :
    matchAll d lines = .ok (lines.map fun l => rxDissect (patFor ic p) (foldFor ic l)) := by
  have hm' := midLits_patFor hp hc
  rw [dissect_eq_spec ic p hp d hc]
  congr 1
  apply List.map_congr_left
  intro l _
  rw [rxDissect_eq_spec _ _ hm', specFor_patFor]

/-- the same for specification and regex model alone – every pattern VALUE whose tokens all but the
last have a trailing literal, also values no text denotes -/
theorem spec_eq_regexp_model (p : Pat) (hm : midLits p.toks = true) (line : Bytes) :
    rxDissect p line = (specDissect p line).map (·.map Int.ofNat) :=
  rxDissect_eq_spec p line hm

/-- Just outside the class (kernel-checked): with an EMPTY literal between two tokens (no pattern
text denotes this; `CompileEx` answers "sequential token") the regular expression is `(.*)(.*?)a`
and a regex engine gives bytes back: on `ba` it matches (`[0,2,0,1,1,1]`), the scan – the first
token takes the rest of the line – does not. -/
theorem regexp_model_counterexample :
    midLits [⟨[120], []⟩, ⟨[121], [97]⟩] = false ∧
    specDissect ⟨[], [⟨[120], []⟩, ⟨[121], [97]⟩]⟩ [98, 97] = none ∧
    rxDissect ⟨[], [⟨[120], []⟩, ⟨[121], [97]⟩]⟩ [98, 97] = some [0, 2, 0, 1, 1, 1] := by
  refine ⟨by decide, by decide, by decide⟩

/-! ### Round 4c – extending a pattern; the command line's choice of the matcher -/

/-- **More tokens at the end of a pattern never change what the earlier tokens capture.**  Let a
pattern and its extension by further tokens both compile (same mode).  Whenever the LONGER pattern
matches a line, the shorter one matches it too – same start, same captures for the common tokens;
the extension only appends captures and moves the end of `{0}` to the right.  (A pattern can be
written token by token, left to right, without the earlier fields ever changing.) -/
theorem longer_pattern_keeps_earlier_captures (ic : Bool) (pre : Bytes) (ts us : List Tok)
    (hp : (⟨pre, ts⟩ : Pat).Shape) (hp' : (⟨pre, ts ++ us⟩ : Pat).Shape) (d d' : Dissect)
    (hc : compileEx (Pat.render ⟨pre, ts⟩) ic = .ok d)
    (hc' : compileEx (Pat.render ⟨pre, ts ++ us⟩) ic = .ok d')
    (line : Bytes) (r' : List Int) (h : matchAll d' [line] = .ok [some r']) :
    ∃ (s e e' : Nat) (caps more : List Int),
      matchAll d [line] = .ok [some ((s : Int) :: (e : Int) :: caps)] ∧
      r' = (s : Int) :: (e' : Int) :: (caps ++ more) ∧ e ≤ e' := by
  rw [matchAll_one hp' hc', specFor_patFor] at h
  have hpat : patFor ic ⟨pre, ts ++ us⟩ = ⟨(patFor ic ⟨pre, ts⟩).pre, (patFor ic ⟨pre, ts⟩).toks ++
      (if ic then us.map Tok.lowerLit else us)⟩ := by
    cases ic <;> simp [patFor, Pat.lowerLits]
  rw [hpat] at h
  cases hs : specDissect ⟨(patFor ic ⟨pre, ts⟩).pre, (patFor ic ⟨pre, ts⟩).toks ++
      (if ic then us.map Tok.lowerLit else us)⟩ (foldFor ic line) with
  | none => rw [hs] at h; cases h
  | some r0 =>
    rw [hs] at h
    simp only [Option.map_some, Option.some.injEq] at h
    obtain ⟨s, e, e', caps, more, h1, h2, h3⟩ := specDissect_append hs
    refine ⟨s, e, e', caps.map Int.ofNat, more.map Int.ofNat, ?_, ?_, h3⟩
    · rw [matchAll_one hp hc, specFor_patFor]
      have : (⟨(patFor ic ⟨pre, ts⟩).pre, (patFor ic ⟨pre, ts⟩).toks⟩ : Pat) = patFor ic ⟨pre, ts⟩ := rfl
      rw [this] at h1
      rw [h1]; rfl
    · rw [h, h2]; simp

/-- **Tie to the source (regenerated on every run): how the command line chooses the matcher.**
`BuildMatcherFromArguments` statement by statement – `-d` and `-m` together are refused; the dissect
arm calls `dissect.CompileEx(dissectExpr, ignoreCase)` with `ignoreCase = c.Bool("ignore-case")` and
wraps the result with `matchers.ToFactory`; the regex arm puts `(?i)` in front of the expression;
neither flag gives `AlwaysMatch` – and the model `buildMatcher` of that switch: `-I` reaches BOTH
matchers, each in its own way (byte-wise ASCII fold / Unicode fold of `regexp`), which is why
`-d PAT -I` and `-m REGEX -I` agree on ASCII literals only (`ci_boundary_counterexamples`; the CLI
step runs all arms). -/
theorem matcher_wiring_matches_source :
    Gen.C12.matcherWiringSkeleton =
      ["var ( matchExpr = c.String(\"match\") dissectExpr = c.String(\"dissect\") posix = c.Bool(\"posix\") ignoreCase = c.Bool(\"ignore-case\") )",
       "switch", "case c.IsSet(\"match\") && c.IsSet(\"dissect\")", "return nil, errors.New(\"match and dissect conflict\")",
       "case c.IsSet(\"dissect\")", "d, err := dissect.CompileEx(dissectExpr, ignoreCase)", "if err != nil", "return nil, err", "end",
       "return matchers.ToFactory(d), nil",
       "case c.IsSet(\"match\")", "if ignoreCase", "matchExpr = \"(?i)\" + matchExpr", "end",
       "r, err := fastregex.CompileEx(matchExpr, posix)", "if err != nil", "return nil, err", "end",
       "return matchers.ToFactory(r), nil", "default", "return &matchers.AlwaysMatch{}, nil", "end"] ∧
    (∀ m d px ic, buildMatcher true true m d px ic = .conflict) ∧
    (∀ m d px ic, buildMatcher false true m d px ic = .dissect d ic) ∧
    (∀ m d px, buildMatcher true false m d px true = .regex (icPrefix ++ m) px) ∧
    (∀ m d px, buildMatcher true false m d px false = .regex m px) ∧
    (∀ m d px ic, buildMatcher false false m d px ic = .always) := by
  refine ⟨by rfl, ?_, ?_, ?_, ?_, ?_⟩ <;> intros <;> rfl

/-! ### Non-vacuity: the hypotheses above are satisfiable on concrete, non-trivial values -/

/-- `k=%{x} %{?s};%{y}` -/
def exPat : Pat := ⟨[107, 61], [⟨[120], [32]⟩, ⟨[63, 115], [59]⟩, ⟨[121], []⟩]⟩
/-- `ak=1 2;3` -/
def exLine : Bytes := [97, 107, 61, 49, 32, 50, 59, 51]
/-- `aK=1 2;3` -/
def exLineUpper : Bytes := [97, 75, 61, 49, 32, 50, 59, 51]

example : exPat.Shape := by decide
example : exPat.render = [107, 61, 37, 123, 120, 125, 32, 37, 123, 63, 115, 125, 59, 37, 123, 121, 125] := by decide
example : ∃ d, compileEx exPat.render false = .ok d ∧ d.groupNames = [([120], 1), ([121], 2)] :=
  ⟨compiled false exPat, by rfl, by decide⟩
example : ∃ d, compileEx exPat.render true = .ok d := ⟨compiled true exPat, by rfl⟩
-- a match with a skipped token, a capture to the end of the line, and a non-zero start
example : specDissect exPat exLine = some [1, 8, 3, 4, 7, 8] := by decide
example : (matchAll (compiled false exPat) [exLine, [], exLine]).toOption =
    some [some [1, 8, 3, 4, 7, 8], none, some [1, 8, 3, 4, 7, 8]] := by decide +kernel
-- ignore-case adds a match the case-sensitive run does not have
example : specDissect exPat exLineUpper = none ∧ specDissectIC exPat exLineUpper = some [1, 8, 3, 4, 7, 8] := by decide
-- F16 (repaired): `héllo=%{v}` on `héllo=1` matches in both modes
example : ((matchAll (compiled false ⟨[104, 195, 169, 108, 108, 111, 61], [⟨[118], []⟩]⟩) [[104, 195, 169, 108, 108, 111, 61, 49]]).toOption,
           (matchAll (compiled true ⟨[104, 195, 169, 108, 108, 111, 61], [⟨[118], []⟩]⟩) [[104, 195, 169, 108, 108, 111, 61, 49]]).toOption) =
    (some [some [0, 8, 7, 8]], some [some [0, 8, 7, 8]]) := by decide +kernel
-- F17 (repaired): `%{a} 100% done %{b}` keeps the literal ` 100% done `
example : (compileEx [37, 123, 97, 125, 32, 49, 48, 48, 37, 32, 100, 111, 110, 101, 32, 37, 123, 98, 125] false).toOption.map
    (fun d => d.tokens.map (·.until_)) = some [[32, 49, 48, 48, 37, 32, 100, 111, 110, 101, 32], []] := by decide
-- the three compile errors: `%{a}%{b}`, `%{a} %{b`, `%{a} %{a}`
example : compileEx [37, 123, 97, 125, 37, 123, 98, 125] false = .error .sequential := by rfl
example : compileEx [37, 123, 97, 125, 32, 37, 123, 98] false = .error .unclosed := by rfl
example : compileEx [37, 123, 97, 125, 32, 37, 123, 97, 125] false = .error .conflict := by rfl
-- the pool: the third request does not fit and is served from a fresh array
example : (getMany (Pool.new 5) [2, 2, 2]).toOption.map (·.1) = some [⟨0, 0, 2⟩, ⟨0, 2, 2⟩, ⟨1, 0, 2⟩] := by decide

-- the grammar: `k=%{x} %{?s};%{y}` is derivable; so is the F17 text `%{a} 100% done %{b}` with the
-- delimiter ` 100% done `; `%{a}%{b}`, `%{a} %{a}`, `%{a} %{b` are not
example : exPat.Grammar := (grammar_iff exPat).mpr ⟨by decide, by decide⟩
example : PatternText exPat.render := ⟨exPat, (grammar_iff exPat).mpr ⟨by decide, by decide⟩, rfl⟩
example : (⟨[], [⟨[97], [32, 49, 48, 48, 37, 32, 100, 111, 110, 101, 32]⟩, ⟨[98], []⟩]⟩ : Pat).Grammar :=
  (grammar_iff _).mpr ⟨by decide, by decide⟩
example : acceptsPattern [37, 123, 97, 125, 32, 49, 48, 48, 37, 32, 100, 111, 110, 101, 32, 37, 123, 98, 125] = true ∧
    acceptsPattern [37, 123, 97, 125, 37, 123, 98, 125] = false ∧
    acceptsPattern [37, 123, 97, 125, 32, 37, 123, 97, 125] = false ∧
    acceptsPattern [37, 123, 97, 125, 32, 37, 123, 98] = false ∧
    acceptsPattern [37, 37, 123, 97, 125, 37] = true := by decide
example : ¬ PatternText [37, 123, 97, 125, 37, 123, 98, 125] := by
  rw [← accepts_iff_grammar]; decide

-- round 4: hypotheses of the new theorems on concrete values
-- goIndex on a periodic text: the needle `aab` in `aaaaaaab` (overlapping partial matches)
example : goIndex [97, 97, 97, 97, 97, 97, 97, 98] [97, 97, 98] = 5 := by decide
-- a search long enough to reach the Rabin–Karp fall-back (period 7, needle = the last 9 bytes + `!`)
example : goIndex ((List.replicate 12 [1, 1, 1, 1, 1, 1, 2]).flatten ++ [1, 1, 3]) [1, 1, 2, 1, 1, 3] = 81 := by decide
example : indexRabinKarp [1, 2, 1, 2, 1, 2, 3] [1, 2, 3] = 4 := by decide
-- `NoUpper` holds for UTF-8 text without ASCII capitals: `héllo=1`
example : NoUpper [104, 195, 169, 108, 108, 111, 61, 49] := by decide
-- two instances, calls interleaved A B A B: each sees only its own lines
example : (runTwo (compiled false exPat).createInstance (compiled false exPat).createInstance
    [(true, exLine), (false, []), (true, []), (false, exLine)]).toOption.map (fun t => t.1.map (·.2.isSome)) =
    some [true, false, false, true] := by decide +kernel
-- named slots: `k=%{x} %{?s};%{y}` on `ak=1 2;3`: x ↦ 1 ↦ [3,4], y ↦ 2 ↦ [7,8]
example : (compiled false exPat).groupNames = [([120], 1), ([121], 2)] ∧ (compiled false exPat).groupCount = 2 := by decide

-- round 4b
-- the contract itself is a routine that meets `hasm` (so `go_index_amd64_eq_contract` is not vacuous),
-- and the amd64 text evaluated with it: a short hay (brute-force arm: the routine is called directly),
-- a 70-byte hay whose needle sits at the very end (loop arm, cut-over to the routine after 3 fails)
example : ∀ s' u : Bytes, 2 ≤ u.length → u.length ≤ 63 → stringsIndex s' u = stringsIndex s' u := fun _ _ _ _ => rfl
example : goIndexAmd64 63 stringsIndex [97, 97, 97, 97, 97, 97, 97, 98] [97, 97, 98] = 5 := by decide
example : goIndexAmd64 63 stringsIndex (List.replicate 67 97 ++ [97, 97, 98]) [97, 97, 98] = 67 := by decide
-- a routine that is WRONG on short hays is visible through the amd64 text (the hypothesis is needed)
example : goIndexAmd64 63 (fun _ _ => -1) [97, 97, 98] [97, 98] = -1 ∧ stringsIndex [97, 97, 98] [97, 98] = 1 := by decide
-- `leading_literal_first`: a history and a result that satisfy its hypotheses
example : matchAll (compiled false histPat)
    ([[120, 120, 120, 120, 120, 105, 100, 61, 49, 59]] ++ [[105, 100, 61, 50, 59, 105, 100, 61, 51, 59]]) =
    .ok ([some [5, 10, 8, 9]] ++ [some [0, 5, 3, 4]]) := by
  simp only [matchAll_compiled, Except.ok.injEq]; decide
example : histPat.Shape ∧ compileEx histPat.render false = .ok (compiled false histPat) := ⟨by decide, by rfl⟩
-- `offsets_on_char_boundaries`: the hypotheses hold for `é=%{v}世` on `xÉé=a世b世` (2- and 3-byte characters);
-- the match `[3,10,6,7]`: every offset is a boundary (3 = after `xÉ`, 6 = after `é=`, 7 = before the first `世`, 10 = after it)
example : Utf8 [120, 195, 137, 195, 169, 61, 97, 228, 184, 150, 98, 228, 184, 150] ∧ Utf8 [195, 169, 61] ∧ Utf8 [228, 184, 150] :=
  ⟨utf8_of_chk (by decide), utf8_of_chk (by decide), utf8_of_chk (by decide)⟩
example : specDissect ⟨[195, 169, 61], [⟨[118], [228, 184, 150]⟩]⟩
    [120, 195, 137, 195, 169, 61, 97, 228, 184, 150, 98, 228, 184, 150] = some [3, 10, 6, 7] := by decide
example : Boundary [120, 195, 137, 195, 169, 61, 97, 228, 184, 150, 98, 228, 184, 150] 3 :=
  ⟨by decide, utf8_of_chk (by decide), utf8_of_chk (by decide)⟩

-- round 4c: `match_ignores_text_after_span` – a pattern whose tokens all have a trailing literal, a match, its cut
example : (∀ t ∈ histPat.toks, t.lit ≠ []) ∧
    matchAll (compiled false histPat) [[120, 105, 100, 61, 49, 59, 122, 122]] = .ok [some [1, 6, 4, 5]] ∧
    matchAll (compiled false histPat) [[120, 105, 100, 61, 49, 59]] = .ok [some [1, 6, 4, 5]] := by
  refine ⟨by decide, ?_, ?_⟩ <;> (simp only [matchAll_compiled, Except.ok.injEq]; decide)
-- a reading that is NOT the least one exists (so the minimality clause of `match_is_least_split` says something)
example : IsMatch (patFor true histPat) (foldFor true [73, 68, 61, 49, 59, 105, 100, 61, 50, 59]) 5 [1] ∧
    IsMatch (patFor true histPat) (foldFor true [73, 68, 61, 49, 59, 105, 100, 61, 50, 59]) 0 [1] := by
  constructor <;> decide
-- the regex model on a pattern with a skipped token and a token to the end of the line
example : midLits exPat.toks = true ∧ rxDissect exPat exLine = some [1, 8, 3, 4, 7, 8] := by
  constructor <;> decide
-- `longer_pattern_keeps_earlier_captures`: `id=%{v};` and its extension `id=%{v};%{w};` both compile; a line both match
example : compileEx (Pat.render ⟨[105, 100, 61], [⟨[118], [59]⟩]⟩) false = .ok (compiled false ⟨[105, 100, 61], [⟨[118], [59]⟩]⟩) ∧
    compileEx (Pat.render ⟨[105, 100, 61], [⟨[118], [59]⟩] ++ [⟨[119], [59]⟩]⟩) false =
      .ok (compiled false ⟨[105, 100, 61], [⟨[118], [59]⟩] ++ [⟨[119], [59]⟩]⟩) ∧
    matchAll (compiled false ⟨[105, 100, 61], [⟨[118], [59]⟩] ++ [⟨[119], [59]⟩]⟩) [[105, 100, 61, 49, 59, 50, 59]] =
      .ok [some [0, 7, 3, 4, 5, 6]] ∧
    matchAll (compiled false ⟨[105, 100, 61], [⟨[118], [59]⟩]⟩) [[105, 100, 61, 49, 59, 50, 59]] = .ok [some [0, 5, 3, 4]] := by
  refine ⟨by rfl, by rfl, ?_, ?_⟩ <;> (simp only [matchAll_compiled, Except.ok.injEq]; decide)
-- `match_iff_instance`: an instance (`x` + `id=` `1` `;` + `zz`), and a line that is none
example : IsInstance histPat [120, 105, 100, 61, 49, 59, 122, 122] ∧ ¬ IsInstance histPat [105, 100, 59, 61] := by
  refine ⟨⟨[120], [[49]], [122, 122], rfl, by decide, by decide⟩, ?_⟩
  rw [isInstance_iff_isMatch histPat (by decide), ← specDissect_none_iff]
  decide

end Rare.C12
