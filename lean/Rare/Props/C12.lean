import Rare.Proofs.C12Parse
import Rare.Proofs.C12Grammar
import Rare.Proofs.C12Scan
import Rare.Gen.C12
/-!
Property C12 – dissect matching equals its specification; ignore-case only adds matches.

Vocabulary (definitions in `Rare/Spec/C12.lean`, `Rare/Model/C12.lean`):

* `Pat` = leading literal + tokens `(key, trailing literal)`; `p.render` is the pattern TEXT
  `lit₀%{key₁}lit₁…`; `p.Shape` = literals contain no `%{`, keys contain no `}` (the grammar);
  every byte string that compiles is such a text (`compile_errors` covers texts ending in an
  unclosed token as well).
* `compileEx text ic` mirrors `dissect.CompileEx`; `matchAll d lines` mirrors
  `inst := d.CreateInstance(); for each line: inst.FindSubmatchIndex(line)` with the `IntPool`
  as explicit memory and every returned slice read only AFTER THE LAST CALL.
* `specDissect p line` / `specDissectIC p line` / `firstIndex` are the specification;
  `specFor ic` picks the one for the mode.

The model is of the code after the two `fix:` commits (F16: one byte-wise ASCII fold for pattern
and line; F17: a delimiter ends at the next `%{`).  With the old code `ci_monotone` was false
(`héllo=%{v}` vs `héllo=1`) – see `known_findings/C12.json`.
-/
namespace Rare.C12

/-- `firstIndex` is the least position where the needle is a prefix of the remainder. -/
theorem firstIndex_least (needle hay : Bytes) (i : Nat) :
    firstIndex needle hay = some i ↔
      (i ≤ hay.length ∧ needle <+: hay.drop i ∧ ∀ j < i, ¬ needle <+: hay.drop j) :=
  firstIndex_spec needle hay i

/-- **The result equals the specification** – for every well-formed pattern text that compiles
(either mode) and every SEQUENCE of lines matched by one instance, each index slice, re-read after
the last call, is exactly the specification's answer for its line (`none` = no match).
For `ic = false` the right-hand side is `specDissect p line`. -/
theorem dissect_eq_spec (ic : Bool) (p : Pat) (hp : p.Shape) (d : Dissect)
    (hc : compileEx p.render ic = .ok d) (lines : List Bytes) :
    matchAll d lines = .ok (lines.map fun l => (specFor ic p l).map (·.map Int.ofNat)) :=
  matchAll_eq hp hc lines

/-- **Every byte string is a pattern text**: `p.render` for a well-formed `p`, optionally followed
by an unclosed token – so `compile_errors` below decides `CompileEx` on ALL inputs. -/
theorem every_text_is_pattern (s : Bytes) :
    ∃ (p : Pat) (tail : Option Bytes), p.Shape ∧ (∀ j, tail = some j → rbrace ∉ j) ∧
      s = p.render ++ tailText tail :=
  parse_total s

/-- `dissect_eq_spec` for an arbitrary byte string as pattern: whatever compiles IS the text of a
well-formed pattern, and the results are that pattern's specification. -/
theorem dissect_eq_spec_all (ic : Bool) (pat : Bytes) (d : Dissect) (hc : compileEx pat ic = .ok d) :
    ∃ p : Pat, p.Shape ∧ pat = p.render ∧ ∀ lines : List Bytes,
      matchAll d lines = .ok (lines.map fun l => (specFor ic p l).map (·.map Int.ofNat)) := by
  obtain ⟨p, hp, hs⟩ := compiles_is_pattern hc
  exact ⟨p, hp, hs, fun lines => dissect_eq_spec ic p hp d (hs ▸ hc) lines⟩

/-- single line, case-sensitive: the statement of the property verbatim -/
theorem dissect_eq_spec_one (p : Pat) (hp : p.Shape) (d : Dissect)
    (hc : compileEx p.render false = .ok d) (line : Bytes) :
    matchAll d [line] = .ok [(specDissect p line).map (·.map Int.ofNat)] := by
  simpa [specFor] using dissect_eq_spec false p hp d hc [line]

/-- **All offsets are ordered and within the line**: a returned slice is
`[s, e, c₁s, c₁e, c₂s, c₂e, …]` with `s ≤ c₁s ≤ c₁e ≤ c₂s ≤ … ≤ e ≤ len(line)`; the first
capture starts no earlier than the end of the leading literal. -/
theorem offsets_ordered_in_line (ic : Bool) (p : Pat) (hp : p.Shape) (d : Dissect)
    (hc : compileEx p.render ic = .ok d) (line : Bytes) (r : List Int)
    (hr : matchAll d [line] = .ok [some r]) :
    ∃ (s e : Nat) (caps : List Nat), r = (s :: e :: caps).map Int.ofNat ∧
      (s :: (caps ++ [e])).Pairwise (· ≤ ·) ∧ e ≤ line.length ∧
      ∀ x ∈ caps, s + p.pre.length ≤ x := by
  rw [dissect_eq_spec ic p hp d hc] at hr
  simp only [List.map_cons, List.map_nil, Except.ok.injEq, List.cons.injEq, and_true] at hr
  cases hs : specFor ic p line with
  | none => rw [hs] at hr; cases hr
  | some r0 =>
    rw [hs] at hr
    simp only [Option.map_some, Option.some.injEq] at hr
    cases ic with
    | false =>
      obtain ⟨s, e, caps, h1, h2, h3, h4⟩ := specDissect_ordered (by simpa [specFor] using hs)
      exact ⟨s, e, caps, by rw [← hr, h1], h2, h3, h4⟩
    | true =>
      obtain ⟨s, e, caps, h1, h2, h3, h4⟩ :=
        specDissect_ordered (p := p.lowerLits) (line := lower line) (by simpa [specFor, specDissectIC] using hs)
      refine ⟨s, e, caps, by rw [← hr, h1], h2, by simpa [lower_length] using h3, ?_⟩
      simpa [Pat.lowerLits, lower_length] using h4

/-- **Compile errors.**  A pattern text is `p.render` optionally followed by an unclosed token
`%{junk` (`junk` without `}`).  `CompileEx` answers exactly what `specErrors` says: scanning the
tokens left to right, an empty trailing literal although something follows is `sequential`
(adjacent tokens), a captured name seen before is `conflict`, reaching the unclosed tail is
`unclosed`; otherwise the compiled structure is: tokens with (name, delimiter – lowered when
ignore-case –, skip flag), the (lowered) prefix, the name table numbering captured names 1, 2, …
and that count. -/
theorem compile_errors (ic : Bool) (p : Pat) (hp : p.Shape) (tail : Option Bytes)
    (htail : ∀ j, tail = some j → rbrace ∉ j) :
    compileEx (p.render ++ tailText tail) ic =
      match specErrors tail.isSome p.toks [] with
      | some e => .error (cerr e)
      | none => .ok { tokens := p.toks.map (tokOf ic), pre := if ic then lower p.pre else p.pre, ic := ic,
                      groupNames := nameTable p.toks, groupCount := capCount p.toks } :=
  compileEx_render ic p hp tail htail

/-- **Ignore-case only adds matches**: every line matched case-sensitively is matched with
ignore-case (same pattern text, all bytes – no ASCII restriction). -/
theorem ci_monotone (p : Pat) (hp : p.Shape) (d dI : Dissect)
    (hc : compileEx p.render false = .ok d) (hcI : compileEx p.render true = .ok dI)
    (line : Bytes) (r : List Int) (hr : matchAll d [line] = .ok [some r]) :
    ∃ r', matchAll dI [line] = .ok [some r'] := by
  rw [dissect_eq_spec false p hp d hc] at hr
  rw [dissect_eq_spec true p hp dI hcI]
  simp only [List.map_cons, List.map_nil, Except.ok.injEq, List.cons.injEq, and_true, specFor] at hr ⊢
  cases hs : specDissect p line with
  | none => simp [hs] at hr
  | some r0 =>
    obtain ⟨r', h'⟩ := specDissect_ci_mono hs
    exact ⟨r'.map Int.ofNat, by simp [h']⟩

/-- the two modes accept the same pattern texts -/
theorem ci_compiles_iff (p : Pat) (hp : p.Shape) :
    (∃ d, compileEx p.render false = .ok d) ↔ (∃ d, compileEx p.render true = .ok d) := by
  rw [compileEx_pat false p hp, compileEx_pat true p hp]
  cases specErrors false p.toks [] <;> simp

/-- **Ignore-case = case-sensitive on lower-cased pattern and line.**  `lower` lowers ASCII
letters byte-wise (on ASCII text this is `strings.ToLower`); `p.lowerLits` lowers the literals of
the pattern (key names do not influence offsets).  Holds for all bytes, in particular for ASCII
pattern and line; the lowered pattern is again a well-formed text and compiles whenever `p` does. -/
theorem ci_ascii (p : Pat) (hp : p.Shape) (dI : Dissect) (hcI : compileEx p.render true = .ok dI) :
    ∃ dL, compileEx p.lowerLits.render false = .ok dL ∧
      ∀ lines : List Bytes, matchAll dI lines = matchAll dL (lines.map lower) := by
  have hpl := shape_lowerLits hp
  have hok := (compileEx_ok hp hcI).1
  have hcl : compileEx p.lowerLits.render false = .ok (compiled false p.lowerLits) := by
    rw [compileEx_pat false p.lowerLits hpl]
    have : specErrors false p.lowerLits.toks [] = none := by
      simp only [Pat.lowerLits, specErrors_lowerLit, hok]
    rw [this]
  refine ⟨_, hcl, fun lines => ?_⟩
  rw [dissect_eq_spec true p hp dI hcI, dissect_eq_spec false p.lowerLits hpl _ hcl]
  simp [specFor, specDissectIC, Function.comp_def]

/-- **Slices handed out by `IntPool.Get` never overlap** – for every pool size and every sequence
of requests (across any number of refills): the views are pairwise disjoint, lie inside allocated
arrays, and have the requested lengths. -/
theorem pool_disjoint (size : Nat) (ns : List Nat) (vs : List View) (p' : Pool)
    (h : getMany (Pool.new size) ns = .ok (vs, p')) :
    vs.Pairwise View.Disjoint ∧ (∀ v ∈ vs, p'.Valid v) ∧ vs.map (·.len) = ns := by
  obtain ⟨_, _, _, hb, _, hpw, hl⟩ := getMany_spec ns (Pool.new size) (Pool.new_wf size) vs p' h
  exact ⟨hpw, fun v hv => (hb v hv).1, hl⟩

/-- `Get` panics only when a single request exceeds the pool size (never in dissect: the size is
1024 requests) -/
theorem pool_no_panic (size : Nat) (ns : List Nat) (h : ∀ n ∈ ns, n ≤ size) :
    ∃ vs p', getMany (Pool.new size) ns = .ok (vs, p') := by
  obtain ⟨vs, p', hm, _⟩ := getMany_succeeds ns (Pool.new size) (by simpa [Pool.new] using h)
  exact ⟨vs, p', hm⟩

/-- **Results returned for earlier lines are not altered by matching later lines**: what the
slices of the first lines hold after ALL calls is what they held after only those first calls. -/
theorem earlier_results_unaltered (ic : Bool) (p : Pat) (hp : p.Shape) (d : Dissect)
    (hc : compileEx p.render ic = .ok d) (lines more : List Bytes) :
    ∃ r rAll, matchAll d lines = .ok r ∧ matchAll d (lines ++ more) = .ok rAll ∧
      rAll.take lines.length = r := by
  refine ⟨_, _, dissect_eq_spec ic p hp d hc lines, dissect_eq_spec ic p hp d hc (lines ++ more), ?_⟩
  simp [List.map_append]

/-- the slices one instance returns for a sequence of lines are pairwise disjoint in the pool -/
theorem results_disjoint (ic : Bool) (p : Pat) (hp : p.Shape) (d : Dissect)
    (hc : compileEx p.render ic = .ok d) (lines : List Bytes) :
    ∃ vs s', runLines d.createInstance lines = .ok (vs, s') ∧
      (vs.filterMap id).Pairwise View.Disjoint := by
  rw [(compileEx_ok hp hc).2]
  have hcount : (compiled ic p).groupCount = capCount (if ic then p.toks.map Tok.lowerLit else p.toks) := by
    cases ic <;> simp [compiled, capCount_lowerLit]
  obtain ⟨vs, s', hr, _, _, _, _, _, hpw⟩ :=
    runLines_spec (if ic then p.toks.map Tok.lowerLit else p.toks) lines (compiled ic p).createInstance
      (tokRels_compiled ic p.toks) hcount (Pool.new_wf _)
      (by simp only [Dissect.createInstance, Pool.new]; omega)
  exact ⟨vs, s', hr, hpw⟩

/-- **Tie to the source (regenerated on every run)**: the pool sizing expressions of
`CreateInstance` / `FindSubmatchIndex` and the needles of `CompileEx`, extracted from the Go AST
into `Rare.Gen.C12`, are the ones the model uses; every request fits the pool 1024 times. -/
theorem gen_pool_sizing (d : Dissect) :
    d.createInstance.pool.size = Gen.C12.poolSize d.groupCount ∧
    (∀ g, Gen.C12.getSize g = g * 2 + 2) ∧
    (∀ g, 1024 * Gen.C12.getSize g ≤ Gen.C12.poolSize g) ∧
    Gen.C12.compileNeedles = [[pct, lbrace], [rbrace], [pct, lbrace]] := by
  refine ⟨by simp [Dissect.createInstance, Pool.new, Gen.C12.poolSize], fun g => rfl, ?_, by decide⟩
  intro g; simp only [Gen.C12.getSize, Gen.C12.poolSize]; omega

/-! ### Pattern compilation against the grammar of dissect patterns (`Spec/C12Grammar.lean`)

    pattern ::= literal ( "%{" key "}" literal )*      literal: no "%{" inside      key: no "}" inside

delimiters between adjacent tokens non-empty, names of capturing tokens pairwise different. -/

/-- **`CompileEx` succeeds iff the text is a pattern of the grammar** – for every byte string and
either mode.  `PatternText s` = there is a derivation `p` (`p.Grammar`: leading literal and every
delimiter free of `%{`, keys free of `}`, a non-empty delimiter between adjacent tokens, captured names
pairwise different) whose text `p.render` is `s`.  In particular a `%` that is not followed by `{` is
an ordinary literal byte wherever it stands (the repaired F17 behaviour), and a `%{` without a later
`}` is not derivable. -/
theorem compile_iff_pattern_grammar (s : Bytes) (ic : Bool) :
    (∃ d, compileEx s ic = .ok d) ↔ PatternText s :=
  compileEx_ok_iff_grammar s ic

/-- …and the compiled structure of a derivation: one token per grammar token with its name (without
the `?` flag), its delimiter EXACTLY as written (lowered when ignore-case) and its skip flag; the
(lowered) leading literal; the name table numbering the capturing tokens 1, 2, …; their count. -/
theorem compile_of_derivation (p : Pat) (g : p.Grammar) (ic : Bool) :
    compileEx p.render ic =
      .ok { tokens := p.toks.map (tokOf ic), pre := if ic then lower p.pre else p.pre, ic := ic,
            groupNames := nameTable p.toks, groupCount := capCount p.toks } :=
  compileEx_of_grammar p g ic

/-- Everything outside the grammar is rejected with one of the three Go errors (the model's `fuel`
error – "the loop did not terminate" – never occurs): "rejected" and "not a pattern" coincide.
Which of the three errors is reported is `compile_errors` (+ `every_text_is_pattern`). -/
theorem compile_rejects_iff_not_grammar (s : Bytes) (ic : Bool) :
    (∃ e, compileEx s ic = .error e ∧ e ≠ .fuel) ↔ ¬ PatternText s := by
  rw [← compile_iff_pattern_grammar s ic]
  constructor
  · rintro ⟨e, he, _⟩ ⟨d, hd⟩
    rw [hd] at he; cases he
  · intro hno
    cases hc : compileEx s ic with
    | ok d => exact absurd ⟨d, hc⟩ hno
    | error e => exact ⟨e, rfl, fun hf => compileEx_no_fuel s ic (hf ▸ hc)⟩

/-- The grammar is decidable by ONE left-to-right pass with two states (`scanPattern`: inside a
literal / inside a key; it never looks at `CompileEx`'s `strings.Index` searches).  The correspondence
runs this recogniser against the real `CompileEx` (op `grammar`). -/
theorem accepts_iff_grammar (s : Bytes) : acceptsPattern s = true ↔ PatternText s := by
  rw [← compile_iff_pattern_grammar s false]
  exact accepts_iff_compiles s false

/-- A `%` not followed by `{`, a lone `{` and a `}` are literal bytes: a text without the two-byte
sequence `%{` is a pattern (with no token), compiles, and its whole text is the leading literal. -/
theorem bare_percent_is_literal (s : Bytes) (h : ¬ tokOpen <:+: s) (ic : Bool) :
    PatternText s ∧ compileEx s ic = .ok (compiled ic ⟨s, []⟩) := by
  have g : (⟨s, []⟩ : Pat).Grammar := ⟨h, by simp, by simp, trivial, by simp [capturedNames]⟩
  have hr : (⟨s, []⟩ : Pat).render = s := by simp [Pat.render]
  exact ⟨⟨⟨s, []⟩, g, hr.symm⟩, by simpa [hr] using compileEx_of_grammar ⟨s, []⟩ g ic⟩

/-- **Tie to the source (regenerated on every run)**: the searches, the slice expressions and the
branch conditions of `CompileEx` printed from the Go AST are the ones `compileStep` mirrors:
`start := Index(expr, "%{")`, `expr[start+2:]`, `stop := Index(expr, "}")`, `expr[:stop]`,
`expr[stop+1:]`, `end := Index(expr, "%{")` (NOT a search for a bare `%`), `end == 0` = sequential,
`keyName[0] == '?'` = named skip, the duplicate test on `groupNames`. -/
theorem compile_code_matches_source :
    Gen.C12.compileSearches = [("strings.Index", [37, 123]), ("strings.Index", [125]), ("strings.Index", [37, 123])] ∧
    Gen.C12.compileSlices = ["expr[:start]", "expr[start+2:]", "expr[:stop]", "expr[stop+1:]", "expr[:end]", "expr[end:]", "keyName[1:]"] ∧
    Gen.C12.compileConds = ["start < 0", "len(parts) == 0", "len(parts) == 0", "stop < 0", "end < 0", "end == 0",
      "ignoreCase", "len(keyName) == 0", "keyName[0] == '?'", "!skipped", "_, ok := groupNames[keyName]; ok", "ignoreCase"] := by
  decide

/-! ### Non-vacuity: the hypotheses above are satisfiable on concrete, non-trivial values -/

/-- `k=%{x} %{?s};%{y}` -/
def exPat : Pat := ⟨[107, 61], [⟨[120], [32]⟩, ⟨[63, 115], [59]⟩, ⟨[121], []⟩]⟩
/-- `ak=1 2;3` -/
def exLine : Bytes := [97, 107, 61, 49, 32, 50, 59, 51]
/-- `aK=1 2;3` -/
def exLineUpper : Bytes := [97, 75, 61, 49, 32, 50, 59, 51]

example : exPat.Shape := by decide
example : exPat.render = [107, 61, 37, 123, 120, 125, 32, 37, 123, 63, 115, 125, 59, 37, 123, 121, 125] := by decide
example : ∃ d, compileEx exPat.render false = .ok d ∧ d.groupNames = [([120], 1), ([121], 2)] :=
  ⟨compiled false exPat, by rfl, by decide⟩
example : ∃ d, compileEx exPat.render true = .ok d := ⟨compiled true exPat, by rfl⟩
-- a match with a skipped token, a capture to the end of the line, and a non-zero start
example : specDissect exPat exLine = some [1, 8, 3, 4, 7, 8] := by decide
example : (matchAll (compiled false exPat) [exLine, [], exLine]).toOption =
    some [some [1, 8, 3, 4, 7, 8], none, some [1, 8, 3, 4, 7, 8]] := by decide +kernel
-- ignore-case adds a match the case-sensitive run does not have
example : specDissect exPat exLineUpper = none ∧ specDissectIC exPat exLineUpper = some [1, 8, 3, 4, 7, 8] := by decide
-- F16 (repaired): `héllo=%{v}` on `héllo=1` matches in both modes
example : ((matchAll (compiled false ⟨[104, 195, 169, 108, 108, 111, 61], [⟨[118], []⟩]⟩) [[104, 195, 169, 108, 108, 111, 61, 49]]).toOption,
           (matchAll (compiled true ⟨[104, 195, 169, 108, 108, 111, 61], [⟨[118], []⟩]⟩) [[104, 195, 169, 108, 108, 111, 61, 49]]).toOption) =
    (some [some [0, 8, 7, 8]], some [some [0, 8, 7, 8]]) := by decide +kernel
-- F17 (repaired): `%{a} 100% done %{b}` keeps the literal ` 100% done `
example : (compileEx [37, 123, 97, 125, 32, 49, 48, 48, 37, 32, 100, 111, 110, 101, 32, 37, 123, 98, 125] false).toOption.map
    (fun d => d.tokens.map (·.until_)) = some [[32, 49, 48, 48, 37, 32, 100, 111, 110, 101, 32], []] := by decide
-- the three compile errors: `%{a}%{b}`, `%{a} %{b`, `%{a} %{a}`
example : compileEx [37, 123, 97, 125, 37, 123, 98, 125] false = .error .sequential := by rfl
example : compileEx [37, 123, 97, 125, 32, 37, 123, 98] false = .error .unclosed := by rfl
example : compileEx [37, 123, 97, 125, 32, 37, 123, 97, 125] false = .error .conflict := by rfl
-- the pool: the third request does not fit and is served from a fresh array
example : (getMany (Pool.new 5) [2, 2, 2]).toOption.map (·.1) = some [⟨0, 0, 2⟩, ⟨0, 2, 2⟩, ⟨1, 0, 2⟩] := by decide

-- the grammar: `k=%{x} %{?s};%{y}` is derivable; so is the F17 text `%{a} 100% done %{b}` with the
-- delimiter ` 100% done `; `%{a}%{b}`, `%{a} %{a}`, `%{a} %{b` are not
example : exPat.Grammar := (grammar_iff exPat).mpr ⟨by decide, by decide⟩
example : PatternText exPat.render := ⟨exPat, (grammar_iff exPat).mpr ⟨by decide, by decide⟩, rfl⟩
example : (⟨[], [⟨[97], [32, 49, 48, 48, 37, 32, 100, 111, 110, 101, 32]⟩, ⟨[98], []⟩]⟩ : Pat).Grammar :=
  (grammar_iff _).mpr ⟨by decide, by decide⟩
example : acceptsPattern [37, 123, 97, 125, 32, 49, 48, 48, 37, 32, 100, 111, 110, 101, 32, 37, 123, 98, 125] = true ∧
    acceptsPattern [37, 123, 97, 125, 37, 123, 98, 125] = false ∧
    acceptsPattern [37, 123, 97, 125, 32, 37, 123, 97, 125] = false ∧
    acceptsPattern [37, 123, 97, 125, 32, 37, 123, 98] = false ∧
    acceptsPattern [37, 37, 123, 97, 125, 37] = true := by decide
example : ¬ PatternText [37, 123, 97, 125, 37, 123, 98, 125] := by
  rw [← accepts_iff_grammar]; decide

end Rare.C12
