import Rare.Proofs.Batcher
import Rare.Proofs.Pipeline
import Rare.Model.C01
import Rare.Gen.Tables
import Rare.Gen.Skeleton
import Rare.Model.PipelineSkeleton
import Rare.Proofs.PipelineTrace
import Rare.Proofs.C01Classify
import Rare.Proofs.C01Trim
import Rare.Proofs.C01Summary
import Rare.Proofs.C01Flags
import Rare.Proofs.C01Unbuffered
import Rare.Proofs.C01Chunk
import Rare.Proofs.C01Colour
import Rare.Proofs.C01Readers
import Rare.Proofs.C01Order
import Rare.Proofs.C01FilterLine
import Rare.Proofs.C01Batches
import Rare.Model.C01Source
import Rare.Gen.C01
/-!
# C01 — every input line is read exactly once and classified exactly once

* `batches_concat`: the batching loops (plain and timer-flushed, any timer behaviour, any batch size)
  neither lose, duplicate nor reorder lines, never send an empty batch, and `BatchStart + idx`
  is the true 1-based line number.
* `pipeline_invariant` … `pipeline_final`: for the goroutine/channel protocol of
  `OpenFilesToChan`/`OpenReaderToChan` → `extractor.New` → consumer, for **every** interleaving,
  every number of readers/workers ≥ 1 and every channel capacity ≥ 1: line conservation at every
  reachable state, no deadlock, termination, no send on a closed channel, and in every terminal state
  the consumer's multiset of matches and the three counters equal the sequential evaluation.
* `context_src_line`, `classification_spec`, `worker_line_number`, `pipeline_final_classified`,
  `mem_reference_lines`: the class and key of a line are `processLineSync`'s evaluation of the configured ignore
  and extract expressions in the line's OWN context (its source name, its 1-based number, its bytes and
  groups), and the terminal state of every execution is the sequential evaluation of exactly that.
* `truthy_spec`: `Truthy` = `strings.TrimSpace(s) != ""` mirrored byte for byte, for every byte string.
* `trace_*`: the event log of a real run is a path of the transition system, with the class of every line
  checked against the configured classifier.
-/
namespace Rare.C01
open Rare.Pipeline Rare.Batcher

/-- Batching is a partition of the line sequence into non-empty consecutive runs, and the line
    number attached to the `idx`-th line of a batch is its 1-based position in the input.
    `ls` pairs every line with the flush-timer oracle's answer at that line. -/
theorem batches_concat {α : Type} (batchSize : Nat) (ls : List (α × Bool)) :
    (run batchSize ls).flatMap (·.lines) = ls.map (·.1) ∧
    (∀ b ∈ run batchSize ls, b.lines ≠ []) ∧
    (run batchSize ls).flatMap lineNumbers = (ls.map (·.1)).zipIdx 1 := by
  have hinv := inv_fold batchSize ls (inv_init (α := α))
  simp only [List.nil_append] at hinv
  have hf := finish_spec hinv
  refine ⟨?_, hf.2, hf.1⟩
  have := congrArg (List.map Prod.fst) hf.1
  rw [List.zipIdx_map_fst, List.map_flatMap] at this
  rw [← this]
  congr 1
  funext b
  simp [lineNumbers, List.zipIdx_map_fst]

/-- Without a timer (the file batcher) every batch except possibly the last has exactly
    `batchSize` lines — stated as: no batch exceeds `max batchSize 1`. -/
theorem batches_bounded {α : Type} (batchSize : Nat) (ls : List α) :
    ∀ b ∈ run batchSize (ls.map fun l => (l, false)), b.lines.length ≤ max batchSize 1 := by
  suffices h : ∀ (ls : List α) (s : LoopSt α), s.cur.length < max batchSize 1 →
      (∀ b ∈ s.out, b.lines.length ≤ max batchSize 1) →
      ∀ b ∈ finish ((ls.map fun l => (l, false)).foldl (step batchSize) s), b.lines.length ≤ max batchSize 1 by
    exact h ls ⟨[], [], 1⟩ (by simp; omega) (by simp)
  intro ls
  induction ls with
  | nil =>
    intro s hc ho b hb
    simp only [List.map_nil, List.foldl_nil, finish] at hb
    split at hb
    · simp at hb; rcases hb with hb | rfl
      · exact ho b hb
      · simp; omega
    · exact ho b hb
  | cons x xs ih =>
    intro s hc ho
    simp only [List.map_cons, List.foldl_cons]
    apply ih
    · unfold step; dsimp only; split <;> simp at * <;> omega
    · unfold step; dsimp only
      split
      · intro b hb; simp at hb
        rcases hb with hb | rfl
        · exact ho b hb
        · simp; omega
      · exact ho

variable {α : Type} [DecidableEq α]
set_option linter.unusedSectionVars false

/-- Conservation at every reachable state, for every schedule: every input line is in exactly one
    place (unread, in the batch channel, held by a worker, or processed), every processed matched
    line is in exactly one place (worker's match batch, match channel, or consumed), the three
    counters equal the class counts of the processed lines, a closed channel has no remaining
    senders, and the channels respect their capacities. -/
theorem pipeline_invariant (cls : α → Cls) (R B K W : Nat) (inputs : List (List (List α))) {s : St α}
    (hr : Reach cls R B K (init inputs W) s) :
    Inv cls B K (inputs.flatMap List.flatten) s :=
  inv_reach (inv_init cls B K inputs W) hr

/-- No deadlock: until the consumer has seen the end of the stream some goroutine can always move. -/
theorem pipeline_progress (cls : α → Cls) {R B K : Nat} (hR : 1 ≤ R) (hB : 1 ≤ B) (hK : 1 ≤ K) (s : St α)
    (hd : s.consDone = false) : ∃ s', Step cls R B K s s' :=
  progress hR hB hK hd

/-- Termination: every step strictly decreases a natural-number measure, so every execution is
    finite (at most `measure (init …)` steps). -/
theorem pipeline_terminates (cls : α → Cls) {R B K : Nat} {s s' : St α} (hs : Step cls R B K s s') :
    measure s' < measure s :=
  step_measure hs

/-- No send on a closed channel: once `c` is closed every reader goroutine has returned, once
    `readChan` is closed every worker has returned (so no goroutine that could send exists). -/
theorem pipeline_no_send_on_closed (cls : α → Cls) (R B K W : Nat) (inputs : List (List (List α))) {s : St α}
    (hr : Reach cls R B K (init inputs W) s) :
    (s.cClosed = true → s.srcs.all SrcSt.isDone = true) ∧
    (s.rcClosed = true → s.workers.all WSt.isExited = true) :=
  let h := pipeline_invariant cls R B K W inputs hr
  ⟨h.cclosed, h.rcclosed⟩

/-- In every terminal state, whatever the schedule, batch size, reader/worker counts and channel
    capacities were: the consumer holds exactly the multiset of matched lines of a sequential
    evaluation, and `R = M + I + U` with each counter equal to its true class count. -/
theorem pipeline_final (cls : α → Cls) (R B K W : Nat) (hW : 1 ≤ W) (inputs : List (List (List α))) {s : St α}
    (hr : Reach cls R B K (init inputs W) s) (hd : s.consDone = true) :
    let all := inputs.flatMap List.flatten
    s.consumed.Perm (all.filter (isMatched cls)) ∧
    s.nRead = all.length ∧
    s.nMatched = (all.filter (isMatched cls)).length ∧
    s.nIgnored = (all.filter (isIgnored cls)).length ∧
    s.nRead = s.nMatched + s.nIgnored + (all.filter fun x => cls x = .unmatched).length := by
  have hinv := pipeline_invariant cls R B K W inputs hr
  have hlen := reach_workers_length hr
  have hne : s.workers ≠ [] := by
    intro h; rw [h] at hlen; simp [init] at hlen; omega
  obtain ⟨h1, h2, h3, h4⟩ := final_state hinv hne hd
  refine ⟨List.perm_iff_count.mpr h1, h2, h3, h4, ?_⟩
  rw [h2, h3, h4]
  generalize inputs.flatMap List.flatten = all
  induction all with
  | nil => simp
  | cons x xs ih =>
    simp only [List.length_cons, List.filter_cons, isMatched, isIgnored]
    have hc : cls x = .matched ∨ cls x = .ignored ∨ cls x = .unmatched := by cases cls x <;> simp
    rcases hc with h | h | h <;> simp [h] <;> omega

/-- The same, stated for byte streams: the sources' bytes are split by the C04 specification,
    batched by the real batching loop with ANY batch size and ANY flush-timer behaviour, and pushed
    through the pipeline under ANY schedule; the outcome is the sequential one. -/
theorem pipeline_final_bytes (cls : Line → Cls) (R B K W batchSize : Nat) (hW : 1 ≤ W)
    (datas : List Bytes) (timer : Nat → Nat → Bool) {s : St Line}
    (hr : Reach cls R B K
      (init ((datas.zipIdx 0).map fun p =>
        (run batchSize ((linesOf p.2 p.1).map fun l => (l, timer p.2 l.num))).map (·.lines)) W) s)
    (hd : s.consDone = true) :
    s.consumed.Perm (seqMatches cls (allLines datas)) ∧
    (⟨s.nRead, s.nMatched, s.nIgnored⟩ : Totals) = seqTotals cls (allLines datas) := by
  have hall : ((datas.zipIdx 0).map fun p =>
        (run batchSize ((linesOf p.2 p.1).map fun l => (l, timer p.2 l.num))).map (·.lines)).flatMap List.flatten
      = allLines datas := by
    unfold allLines
    rw [List.flatMap_map]
    congr 1
    funext p
    have := (batches_concat batchSize ((linesOf p.2 p.1).map fun l => (l, timer p.2 l.num))).1
    rw [List.flatMap_def] at this
    simp only [List.map_map] at this ⊢
    rw [this]; simp [Function.comp_def]
  have := pipeline_final cls R B K W hW _ hr hd
  simp only [hall] at this
  exact ⟨this.1, by simp [seqTotals, this.2.1, this.2.2.1, this.2.2.2.1]⟩

/-! ## Classification: a function of the line's own source, number, bytes and groups

`Model/C01Classify.lean`: `processLine e l` mirrors `processLineSync` for an extractor configuration `e`
(matcher, name table, compiled ignore expressions, compiled extract expression, source names); the
expressions are stages of the shared expression model evaluated against the `SliceSpaceExpressionContext`
of the line (`C02.getMatch` / `C02.getKey`: groups, `{src}`, `{line}`, `{@}`, named groups). -/

/-- The context the expressions of line `l` are evaluated in answers `{src}` with the name of `l`'s own
    source and `{line}` with `l`'s own number (decimal). -/
theorem context_src_line (e : Extractor) (l : Line) :
    ctxGetKey (ctxOf e l) (ascii "src") = .ok (e.sourceName l.src) ∧
    ctxGetKey (ctxOf e l) (ascii "line") = .ok (itoa l.num) := by
  have h1 : (ascii "line" = ascii "src") = False := by
    have : ascii "line" ≠ ascii "src" := by decide +kernel
    simp [this]
  constructor
  · simp [ctxGetKey, C02.getKey, ctxOf]
  · simp only [ctxGetKey, C02.getKey, ctxOf, h1, if_false, if_true]

/-- The JSON views `{.}`, `{#}`, `{.#}` inside an ignore or extract expression are property C16's
    `json(named, numbered)` of the line's OWN matcher result and bytes (named groups in sorted order, then the
    numbered groups), so expressions using them are classified by `processLine` like any other. -/
theorem context_json_keys (e : Extractor) (l : Line) :
    ctxGetKey (ctxOf e l) (ascii ".") = C16.json true false e.names (e.matcher l.text) l.text ∧
    ctxGetKey (ctxOf e l) (ascii "#") = C16.json false true e.names (e.matcher l.text) l.text ∧
    ctxGetKey (ctxOf e l) (ascii ".#") = C16.json true true e.names (e.matcher l.text) l.text := by
  have a1 : ascii "." = [0x2e] := by decide +kernel
  have a2 : ascii "#" = [0x23] := by decide +kernel
  have a3 : ascii ".#" = [0x2e, 0x23] := by decide +kernel
  have a4 : ascii "#." = [0x23, 0x2e] := by decide +kernel
  have s1 : ascii "src" = [115, 114, 99] := by decide +kernel
  have s2 : ascii "line" = [108, 105, 110, 101] := by decide +kernel
  refine ⟨?_, ?_, ?_⟩ <;>
    simp [ctxGetKey, C02.getKey, ctxOf, C16.getKeyJson, a1, a2, a3, a4, s1, s2]

/-- Non-vacuity: with the harness matcher with named groups, `{.#}` of the line `k:v` is the JSON object of the
    three named groups (sorted) followed by the numbered ones, and an ignore expression over it is evaluated. -/
example :
    (ctxGetKey (ctxOf { exampleExtractor with matcher := harnessIndicesN, names := harnessNamesN } ⟨0, 1, ascii "k:v"⟩) (ascii ".#")).toOption
      = some (ascii "{\"all\": \"k:v\", \"key\": \"k\", \"val\": \"v\", \"0\": \"k:v\", \"1\": \"v\", \"2\": \"k\"}") := by
  decide +kernel

/-- The classification clause of the property, for every configuration and every line: the line is
    unmatched iff the matcher finds nothing; otherwise it is ignored iff SOME ignore expression is truthy
    for THAT line (its own groups, source name and line number) or the extracted key is empty, and matched
    with exactly that key otherwise – `classify` is the specification (`Model/C01.lean`).
    Hypotheses: the evaluations do not panic (`rs`, `key` are their results). -/
theorem classification_spec (e : Extractor) (l : Line) (rs : List Bytes) (key : Bytes)
    (hig : evalAll (ctxOf e l) (e.ignore.getD []) = .ok rs)
    (hkey : evalStage (ctxOf e l) e.extract = .ok key) :
    clsOf e l = classify (decide ((e.matcher l.text).length > 0)) rs key ∧
    (clsOf e l = .matched → processLine e l = .ok (.matched key) ∧ keyOf e l = key ∧ key ≠ []) := by
  obtain ⟨o, ho, hc, hk⟩ := processLine_classify e l rs key hig hkey
  refine ⟨by rw [clsOf_of_ok ho, hc], fun hm => ?_⟩
  rw [clsOf_of_ok ho] at hm
  have := hk hm
  subst this
  exact ⟨ho, keyOf_of_matched ho, matched_key_nonempty ho⟩

/-- Non-vacuity of `classification_spec`, and the reason the line number must be the line's own: with the
    ignore expression `{eq {line} 1}` and extract `{src}:{0}` (`exampleExtractor`), the SAME bytes are ignored
    as line 1 and matched as line 2, with the key built from the line's own source name. -/
example :
    (processLine exampleExtractor ⟨0, 1, ascii "k:v"⟩).toOption = some .ignored ∧
    (processLine exampleExtractor ⟨1, 2, ascii "k:v"⟩).toOption = some (.matched (ascii "b.log:k:v")) ∧
    (evalAll (ctxOf exampleExtractor ⟨1, 2, ascii "k:v"⟩) (exampleExtractor.ignore.getD [])).toOption = some [[]] := by
  decide +kernel

/-- `IgnoreMatch` returns at the FIRST truthy result: a line whose first ignore expression is truthy is ignored
    whatever the later expressions and the extract expression would do (they are not evaluated – not even when
    they would panic).  Conversely an evaluation that does panic is not recovered anywhere in the pipeline
    (`processLine = .error`: the worker goroutine's panic ends the process); `NoPanic` is property C08's. -/
theorem ignore_first_truthy (e : Extractor) (l : Line) (st : Expr.Stage) (rest : List Expr.Stage) (r : Bytes)
    (hm : (e.matcher l.text).length > 0) (hig : e.ignore = some (st :: rest))
    (hr : evalStage (ctxOf e l) st = .ok r) (ht : Expr.truthy r = true) :
    processLine e l = .ok .ignored := by
  unfold processLine
  simp only [hm, if_true, hig, ignoreMatch, List.length_cons, Nat.add_eq_zero_iff, Nat.succ_ne_self, and_false,
    if_false, ignoreLoop, hr, ht]

/-- Non-vacuity: first expression truthy on line 1, second one a look-up that panics (a slice beyond the line):
    ignored; the same set in the other order panics. -/
example :
    let boom : Expr.Stage := Expr.Comp.panic "boom"
    let first : Expr.Stage := Expr.Comp.getKey (ascii "line") fun v => .ret (if v = ascii "1" then ascii "1" else [])
    (processLine { exampleExtractor with ignore := some [first, boom] } ⟨0, 1, ascii "k:v"⟩).toOption = some .ignored ∧
    (processLine { exampleExtractor with ignore := some [boom, first] } ⟨0, 1, ascii "k:v"⟩).toOption = none := by
  decide +kernel

/-- What a worker computes as the line number of the `idx`-th line of a batch (`BatchStart + idx`) is the
    number the reference gives that line, for every batch size and timer behaviour, and the line is the
    `number`-th segment of its own source (C02's `lineNumber_true`, here for the lines of source `i`). -/
theorem worker_line_number (batchSize i : Nat) (data : Bytes) (timer : Nat → Bool) :
    ∀ b ∈ run batchSize ((linesOf i data).map fun l => (l, timer l.num)), ∀ p ∈ lineNumbers b,
      p.2 = p.1.num ∧ p.1.src = i ∧ (C04.splitLines data)[p.2 - 1]? = some p.1.text := by
  intro b hb p hp
  have hcat := (batches_concat batchSize ((linesOf i data).map fun l => (l, timer l.num))).2.2
  have hmap : ((linesOf i data).map fun l => (l, timer l.num)).map (·.1) = linesOf i data := by
    simp [Function.comp_def]
  rw [hmap] at hcat
  have hmem : p ∈ (linesOf i data).zipIdx 1 := by
    rw [← hcat]
    exact List.mem_flatMap.mpr ⟨b, hb, hp⟩
  have hnum := zipIdx_num (linesOf i data) 1 (linesOf_num i data) p hmem
  have hl : p.1 ∈ linesOf i data := by
    have := List.mem_map_of_mem (f := Prod.fst) hmem
    rwa [List.zipIdx_map_fst] at this
  obtain ⟨h1, _, h3⟩ := mem_linesOf hl
  exact ⟨hnum, h1, by rw [hnum]; exact h3⟩

/-- `pipeline_final` for the configured extractor: in every terminal state – whatever the batch size,
    flush-timer behaviour, reader/worker counts, channel capacities and schedule – the consumer holds
    exactly the multiset of lines that the sequential evaluation matches WHEN EVERY LINE IS CLASSIFIED IN ITS
    OWN CONTEXT (`processLine e l`: `l`'s own source name, its 1-based position in its own source – see
    `mem_reference_lines` –, its bytes and groups), each with the key of that evaluation, and the three
    counters are the sequential class counts.  Hypothesis `NoPanic`: no expression evaluation panics. -/
theorem pipeline_final_classified (e : Extractor) (R B K W batchSize : Nat) (hW : 1 ≤ W)
    (datas : List Bytes) (timer : Nat → Nat → Bool) (hnp : NoPanic e (allLines datas)) {s : St Line}
    (hr : Reach (clsOf e) R B K
      (init ((datas.zipIdx 0).map fun p =>
        (run batchSize ((linesOf p.2 p.1).map fun l => (l, timer p.2 l.num))).map (·.lines)) W) s)
    (hd : s.consDone = true) :
    s.consumed.Perm ((allLines datas).filter (outcomeIs e .matched)) ∧
    (∀ l ∈ s.consumed, processLine e l = .ok (.matched (keyOf e l)) ∧ keyOf e l ≠ []) ∧
    s.nRead = (allLines datas).length ∧
    s.nMatched = ((allLines datas).filter (outcomeIs e .matched)).length ∧
    s.nIgnored = ((allLines datas).filter (outcomeIs e .ignored)).length ∧
    s.nRead = s.nMatched + s.nIgnored + ((allLines datas).filter (outcomeIs e .unmatched)).length := by
  obtain ⟨hperm, htot⟩ := pipeline_final_bytes (clsOf e) R B K W batchSize hW datas timer hr hd
  -- the class filters, restated over `processLine`
  have hC := fun c => decide_clsOf_eq hnp c
  have hfM := filter_matched_eq hnp
  have hfI := filter_ignored_eq hnp
  simp only [seqMatches, seqTotals, Totals.mk.injEq] at hperm htot
  rw [hfM] at hperm
  refine ⟨hperm, ?_, htot.1, by rw [htot.2.1, hfM], by rw [htot.2.2, hfI], ?_⟩
  · intro l hl
    have hmem := (hperm.mem_iff).mp hl
    simp only [List.mem_filter] at hmem
    have hcl : clsOf e l = .matched := by
      have := hC .matched l hmem.1
      rw [hmem.2] at this
      simpa using this
    have := matched_of_clsOf hcl
    exact ⟨this, matched_key_nonempty this⟩
  · rw [htot.1, htot.2.1, htot.2.2, hfM, hfI]
    exact class_counts e _ hnp

/-- The lines of the sequential reference are exactly "segment `k` of `splitLines` of source `i`, numbered
    `k + 1`": the source index and the line number a line is classified with are its own. -/
theorem mem_reference_lines {datas : List Bytes} {l : Line} (h : l ∈ allLines datas) :
    ∃ data, datas[l.src]? = some data ∧ 1 ≤ l.num ∧ (C04.splitLines data)[l.num - 1]? = some l.text :=
  mem_allLines h

/-- `expressions.Truthy(s)` = `strings.TrimSpace(s) != ""`, for EVERY byte string (valid UTF-8 or not).
    `trimSpace` (Model/C01Trim.lean) mirrors Go's `strings.TrimSpace` loop by loop (ASCII fast path,
    `TrimLeftFunc` over `utf8.DecodeRune`, `TrimRightFunc` over `utf8.DecodeLastRune`, `unicode.IsSpace` = the
    Latin-1 switch + the `White_Space` table; compared byte for byte with the real function by the `trim`
    op).  The `truthy` that the model's classifier and the expression functions use
    (i) is truthy exactly when that trimmed string is not empty, and
    (ii) is truthy exactly when some rune of `[]rune(s)` – an invalid byte counts as U+FFFD – is not
    white space.  So an ignore expression whose result is made only of white space (any of the 25
    `White_Space` runes) does not ignore the line, and one with any other rune or any invalid byte does. -/
theorem truthy_spec (s : Bytes) :
    (Expr.truthy s = true ↔ trimSpace s ≠ []) ∧
    (Expr.truthy s = true ↔ ∃ r ∈ C20.decodeUtf8 s, isSpaceR r = false) := by
  have h1 := truthy_iff_not_allSp s
  refine ⟨?_, ?_⟩
  · rw [h1, ← trimSpace_empty_iff]
  · rw [h1]
    unfold AllSp
    constructor
    · intro h
      apply Classical.byContradiction
      intro hn
      apply h
      intro r hr
      cases hsp : isSpaceR r with
      | true => rfl
      | false => exact absurd ⟨r, hr, hsp⟩ hn
    · rintro ⟨r, hr, hsp⟩ h
      rw [h r hr] at hsp; cases hsp

/-- Non-vacuity / the interesting values: NBSP + EM SPACE + tab is blank (falsy, trimmed to nothing); a
    ZERO WIDTH SPACE (U+200B, not `White_Space`) is truthy; a lone continuation byte `0xA0` is truthy
    (U+FFFD); `TrimSpace` of `" \u00a0a\u3000"` is `a`. -/
example :
    Expr.truthy [0xC2, 0xA0, 0xE2, 0x80, 0x83, 9] = false ∧ trimSpace [0xC2, 0xA0, 0xE2, 0x80, 0x83, 9] = [] ∧
    Expr.truthy [0xE2, 0x80, 0x8B] = true ∧ Expr.truthy [0xA0] = true ∧
    trimSpace [32, 0xC2, 0xA0, 97, 0xE3, 0x80, 0x80] = [97] := by decide +kernel

/-- The channel capacity and constants the model was instantiated with are the ones in the source. -/
theorem constants_from_source : Gen.readChanCap = 5 ∧ Gen.readAheadBufferSize = 131072 ∧
    Gen.autoFlushTimeout = 250000000 := by decide

/-- The goroutine/channel skeleton regenerated from /repo is the one the transition system models
    (sends, receives, closes, WaitGroup and counter operations of the readers, batching loops,
    workers and closers, in source order). -/
theorem skeleton_matches_source :
    Gen.Skeleton.openFilesToChan = PipelineSkeleton.openFilesToChan ∧
    Gen.Skeleton.openReaderToChan = PipelineSkeleton.openReaderToChan ∧
    Gen.Skeleton.syncReaderToBatcher = PipelineSkeleton.syncReaderToBatcher ∧
    Gen.Skeleton.syncReaderToBatcherWithTimeFlush = PipelineSkeleton.syncReaderToBatcher ∧
    Gen.Skeleton.batcherClose = PipelineSkeleton.batcherClose ∧
    Gen.Skeleton.processLineSync = PipelineSkeleton.processLineSync ∧
    Gen.Skeleton.asyncWorker = PipelineSkeleton.asyncWorker ∧
    Gen.Skeleton.extractorNew = PipelineSkeleton.extractorNew := by
  refine ⟨rfl, rfl, rfl, rfl, rfl, rfl, rfl, rfl⟩

/-- Every state can run to completion: from any state some execution reaches the consumer's end of
    stream (with `pipeline_terminates`: every maximal execution does).  In particular the hypotheses
    of `pipeline_final` are satisfiable for every input and configuration. -/
theorem pipeline_reaches_end {β : Type} (cls : β → Cls) {R B K : Nat} (hR : 1 ≤ R) (hB : 1 ≤ B) (hK : 1 ≤ K) :
    ∀ (n : Nat) (s0 s : St β), Reach cls R B K s0 s → measure s ≤ n →
      ∃ s', Reach cls R B K s0 s' ∧ s'.consDone = true := by
  intro n
  induction n with
  | zero =>
    intro s0 s hr hm
    cases hd : s.consDone with
    | true => exact ⟨s, hr, hd⟩
    | false =>
      obtain ⟨s', hs⟩ := progress (cls := cls) hR hB hK hd
      have := step_measure hs
      omega
  | succ n ih =>
    intro s0 s hr hm
    cases hd : s.consDone with
    | true => exact ⟨s, hr, hd⟩
    | false =>
      obtain ⟨s', hs⟩ := progress (cls := cls) hR hB hK hd
      have := step_measure hs
      exact ih s0 s' (.step hr hs) (by omega)

/-- Non-vacuity of `pipeline_final`: a terminal state is reachable for a concrete input with two
    sources, three workers, and it carries the sequential result. -/
example : ∃ s, Reach (fun n : Nat => if n % 2 = 0 then Cls.matched else Cls.unmatched) 2 1 5
    (init [[[2, 3], [4]], [[6]]] 3) s ∧ s.consDone = true ∧ s.consumed.Perm [2, 4, 6] := by
  obtain ⟨s, hr, hd⟩ := pipeline_reaches_end (fun n : Nat => if n % 2 = 0 then Cls.matched else Cls.unmatched)
    (R := 2) (B := 1) (K := 5) (by decide) (by decide) (by decide) _ _ _ .refl (Nat.le_refl _)
  exact ⟨s, hr, hd, (pipeline_final _ 2 1 5 3 (by decide) _ hr hd).1⟩

/-! ## The summary line `Matched: M / R (Ignored: I)` (cmd/helpers/summary.go)

`Model/C01Summary.lean`: `extractorSummary fmt col matched read ignored errors parts` mirrors
`FWriteExtractorSummary` (with `FWriteMatchSummary`, `humanize.Hui` = `humanizeInt[uint64]` / `FormatUint` under
`--noformat`, `color.Wrapi` / `color.Wrapf`); `readSummary` is the specification side: the three numbers a reader
of the line takes it to report. -/

/-- How a counter is printed: without the separators it is the decimal representation of the counter
    (`strconv.FormatUint`), with `--noformat` it is exactly that, and otherwise the digits are grouped in
    threes from the right – for every uint64. -/
theorem summary_number_format (n : Nat) (h : n < 2 ^ 64) :
    C11.Spec.stripCommas (hui true n) = natDigits n ∧ hui false n = natDigits n ∧
    C11.Spec.groupedInThrees (hui true n) = true ∧ C17.decVal (natDigits n) = n := by
  have h' : n < 10 ^ 20 := Nat.lt_trans h (by decide)
  exact ⟨hui_strip true n h', rfl, hui_grouped n h', C17.decVal_natDigits n⟩

/-- The line shows the three counters: reading the number after `Matched: `, the number after ` / ` and the number
    of the ` (Ignored: …)` part (0 when the part is absent – it is absent exactly when the counter is 0) gives back
    `(matched, read, ignored)`, with or without thousands separators and whatever the error count. -/
theorem summary_shows_counters (fmt : Bool) (m r i e : Nat) (hm : m < 2 ^ 64) (hr : r < 2 ^ 64) (hi : i < 2 ^ 64) :
    readSummary (extractorSummary fmt false m r i e []) = some (m, r, i) :=
  readSummary_extractorSummary fmt m r i e (Nat.lt_trans hm (by decide)) (Nat.lt_trans hr (by decide))
    (Nat.lt_trans hi (by decide))

/-- Shape and boundary values: 0, 99/100 (the `FormatInt` shortcut), 999/1000 (first separator), seven digits,
    the largest uint64, `--noformat`, the ignored part only for a non-zero counter, the errors part, additional
    parts, and the colour codes. -/
example :
    summaryLine true false 0 0 0 = ascii "Matched: 0 / 0\n" ∧
    summaryLine true false 99 100 0 = ascii "Matched: 99 / 100\n" ∧
    summaryLine true false 999 1000 1 = ascii "Matched: 999 / 1,000 (Ignored: 1)\n" ∧
    summaryLine true false 1000 1234567 234567 = ascii "Matched: 1,000 / 1,234,567 (Ignored: 234,567)\n" ∧
    summaryLine false false 1000 1234567 234567 = ascii "Matched: 1000 / 1234567 (Ignored: 234567)\n" ∧
    hui true 18446744073709551615 = ascii "18,446,744,073,709,551,615" ∧
    extractorSummary true false 5 7 2 3 [ascii "(R: 1)"] = ascii "Matched: 5 / 7 (R: 1) (Ignored: 2) (Errors: 3)" ∧
    extractorSummary true true 5 1000 2 0 [] =
      ascii "Matched: \x1b[32;1m5\x1b[0m / \x1b[37;1m1,000\x1b[0m (Ignored: \x1b[31m2\x1b[0m)" := by
  decide +kernel

/-- The colour codes are transparent: what a terminal displays of the coloured line (`color.Enabled`: every
    `ESC … m` sequence is not shown) is byte for byte the uncoloured line – for all counters, with or without
    separators, with the ignored / errors parts and any additional parts that carry no `ESC` themselves. -/
theorem summary_colours_transparent (fmt : Bool) (m r i e : Nat) (parts : List Bytes)
    (hp : ∀ p ∈ parts, (27 : UInt8) ∉ p) :
    stripAnsi (extractorSummary fmt true m r i e parts) = extractorSummary fmt false m r i e parts ∧
    stripAnsi (extractorSummary fmt false m r i e parts) = extractorSummary fmt false m r i e parts :=
  ⟨stripAnsi_extractorSummary fmt m r i e parts hp, stripAnsi_extractorSummary_plain fmt m r i e parts hp⟩

/-- `summary_shows_counters` without the restriction to `--nocolor`: the displayed line shows the three counters
    whether colours are on or off. -/
theorem summary_shows_counters_any_colour (fmt col : Bool) (m r i e : Nat) (hm : m < 2 ^ 64) (hr : r < 2 ^ 64)
    (hi : i < 2 ^ 64) :
    readSummary (stripAnsi (extractorSummary fmt col m r i e [])) = some (m, r, i) := by
  have h := summary_colours_transparent fmt m r i e [] (by simp)
  cases col
  · rw [h.2]; exact summary_shows_counters fmt m r i e hm hr hi
  · rw [h.1]; exact summary_shows_counters fmt m r i e hm hr hi

/-- Non-vacuity: the coloured line of the example above is displayed as the plain one. -/
example : stripAnsi (extractorSummary true true 5 1000 2 3 [ascii "(R: 1)"]) =
    ascii "Matched: 5 / 1,000 (R: 1) (Ignored: 2) (Errors: 3)" := by decide +kernel

/-- The summary printed after ANY complete run is the summary of the sequential evaluation: the line written from
    the three counters of a terminal state reads back as (matched, read, ignored) of `seqTotals`, and
    `read = matched + ignored + unmatched`.  The counters are uint64: fewer than 2^64 lines. -/
theorem pipeline_final_summary (cls : Line → Cls) (R B K W batchSize : Nat) (hW : 1 ≤ W)
    (datas : List Bytes) (timer : Nat → Nat → Bool) (hsize : (allLines datas).length < 2 ^ 64) {s : St Line}
    (hr : Reach cls R B K
      (init ((datas.zipIdx 0).map fun p =>
        (run batchSize ((linesOf p.2 p.1).map fun l => (l, timer p.2 l.num))).map (·.lines)) W) s)
    (hd : s.consDone = true) (fmt : Bool) :
    let t := seqTotals cls (allLines datas)
    summaryLine fmt false s.nMatched s.nRead s.nIgnored = summaryLine fmt false t.matched t.read t.ignored ∧
    readSummary (extractorSummary fmt false s.nMatched s.nRead s.nIgnored 0 []) = some (t.matched, t.read, t.ignored) ∧
    t.read = t.matched + t.ignored + ((allLines datas).filter fun l => cls l = .unmatched).length := by
  obtain ⟨_, htot⟩ := pipeline_final_bytes cls R B K W batchSize hW datas timer hr hd
  simp only [seqTotals, Totals.mk.injEq] at htot
  obtain ⟨h1, h2, h3⟩ := htot
  have hm : ((allLines datas).filter (isMatched cls)).length ≤ (allLines datas).length := List.length_filter_le _ _
  have hi : ((allLines datas).filter (isIgnored cls)).length ≤ (allLines datas).length := List.length_filter_le _ _
  simp only [seqTotals]
  refine ⟨by rw [h1, h2, h3], ?_, ?_⟩
  · rw [h1, h2, h3]
    exact summary_shows_counters fmt _ _ _ 0 (by omega) (by omega) (by omega)
  · generalize allLines datas = all
    induction all with
    | nil => simp
    | cons x xs ih =>
      simp only [List.length_cons, List.filter_cons, isMatched, isIgnored]
      have hc : cls x = .matched ∨ cls x = .ignored ∨ cls x = .unmatched := by cases cls x <;> simp
      rcases hc with h | h | h <;> simp [h] <;> omega

/-! ## From the command line to the parameters of the transition system (cmd/helpers/extractorBuilder.go)

`Model/C01Flags.lean`: `configure f input` mirrors `BuildBatcherFromArguments` + `BuildExtractorFromArgumentsEx` +
the constructors as far as the four tuning flags go: the usage guards (interpreted from the table that
`flag_plumbing_matches_source` proves equal to the source's), which value becomes which parameter, the worker
fallback. -/

/-- A flag set is accepted exactly when `--batch >= 1`, `--batch-buffer >= 0` and `--readers >= 1`; `--workers` is
    never rejected. -/
theorem flags_accepted_iff (f : Flags) (input : Input) :
    (∃ cfg, configure f input = .ok cfg) ↔ (1 ≤ f.batch ∧ 0 ≤ f.batchBuffer ∧ 1 ≤ f.readers) := by
  unfold configure
  rw [checkGuards_usageGuards]
  by_cases h1 : f.batch < 1
  · simp only [h1, if_true]; constructor
    · rintro ⟨_, h⟩; cases h
    · intro h; omega
  · by_cases h2 : f.batchBuffer < 0
    · simp only [h1, h2, if_true, if_false]; constructor
      · rintro ⟨_, h⟩; cases h
      · intro h; omega
    · by_cases h3 : f.readers < 1
      · simp only [h1, h2, h3, if_true, if_false]; constructor
        · rintro ⟨_, h⟩; cases h
        · intro h; omega
      · simp only [h1, h2, h3, if_false]
        exact ⟨fun _ => by omega, fun _ => ⟨_, rfl⟩⟩

/-- Every rejection is an invalid-usage exit (code 2), with the message of the FIRST guard that fires. -/
theorem flags_rejected (f : Flags) (input : Input) (u : Usage) (h : configure f input = .error u) :
    u.code = 2 ∧
    (f.batch < 1 → u.msg = fmtMsg "Batch size must be >= 1, is %d" f.batch) ∧
    (1 ≤ f.batch → f.batchBuffer < 0 → u.msg = fmtMsg "Batch buffer must be >= 0, is %d" f.batchBuffer) ∧
    (1 ≤ f.batch → 0 ≤ f.batchBuffer → u.msg = "Must have at least 1 reader") := by
  unfold configure at h
  rw [checkGuards_usageGuards] at h
  by_cases h1 : f.batch < 1
  · simp only [h1, if_true] at h
    injection h with h; subst h
    exact ⟨rfl, fun _ => rfl, fun _ => by omega, fun _ => by omega⟩
  · by_cases h2 : f.batchBuffer < 0
    · simp only [h1, h2, if_true, if_false] at h
      injection h with h; subst h
      exact ⟨rfl, fun _ => by omega, fun _ _ => rfl, fun _ _ => by omega⟩
    · by_cases h3 : f.readers < 1
      · simp only [h1, h2, h3, if_true, if_false] at h
        injection h with h; subst h
        exact ⟨rfl, fun _ => by omega, fun _ _ => by omega, fun _ _ => rfl⟩
      · simp only [h1, h2, h3, if_false] at h
        cases h

/-- Which value goes where, for every accepted flag set: the batch size of the batching loop is `--batch` (≥ 1),
    the capacity of the batch channel is `--batch-buffer`, the semaphore holds `--readers` slots for files and
    stdin is a single reader running the time-flushing loop, `readChan` has capacity 5, and the number of workers
    is `--workers` when that is at least 1 and 2 otherwise – never 0. -/
theorem flags_config (f : Flags) (input : Input) (cfg : PipeCfg) (h : configure f input = .ok cfg) :
    (cfg.batch : Int) = f.batch ∧ 1 ≤ cfg.batch ∧ (cfg.B : Int) = f.batchBuffer ∧ cfg.K = 5 ∧
    1 ≤ cfg.W ∧ (1 ≤ f.workers → (cfg.W : Int) = f.workers) ∧ (f.workers ≤ 0 → cfg.W = 2) ∧
    1 ≤ cfg.R ∧ (input = .files → (cfg.R : Int) = f.readers ∧ cfg.timed = false) ∧
    (input = .stdin → cfg.R = 1 ∧ cfg.timed = true) := by
  have hacc := (flags_accepted_iff f input).mp ⟨cfg, h⟩
  obtain ⟨h1, h2, h3⟩ := hacc
  unfold configure at h
  split at h
  · cases h
  · injection h with h
    subst h
    simp only [getWorkerCount]
    refine ⟨by omega, by omega, by omega, (by first | rfl | trivial), ?_, ?_, ?_, ?_, ?_, ?_⟩
    · split <;> omega
    · intro hw; have : ¬ f.workers ≤ 0 := by omega
      simp only [this, if_false]; omega
    · intro hw; simp [hw]
    · cases input <;> simp <;> omega
    · intro hi; subst hi; simp; omega
    · intro hi; subst hi; simp

/-- The defaults are accepted on every machine: batch 1000, three readers, `NumCPU/2+1` workers and twice as
    many buffered batches. -/
theorem flags_default_accepted (numCPU : Nat) (input : Input) :
    ∃ cfg, configure (Flags.default numCPU) input = .ok cfg ∧ cfg.batch = 1000 ∧ cfg.W = numCPU / 2 + 1 ∧
      cfg.B = 2 * (numCPU / 2 + 1) ∧ cfg.K = 5 := by
  have hacc : 1 ≤ (Flags.default numCPU).batch ∧ 0 ≤ (Flags.default numCPU).batchBuffer ∧ 1 ≤ (Flags.default numCPU).readers := by
    simp only [Flags.default, workerCount]; omega
  obtain ⟨cfg, h⟩ := (flags_accepted_iff _ input).mpr hacc
  obtain ⟨hb, _, hB, hK, _, hW, _⟩ := flags_config _ input cfg h
  refine ⟨cfg, h, ?_, ?_, ?_, hK⟩
  · simp only [Flags.default] at hb; omega
  · have := hW (by simp only [Flags.default, workerCount]; omega)
    simp only [Flags.default, workerCount] at this; omega
  · simp only [Flags.default, workerCount] at hB; omega

/-- Boundary values: `--batch 0`, `--batch-buffer -1`, `--readers 0` are usage errors (exit code 2, the real
    messages); `--batch-buffer 0` (an unbuffered channel) and `--workers 0` / `-3` (two workers) are accepted. -/
example :
    configure ⟨0, 4, 2, 3⟩ .files = .error ⟨2, "Batch size must be >= 1, is 0"⟩ ∧
    configure ⟨-7, -1, 2, 0⟩ .files = .error ⟨2, "Batch size must be >= 1, is -7"⟩ ∧
    configure ⟨1, -1, 2, 0⟩ .stdin = .error ⟨2, "Batch buffer must be >= 0, is -1"⟩ ∧
    configure ⟨1, 0, 2, 0⟩ .files = .error ⟨2, "Must have at least 1 reader"⟩ ∧
    configure ⟨1, 0, 0, 1⟩ .files = .ok ⟨1, 1, 0, 2, 5, false⟩ ∧
    configure ⟨7, 3, -3, 4⟩ .files = .ok ⟨7, 4, 3, 2, 5, false⟩ ∧
    configure ⟨7, 3, 6, 4⟩ .stdin = .ok ⟨7, 1, 3, 6, 5, true⟩ := by
  refine ⟨rfl, rfl, rfl, rfl, rfl, rfl, rfl⟩

/-- The end-to-end statement for the command line: for EVERY accepted flag set with a buffered batch channel
    (`--batch-buffer >= 1`), files or stdin, every extractor configuration and every input, (i) some execution of
    the pipeline with the parameters the flags configure reaches the end of the stream, and (ii) every execution
    that does ends with the sequential outcome: the consumer holds exactly the lines matched in their own
    context, with their own keys, and the counters are the sequential class counts. -/
theorem cli_final (f : Flags) (input : Input) (cfg : PipeCfg) (hc : configure f input = .ok cfg)
    (hB : 1 ≤ f.batchBuffer) (e : Extractor) (datas : List Bytes) (timer : Nat → Nat → Bool)
    (hnp : NoPanic e (allLines datas)) :
    let s0 := init ((datas.zipIdx 0).map fun p =>
        (run cfg.batch ((linesOf p.2 p.1).map fun l => (l, timer p.2 l.num))).map (·.lines)) cfg.W
    (∃ s, Reach (clsOf e) cfg.R cfg.B cfg.K s0 s ∧ s.consDone = true) ∧
    ∀ s, Reach (clsOf e) cfg.R cfg.B cfg.K s0 s → s.consDone = true →
      s.consumed.Perm ((allLines datas).filter (outcomeIs e .matched)) ∧
      (∀ l ∈ s.consumed, processLine e l = .ok (.matched (keyOf e l)) ∧ keyOf e l ≠ []) ∧
      s.nRead = (allLines datas).length ∧
      s.nMatched = ((allLines datas).filter (outcomeIs e .matched)).length ∧
      s.nIgnored = ((allLines datas).filter (outcomeIs e .ignored)).length := by
  obtain ⟨_, _, hBe, hK, hW, _, _, hR, _, _⟩ := flags_config f input cfg hc
  intro s0
  refine ⟨?_, ?_⟩
  · exact pipeline_reaches_end (clsOf e) hR (by omega) (by omega) _ s0 s0 .refl (Nat.le_refl _)
  · intro s hr hd
    obtain ⟨h1, h2, h3, h4, h5, _⟩ := pipeline_final_classified e cfg.R cfg.B cfg.K cfg.W cfg.batch hW datas timer hnp hr hd
    exact ⟨h1, h2, h3, h4, h5⟩

/-! ## An unbuffered batch channel (`--batch-buffer 0`, accepted by the command line)

`Model/C01Unbuffered.lean`: with `make(chan InputBatch, 0)` a batch goes from a reader to a worker in one
rendezvous (`Step0.handoff`); every other transition is the buffered system's. -/

/-- Every execution with an unbuffered batch channel is an execution of the buffered system with capacity 1 (a
    hand-over = a send immediately followed by the receive), so every reachable state satisfies the conservation
    invariant; the channel is empty in every state. -/
theorem pipeline_unbuffered_refines (cls : α → Cls) (R K W : Nat) (inputs : List (List (List α))) {s : St α}
    (h : Reach0 cls R K (init inputs W) s) :
    s.c = [] ∧ Reach cls R 1 K (init inputs W) s ∧ Inv cls 1 K (inputs.flatMap List.flatten) s := by
  obtain ⟨hc, hr⟩ := reach0_reach (by simp [init]) h
  exact ⟨hc, hr, pipeline_invariant cls R 1 K W inputs hr⟩

/-- No deadlock and termination with an unbuffered batch channel: while the consumer has not seen the end of the
    stream some goroutine (or a reader/worker pair) can move, and every move decreases the measure. -/
theorem pipeline_unbuffered_progress (cls : α → Cls) {R K : Nat} (hR : 1 ≤ R) (hK : 1 ≤ K) (W : Nat)
    (inputs : List (List (List α))) {s : St α} (h : Reach0 cls R K (init inputs W) s) (hd : s.consDone = false) :
    ∃ s', Step0 cls R K s s' ∧ measure s' < measure s := by
  have hc := (reach0_reach (by simp [init]) h).1
  obtain ⟨s', hs⟩ := progress0 (cls := cls) hR hK hc hd
  exact ⟨s', hs, step0_measure hs hc⟩

/-- `pipeline_final` for the unbuffered batch channel: in every terminal state the consumer holds exactly the
    sequential multiset of matches and the counters are the sequential class counts. -/
theorem pipeline_unbuffered_final (cls : α → Cls) (R K W : Nat) (hW : 1 ≤ W) (inputs : List (List (List α))) {s : St α}
    (h : Reach0 cls R K (init inputs W) s) (hd : s.consDone = true) :
    let all := inputs.flatMap List.flatten
    s.consumed.Perm (all.filter (isMatched cls)) ∧
    s.nRead = all.length ∧
    s.nMatched = (all.filter (isMatched cls)).length ∧
    s.nIgnored = (all.filter (isIgnored cls)).length ∧
    s.nRead = s.nMatched + s.nIgnored + (all.filter fun x => cls x = .unmatched).length :=
  pipeline_final cls R 1 K W hW inputs (reach0_reach (by simp [init]) h).2 hd

/-- Some execution with an unbuffered batch channel reaches the end of the stream (with
    `pipeline_unbuffered_progress`: every maximal one does). -/
theorem pipeline_unbuffered_reaches_end {β : Type} (cls : β → Cls) {R K : Nat} (hR : 1 ≤ R) (hK : 1 ≤ K) (W : Nat)
    (inputs : List (List (List β))) :
    ∀ (n : Nat) (s : St β), Reach0 cls R K (init inputs W) s → measure s ≤ n →
      ∃ s', Reach0 cls R K (init inputs W) s' ∧ s'.consDone = true := by
  intro n
  induction n with
  | zero =>
    intro s hr hm
    cases hd : s.consDone with
    | true => exact ⟨s, hr, hd⟩
    | false =>
      have hc := (reach0_reach (by simp [init]) hr).1
      obtain ⟨s', hs⟩ := progress0 (cls := cls) hR hK hc hd
      have := step0_measure hs hc
      omega
  | succ n ih =>
    intro s hr hm
    cases hd : s.consDone with
    | true => exact ⟨s, hr, hd⟩
    | false =>
      have hc := (reach0_reach (by simp [init]) hr).1
      obtain ⟨s', hs⟩ := progress0 (cls := cls) hR hK hc hd
      have := step0_measure hs hc
      exact ih s' (.step hr hs) (by omega)

/-- Non-vacuity: two sources, two workers, unbuffered: a terminal state exists and carries the sequential result. -/
example : ∃ s, Reach0 (fun n : Nat => if n % 2 = 0 then Cls.matched else Cls.unmatched) 2 5
    (init [[[2, 3], [4]], [[6]]] 2) s ∧ s.consDone = true ∧ s.consumed.Perm [2, 4, 6] := by
  obtain ⟨s, hr, hd⟩ := pipeline_unbuffered_reaches_end (fun n : Nat => if n % 2 = 0 then Cls.matched else Cls.unmatched)
    (R := 2) (K := 5) (by decide) (by decide) 2 [[[2, 3], [4]], [[6]]] _ _ .refl (Nat.le_refl _)
  exact ⟨s, hr, hd, (pipeline_unbuffered_final _ 2 5 2 (by decide) _ hr hd).1⟩

/-- `cli_final` for the remaining accepted value `--batch-buffer 0`: some execution reaches the end of the stream
    and every execution that does ends with the sequential outcome.  Together with `cli_final`: for EVERY flag set
    the command line accepts. -/
theorem cli_final_unbuffered (f : Flags) (input : Input) (cfg : PipeCfg) (hc : configure f input = .ok cfg)
    (hB : f.batchBuffer = 0) (e : Extractor) (datas : List Bytes) (timer : Nat → Nat → Bool)
    (hnp : NoPanic e (allLines datas)) :
    let s0 := init ((datas.zipIdx 0).map fun p =>
        (run cfg.batch ((linesOf p.2 p.1).map fun l => (l, timer p.2 l.num))).map (·.lines)) cfg.W
    cfg.B = 0 ∧ (∃ s, Reach0 (clsOf e) cfg.R cfg.K s0 s ∧ s.consDone = true) ∧
    ∀ s, Reach0 (clsOf e) cfg.R cfg.K s0 s → s.consDone = true →
      s.consumed.Perm ((allLines datas).filter (outcomeIs e .matched)) ∧
      (∀ l ∈ s.consumed, processLine e l = .ok (.matched (keyOf e l)) ∧ keyOf e l ≠ []) ∧
      s.nRead = (allLines datas).length ∧
      s.nMatched = ((allLines datas).filter (outcomeIs e .matched)).length ∧
      s.nIgnored = ((allLines datas).filter (outcomeIs e .ignored)).length := by
  obtain ⟨_, _, hBe, hK, hW, _, _, hR, _, _⟩ := flags_config f input cfg hc
  intro s0
  refine ⟨by omega, ?_, ?_⟩
  · exact pipeline_unbuffered_reaches_end (clsOf e) hR (by omega) cfg.W _ _ s0 .refl (Nat.le_refl _)
  · intro s hr hd
    have hr1 := (reach0_reach (by simp [s0, init]) hr).2
    obtain ⟨h1, h2, h3, h4, h5, _⟩ := pipeline_final_classified e cfg.R 1 cfg.K cfg.W cfg.batch hW datas timer hnp hr1 hd
    exact ⟨h1, h2, h3, h4, h5⟩

/-! ## Read chunking, read errors and the exit code (C04's scanner in front of the pipeline)

`Model/C01Chunk.lean`: a source is the byte stream behind an `io.Reader` that delivers it in chunks of any size, with
stalls, and with `io.EOF` or another error at any position (C04's scripted reader), or a file that cannot be opened.
`scannedInputs` = the batches the reader goroutines cut from what the REAL scanner configuration
(`readahead.NewImmediate(reader, ReadAheadBufferSize)`, C04's model) hands them. -/

/-- The property's "for every read chunking", with the seam to C04 closed: whatever the chunking / stall / fault
    script of every source's reader, batch size, flush-timer behaviour, R/B/K/W and schedule, a terminal state
    carries the sequential evaluation of the bytes the readers DELIVERED; those are a prefix of every stream, and
    the whole stream when the source could be opened and no `Read` reported an error before the end – so then the
    outcome does not depend on the chunking at all. -/
theorem pipeline_final_chunked (cls : Line → Cls) (R B K W batchSize : Nat) (hW : 1 ≤ W)
    (srcs : List SrcIn) (timer : Nat → Nat → Bool) {s : St Line}
    (hr : Reach cls R B K (init (scannedInputs batchSize srcs timer) W) s) (hd : s.consDone = true) :
    let delivered := srcs.map deliveredOf
    s.consumed.Perm (seqMatches cls (allLines delivered)) ∧
    (⟨s.nRead, s.nMatched, s.nIgnored⟩ : Totals) = seqTotals cls (allLines delivered) ∧
    (∀ src ∈ srcs, deliveredOf src <+: src.data) ∧
    ((∀ src ∈ srcs, src.opened = true ∧ ∀ st ∈ src.script, st.err = none) → delivered = srcs.map (·.data)) := by
  intro delivered
  rw [scannedInputs_eq] at hr
  obtain ⟨h1, h2⟩ := pipeline_final_bytes cls R B K W batchSize hW delivered timer hr hd
  refine ⟨h1, h2, fun src _ => deliveredOf_prefix src, fun h => ?_⟩
  apply List.map_congr_left
  intro src hs
  exact deliveredOf_full src (h src hs).1 (h src hs).2

/-- Non-vacuity and the interesting cases: a reader that delivers `a\nb\nc` in chunks of 1, 0, 2 bytes and then
    fails (the bytes read so far are kept: lines `a`, `b`, one error); the same stream chunked without a fault (all
    three lines, no error); a directory given as a file (first `Read` fails: no line, one error); a missing file. -/
example :
    (scanSrc ⟨true, ascii "a\nb\nc", [⟨1, none⟩, ⟨0, none⟩, ⟨2, none⟩, ⟨1, some .fail⟩]⟩).tokens = [ascii "a", ascii "b"] ∧
    (scanSrc ⟨true, ascii "a\nb\nc", [⟨1, none⟩, ⟨0, none⟩, ⟨2, none⟩, ⟨1, some .fail⟩]⟩).errs = 1 ∧
    (scanSrc ⟨true, ascii "a\nb\nc", [⟨1, none⟩, ⟨0, none⟩, ⟨2, none⟩]⟩).tokens = [ascii "a", ascii "b", ascii "c"] ∧
    (scanSrc ⟨true, ascii "a\nb\nc", [⟨1, none⟩, ⟨0, none⟩, ⟨2, none⟩]⟩).errs = 0 ∧
    (scanSrc ⟨true, [], [⟨0, some .fail⟩]⟩).tokens = [] ∧ (scanSrc ⟨true, [], [⟨0, some .fail⟩]⟩).errs = 1 ∧
    (scanSrc ⟨false, ascii "zz", []⟩).tokens = [] ∧ (scanSrc ⟨false, ascii "zz", []⟩).errs = 1 := by
  decide +kernel

/-- `Batcher.ReadErrors()` after the run: at most one per source (the scanner's error callback fires at most once,
    C04 `imm_error_once`; a failed open ends the goroutine), none when every file opens and no `Read` fails, at
    least one as soon as one file cannot be opened. -/
theorem read_errors_spec (srcs : List SrcIn) :
    readErrors srcs ≤ srcs.length ∧
    ((∀ src ∈ srcs, src.opened = true ∧ ∀ st ∈ src.script, st.err ≠ some .fail) → readErrors srcs = 0) ∧
    ((∃ src ∈ srcs, src.opened = false) → 0 < readErrors srcs) := by
  unfold readErrors
  induction srcs with
  | nil => simp
  | cons a rest ih =>
    obtain ⟨ih1, ih2, ih3⟩ := ih
    have ha := srcErrs_le_one a
    simp only [List.map_cons, List.sum_cons, List.length_cons, List.mem_cons, forall_eq_or_imp, exists_eq_or_imp]
    refine ⟨by omega, ?_, ?_⟩
    · rintro ⟨⟨ho, hs⟩, hr⟩
      rw [srcErrs_zero a ho hs, ih2 hr]
    · rintro (ho | hr)
      · rw [srcErrs_closed a ho]; omega
      · have := ih3 hr; omega

/-- `DetermineErrorState` (the guard table it is interpreted from is the source's, `exit_and_read_path_match_source`):
    read errors win (exit 2), then parse errors of the aggregator (exit 2; `none` = no aggregator, `rare filter`),
    then "no line matched" (exit 1, empty message); otherwise `nil` (exit 0). -/
theorem exit_code_spec (re : Nat) (pe : Option Nat) (m : Nat) :
    determineErrorState re pe m =
      if re > 0 then some ("Read errors", 2)
      else if pe.getD 0 > 0 then some ("Parse errors", 2)
      else if m = 0 then some ("", 1) else none := by
  simp only [determineErrorState, exitGuards, runExitGuards, exitCond]
  by_cases h1 : re > 0
  · simp [h1, exitCodeOf]
  · by_cases h3 : m = 0 <;> cases pe with
    | none => simp [h1, h3, exitCodeOf]
    | some p => by_cases h2 : p > 0 <;> simp [h1, h2, h3, exitCodeOf]

/-- The exit code of `rare filter` after ANY complete run is a function of the inputs alone: 2 when some source had
    a read / open error, else 1 when the sequential evaluation of the delivered bytes matches no line, else 0 – for
    every chunking, batch size, timer behaviour, R/B/K/W and schedule (`s.nMatched` is the counter
    `DetermineErrorState` reads). -/
theorem cli_exit_code (e : Extractor) (R B K W batchSize : Nat) (hW : 1 ≤ W)
    (srcs : List SrcIn) (timer : Nat → Nat → Bool) (hnp : NoPanic e (allLines (srcs.map deliveredOf))) {s : St Line}
    (hr : Reach (clsOf e) R B K (init (scannedInputs batchSize srcs timer) W) s) (hd : s.consDone = true) :
    let ms := (allLines (srcs.map deliveredOf)).filter (outcomeIs e .matched)
    s.consumed.Perm ms ∧ s.nMatched = ms.length ∧
    exitCode (readErrors srcs) none s.nMatched =
      (if readErrors srcs > 0 then 2 else if ms = [] then 1 else 0) := by
  intro ms
  rw [scannedInputs_eq] at hr
  obtain ⟨h1, _, _, h4, _, _⟩ := pipeline_final_classified e R B K W batchSize hW _ timer hnp hr hd
  refine ⟨h1, h4, ?_⟩
  simp only [exitCode, exit_code_spec, Option.getD_none]
  rw [h4]
  change (match (if readErrors srcs > 0 then some ("Read errors", (2:Int)) else if 0 > 0 then some ("Parse errors", 2)
      else if ms.length = 0 then some ("", 1) else none) with | none => (0:Int) | some (_, c) => c) = if readErrors srcs > 0 then 2 else if ms = [] then 1 else 0
  generalize ms = l
  by_cases hre : readErrors srcs > 0
  · simp [hre]
  · cases l <;> simp [hre]

/-- Boundary values of the exit code: errors beat everything, a parse error beats "no data", no aggregator. -/
example :
    determineErrorState 1 (some 5) 0 = some ("Read errors", 2) ∧ determineErrorState 0 (some 1) 7 = some ("Parse errors", 2) ∧
    determineErrorState 0 (some 0) 0 = some ("", 1) ∧ determineErrorState 0 none 0 = some ("", 1) ∧
    determineErrorState 0 none 1 = none ∧ exitCode 0 none 3 = 0 ∧ exitCode 2 none 3 = 2 := by decide

/-- **Everything a user observes of a complete run is a function of the delivered input alone.**  For EVERY command
    line the usage guards accept (`--batch-buffer >= 1`: buffered system; `= 0`: rendezvous system), files or stdin,
    every extractor configuration, every behaviour of every source's reader (chunking, stalls, faults, failed open),
    every flush-timer behaviour: some execution reaches the end of the stream, and in EVERY execution that does
    (every interleaving of readers, workers and the consumer) the consumer has received exactly the sequentially
    matched lines, the stderr line `Matched: M / R (Ignored: I)` is byte for byte the line of the sequential totals,
    and the exit code is 2 / 1 / 0 for "a source failed" / "nothing matched" / otherwise. -/
theorem cli_run_observables (f : Flags) (input : Input) (cfg : PipeCfg) (hc : configure f input = .ok cfg)
    (e : Extractor) (srcs : List SrcIn) (timer : Nat → Nat → Bool)
    (hnp : NoPanic e (allLines (srcs.map deliveredOf))) (fmt : Bool) :
    let s0 := init (scannedInputs cfg.batch srcs timer) cfg.W
    let ls := allLines (srcs.map deliveredOf)
    let ms := ls.filter (outcomeIs e .matched)
    let ig := ls.filter (outcomeIs e .ignored)
    let Final : St Line → Prop := fun s =>
      s.consumed.Perm ms ∧
      summaryLine fmt false s.nMatched s.nRead s.nIgnored = summaryLine fmt false ms.length ls.length ig.length ∧
      exitCode (readErrors srcs) none s.nMatched = (if readErrors srcs > 0 then 2 else if ms = [] then 1 else 0)
    (1 ≤ f.batchBuffer →
      (∃ s, Reach (clsOf e) cfg.R cfg.B cfg.K s0 s ∧ s.consDone = true) ∧
      ∀ s, Reach (clsOf e) cfg.R cfg.B cfg.K s0 s → s.consDone = true → Final s) ∧
    (f.batchBuffer = 0 →
      (∃ s, Reach0 (clsOf e) cfg.R cfg.K s0 s ∧ s.consDone = true) ∧
      ∀ s, Reach0 (clsOf e) cfg.R cfg.K s0 s → s.consDone = true → Final s) := by
  obtain ⟨_, _, hBe, hK, hW, _, _, hR, _, _⟩ := flags_config f input cfg hc
  intro s0 ls ms ig Final
  have key : ∀ B s, Reach (clsOf e) cfg.R B cfg.K s0 s → s.consDone = true → Final s := by
    intro B s hr hd
    obtain ⟨h1, h2, h3⟩ := cli_exit_code e cfg.R B cfg.K cfg.W cfg.batch hW srcs timer hnp hr hd
    have hr' := hr
    simp only [s0] at hr'
    rw [scannedInputs_eq] at hr'
    obtain ⟨_, _, g3, g4, g5, _⟩ := pipeline_final_classified e cfg.R B cfg.K cfg.W cfg.batch hW _ timer hnp hr' hd
    exact ⟨h1, by rw [g3, g4, g5], h3⟩
  refine ⟨fun hB => ⟨?_, fun s hr hd => key _ s hr hd⟩, fun hB => ⟨?_, fun s hr hd => ?_⟩⟩
  · exact pipeline_reaches_end (clsOf e) hR (by omega) (by omega) _ s0 s0 .refl (Nat.le_refl _)
  · exact pipeline_unbuffered_reaches_end (clsOf e) hR (by omega) cfg.W _ _ s0 .refl (Nat.le_refl _)
  · exact key 1 s (reach0_reach (by simp [s0, init]) hr).2 hd

/-! ## Reader concurrency (`--readers`) -/

/-- In every reachable state at most `R` reader goroutines are running (sources `active`): the semaphore bound of
    `OpenFilesToChan`, for every schedule. -/
theorem pipeline_reader_bound (cls : α → Cls) (R B K W : Nat) (inputs : List (List (List α))) {s : St α}
    (hr : Reach cls R B K (init inputs W) s) : activeCount s ≤ R :=
  activeCount_reach hr (by rw [activeCount_init]; omega)

/-- … and the bound is attained: a state with `min R n` readers running at the same time is reachable (the spawner
    starts goroutines until the semaphore is full or the file names run out) – so `--readers` is exactly the number
    of files read concurrently when there are enough files (the `rdopen` op observes this number on the real code). -/
theorem pipeline_readers_saturate (cls : α → Cls) (R B K W : Nat) (inputs : List (List (List α))) :
    ∃ s, Reach cls R B K (init inputs W) s ∧ activeCount s = min R inputs.length := by
  refine ⟨started inputs W (min R inputs.length), started_reach cls R B K W inputs _ (Nat.min_le_left _ _) (Nat.min_le_right _ _), ?_⟩
  rw [activeCount_started]; omega

/-! ## Arrival order (`--workers 1`) -/

/-- **One worker keeps every source's order.**  With `--workers 1` – for every number of readers, batch size, channel
    capacities and schedule – the lines selected by any predicate `p` whose lines all live in ONE source `i0` reach
    the consumer in their input order: at every reachable state what the consumer has of them is a prefix of the
    sequential list of matches, and at the end it is that list.  (Lines of different sources may interleave.) -/
theorem pipeline_single_worker_order (cls : α → Cls) (R B K : Nat) (inputs : List (List (List α))) (p : α → Bool) (i0 : Nat)
    (hp : ∀ (j : Nat) bs, j ≠ i0 → inputs[j]? = some bs → ∀ x ∈ bs.flatten, p x = false) {s : St α}
    (hr : Reach cls R B K (init inputs 1) s) :
    s.consumed.filter p <+: ((inputs.flatMap List.flatten).filter (isMatched cls)).filter p ∧
    (s.consDone = true → s.consumed.filter p = ((inputs.flatMap List.flatten).filter (isMatched cls)).filter p) := by
  obtain ⟨_, _, ho⟩ := order_reach cls p hr (by simp [init]) (othersClean_init p i0 inputs 1 hp)
  rw [order0_init] at ho
  have hinv := pipeline_invariant cls R B K 1 inputs hr
  have hcm : ∀ y ∈ s.consumed, isMatched cls y = true := by
    intro y hy
    have h1 := hinv.mats y
    have h2 : 0 < s.consumed.count y := List.count_pos_iff.mpr hy
    have h3 : 0 < (s.processed.filter (isMatched cls)).count y := by omega
    have := List.count_pos_iff.mp h3
    exact (List.mem_filter.mp this).2
  have hsel : s.consumed.filter (sel cls p) = s.consumed.filter p := by
    apply List.filter_congr
    intro y hy
    simp [sel, hcm y hy]
  have hall : (inputs.flatMap List.flatten).filter (sel cls p) = ((inputs.flatMap List.flatten).filter (isMatched cls)).filter p := by
    rw [List.filter_filter]
    apply List.filter_congr
    intro y _
    simp [sel, Bool.and_comm]
  have hpre : s.consumed.filter p <+: ((inputs.flatMap List.flatten).filter (isMatched cls)).filter p := by
    rw [← hall, ← ho, order0, List.filter_append, hsel]
    exact List.prefix_append _ _
  refine ⟨hpre, fun hd => ?_⟩
  have hperm := (pipeline_final cls R B K 1 (by omega) inputs hr hd).1
  exact hpre.eq_of_length (hperm.filter p).length_eq

/-- … for byte inputs: with one worker the matches of file `i` are emitted in the order of the file's lines (what
    `rare filter --workers 1` prints per file is in line order), whatever `--readers`, `--batch`, `--batch-buffer`,
    the flush timer and the schedule; with a single input the whole output is in input order. -/
theorem single_worker_file_order (cls : Line → Cls) (R B K batchSize : Nat) (datas : List Bytes)
    (timer : Nat → Nat → Bool) (i : Nat) {s : St Line}
    (hr : Reach cls R B K
      (init ((datas.zipIdx 0).map fun p =>
        (run batchSize ((linesOf p.2 p.1).map fun l => (l, timer p.2 l.num))).map (·.lines)) 1) s) :
    s.consumed.filter (fun l => l.src == i) <+: (seqMatches cls (allLines datas)).filter (fun l => l.src == i) ∧
    (s.consDone = true →
      s.consumed.filter (fun l => l.src == i) = (seqMatches cls (allLines datas)).filter (fun l => l.src == i)) := by
  have hflat : ∀ (p : Bytes × Nat),
      ((run batchSize ((linesOf p.2 p.1).map fun l => (l, timer p.2 l.num))).map (·.lines)).flatten = linesOf p.2 p.1 := by
    intro p
    have := (batches_concat batchSize ((linesOf p.2 p.1).map fun l => (l, timer p.2 l.num))).1
    rw [List.flatMap_def] at this
    rw [this]; simp [Function.comp_def]
  have hall : ((datas.zipIdx 0).map fun p =>
        (run batchSize ((linesOf p.2 p.1).map fun l => (l, timer p.2 l.num))).map (·.lines)).flatMap List.flatten
      = allLines datas := by
    unfold allLines
    rw [List.flatMap_map]
    congr 1
    funext p
    exact hflat p
  have h := pipeline_single_worker_order cls R B K _ (fun l : Line => l.src == i) i ?_ hr
  · rw [hall] at h
    exact h
  · intro j bs hj hbs x hx
    simp only [List.getElem?_map, Option.map_eq_some_iff] at hbs
    obtain ⟨p, hp, rfl⟩ := hbs
    rw [hflat p] at hx
    have hsrc := (mem_linesOf hx).1
    have hp2 : p.2 = j := by
      rw [List.getElem?_zipIdx] at hp
      cases hd : datas[j]? with
      | none => simp [hd] at hp
      | some d => simp [hd] at hp; rw [← hp]
    have : x.src ≠ i := by rw [hsrc, hp2]; exact hj
    simpa using this

/-- What travels on the match channel, for ANY number of workers, readers, capacities and ANY schedule: every batch
    waiting on `ReadChan()` at any reachable state is non-empty and is exactly the matched lines, IN ORDER, of ONE
    input batch (`b.filter matched` for a batch `b` of some source) - workers may overtake each other
    (`two_workers_reorder_counterexample`), but a delivered batch never mixes lines of two input batches and never
    reorders or drops matched lines inside one; and a busy worker's `matchBatch` so far, followed by the matches
    among the lines it still has to process, is the matched part of the batch it is walking. -/
theorem pipeline_match_batches {α : Type} (cls : α → Cls) (R B K W : Nat) (inputs : List (List (List α))) (s : St α)
    (hr : Reach cls R B K (init inputs W) s) :
    (∀ mb ∈ s.rc, mb ≠ [] ∧ ∃ src ∈ inputs, ∃ b ∈ src, mb = b.filter (isMatched cls)) ∧
    (∀ (j : Nat) (todo acc : List α), s.workers[j]? = some (WSt.busy todo acc) →
      ∃ src ∈ inputs, ∃ b ∈ src, acc ++ todo.filter (isMatched cls) = b.filter (isMatched cls)) := by
  have hi := batchInv_reach cls inputs W hr
  constructor
  · intro mb hmb
    obtain ⟨h1, b, hb, he⟩ := hi.rc mb hmb
    obtain ⟨src, hsrc, hbs⟩ := List.mem_flatten.mp hb
    exact ⟨h1, src, hsrc, b, hbs, he⟩
  · intro j todo acc hj
    obtain ⟨b, hb, he⟩ := hi.workers j todo acc hj
    obtain ⟨src, hsrc, hbs⟩ := List.mem_flatten.mp hb
    exact ⟨src, hsrc, b, hbs, he⟩

/-- non-vacuity of `pipeline_match_batches`: a reachable state (two workers, the second has just sent) with a batch
    waiting on the match channel while the other worker is still inside its batch; line 3 is not matched. -/
example : ∃ s, Reach (fun n : Nat => if n = 3 then Cls.unmatched else Cls.matched) 1 2 5 (init [[[1, 3], [3, 2, 4]]] 2) s ∧
    s.rc = [[2, 4]] ∧ s.workers[0]? = some (WSt.busy [3] [1]) := by
  have h : applyAll (fun n : Nat => if n = 3 then Cls.unmatched else Cls.matched) 1 2 5 (init [[[1, 3], [3, 2, 4]]] 2)
      [.start 0, .send 0, .send 0, .wrecv 0, .wrecv 1, .wproc 1, .wproc 1, .wproc 1, .wproc 0, .wsend 1] =
      some { srcs := [.active []], c := [], cClosed := false, workers := [.busy [3] [1], .idle], rc := [[2, 4]], rcClosed := false,
             consumed := [], consDone := false, processed := [3, 2, 4, 1], nRead := 4, nMatched := 3, nIgnored := 0 } := by
    rfl
  exact ⟨_, (applyAll_lpath _ _ _ h).reach .refl, rfl, rfl⟩

/-- With two workers the order is NOT preserved: one source, two batches `[1]`, `[2]`, everything matched – the
    second worker can overtake the first, and the consumer receives `2` before `1`. -/
theorem two_workers_reorder_counterexample :
    ∃ s, Reach (fun _ : Nat => Cls.matched) 1 2 5 (init [[[1], [2]]] 2) s ∧ s.consDone = true ∧ s.consumed = [2, 1] := by
  have h : applyAll (fun _ : Nat => Cls.matched) 1 2 5 (init [[[1], [2]]] 2)
      [.start 0, .send 0, .send 0, .finish 0, .closeC, .wrecv 0, .wrecv 1, .wproc 1, .wsend 1, .wproc 0, .wsend 0,
       .crecv, .crecv, .wexit 0, .wexit 1, .closeRC, .cdone] =
      some { srcs := [.done], c := [], cClosed := true, workers := [.exited, .exited], rc := [], rcClosed := true,
             consumed := [2, 1], consDone := true, processed := [2, 1], nRead := 2, nMatched := 2, nIgnored := 0 } := by
    rfl
  exact ⟨_, (applyAll_lpath _ _ _ h).reach .refl, rfl, rfl⟩

/-- Non-vacuity of `pipeline_single_worker_order`: two sources, one worker, every line of source 1 (the even
    numbers) selected. -/
example : ∀ (j : Nat) bs, j ≠ 1 → ([[[1, 3], [5]], [[2], [4, 6]]] : List (List (List Nat)))[j]? = some bs →
    ∀ x ∈ bs.flatten, (fun n : Nat => n % 2 == 0) x = false := by
  intro j bs hj hbs x hx
  match j, hj with
  | 0, _ => simp at hbs; subst hbs; simp at hx; rcases hx with rfl | rfl | rfl <;> rfl
  | j + 2, _ => simp at hbs

/-! ## `rare filter --line`: the source and number printed in front of a match (Model/C01FilterLine.lean) -/

/-- `rare filter --line` prints `"<source> <number>: "` in front of every match.  For EVERY matched line of the
    sequential reference (any inputs, any extractor configuration), source names without a space, colours off: the
    printed line reads back as exactly (name of the line's OWN source, its own number, its key) whatever bytes the
    key contains, and that number is the 1-based position of the line's text in its source's `splitLines` - the
    prefix a user sees points at the line that matched.  (`hnum`: `LineNumber` is a uint64.)  The pipeline
    theorems (`pipeline_final_classified`, `worker_line_number`) say that the matches the consumer receives carry
    exactly these fields; the `filtern … l` op compares the printed bytes with the real command. -/
theorem filter_line_prefix (names : Nat → Bytes) (hnames : ∀ i, ∀ c ∈ names i, c ≠ 32)
    (e : Extractor) (datas : List Bytes) (l : Line)
    (h : l ∈ seqMatches (clsOf e) (allLines datas)) (hnum : l.num < 2 ^ 64) :
    readLinePrefix (filterLine true false (names l.src) l.num (keyOf e l)) = some (names l.src, l.num, keyOf e l) ∧
    ∃ data, datas[l.src]? = some data ∧ 1 ≤ l.num ∧ (C04.splitLines data)[l.num - 1]? = some l.text := by
  refine ⟨readLinePrefix_filterLine _ _ _ (hnames l.src) (by omega), ?_⟩
  exact mem_allLines (List.mem_filter.mp h).1

/-- The boundary of `filter_line_prefix`: a file NAME containing a space makes the prefix ambiguous - line 1 of a
    file called `a 7: b` prints exactly like line 7 of a file called `a` whose match starts with `b 1: `. -/
theorem filter_line_prefix_space_counterexample :
    readLinePrefix (filterLine true false (ascii "a 7: b") 1 (ascii "k")) = some (ascii "a", 7, ascii "b 1: k") := by
  decide +kernel

/-- the hypotheses of `filter_line_prefix` are satisfiable (second line of the second file), and the coloured bytes -/
example : (⟨1, 2, ascii "k:v"⟩ : Line) ∈ seqMatches (clsOf exampleExtractor) (allLines [ascii "a\n", ascii "x\nk:v\n"]) := by
  decide +kernel

example : filterLine true true (ascii "f") 12 (ascii "k") =
    [27] ++ ascii "[32;1mf" ++ [27] ++ ascii "[0m " ++ [27] ++ ascii "[33;1m12" ++ [27] ++ ascii "[0m: k" := by decide +kernel

/-! ## The source the models were written against (translator tie, `harness/extract/c01.go`) -/

/-- Every statement (with its conditions, in source order) of the functions the classification, summary and
    plumbing models mirror is the one the models were written against (`Model/C01Source.lean`): in
    `processLineSync` the context's `linePtr`, `indices`, `source`, `lineNum` are assigned before
    `IgnoreMatch(expContext)`, which is evaluated before `BuildKey(expContext)`; `IgnoreMatch` returns at the first
    truthy result; `Truthy` is `strings.TrimSpace(s) != ""`; `asyncWorker` sends the matches of ONE input batch,
    in order, iff there is at least one, and does nothing else between two batches (the counters move line by line
    inside `processLineSync`, there is no per-worker tally to publish); `New` makes `readChan` with capacity 5, starts
    `getWorkerCount()` workers on the same channel and closes `readChan` after `wg.Wait()`. -/
theorem source_statements_match :
    Gen.C01.stmts_processLineSync = Source.stmts_processLineSync ∧
    Gen.C01.stmts_ignoreMatch = Source.stmts_ignoreMatch ∧
    Gen.C01.stmts_newIgnoreExpressions = Source.stmts_newIgnoreExpressions ∧
    Gen.C01.stmts_truthy = Source.stmts_truthy ∧
    Gen.C01.stmts_getWorkerCount = Source.stmts_getWorkerCount ∧
    Gen.C01.stmts_buildBatcherFromArguments = Source.stmts_buildBatcherFromArguments ∧
    Gen.C01.stmts_buildExtractorFromArgumentsEx = Source.stmts_buildExtractorFromArgumentsEx ∧
    Gen.C01.stmts_newBatcher = Source.stmts_newBatcher ∧
    Gen.C01.stmts_fWriteMatchSummary = Source.stmts_fWriteMatchSummary ∧
    Gen.C01.stmts_fWriteExtractorSummary = Source.stmts_fWriteExtractorSummary ∧
    Gen.C01.stmts_writeExtractorSummary = Source.stmts_writeExtractorSummary ∧
    Gen.C01.stmts_hui = Source.stmts_hui ∧
    Gen.C01.stmts_humanizeInt = Source.stmts_humanizeInt ∧
    Gen.C01.stmts_colorWrap = Source.stmts_colorWrap ∧
    Gen.C01.stmts_colorWrapi = Source.stmts_colorWrapi ∧
    Gen.C01.stmts_colorWrapf = Source.stmts_colorWrapf ∧
    Gen.C01.stmts_filterFunction = Source.stmts_filterFunction ∧
    Gen.C01.stmts_asyncWorker = Source.stmts_asyncWorker ∧
    Gen.C01.stmts_extractorNew = Source.stmts_extractorNew := by
  refine ⟨rfl, rfl, rfl, rfl, rfl, rfl, rfl, rfl, rfl, rfl, rfl, rfl, rfl, rfl, rfl, rfl, rfl, rfl, rfl⟩

/-- The guard table `configure` interprets IS the source's (variable, comparison, bound, exit code, message, in
    order); each guarded variable is read from the flag the model says; the constructors receive
    `batchSize`/`batchBuffer`/`concurrentReaders` in the positions of their `batchSize`/`batchBuffer`/`concurrency`
    parameters and use them as channel capacity / semaphore size / batch size; the exit code, the worker fallback
    and the flag defaults are the model's. -/
theorem flag_plumbing_matches_source :
    Gen.C01.usageGuards = usageGuards ∧
    Gen.C01.flagReads = Source.flagReads ∧
    Gen.C01.constructorCalls = Source.constructorCalls ∧
    Gen.C01.params_openFilesToChan = Source.params_openFilesToChan ∧
    Gen.C01.params_openReaderToChan = Source.params_openReaderToChan ∧
    Gen.C01.params_newBatcher = Source.params_newBatcher ∧
    Gen.C01.params_syncReaderToBatcher = Source.params_syncReaderToBatcher ∧
    Gen.C01.params_syncReaderToBatcherWithTimeFlush = Source.params_syncReaderToBatcherWithTimeFlush ∧
    Gen.C01.uses_openFilesToChan = Source.uses_openFilesToChan ∧
    Gen.C01.uses_openReaderToChan = Source.uses_openReaderToChan ∧
    Gen.C01.uses_newBatcher = Source.uses_newBatcher ∧
    Gen.C01.uses_syncReaderToBatcher = Source.uses_syncReaderToBatcher ∧
    Gen.C01.uses_syncReaderToBatcherWithTimeFlush = Source.uses_syncReaderToBatcherWithTimeFlush ∧
    Gen.C01.uses_extractorNew = Source.uses_extractorNew ∧
    Gen.C01.extractorFlags = Source.extractorFlags ∧
    Gen.C01.workerCountExpr = "runtime.NumCPU()/2+1" ∧
    exitCodeOf "ExitCodeInvalidUsage" = Gen.C01.exitCodeInvalidUsage ∧
    exitCodeOf "ExitCodeNoData" = Gen.C01.exitCodeNoData ∧
    (∀ w : Int, getWorkerCount w = if w ≤ Gen.C01.workersBound then Gen.C01.workersFallback.toNat else w.toNat) := by
  refine ⟨rfl, rfl, rfl, rfl, rfl, rfl, rfl, rfl, rfl, rfl, rfl, rfl, rfl, rfl, rfl, rfl, rfl, rfl, ?_⟩
  intro w; rfl

/-- The format strings, colours and number-format constants of the summary line are the model's. -/
theorem summary_constants_from_source :
    Gen.C01.lits_fWriteMatchSummary = Source.lits_fWriteMatchSummary ∧
    Gen.C01.lits_fWriteExtractorSummary = Source.lits_fWriteExtractorSummary ∧
    Gen.C01.colorReset = cReset ∧ Gen.C01.colorBrightGreen = cBrightGreen ∧
    Gen.C01.colorBrightWhite = cBrightWhite ∧ Gen.C01.colorRed = cRed ∧
    Gen.C01.baseSeparator = 44 ∧ Gen.C01.huiSmall = 100 ∧ Gen.C01.huiGroup = 3 := by
  refine ⟨rfl, rfl, ?_, ?_, ?_, ?_, rfl, rfl, rfl⟩ <;> decide +kernel

/-- The exit-code guards `determineErrorState` interprets ARE the source's (condition, message, exit-code constant,
    in order, `return nil` last); both batching loops read through `readahead.NewImmediate(newReaderMetrics(reader),
    ReadAheadBufferSize)` – the scanner configuration C04's theorems are about – and count an error in the callback
    (`s.incErrors()`); a file that cannot be opened is logged, counted (`out.incErrors()`) and skipped. -/
theorem exit_and_read_path_match_source :
    Gen.C01.exitGuards = exitGuards ∧
    Gen.C01.stmts_determineErrorState = Source.stmts_determineErrorState ∧
    Gen.C01.scanner_syncReaderToBatcher = Source.scanner_syncReaderToBatcher ∧
    Gen.C01.scanner_syncReaderToBatcherWithTimeFlush = Source.scanner_syncReaderToBatcherWithTimeFlush ∧
    Gen.C01.openError_openFilesToChan = Source.openError_openFilesToChan ∧
    exitCodeOf "ExitCodeInvalidUsage" = Gen.C01.exitCodeInvalidUsage ∧
    exitCodeOf "ExitCodeNoData" = Gen.C01.exitCodeNoData := by
  refine ⟨rfl, rfl, rfl, rfl, rfl, rfl, rfl⟩

/-! ## A consumer that stops early (`rare filter -n NUM`)

`cmd/filter.go` breaks out of its receive loop after NUM printed matches and never reads `ReadChan()` again; the
reader and worker goroutines then block on their sends until the process exits (there is no cancellation path in
`pkg/extractor`).  In the transition system this is "the consumer takes no further step", so everything the
consumer has seen is what some reachable state's `consumed` holds. -/

/-- What `filter -n limit` prints is the first `limit` matches received (all when `limit = 0`), independent of how
    the matches were grouped into batches. -/
theorem filter_limit_prefix {β : Type} (limit : Nat) (bs : List (List β)) :
    filterLoop limit bs [] = if limit = 0 then bs.flatten else bs.flatten.take limit :=
  filterLoop_eq limit bs

/-- Early stop is safe: at EVERY reachable state (so wherever the consumer stops), for every limit and every
    grouping `bs` of what it has received, each printed match is a matched input line, printed no more often than
    it occurs in the input (no duplicate, nothing invented), at most `limit` are printed, and the `matched`
    counter already covers them. -/
theorem pipeline_early_stop (cls : α → Cls) (R B K W : Nat) (inputs : List (List (List α))) {s : St α}
    (hr : Reach cls R B K (init inputs W) s) (limit : Nat) (bs : List (List α)) (hbs : bs.flatten = s.consumed) :
    let printed := filterLoop limit bs []
    (∀ y, printed.count y ≤ ((inputs.flatMap List.flatten).filter (isMatched cls)).count y) ∧
    (0 < limit → printed.length ≤ limit) ∧ printed.length ≤ s.nMatched := by
  have hinv := pipeline_invariant cls R B K W inputs hr
  have hsub : (filterLoop limit bs []).Sublist s.consumed := by
    rw [filterLoop_eq, hbs]
    split
    · exact List.Sublist.refl _
    · exact List.take_sublist _ _
  refine ⟨fun y => Nat.le_trans (hsub.count_le y) (consumed_le_final hinv y), ?_, ?_⟩
  · intro hl
    rw [filterLoop_eq]
    have : limit ≠ 0 := by omega
    simp only [this, if_false, List.length_take]
    omega
  · exact Nat.le_trans hsub.length_le (matched_ge_consumed hinv)

/-- When the run does complete (the limit was not reached before the stream ended, or there is none), exactly
    `min limit M` matches were printed, `M` the sequential number of matches. -/
theorem filter_limit_complete (cls : α → Cls) (R B K W : Nat) (hW : 1 ≤ W) (inputs : List (List (List α))) {s : St α}
    (hr : Reach cls R B K (init inputs W) s) (hd : s.consDone = true) (limit : Nat) (hl : 0 < limit)
    (bs : List (List α)) (hbs : bs.flatten = s.consumed) :
    (filterLoop limit bs []).length = min limit ((inputs.flatMap List.flatten).filter (isMatched cls)).length := by
  have hp := (pipeline_final cls R B K W hW inputs hr hd).1
  rw [filterLoop_eq, hbs]
  have : limit ≠ 0 := by omega
  simp only [this, if_false, List.length_take, hp.length_eq]

/-- Non-vacuity: two batches `[a, b]`, `[c, d]`, limit 3 – the loop stops inside the second batch. -/
example : filterLoop 3 [[1, 2], [3, 4]] ([] : List Nat) = [1, 2, 3] ∧ filterLoop 0 [[1, 2], [3, 4]] ([] : List Nat) = [1, 2, 3, 4] ∧
    filterSummary true false 3 3 4 9 1 = ascii "Matched: 3 / 3\n" := by decide +kernel

/-! ## Trace inclusion: the event log of a real run is a path of the transition system

`Rare.PipelineTrace` (Model/PipelineTrace.lean, Model/C01C05TraceOrder.lean): the `verif` hooks log one event
per channel / semaphore / close operation, per line classified and per goroutine start/exit of the real
batcher + extractor.  The checker accepts a log when some *admissible* reordering of it (every goroutine's
events in their logged order; every event inside the time interval that "logged before / after its
action" leaves open) replays through the named transition function `Pipeline.apply` from `init` to a
state where the consumer has seen the end of the stream. -/

section Trace
open Rare.TraceOrder Rare.PipelineTrace

/-- The named transition function the trace checker executes is exactly the transition relation the
    theorems above are about (no transition is missing, none is added). -/
theorem trace_labels_are_steps (cls : α → Cls) (R B K : Nat) (s s' : St α) :
    Step cls R B K s s' ↔ ∃ l, Pipeline.apply cls R B K s l = some s' :=
  ⟨apply_complete, fun ⟨_, h⟩ => apply_sound h⟩

/-- `accepts_sound`: if the checker accepts the log `tr` of a real run, then there are an admissible
    reordering `sched` of the log and a labelled path of the transition system from `init` whose labels
    are, event by event in that order, the transitions the logged events stand for (`EvPath`), and it
    ends with the consumer at the end of the stream.  In particular the final state is reachable. -/
theorem trace_accepts_sound (cfg : Cfg) (wg : List Nat) (L : Lin PSt) (batches : List (List (List Line)))
    (tr : Array Ev) (h : TraceOrder.accepts (machine cfg wg) L (initSt cfg batches) tr = true) :
    ∃ sched labels ps, Admissible tr sched ∧
      EvPath cfg wg (initSt cfg batches) (sched.map (evAt tr)) labels ps ∧
      LPath cfg.cls cfg.R cfg.B cfg.K (init batches cfg.W) labels ps.lts ∧
      Reach cfg.cls cfg.R cfg.B cfg.K (init batches cfg.W) ps.lts ∧
      ps.lts.consDone = true := by
  obtain ⟨sched, ps, hadm, hrep, hfin⟩ := TraceOrder.accepts_sound h
  obtain ⟨labels, hev⟩ := replay_evpath _ _ _ hrep
  have hl := hev.lpath
  refine ⟨sched, labels, ps, hadm, hev, hl, hl.reach .refl, ?_⟩
  simp only [machine, Bool.and_eq_true] at hfin
  exact hfin.1

/-- Every state the accepted run goes through (after any number of its events) is a reachable state of
    the transition system, so every invariant proved for reachable states — line conservation, counter
    equalities, closed-channel discipline, capacities — holds of the states of the real run. -/
theorem trace_states_invariant (cfg : Cfg) (wg : List Nat) (batches : List (List (List Line)))
    (evs : List Ev) (ps : PSt) (h : replay (machine cfg wg) (initSt cfg batches) evs = some ps) (k : Nat) :
    ∃ psk, replay (machine cfg wg) (initSt cfg batches) (evs.take k) = some psk ∧
      Reach cfg.cls cfg.R cfg.B cfg.K (init batches cfg.W) psk.lts ∧
      Inv cfg.cls cfg.B cfg.K (batches.flatMap List.flatten) psk.lts := by
  rw [← List.take_append_drop k evs] at h
  obtain ⟨psk, h1, _⟩ := replay_append _ _ _ _ _ h
  obtain ⟨labels, hev⟩ := replay_evpath _ _ _ h1
  have hr : Reach cfg.cls cfg.R cfg.B cfg.K (init batches cfg.W) psk.lts := hev.lpath.reach .refl
  exact ⟨psk, h1, hr, pipeline_invariant cfg.cls cfg.R cfg.B cfg.K cfg.W batches hr⟩

/-- **`wg.Wait()` returns only after every reader's status bookkeeping**: the deferred exit block of a reader of
    `OpenFilesToChan` is `<-sema; out.stopFileReading(name); wg.Done()` (/repo 7025f4b; `skeleton_matches_source`
    pins it), and the trace machine demands exactly that of a real run's log: a `cw` event (logged right after
    `wg.Wait()` returned) is possible only in a state in which every source is done AND has logged its `sc`
    (entry of `stopFileReading`); it is a stuttering step.  With the older order (`wg.Done()` first) a `cw` could
    overtake an `sc` – such a log is rejected. -/
theorem trace_wait_after_status (cfg : Cfg) (wg : List Nat) (ps ps' : PSt) (e : Ev) (hk : e.kind = "cw")
    (h : (machine cfg wg).step ps e = some ps') :
    ps.lts.srcs.all SrcSt.isDone = true ∧ (∀ i, i < ps.lts.srcs.length → i ∈ ps.stopped) ∧
      ps'.lts = ps.lts ∧ ps'.stopped = ps.stopped := by
  obtain ⟨ls, hl, hp⟩ := pstep_sound (cfg := cfg) (wg := wg) h
  have hst : ps'.stopped = ps.stopped := by
    simp only [machine, pstep] at h
    split at h
    · simp at h
    · split at h
      · simp at h
      · simp only [Option.some.injEq] at h
        subst h
        simp [hk]
  simp only [evLabels, hk] at hl
  split at hl
  · rename_i hc
    simp only [Option.some.injEq] at hl
    subst hl
    simp only [Bool.and_eq_true, List.all_eq_true, List.mem_range, List.contains_eq_mem, decide_eq_true_eq] at hc
    exact ⟨by simpa [List.all_eq_true] using hc.1, hc.2, lpath_nil_eq hp, hst⟩
  · simp at hl

/-- … and an `sc` event of source `i` is possible only once, after that source's `rl` (its goroutine is in the exit
    block: the source is `done`); it records `i` in `PSt.stopped` and is a stuttering step. -/
theorem trace_status_once (cfg : Cfg) (wg : List Nat) (ps ps' : PSt) (e : Ev) (hk : e.kind = "sc")
    (h : (machine cfg wg).step ps e = some ps') :
    srcDone ps.lts e.src = true ∧ e.src ∉ ps.stopped ∧ ps'.stopped = e.src :: ps.stopped ∧ ps'.lts = ps.lts := by
  obtain ⟨ls, hl, hp⟩ := pstep_sound (cfg := cfg) (wg := wg) h
  have hst : ps'.stopped = e.src :: ps.stopped := by
    simp only [machine, pstep] at h
    split at h
    · simp at h
    · split at h
      · simp at h
      · simp only [Option.some.injEq] at h
        subst h
        simp [hk]
  simp only [evLabels, hk] at hl
  split at hl
  · rename_i hc
    simp only [Option.some.injEq] at hl
    subst hl
    simp only [Bool.and_eq_true, Bool.not_eq_true', List.contains_eq_mem, decide_eq_false_iff_not] at hc
    exact ⟨hc.1, hc.2, hst, lpath_nil_eq hp⟩
  · simp at hl

/-- An accepted log ends in a state whose consumer multiset and counters are those of the sequential
    evaluation of the configured inputs' bytes: the batches the checker derived from the logged flushes
    (and checked against the batching-loop model) partition the inputs' lines.  `cfg.cls` is the configured
    classifier (`clsOf e` for the case's extractor configuration `e`: every line classified with its own source
    name and line number); the checker has compared the class logged for every line with it. -/
theorem trace_final (cfg : Cfg) (hW : 1 ≤ cfg.W) (wg : List Nat) (L : Lin PSt) (evs : List Ev)
    (batches : List (List (List Line))) (hb : batchesOf cfg evs = some batches)
    (tr : Array Ev) (h : TraceOrder.accepts (machine cfg wg) L (initSt cfg batches) tr = true) :
    ∃ ps : PSt, Reach cfg.cls cfg.R cfg.B cfg.K (init batches cfg.W) ps.lts ∧
      ps.lts.consumed.Perm (seqMatches cfg.cls (allLines cfg.inputs)) ∧
      (⟨ps.lts.nRead, ps.lts.nMatched, ps.lts.nIgnored⟩ : Totals) = seqTotals cfg.cls (allLines cfg.inputs) := by
  obtain ⟨_, _, ps, _, _, _, hr, hd⟩ := trace_accepts_sound cfg wg L batches tr h
  have hf := pipeline_final cfg.cls cfg.R cfg.B cfg.K cfg.W hW batches hr hd
  simp only [batchesOf_lines hb] at hf
  exact ⟨ps, hr, hf.1, by simp [seqTotals, hf.2.1, hf.2.2.1, hf.2.2.2.1]⟩

/-- `trace_final` for a case's extractor configuration `e` (the classifier the driver hands the checker is
    `clsOf e`): an accepted log of a real run ends with the consumer holding exactly the lines whose
    evaluation IN THEIR OWN CONTEXT is `matched`, and with the counters of that sequential evaluation. -/
theorem trace_final_classified (e : Extractor) (cfg : Cfg) (hcls : cfg.cls = clsOf e) (hW : 1 ≤ cfg.W)
    (hnp : NoPanic e (allLines cfg.inputs)) (wg : List Nat) (L : Lin PSt) (evs : List Ev)
    (batches : List (List (List Line))) (hb : batchesOf cfg evs = some batches)
    (tr : Array Ev) (h : TraceOrder.accepts (machine cfg wg) L (initSt cfg batches) tr = true) :
    ∃ ps : PSt, Reach (clsOf e) cfg.R cfg.B cfg.K (init batches cfg.W) ps.lts ∧
      ps.lts.consumed.Perm ((allLines cfg.inputs).filter (outcomeIs e .matched)) ∧
      ps.lts.nRead = (allLines cfg.inputs).length ∧
      ps.lts.nMatched = ((allLines cfg.inputs).filter (outcomeIs e .matched)).length ∧
      ps.lts.nIgnored = ((allLines cfg.inputs).filter (outcomeIs e .ignored)).length := by
  obtain ⟨ps, hr, hp, ht⟩ := trace_final cfg hW wg L evs batches hb tr h
  rw [hcls] at hr hp ht
  simp only [seqMatches, seqTotals, Totals.mk.injEq] at hp ht
  rw [filter_matched_eq hnp] at hp ht
  rw [filter_ignored_eq hnp] at ht
  exact ⟨ps, hr, hp, ht.1, ht.2.1, ht.2.2⟩

/-- Non-vacuity of `trace_final_classified`: for the configured classifier of `exampleExtractor` the log
    `exampleLog2` (line 1 logged as ignored, line 2 as unmatched, nothing sent) is accepted, and no
    evaluation panics. -/
example : exampleCfg2.cls = clsOf exampleExtractor ∧ NoPanic exampleExtractor (allLines exampleCfg2.inputs) ∧
    ∃ batches, batchesOf exampleCfg2 exampleLog2 = some batches ∧
      TraceOrder.accepts (machine exampleCfg2 (workerGs exampleLog2)) (lin (workerGs exampleLog2) exampleLog2)
        (initSt exampleCfg2 batches) exampleLog2.toArray = true := by
  refine ⟨rfl, ?_, [[[⟨0, 1, [97, 98]⟩], [⟨0, 2, [120]⟩]]], by decide, by decide +kernel⟩
  have h : allLines exampleCfg2.inputs = [⟨0, 1, [97, 98]⟩, ⟨0, 2, [120]⟩] := by decide +kernel
  rw [h]
  intro l hl
  simp only [List.mem_cons, List.not_mem_nil, or_false] at hl
  rcases hl with rfl | rfl
  · exact ⟨.ignored, ok_of_toOption (by decide +kernel)⟩
  · exact ⟨.unmatched, ok_of_toOption (by decide +kernel)⟩

/-- The reorderings the checker may use are limited by the log: an event logged AFTER its action (a
    receive, a classified line, …) that precedes in the log an event logged BEFORE its action (a send, a
    close, …) precedes it in every admissible schedule — so e.g. a send can never be moved in front of a
    receive that was logged before it. -/
theorem trace_order_respected {tr : Array Ev} {sched : List Nat} (h : Admissible tr sched)
    {i j : Nat} (hij : i < j) (hia : beforeAt tr i = false) (hjb : beforeAt tr j = true)
    {p q : Nat} (hp : p < sched.length) (hq : q < sched.length) (hpi : sched[p] = i) (hqj : sched[q] = j) :
    p < q :=
  admissible_after_before h hij hia hjb hp hq hpi hqj

/-- Non-vacuity: the logged order of `exampleLog` is itself admissible (not a path, see below), and in it
    the worker's start (`ws`, position 3, after-type) precedes the reader's second send (`fl`, position 5,
    before-type). -/
example : Admissible exampleLog.toArray (List.range 19) ∧
    beforeAt exampleLog.toArray 3 = false ∧ beforeAt exampleLog.toArray 5 = true :=
  ⟨admissibleB_sound (by decide), by decide, by decide⟩

/-- Non-vacuity of `trace_accepts_sound` / `trace_final`: the small real-shaped log
    `PipelineTrace.exampleLog` (the worker logs its first receive late) is accepted (the schedule found
    must move the late `wr` before the second `fl`, because the batch channel has capacity 1) … -/
example : ∃ batches, batchesOf exampleCfg exampleLog = some batches ∧
    TraceOrder.accepts (machine exampleCfg (workerGs exampleLog)) (lin (workerGs exampleLog) exampleLog)
      (initSt exampleCfg batches) exampleLog.toArray = true :=
  ⟨[[[⟨0, 1, [97, 98]⟩], [⟨0, 2, [120]⟩]]], by decide, by decide⟩

/-- … the log order itself is NOT a path (the second send finds the channel full): the reordering is
    needed, and it is constrained — … -/
example : ∀ batches, batchesOf exampleCfg exampleLog = some batches →
    replay (machine exampleCfg (workerGs exampleLog)) (initSt exampleCfg batches) exampleLog = none := by
  intro batches hb
  have : batchesOf exampleCfg exampleLog = some [[[⟨0, 1, [97, 98]⟩], [⟨0, 2, [120]⟩]]] := by decide
  rw [this] at hb
  cases hb
  decide

/-- … a log in which the worker classifies the unmatched line `x` as matched is rejected. -/
example : ∀ batches, batchesOf exampleCfg exampleLog = some batches →
    TraceOrder.accepts (machine exampleCfg (workerGs exampleLog)) (lin (workerGs exampleLog) exampleLog)
      (initSt exampleCfg batches)
      (exampleLog.map fun e => if e.kind = "lu" then { e with kind := "lm" } else e).toArray = false := by
  intro batches hb
  have : batchesOf exampleCfg exampleLog = some [[[⟨0, 1, [97, 98]⟩], [⟨0, 2, [120]⟩]]] := by decide
  rw [this] at hb
  cases hb
  decide

/-- … and so is the unchanged log when the configured classifier says otherwise: under the extractor
    `exampleExtractor` (ignore `{eq {line} 1}`) line 1 must be logged as ignored, so the log – in which the
    worker reports it as matched, as a worker whose context still held another line's number would – is not
    a path of the system. -/
example : ∀ batches, batchesOf { exampleCfg with cls := clsOf exampleExtractor } exampleLog = some batches →
    TraceOrder.accepts (machine { exampleCfg with cls := clsOf exampleExtractor } (workerGs exampleLog))
      (lin (workerGs exampleLog) exampleLog)
      (initSt { exampleCfg with cls := clsOf exampleExtractor } batches) exampleLog.toArray = false := by
  intro batches hb
  have : batchesOf { exampleCfg with cls := clsOf exampleExtractor } exampleLog =
      some [[[⟨0, 1, [97, 98]⟩], [⟨0, 2, [120]⟩]]] := by decide
  rw [this] at hb
  cases hb
  decide +kernel

end Trace

end Rare.C01
