import Rare.Proofs.C08
import Rare.Proofs.C08Logic
import Rare.Proofs.C08Arith
import Rare.Proofs.C08Strings
import Rare.Proofs.C08Misc
import Rare.Proofs.C08Range
import Rare.Proofs.C08Math
import Rare.Model.Expr.Std
import Rare.Gen.Tables
import Rare.Proofs.C08Guards
import Rare.Proofs.C08Extra
import Rare.Proofs.C08Loops
import Rare.Proofs.C08Sites
import Rare.Proofs.C08Size
import Rare.Proofs.C08Doubling
import Rare.Proofs.C08ArrayBound
import Rare.Proofs.C08ReduceBound
import Rare.Proofs.C08Unmodelled
import Rare.Proofs.C08Dedup
import Rare.Proofs.C08Format
import Rare.Proofs.C08TimeW
import Rare.Proofs.C08TimeSeam
import Rare.Proofs.C18Cal
import Rare.Proofs.C11
import Rare.Model.C02
import Rare.Gen.C08
/-!
# C08 — no template and no input line can crash expression compilation or evaluation

`Safe c`: no panic is reachable in the stage `c` whatever the context answers.  `SafeBuilder b`: on
safe argument stages the builder neither panics at compile time nor returns a stage that can.

* `compile_total`, `eval_total` hold for EVERY registry of safe builders (so also for user functions
  and helpers written later): every template – well formed or not, any length, any nesting – compiles,
  with or without optimisation (no panic, and the recursion always returns), and evaluating the result
  against any context returns a string.
* `std_safe`: every modelled helper of `stdlib.StandardFunctions` is a safe builder (proved per
  family); `functions_covered` (over the table regenerated from /repo): every one of the 85 Go helpers is
  proved panic-free (78: `safeTable`, the world-dependent `color bar load json`, the six time helpers
  relative to a time world, `format`) or is a modelled helper that can answer `unmodelled` for part of its
  inputs (7: `math.Pow` / `math.Log*` / non-ASCII case / `{! }` rendering; `unmodelled_helpers_safe_mod`: these stop
  only at an explicit marker in front of the library call).  No helper is outside the model.
* `format_safe`: `{format}` = `fmt.Sprintf` on string operands (`Funcs/Format.lean`) returns for every format and
  operand list; `time_safe`, `time_name_tables_safe`: `time`, `timeformat`, `timeattr`, `buckettime`, `duration`,
  `durationformat` (`Funcs/TimeW.lean` over `Model/C18.lean`) are panic-free in every time world (zone
  database, dateparse, wall clock) whose calls return; `all_safe`, `full_compile_eval_total` put everything together.
* second half of the file: every size / index guard in front of a panicking Go operation, as
  regenerated from /repo (`Gen/C08.lean`), admits only safe arguments for all int64 inputs, and equals
  the guard of the hand model (`repeat_guard_safe`, `substr_bounds_safe`, `select_slices_safe`,
  `slice_bounds_safe`, `precision_guard_safe`, `divi_guard_safe`, `modi_guard_safe`,
  `bucket_guard_safe`, `getmatch_bounds_safe`, `compile_escape_safe`, `bar_guard_safe` and the `…_eq_model` / `…_eq_gen` ties).
* `expbucket_terminates`, `range_counter_safe`, `range_eq_model`, `for_counter_safe`: the loop condition and the
  loop body of `kfExpBucket` and the counter guards of `@range` / `@for`, regenerated from /repo as step
  functions, reach their exit without overflow for every int64 value ("never fails to return" as a theorem).
* `ext_safe`, `world_compile_eval_total`: `color`, `bar`, `load`, `json` (`Funcs/Extra.lean`) are
  panic-free in every world (any float arithmetic, colour/unicode switches, file system), assuming only
  that the gjson library call returns.
-/
namespace Rare.C08
open Rare.Expr

/-- Helpers whose builder can answer `unmodelled` (`math.Pow` / `math.Log*`, non-ASCII case mapping, the float
    rendering of `{! …}`): outside the `Safe` theorems below, see `unmodelled_helpers_safe_mod`.  (Round 4b:
    `bytesize` `bytesizesi` `downscale` left this list - the registry resolves them to the binary64 builders of
    `Funcs/Float.lean`, which are safe; the integer-only entries of `Funcs/Strings.lean` are shadowed.) -/
def unmodelledNames : List String :=
  Funcs.Arith.arithUnmodelled ++ ["upper", "lower"] ++ Funcs.Misc.miscUnmodelled ++
  Funcs.Range.rangeUnmodelled ++ Funcs.Math.mathUnmodelled

/-- The modelled helpers that are proved panic-free: the entries `lookupTable stdTable` can resolve (the first of
    every name), without the unmodelled names. -/
def safeTable : Table := (dedup stdTable []).filter fun p => !unmodelledNames.contains p.1

theorem std_safe : ∀ p ∈ safeTable, SafeBuilder p.2 := by
  intro p hp
  obtain ⟨hded, hnot⟩ := List.mem_filter.mp hp
  obtain ⟨hfind, _⟩ := mem_dedup_find stdTable [] p hded
  have hmem : p ∈ stdTable := List.mem_of_find?_eq_some hfind
  have hn : p.1 ∉ unmodelledNames := by
    intro h; simp at hnot; exact hnot h
  have hn' : ∀ l : List String, (∀ x ∈ l, x ∈ unmodelledNames) → p.1 ∉ l := fun l hl h => hn (hl _ h)
  simp only [stdTable, List.mem_append] at hmem
  rcases hmem with (((((h | h) | h) | h) | h) | h) | h
  · exact Funcs.Logic.logic_safe p h
  · exact Funcs.Arith.arith_safe p h (hn' _ fun x hx => by simp [unmodelledNames, hx])
  · -- the Strings family: `upper` / `lower` are excluded by name; an entry named `bytesize` / `bytesizesi` /
    -- `downscale` that survived `dedup` is the FIRST of its name in `stdTable`, i.e. the binary64 builder
    by_cases hb : p.1 = "bytesize" ∨ p.1 = "bytesizesi" ∨ p.1 = "downscale"
    · rcases hb with e | e | e <;>
      · rw [e] at hfind
        have := Option.some.inj (hfind.symm.trans (by rfl : stdTable.find? (fun x => x.1 == _) = some (_, _)))
        rw [this]
        exact Funcs.Float.unitHelper_safe _ _ _ _
    · refine Funcs.Strings.strings_safe p h ?_
      intro hin
      simp only [Funcs.Strings.stringsUnmodelled, List.mem_cons, List.not_mem_nil, or_false] at hin
      rcases hin with e | e | e | e | e
      · exact hn (by simp [unmodelledNames, e])
      · exact hn (by simp [unmodelledNames, e])
      · exact hb (.inl e)
      · exact hb (.inr (.inl e))
      · exact hb (.inr (.inr e))
  · exact Funcs.Range.range_safe p h (hn' _ fun x hx => by simp [unmodelledNames, hx])
  · exact Funcs.Math.math_safe p h (hn' _ fun x hx => by simp [unmodelledNames, hx])
  · simp [Funcs.Time.table] at h
  · exact Funcs.Misc.misc_safe p h (hn' _ fun x hx => by simp [unmodelledNames, hx])

/-- **The safe table resolves names as the full table does**: for every name outside `unmodelledNames`, looking it
    up in `safeTable` gives exactly the builder `lookupTable stdTable` gives (so `safeRegistry` and the registry of
    the correspondence driver agree on every helper the theorems speak about; the first entry of a name wins in
    both). -/
theorem safe_table_agrees (n : String) (hn : n ∉ unmodelledNames) :
    lookupTable safeTable n = lookupTable stdTable n := by
  rw [← lookup_dedup stdTable n]
  unfold lookupTable safeTable
  rw [List.find?_filter]
  congr 1
  apply find?_congr'
  intro x _
  by_cases hx : (x.1 == n) = true
  · have e : x.1 = n := by simpa using hx
    have hnx : x.1 ∉ unmodelledNames := e ▸ hn
    simp [hx, hnx]
  · have : (x.1 == n) = false := by simpa using hx
    simp [this]

/-- **The seven helpers outside `safeTable` stop only at their library call**: for each of `pow log10 log2 ln upper
    lower !` the builder the registry resolves, given argument expressions that cannot
    panic, never fails at compile time, and the stage it returns has no panic node except an explicit
    `unmodelled:…` marker (`math.Pow` / `math.Log*` on parsed floats, the Unicode case tables on non-ASCII input,
    the float64 rendering of a formula value): every arity check, constant
    evaluation, number parse and `<…>` marker in front of the library call is panic-free for all inputs; evaluated in
    any context such a stage returns or stops at a marker.  For `bytesize bytesizesi downscale` (in round 4
    excluded by name) the builder the registry resolves is the binary64 one of `Funcs/Float.lean`, a full
    `SafeBuilder` without markers: they are in `safeTable` now.
    (One level deep: the arguments are assumed panic-free
    WITHOUT markers; nesting one of the ten inside another helper is covered by the correspondence only.) -/
theorem unmodelled_helpers_safe_mod :
    (∀ n ∈ unmodelledNames, ∃ b, lookupTable stdTable n = some b ∧ SafeUBuilder b) ∧
    (∀ (s : Stage), SafeU s → ∀ ctx : Ctx, (∃ v, s.run ctx = .ok v) ∨ (∃ w, s.run ctx = .error ("unmodelled:" ++ w))) ∧
    (∀ n ∈ ["bytesize", "bytesizesi", "downscale"], ∃ b, lookupTable stdTable n = some b ∧ SafeBuilder b) := by
  refine ⟨?_, fun s h ctx => h.run ctx, ?_⟩
  rotate_left
  · intro n hn
    simp only [List.mem_cons, List.not_mem_nil, or_false] at hn
    rcases hn with rfl | rfl | rfl <;> exact ⟨_, rfl, Funcs.Float.unitHelper_safe _ _ _ _⟩
  intro n hn
  simp only [unmodelledNames, Funcs.Arith.arithUnmodelled, Funcs.Float.floatUnmodelled,
    Funcs.Misc.miscUnmodelled, Funcs.Range.rangeUnmodelled, Funcs.Math.mathUnmodelled, List.append_nil, List.cons_append,
    List.nil_append, List.mem_cons, List.not_mem_nil, or_false] at hn
  rcases hn with rfl | rfl | rfl | rfl | rfl | rfl | rfl
  · exact ⟨_, rfl, floatHelperU_safeU "pow"⟩
  · exact ⟨_, rfl, unaryU_safeU "log10"⟩
  · exact ⟨_, rfl, unaryU_safeU "log2"⟩
  · exact ⟨_, rfl, unaryU_safeU "ln"⟩
  · exact ⟨_, rfl, caseHelper_safeU _⟩
  · exact ⟨_, rfl, caseHelper_safeU _⟩
  · exact ⟨_, rfl, kfMath_safeU⟩

example : ∃ built, Funcs.Float.floatHelperU "pow" [.ret (ascii "2"), Comp.match_ 0] = .ok built ∧
    ∀ s, built.stage = some s → SafeU s := floatHelperU_safeU "pow" _ (by
  intro a ha
  simp only [List.mem_cons, List.not_mem_nil, or_false] at ha
  rcases ha with rfl | rfl
  · exact .ret _
  · exact Safe.match_ 0)

/-- The registry of the proved-safe helpers. -/
def safeRegistry : Registry := mkRegistry safeTable []

theorem safeRegistry_safe : SafeRegistry safeRegistry := by
  intro name b h
  unfold safeRegistry mkRegistry at h
  dsimp only at h
  split at h
  · rename_i b' hb
    simp only [Option.some.injEq] at h
    subst h
    unfold lookupTable at hb
    cases hf : safeTable.find? (fun x => x.1 == String.ofList name) with
    | none => simp [hf] at hb
    | some p =>
      simp [hf] at hb
      subst hb
      exact std_safe p (List.mem_of_find?_eq_some hf)
  · simp at h

/-- **Compilation never crashes and always returns** – for any registry of safe builders, any
    template, with or without optimisation; every compiled stage is panic-free. -/
theorem compile_total (reg : Registry) (hreg : SafeRegistry reg) (opt : Bool) (t : List Char) :
    ∃ stages errs, compile reg opt t = .ok (stages, errs) ∧ ∀ s ∈ stages, Safe s :=
  Rare.Expr.compile_total reg hreg opt t

/-- **Evaluation never crashes** – any compiled expression against any match context (arbitrary bytes,
    any number of groups, missing keys) returns a string. -/
theorem eval_total (reg : Registry) (hreg : SafeRegistry reg) (opt : Bool) (t : List Char) (ctx : Ctx) :
    ∃ stages errs v, compile reg opt t = .ok (stages, errs) ∧ (buildKey stages).run ctx = .ok v :=
  Rare.Expr.eval_total reg hreg opt t ctx

/-- The two theorems instantiated with the standard helpers that are modelled. -/
theorem std_compile_eval_total (opt : Bool) (t : List Char) (ctx : Ctx) :
    ∃ stages errs v, compile safeRegistry opt t = .ok (stages, errs) ∧ (buildKey stages).run ctx = .ok v :=
  eval_total safeRegistry safeRegistry_safe opt t ctx

/-- User functions preserve panic-freedom: a funcs-file function whose body is safe is a safe builder
    (so `compile_total`/`eval_total` extend to any definitions file over safe helpers). -/
theorem user_function_safe (body : List Stage) (hb : ∀ s ∈ body, Safe s) :
    SafeBuilder (C10.userFunction body) := by
  intro args hargs
  refine ⟨_, rfl, fun s hs => ?_⟩
  simp only [Option.some.injEq] at hs
  subst hs
  have hbody : Safe (buildKey body) := Safe.concat hb
  generalize buildKey body = c at hbody
  induction hbody with
  | ret a => exact .ret a
  | getKey k f _ ih => exact .getKey _ _ ih
  | getMatch i f _ ih =>
    simp only [C10.withArgs]
    split
    · exact .getMatch _ _ ih
    split
    · exact ih _
    · rename_i h0 h1
      have hlt : i.toNat < args.length := by omega
      have : Safe (args.getD i.toNat (.ret [])) := by
        rw [List.getD_eq_getElem?_getD, List.getElem?_eq_getElem hlt]
        exact hargs _ (List.getElem_mem hlt)
      exact Safe.bind this ih

/-! ### helpers that consult the world outside the template (`color`, `bar`, `load`, `json`) -/

/-- The proved-safe helpers in a world `w` (float arithmetic, colour/unicode switches, file system, gjson). -/
def safeTableW {α : Type} (w : Funcs.Extra.World α) : Table := safeTable ++ Funcs.Extra.table w

/-- `color`, `bar`, `load`, `json` are safe builders in every world whose gjson call returns; with
    `std_safe` every entry of `safeTableW w` is. -/
theorem ext_safe {α : Type} (w : Funcs.Extra.World α) (hg : ∀ j p, Safe (w.gjson j p)) :
    ∀ p ∈ safeTableW w, SafeBuilder p.2 := by
  intro p hp
  rcases List.mem_append.mp hp with h | h
  · exact std_safe p h
  · exact Funcs.Extra.extra_safe w hg p h

def safeRegistryW {α : Type} (w : Funcs.Extra.World α) : Registry := mkRegistry (safeTableW w) []

theorem safeRegistryW_safe {α : Type} (w : Funcs.Extra.World α) (hg : ∀ j p, Safe (w.gjson j p)) :
    SafeRegistry (safeRegistryW w) := by
  intro name b h
  unfold safeRegistryW mkRegistry at h
  dsimp only at h
  split at h
  · rename_i b' hb
    simp only [Option.some.injEq] at h
    subst h
    unfold lookupTable at hb
    cases hf : (safeTableW w).find? (fun x => x.1 == String.ofList name) with
    | none => simp [hf] at hb
    | some p =>
      simp [hf] at hb
      subst hb
      exact ext_safe w hg p (List.mem_of_find?_eq_some hf)
  · simp at h

/-- `compile_total` / `eval_total` with `color`, `bar`, `load` and `json` included, for every world:
    any float arithmetic (so whatever IEEE rounding does), either value of the colour / unicode
    switches, any file system; the one assumption is that the gjson library call returns. -/
theorem world_compile_eval_total {α : Type} (w : Funcs.Extra.World α) (hg : ∀ j p, Safe (w.gjson j p))
    (opt : Bool) (t : List Char) (ctx : Ctx) :
    ∃ stages errs v, compile (safeRegistryW w) opt t = .ok (stages, errs) ∧ (buildKey stages).run ctx = .ok v :=
  eval_total (safeRegistryW w) (safeRegistryW_safe w hg) opt t ctx

/-- A concrete world (exact rational arithmetic, colours on, one file, gjson answering "") in which a
    template over the four helpers compiles and evaluates. -/
example : ∃ stages errs v,
    compile (safeRegistryW (α := Int) ⟨⟨id, (· + ·), (· - ·), (· * ·), (· / ·), id, id, (fun a b => decide (a ≤ b)), (· == ·), id, id, id, id, id⟩,
      ⟨true, true⟩, false, (fun p => if p = ascii "f" then some (ascii "x") else none), fun _ _ => .ret []⟩) true
      "{color red {0}}{bar {0} 10 5}{load f}{json a.b}".toList = .ok (stages, errs) ∧
    (buildKey stages).run ⟨fun _ => ascii "3", fun _ => []⟩ = .ok v :=
  world_compile_eval_total _ (fun _ _ => .ret _) true _ _

/-! ### `format` (`fmt.Sprintf` on string operands) and the time helpers (relative to a time world) -/

/-- **`{format}` is panic-free**: the model of `fmt.Sprintf` on string operands (`Funcs/Format.lean`: flags,
    width, precision, `*`, `[n]`, every verb, the `%!…` error forms, `strconv.Quote`) returns for every
    format and operand list – no operand index out of range, the loop over the format ends – whatever
    `unicode.IsPrint` answers for non-ASCII runes. -/
theorem format_safe (isPrint : Nat → Bool) :
    (∀ p ∈ Funcs.Format.table isPrint, SafeBuilder p.2) ∧
    (∀ (format : Bytes) (a : List Bytes), ∃ out, Funcs.Format.sprintf isPrint format a = .ok out) :=
  ⟨Funcs.Format.format_safe isPrint, Funcs.Format.sprintf_total isPrint⟩

/-- **The time helpers are panic-free in every time world**: `time` (incl. `now` / `live` / `delta`, `auto`,
    `cache` and explicit formats), `timeformat`, `timeattr`, `buckettime`, `duration`, `durationformat`
    (`Funcs/TimeW.lean`, over the layout tokenizer / formatter / parser / calendar of `Model/C18.lean`) are
    safe builders for every zone database, every `dateparse` behaviour and every wall clock; the one
    assumption is that the calls into the world return. -/
theorem time_safe (tw : Funcs.TimeW.TimeWorld) (hw : tw.Returns) : ∀ p ∈ Funcs.TimeW.table tw, SafeBuilder p.2 :=
  Funcs.TimeW.time_safe tw hw

/-- The name-table look-ups of the layout formatter (`longMonthNames[m-1]`, `longDayNames[wd]` and their
    short forms) are inside their tables for every instant and every zone offset: the calendar always
    answers a month in 1..12 and a weekday in 0..6 (so `C18.nameAt` never uses its default). -/
theorem time_name_tables_safe (unix off : Int) (abbr : Bytes) :
    0 ≤ (C18.timeVOf unix off abbr).dt.m - 1 ∧ (C18.timeVOf unix off abbr).dt.m - 1 < C18.longMonthNames.length ∧
    0 ≤ (C18.timeVOf unix off abbr).wd ∧ (C18.timeVOf unix off abbr).wd < C18.longDayNames.length := by
  have hm := C18.civil_month_day (C18.localDays unix off)
  have hw := C18.weekday_range' (C18.localDays unix off)
  have e1 : (C18.timeVOf unix off abbr).dt.m = (C18.civilFromDays (C18.localDays unix off)).m := rfl
  have e2 : (C18.timeVOf unix off abbr).wd = C18.weekday (C18.localDays unix off) := rfl
  have l1 : C18.longMonthNames.length = 12 := rfl
  have l2 : C18.longDayNames.length = 7 := rfl
  rw [e1, e2, l1, l2]
  omega

/-! ### the zone of a parsed text: the time-world model and C18's zone-table model are one function -/

/-- **C08 / C18 seam**: for every transition table, zone list, location other than `time.UTC` and parsed text, the
    tail of `time.ParseInLocation` as the expression model has it (`Funcs.TimeW.timeOfParsed`, in the world made of
    that table) returns – no panic, no oracle beside the table – the instant `Rare.C18.instantInN` computes from
    the table: numeric offset, an abbreviation the location knows (both loops of `Location.lookupName`), a fabricated
    zone for one it does not know (NOT shifted, `GMT+3` included) and `time.Date`'s two look-ups when the text has
    no zone.  (`WallInRange`: the wall clock minus its offset is an int64 below MaxInt64, so that Go's
    `alpha` / `omega` mean "no bound"; `wallInRange_of_bounds`: true whenever both are below 2^61 in size.) -/
theorem time_parse_instant_eq_c18 (z : C18.ZoneTab) (zones : List (Bytes × Int)) (loc : C18.Loc) (hl : loc ≠ .utc)
    (p : C18.Parsed) (hr : p.zone = .default → Funcs.TimeW.WallInRange z (C18.wallSeconds p.dt)) :
    ∃ t, Funcs.TimeW.timeOfParsed (Funcs.TimeW.tabWorld z zones) loc p = .ret t ∧
      t.unix = C18.instantInN z zones p ∧ t.nsec = p.dt.ns :=
  Funcs.TimeW.timeOfParsed_tab z zones hl p hr

example : Funcs.TimeW.WallInRange ⟨(-17762, C18.asc "LMT"), [(-2717650800, -18000, C18.asc "EST")]⟩ 1460653945 :=
  Funcs.TimeW.wallInRange_of_bounds _ _ (by decide) (by decide +kernel)

/-- The same for `time.UTC` (one segment, no zone list), in EVERY time world. -/
theorem time_parse_instant_utc (tw : Funcs.TimeW.TimeWorld) (p : C18.Parsed) :
    ∃ t, Funcs.TimeW.timeOfParsed tw .utc p = .ret t ∧ t.unix = C18.instantInN Funcs.TimeW.utcTab [] p ∧ t.nsec = p.dt.ns :=
  Funcs.TimeW.timeOfParsed_utc tw p

/-- **A fabricated zone does not move the instant**: when the text carries an abbreviation `Location.lookupName`
    does not find, the parsed time is the wall clock read as UTC, in every world and location – Go only attaches
    `FixedZone(name, offset)` (`offset` = the hours of `GMT±h`, else 0).  Kernel-checked witness:
    `{time "Thu, 14 Apr 2016 17:12:25 GMT+3" RFC1123}` is 1460653945 = 17:12:25 UTC shown at +03:00 (the model of
    round 3 answered 14:12:25 UTC; found by the C18 builder, reproduced on the real code, corpus/C08/r4b.case). -/
theorem time_unknown_abbr_not_shifted :
    (∀ (tw : Funcs.TimeW.TimeWorld) (loc : C18.Loc) (p : C18.Parsed) (n : Bytes), p.zone = .name n →
      Funcs.TimeW.lookupName tw loc n (C18.wallSeconds p.dt) = .ret none →
      ∃ t, Funcs.TimeW.timeOfParsed tw loc p = .ret t ∧ t.unix = C18.wallSeconds p.dt ∧ t.abbr = n) ∧
    (∃ p, C18.parseLayout (C18.asc "Mon, 02 Jan 2006 15:04:05 MST") (C18.asc "Thu, 14 Apr 2016 17:12:25 GMT+3") = .ok p ∧
      p.zone = .name (C18.asc "GMT+3") ∧ C18.wallSeconds p.dt = 1460653945 ∧
      ∀ tw, Funcs.TimeW.timeOfParsed tw .utc p = .ret ⟨1460653945, 0, 10800, C18.asc "GMT+3"⟩) :=
  ⟨Funcs.TimeW.timeOfParsed_unknown_abbr, Funcs.TimeW.gmt_plus3_witness⟩

/-- Every proved-safe helper: the standard ones, `color` / `bar` / `load` / `json` in a world `w`, the time
    helpers in a time world `tw`, `format` for an `IsPrint` oracle. -/
def safeTableX {α : Type} (w : Funcs.Extra.World α) (tw : Funcs.TimeW.TimeWorld) (isPrint : Nat → Bool) : Table :=
  safeTableW w ++ Funcs.TimeW.table tw ++ Funcs.Format.table isPrint

theorem all_safe {α : Type} (w : Funcs.Extra.World α) (hg : ∀ j p, Safe (w.gjson j p))
    (tw : Funcs.TimeW.TimeWorld) (hw : tw.Returns) (isPrint : Nat → Bool) :
    ∀ p ∈ safeTableX w tw isPrint, SafeBuilder p.2 := by
  intro p hp
  simp only [safeTableX, List.mem_append] at hp
  rcases hp with (h | h) | h
  · exact ext_safe w hg p h
  · exact time_safe tw hw p h
  · exact (format_safe isPrint).1 p h

def safeRegistryX {α : Type} (w : Funcs.Extra.World α) (tw : Funcs.TimeW.TimeWorld) (isPrint : Nat → Bool) : Registry :=
  mkRegistry (safeTableX w tw isPrint) []

theorem safeRegistryX_safe {α : Type} (w : Funcs.Extra.World α) (hg : ∀ j p, Safe (w.gjson j p))
    (tw : Funcs.TimeW.TimeWorld) (hw : tw.Returns) (isPrint : Nat → Bool) :
    SafeRegistry (safeRegistryX w tw isPrint) := by
  intro name b h
  unfold safeRegistryX mkRegistry at h
  dsimp only at h
  split at h
  · rename_i b' hb
    simp only [Option.some.injEq] at h
    subst h
    unfold lookupTable at hb
    cases hf : (safeTableX w tw isPrint).find? (fun x => x.1 == String.ofList name) with
    | none => simp [hf] at hb
    | some p =>
      simp [hf] at hb
      subst hb
      exact all_safe w hg tw hw isPrint p (List.mem_of_find?_eq_some hf)
  · simp at h

/-- `compile_total` / `eval_total` with 78 of the 85 helpers of `stdlib.StandardFunctions`: the 67 standard
    ones of `safeTable`, `color` `bar` `load` `json`, the six time helpers and `format` – for every world. -/
theorem full_compile_eval_total {α : Type} (w : Funcs.Extra.World α) (hg : ∀ j p, Safe (w.gjson j p))
    (tw : Funcs.TimeW.TimeWorld) (hw : tw.Returns) (isPrint : Nat → Bool)
    (opt : Bool) (t : List Char) (ctx : Ctx) :
    ∃ stages errs v, compile (safeRegistryX w tw isPrint) opt t = .ok (stages, errs) ∧
      (buildKey stages).run ctx = .ok v :=
  eval_total (safeRegistryX w tw isPrint) (safeRegistryX_safe w hg tw hw isPrint) opt t ctx

/-- A concrete time world: UTC only (no other zone loads), `dateparse` recognising nothing, a clock. -/
def utcWorld : Funcs.TimeW.TimeWorld :=
  { loadOk := fun _ => some false, zones := fun _ => [], lookup := fun _ _ => .ret ⟨C18.asc "UTC", 0, Funcs.TimeW.alpha, Funcs.TimeW.omega⟩,
    detect := fun _ => .ret none, parseAny := fun _ _ => .ret none,
    nowBuild := .ret (ascii "1700000000"), nowLive := .ret (ascii "1700000001"), nowDelta := .ret (ascii "1"),
    lib := fun _ => .ret [] }

theorem utcWorld_returns : utcWorld.Returns :=
  ⟨fun _ _ => .ret _, fun _ => .ret _, fun _ _ => .ret _, .ret _, .ret _, .ret _, fun _ => .ret _⟩

example : ∃ stages errs v,
    compile (safeRegistryX (α := Int) ⟨⟨id, (· + ·), (· - ·), (· * ·), (· / ·), id, id, (fun a b => decide (a ≤ b)), (· == ·), id, id, id, id, id⟩,
      ⟨true, true⟩, false, (fun _ => none), fun _ _ => .ret []⟩ utcWorld (fun _ => true)) true
      "{format \"%5s|%q\" {timeformat {0} RFC3339} {time now}} {buckettime {1} day} {timeattr {0} quarter} {duration 1h}".toList
        = .ok (stages, errs) ∧
    (buildKey stages).run ⟨fun _ => ascii "1609556645", fun _ => []⟩ = .ok v :=
  full_compile_eval_total _ (fun _ _ => .ret _) utcWorld utcWorld_returns _ true _ _

/-- Every helper of `stdlib.StandardFunctions` (names regenerated from /repo) is accounted for: it is
    proved panic-free – in `safeTable`, or one of the world-dependent four (`Funcs.Extra.names`), the six
    time helpers (`Funcs.TimeW.names`), `format` (`Funcs.Format.names`) – or it is a modelled helper that can
    answer `unmodelled` for part of its inputs (`unmodelledNames`).  No helper is outside the model any more.
    A helper added to the Go table makes this fail. -/
theorem functions_covered :
    Gen.stdFunctionNames.all (fun n =>
      (safeTable.map (·.1)).contains n || Funcs.Extra.names.contains n || Funcs.TimeW.names.contains n ||
      Funcs.Format.names.contains n || unmodelledNames.contains n) = true ∧
    Gen.stdFunctionNames.length = 85 ∧
    (Gen.stdFunctionNames.filter fun n => (safeTable.map (·.1)).contains n || Funcs.Extra.names.contains n ||
      Funcs.TimeW.names.contains n || Funcs.Format.names.contains n).length = 78 ∧
    (Gen.stdFunctionNames.filter fun n => unmodelledNames.contains n).length = 7 := by decide

/-- The name lists are exactly the names of the tables (in every world). -/
theorem time_format_names (tw : Funcs.TimeW.TimeWorld) (isPrint : Nat → Bool) :
    (Funcs.TimeW.table tw).map (·.1) = Funcs.TimeW.names ∧ (Funcs.Format.table isPrint).map (·.1) = Funcs.Format.names :=
  ⟨rfl, rfl⟩

/-- `Funcs.Extra.names` are exactly the names of `Funcs.Extra.table` (in every world). -/
theorem extra_names {α : Type} (w : Funcs.Extra.World α) : (Funcs.Extra.table w).map (·.1) = Funcs.Extra.names := rfl

/-- Non-vacuity: a malformed template with stray braces, a trailing backslash and an unknown function
    compiles (reporting errors) and evaluates. -/
example : ∃ stages errs v, compile safeRegistry true "{sumi {0} x} }{ {nofn 1} \\".toList = .ok (stages, errs) ∧
    (buildKey stages).run ⟨fun _ => [], fun _ => []⟩ = .ok v :=
  std_compile_eval_total true _ _


/-! ## Size and index guards, as regenerated from /repo on every run (`Gen/C08.lean`)

Every guard that stands in front of a panicking (or unbounded) Go operation of the expression helpers is
translated from the Go AST into a Lean definition over `Int` with Go's wrap-around semantics.  The
theorems below are stated ABOUT THOSE DEFINITIONS: for all int64 inputs the guard admits only arguments
for which the guarded operation cannot panic (the products and sums in the conclusions are true `Int`
arithmetic, not wrapped), and each generated definition equals the expression the hand model uses, so
the model is tied to the code through the kernel as well as through the correspondence run.  A guard
rewritten in /repo (e.g. `count > max/len` → `count*len > max`) changes the generated definition and
the corresponding theorem stops checking. -/

/-! ### `{repeat}` : `strings.Repeat(char, count)` behind `count < 0 || (len(char) > 0 && count > maxRepeatBytes/len(char))` -/

/-- The guard of `kfRepeat` passes exactly the counts whose true product with the pattern length is
    within the cap. -/
theorem repeat_guard_exact (count len : Int) (hl0 : 0 ≤ len) (hl : len ≤ maxInt64) :
    Gen.C08.repeatGuard count len = false ↔ (0 ≤ count ∧ count * len ≤ Gen.C08.maxRepeatBytes) := by
  unfold Gen.C08.repeatGuard Gen.C08.maxRepeatBytes goDiv
  by_cases hz : len = 0
  · subst hz; simp
  · have hpos : 0 < len := by omega
    have hq : Int.tdiv 1048576 len = 1048576 / len := Int.tdiv_eq_ediv_of_nonneg (by omega)
    have hq0 : 0 ≤ (1048576 : Int) / len := Int.ediv_nonneg (by omega) (by omega)
    have hq1 : (1048576 : Int) / len ≤ 1048576 := Int.ediv_le_self _ (by omega)
    have hw : wrap64 (Int.tdiv 1048576 len) = 1048576 / len := by
      rw [hq]; exact C11.wrap64_id (by unfold minInt64; omega) (by unfold maxInt64; omega)
    rw [hw]
    have key : count ≤ 1048576 / len ↔ count * len ≤ 1048576 := (Int.le_ediv_iff_mul_le hpos)
    simp only [Bool.or_eq_false_iff, Bool.and_eq_false_iff, decide_eq_false_iff_not, Int.not_lt]
    constructor
    · rintro ⟨h1, h2 | h2⟩
      · omega
      · exact ⟨h1, key.mp (by omega)⟩
    · rintro ⟨h1, h2⟩
      exact ⟨h1, Or.inr (by have := key.mpr h2; omega)⟩

/-- When the guard passes, `strings.Repeat` cannot panic (count ≥ 0, no length overflow) and the
    output is at most `maxRepeatBytes` long. -/
theorem repeat_guard_safe (count len : Int) (hl0 : 0 ≤ len) (hl : len ≤ maxInt64)
    (h : Gen.C08.repeatGuard count len = false) :
    0 ≤ count ∧ count * len ≤ Gen.C08.maxRepeatBytes ∧ ¬ repeatPanics len count := by
  obtain ⟨h1, h2⟩ := (repeat_guard_exact count len hl0 hl).mp h
  refine ⟨h1, h2, ?_⟩
  unfold repeatPanics
  rw [Int.mul_comm]
  unfold Gen.C08.maxRepeatBytes at h2; unfold maxInt64
  omega

example : Gen.C08.repeatGuard 524288 2 = false ∧ Gen.C08.repeatGuard 524289 2 = true ∧
    Gen.C08.repeatGuard 4611686018427387904 2 = true ∧ Gen.C08.repeatGuard (-1) 1 = true := by decide

/-- What the run-time closure of `{repeat}` answers for a parsed count, in terms of the generated guard. -/
def repeatAns (char : Bytes) (count : Int) : Bytes :=
  if Gen.C08.repeatGuard count char.length then ErrorValue
  else if char.isEmpty then [] else Funcs.Misc.repeatB char count.toNat

/-- The hand model of `kfRepeat` decides with the generated guard (and the guarded call is the one the
    code makes). -/
theorem repeat_eq_model (char : Bytes) (a1 : Stage) :
    Funcs.Misc.kfRepeat [Stage.lit char, a1] =
      ok (a1.bind fun c => match atoi c with
        | none => .ret ErrorNum
        | some count => .ret (repeatAns char count)) ∧
    Gen.C08.repeatCalls = ["strings.Repeat(char, count)"] ∧
    Gen.C08.maxRepeatBytes = Funcs.Misc.maxRepeatBytes := by
  refine ⟨?_, rfl, rfl⟩
  unfold Funcs.Misc.kfRepeat
  simp only [Stage.lit, Comp.probe, Comp.probeN, show ((0:Nat) == 0) = true from rfl]
  congr 1
  show a1.bind _ = a1.bind _
  congr 1
  funext c
  cases atoi c with
  | none => rfl
  | some count =>
    simp only [repeatAns, Gen.C08.repeatGuard, Gen.C08.maxRepeatBytes, Funcs.Misc.maxRepeatBytes, goDiv]
    have hw : wrap64 (Int.tdiv 1048576 (char.length : Int)) = Int.tdiv 1048576 (char.length : Int) := by
      rw [Int.tdiv_eq_ediv_of_nonneg (by omega)]
      have h0 : 0 ≤ (1048576 : Int) / (char.length : Int) := Int.ediv_nonneg (by omega) (by omega)
      have h1 : (1048576 : Int) / (char.length : Int) ≤ 1048576 := Int.ediv_le_self _ (by omega)
      unfold wrap64; omega
    simp only [hw]
    by_cases h1 : count < 0 <;> by_cases h2 : char.length > 0 <;>
      by_cases h3 : count > Int.tdiv 1048576 (char.length : Int) <;>
      simp [h1, h2, h3, pure] <;> split <;> rfl

/-! ### `{bar}` : the block-writing loop of `termunicode.BarWrite` behind `maxLen > maxBarLen`; `{color}` -/

/-- A constant length that passes the guard of `kfBar` is at most 65536, so `maxLen * barUnicodePartCount`
    cannot wrap and (the scaled value being at most 1) the loop writes at most `maxLen` blocks. -/
theorem bar_guard_safe (maxLen : Int) (h : Gen.C08.barLenGuard maxLen = false) :
    maxLen ≤ 65536 ∧ maxLen * C14.barUnicodePartCount ≤ maxInt64 ∧
    (0 ≤ maxLen → wrap64 (maxLen * C14.barUnicodePartCount) = maxLen * 9) := by
  unfold Gen.C08.barLenGuard Gen.C08.maxBarLen at h
  simp only [decide_eq_false_iff_not, Int.not_lt] at h
  have hpc : C14.barUnicodePartCount = 9 := rfl
  rw [hpc]
  unfold maxInt64 wrap64
  omega

/-- The cap and the colour table of the hand model are the ones of the code. -/
theorem draw_eq_model (maxLen : Int) :
    Gen.C08.maxBarLen = Funcs.Draw.maxBarLen ∧
    Gen.C08.barLenGuard maxLen = decide (maxLen > Funcs.Draw.maxBarLen) ∧
    Gen.C08.barCalls = ["termunicode.BarWrite(&sb, scaler.Scale(val, 0, maxVal), maxLen)"] ∧
    Gen.C08.colorMap = Funcs.Draw.colorMap ∧
    Gen.C08.colorLookup = ["colorMap[strings.ToLower(s)]"] := by
  refine ⟨rfl, rfl, rfl, ?_, rfl⟩
  decide +kernel

example : Gen.C08.barLenGuard 65536 = false ∧ Gen.C08.barLenGuard 65537 = true ∧
    Gen.C08.barLenGuard (-9223372036854775808) = false := by decide

/-! ### `{substr}` : `s[left:right]` behind the clamping statements -/

/-- The bounds computed by the code are the bounds of the hand model. -/
theorem substr_eq_model (lenS left length : Int) :
    Gen.C08.substrBounds lenS left length = Funcs.Strings.substrIdx lenS left length ∧
    Gen.C08.substrExits = ["lenS == 0", "err1 != nil || err2 != nil"] := by
  refine ⟨?_, rfl⟩
  unfold Gen.C08.substrBounds Funcs.Strings.substrIdx
  simp only []
  by_cases h1 : length < 0 <;> by_cases h2 : left < 0 <;> by_cases h3 : wrap64 (left + lenS) < 0 <;>
    by_cases h4 : left > lenS <;> simp [h1, h2, h3, h4]

/-- `0 ≤ lo ≤ hi ≤ len(s)` for every string length and every pair of int64 arguments: the slice
    expression of `kfSubstr` can never be out of range. -/
theorem substr_bounds_safe (lenS left length : Int) (h0 : 0 ≤ lenS) (hS : lenS ≤ maxInt64)
    (hl : inInt64 left = true) (hn : inInt64 length = true) :
    0 ≤ (Gen.C08.substrBounds lenS left length).1 ∧
    (Gen.C08.substrBounds lenS left length).1 ≤ (Gen.C08.substrBounds lenS left length).2 ∧
    (Gen.C08.substrBounds lenS left length).2 ≤ lenS := by
  rw [(substr_eq_model lenS left length).1, C11.substrIdx_spec lenS left length h0 hS hl hn]
  simp only []
  split <;> omega

example : Gen.C08.substrBounds 3 1 9223372036854775807 = (1, 3) ∧
    Gen.C08.substrBounds 3 (-9223372036854775808) 2 = (0, 2) ∧
    Gen.C08.substrBounds 3 9223372036854775807 9223372036854775807 = (3, 3) := by decide

/-! ### `{select}` : `s[wordStart:i]`, `s[wordStart:]` inside the rune loop of `selectField` -/

/-- The slice bounds of `selectField` are loop variables (`wordStart` is only ever assigned the loop
    index); with those assignments `wordStart ≤ i ≤ len(s)` is an invariant, i.e. the loop with Go's
    bounds checks made explicit never fails and is the model's loop. -/
theorem select_slices_safe (s : Bytes) (idx : Int) :
    Gen.C08.selectFieldShape =
      ["wordStart := 0", "wordStart = i", "s[wordStart:i]", "s[wordStart:]", "range i, c over s"] ∧
    Funcs.Strings.selLoopC s idx s 0 {} = .ok (Funcs.Strings.selectField s idx) :=
  ⟨rfl, Funcs.Strings.selLoopC_ok s idx s 0 {} (Nat.le_refl _) (by simp)⟩

/-! ### `{@slice}` / `{@select}` : index normalisation -/

theorem slice_start_eq_model (start : Int) (s : Bytes) :
    Gen.C08.arraySliceStart start (Funcs.Range.countSep s) = Funcs.Range.sliceStart start s := by
  unfold Gen.C08.arraySliceStart Funcs.Range.sliceStart
  simp only []
  by_cases h1 : start < 0 <;> by_cases h2 : wrap64 (start + wrap64 (Funcs.Range.countSep s + 1)) < 0 <;> simp [h1, h2]

/-- The start of `@slice` is computed without wrap-around and is never negative (`cnt` is a
    `strings.Count`, so `0 ≤ cnt < MaxInt64`). -/
theorem slice_bounds_safe (start cnt : Int) (hs : inInt64 start = true) (h0 : 0 ≤ cnt) (h1 : cnt < maxInt64) :
    Gen.C08.arraySliceStart start cnt = (if start < 0 then max (start + (cnt + 1)) 0 else start) ∧
    0 ≤ Gen.C08.arraySliceStart start cnt := by
  rw [C11.inInt64_iff] at hs
  unfold minInt64 at *; unfold maxInt64 at *
  unfold Gen.C08.arraySliceStart wrap64
  simp only []
  constructor
  · split <;> split <;> simp_all <;> omega
  · split <;> split <;> simp_all <;> omega

/-- The loop guard of `@slice` compares the true difference `i - realStart` (a counter and a start ≥ 0
    cannot wrap), and it is the guard expression of the model. -/
theorem slice_guard_exact (len i rs : Int) (hi0 : 0 ≤ i) (hi : i ≤ maxInt64) (hr0 : 0 ≤ rs) (hr : rs ≤ maxInt64) :
    Gen.C08.arraySliceGuard len i rs = (decide (len < 0) || decide (i - rs < len)) ∧
    Gen.C08.arraySliceGuard len i rs = (decide (len < 0) || decide (wrap64 (i - rs) < len)) := by
  refine ⟨?_, rfl⟩
  unfold maxInt64 at *
  unfold Gen.C08.arraySliceGuard wrap64
  have : (i - rs + 9223372036854775808) % 18446744073709551616 - 9223372036854775808 = i - rs := by omega
  rw [this]

theorem select_index_eq_model (index : Int) (s : Bytes) :
    Gen.C08.arraySelectIndex index (Funcs.Range.countSep s) = Funcs.Range.selectIndex index s := by
  unfold Gen.C08.arraySelectIndex Funcs.Range.selectIndex
  simp only []
  by_cases h1 : index < 0 <;> simp [h1]

/-- A negative `@select` index is counted from the end with true arithmetic (no wrap-around). -/
theorem select_index_exact (index cnt : Int) (hs : inInt64 index = true) (h0 : 0 ≤ cnt) (h1 : cnt < maxInt64) :
    Gen.C08.arraySelectIndex index cnt = (if index < 0 then index + (cnt + 1) else index) := by
  rw [C11.inInt64_iff] at hs
  unfold minInt64 at *; unfold maxInt64 at *
  unfold Gen.C08.arraySelectIndex wrap64
  simp only []
  split <;> simp_all <;> omega

example : Gen.C08.arraySliceStart (-9223372036854775808) 2 = 0 ∧ Gen.C08.arraySliceStart (-2) 2 = 1 ∧
    Gen.C08.arraySelectIndex (-1) 2 = 2 ∧ Gen.C08.arraySliceGuard 9223372036854775807 1 1 = true := by decide

/-! ### precision caps (`strconv.FormatFloat` / `AppendFloat` allocate `precision` digits) -/

/-- A constant precision that passes any of the five guards is at most 1024. -/
theorem precision_guard_safe (p : Int) :
    (Gen.C08.roundPrecisionGuard p = false → p ≤ 1024) ∧
    (Gen.C08.percentPrecisionGuard p = false → p ≤ 1024) ∧
    (Gen.C08.bytesizePrecisionGuard p = false → p ≤ 1024) ∧
    (Gen.C08.bytesizesiPrecisionGuard p = false → p ≤ 1024) ∧
    (Gen.C08.downscalePrecisionGuard p = false → p ≤ 1024) := by
  unfold Gen.C08.roundPrecisionGuard Gen.C08.percentPrecisionGuard Gen.C08.bytesizePrecisionGuard
    Gen.C08.bytesizesiPrecisionGuard Gen.C08.downscalePrecisionGuard Gen.C08.maxPrecision
  simp only [decide_eq_false_iff_not, Int.not_lt]
  omega

/-- The cap is the 1024 the models of `round` / `percent` / `bytesize…` / `downscale` use (a literal
    in `Funcs/Strings.lean`, `maxPrecision` in the float family), and the guarded variable is the one
    handed to the formatting call. -/
theorem precision_eq_model (p : Int) :
    Gen.C08.maxPrecision = 1024 ∧
    Gen.C08.roundPrecisionGuard p = decide (p > 1024) ∧
    Gen.C08.percentPrecisionGuard p = decide (p > 1024) ∧
    Gen.C08.bytesizePrecisionGuard p = decide (p > 1024) ∧
    Gen.C08.bytesizesiPrecisionGuard p = decide (p > 1024) ∧
    Gen.C08.downscalePrecisionGuard p = decide (p > 1024) ∧
    Gen.C08.precisionUses = ["round: precision -> strconv.FormatFloat", "percent: decimals -> strconv.AppendFloat",
      "bytesize: precision -> humanize.AlwaysByteSize", "bytesizesi: precision -> humanize.AlwaysByteSizeSi",
      "downscale: precision -> humanize.AlwaysDownscale"] := ⟨rfl, rfl, rfl, rfl, rfl, rfl, rfl⟩

/-! ### `divi` / `modi` : zero-divisor guards -/

/-- When the guard of `divi` passes the divisor is non-zero (no "integer divide by zero" panic); the
    quotient is an int64; `MinInt64 / -1` does not trap in Go, it wraps to `MinInt64`. -/
theorem divi_guard_safe (a b : Int) (h : Gen.C08.diviGuard a b = false) :
    b ≠ 0 ∧ inInt64 (Gen.C08.diviVal a b) = true ∧ Gen.C08.diviVal minInt64 (-1) = minInt64 := by
  refine ⟨by simpa [Gen.C08.diviGuard] using h, wrap64_inInt64 _, by decide⟩

/-- Same for `modi`; `MinInt64 % -1` is 0. -/
theorem modi_guard_safe (a b : Int) (ha : inInt64 a = true) (h : Gen.C08.modiGuard a b = false) :
    b ≠ 0 ∧ inInt64 (Gen.C08.modiVal a b) = true ∧ Gen.C08.modiVal minInt64 (-1) = 0 := by
  refine ⟨by simpa [Gen.C08.modiGuard] using h, tmod_inInt64 a b ha, by decide⟩

/-- The checked operations of the hand model are the generated guard + value, and
    `arithmaticHelperiChecked` turns a refusal into `<VALUE>` before using the value. -/
theorem divi_eq_model (a b : Int) :
    Funcs.Arith.opDiv a b = (if Gen.C08.diviGuard a b then none else some (Gen.C08.diviVal a b)) ∧
    Funcs.Arith.opMod a b = (if Gen.C08.modiGuard a b then none else some (Gen.C08.modiVal a b)) ∧
    Gen.C08.checkedHelperShape = ["final, ok := typedArgs[0](context)", "final, ok = equation(final, val)",
      "if !ok return ErrorValue"] := by
  refine ⟨?_, ?_, rfl⟩
  · unfold Funcs.Arith.opDiv Gen.C08.diviGuard Gen.C08.diviVal
    by_cases h : b = 0 <;> simp [h]
  · unfold Funcs.Arith.opMod Gen.C08.modiGuard Gen.C08.modiVal
    by_cases h : b = 0 <;> simp [h]

example : Gen.C08.diviGuard 1 0 = true ∧ Gen.C08.diviGuard minInt64 (-1) = false ∧ Gen.C08.diviVal 7 (-2) = -3 ∧
    Gen.C08.modiVal (-7) 2 = -1 := by decide

/-! ### `{! …}` : the integer operators of stdmath (`%`, `<<`, `>>`) -/

/-- **stdmath's integer operators are guarded, as regenerated from /repo**: the three entries of `ops` that can
    panic are `v := int64(right); if GUARD { return math.NaN() }; return float64(int64(left) OP v)` (every statement
    pinned), and for all integers the regenerated guard admits only a non-zero divisor (`%`) / a non-negative
    shift count (`<<`, `>>`: Go panics on negative counts only, counts ≥ 64 are defined) and is exactly where the
    formula model (`Rare.C19.modI` / `shlI` / `shrI`, the operators behind `C19.int_ops_guarded`) answers
    "not a number"; no OTHER entry of the table contains an integer remainder, quotient or shift.  A guard turned
    into `r < 0`, `n <= -2`, or dropped, breaks this theorem. -/
theorem math_int_ops_guarded (l v : Int) :
    (Gen.C08.mathModGuard v = false → v ≠ 0) ∧ ((C19.modI l v).isNone = Gen.C08.mathModGuard v) ∧
    (Gen.C08.mathShlGuard v = false → 0 ≤ v) ∧ ((C19.shlI l v).isNone = Gen.C08.mathShlGuard v) ∧
    (Gen.C08.mathShrGuard v = false → 0 ≤ v) ∧ ((C19.shrI l v).isNone = Gen.C08.mathShrGuard v) ∧
    Gen.C08.mathIntOpShape =
      ["%: r := int64(right)", "%: if r == 0 { return math.NaN() }", "%: return float64(int64(left) % r)",
       "<<: n := int64(right)", "<<: if n < 0 { return math.NaN() }", "<<: return float64(int64(left) << n)",
       ">>: n := int64(right)", ">>: if n < 0 { return math.NaN() }", ">>: return float64(int64(left) >> n)"] ∧
    Gen.C08.mathOtherIntOps = [] := by
  refine ⟨?_, ?_, ?_, ?_, ?_, ?_, by decide, rfl⟩
  · simp [Gen.C08.mathModGuard]
  · by_cases h : v = 0 <;> simp [Gen.C08.mathModGuard, C19.modI, h]
  · simp [Gen.C08.mathShlGuard]
  · by_cases h : v < 0 <;> simp [Gen.C08.mathShlGuard, C19.shlI, h]
  · simp [Gen.C08.mathShrGuard]
  · by_cases h : v < 0 <;> simp [Gen.C08.mathShrGuard, C19.shrI, h]

example : Gen.C08.mathModGuard 0 = true ∧ Gen.C08.mathModGuard (-3) = false ∧ Gen.C08.mathShlGuard (-1) = true ∧
    Gen.C08.mathShlGuard 64 = false ∧ C19.shlI 1 64 = some 0 ∧ C19.shrI (-8) 70 = some (-1) ∧ C19.modI (-7) 2 = some (-1) := by decide

/-! ### `bucket` / `bucketrange` : the constant size is the divisor of `val / bucketSize` -/

/-- A constant bucket size that passes the guard is positive: `val / bucketSize` cannot divide by zero
    (and, the divisor being positive, `MinInt64 / -1` cannot occur); the guard is the model's, and the
    guarded divisions are the only `/` `%` of the two closures. -/
theorem bucket_guard_safe (size : Int) :
    (Gen.C08.bucketSizeGuard size = false → 0 < size) ∧
    (Gen.C08.bucketRangeSizeGuard size = false → 0 < size) ∧
    Gen.C08.bucketSizeGuard size = decide (size ≤ 0) ∧
    Gen.C08.bucketRangeSizeGuard size = decide (size ≤ 0) ∧
    Gen.C08.bucketDivisions = ["kfBucket: val / bucketSize", "kfBucketRange: val / bucketSize"] := by
  refine ⟨?_, ?_, rfl, rfl, rfl⟩
  · unfold Gen.C08.bucketSizeGuard
    simp only [decide_eq_false_iff_not, Int.not_le]
    exact id
  · unfold Gen.C08.bucketRangeSizeGuard
    simp only [decide_eq_false_iff_not, Int.not_le]
    exact id

example : Gen.C08.bucketSizeGuard 0 = true ∧ Gen.C08.bucketSizeGuard (-9223372036854775808) = true ∧
    Gen.C08.bucketRangeSizeGuard 1 = false := by decide

/-! ### `GetMatch` implementations : sub-contexts and match contexts -/

/-- `SliceSpaceExpressionContext.GetMatch` without wrap-around: what the guard chain computes and
    which entries of `indices` it reads. -/
theorem slicespace_char (idx n : Int) (indices : Int → Int) (hidx : inInt64 idx = true) (hn : n ≤ maxInt64) :
    Gen.C08.sliceSpaceGetMatch idx n indices =
      (if idx < 0 ∨ 2 * idx + 1 ≥ n then .empty
       else if indices (2 * idx) < 0 ∨ indices (2 * idx + 1) < 0 then .empty
       else .slice (indices (2 * idx)) (indices (2 * idx + 1))) ∧
    Gen.C08.sliceSpaceGetMatchReads idx n indices =
      (if idx < 0 ∨ 2 * idx + 1 ≥ n then [] else [2 * idx, 2 * idx + 1]) := by
  rw [C11.inInt64_iff] at hidx
  unfold Gen.C08.sliceSpaceGetMatch Gen.C08.sliceSpaceGetMatchReads
  simp only []
  by_cases h0 : idx < 0
  · simp [h0]
  · rcases wrap_double idx (by omega) hidx.2 with ⟨h1, h2, h3⟩ | ⟨h1, h2⟩
    · rw [h3, h2]
      have : ¬ (2 * idx < 0) := by omega
      by_cases h4 : 2 * idx + 1 ≥ n
      · simp [h0, this, h4]
      · have h4' : ¬ (n ≤ 2 * idx + 1) := by omega
        simp [h0, this, h4']
    · have : 2 * idx + 1 ≥ n := by omega
      simp [h0, h2, this]

/-- Every table read of the four `GetMatch` implementations (`subContext`, `lazySubContext`,
    `KeyBuilderContextArray`, `SliceSpaceExpressionContext`) happens at an index inside the table, for
    every int64 index and every table length. -/
theorem getmatch_bounds_safe :
    (∀ idx n : Int, ∀ i ∈ Gen.C08.subContextGetMatchReads idx n, 0 ≤ i ∧ i < n) ∧
    (∀ idx n : Int, ∀ i ∈ Gen.C08.lazySubContextGetMatchReads idx n, 0 ≤ i ∧ i < n) ∧
    (∀ idx n : Int, ∀ i ∈ Gen.C08.contextArrayGetMatchReads idx n, 0 ≤ i ∧ i < n) ∧
    (∀ (idx n : Int) (indices : Int → Int), inInt64 idx = true → n ≤ maxInt64 →
      ∀ i ∈ Gen.C08.sliceSpaceGetMatchReads idx n indices, 0 ≤ i ∧ i < n) := by
  refine ⟨?_, ?_, ?_, ?_⟩
  · intro idx n i hi
    unfold Gen.C08.subContextGetMatchReads at hi
    split at hi
    · simp at hi
    · split at hi
      · simp at hi; subst hi; simp_all
      · simp at hi
  · intro idx n i hi
    unfold Gen.C08.lazySubContextGetMatchReads at hi
    split at hi
    · simp at hi
    · split at hi
      · simp at hi
      · simp at hi; subst hi; simp_all
  · intro idx n i hi
    unfold Gen.C08.contextArrayGetMatchReads at hi
    split at hi
    · simp at hi; subst hi; simp_all
    · simp at hi
  · intro idx n indices hidx hn i hi
    rw [(slicespace_char idx n indices hidx hn).2] at hi
    split at hi
    · simp at hi
    · simp at hi; omega

/-- An element answered by a chain is the requested one, of the table measured, and inside it. -/
theorem getmatch_index_safe (idx n m i : Int) :
    (Gen.C08.subContextGetMatch idx n = .index m i → m = n ∧ i = idx ∧ 0 ≤ i ∧ i < n) ∧
    (Gen.C08.lazySubContextGetMatch idx n = .index m i → m = n ∧ i = idx ∧ 0 ≤ i ∧ i < n) ∧
    (Gen.C08.contextArrayGetMatch idx n = .index m i → m = n ∧ i = idx ∧ 0 ≤ i ∧ i < n) := by
  unfold Gen.C08.subContextGetMatch Gen.C08.lazySubContextGetMatch Gen.C08.contextArrayGetMatch
  refine ⟨?_, ?_, ?_⟩
  · intro h; split at h
    · cases h
    · split at h
      · cases h; simp_all
      · cases h
  · intro h; split at h
    · cases h
    · split at h
      · cases h
      · cases h; simp_all
  · intro h; split at h
    · cases h; simp_all
    · cases h

example : Gen.C08.subContextGetMatch 1 2 = .index 2 1 ∧ Gen.C08.subContextGetMatch 2 2 = .empty ∧
    Gen.C08.subContextGetMatch (-1) 2 = .passThrough (-1) ∧
    Gen.C08.lazySubContextGetMatch 9223372036854775807 3 = .empty ∧
    Gen.C08.contextArrayGetMatch (-9223372036854775808) 3 = .empty ∧
    Gen.C08.sliceSpaceGetMatchReads 4611686018427387904 6 (fun _ => 0) = [] ∧
    Gen.C08.sliceSpaceGetMatchReads 2 6 (fun _ => 0) = [4, 5] := by decide

/-- The model of `subContext` (`Comp.withSub`, used by `@map` / `@reduce` / `@filter` / `@for`) answers a
    look-up exactly as the generated chain says (`len(s.vals)` is the array length of the field). -/
theorem withSub_eq_gen {α : Type} (i : Int) (k : Bytes → Comp α) (v0 v1 : Bytes) :
    (Comp.getMatch i k).withSub v0 v1 =
      (match Gen.C08.subContextGetMatch i Gen.C08.subContextValsLen with
       | .passThrough j => .getMatch j fun b => (k b).withSub v0 v1
       | .index _ j => (k ([v0, v1].getD j.toNat [])).withSub v0 v1
       | .slice _ _ => .panic "not a sub-context action"
       | .empty => (k []).withSub v0 v1) := by
  unfold Gen.C08.subContextGetMatch Gen.C08.subContextValsLen
  simp only [Comp.withSub]
  by_cases h0 : i < 0
  · simp [h0]
  · by_cases h1 : i = 0
    · subst h1; simp
    · by_cases h2 : i = 1
      · subst h2; simp
      · have : ¬ i < 2 := by omega
        simp [h0, h1, h2, this]

/-- The model of `lazySubContext` (`C10.withArgs`, user functions) answers a look-up exactly as the
    generated chain says. -/
theorem withArgs_eq_gen {α : Type} (args : List Stage) (i : Int) (k : Bytes → Comp α) :
    C10.withArgs args (Comp.getMatch i k) =
      (match Gen.C08.lazySubContextGetMatch i args.length with
       | .passThrough j => .getMatch j fun b => C10.withArgs args (k b)
       | .index _ j => (args.getD j.toNat (.ret [])).bind fun v => C10.withArgs args (k v)
       | .slice _ _ => .panic "not a sub-context action"
       | .empty => C10.withArgs args (k [])) := by
  unfold Gen.C08.lazySubContextGetMatch
  simp only [C10.withArgs]
  by_cases h0 : i < 0
  · simp [h0]
  · by_cases h1 : i ≥ args.length <;> simp [h0, h1]

/-- The model of `SliceSpaceExpressionContext.GetMatch` (`C02.getMatch`) is the generated chain. -/
theorem c02_getMatch_eq_gen (line : Bytes) (indices : List Int) (idx : Int) (hidx : inInt64 idx = true)
    (hn : (indices.length : Int) ≤ maxInt64) :
    C02.getMatch line indices idx =
      (match Gen.C08.sliceSpaceGetMatch idx indices.length (fun i => indices.getD i.toNat 0) with
       | .slice lo hi => C02.goSlice line lo hi
       | .empty => .ok []
       | _ => .error "not a match-context action") := by
  rw [(slicespace_char idx indices.length _ hidx hn).1]
  rw [C11.inInt64_iff] at hidx
  unfold C02.getMatch
  simp only []
  by_cases h0 : idx < 0
  · simp [h0]
  · rcases wrap_double idx (by omega) hidx.2 with ⟨h1, h2, h3⟩ | ⟨h1, h2⟩
    · rw [h2]
      have e3 : (2 * idx).toNat + 1 = (2 * idx + 1).toNat := by omega
      rw [e3]
      have : ¬ (2 * idx < 0) := by omega
      by_cases h4 : 2 * idx + 1 ≥ indices.length
      · simp [h0, this, h4]
      · simp only [h0, this, h4, false_or, if_false]
        split <;> rfl
    · have : 2 * idx + 1 ≥ indices.length := by omega
      simp [h0, h2, this]

/-! ### `Compile` : the escape look-ahead `r == '\\' && i+1 < len(runes)` in front of `i++; runes[i]` -/

/-- When the look-ahead holds, `runes[i+1]` exists (the former `Compile("abc\\")` index panic). -/
theorem compile_escape_safe (i n : Int) (h0 : 0 ≤ i) (hi : i < n) (hn : n ≤ maxInt64)
    (h : Gen.C08.compileEscapeGuard i n = true) : 0 ≤ i + 1 ∧ i + 1 < n := by
  unfold maxInt64 at *
  unfold Gen.C08.compileEscapeGuard wrap64 at h
  simp only [decide_eq_true_eq] at h
  omega

/-- The guard holds exactly when a rune follows the backslash – which is what the model's pattern
    match on the rest of the rune list tests; the guarded statements are `i++; …runes[i]…`. -/
theorem compile_escape_eq_model (all : List Char) (i : Nat) (hi : i < all.length) (hn : (all.length : Int) ≤ maxInt64) :
    Gen.C08.compileEscapeGuard i all.length = !(all.drop (i + 1)).isEmpty ∧
    Gen.C08.compileEscapeSteps = ["i++", "sb.WriteRune(unescape(runes[i]))"] ∧
    Gen.C08.compileRuneAccesses = ["runes[i]", "runes[i]", "runes[startStatement : i+1]", "runes[startStatement:]"] := by
  refine ⟨?_, rfl, rfl⟩
  unfold maxInt64 at *
  unfold Gen.C08.compileEscapeGuard wrap64
  have e : ((i : Int) + 1 + 9223372036854775808) % 18446744073709551616 - 9223372036854775808 = i + 1 := by omega
  rw [e]
  by_cases h : i + 1 < all.length
  · have : all.drop (i + 1) ≠ [] := by
      intro hd; have := congrArg List.length hd; simp at this; omega
    have h' : ((i : Int) + 1 < all.length) := by omega
    simp [h', this]
  · have : all.drop (i + 1) = [] := List.drop_eq_nil_of_le (by omega)
    have h' : ¬ ((i : Int) + 1 < all.length) := by omega
    simp [h', this]

example : Gen.C08.compileEscapeGuard 3 4 = false ∧ Gen.C08.compileEscapeGuard 2 4 = true := by decide


/-! ## Loops, as regenerated from /repo: the loop condition and the loop body are step functions -/

/-- `k` rounds of the loop body of `kfExpBucket` (the generated `expBucketStep`) from `(val, bucket)`. -/
def expBucketIter (k : Nat) (val bucket : Int) : Int × Int :=
  iterate Gen.C08.expBucketStep k (val, bucket)

/-- **The scaling loop of `{expbucket}` returns**: from every int64 value (and `bucket = 1`, as the code
    enters it) the generated loop condition becomes false after at most 18 rounds – 19 evaluations of
    the condition –, in every round it does run the product `bucket * 10` is a true int64 product (no
    wrap-around), it leaves with `bucket = 10^n`, for positive values this is the power of ten that
    brackets the value, and the fuelled loop of the hand model (`Arith.expBucketVal`) computes exactly
    this.  The statements around the loop are pinned.  (A loop rewritten as
    `for bucket*10 <= val { bucket *= 10 }` changes the generated condition and step, and this theorem
    stops checking: for `val` near `MaxInt64` that loop never exits.) -/
theorem expbucket_terminates (val : Int) (h : inInt64 val = true) :
    ∃ n, n ≤ 18 ∧
      (∀ k, k < n →
        Gen.C08.expBucketLoopCond (expBucketIter k val 1).1 (expBucketIter k val 1).2 = true ∧
        1 ≤ (expBucketIter k val 1).2 ∧ (expBucketIter k val 1).2 * 10 ≤ maxInt64) ∧
      Gen.C08.expBucketLoopCond (expBucketIter n val 1).1 (expBucketIter n val 1).2 = false ∧
      (expBucketIter n val 1).2 = 10 ^ n ∧
      (1 ≤ val → (10 : Int) ^ n ≤ val ∧ val < 10 * 10 ^ n ∧
        Funcs.Arith.expBucketVal val = (expBucketIter n val 1).2) ∧
      Gen.C08.expBucketShape = ["bucket := 0", "bucket = 1", "bucket *= 10",
        "val, err := strconv.Atoi(args[0](context))", "val /= 10", "return ErrorNum",
        "if val > 0 { … for val >= 10 }", "return strconv.Itoa(bucket)"] := by
  rw [C11.inInt64_iff] at h
  obtain ⟨n, hn, hrun, hexit, hval, hrange, hmodel⟩ :=
    expLoop_rounds Gen.C08.expBucketStep (fun _ _ => rfl) 18 val 1
      (by have := h.2; unfold maxInt64 at this; omega) (by omega) (fun _ => by have := h.2; omega)
  refine ⟨n, hn, ?_, ?_, ?_, ?_, rfl⟩
  · intro k hk
    obtain ⟨a, b, c⟩ := hrun k hk
    exact ⟨by simpa [Gen.C08.expBucketLoopCond, expBucketIter] using a, b, c⟩
  · simpa [Gen.C08.expBucketLoopCond, expBucketIter] using hexit
  · simpa [expBucketIter] using hval
  · intro h1
    obtain ⟨r1, r2⟩ := hrange h1
    refine ⟨r1, r2, ?_⟩
    have hpos : val > 0 := by omega
    simp only [Funcs.Arith.expBucketVal, hpos, if_true]
    exact hmodel 19 (by omega)

example : expBucketIter 18 9223372036854775807 1 = (9, 1000000000000000000) ∧
    Gen.C08.expBucketLoopCond 9 1000000000000000000 = false ∧
    expBucketIter 0 (-5) 1 = (-5, 1) ∧ Gen.C08.expBucketLoopCond (-5) 1 = false ∧
    expBucketIter 2 1234 1 = (12, 100) := by decide

/-- **The counter of `{@range}` cannot overflow**: whenever the generated loop condition holds and the
    generated `break` condition in front of the post statement does not, `i += incr` is a true int64 sum
    that moves `i` strictly towards `stop` (so with the round cap the loop returns). -/
theorem range_counter_safe (i stop incr : Int) (hi : inInt64 i = true) (hs : inInt64 stop = true)
    (hc : inInt64 incr = true) (hcond : Gen.C08.rangeLoopCond i stop incr = true)
    (hbrk : Gen.C08.rangeOverflowBreak i incr = false) :
    Gen.C08.rangeStep i incr = i + incr ∧ inInt64 (i + incr) = true ∧
    (incr > 0 → i < i + incr) ∧ (incr < 0 → i + incr < i) :=
  range_step_exact i stop incr hi hs hc hcond hbrk

example : Gen.C08.rangeLoopCond 9223372036854775800 9223372036854775807 5 = true ∧
    Gen.C08.rangeOverflowBreak 9223372036854775800 5 = false ∧
    Gen.C08.rangeOverflowBreak 9223372036854775805 5 = true ∧
    Gen.C08.rangeOverflowBreak (-9223372036854775805) (-5) = true := by decide

/-- One round of the hand model's `@range` loop is the generated condition, round cap, `break`
    condition and post statement, in the order of the code's loop body. -/
theorem range_eq_model (fuel : Nat) (i stop incr : Int) (count : Nat) (sb : Funcs.Range.Sb) :
    Funcs.Range.rangeLoop (fuel + 1) i stop incr count sb =
      (if Gen.C08.rangeLoopCond i stop incr then
        let sb' := (if sb.len > 0 then sb.write Funcs.Range.ArraySeparatorString else sb).write (itoa i)
        if Gen.C08.rangeCountGuard ((count + 1 : Nat) : Int) then .ok none
        else if Gen.C08.rangeOverflowBreak i incr then .ok (some sb')
        else Funcs.Range.rangeLoop fuel (Gen.C08.rangeStep i incr) stop incr (count + 1) sb'
      else .ok (some sb)) ∧
    Gen.C08.rangeLoopShape = ["init i := start", "if sb.Len() > 0", "call", "count++", "inf-if", "break-if"] := by
  refine ⟨?_, rfl⟩
  rw [Funcs.Range.rangeLoop]
  unfold Gen.C08.rangeLoopCond Gen.C08.rangeCountGuard Gen.C08.rangeOverflowBreak Gen.C08.rangeStep
  have e : (decide (((count + 1 : Nat) : Int) > 1000000)) = decide (count + 1 > Gen.maxIterations) := by
    unfold Gen.maxIterations
    by_cases h : count + 1 > 1000000
    · have : ((count + 1 : Nat) : Int) > 1000000 := by omega
      rw [decide_eq_true h, decide_eq_true this]
    · have : ¬ ((count + 1 : Nat) : Int) > 1000000 := by omega
      rw [decide_eq_false h, decide_eq_false this]
  simp only [e, decide_eq_true_eq]

/-- **The round counters of `{@for}` and `{@range}` cannot overflow**: both loops give up (`<INF>`) as soon as
    the counter exceeds `MAX_ITERATIONS`, so `idx++` / `count++` are only ever executed on values
    `≤ MAX_ITERATIONS`; the cap is the one of the hand model. -/
theorem for_counter_safe (idx : Int) (h0 : 0 ≤ idx) :
    (Gen.C08.forCountGuard idx = false → idx ≤ Gen.maxIterations ∧ wrap64 (idx + 1) = idx + 1) ∧
    (Gen.C08.rangeCountGuard idx = false → idx ≤ Gen.maxIterations ∧ wrap64 (idx + 1) = idx + 1) ∧
    Gen.C08.forCountGuard idx = decide (idx > (Gen.maxIterations : Int)) ∧
    Gen.C08.rangeCountGuard idx = decide (idx > (Gen.maxIterations : Int)) ∧
    Gen.C08.forCounterShape = ["idx := 0", "idx++"] := by
  refine ⟨?_, ?_, rfl, rfl, rfl⟩
  · intro h
    unfold Gen.C08.forCountGuard at h
    simp only [decide_eq_false_iff_not, Int.not_lt] at h
    unfold Gen.maxIterations
    refine ⟨by omega, ?_⟩
    unfold wrap64; omega
  · intro h
    unfold Gen.C08.rangeCountGuard at h
    simp only [decide_eq_false_iff_not, Int.not_lt] at h
    unfold Gen.maxIterations
    refine ⟨by omega, ?_⟩
    unfold wrap64; omega

example : Gen.C08.forCountGuard 1000000 = false ∧ Gen.C08.forCountGuard 1000001 = true := by decide

/-! ## Every operation that can panic: the census regenerated from /repo -/

/-- **The arithmetic of the `{@range}` closure is exactly the loop's**: the closure consists of the three
    parses, the three validations, the builder, the counter, the loop and the return - nothing else -, and
    its only arithmetic is `i += incr` (`range_counter_safe`), `count++` (`for_counter_safe`) and the two
    differences of the overflow `break`, which are evaluated only behind `incr > 0 &&` / `incr < 0 &&` and
    are true int64 differences there.  (A statement added next to the loop - such as pre-sizing the
    builder with `sb.Grow((stop-start)/incr)`, whose difference is not an int64 for a span beyond
    `MaxInt64`: `range_span_not_int64` - is a new line of `rangeClosureShape` and of `rangeArith`.) -/
theorem range_arith_safe (incr : Int) (hc : inInt64 incr = true) :
    Gen.C08.rangeClosureShape = ["start, err := strconv.Atoi(sStart(context))", "if err != nil { return ErrorNum }",
      "stop, err := strconv.Atoi(sStop(context))", "if err != nil { return ErrorNum }",
      "incr, err := strconv.Atoi(sIncr(context))", "if err != nil { return ErrorNum }",
      "if incr == 0 { return ErrorValue }", "if incr > 0 && start > stop { return ErrorValue }",
      "if incr < 0 && start < stop { return ErrorValue }", "var sb strings.Builder", "count := 0",
      "for i := start; (incr > 0 && i < stop) || (incr < 0 && i > stop); i += incr", "return sb.String()"] ∧
    Gen.C08.rangeArith = ["arith: i += incr", "arith: count++", "arith: math.MaxInt - incr", "arith: math.MinInt - incr"] ∧
    (incr > 0 → wrap64 (maxInt64 - incr) = maxInt64 - incr ∧ 0 ≤ maxInt64 - incr) ∧
    (incr < 0 → wrap64 (minInt64 - incr) = minInt64 - incr ∧ minInt64 - incr ≤ 0) := by
  rw [C11.inInt64_iff] at hc
  refine ⟨rfl, rfl, ?_, ?_⟩ <;> intro h <;> unfold wrap64 <;> unfold minInt64 maxInt64 at * <;> omega

/-- Why the number of rounds of `{@range}` cannot be computed up-front as `(stop-start)/incr`: the span of two
    int64 values that pass the validation (`start ≤ stop`, `incr > 0`) need not be an int64 - the wrapped
    difference is negative (`strings.Builder.Grow` panics on it), or, doubled, wraps back to a harmless
    small number. -/
theorem range_span_not_int64 :
    inInt64 minInt64 = true ∧ inInt64 maxInt64 = true ∧ minInt64 ≤ maxInt64 ∧
    wrap64 (maxInt64 - minInt64) = -1 ∧
    wrap64 (5000000000000000000 - (-5000000000000000000)) = -8446744073709551616 ∧
    goDiv (wrap64 (5000000000000000000 - (-5000000000000000000))) 1000000000000000000 = -8 ∧
    wrap64 (2 * wrap64 (1 - minInt64)) = 2 := by decide

/-- **Literal indices into the argument list are behind an arity check**: for every `args[k]` with a literal
    `k` in the helper library and in `Compile` (and `s.stages[0]` in `BuildKey` / `joinStages`), the arity
    checks that enclose the access (`if len(args) != 2 { return … }`, `if !isArgCountBetween(args, 1, 3)`,
    `if len(args) >= 3 { … }`, `switch len(args) { case 2: … }` - followed by the translator) establish
    `len(args) > k`. -/
theorem arg_indexes_guarded : ∀ e ∈ Gen.C08.argIndexes, e.2.1 < e.2.2 := by decide

example : ("funcsRange.go kfArrayRange", 2, 3) ∈ Gen.C08.argIndexes ∧ ("keyBuilder.go BuildKey s.stages", 0, 1) ∈ Gen.C08.argIndexes ∧
    Gen.C08.argIndexes.length = 103 := by decide

/-- **`Splitter.Next` keeps its position inside the string**: when `0 ≤ next ≤ len(S)` and `strings.Index`
    found the delimiter at `idx` of the remainder (`0 ≤ idx`, `idx + len(Delim) ≤ len(S) - next`), the slice
    `s.S[next : next+idx]` is in range and the new position `next + idx + len(Delim)` is again `≤ len(S)`,
    all sums being true int64 sums; the statements around them are pinned (the `next < 0` exit in front,
    the not-found branch that ends the iteration). -/
theorem splitter_next_safe (next idx lenDelim lenS : Int) (h0 : 0 ≤ next) (h1 : next ≤ lenS) (hS : lenS ≤ maxInt64)
    (hi : 0 ≤ idx) (hd : 0 ≤ lenDelim) (hfound : idx + lenDelim ≤ lenS - next) :
    Gen.C08.splitterNext next idx lenDelim = (next, next + idx, next + idx + lenDelim) ∧
    0 ≤ next ∧ next ≤ next + idx ∧ next + idx ≤ lenS ∧
    0 ≤ next + idx + lenDelim ∧ next + idx + lenDelim ≤ lenS ∧
    Gen.C08.splitterNextShape = ["if s.next < 0 { return \"\" }", "idx := strings.Index(s.S[s.next:], s.Delim)", "if idx < 0",
      "idx += s.next", "ret = s.S[s.next:idx]", "s.next = idx + len(s.Delim)", "return"] := by
  have e1 : wrap64 (idx + next) = next + idx := by unfold wrap64; unfold maxInt64 at hS; omega
  have e2 : wrap64 (next + idx + lenDelim) = next + idx + lenDelim := by unfold wrap64; unfold maxInt64 at hS; omega
  refine ⟨?_, h0, by omega, by omega, by omega, by omega, rfl⟩
  simp only [Gen.C08.splitterNext, e1, e2]

example : Gen.C08.splitterNext 2 3 2 = (2, 5, 7) := by decide

set_option maxRecDepth 4096 in
/-- **Every operation of the anchor files that can panic is accounted for**: the divisions and remainders by
    a non-constant, the shifts by a non-constant, the index and slice expressions, the sizing calls (`Grow`,
    `make`, `strings.Repeat`), the explicit `panic`, the unchecked type assertions and the sums / differences
    / products of two non-constant operands of keyBuilder.go, argSplitter.go, every file of the helper
    library (pkg/expressions/stdlib), the formula compiler (pkg/expressions/stdmath), contextArray.go,
    stageAnalysis.go, funcfile/stage.go and stringSplitter/splitter.go - as listed by the translator from
    /repo on every run - are exactly the lines of `siteTable`, each of which names the guard (a theorem of
    this file, or the structural reason) that makes it safe. -/
theorem panic_sites_classified :
    Gen.C08.panicSites = siteTable.map (·.1) ∧ (siteTable.all fun p => p.2 != "") = true :=
  ⟨rfl, rfl⟩

/-! ## Output sizes: what the caps bound, and the family they do not

The known finding of this property is resource exhaustion by a growing value.  The theorems below bound what IS
bounded - a single helper with a cap cannot blow up whatever its arguments are - and name the remaining family:
a loop helper (`@for`, `@reduce`) whose argument EXPRESSION is evaluated on its own previous result and returns
more than it was given. -/

/-- **`{@range}` answers at most 21 MB**: whatever its (one, two or three) argument expressions evaluate to in
    whatever context, the result is at most `21 * MAX_ITERATIONS` bytes (each of at most `MAX_ITERATIONS` elements
    is an int64 in decimal - at most 20 bytes - and a separator). -/
theorem range_output_bound (c : Ctx) (s0 s1 s2 : Stage) (out : Bytes)
    (h : (Funcs.Range.rangeStage s0 s1 s2).run c = .ok out) :
    out.length ≤ 21000000 ∧
    Funcs.Range.kfArrayRange [s1] = ok (Funcs.Range.rangeStage (Stage.lit (ascii "0")) s1 (Stage.lit (ascii "1"))) ∧
    Funcs.Range.kfArrayRange [s0, s1] = ok (Funcs.Range.rangeStage s0 s1 (Stage.lit (ascii "1"))) ∧
    Funcs.Range.kfArrayRange [s0, s1, s2] = ok (Funcs.Range.rangeStage s0 s1 s2) :=
  ⟨rangeStage_length c s0 s1 s2 out h, rfl, rfl, rfl⟩

/-- **`{repeat}` answers at most 1 MiB**: for every pattern and every parsed count the closure's answer
    (`repeat_eq_model`) is the marker or at most `maxRepeatBytes` bytes. -/
theorem repeat_output_bound (char : Bytes) (count : Int) (hl : (char.length : Int) ≤ maxInt64) :
    (repeatAns char count).length ≤ 1048576 := by
  unfold repeatAns
  split
  · rw [errorValue_length]; omega
  · rename_i hg
    split
    · simp
    · have hg' : Gen.C08.repeatGuard count char.length = false := by simpa using hg
      obtain ⟨h0, h1⟩ := (repeat_guard_exact count char.length (by omega) hl).mp hg'
      rw [repeatB_length]
      unfold Gen.C08.maxRepeatBytes at h1
      have : ((char.length * count.toNat : Nat) : Int) = count * char.length := by
        rw [Int.natCast_mul, Int.toNat_of_nonneg h0, Int.mul_comm]
      omega

/-- **`{@for}` is linear in its rounds unless the increment feeds on itself**: when the start value and every
    value the increment expression returns (in the sub-context of any previous value and round number) are at
    most `B` bytes, the result is at most `(B + 1) * (MAX_ITERATIONS + 1) + 5` bytes. -/
theorem for_output_bound (c : Ctx) (a0 cond incr : Stage) (B : Nat) (out : Bytes)
    (h0 : ∀ v, a0.run c = .ok v → v.length ≤ B)
    (hB : ∀ v i o, (incr.withSub v i).run c = .ok o → o.length ≤ B)
    (h : (Funcs.Range.forStage a0 cond incr).run c = .ok out) :
    out.length ≤ (B + 1) * (Gen.maxIterations + 1) + 5 := by
  unfold Funcs.Range.forStage at h
  rw [run_bind'] at h
  split at h
  · rename_i v hv
    have := forLoop_length c cond incr B hB _ v 0 {} out (h0 v hv) (by omega) h
    simpa using this
  · cases h

-- `dblIncr` (the increment `{0}{0}`: the previous value twice) and `untilRound n` (a condition that holds until
-- round `n`) are defined in Proofs/C08Doubling.lean.

/-- **The remaining family**: an increment whose value is not bounded by any `B` - it returns its own previous value
    twice - makes `{@for}` answer `2^n - 1` bytes (and `n - 1` separators) after `n` rounds: 12 rounds from one
    byte give 4106 bytes, and every further round doubles that (`{@for a "{lt {1} 40}" "{0}{0}"}` is the recorded
    out-of-memory witness; `{@reduce … "{0}{0}"}` is the same family).  The hypothesis `hB` of `for_output_bound`
    fails for this increment at every `B`. -/
theorem for_doubling_counterexample :
    (((Funcs.Range.forStage (.ret [97]) (untilRound 12) dblIncr).run ⟨fun _ => [], fun _ => []⟩).toOption.map List.length)
      = some (2 ^ 12 - 1 + 11) ∧
    (∀ B : Nat, ∃ v i o, (dblIncr.withSub v i).run ⟨fun _ => [], fun _ => []⟩ = .ok o ∧ o.length > B) := by
  refine ⟨by decide +kernel, ?_⟩
  intro B
  refine ⟨List.replicate (B + 1) 97, [], List.replicate (B + 1) 97 ++ List.replicate (B + 1) 97, rfl, ?_⟩
  simp only [List.length_append, List.length_replicate]; omega

/-- **`{@filter}` never grows its input**: for every context, every array expression and every predicate expression
    that cannot panic, the answer has at most as many bytes as the array value (it is the array's own elements, a
    sub-list, re-joined). -/
theorem filter_output_bound (c : Ctx) (a0 a1 : Stage) (h0 : Safe a0) (h1 : Safe a1) :
    ∃ arr out, a0.run c = .ok arr ∧ (Funcs.Range.filterStage a0 a1).run c = .ok out ∧ out.length ≤ arr.length :=
  filterStage_length c a0 a1 h0 h1

/-- **`{@map}` is linear in its elements**: if every value of the mapped expression (evaluated with `{0}` = an
    element) has at most `B` bytes, the answer has fewer than `n·(B+1)` bytes, `n` = the number of elements
    (`≤ len(array) + 1`).  Together with `range_output_bound`, `repeat_output_bound`, `for_output_bound` and
    `filter_output_bound` this leaves exactly the accumulator family (`@reduce` / `@for` with an increment that
    returns its own previous value: `for_doubling_all`) without a bound. -/
theorem map_output_bound (c : Ctx) (a0 a1 : Stage) (h0 : Safe a0) (h1 : Safe a1) (B : Nat)
    (hB : ∀ v0 v1 o, a1.run (C17.subCtx c v0 v1) = .ok o → o.length ≤ B) :
    ∃ arr out, a0.run c = .ok arr ∧ (Funcs.Range.mapStage a0 a1).run c = .ok out ∧
      out.length + 1 ≤ (C17.elems arr).length * (B + 1) ∧ (C17.elems arr).length ≤ arr.length + 1 :=
  mapStage_length c a0 a1 h0 h1 B hB

/-- **`{@reduce}` answers an accumulator value**: the initial value, the first element, or the last value of the
    reducer - at most `max B (max |init| |array|)` bytes when every value of the reducer has at most `B` bytes (for
    every context, initial value, array expression and reducer that cannot panic).  The unbounded case is a reducer
    whose value grows with its own argument (`{0}{0}`), `for_doubling_all`. -/
theorem reduce_output_bound (c : Ctx) (init : Bytes) (a0 a1 : Stage) (h0 : Safe a0) (h1 : Safe a1) (B : Nat)
    (hB : ∀ v0 v1 o, a1.run (C17.subCtx c v0 v1) = .ok o → o.length ≤ B) :
    ∃ arr out, a0.run c = .ok arr ∧ (Funcs.Range.reduceStage init a0 a1).run c = .ok out ∧
      out.length ≤ max B (max init.length arr.length) :=
  reduceStage_length c init a0 a1 h0 h1 B hB

/-- non-vacuity: `{@map {0} "[{0}]"}`-like stage - the mapped value of a 3-byte-bounded element expression -/
example : ∃ arr out, (Comp.match_ 0).run ⟨fun _ => [97, 0, 98, 99], fun _ => []⟩ = .ok arr ∧
    (Funcs.Range.mapStage (Comp.match_ 0) (.ret [120, 121, 122])).run ⟨fun _ => [97, 0, 98, 99], fun _ => []⟩ = .ok out ∧
    out.length + 1 ≤ (C17.elems arr).length * (3 + 1) ∧ (C17.elems arr).length ≤ arr.length + 1 :=
  map_output_bound _ _ _ (Safe.match_ 0) (.ret _) 3 (fun _ _ o h => by
    have : o = [120, 121, 122] := by injection h with h; exact h.symm
    subst this; decide)

/-- **Doubling for every round count** (round 4 had the instance `n = 12`): for every start value `s`, every
    `n ≤ MAX_ITERATIONS` and every context, `{@for s <until round n> "{0}{0}"}` returns, and its answer has exactly
    `|s|·(2^n − 1)` bytes of values plus `n − 1` separators – the size of the answer is exponential in a number the
    template author writes in decimal, which no per-helper cap bounds (known finding `oom-accumulator`). -/
theorem for_doubling_all (c : Ctx) (s : Bytes) (n : Nat) (hn : n ≤ Gen.maxIterations) :
    ∃ out, (Funcs.Range.forStage (.ret s) (untilRound n) dblIncr).run c = .ok out ∧
      out.length + s.length + (if 0 < n then 1 else 0) = s.length * 2 ^ n + n :=
  forStage_doubling c s n hn

example : ∃ out, (Funcs.Range.forStage (.ret [97]) (untilRound 40) dblIncr).run ⟨fun _ => [], fun _ => []⟩ = .ok out ∧
    out.length = 2 ^ 40 - 1 + 39 := by
  obtain ⟨out, h, hl⟩ := for_doubling_all ⟨fun _ => [], fun _ => []⟩ [97] 40 (by decide)
  refine ⟨out, h, ?_⟩
  simp at hl
  omega

end Rare.C08
