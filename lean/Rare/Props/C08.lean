import Rare.Proofs.C08
import Rare.Proofs.C08Logic
import Rare.Proofs.C08Arith
import Rare.Proofs.C08Strings
import Rare.Proofs.C08Misc
import Rare.Proofs.C08Range
import Rare.Proofs.C08Math
import Rare.Model.Expr.Std
import Rare.Gen.Tables
/-!
# C08 — no template and no input line can crash expression compilation or evaluation

`Safe c`: no panic is reachable in the stage `c` whatever the context answers.  `SafeBuilder b`: on
safe argument stages the builder neither panics at compile time nor returns a stage that can.

* `compile_total`, `eval_total` hold for EVERY registry of safe builders (so also for user functions
  and helpers written later): every template – well formed or not, any length, any nesting – compiles,
  with or without optimisation (no panic, and the recursion always returns), and evaluating the result
  against any context returns a string.
* `std_safe`: every modelled helper of `stdlib.StandardFunctions` is a safe builder (proved per
  family); `functions_covered` (over the table regenerated from /repo): every Go helper is either in
  that set or in the explicit list of helpers outside the model, whose panic-freedom rests on the
  library they wrap and on the correspondence run only.
-/
namespace Rare.C08
open Rare.Expr

/-- Helpers whose builder can answer `unmodelled` (float-valued arithmetic, non-ASCII case mapping, unit
    scaling that needs float rounding, the float rendering of `{! …}`): outside the theorems below. -/
def unmodelledNames : List String :=
  Funcs.Arith.arithUnmodelled ++ Funcs.Strings.stringsUnmodelled ++ Funcs.Misc.miscUnmodelled ++
  Funcs.Range.rangeUnmodelled ++ Funcs.Math.mathUnmodelled

/-- The modelled helpers that are proved panic-free. -/
def safeTable : Table := stdTable.filter fun p => !unmodelledNames.contains p.1

theorem std_safe : ∀ p ∈ safeTable, SafeBuilder p.2 := by
  intro p hp
  obtain ⟨hmem, hnot⟩ := List.mem_filter.mp hp
  have hn : p.1 ∉ unmodelledNames := by
    intro h; simp at hnot; exact hnot h
  have hn' : ∀ l : List String, (∀ x ∈ l, x ∈ unmodelledNames) → p.1 ∉ l := fun l hl h => hn (hl _ h)
  simp only [stdTable, List.mem_append] at hmem
  rcases hmem with (((((h | h) | h) | h) | h) | h) | h
  · exact Funcs.Logic.logic_safe p h
  · exact Funcs.Arith.arith_safe p h (hn' _ fun x hx => by simp [unmodelledNames, hx])
  · exact Funcs.Strings.strings_safe p h (hn' _ fun x hx => by simp [unmodelledNames, hx])
  · exact Funcs.Range.range_safe p h (hn' _ fun x hx => by simp [unmodelledNames, hx])
  · exact Funcs.Math.math_safe p h (hn' _ fun x hx => by simp [unmodelledNames, hx])
  · simp [Funcs.Time.table] at h
  · exact Funcs.Misc.misc_safe p h (hn' _ fun x hx => by simp [unmodelledNames, hx])

/-- The registry of the proved-safe helpers. -/
def safeRegistry : Registry := mkRegistry safeTable []

theorem safeRegistry_safe : SafeRegistry safeRegistry := by
  intro name b h
  unfold safeRegistry mkRegistry at h
  dsimp only at h
  split at h
  · rename_i b' hb
    simp only [Option.some.injEq] at h
    subst h
    unfold lookupTable at hb
    cases hf : safeTable.find? (fun x => x.1 == String.ofList name) with
    | none => simp [hf] at hb
    | some p =>
      simp [hf] at hb
      subst hb
      exact std_safe p (List.mem_of_find?_eq_some hf)
  · simp at h

/-- **Compilation never crashes and always returns** – for any registry of safe builders, any
    template, with or without optimisation; every compiled stage is panic-free. -/
theorem compile_total (reg : Registry) (hreg : SafeRegistry reg) (opt : Bool) (t : List Char) :
    ∃ stages errs, compile reg opt t = .ok (stages, errs) ∧ ∀ s ∈ stages, Safe s :=
  Rare.Expr.compile_total reg hreg opt t

/-- **Evaluation never crashes** – any compiled expression against any match context (arbitrary bytes,
    any number of groups, missing keys) returns a string. -/
theorem eval_total (reg : Registry) (hreg : SafeRegistry reg) (opt : Bool) (t : List Char) (ctx : Ctx) :
    ∃ stages errs v, compile reg opt t = .ok (stages, errs) ∧ (buildKey stages).run ctx = .ok v :=
  Rare.Expr.eval_total reg hreg opt t ctx

/-- The two theorems instantiated with the standard helpers that are modelled. -/
theorem std_compile_eval_total (opt : Bool) (t : List Char) (ctx : Ctx) :
    ∃ stages errs v, compile safeRegistry opt t = .ok (stages, errs) ∧ (buildKey stages).run ctx = .ok v :=
  eval_total safeRegistry safeRegistry_safe opt t ctx

/-- User functions preserve panic-freedom: a funcs-file function whose body is safe is a safe builder
    (so `compile_total`/`eval_total` extend to any definitions file over safe helpers). -/
theorem user_function_safe (body : List Stage) (hb : ∀ s ∈ body, Safe s) :
    SafeBuilder (C10.userFunction body) := by
  intro args hargs
  refine ⟨_, rfl, fun s hs => ?_⟩
  simp only [Option.some.injEq] at hs
  subst hs
  have hbody : Safe (buildKey body) := Safe.concat hb
  generalize buildKey body = c at hbody
  induction hbody with
  | ret a => exact .ret a
  | getKey k f _ ih => exact .getKey _ _ ih
  | getMatch i f _ ih =>
    simp only [C10.withArgs]
    split
    · exact .getMatch _ _ ih
    split
    · exact ih _
    · rename_i h0 h1
      have hlt : i.toNat < args.length := by omega
      have : Safe (args.getD i.toNat (.ret [])) := by
        rw [List.getD_eq_getElem?_getD, List.getElem?_eq_getElem hlt]
        exact hargs _ (List.getElem_mem hlt)
      exact Safe.bind this ih

/-- Every helper of `stdlib.StandardFunctions` (names regenerated from /repo) is accounted for: it is
    either proved panic-free or listed as outside the model.  A helper added to the Go table makes
    this fail. -/
theorem functions_covered :
    Gen.stdFunctionNames.all (fun n =>
      (safeTable.map (·.1)).contains n || unmodelledNames.contains n ||
      ["format", "json", "color", "bar", "load", "time", "timeformat", "timeattr", "buckettime", "duration",
       "durationformat"].contains n) = true := by decide

/-- Non-vacuity: a malformed template with stray braces, a trailing backslash and an unknown function
    compiles (reporting errors) and evaluates. -/
example : ∃ stages errs v, compile safeRegistry true "{sumi {0} x} }{ {nofn 1} \\".toList = .ok (stages, errs) ∧
    (buildKey stages).run ⟨fun _ => [], fun _ => []⟩ = .ok v :=
  std_compile_eval_total true _ _

end Rare.C08
