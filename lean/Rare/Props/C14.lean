import Rare.Proofs.C14Log
import Rare.Proofs.C14Legend
import Rare.Proofs.C14LegendF64
import Rare.Proofs.C14Reduce
import Rare.Gen.C14
/-!
# C14 – Renderers never crash and draw quantities proportionally within bounds

Property theorems about `Rare/Model/C14.lean` (+ `C14Format.lean`), the model of the code AFTER the repairs
b2c2a9f (stacked bars, running maximum 0), 7206d40 (bar length overflow), 0b7fa09 (stacked bar with
negative values), a20c03a (aliased value slices), b1ca348 (heatmap header loop), 9780d5d (spark with
no columns), 6408ebf (inverted remapped range), c54b92c (sparkline header measured in bytes),
73473fc (reduce table: group key with more parts than group columns), 7b183e0 (histogram refresh skipped
rows with a value ≤ 0), f0d0278 (histogram / bar graph key column padded in runes but measured in visible characters),
cde79bf (bar graph: a key that widens the key column did not re-draw the rows already written),
4855857 (histogram: `WriteForLine(len(items), …)` indexed out of range – the guard was `line > len(items)`).

Numbers: the model is polymorphic in the `float64` operations (`Arith α`).  Two instances carry theorems:
ℚ (`ratArith L2 L10`: exact conversion and `+ - * /`, abstract logarithms only assumed monotone and
non-negative above 1, `LogLike`) and IEEE-754 binary64 (`f64Arith`, the software model `Rare.F64` of
`Base/F64.lean`: every operation of `scale.go` with its rounding; `math.Log2/Log10` parameters assumed
`LogLikeF64`).  The scaler, palette and bar theorems are proved for BOTH (`…_f64` next to the ℚ ones); the
renderer invariants of round 2 (histogram, bar graph) are proved once for every instance satisfying
`UnitLaws`, which both do (`float_laws_rat`, `float_laws_f64`).  The driver computes with the binary64
instance, so the correspondence compares the theorems' own definitions with Go bit for bit.

Tables and constants are the regenerated ones (`Rare.Gen.C14`): `tables_match_source` pins the
hand copies used by the model to them, `bucket_in_range` is stated over the generated call-site list,
`guards_match_source` / `render_code_matches_source` pin guard chains, formatter call arguments, the
closure of `termformat.FromExpression`, the reduce-table guard and the sparkline header measure.

Sections: ties to the source · scaler laws over ℚ · scaler laws on binary64 · bars · layout (header loop, cells) ·
table columns line up (every `WriteRow`/`WriteFooter` sequence) · formatters and displayed numbers · histogram and
bar graph as whole renderers (redraw invariant, every row at the current scale, grouped-bars line, heatmap row
width) · data table / reduce table · heatmap and sparkline as whole renderers · "(n more)" arithmetic ·
non-vacuity examples.
-/
namespace Rare.C14
open Rare Rare.C20

/-! ## ties to the source (regenerated on every run) -/

/-- the glyph tables and colour constants the model uses are the ones in /repo -/
theorem tables_match_source :
    barUnicode = Gen.C14.barUnicode ∧ barAscii = Gen.C14.barAscii ∧
    sparkBlocks = Gen.C14.sparkBlocks ∧ sparkAscii = Gen.C14.sparkAscii ∧
    heatmapColors = Gen.C14.heatmapColors ∧ heatmapAscii = Gen.C14.heatmapAscii ∧
    groupColors = Gen.C14.GroupColors ∧
    fullBlock = Gen.C14.fullBlock ∧ nonUnicodeBlock = Gen.C14.nonUnicodeBlock ∧ heatmapNonUnicode = Gen.C14.heatmapNonUnicode ∧
    barUnicodePartCount = Gen.C14.barUnicodePartCount ∧
    cReset = Gen.C14.cReset ∧ cYellow = Gen.C14.cYellow ∧ cBlue = Gen.C14.cBlue ∧ cCyan = Gen.C14.cCyan ∧
    cBrightBlack = Gen.C14.cBrightBlack ∧ cBrightBlue = Gen.C14.cBrightBlue ∧ cBrightCyan = Gen.C14.cBrightCyan ∧
    cBrightWhite = Gen.C14.cBrightWhite ∧ cUnderline = Gen.C14.cUnderline ∧ Gen.C14.escapeRune = 27 := by
  decide +kernel

/-- the guard chains the model mirrors are the ones in /repo (printed conditions, in order), and the
layout constants are the modelled ones -/
theorem guards_match_source :
    Gen.C14.scaleGuards = ["max < min", "val < min", "val > max", "minf10 >= maxf10"] ∧
    Gen.C14.remapGuards = ["max <= min"] ∧
    Gen.C14.barRunesGuards = ["maxVal <= 0", "val > maxVal", "val <= 0 || maxLen <= 0"] ∧
    Gen.C14.histoTextSpacing = 16 ∧ Gen.C14.histoBarWidth = 50 ∧ Gen.C14.barsMaxKeyLength = 4 ∧
    Gen.C14.barsBarSize = 50 ∧ Gen.C14.heatDelimCount = 2 := by
  decide

/-- what the model assumes about the code around the formatter, the reduce table loop and the sparkline
header, read off /repo on every run: the arguments of every `Formatter(…)` call of the five renderers
(value, then the range each renderer passes), the closure `termformat.FromExpression` returns (it
overwrites the whole context and builds the key – no other statement, nothing captured but the compiled
key and that context), the guard that keeps the reduce table's group cells inside the group columns
(73473fc), and the visible-width measure of the sparkline header (c54b92c) -/
theorem render_code_matches_source :
    Gen.C14.histoFormatCalls = ["val, 0, s.maxVal"] ∧
    Gen.C14.barsFormatCalls = ["vals[i], 0, s.maxLineVal", "total, 0, s.maxLineVal"] ∧
    Gen.C14.tableFormatCalls = ["row.Value(colName), min, max", "row.Sum(), min, max", "counter.ColTotal(colName), min, max", "sum, min, max"] ∧
    Gen.C14.heatFormatCalls = ["item, min, max"] ∧
    Gen.C14.sparkFormatCalls = ["row.Value(colNames[0]), minVal, maxVal", "row.Value(colNames[len(colNames)-1]), minVal, maxVal"] ∧
    Gen.C14.fromExpressionClosure = ["*ctx = formatExpressionContext{val, min, max}", "return kb.BuildKey(ctx)"] ∧
    Gen.C14.fromExpressionState = ["kb, err := expandCompileExpression(expr)", "ctx := &formatExpressionContext{}"] ∧
    Gen.C14.reduceGroupGuards = ["aggr.GroupColCount() > 0 || table", "idx >= aggr.GroupColCount()"] ∧
    Gen.C14.sparkHeaderDots = ["len(colNames) - color.StrLen(colNames[0]) - color.StrLen(colNames[len(colNames)-1])"] := by
  decide

/-- the float computation the binary64 theorems are about is the one in /repo, statement by statement (printed
bodies, regenerated on every run): `Scale` (three guards, the remapped ends, the degenerate-range guard, the
quotient of the two differences), `remapMinMax` (`max = min + 1` in int64, `Floor`/`Ceil` of the mapped ends),
`Bucket` / `LengthVal` (`int(u * float64(n))`), the `mapVal` closures (`f <= 1.0 → 0.0`, else the logarithm), and the
refresh loop of the histogram (every line that was written, 7b183e0) – `scale`, `remapMinMax`, `mapVal`, `bucket`,
`lengthVal` of the model with `f64Arith` perform exactly these operations, each with IEEE rounding -/
theorem scale_code_matches_source :
    Gen.C14.scaleBody = ["if max < min { return 0.0 }", "if val < min { return 0.0 }", "if val > max { return 1.0 }",
      "minf10, maxf10 := s.remapMinMax(min, max)", "if minf10 >= maxf10 { return 0.0 }",
      "return (s.mapVal(float64(val)) - minf10) / (maxf10 - minf10)"] ∧
    Gen.C14.remapBody = ["if max <= min { max = min + 1 }", "return math.Floor(s.mapVal(float64(min))), math.Ceil(s.mapVal(float64(max)))"] ∧
    Gen.C14.bucketBody = ["return int(unitVal * float64(buckets-1))"] ∧
    Gen.C14.lengthValBody = ["return int(unitVal * float64(maxLen))"] ∧
    Gen.C14.mapLinearBody = ["return f"] ∧
    Gen.C14.mapLog2Body = ["if f <= 1.0 { return 0.0 }", "return math.Log2(f)"] ∧
    Gen.C14.mapLog10Body = ["if f <= 1.0 { return 0.0 }", "return math.Log10(f)"] ∧
    Gen.C14.histoFullRenderBody = ["for idx, item := range s.items { if item.set { s.writeLine(idx, item.key, item.val) } }"] := by
  decide

/-- the code of the key column is the modelled one (printed statements, regenerated on every run): `padVisible` pads by
`color.StrLen` (`padVis`); the three key cells are `color.Wrap(color.Yellow, padVisible(key, <column width>))`;
`HistoWriter.WriteForLine` widens `textSpacing` by `color.StrLen(key)` and re-renders everything when the key column or the
maximum grew; `BarGraph.WriteBar` sets `redraw` when `color.StrLen(key)` widens `maxKeyLength` (cde79bf) or the row raises
the running maximum, and then re-draws every stored row -/
theorem key_column_code_matches_source :
    Gen.C14.padVisibleBody = ["if pad := width - color.StrLen(s); pad > 0 { return s + strings.Repeat(\" \", pad) }", "return s"] ∧
    Gen.C14.keyCellCalls = ["color.Wrap(color.Yellow, padVisible(key, s.textSpacing))", "color.Wrap(color.Yellow, padVisible(key, s.maxKeyLength))",
      "color.Wrap(color.Yellow, padVisible(key, s.maxKeyLength))"] ∧
    Gen.C14.histoWriteForLineBody = ["if line >= len(s.items) { return }", "needsFullRefresh := false",
      "if klen := color.StrLen(key); klen > s.textSpacing { s.textSpacing = klen needsFullRefresh = true }",
      "if val > s.maxVal { s.maxVal = val needsFullRefresh = true }", "s.items[line] = histoPair{ key: key, val: val, set: true, }",
      "if needsFullRefresh { s.fullRender() } else { s.writeLine(line, key, val) }"] ∧
    Gen.C14.barsWriteBarBody = ["redraw := false", "if klen := color.StrLen(key); klen > s.maxKeyLength { s.maxKeyLength = klen redraw = true }",
      "for idx >= len(s.rows) { s.rows = append(s.rows, barGraphPair{}) }",
      "s.rows[idx] = barGraphPair{ name: key, vals: append([]int64(nil), vals...), }",
      "{ var max int64 if s.Stacked { max = sumPositive(vals...) } else { max = maxi64(vals...) } if max > s.maxLineVal { s.maxLineVal = max redraw = true } }",
      "if redraw { for idx, row := range s.rows { s.writeBar(idx, row.name, row.vals...) } } else { s.writeBar(idx, key, vals...) }"] := by
  refine ⟨by decide +kernel, by decide +kernel, by decide +kernel, by decide +kernel⟩

/-- the code behind the `--scale` names and the legend line is the modelled one (printed statements, regenerated on every run):
`ScalerByName` switches on `strings.ToLower(name)` over exactly these names (`scalerByName`); `ScaleKeys` maps six equidistant
points of the remapped range back with `unmapVal` (identity / `math.Pow(2|10, f)`), truncates to int64 and drops consecutive
duplicates (`scaleKeys`, `rawKeys`, `dedupFrom`); `Heatmap.UpdateMinMax` writes the indentation, then per key a heat cell of
`Scale(key, min, max)`, a blank and `Formatter(key, min, max)` (`Heatmap.updateMinMax`, `heat_legend_line`).  (The printer
collapses runs of blanks inside string literals: the four blanks between legend entries print as one.) -/
theorem legend_code_matches_source :
    Gen.C14.scalerByNameBody = ["switch strings.ToLower(name) { case \"linear\", \"lin\", \"\": return ScalerLinear, true case \"log10\", \"log\": return ScalerLog10, true case \"log2\": return ScalerLog2, true }",
      "return ScalerNull, false"] ∧
    Gen.C14.scaleKeysBody = ["minf10, maxf10 := s.remapMinMax(min, max)", "ret := make([]int64, 0, buckets)",
      "for i := int64(0); i < buckets; i++ { val := int64(s.unmapVal((maxf10-minf10)*float64(i)/float64(buckets-1) + minf10)) if i == 0 || ret[len(ret)-1] != val { ret = append(ret, val) } }",
      "return ret"] ∧
    Gen.C14.unmapLinearBody = ["return f"] ∧ Gen.C14.unmapLog2Body = ["return math.Pow(2.0, f)"] ∧ Gen.C14.unmapLog10Body = ["return math.Pow(10.0, f)"] ∧
    Gen.C14.heatUpdateMinMaxBody = ["s.minVal = min", "s.maxVal = max", "var sb strings.Builder", "for i := 0; i < s.maxRowKeyWidth+1; i++ { sb.WriteRune(' ') }",
      "for idx, item := range s.Scaler.ScaleKeys(6, s.minVal, s.maxVal) { if idx > 0 { sb.WriteString(\" \") } termunicode.HeatWrite(&sb, s.Scaler.Scale(item, s.minVal, s.maxVal)) sb.WriteString(\" \") sb.WriteString(s.Formatter(item, min, max)) }",
      "s.term.WriteForLine(0, sb.String())"] := by
  refine ⟨by decide +kernel, by decide +kernel, by decide +kernel, by decide +kernel, by decide +kernel, by decide +kernel⟩

/-- the code of the reduce table's rows is the modelled one (printed statements, regenerated on every run): the render
callback of `reduceFunction` is the row loop and the two footers; the row loop ALLOCATES `rowBuf` for every group
(`make([]string, aggr.ColCount())`: all cells empty), overwrites at most `GroupColCount` cells with the parts of the key,
copies the data behind them and hands the buffer to `WriteRow` (`Reduce.rowCells`, `reduce_fresh_buffer`); nothing is
declared between `NewTable` and the aggregation loop – no buffer outlives a row (`reduce_shared_buffer_counterexample` is
what a hoisted one would show); `TableWriter.WriteRow` drops rows beyond `maxRows`, stores the cells it was given,
widens the columns by `color.StrLen` and re-draws every active row when one grew (`TableWriter.writeRow` of the model),
`writeRow` pads every displayed cell to its column by `color.StrLen` plus one blank -/
theorem reduce_code_matches_source :
    Gen.C14.reduceRenderBody = ["for i, group := range aggr.Groups(sorter) { rowBuf := make([]string, aggr.ColCount()) data := aggr.Data(group) for idx, item := range group.Parts() { if idx >= aggr.GroupColCount() { break } rowBuf[idx] = color.Wrap(color.BrightWhite, item) } copy(rowBuf[aggr.GroupColCount():], data) table.WriteRow(i+1, rowBuf...) }",
      "table.WriteFooter(0, helpers.FWriteExtractorSummary(extractor, aggr.ParseErrors(), fmt.Sprintf(\"(R: %d; C: %d)\", aggr.DataCount(), aggr.ColCount())))",
      "table.WriteFooter(1, batcher.StatusString())"] ∧
    Gen.C14.reduceRowLoopBody = ["rowBuf := make([]string, aggr.ColCount())", "data := aggr.Data(group)",
      "for idx, item := range group.Parts() { if idx >= aggr.GroupColCount() { break } rowBuf[idx] = color.Wrap(color.BrightWhite, item) }",
      "copy(rowBuf[aggr.GroupColCount():], data)", "table.WriteRow(i+1, rowBuf...)"] ∧
    Gen.C14.reduceHoistedDecls = [] ∧
    Gen.C14.tableWriteRowBody = ["if rowNum >= s.maxRows { return }", "if rowNum >= s.activeRows { s.activeRows = rowNum + 1 }",
      "s.rows[rowNum] = cols", "needFullUpdate := false",
      "for i := 0; i < len(cols) && i < s.maxCols; i++ { runeLen := color.StrLen(cols[i]) if runeLen > s.colWidth[i] { s.colWidth[i] = runeLen needFullUpdate = true } }",
      "if needFullUpdate { for i := 0; i < s.activeRows; i++ { s.writeRow(i, s.rows[i]...) } } else { s.writeRow(rowNum, cols...) }"] ∧
    Gen.C14.tableWriteRowInnerBody = ["var sb strings.Builder",
      "for i := 0; i < len(cols) && i < s.maxCols; i++ { runeLen := color.StrLen(cols[i]) sb.WriteString(cols[i]) for j := 0; j < s.colWidth[i]-runeLen; j++ { sb.WriteRune(' ') } sb.WriteRune(' ') }",
      "s.term.WriteForLine(rowNum, sb.String())"] := by
  refine ⟨by decide +kernel, by decide +kernel, by decide +kernel, by decide +kernel, by decide +kernel⟩

/-- the `--scale` names (`termscaler.ScalerByName`, compared with the real function on generated names by op `scname`): the six
accepted spellings in any case – also `LİN` (Go lower-cases U+0130 to `i`) –, and nothing else: not a prefix, not a name
with blanks, not invalid UTF-8 -/
theorem scaler_names_table :
    (["linear", "lin", "", "LINEAR", "Lin", "lInEaR"].map fun n => scalerByName n.toUTF8.toList) = List.replicate 6 (some .linear) ∧
    (["log10", "log", "LOG", "Log10"].map fun n => scalerByName n.toUTF8.toList) = List.replicate 4 (some .log10) ∧
    (["log2", "LOG2", "lOg2"].map fun n => scalerByName n.toUTF8.toList) = List.replicate 3 (some .log2) ∧
    scalerByName "LİN".toUTF8.toList = some .linear ∧
    (["ln", "log1", "log 2", " log2", "linea", "linearr", "none", "loK", "l\u0131n"].map fun n => scalerByName n.toUTF8.toList) = List.replicate 9 none ∧
    scalerByName (ascii "log" ++ [0xff]) = none := by
  decide +kernel

/-! ## scaler laws (∀ val, min, max) -/

/-- `Scale` lies in `[0,1]` for all integers (in particular all of int64), every scaler -/
theorem scale_unit_interval {L2 L10 : Rat → Rat} (h2 : LogLike L2) (h10 : LogLike L10) (k : Scaler) (val min max : Int) :
    Spec.UnitInterval (scale (ratArith L2 L10) k val min max) :=
  scale_bounds h2 h10 k val min max

/-- `Scale` is monotone in the value -/
theorem scale_monotone {L2 L10 : Rat → Rat} (h2 : LogLike L2) (h10 : LogLike L10) (k : Scaler) (val val' min max : Int)
    (h : val ≤ val') : scale (ratArith L2 L10) k val min max ≤ scale (ratArith L2 L10) k val' min max :=
  scale_mono h2 h10 k min max h

/-- every palette lookup in `HeatWrite` / `SparkWrite`: the index `Bucket(N, u)` computed for a unit
value is inside the table it indexes (sizes and tables as found in /repo) -/
theorem bucket_in_range {L2 L10 : Rat → Rat} (site : Nat × Nat) (hs : site ∈ Gen.C14.heatBucketSites ++ Gen.C14.sparkBucketSites)
    (u : Rat) (hu : Spec.UnitInterval u) :
    0 ≤ bucket (ratArith L2 L10) site.1 u ∧ bucket (ratArith L2 L10) site.1 u < site.2 := by
  have hsite : site.1 = site.2 ∧ 1 ≤ (site.1 : Int) := by
    revert site; decide
  have := bucket_bounds (L2 := L2) (L10 := L10) hu.1 hu.2 (n := (site.1 : Int)) hsite.2
  rw [← hsite.1]; exact this

/-- heat and spark cells never panic, for every value, range and scaler -/
theorem heat_spark_no_panic {L2 L10 : Rat → Rat} (h2 : LogLike L2) (h10 : LogLike L10) (env : Env) (k : Scaler) (val min max : Int) :
    (∃ b, heatWrite (ratArith L2 L10) env (scale (ratArith L2 L10) k val min max) = .ok b) ∧
    (∃ b, sparkWrite (ratArith L2 L10) env (scale (ratArith L2 L10) k val min max) = .ok b) := by
  obtain ⟨a, b⟩ := scale_bounds h2 h10 k val min max
  exact ⟨heatWrite_ok env a b, sparkWrite_ok env a b⟩

/-! ## scaler laws on IEEE-754 binary64 (the computation `scale.go` performs, rounding included)

`f64Arith L2 L10 P2 P10` (`Rare/Model/C14F64.lean`) instantiates the `float64` operations of the model with the
software binary64 of `Rare/Base/F64.lean`: `float64(int64)`, `-`, `/`, `*` round to nearest even,
`math.Floor/Ceil`, `<=` with NaN unordered, `int(f)` as on amd64.  `scale (f64Arith …) k v mn mx` is the exact
sequence of operations of `Scaler.Scale`; the driver evaluates these definitions against Go bit for bit.
`I64 i` says `i` is an int64; `UnitF64 u` says `u` is a FINITE float whose value lies in `[0,1]`; for finite
floats the IEEE order is the order of the values (`Props/C11.lean` `f64_order_is_value_order`).
`math.Log2/Log10` are parameters assumed `LogLikeF64` (finite and monotone on `[1,∞)`, `log 1 = 0`). -/

/-- `scale_unit_interval_f64`: for EVERY int64 triple and every scaler the float `Scale` returns is finite
(never NaN, never ±Inf), `0.0 <= it <= 1.0` in the IEEE order, and its exact value lies in `[0,1]` -/
theorem scale_unit_interval_f64 {L2 L10 P2 P10 : F64 → F64} (h2 : LogLikeF64 L2) (h10 : LogLikeF64 L10) (k : Scaler) (val min max : Int)
    (hv : I64 val) (hmn : I64 min) (hmx : I64 max) :
    let r := scale (f64Arith L2 L10 P2 P10) k val min max
    r.isFinite = true ∧ r.isNaN = false ∧ F64.le (F64.ofInt 0) r = true ∧ F64.le r (F64.ofInt 1) = true ∧
      0 ≤ r.toRat ∧ r.toRat ≤ 1 := by
  intro r
  have h := scale_f64_unit (P2 := P2) (P10 := P10) h2 h10 k hv hmn hmx
  exact ⟨h.1, h.order.1, h.order.2.1, h.order.2.2, h.2.1, h.2.2⟩

/-- the linear scaler (the default) needs no assumption at all: it never calls a logarithm -/
theorem scale_linear_unit_interval_f64 (L2 L10 P2 P10 : F64 → F64) (val min max : Int) (hv : I64 val) (hmn : I64 min) (hmx : I64 max) :
    let r := scale (f64Arith L2 L10 P2 P10) .linear val min max
    r.isFinite = true ∧ r.isNaN = false ∧ F64.le (F64.ofInt 0) r = true ∧ F64.le r (F64.ofInt 1) = true ∧
      0 ≤ r.toRat ∧ r.toRat ≤ 1 := by
  intro r
  have h := scale_linear_f64_unit (L2 := L2) (L10 := L10) (P2 := P2) (P10 := P10) hv hmn hmx
  exact ⟨h.1, h.order.1, h.order.2.1, h.order.2.2, h.2.1, h.2.2⟩

/-- `scale_monotone_f64`: a larger value never gives a smaller float (IEEE order and exact values), every int64
range, every scaler – also across the guards (below the range: `0.0`, above: `1.0`) -/
theorem scale_monotone_f64 {L2 L10 P2 P10 : F64 → F64} (h2 : LogLikeF64 L2) (h10 : LogLikeF64 L10) (k : Scaler) (val val' min max : Int)
    (hv : I64 val) (hv' : I64 val') (hmn : I64 min) (hmx : I64 max) (h : val ≤ val') :
    F64.le (scale (f64Arith L2 L10 P2 P10) k val min max) (scale (f64Arith L2 L10 P2 P10) k val' min max) = true ∧
    (scale (f64Arith L2 L10 P2 P10) k val min max).toRat ≤ (scale (f64Arith L2 L10 P2 P10) k val' min max).toRat := by
  have m := scale_f64_mono (P2 := P2) (P10 := P10) h2 h10 k hv hv' hmn hmx h
  exact ⟨(F64.le_iff_toRat_le (scale_f64_unit h2 h10 k hv hmn hmx).1 (scale_f64_unit h2 h10 k hv' hmn hmx).1).mpr m, m⟩

theorem scale_linear_monotone_f64 (L2 L10 P2 P10 : F64 → F64) (val val' min max : Int)
    (hv : I64 val) (hv' : I64 val') (hmn : I64 min) (hmx : I64 max) (h : val ≤ val') :
    F64.le (scale (f64Arith L2 L10 P2 P10) .linear val min max) (scale (f64Arith L2 L10 P2 P10) .linear val' min max) = true ∧
    (scale (f64Arith L2 L10 P2 P10) .linear val min max).toRat ≤ (scale (f64Arith L2 L10 P2 P10) .linear val' min max).toRat := by
  have m := scale_linear_f64_mono (L2 := L2) (L10 := L10) (P2 := P2) (P10 := P10) hv hv' hmn hmx h
  exact ⟨(F64.le_iff_toRat_le (scale_linear_f64_unit hv hmn hmx).1 (scale_linear_f64_unit hv' hmn hmx).1).mpr m, m⟩

/-- what happens outside the range, bit for bit: an inverted range and a value below the range give `+0.0`, a
value above the range gives `1.0`; inside, the result is the guarded quotient of the two rounded differences
of the mapped value and the remapped (`Floor`/`Ceil`) ends -/
theorem scale_guards_f64 (L2 L10 P2 P10 : F64 → F64) (k : Scaler) (val min max : Int) :
    (max < min → scale (f64Arith L2 L10 P2 P10) k val min max = F64.zero false) ∧
    (¬ max < min → val < min → scale (f64Arith L2 L10 P2 P10) k val min max = F64.zero false) ∧
    (¬ max < min → val > max → scale (f64Arith L2 L10 P2 P10) k val min max = F64.one) ∧
    (min ≤ val → val ≤ max → scale (f64Arith L2 L10 P2 P10) k val min max =
      scaleCore (mapF L2 L10 P2 P10 k val) (F64.floor (mapF L2 L10 P2 P10 k min)) (F64.ceil (mapF L2 L10 P2 P10 k (upperEnd min max)))) := by
  refine ⟨fun g1 => ?_, fun g1 g2 => ?_, fun g1 g3 => ?_, fun a b => scale_f64_in_range k a b⟩
  · simp [scale, g1, f64Arith, ofInt_zero]
  · simp [scale, g1, g2, f64Arith, ofInt_zero]
  · have g2 : ¬ val < min := by omega
    simp [scale, g1, g2, g3, f64Arith, ofInt_one]

/-- why the degenerate-range guard is needed (cf. the seeded change C14-degenerate-range-nan): for
`min = max = 2^53` the widened end `float64(2^53 + 1)` rounds back to `2^53`, the remapped range is empty and
the unguarded quotient is `0/0 = NaN`; the guard returns `+0.0` -/
theorem scale_degenerate_guard_needed_f64 :
    let x := F64.ofInt 9007199254740992
    let a := F64.floor x
    let b := F64.ceil (F64.ofInt (upperEnd 9007199254740992 9007199254740992))
    (F64.div (F64.sub x a) (F64.sub b a)).isNaN = true ∧ scaleCore x a b = F64.zero false ∧
    scale (f64Arith id id id id) .linear 9007199254740992 9007199254740992 9007199254740992 = F64.zero false := by
  decide +kernel

/-- `bucket_in_range_f64`: every palette lookup of `HeatWrite` / `SparkWrite` (call sites and tables as found in
/repo) with a unit FLOAT: `int(u * float64(N-1))` is inside the table, and exactly `N-1` for `1.0` -/
theorem bucket_in_range_f64 {L2 L10 P2 P10 : F64 → F64} (site : Nat × Nat) (hs : site ∈ Gen.C14.heatBucketSites ++ Gen.C14.sparkBucketSites)
    (u : F64) (hu : UnitF64 u) :
    0 ≤ bucket (f64Arith L2 L10 P2 P10) site.1 u ∧ bucket (f64Arith L2 L10 P2 P10) site.1 u < site.2 ∧
    (u.toRat = 1 → bucket (f64Arith L2 L10 P2 P10) site.1 u = (site.2 : Int) - 1) := by
  have hsite : site.1 = site.2 ∧ 1 ≤ (site.1 : Int) ∧ (site.1 : Int) ≤ 9007199254740992 := by
    revert site; decide
  have := trunc_mul_f64 hu (n := (site.1 : Int) - 1) (by omega) (by omega)
  have e : bucket (f64Arith L2 L10 P2 P10) site.1 u = F64.toInt64 (F64.mul u (F64.ofInt ((site.1 : Int) - 1))) := rfl
  have h2 : (site.2 : Int) = site.1 := by rw [hsite.1]
  rw [e]
  exact ⟨this.1, by omega, fun h => by rw [this.2.2 h]; omega⟩

/-- `LengthVal(n, u)` on floats (`0 ≤ n ≤ 2^53`): in `[0, n]`, `n` for exactly `1.0`, monotone in `u` -/
theorem lengthval_bounds_f64 {L2 L10 P2 P10 : F64 → F64} (n : Int) (h0 : 0 ≤ n) (h1 : n ≤ 9007199254740992) (u v : F64) (hu : UnitF64 u) (hv : UnitF64 v) :
    0 ≤ lengthVal (f64Arith L2 L10 P2 P10) n u ∧ lengthVal (f64Arith L2 L10 P2 P10) n u ≤ n ∧
    (u.toRat = 1 → lengthVal (f64Arith L2 L10 P2 P10) n u = n) ∧
    (u.toRat ≤ v.toRat → lengthVal (f64Arith L2 L10 P2 P10) n u ≤ lengthVal (f64Arith L2 L10 P2 P10) n v) :=
  ⟨(trunc_mul_f64 hu h0 h1).1, (trunc_mul_f64 hu h0 h1).2.1, (trunc_mul_f64 hu h0 h1).2.2, fun huv => trunc_mul_f64_mono hu hv huv h0 h1⟩

/-- the two instances of the `float64` operations satisfy the laws every renderer theorem below asks for
(`UnitLaws`: `Scale` of integers in the domain is a unit value and monotone, `int(u * float64(n))` of a unit value
lies in `[0, n]` and is monotone for `n ≤ 2^53`): exact rationals with an abstract logarithm … -/
theorem float_laws_rat {L2 L10 : Rat → Rat} (h2 : LogLike L2) (h10 : LogLike L10) :
    UnitLaws (ratArith L2 L10) (fun _ => True) (fun u => 0 ≤ u ∧ u ≤ 1) (fun u v => u ≤ v) :=
  unitLaws_rat h2 h10

/-- … and IEEE-754 binary64 on int64 -/
theorem float_laws_f64 {L2 L10 P2 P10 : F64 → F64} (h2 : LogLikeF64 L2) (h10 : LogLikeF64 L10) :
    UnitLaws (f64Arith L2 L10 P2 P10) I64 UnitF64 (fun u v => u.toRat ≤ v.toRat) :=
  unitLaws_f64 h2 h10

/-- `barlen_bounds`, for every instance satisfying the laws (in particular binary64): `BarWrite(w, Scale(val, min, max), maxLen)`
never panics, writes at most `maxLen` glyphs, and a larger value never gives a shorter bar (`0 ≤ maxLen ≤ 10^15`) -/
theorem barlen_bounds {α : Type} {A : Arith α} {Dom : Int → Prop} {Unit : α → Prop} {le : α → α → Prop} (U : UnitLaws A Dom Unit le)
    (env : Env) (k : Scaler) (val val' min max maxLen : Int) (hv : Dom val) (hv' : Dom val') (hmn : Dom min) (hmx : Dom max)
    (hvv : val ≤ val') (hm : 0 ≤ maxLen) (hs : maxLen ≤ 1000000000000000) :
    ∃ g g', barWriteR A env (scale A k val min max) maxLen = .ok g ∧ barWriteR A env (scale A k val' min max) maxLen = .ok g' ∧
      (g.length : Int) ≤ maxLen ∧ (g'.length : Int) ≤ maxLen ∧ g.length ≤ g'.length := by
  have u := U.scale_unit k hv hmn hmx
  have u' := U.scale_unit k hv' hmn hmx
  obtain ⟨g, hg, hl⟩ := U.barWriteR_ok env u hm hs
  obtain ⟨g', hg', hl'⟩ := U.barWriteR_ok env u' hm hs
  have m := U.glyphCount_mono env u u' (U.scale_mono k hv hv' hmn hmx hvv) hm hs
  have b := (U.glyphCount_le env u hm hs).2
  have b' := (U.glyphCount_le env u' hm hs).2
  exact ⟨g, g', hg, hg', by omega, by omega, by omega⟩

/-- `barlen_bounds_f64`: the same on the real float computation, every int64 triple -/
theorem barlen_bounds_f64 {L2 L10 P2 P10 : F64 → F64} (h2 : LogLikeF64 L2) (h10 : LogLikeF64 L10) (env : Env) (k : Scaler)
    (val val' min max maxLen : Int) (hv : I64 val) (hv' : I64 val') (hmn : I64 min) (hmx : I64 max)
    (hvv : val ≤ val') (hm : 0 ≤ maxLen) (hs : maxLen ≤ 1000000000000000) :
    ∃ g g', barWriteR (f64Arith L2 L10 P2 P10) env (scale (f64Arith L2 L10 P2 P10) k val min max) maxLen = .ok g ∧
      barWriteR (f64Arith L2 L10 P2 P10) env (scale (f64Arith L2 L10 P2 P10) k val' min max) maxLen = .ok g' ∧
      (g.length : Int) ≤ maxLen ∧ (g'.length : Int) ≤ maxLen ∧ g.length ≤ g'.length :=
  barlen_bounds (unitLaws_f64 h2 h10) env k val val' min max maxLen hv hv' hmn hmx hvv hm hs

/-- heat and spark cells on the real float computation: never a panic, always ONE cell of the palette -/
theorem heat_spark_no_panic_f64 {L2 L10 P2 P10 : F64 → F64} (h2 : LogLikeF64 L2) (h10 : LogLikeF64 L10) (env : Env) (k : Scaler)
    (val min max : Int) (hv : I64 val) (hmn : I64 min) (hmx : I64 max) :
    (∃ b, heatWrite (f64Arith L2 L10 P2 P10) env (scale (f64Arith L2 L10 P2 P10) k val min max) = .ok b ∧ IsHeatCell env b) ∧
    (∃ b, sparkWrite (f64Arith L2 L10 P2 P10) env (scale (f64Arith L2 L10 P2 P10) k val min max) = .ok b ∧ IsSparkGlyph b) :=
  ⟨(unitLaws_f64 h2 h10).heatWrite_cell env (scale_f64_unit h2 h10 k hv hmn hmx),
   (unitLaws_f64 h2 h10).sparkWrite_glyph env (scale_f64_unit h2 h10 k hv hmn hmx)⟩

/-! ## the log scalers with Go's own `math.Log2` / `math.Log10` (`Model/C14Log.lean`): the exact integer cases

The theorems above take the logarithms as parameters (`LogLikeF64`).  `goLog2F` / `goLog10F` are Go's implementations
(`src/math/log.go`, `log10.go`, `frexp.go`: FreeBSD's `e_log.c`) repeated operation by operation on the software binary64 and
compared with the real `math.Log*` bit for bit by the correspondence (op `log`).  `goArith` is the scaler arithmetic with
them.  Every statement below is a finite table over ALL the powers an int64 can hold, evaluated by the kernel. -/

/-- `math.Log2` of every power of two up to `2^63 = float64(MaxInt64)` is the exponent, exactly (`Frexp` gives `0.5`) -/
theorem log2_pow2_exact (k : Nat) (hk : k < 64) : goLog2F (F64.ofInt ((2 : Int) ^ k)) = F64.ofInt (k : Int) := by
  have h := pow2Table_ok
  unfold pow2Table at h
  rw [List.all_eq_true] at h
  exact of_decide_eq_true (h k (List.mem_range.mpr hk))

/-- `math.Log10` of every power of ten an int64 holds: `Ceil` is the exponent for all of them (so the upper end of a remapped
range `[…, 10^k]` is `k`), and the value is the exponent EXACTLY for every `k` but 15 (`Log10(1e15) = 15 - 2^-49`) -/
theorem log10_pow10_exact (k : Nat) (hk : k < 19) :
    F64.ceil (goLog10F (F64.ofInt ((10 : Int) ^ k))) = F64.ofInt (k : Int) ∧
    (k ≠ 15 → goLog10F (F64.ofInt ((10 : Int) ^ k)) = F64.ofInt (k : Int)) := by
  have h := pow10Table_ok
  unfold pow10Table at h
  rw [List.all_eq_true] at h
  have hk' := h k (List.mem_range.mpr hk)
  rw [Bool.and_eq_true, Bool.or_eq_true] at hk'
  refine ⟨of_decide_eq_true hk'.1, fun hne => ?_⟩
  rcases hk'.2 with h15 | hd
  · exact absurd (by simpa using h15) hne
  · exact of_decide_eq_true hd

/-- on the widest power-of-two range `[0 or 1, 2^62]` the log2 scale of `2^k` is `k/62`, correctly rounded, for every `k ≤ 62`
(`math.Pow` is irrelevant to `Scale`: any `P2 P10`) -/
theorem scale_log2_pow2_exact (P2 P10 : F64 → F64) (k : Nat) (hk : k < 63) (mn : Int) (hmn : mn = 0 ∨ mn = 1) :
    scale (f64Arith goLog2F goLog10F P2 P10) .log2 ((2 : Int) ^ k) mn ((2 : Int) ^ 62) = F64.div (F64.ofInt (k : Int)) (F64.ofInt 62) := by
  rw [scale_pow_irrelevant]
  have h := scalePow2Table_ok
  unfold scalePow2Table at h
  rw [List.all_eq_true] at h
  have hk' := h k (List.mem_range.mpr hk)
  rw [List.all_eq_true] at hk'
  exact of_decide_eq_true (hk' mn (by rcases hmn with rfl | rfl <;> simp))

/-- on the widest power-of-ten range `[1, 10^18]` the log10 scale of `10^k` is `Log10(10^k)/18`, for every `k ≤ 18` -/
theorem scale_log10_pow10_exact (P2 P10 : F64 → F64) (k : Nat) (hk : k < 19) :
    scale (f64Arith goLog2F goLog10F P2 P10) .log10 ((10 : Int) ^ k) 1 ((10 : Int) ^ 18) =
      F64.div (goLog10F (F64.ofInt ((10 : Int) ^ k))) (F64.ofInt 18) := by
  rw [scale_pow_irrelevant]
  have h := scalePow10Table_ok
  unfold scalePow10Table at h
  rw [List.all_eq_true] at h
  exact of_decide_eq_true (h k (List.mem_range.mpr hk))

/-- a documented quirk, not a violation (the value stays in `[0,1]` and monotone): on a log10 scale the maximum itself need not
reach `1.0` – `Scale(10^15, 1, 10^15) = 1 - 2^-53` because `math.Log10(1e15) = 15 - 2^-49` while the remapped upper end is
`Ceil = 15`; its heat cell is colour 14 of 0…15, not 15.  Every power of two reaches `1.0` on a log2 scale. -/
theorem scale_log10_max_below_one :
    scale goArith .log10 1000000000000000 1 1000000000000000 = ⟨0x3FEFFFFFFFFFFFFF, by decide⟩ ∧
    bucket goArith 16 (scale goArith .log10 1000000000000000 1 1000000000000000) = 14 ∧
    scale goArith .log2 4611686018427387904 1 4611686018427387904 = F64.one ∧
    scale goArith .log10 1000 1 1000 = F64.one := by
  decide +kernel

/-! ## bars -/

/-- `BarWrite` never panics and never writes more than `maxLen` glyphs (unicode eighth-blocks or `|`) -/
theorem bar_le_maxlen {L2 L10 : Rat → Rat} (h2 : LogLike L2) (h10 : LogLike L10) (env : Env) (k : Scaler) (val min max maxLen : Int)
    (hm : 0 ≤ maxLen) (hs : maxLen < 1000000000000000000) :
    ∃ glyphs, barWriteR (ratArith L2 L10) env (scale (ratArith L2 L10) k val min max) maxLen = .ok glyphs ∧
      (glyphs.length : Int) ≤ maxLen := by
  obtain ⟨a, b⟩ := scale_bounds h2 h10 k val min max
  obtain ⟨rs, hrs, hl⟩ := barWriteR_ok (L2 := L2) (L10 := L10) env a b hm hs
  exact ⟨rs, hrs, by rw [hl]; exact (barGlyphCount_le env a b hm hs).2⟩

/-- a larger value never gives a shorter bar -/
theorem bar_monotone {L2 L10 : Rat → Rat} (h2 : LogLike L2) (h10 : LogLike L10) (env : Env) (k : Scaler) (val val' min max maxLen : Int)
    (hv : val ≤ val') (hm : 0 ≤ maxLen) (hs : maxLen < 1000000000000000000) :
    ∃ g g', barWriteR (ratArith L2 L10) env (scale (ratArith L2 L10) k val min max) maxLen = .ok g ∧
      barWriteR (ratArith L2 L10) env (scale (ratArith L2 L10) k val' min max) maxLen = .ok g' ∧ g.length ≤ g'.length := by
  obtain ⟨a, b⟩ := scale_bounds h2 h10 k val min max
  obtain ⟨a', b'⟩ := scale_bounds h2 h10 k val' min max
  obtain ⟨g, hg, hl⟩ := barWriteR_ok (L2 := L2) (L10 := L10) env a b hm hs
  obtain ⟨g', hg', hl'⟩ := barWriteR_ok (L2 := L2) (L10 := L10) env a' b' hm hs
  refine ⟨g, g', hg, hg', ?_⟩
  have := barGlyphCount_mono (L2 := L2) (L10 := L10) env a (scale_mono h2 h10 k min max hv) b' hm hs
  omega

/-- `BarWriteStacked` never panics: any running maximum (0 and negative included), any values -/
theorem stacked_no_panic (env : Env) (maxVal maxLen : Int) (vals : List Int) :
    ∃ b, barWriteStacked env maxVal maxLen vals = .ok b :=
  barWriteStacked_ok env maxVal maxLen vals

/-- each segment is the proportional length `⌊val·maxLen/maxVal⌋`, between 0 and `maxLen`, monotone in the value -/
theorem stacked_segment_proportional (val val' maxVal maxLen : Int) (hm : 0 ≤ maxLen) (hv : val ≤ val') :
    barBlocks val maxVal maxLen = Spec.propBar val maxVal maxLen ∧
    0 ≤ barBlocks val maxVal maxLen ∧ barBlocks val maxVal maxLen ≤ maxLen ∧
    barBlocks val maxVal maxLen ≤ barBlocks val' maxVal maxLen :=
  ⟨barBlocks_eq_spec _ _ _, barBlocks_nonneg _ _ _, barBlocks_le _ _ _ hm, barBlocks_mono _ _ hv⟩

/-- a whole stacked bar is at most `maxLen` wide when the running maximum covers the values that are
drawn (what `writeBarStacked` maintains after 0b7fa09, as long as that sum does not overflow int64) -/
theorem stacked_le_maxlen (maxVal maxLen : Int) (hm : 0 ≤ maxLen) (vals : List Int) (hcover : posSum vals ≤ maxVal) :
    stackedBlocks maxVal maxLen vals ≤ maxLen :=
  stackedBlocks_le maxVal maxLen hm vals hcover

/-! ## layout -/

/-- `Heatmap.WriteHeader` returns for every list of column names (empty names included) and limit:
the loop needs at most `colCount + 1` rounds and no index leaves its slice -/
theorem header_terminates (env : Env) (h : Heatmap) (names : List Bytes) :
    ∃ r, h.headerText env names = .ok r ∧ r.2 = mini (names.length : Int) h.colCount := by
  obtain ⟨r, hr⟩ := headerText_ok env h names
  exact ⟨r, hr, headerText_count env h names r hr⟩

/-- a spark row has exactly one glyph of the palette per displayed column, and never panics -/
theorem spark_rows_one_cell_per_col {L2 L10 : Rat → Rat} (h2 : LogLike L2) (h10 : LogLike L10) (env : Env) (k : Scaler)
    (vals : List Int) (min max : Int) :
    ∃ cells, sparkCells (ratArith L2 L10) env k vals min max = .ok cells ∧ cells.length = vals.length ∧
      ∀ c ∈ cells, IsSparkGlyph c :=
  sparkCells_ok h2 h10 env k vals min max

/-- `spark_no_panic`: also with no displayed columns (the state repaired by 9780d5d) -/
theorem spark_no_panic {L2 L10 : Rat → Rat} (h2 : LogLike L2) (h10 : LogLike L10) (env : Env) (k : Scaler) (min max : Int) :
    sparkCells (ratArith L2 L10) env k [] min max = .ok [] ∧
    ∀ vals, ∃ cells, sparkCells (ratArith L2 L10) env k vals min max = .ok cells := by
  refine ⟨rfl, fun vals => ?_⟩
  obtain ⟨c, hc, _⟩ := sparkCells_ok h2 h10 env k vals min max
  exact ⟨c, hc⟩

/-- a heatmap row has one cell per displayed column, and never panics -/
theorem heat_rows_one_cell_per_col {L2 L10 : Rat → Rat} (h2 : LogLike L2) (h10 : LogLike L10) (env : Env) (k : Scaler)
    (vals : List Int) (min max : Int) :
    ∃ cells, vals.mapM (fun v => heatWrite (ratArith L2 L10) env (scale (ratArith L2 L10) k v min max)) = .ok cells ∧
      cells.length = vals.length :=
  heatCells_ok h2 h10 env k vals min max

/-! ## table columns line up (every sequence of `WriteRow` / `WriteFooter` calls) -/

/-- the measure the renderers use (`color.StrLen`) is the visible width of the specification when
colours are on (runes outside `ESC … m` sequences), and the number of runes when they are off (then
nothing is an escape sequence: the bytes are shown as they are).  Widths are counted in runes: a
double-width rune counts as one cell, as everywhere in rare. -/
theorem strLen_is_visible_width (env : Env) (s : Bytes) :
    (env.color = true → strLen env s = (Spec.visLen s : Nat)) ∧
    (env.color = false → strLen env s = ((decodeUtf8 s).length : Nat)) :=
  ⟨strLen_colour env s, strLen_plain env s⟩

/-- `table_aligned`, the invariant.  From any state satisfying `TableInv` (in particular a new table),
EVERY sequence of `WriteRow(n ≥ 0, cells…)` and `WriteFooter(idx ≥ 0, line)` calls – any rows in any order,
rows rewritten, ragged rows, more cells than `maxCols`, rows at or beyond `maxRows`, any cell texts –
returns without panic in a state satisfying `TableInv` again:

* every written row is on the screen exactly as `writeRow` draws it with the CURRENT column widths
  (`drawn`: when a width grows, all active rows are re-drawn, so earlier rows never keep a stale layout),
* every displayed cell is at most as wide as its column (`fit`), column widths never shrink, never
  more than `maxCols` cells per row and `maxRows` rows,
* the table remembers the latest cells of every row (`rowsAfter`). -/
theorem table_aligned (env : Env) (t : TableWriter) (vt : VirtualTerm) (h : TableInv env t vt)
    (ops : List TableOp) (hops : ∀ op ∈ ops, op.NonNeg) :
    ∃ t' vt', TableWriter.runOps env (t, vt) ops = .ok (t', vt') ∧ TableInv env t' vt' ∧
      t'.maxCols = t.maxCols ∧ t'.maxRows = t.maxRows ∧ t.activeRows ≤ t'.activeRows ∧
      (∀ k, t.colWidth.getD k 0 ≤ t'.colWidth.getD k 0) ∧ t'.rows = rowsAfter t.maxRows t.rows ops :=
  runOps_inv env ops t vt h hops

/-- a new table (`NewTable(term, maxCols ≥ 0, maxRows ≥ 0)` on an empty terminal) satisfies the invariant -/
theorem table_new_invariant (env : Env) (mc mr : Int) (hmc : 0 ≤ mc) (hmr : 0 ≤ mr) :
    ∃ t, TableWriter.new mc mr = .ok t ∧ TableInv env t VirtualTerm.new ∧ t.maxCols = mc ∧ t.maxRows = mr ∧
      t.rows = List.replicate mr.toNat [] :=
  let ⟨t, h1, h2, h3, h4, h5, _⟩ := new_inv env mc mr hmc hmr
  ⟨t, h1, h2, h3, h4, h5⟩

/-- `table_aligned`, the consequence.  In a state satisfying `TableInv`, cell `k` of EVERY written row
`i` starts at the visible offset `Σ_{j<k} (colWidth[j] + 1)` – the same for all rows – and ends before
column `k + 1` starts; it is one of at most `maxCols` cells of one of at most `maxRows` rows.  The cell
texts are arbitrary (multi-byte, invalid or truncated UTF-8, colour sequences, longer than any earlier
cell); the only proviso is that the cells BEFORE it in its own row do not end inside a colour
sequence (an unterminated `ESC` swallows the padding blanks in `StrLen`'s own scan; `color.Wrap`ped
cells always end in a reset). -/
theorem table_columns_line_up (env : Env) (t : TableWriter) (vt : VirtualTerm) (h : TableInv env t vt)
    (i : Nat) (r : List Bytes) (hr : t.rows[i]? = some r) (k : Nat) (c : Bytes) (hc : (r.take t.maxCols.toNat)[k]? = some c)
    (hterm : ∀ j c', j < k → r[j]? = some c' → Terminated env c') :
    ∃ pre post, vt.lines[i]? = some (pre ++ c ++ post) ∧ strLen env pre = colOffset t.colWidth k ∧
      colOffset t.colWidth k + strLen env c < colOffset t.colWidth (k + 1) ∧
      (k : Int) < t.maxCols ∧ (i : Int) < t.maxRows :=
  table_cell_position env t vt h i r hr k c hc hterm

/-- the same in the words of the specification: the rendered rows are `Spec.Aligned` – one increasing
list of column offsets serves every row whose cells do not end inside a colour sequence -/
theorem table_aligned_spec (env : Env) (t : TableWriter) (vt : VirtualTerm) (h : TableInv env t vt)
    (rs : List (List Bytes × Bytes))
    (hrs : ∀ p ∈ rs, ∃ (i : Nat) (r : List Bytes), t.rows[i]? = some r ∧ vt.lines[i]? = some p.2 ∧ p.1 = r.take t.maxCols.toNat ∧
      ∀ c ∈ p.1, Terminated env c) :
    Spec.Aligned (strLen env) rs :=
  table_spec_aligned env t vt h rs hrs

/-! ## formatters: displayed numbers are the aggregated numbers under the chosen formatter -/

/-- `formatter_pure`: the formatter built by `termformat.FromExpression(expr)` is ONE compiled key evaluated
on the context of the call: its text depends on (value, min, max) of THIS call only, not on what was
formatted before; and that context answers `{0} {1} {2}` / `{val} {value} {min} {max}` with the decimal
value, minimum and maximum of this call (everything else is empty) -/
theorem formatter_pure (reg : Expr.Registry) (expr : List Char) (f : Fmt) (errs : List Expr.CErr)
    (h : Fmt.ofExpression reg expr = .ok (f, errs)) :
    (∃ stages, ∀ v mn mx, f.apply v mn mx = exprFormat stages v mn mx) ∧
    (∀ v mn mx : Int, (formatCtx v mn mx).getMatch 0 = itoa v ∧ (formatCtx v mn mx).getMatch 1 = itoa mn ∧
      (formatCtx v mn mx).getMatch 2 = itoa mx ∧ (∀ i, i < 0 ∨ 2 < i → (formatCtx v mn mx).getMatch i = []) ∧
      (formatCtx v mn mx).getKey (ascii "val") = itoa v ∧ (formatCtx v mn mx).getKey (ascii "value") = itoa v ∧
      (formatCtx v mn mx).getKey (ascii "min") = itoa mn ∧ (formatCtx v mn mx).getKey (ascii "max") = itoa mx) := by
  constructor
  · unfold Fmt.ofExpression at h
    split at h
    · cases h
    · rename_i stages errs' _
      cases h
      exact ⟨stages, fun _ _ _ => rfl⟩
  · intro v mn mx
    have e1 : ¬ (ascii "min" = ascii "val" ∨ ascii "min" = ascii "value") := by decide +kernel
    have e2 : ¬ (ascii "max" = ascii "val" ∨ ascii "max" = ascii "value") := by decide +kernel
    have e3 : ¬ (ascii "max" = ascii "min") := by decide +kernel
    refine ⟨rfl, rfl, rfl, ?_, ?_, ?_, ?_, ?_⟩
    · intro i hi
      show (if i = 0 then itoa v else if i = 1 then itoa mn else if i = 2 then itoa mx else []) = []
      rw [if_neg (by omega), if_neg (by omega), if_neg (by omega)]
    · show (if ascii "val" = ascii "val" ∨ ascii "val" = ascii "value" then itoa v else _) = _
      rw [if_pos (Or.inl rfl)]
    · show (if ascii "value" = ascii "val" ∨ ascii "value" = ascii "value" then itoa v else _) = _
      rw [if_pos (Or.inr rfl)]
    · show (if ascii "min" = ascii "val" ∨ ascii "min" = ascii "value" then itoa v else if ascii "min" = ascii "min" then itoa mn else _) = _
      rw [if_neg e1, if_pos rfl]
    · show (if ascii "max" = ascii "val" ∨ ascii "max" = ascii "value" then itoa v else if ascii "max" = ascii "min" then itoa mn
        else if ascii "max" = ascii "max" then itoa mx else _) = _
      rw [if_neg e2, if_neg e3, if_pos rfl]

/-- `displayed_numbers_eq`, histogram: `writeLine` never panics (any key, count, scale, switches) and the line
starts with the padded key and `Formatter(count, 0, maxVal)` for the CURRENT running maximum -/
theorem histo_line_number {L2 L10 : Rat → Rat} (h2 : LogLike L2) (h10 : LogLike L10) (env : Env) (h : Histo) (vt : VirtualTerm)
    (ho : vt.closed = false) (line : Nat) (key : Bytes) (val : Int) :
    ∃ vt' tail, h.writeLine (ratArith L2 L10) env vt (line : Int) key val = .ok vt' ∧ vt'.closed = false ∧
      vt'.lines[line]? = some (wrap env cYellow (padVis env key h.textSpacing) ++ ascii "    " ++
        padRight (h.fmt.apply val 0 h.maxVal) 10 ++ tail) ∧
      (∀ j x, j ≠ line → vt.lines[j]? = some x → vt'.lines[j]? = some x) :=
  histo_writeLine_ok h2 h10 env h vt ho line key val

/-- `displayed_numbers_eq`, stacked bar graph: `writeBarStacked` never panics and the line ends with
`Formatter(total, 0, maxLineVal)` for the running maximum AFTER this row raised it -/
theorem bars_stacked_number (env : Env) (g : BarGraph) (vt : VirtualTerm) (ho : vt.closed = false) (idx : Nat) (key : Bytes)
    (vals : List Int) (hp : 0 ≤ g.prefixLines) (hsm : g.prefixLines < 9223372036854775808 - idx) :
    ∃ g' vt' pre, g.writeBarStacked env vt (idx : Int) key vals = .ok (g', vt') ∧ vt'.closed = false ∧
      g'.maxLineVal = (if sumPositive vals > g.maxLineVal then sumPositive vals else g.maxLineVal) ∧
      vt'.lines[idx + g.prefixLines.toNat]? = some (pre ++ ascii "  " ++ g'.fmt.apply (sumWrap vals) 0 g'.maxLineVal) :=
  bars_stacked_line env g vt ho idx key vals hp hsm

/-- `displayed_numbers_eq`, data table (`rare tabulate`), on ANY aggregated state and limits ≥ 0: no panic,
the table invariant (so `table_columns_line_up` applies), and the table holds the header, one row per
DISPLAYED row – the key, `Formatter(value, min, max)` of every displayed column with the range of the
CURRENT state (`ComputeMinMax` when a formatter was set), the formatted row sum – and the totals row -/
theorem datatable_numbers (env : Env) (d : DataTable) (vt : VirtualTerm) (hinv : TableInv env d.table vt)
    (hnc : 0 ≤ d.numCols) (hnr : 0 ≤ d.numRows) (hmr : d.table.maxRows = d.numRows + 2)
    (rkeys ckeys : List Bytes) (c : Cells) :
    ∃ d' vt', d.writeTable env vt rkeys ckeys c = .ok (d', vt') ∧ TableInv env d'.table vt' ∧
      d'.table.rows[0]? = some (d.headerCells env ckeys (c.cols.take d.numCols.toNat)) ∧
      (∀ (i : Nat) (r : Nat), (c.rows.take d.numRows.toNat)[i]? = some r →
        ∃ row, d'.table.rows[i + 1]? = some row ∧ row.length = (c.cols.take d.numCols.toNat).length + 2 ∧
          row[0]? = some (wrap env cYellow (keyAt rkeys r)) ∧
          (∀ (j k : Nat), (c.cols.take d.numCols.toNat)[j]? = some k →
            row[j + 1]? = some (d.fmt.apply (c.value r k) (d.range c).1 (d.range c).2)) ∧
          (d.showRowTotals = true → row[(c.cols.take d.numCols.toNat).length + 1]? =
            some (wrap env cBrightBlack (d.fmt.apply (c.rowSum r) (d.range c).1 (d.range c).2)))) ∧
      (d.showColTotals = true →
        d'.table.rows[(c.rows.take d.numRows.toNat).length + 1]? = some (d.totalCells env c (c.cols.take d.numCols.toNat))) := by
  obtain ⟨d', vt', h1, h2, h3, h4, h5⟩ := datatable_render env d vt hinv hnc hnr hmr rkeys ckeys c
  refine ⟨d', vt', h1, h2, h3, ?_, h5⟩
  intro i r hi
  obtain ⟨c1, c2, c3, c4⟩ := datatable_cells env d rkeys c (c.cols.take d.numCols.toNat) r
  exact ⟨_, h4 i r hi, c1, c2, c3, c4⟩

/-- reduce table (`rare reduce`, table path, after 73473fc), ANY group keys and data texts: no panic – in
particular for a key with more NUL-separated parts than group columns –, the table invariant, and row
`i + 1` has exactly `GroupColCount + DataColCount` cells: the first parts of the key, then the data -/
theorem reduce_render_ok (env : Env) (r : Reduce) (vt : VirtualTerm) (hinv : TableInv env r.table vt)
    (groups : List (Bytes × List Bytes)) (f0 f1 : Bytes) :
    ∃ r' vt', r.render env vt groups f0 f1 = .ok (r', vt') ∧ TableInv env r'.table vt' ∧
      r'.gnames = r.gnames ∧ r'.dnames = r.dnames ∧ r'.table.maxRows = r.table.maxRows ∧
      (∀ (i : Nat) (g : Bytes × List Bytes), groups[i]? = some g → ((i : Int) + 1 < r.table.maxRows) →
        ∃ row, r'.table.rows[i + 1]? = some row ∧ row.length = r.gnames.length + r.dnames.length ∧
          (∀ (j : Nat) (part : Bytes), j < r.gnames.length → (groupParts g.1)[j]? = some part →
            row[j]? = some (wrap env cBrightWhite part)) ∧
          (∀ (j : Nat) (x : Bytes), j < r.dnames.length → g.2[j]? = some x → row[r.gnames.length + j]? = some x)) := by
  obtain ⟨r', vt', h1, h2, h3, h4, h5, h6⟩ := reduce_render env r vt hinv groups f0 f1
  refine ⟨r', vt', h1, h2, h3, h4, h5, ?_⟩
  intro i g hg hlt
  exact ⟨_, h6 i g hg hlt, reduce_rowCells_length env r g.1 g.2,
    fun j part hj hp => reduce_rowCells_parts env r g.1 g.2 j part hj hp,
    fun j x hj hx => reduce_rowCells_data env r g.1 g.2 j x hj hx⟩

/-- reduce table, "displayed numbers equal the aggregated numbers" for the GROUP LABEL of every row: after a render
callback on ANY table state (so: in every frame, whatever earlier frames and earlier rows of this frame wrote) the group
cells of row `i + 1` are the first `GroupColCount` parts of the key of group `i` itself and BLANK for every group column
the key has no part for – in particular the row of the empty group value (no parts at all) carries an empty label
wherever it stands (seeded change C14-reduce-rowbuf-hoisted: `rare reduce -g` with an empty group value under
`--sort-reverse`, or written first in a second frame, showed the label of the row written before it) -/
theorem reduce_row_shows_own_group (env : Env) (r : Reduce) (vt : VirtualTerm) (hinv : TableInv env r.table vt)
    (groups : List (Bytes × List Bytes)) (f0 f1 : Bytes) :
    ∃ r' vt', r.render env vt groups f0 f1 = .ok (r', vt') ∧
      (∀ (i : Nat) (g : Bytes × List Bytes), groups[i]? = some g → ((i : Int) + 1 < r.table.maxRows) →
        ∃ row, r'.table.rows[i + 1]? = some row ∧
          row.take r.gnames.length = ((groupParts g.1).take r.gnames.length).map (wrap env cBrightWhite) ++
            List.replicate (r.gnames.length - ((groupParts g.1).take r.gnames.length).length) [] ∧
          (g.1 = [] → row.take r.gnames.length = List.replicate r.gnames.length [])) := by
  obtain ⟨r', vt', h1, _, _, _, _, h6⟩ := reduce_render env r vt hinv groups f0 f1
  refine ⟨r', vt', h1, ?_⟩
  intro i g hg hlt
  refine ⟨_, h6 i g hg hlt, rowCells_group_cells env r g.1 g.2, ?_⟩
  intro he
  rw [rowCells_group_cells, he]
  simp [groupParts]

/-- SEVERAL FRAMES (`helpers.RunAggregationLoop` runs the render callback on every 100 ms tick and once at the end, all into
the same table): for ANY sequence of frames – each with the sorted groups and data of its moment, groups appearing, rows
moving – every callback returns, the table invariant holds, and the table finally shows the LAST frame: row `i + 1` has
exactly the cells of group `i` of the last frame, with that group's own label (blank for the empty group value),
whatever the earlier frames left in that row -/
theorem reduce_frames_show_last (env : Env) (f0 f1 : Bytes) (frames : List (List (Bytes × List Bytes))) (last : List (Bytes × List Bytes))
    (r : Reduce) (vt : VirtualTerm) (hinv : TableInv env r.table vt) :
    ∃ r' vt', Reduce.renderAll env f0 f1 (r, vt) (frames ++ [last]) = .ok (r', vt') ∧ TableInv env r'.table vt' ∧
      (∀ (i : Nat) (g : Bytes × List Bytes), last[i]? = some g → ((i : Int) + 1 < r.table.maxRows) →
        ∃ row, r'.table.rows[i + 1]? = some row ∧ row = r.rowCells env g.1 g.2 ∧
          row.take r.gnames.length = ((groupParts g.1).take r.gnames.length).map (wrap env cBrightWhite) ++
            List.replicate (r.gnames.length - ((groupParts g.1).take r.gnames.length).length) []) := by
  obtain ⟨r', vt', h1, h2, _, _, _, h6⟩ := reduce_renderAll env f0 f1 frames last r vt hinv
  exact ⟨r', vt', h1, h2, fun i g hg hlt => ⟨_, h6 i g hg hlt, rfl, rowCells_group_cells env r g.1 g.2⟩⟩

/-- why the row loop allocates: one iteration of the loop on a FRESH buffer (`make([]string, ColCount)`, all cells
empty) writes exactly the cells the model hands to `WriteRow` – every key, every data list (shorter, longer) -/
theorem reduce_fresh_buffer (env : Env) (r : Reduce) (key : Bytes) (data : List Bytes) :
    r.fillRow env (List.replicate (r.gnames.length + r.dnames.length) []) key data = r.rowCells env key data :=
  fillRow_fresh env r key data

/-- boundary (kernel-checked): with ONE buffer for all rows the same loop shows a foreign label.  Groups `alpha` (11) and
the empty group (5) in this order (`--sort-reverse`): the second row reads `alpha 5`; per-row buffers give an empty label -/
theorem reduce_shared_buffer_counterexample :
    let r : Reduce := { table := ⟨10, 20, 0, List.replicate 10 0, List.replicate 20 []⟩, gnames := [ascii "grp"], dnames := [ascii "total"] }
    let groups : List (Bytes × List Bytes) := [(ascii "alpha", [ascii "11"]), ([], [ascii "5"])]
    Reduce.rowsShared ⟨false, true⟩ r (List.replicate 2 []) groups = [[ascii "alpha", ascii "11"], [ascii "alpha", ascii "5"]] ∧
    groups.map (fun g => r.rowCells ⟨false, true⟩ g.1 g.2) = [[ascii "alpha", ascii "11"], [[], ascii "5"]] := by
  decide +kernel

/-! ## histogram and bar graph as whole renderers: every displayed row is drawn at the CURRENT scale

Stated once for every instance `A` of the float operations that satisfies `UnitLaws A Dom Unit le` – exact rationals
(`float_laws_rat`) and IEEE binary64 on int64 values (`float_laws_f64`).  `Dom` is the set of integers the instance
handles (all of them / int64). -/

/-- a new histogram (`NewHistogram(term, maxLines)`) on an empty terminal satisfies the redraw invariant -/
theorem histo_new_invariant {α : Type} {A : Arith α} {Dom : Int → Prop} {Unit : α → Prop} {le : α → α → Prop} (U : UnitLaws A Dom Unit le)
    (env : Env) (maxLines : Int) (showBar showPct : Bool) (scaler : Scaler) (fmt : Fmt) (h : Histo)
    (hn : Histo.new maxLines showBar showPct scaler fmt = .ok h) :
    HistoInv A Dom env h VirtualTerm.new ∧ (h.items.length : Int) = maxLines ∧ h.maxVal = 0 :=
  histo_new_inv U env maxLines showBar showPct scaler fmt h hn

/-- `histo_redraw_invariant`.  From any state satisfying `HistoInv` (a new histogram, or the state after any calls),
EVERY sequence of `WriteForLine(n, key, val)` / `UpdateTotal(total)` calls – ANY line numbers `n ≥ 0` in any order (a line
at or beyond `maxLines` is ignored, 4855857: no hypothesis on `n` is left), lines rewritten, keys that widen the key column, values that raise the running maximum, zero and negative
values (7b183e0) – returns in a state satisfying `HistoInv` again:

* every written line `i` shows its latest `(key, value)` drawn with the CURRENT state of the writer
  (`drawn`: `lines[i] = lineText h key value`; a wider key or a larger value redraws ALL written lines, so no line
  keeps a stale key column, maximum or total),
* the running maximum covers every row, the key column every key; the settings never change, the
  running maximum and the key column only grow. -/
theorem histo_redraw_invariant {α : Type} {A : Arith α} {Dom : Int → Prop} {Unit : α → Prop} {le : α → α → Prop} (U : UnitLaws A Dom Unit le)
    (env : Env) (h : Histo) (vt : VirtualTerm) (hinv : HistoInv A Dom env h vt) (ops : List HistoOp)
    (hops : ∀ op ∈ ops, op.Valid Dom) :
    ∃ vt', Histo.runOps A env (h, vt) ops = .ok (h.stateAfterAll env ops, vt') ∧ HistoInv A Dom env (h.stateAfterAll env ops) vt' ∧
      h.SameConfig (h.stateAfterAll env ops) ∧ h.maxVal ≤ (h.stateAfterAll env ops).maxVal ∧
      h.textSpacing ≤ (h.stateAfterAll env ops).textSpacing := by
  obtain ⟨vt', h1, h2⟩ := histo_runOps_inv U env ops h vt hinv hops
  obtain ⟨c, m, t⟩ := histo_stateAfterAll_config env ops h
  exact ⟨vt', h1, h2, c, m, t⟩

/-- what `HistoInv` says of a written line: it starts with the key padded to the CURRENT key column and
`Formatter(value, 0, maxVal)` for the CURRENT running maximum, which covers the value; and when bars are shown the
line ends with the bar `BarWrite(Scale(value, 0, maxVal), 50)` for that same maximum – at most 50 glyphs -/
theorem histo_rows_current_scale {α : Type} {A : Arith α} {Dom : Int → Prop} {Unit : α → Prop} {le : α → α → Prop} (U : UnitLaws A Dom Unit le)
    (env : Env) (h : Histo) (vt : VirtualTerm) (hinv : HistoInv A Dom env h vt) (i : Nat) (key : Bytes) (val : Int)
    (hi : h.items[i]? = some (some (key, val))) :
    ∃ tail, vt.lines[i]? = some (wrap env cYellow (padVis env key h.textSpacing) ++ ascii "    " ++
        padRight (h.fmt.apply val 0 h.maxVal) 10 ++ tail) ∧
      val ≤ h.maxVal ∧ strLen env key ≤ h.textSpacing ∧
      (h.showBar = true ∧ h.maxVal > 0 → ∃ mid glyphs, tail = mid ++ [32] ++ colorWrite env cBlue (glyphs.flatMap encodeRune) ∧
        barWriteR A env (scale A h.scaler val 0 h.maxVal) 50 = .ok glyphs ∧
        (glyphs.length : Int) = glyphCount A env 50 (scale A h.scaler val 0 h.maxVal) ∧ glyphs.length ≤ 50) := by
  obtain ⟨tail, ht, hbar, _⟩ := histo_lineText_shape (A := A) env h key val
  refine ⟨tail, ?_, hinv.max_cover i key val hi, hinv.key_cover i key val hi, ?_⟩
  · rw [hinv.drawn i key val hi, ht]; rfl
  · intro hb
    obtain ⟨mid, hm⟩ := hbar hb
    obtain ⟨rs, h1, h2, h3, h4⟩ := histo_bar_shape U env h val (hinv.dom_items i key val hi) hinv.dom_max
    exact ⟨mid, rs, by rw [hm, h2], h1, h3, h4⟩

/-- the bars of one histogram are proportional to each other: of two written lines the one with the larger
value never has the shorter bar (both are scaled with the one current maximum) -/
theorem histo_bars_proportional {α : Type} {A : Arith α} {Dom : Int → Prop} {Unit : α → Prop} {le : α → α → Prop} (U : UnitLaws A Dom Unit le)
    (env : Env) (h : Histo) (vt : VirtualTerm) (hinv : HistoInv A Dom env h vt) (i i' : Nat) (key key' : Bytes) (val val' : Int)
    (hi : h.items[i]? = some (some (key, val))) (hi' : h.items[i']? = some (some (key', val'))) (hvv : val ≤ val') :
    glyphCount A env 50 (scale A h.scaler val 0 h.maxVal) ≤ glyphCount A env 50 (scale A h.scaler val' 0 h.maxVal) :=
  histo_bars_monotone U env h val val' (hinv.dom_items i key val hi) (hinv.dom_items i' key' val' hi') hinv.dom_max hvv

/-- `histo_render_current_scale`: ONE RENDER of `rare histo` (`writeHistoOutput`: `UpdateTotal`, then `WriteForLine` for
every item with at least `atLeast` samples) from any state satisfying the invariant – a new histogram, or the
state after ANY NUMBER of earlier renders with a growing running maximum: it returns, the invariant holds
again, and line `i` shows the `i`-th displayed item drawn with the FINAL state (`histo_rows_current_scale`
says what that is: the number is `Formatter(value, 0, current max)`) -/
theorem histo_render_current_scale {α : Type} {A : Arith α} {Dom : Int → Prop} {Unit : α → Prop} {le : α → α → Prop} (U : UnitLaws A Dom Unit le)
    (env : Env) (h : Histo) (vt : VirtualTerm) (hinv : HistoInv A Dom env h vt) (items : List (Bytes × Int)) (total atLeast : Int)
    (hdom : ∀ it ∈ items, Dom it.2) (hfit : (histoShown items atLeast).length ≤ h.items.length) :
    ∃ h' vt', h.writeOutput A env vt items total atLeast = .ok (h', vt') ∧ HistoInv A Dom env h' vt' ∧
      h.SameConfig h' ∧ h.maxVal ≤ h'.maxVal ∧
      (∀ (i : Nat) (it : Bytes × Int), (histoShown items atLeast)[i]? = some it →
        h'.items[i]? = some (some it) ∧ vt'.lines[i]? = some (h'.lineText A env it.1 it.2) ∧ it.2 ≤ h'.maxVal) := by
  obtain ⟨vt', h1, h2⟩ := histo_writeOutput_inv U env h vt hinv items total atLeast hdom hfit
  obtain ⟨c, m, _⟩ := histo_stateAfterAll_config env (histoOutputOps items total atLeast) h
  refine ⟨_, vt', h1, h2, c, m, ?_⟩
  intro i it hi
  have hr := histo_render_rows env h items total atLeast hfit i it hi
  exact ⟨hr, h2.drawn i it.1 it.2 hr, h2.max_cover i it.1 it.2 hr⟩

/-- a new bar graph (`NewBarGraph` with the command's settings) on an empty terminal: the running maximum covers
the (no) stored rows -/
theorem bars_new_invariant {α : Type} {A : Arith α} {Dom : Int → Prop} {Unit : α → Prop} {le : α → α → Prop} (U : UnitLaws A Dom Unit le)
    (stacked : Bool) (barSize : Int) (scaler : Scaler) (fmt : Fmt) (hb : 0 ≤ barSize) (hb' : barSize ≤ 1000000000000000) :
    BarPre Dom ({ stacked := stacked, barSize := barSize, scaler := scaler, fmt := fmt } : BarGraph) VirtualTerm.new :=
  bars_new_pre U stacked barSize scaler fmt hb hb'

/-- `bars_render_current_scale`: ONE RENDER of `rare bars` (`SetKeys(subKeys…)`, then `WriteBar(i, key_i, vals_i…)` for the
rows in order, as `cmd/bargraph.go` does) from ANY state in which the running maximum covers the stored rows
(`BarPre`: a new graph, or the state after ANY NUMBER of earlier renders – also with fewer sub-keys): it returns,
`BarPre` holds again, the running maximum only grew, and EVERY row of this render is stored and drawn
(`RowDrawn`, see `bars_drawn_row_shape`) with the FINAL running maximum – whichever `WriteBar` calls raised the
maximum or widened the key column and redrew the graph on the way (cde79bf): the bars of one graph are proportional
to each other, every number is `Formatter(value, 0, final max)`, and every row is drawn with the ONE final key column
width `g'.cfg.keyw = maxKeyLength`, which covers the key of every row of the render (`bars_key_column_aligned` turns
this into visible offsets).  Grouped rows have at most one value per sub-key. -/
theorem bars_render_current_scale {α : Type} {A : Arith α} {Dom : Int → Prop} {Unit : α → Prop} {le : α → α → Prop} (U : UnitLaws A Dom Unit le)
    (env : Env) (g : BarGraph) (vt : VirtualTerm) (hpre : BarPre Dom g vt) (subKeys : List Bytes) (rows : List (Bytes × List Int))
    (hrows : ∀ row ∈ rows, (∀ v ∈ row.2, Dom v) ∧ (g.stacked = true ∨ row.2.length ≤ subKeys.length))
    (N : Nat) (hN : g.rows.length + rows.length ≤ N)
    (hgeo : g.prefixLines.toNat + 1 + (N + 1) * (subKeys.length + 1) < 4611686018427387904) :
    ∃ g' vt', g.writeOutput A env vt subKeys rows = .ok (g', vt') ∧ BarPre Dom g' vt' ∧
      (∀ (i : Nat) (row : Bytes × List Int), rows[i]? = some row → g'.rows[i]? = some row ∧ RowDrawn A env g'.cfg vt' i row) ∧
      g'.cfg.stacked = g.stacked ∧ g'.cfg.nsub = subKeys.length ∧ g'.cfg.scaler = g.scaler ∧ g'.cfg.fmt = g.fmt ∧
      g'.cfg.barSize = g.barSize ∧ g'.cfg.max = g'.maxLineVal ∧ g.maxLineVal ≤ g'.maxLineVal ∧
      (g'.cfg.first = g.prefixLines.toNat ∨ g'.cfg.first = 1) ∧
      g'.cfg.keyw = g'.maxKeyLength ∧ g.maxKeyLength ≤ g'.maxKeyLength ∧ (∀ row ∈ rows, strLen env row.1 ≤ g'.maxKeyLength) :=
  bars_render_inv U env g vt hpre subKeys rows hrows N hN hgeo

/-- what `RowDrawn` says, spelled out.  Stacked: the row's one line is the key, the bar
`BarWriteStacked(max, BarSize, values)` and `Formatter(sum, 0, max)`.  Grouped: line `j` of the row is the key or
the indentation, the bar `BarWrite(Scale(values[j], 0, max), BarSize)` – at most `BarSize` glyphs –, a blank and
`Formatter(values[j], 0, max)`: all for the ONE running maximum `max` of the configuration -/
theorem bars_drawn_row_shape {α : Type} {A : Arith α} {Dom : Int → Prop} {Unit : α → Prop} {le : α → α → Prop} (U : UnitLaws A Dom Unit le)
    (env : Env) (c : BarCfg) (vt : VirtualTerm) (i : Nat) (row : Bytes × List Int) (h : RowDrawn A env c vt i row)
    (hd : ∀ v ∈ row.2, Dom v) (hm : Dom c.max) (hb : 0 ≤ c.barSize) (hb' : c.barSize ≤ 1000000000000000) :
    (c.stacked = true → ∃ bar, vt.lines[c.first + i]? = some (wrap env cYellow (padVis env row.1 c.keyw) ++ ascii "  " ++ bar ++ ascii "  " ++
        c.fmt.apply (sumWrap row.2) 0 c.max) ∧ barWriteStacked env c.max c.barSize row.2 = .ok bar) ∧
    (c.stacked = false → ∀ (j : Nat) (v : Int), row.2[j]? = some v → ∃ glyphs,
        vt.lines[c.first + i * c.nsub + j]? = some ((if j > 0 then spaces (c.keyw + 2) else wrap env cYellow (padVis env row.1 c.keyw) ++ ascii "  ") ++
          colorWrite env (groupColors.getD (j % groupColors.length) []) (glyphs.flatMap encodeRune) ++
          [32] ++ c.fmt.apply v 0 c.max) ∧
        barWriteR A env (scale A c.scaler v 0 c.max) c.barSize = .ok glyphs ∧ (glyphs.length : Int) ≤ c.barSize) := by
  unfold RowDrawn at h
  constructor
  · intro hs
    rw [if_pos hs] at h
    have hw := h
    obtain ⟨bar, hbar⟩ := barWriteStacked_ok env c.max c.barSize row.2
    refine ⟨bar, ?_, hbar⟩
    have e : c.rowStart i = c.first + i := by simp [BarCfg.rowStart, BarCfg.slot, hs]
    rw [← e, hw]
    unfold BarCfg.stackedText
    simp only [hbar]
  · intro hs j v hj
    rw [if_neg (by simp [hs])] at h
    have hw := h j v hj
    obtain ⟨rs, h1, h2, _, h4⟩ := bars_bar_shape U env c v (hd v (List.mem_of_getElem? hj)) hm hb hb'
    refine ⟨rs, ?_, h1, h4⟩
    have e : c.rowStart i = c.first + i * c.nsub := by simp [BarCfg.rowStart, BarCfg.slot, hs]
    rw [← e, hw]
    unfold BarCfg.groupedText
    rw [h2]

/-- THE GROUPED-BARS LINE THEOREM (companion of `bars_stacked_number`): `writeBarGrouped(idx, key, vals…)` on any state, any
values in the domain: it returns; the running maximum is first raised to the row's largest value; line `j` of the
row shows `vals[j]` drawn with the maximum AFTER raising (bar and `Formatter(vals[j], 0, max')`); no other line changes -/
theorem bars_grouped_number {α : Type} {A : Arith α} {Dom : Int → Prop} {Unit : α → Prop} {le : α → α → Prop} (U : UnitLaws A Dom Unit le)
    (env : Env) (g : BarGraph) (vt : VirtualTerm) (ho : vt.closed = false) (i : Nat) (key : Bytes)
    (vals : List Int) (hdom : ∀ v ∈ vals, Dom v) (hm : Dom g.maxLineVal) (hk : 0 ≤ g.maxKeyLength)
    (hb : 0 ≤ g.barSize) (hb' : g.barSize ≤ 1000000000000000) (hp : 0 ≤ g.prefixLines)
    (hsm : g.prefixLines.toNat + i * g.subKeys.length + g.subKeys.length < 4611686018427387904) :
    ∃ m vt', g.writeBarGrouped A env vt (i : Int) key vals = .ok (({ g with maxLineVal := groupedMax g vals } : BarGraph).withMaxRows m, vt') ∧
      vt'.closed = false ∧ g.maxLineVal ≤ groupedMax g vals ∧ (∀ v ∈ vals, v ≤ groupedMax g vals) ∧
      (∀ (j : Nat) (v : Int), vals[j]? = some v →
        vt'.lines[g.prefixLines.toNat + i * g.subKeys.length + j]? =
          some (({ g with maxLineVal := groupedMax g vals } : BarGraph).cfg.groupedText A env g.maxKeyLength key j v)) ∧
      (∀ x y, (x < g.prefixLines.toNat + i * g.subKeys.length ∨ g.prefixLines.toNat + i * g.subKeys.length + vals.length ≤ x) →
        vt.lines[x]? = some y → vt'.lines[x]? = some y) :=
  bars_grouped_line U env g vt ho i key vals hdom hm hk hb hb' hp hsm

/-- THE VISIBLE WIDTH OF A WHOLE HEATMAP ROW: `Heatmap.WriteRow(idx, name, cols)` returns, widens the row-key column to the key
when needed, and the line it writes – coloured key, blanks, ONE heat cell per value – is exactly
`maxRowKeyWidth + 1 + len(values)` cells wide (`color.StrLen`): the cells start in visible column `maxRowKeyWidth + 1`,
one column per value – colour on or off, unicode or ASCII, multi-byte keys, keys with terminated colour sequences -/
theorem heat_row_visible_width {α : Type} {A : Arith α} {Dom : Int → Prop} {Unit : α → Prop} {le : α → α → Prop} (U : UnitLaws A Dom Unit le)
    (env : Env) (h : Heatmap) (vt : VirtualTerm) (ho : vt.closed = false) (idx : Nat) (name : Bytes) (vals : List Int)
    (ht : Terminated env name) (hd : ∀ v ∈ vals, Dom v) (hmn : Dom h.minVal) (hmx : Dom h.maxVal) :
    ∃ h' vt' line cells, h.writeRow A env vt (idx : Int) name vals = .ok (h', vt') ∧ vt'.closed = false ∧
      vt'.lines[2 + idx]? = some line ∧
      h'.maxRowKeyWidth = (if strLen env name > h.maxRowKeyWidth then strLen env name else h.maxRowKeyWidth) ∧
      line = wrap env cYellow name ++ writeRepeat 32 (h'.maxRowKeyWidth - strLen env name + 1) ++ List.flatten cells ∧
      cells.length = vals.length ∧ (∀ c ∈ cells, IsHeatCell env c) ∧
      strLen env line = h'.maxRowKeyWidth + 1 + vals.length ∧
      (∀ j x, j ≠ 2 + idx → vt.lines[j]? = some x → vt'.lines[j]? = some x) :=
  heat_writeRow_width U env h vt ho idx name vals ht hd hmn hmx

/-! ## the key column of the histogram and the bar graph lines up (f0d0278, cde79bf)

Widths are in the unit the code counts: `color.StrLen` (runes outside colour sequences; a double-width rune is one).
`StartsAt env line off rest`: `line = pre ++ rest` with `pre` exactly `off` cells wide and not ending inside a colour sequence.
Keys are arbitrary bytes (multi-byte, truncated UTF-8, with colour sequences such as `{color red {1}}` produces); the only
proviso is `Terminated`: the key does not END inside a colour sequence (`key_column_unterminated_counterexample`). -/

/-- THE KEY CELL of a histogram / bar graph line: the coloured key padded with `padVisible` to the key column width `w` and
followed by `gap ≥ 1` blanks is EXACTLY `w + gap` cells wide, for every key at most `w` wide; `padVisible` itself gives
`max(w, StrLen(key))` cells -/
theorem key_cell_width (env : Env) (key : Bytes) (w : Int) (gap : Nat) (ht : Terminated env key) :
    strLen env (padVis env key w) = (if strLen env key ≤ w then w else strLen env key) ∧
    (strLen env key ≤ w → strLen env (wrap env cYellow (padVis env key w) ++ List.replicate (gap + 1) (32 : UInt8)) = w + (gap + 1 : Nat)) :=
  ⟨(padVis_props env key w ht).1, fun hw => (keyCell_width env key w gap ht hw).1⟩

/-- `histo_key_column_aligned`: in EVERY state the histogram can reach (`HistoInv`: a new histogram after any sequence of
`WriteForLine` / `UpdateTotal` calls, `histo_redraw_invariant`), the number of EVERY written line starts at the same visible
offset `textSpacing + 4` – the current key column width, which covers every key – whatever keys were written in whatever
order (a longer key re-draws all lines) -/
theorem histo_key_column_aligned {α : Type} {A : Arith α} {Dom : Int → Prop} (env : Env) (h : Histo) (vt : VirtualTerm)
    (hinv : HistoInv A Dom env h vt) (i : Nat) (key : Bytes) (val : Int) (hi : h.items[i]? = some (some (key, val)))
    (ht : Terminated env key) :
    ∃ line tail, vt.lines[i]? = some line ∧ StartsAt env line (h.textSpacing + 4) (h.fmt.apply val 0 h.maxVal ++ tail) := by
  obtain ⟨tail, hs⟩ := histo_line_number_at env h key val A ht (hinv.key_cover i key val hi)
  exact ⟨_, tail, hinv.drawn i key val hi, hs⟩

/-- `bars_key_column_aligned`: on every line of a drawn row (`RowDrawn`, e.g. every row of a render, `bars_render_current_scale`)
whose key the key column covers, the bar starts at visible offset `keyw + 2`: after the padded key on the first line,
after the indentation on the lower lines of a grouped row -/
theorem bars_key_column_aligned {α : Type} {A : Arith α} (env : Env) (c : BarCfg) (vt : VirtualTerm) (i : Nat) (row : Bytes × List Int)
    (h : RowDrawn A env c vt i row) (ht : Terminated env row.1) (hw : strLen env row.1 ≤ c.keyw) (h0 : 0 ≤ c.keyw) :
    (c.stacked = true → ∃ line, vt.lines[c.rowStart i]? = some line ∧ StartsAt env line (c.keyw + 2) (c.stackedRest env row.2)) ∧
    (c.stacked = false → ∀ (j : Nat) (v : Int), row.2[j]? = some v →
      ∃ line, vt.lines[c.rowStart i + j]? = some line ∧ StartsAt env line (c.keyw + 2) (c.groupedRest A env j v)) :=
  bars_row_key_column env c vt i row h ht hw h0

/-- `bars_render_aligned`: ONE RENDER of `rare bars` from any state `BarPre` (a new graph, or after any number of renders): EVERY
line of EVERY row of the render has its bar at the ONE visible offset `maxKeyLength' + 2` of the final state – whichever
row brought the longest key and wherever it stood in the order (before cde79bf the rows written before it kept the
narrower column until the next render; with `--snapshot` or piped output there is none) -/
theorem bars_render_aligned {α : Type} {A : Arith α} {Dom : Int → Prop} {Unit : α → Prop} {le : α → α → Prop} (U : UnitLaws A Dom Unit le)
    (env : Env) (g : BarGraph) (vt : VirtualTerm) (hpre : BarPre Dom g vt) (subKeys : List Bytes) (rows : List (Bytes × List Int))
    (hrows : ∀ row ∈ rows, (∀ v ∈ row.2, Dom v) ∧ (g.stacked = true ∨ row.2.length ≤ subKeys.length))
    (hterm : ∀ row ∈ rows, Terminated env row.1)
    (N : Nat) (hN : g.rows.length + rows.length ≤ N)
    (hgeo : g.prefixLines.toNat + 1 + (N + 1) * (subKeys.length + 1) < 4611686018427387904) :
    ∃ g' vt', g.writeOutput A env vt subKeys rows = .ok (g', vt') ∧
      ∀ (i : Nat) (row : Bytes × List Int), rows[i]? = some row →
        (g.stacked = true → ∃ line, vt'.lines[g'.cfg.rowStart i]? = some line ∧
          StartsAt env line (g'.maxKeyLength + 2) (g'.cfg.stackedRest env row.2)) ∧
        (g.stacked = false → ∀ (j : Nat) (v : Int), row.2[j]? = some v →
          ∃ line, vt'.lines[g'.cfg.rowStart i + j]? = some line ∧ StartsAt env line (g'.maxKeyLength + 2) (g'.cfg.groupedRest A env j v)) := by
  obtain ⟨g', vt', h1, hpre', hdr, hst, _, _, _, _, _, _, _, hkw, _, hcov⟩ := bars_render_inv U env g vt hpre subKeys rows hrows N hN hgeo
  refine ⟨g', vt', h1, ?_⟩
  intro i row hi
  have hmem := List.mem_of_getElem? hi
  have key := bars_row_key_column env g'.cfg vt' i row (hdr i row hi).2 (hterm row hmem) (by rw [hkw]; exact hcov row hmem)
    (by rw [hkw]; exact hpre'.key_nonneg)
  rw [hkw] at key
  rw [← hst]
  exact key

/-- the boundary of the class: a key that ENDS INSIDE a colour sequence (`ESC [ 3`, never produced by `{color …}`, which always
resets) swallows the padding in `StrLen`'s own scan: its padded cell is not `16 + 4` wide -/
theorem key_column_unterminated_counterexample :
    strLen ⟨true, true⟩ (27 :: ascii "[3") = 0 ∧ ¬ Terminated ⟨true, true⟩ (27 :: ascii "[3") ∧
    strLen ⟨true, true⟩ (wrap ⟨true, true⟩ cYellow (padVis ⟨true, true⟩ (27 :: ascii "[3") 16) ++ ascii "    ") ≠ 16 + 4 :=
  keyCell_unterminated_counterexample

/-! ## heatmap and sparkline as whole renderers -/

/-- the sparkline header (after c54b92c): when the first and the last displayed column name fit next to
each other, `First...Last` is exactly as wide as the sparkline below it – one cell per displayed column –
so the last name ends above the last column, for multi-byte names and names with colour sequences too
(before the repair the names were measured in bytes) -/
theorem spark_header_spans_columns (env : Env) (names : List Bytes) (ht : Terminated env names.head!)
    (hfit : strLen env names.head! + strLen env names.getLast! < names.length) :
    strLen env (sparkHeaderText env names) = names.length :=
  spark_header_spans env names ht hfit

/-- a heatmap cell and a sparkline glyph are one visible cell wide, colour and ASCII modes, unicode on or off -/
theorem cells_one_wide (env : Env) (c : Bytes) : (IsHeatCell env c → strLen env c = 1) ∧ (IsSparkGlyph c → strLen env c = 1) :=
  ⟨heatCell_width env c, sparkGlyph_width env c⟩

/-- `Heatmap.WriteTable` on ANY aggregated state (zero, negative, huge, equal values; any keys; no rows or
columns; more than fit), any scale, colour/unicode on or off, limits ≥ 0: it returns; displayed row `i` is
the key, blanks and exactly ONE cell per DISPLAYED column (`min(#columns, colCount)` of them – none when
there are no columns or `colCount = 0`); the rows note is written iff rows are cut and counts exactly
the rows not shown; the header ends with the column note iff columns are cut, counting exactly the
columns not shown -/
theorem heat_render_ok {L2 L10 : Rat → Rat} (h2 : LogLike L2) (h10 : LogLike L10) (env : Env) (h : Heatmap) (vt : VirtualTerm)
    (ho : vt.closed = false) (hrc : 0 ≤ h.rowCount) (hcc : 0 ≤ h.colCount) (rkeys ckeys : List Bytes) (c : Cells) :
    ∃ h' vt' hdr, h.writeTable (ratArith L2 L10) env vt rkeys ckeys c = .ok (h', vt') ∧ vt'.closed = false ∧
      (∀ (i : Nat) (r : Nat), (c.rows.take (mini c.rows.length h.rowCount).toNat)[i]? = some r →
        ∃ line, vt'.lines[2 + i]? = some line ∧ IsHeatRow env (keyAt rkeys r) (mini c.cols.length h.colCount).toNat line) ∧
      ((c.rows.length : Int) > mini c.rows.length h.rowCount →
        vt'.lines[2 + (mini c.rows.length h.rowCount).toNat]? =
          some (wrap env cBrightBlack (moreNote ((c.rows.length : Int) - mini c.rows.length h.rowCount))) ∧
        h'.currentRows = 3 + mini c.rows.length h.rowCount) ∧
      (¬ (c.rows.length : Int) > mini c.rows.length h.rowCount → h'.currentRows = 2 + mini c.rows.length h.rowCount) ∧
      vt'.lines[1]? = some hdr ∧
      (∃ body, hdr = (if mini (c.cols.length : Int) h.colCount < c.cols.length
        then body ++ wrap env cBrightBlack ([32] ++ moreNote ((c.cols.length : Int) - h.colCount)) else body)) :=
  heat_writeTable_ok h2 h10 env h vt ho hrc hcc rkeys ckeys c

/-- `Spark.WriteTable` on ANY aggregated state, any scale, colour/unicode on or off, limits ≥ 0: it returns,
the table invariant holds, every displayed row is (key, first value, ONE glyph per DISPLAYED column –
the last `min(#columns, colCount)` ones, none for 0 –, last value) with both values under the formatter and
the range of the CURRENT state, and the rows note counts exactly the rows not shown -/
theorem spark_render_ok {L2 L10 : Rat → Rat} (h2 : LogLike L2) (h10 : LogLike L10) (env : Env) (s : Spark) (vt : VirtualTerm)
    (hinv : TableInv env s.table vt) (hrc : 0 ≤ s.rowCount) (hcc : 0 ≤ s.colCount) (hmr : s.table.maxRows = s.rowCount + 1)
    (rkeys ckeys : List Bytes) (c : Cells) :
    ∃ s' vt' colIdx, s.writeTable (ratArith L2 L10) env vt rkeys ckeys c = .ok (s', vt') ∧ TableInv env s'.table vt' ∧
      s.shownCols c = .ok colIdx ∧ (colIdx.length : Int) = mini c.cols.length s.colCount ∧
      (∀ (i : Nat) (r : Nat), (s.shownRows c)[i]? = some r →
        ∃ row, s'.table.rows[i + 1]? = some row ∧ IsSparkRow env s rkeys c colIdx r row) ∧
      ((c.rows.length : Int) > mini c.rows.length s.rowCount →
        s'.footerOffset = 1 ∧ vt'.lines[s'.table.activeRows.toNat]? =
          some (wrap env cBrightBlack (moreNote ((c.rows.length : Int) - mini c.rows.length s.rowCount)))) ∧
      (¬ (c.rows.length : Int) > mini c.rows.length s.rowCount → s'.footerOffset = 0) :=
  spark_writeTable_ok h2 h10 env s vt hinv hrc hcc hmr rkeys ckeys c

/-- `heat_render_ok` for EVERY float instance satisfying `UnitLaws` – in particular the real binary64 computation on int64
cell values (`float_laws_f64`; the seeded change C14-degenerate-range-nan made exactly this renderer index its
palette with `int(NaN)`): `Heatmap.WriteTable` on any aggregated state whose cell values (and fixed range ends) are in
the domain returns; one cell per displayed column; exact row and column notes -/
theorem heat_render_ok_any {α : Type} {A : Arith α} {Dom : Int → Prop} {Unit : α → Prop} {le : α → α → Prop} (U : UnitLaws A Dom Unit le)
    (env : Env) (h : Heatmap) (vt : VirtualTerm) (ho : vt.closed = false) (hrc : 0 ≤ h.rowCount) (hcc : 0 ≤ h.colCount)
    (rkeys ckeys : List Bytes) (c : Cells) (hc : DomCells Dom c) (hmn : Dom h.minVal) (hmx : Dom h.maxVal) :
    ∃ h' vt' hdr, h.writeTable A env vt rkeys ckeys c = .ok (h', vt') ∧ vt'.closed = false ∧
      (∀ (i : Nat) (r : Nat), (c.rows.take (mini c.rows.length h.rowCount).toNat)[i]? = some r →
        ∃ line, vt'.lines[2 + i]? = some line ∧ IsHeatRow env (keyAt rkeys r) (mini c.cols.length h.colCount).toNat line) ∧
      ((c.rows.length : Int) > mini c.rows.length h.rowCount →
        vt'.lines[2 + (mini c.rows.length h.rowCount).toNat]? =
          some (wrap env cBrightBlack (moreNote ((c.rows.length : Int) - mini c.rows.length h.rowCount))) ∧
        h'.currentRows = 3 + mini c.rows.length h.rowCount) ∧
      (¬ (c.rows.length : Int) > mini c.rows.length h.rowCount → h'.currentRows = 2 + mini c.rows.length h.rowCount) ∧
      vt'.lines[1]? = some hdr ∧
      (∃ body, hdr = (if mini (c.cols.length : Int) h.colCount < c.cols.length
        then body ++ wrap env cBrightBlack ([32] ++ moreNote ((c.cols.length : Int) - h.colCount)) else body)) :=
  heat_writeTable_ok_u U env h vt ho hrc hcc rkeys ckeys c hc hmn hmx

/-- `spark_render_ok` for EVERY float instance satisfying `UnitLaws` (binary64 on int64 cell values included) -/
theorem spark_render_ok_any {α : Type} {A : Arith α} {Dom : Int → Prop} {Unit : α → Prop} {le : α → α → Prop} (U : UnitLaws A Dom Unit le)
    (env : Env) (s : Spark) (vt : VirtualTerm) (hinv : TableInv env s.table vt) (hrc : 0 ≤ s.rowCount) (hcc : 0 ≤ s.colCount)
    (hmr : s.table.maxRows = s.rowCount + 1) (rkeys ckeys : List Bytes) (c : Cells) (hc : DomCells Dom c) :
    ∃ s' vt' colIdx, s.writeTable A env vt rkeys ckeys c = .ok (s', vt') ∧ TableInv env s'.table vt' ∧
      s.shownCols c = .ok colIdx ∧ (colIdx.length : Int) = mini c.cols.length s.colCount ∧
      (∀ (i : Nat) (r : Nat), (s.shownRows c)[i]? = some r →
        ∃ row, s'.table.rows[i + 1]? = some row ∧ IsSparkRow env s rkeys c colIdx r row) ∧
      ((c.rows.length : Int) > mini c.rows.length s.rowCount →
        s'.footerOffset = 1 ∧ vt'.lines[s'.table.activeRows.toNat]? =
          some (wrap env cBrightBlack (moreNote ((c.rows.length : Int) - mini c.rows.length s.rowCount)))) ∧
      (¬ (c.rows.length : Int) > mini c.rows.length s.rowCount → s'.footerOffset = 0) :=
  spark_writeTable_ok_u U env s vt hinv hrc hcc hmr rkeys ckeys c hc

/-! ## the legend line of the heatmap (`Heatmap.UpdateMinMax`, `Scaler.ScaleKeys`) -/

/-- `ScaleKeys(6, min, max)` for EVERY instance of the float operations, every scaler and range: between one and six keys,
no two neighbouring keys equal (consecutive duplicates are dropped), the first and the last key are the first and the last
of the six raw values `int64(unmapVal((maxf-minf)*i/5 + minf))` -/
theorem legend_keys_shape {α : Type} (A : Arith α) (k : Scaler) (min max : Int) :
    1 ≤ (scaleKeys A k 6 min max).length ∧ (scaleKeys A k 6 min max).length ≤ 6 ∧
    (∀ (i : Nat) (a b : Int), (scaleKeys A k 6 min max)[i]? = some a → (scaleKeys A k 6 min max)[i + 1]? = some b → a ≠ b) ∧
    (scaleKeys A k 6 min max).head? = (rawKeys A k 6 min max).head? ∧
    (scaleKeys A k 6 min max).getLast? = (rawKeys A k 6 min max).getLast? := by
  obtain ⟨a, b, c, d, e⟩ := scaleKeys_shape A k 6 min max (by decide)
  exact ⟨a, by omega, c, d, e⟩

/-- THE LEGEND LINE, for every float instance satisfying `UnitLaws` (binary64 on int64 included), every scaler, colour/unicode
on or off, any range in the domain: `Heatmap.UpdateMinMax(min, max)` – the first step of every `WriteTable` – returns and
writes line 0 = the indentation of the row-key column, then for the `i`-th key `k` of `ScaleKeys(6, min, max)` (four blanks
between entries) ONE heat cell – the very cell `HeatWrite(Scale(k, min, max))` a data cell of value `k` gets in the rows
below –, a blank and `Formatter(k, min, max)`: the displayed number is the key under the chosen formatter and the range of
this call.  No other line changes. -/
theorem heat_legend_line {α : Type} {A : Arith α} {Dom : Int → Prop} {Unit : α → Prop} {le : α → α → Prop} (U : UnitLaws A Dom Unit le)
    (env : Env) (h : Heatmap) (vt : VirtualTerm) (ho : vt.closed = false) (mn mx : Int) (hmn : Dom mn) (hmx : Dom mx) :
    ∃ (vt' : VirtualTerm) (parts : List Bytes), h.updateMinMax A env vt mn mx = .ok ({ h with minVal := mn, maxVal := mx }, vt') ∧ vt'.closed = false ∧
      vt'.lines[0]? = some (writeRepeat 32 (h.maxRowKeyWidth + 1) ++ parts.flatten) ∧
      parts.length = (scaleKeys A h.scaler 6 mn mx).length ∧
      (∀ (i : Nat) (k : Int), (scaleKeys A h.scaler 6 mn mx)[i]? = some k →
        Dom k ∧ ∃ cell, heatWrite A env (scale A h.scaler k mn mx) = .ok cell ∧ IsHeatCell env cell ∧
          parts[i]? = some ((if i > 0 then ascii "    " else []) ++ cell ++ [32] ++ h.fmt.apply k mn mx)) ∧
      (∀ j x, j ≠ 0 → vt.lines[j]? = some x → vt'.lines[j]? = some x) :=
  heat_legend_line_u U env h vt ho mn mx hmn hmx

/-- THE LEGEND AFTER A WHOLE RENDER: `Heatmap.WriteTable` on any aggregated state (as in `heat_render_ok_any`) leaves on line 0 the
legend of the range the cells of THIS render are coloured with (`UpdateMinMaxFromData`: the data range, fixed ends kept) – the
header, the rows and the rows note never touch it.  `IsLegendLine` is the description of `heat_legend_line`: indentation,
then per key of `ScaleKeys(6, min, max)` one heat cell of `Scale(key, min, max)`, a blank, `Formatter(key, min, max)`. -/
theorem heat_render_legend {α : Type} {A : Arith α} {Dom : Int → Prop} {Unit : α → Prop} {le : α → α → Prop} (U : UnitLaws A Dom Unit le)
    (env : Env) (h : Heatmap) (vt : VirtualTerm) (ho : vt.closed = false) (hrc : 0 ≤ h.rowCount) (hcc : 0 ≤ h.colCount)
    (rkeys ckeys : List Bytes) (c : Cells) (hc : DomCells Dom c) (hmn : Dom h.minVal) (hmx : Dom h.maxVal) :
    ∃ h' vt' line, h.writeTable A env vt rkeys ckeys c = .ok (h', vt') ∧ vt'.lines[0]? = some line ∧
      IsLegendLine A env h (h.range c).1 (h.range c).2 line :=
  heat_writeTable_legend_u U env h vt ho hrc hcc rkeys ckeys c hc hmn hmx

/-- THE LINEAR LEGEND (the default scale) over exact rationals, `min < max`: the keys are STRICTLY INCREASING, the first is
`min` and the last is `max`, so every key lies in the range the heatmap is drawn with – coldest cell first, hottest last -/
theorem legend_linear_exact (L2 L10 : Rat → Rat) (mn mx : Int) (hlt : mn < mx) :
    (scaleKeys (ratArith L2 L10) .linear 6 mn mx).Pairwise (· < ·) ∧
    (scaleKeys (ratArith L2 L10) .linear 6 mn mx).head? = some mn ∧
    (scaleKeys (ratArith L2 L10) .linear 6 mn mx).getLast? = some mx ∧
    (∀ k ∈ scaleKeys (ratArith L2 L10) .linear 6 mn mx, mn ≤ k ∧ k ≤ mx) :=
  scaleKeys_linear_rat L2 L10 mn mx hlt

/-- the boundary of `legend_linear_exact` on the real float computation (a documented quirk of the LEGEND only – the cells and
numbers of the rows are covered by `heat_render_ok_any`): binary64 has 53 bits, so above `2^53` the last key is `max` rounded
(`2^53 + 1` shows as `2^53`) or one ulp below it (`(d*5)/5` rounds twice: `2^63 - 513` shows as `2^63 - 2048`), and from `max ≥ 2^63 - 512` on `float64(max)` is `2^63`, whose `int64(…)` wraps on amd64: the
last legend entry reads `MinInt64` with the coldest cell.  Small ranges are exact: `[0,10]` gives `0 2 4 6 8 10`, `[0,3]` gives
`0 1 2 3` (duplicates dropped), a degenerate range `[3,3]` gives `3 4` (the range is widened to `[min, min+1]`). -/
theorem legend_linear_f64_boundary :
    scaleKeys (f64Arith id id id id) .linear 6 0 10 = [0, 2, 4, 6, 8, 10] ∧
    scaleKeys (f64Arith id id id id) .linear 6 0 3 = [0, 1, 2, 3] ∧
    scaleKeys (f64Arith id id id id) .linear 6 3 3 = [3, 4] ∧
    (scaleKeys (f64Arith id id id id) .linear 6 (-7) 9007199254740993).getLast? = some 9007199254740992 ∧
    (scaleKeys (f64Arith id id id id) .linear 6 0 9223372036854775295).getLast? = some 9223372036854773760 ∧
    (scaleKeys (f64Arith id id id id) .linear 6 0 9223372036854775296).getLast? = some (-9223372036854775808) ∧
    (scaleKeys (f64Arith id id id id) .linear 6 0 9223372036854775807).getLast? = some (-9223372036854775808) := by
  decide +kernel

/-- THE LINEAR LEGEND ON THE REAL FLOAT COMPUTATION (`legend_linear_exact` carried over to IEEE-754 binary64, the operations Go
performs): for every range `min < max` with both ends floats (`|·| ≤ 2^53`) and `(max - min) * 5 ≤ 2^53` – every range within
`±2^49` is one, and so is `[2^53 - 10, 2^53]` – the keys of `ScaleKeys(6, min, max)` are STRICTLY INCREASING, the first is `min`,
the last is `max` and every key lies in `[min, max]`.  In this class `float64(min/max)`, `Floor/Ceil`, the span and the
products `span * float64(i)` are exact; the quotient by `float64(5)` and the sum with `minf` round once each, rounding is
monotone and fixes the floats `min` and `max` (`Proofs/C14LegendF64.lean`).  The logarithm / power parameters are arbitrary:
the linear scaler never calls them. -/
theorem legend_linear_f64 (L2 L10 P2 P10 : F64 → F64) (mn mx : Int) (hlt : mn < mx)
    (hmn : -9007199254740992 ≤ mn) (hmx : mx ≤ 9007199254740992) (hspan : (mx - mn) * 5 ≤ 9007199254740992) :
    (scaleKeys (f64Arith L2 L10 P2 P10) .linear 6 mn mx).Pairwise (· < ·) ∧
    (scaleKeys (f64Arith L2 L10 P2 P10) .linear 6 mn mx).head? = some mn ∧
    (scaleKeys (f64Arith L2 L10 P2 P10) .linear 6 mn mx).getLast? = some mx ∧
    (∀ k ∈ scaleKeys (f64Arith L2 L10 P2 P10) .linear 6 mn mx, mn ≤ k ∧ k ≤ mx) :=
  scaleKeys_linear_f64 L2 L10 P2 P10 mn mx hlt ⟨hmn, hmx, hspan⟩

/-- the class of `legend_linear_f64` is SHARP in the span (kernel-checked on the very definitions of the theorem): the widest
span inside it, `⌊2^53 / 5⌋ = 1801439850948198`, still ends in `max`; three more and `span * 5` is no float any longer – the
product rounds, the quotient by 5 rounds again and the last legend entry reads `max - 1` (a documented quirk of the LEGEND of
very wide ranges, as in `legend_linear_f64_boundary`; the cells and numbers of the rows do not depend on it).  The ends may be
as large as `2^53` when the span is small. -/
theorem legend_linear_f64_span_boundary :
    scaleKeys (f64Arith id id id id) .linear 6 0 1801439850948198 =
      [0, 360287970189639, 720575940379279, 1080863910568918, 1441151880758558, 1801439850948198] ∧
    (scaleKeys (f64Arith id id id id) .linear 6 0 1801439850948201).getLast? = some 1801439850948200 ∧
    scaleKeys (f64Arith id id id id) .linear 6 9007199254740982 9007199254740992 =
      [9007199254740982, 9007199254740984, 9007199254740986, 9007199254740988, 9007199254740990, 9007199254740992] ∧
    scaleKeys (f64Arith id id id id) .linear 6 (-9007199254740992) (-9007199254740985) =
      [-9007199254740992, -9007199254740991, -9007199254740989, -9007199254740988, -9007199254740986, -9007199254740985] := by
  decide +kernel

/-- DEGENERATE OR REVERSED RANGE on the real float computation (`max ≤ min`: every cell holds the same value, or fixed ends the
wrong way round): `remapMinMax` widens the range to `[min, min + 1]` and the legend is EXACTLY the two numbers `min`, `min + 1`,
for every `min` with `-2^53 ≤ min < 2^53` (so `legend_linear_f64` and this theorem together cover every pair of ends in that
class; here the value of `max` does not matter at all). -/
theorem legend_linear_f64_degenerate (L2 L10 P2 P10 : F64 → F64) (mn mx : Int) (hle : mx ≤ mn)
    (hmn : -9007199254740992 ≤ mn) (hmn' : mn < 9007199254740992) :
    scaleKeys (f64Arith L2 L10 P2 P10) .linear 6 mn mx = [mn, mn + 1] :=
  scaleKeys_linear_f64_deg L2 L10 P2 P10 mn mx hle hmn hmn'

/-- the boundary of `legend_linear_f64_degenerate` (kernel-checked): at `min = 2^53` the widened end `2^53 + 1` is no float,
`float64` rounds it back to `2^53`, the span is 0 and the legend is the single number `2^53`; one below, and at `-2^53`, there
are two numbers; a reversed range `[5, -5]` shows `5 6`. -/
theorem legend_linear_f64_degenerate_boundary :
    scaleKeys (f64Arith id id id id) .linear 6 9007199254740992 9007199254740992 = [9007199254740992] ∧
    scaleKeys (f64Arith id id id id) .linear 6 9007199254740991 7 = [9007199254740991, 9007199254740992] ∧
    scaleKeys (f64Arith id id id id) .linear 6 (-9007199254740992) (-9007199254740992) = [-9007199254740992, -9007199254740991] ∧
    scaleKeys (f64Arith id id id id) .linear 6 5 (-5) = [5, 6] := by
  decide +kernel

/-- the cell values of every reachable aggregated state are int64: `Cells.sample` (the aggregators' `+=`) wraps -/
theorem sampled_cells_int64 (c : Cells) (hc : DomCells I64 c) (r k : Nat) (inc : Int) : DomCells I64 (c.sample r k inc) := by
  unfold Cells.sample
  split
  · intro e he
    obtain ⟨e0, h0, rfl⟩ := List.mem_map.mp he
    split
    · exact i64_wrap _
    · exact hc e0 h0
  · intro e he
    rcases List.mem_append.mp he with h | h
    · exact hc e h
    · simp at h; subst h; exact i64_wrap _

/-- '(n more)': the rows note shows exactly the rows not drawn and appears iff there are any; the
column note of the heatmap header shows exactly the columns not drawn -/
theorem more_notes_exact {α : Type} (rows : List α) (limit : Int) (hl : 0 ≤ limit) (ncols colLimit : Int) :
    (((rows.take (mini rows.length limit).toNat).length : Int) = mini rows.length limit ∧
     (rows.length : Int) - mini rows.length limit = (Spec.notShown rows.length (rows.take (mini rows.length limit).toNat).length : Nat) ∧
     (((rows.length : Int) > mini rows.length limit) ↔ 0 < Spec.notShown rows.length (rows.take (mini rows.length limit).toNat).length)) ∧
    (mini ncols colLimit < ncols → ncols - colLimit = ncols - mini ncols colLimit) :=
  ⟨more_rows_arith rows limit hl, more_cols_arith ncols colLimit⟩

/-! ## non-vacuity -/

/-- `LogLike` is satisfiable (so the scaler theorems are not vacuous): a piecewise-linear stand-in -/
theorem logLike_example : LogLike (fun x : Rat => x - 1) :=
  ⟨fun x y _ h => by grind, fun x h => by grind⟩

example : scale (ratArith (fun x => x - 1) (fun x => x - 1)) .linear 5 0 10 = 1 / 2 := by decide +kernel
example : scale (ratArith (fun x => x - 1) (fun x => x - 1)) .linear 9223372036854775807 9223372036854775807 9223372036854775807 = 0 := by
  decide +kernel
example : bucket (ratArith id id) 16 (1 : Rat) = 15 ∧ bucket (ratArith id id) 16 (0 : Rat) = 0 := by decide +kernel
example : barBlocks 10 34 7 = 2 ∧ barBlocks 0 0 50 = 0 ∧ barBlocks 4611686018427387904 4611686018427387904 50 = 50 ∧
    barBlocks (-6917529027641081856) 1 50 = 0 := by decide
example : stackedBlocks 20 50 [10, 10, -15] = 50 ∧ posSum [10, 10, -15] = 20 := by decide
example : (barWriteStacked ⟨false, false⟩ 0 50 [0]).toOption = some [] := by decide +kernel
example : (Heatmap.headerText ⟨false, true⟩ { rowCount := 5, colCount := 10 } [[]]).toOption = some (ascii " .", 1) := by decide +kernel
example : (Heatmap.headerText ⟨false, true⟩ { rowCount := 5, colCount := 2 } [ascii "a", ascii "b", ascii "c"]).toOption
    = some (ascii " a. (1 more)", 2) := by decide +kernel
/-- a concrete `WriteRow`/`WriteFooter` sequence (hypotheses of `table_aligned` satisfiable): a third cell
beyond `maxCols`, a gap row, a footer, a later row that widens column 1 (row 0 is re-drawn) and starts
with a truncated UTF-8 sequence, a row beyond `maxRows` -/
example : (do let t ← TableWriter.new 2 3
              let r ← TableWriter.runOps ⟨false, true⟩ (t, VirtualTerm.new)
                [.row 0 [ascii "ab", ascii "c", ascii "dropped"], .row 2 [ascii "x"], .footer 0 (ascii "F"),
                 .row 1 [[0xe6, 0x97], ascii "long cell"], .row 7 [ascii "ignored"]]
              pure (r.2.lines, r.1.colWidth) : Res (List Bytes × List Int)).toOption
    = some ([ascii "ab c         ", [0xe6, 0x97] ++ ascii " long cell ", ascii "x  ", ascii "F"], [2, 9]) := by decide +kernel
example : ∀ op ∈ [TableOp.row 0 [ascii "ab"], TableOp.footer 1 (ascii "F")], op.NonNeg := by
  intro op h; simp at h; rcases h with rfl | rfl <;> simp [TableOp.NonNeg]
example : colOffset [2, 9] 0 = 0 ∧ colOffset [2, 9] 1 = 3 ∧ colOffset [2, 9] 2 = 13 := by decide
example : strLen ⟨true, true⟩ (27 :: ascii "[31mred" ++ 27 :: ascii "[0m") = 3 := by decide +kernel
example : Terminated ⟨true, true⟩ (27 :: ascii "[31mred") ∧ ¬ Terminated ⟨true, true⟩ (27 :: ascii "[3") := by
  constructor
  · intro _; decide +kernel
  · intro h; exact absurd (h rfl) (by decide +kernel)

/-! non-vacuity of the binary64 theorems -/
example : LogLikeF64 (fun x => F64.sub x F64.one) := logLikeF64_sub_one
example : I64 9007199254740993 ∧ I64 (-9223372036854775808) ∧ ¬ I64 9223372036854775808 := by
  unfold I64 minInt64 maxInt64; omega
/-- 1/3 is rounded once by the division: `0x3FD5555555555555` -/
example : scale (f64Arith id id id id) .linear 1 0 3 = ⟨0x3FD5555555555555, by decide⟩ := by decide +kernel
/-- the whole int64 range: `float64(2^63-1)` rounds to `2^63`, the span to `2^64`; the result is still a unit float -/
example : scale (f64Arith id id id id) .linear 4611686018427387905 (-9223372036854775808) 9223372036854775807 = ⟨0x3FE8000000000000, by decide⟩ := by
  decide +kernel
example : UnitF64 F64.one ∧ UnitF64 (F64.zero false) ∧ ¬ UnitF64 F64.nan := by
  refine ⟨⟨by decide, by decide +kernel, by decide +kernel⟩, ⟨by decide, by decide +kernel, by decide +kernel⟩, fun h => absurd h.1 (by decide)⟩
example : bucket (f64Arith id id id id) 16 F64.one = 15 ∧ bucket (f64Arith id id id id) 16 (F64.zero false) = 0 ∧
    lengthVal (f64Arith id id id id) 450 F64.one = 450 := by decide +kernel
/-- what the guard protects the palettes from: `int(NaN * 15)` is `MinInt64` on amd64 -/
example : bucket (f64Arith id id id id) 16 F64.nan = -9223372036854775808 := by decide +kernel

/-! non-vacuity of the renderer invariants (binary64 instance) -/
example : UnitLaws (f64Arith (fun x => F64.sub x F64.one) (fun x => F64.sub x F64.one) id id) I64 UnitF64 (fun u v => u.toRat ≤ v.toRat) :=
  float_laws_f64 logLikeF64_sub_one logLikeF64_sub_one
example : ∃ h, Histo.new 3 true false .linear .raw = .ok h ∧ HistoInv (f64Arith (fun x => F64.sub x F64.one) (fun x => F64.sub x F64.one) id id) I64 ⟨false, false⟩ h VirtualTerm.new :=
  ⟨_, rfl, (histo_new_invariant (float_laws_f64 logLikeF64_sub_one logLikeF64_sub_one) ⟨false, false⟩ 3 true false .linear .raw _ rfl).1⟩
example : ∀ op ∈ [HistoOp.total 10, .line 0 (ascii "b") 3, .line 1 (ascii "c") 6, .line 2 (ascii "a key longer than sixteen") 0, .line 3 (ascii "at the end") 1,
    .line 7 (ascii "beyond") 1], op.Valid I64 := by
  intro op h
  simp at h
  rcases h with rfl | rfl | rfl | rfl | rfl | rfl <;> simp [HistoOp.Valid, I64, minInt64, maxInt64]
/-- a line AT `maxLines` (the call that indexed out of range before 4855857) and one beyond it are ignored: nothing is written,
the state is unchanged -/
example : (do let h ← Histo.new 3 true false .linear .raw
               let r ← Histo.runOps (f64Arith id id id id) ⟨false, false⟩ (h, VirtualTerm.new) [.line 3 (ascii "at the end") 9, .line 7 (ascii "beyond") 9]
               pure (r.2.lines.length, r.1.maxVal, r.1.items.map Option.isSome) : Res (Nat × Int × List Bool)).toOption
    = some (0, 0, [false, false, false]) := by decide +kernel
/-- the redraw at work, on binary64: row 0 is written with maximum 3 (a full bar), then row 1 raises the maximum to 6
and row 0 is redrawn at half length; the count-0 row with the long key is drawn too (7b183e0) -/
example : (do let h ← Histo.new 3 true false .linear .raw
               let r ← Histo.runOps (f64Arith id id id id) ⟨false, false⟩ (h, VirtualTerm.new)
                 [.total 10, .line 0 (ascii "b") 3, .line 1 (ascii "c") 6, .line 2 (ascii "a key longer than sixteen") 0]
               pure (r.2.lines.map (fun l => (l.filter (· == 124)).length), r.2.lines.map List.length, r.1.maxVal, r.1.textSpacing) :
            Res (List Nat × List Nat × Int × Int)).toOption
    = some ([25, 50, 0], [65, 90, 40], 6, 25) := by decide +kernel
example : BarPre I64 ({ stacked := false, barSize := 50, scaler := Scaler.linear, fmt := Fmt.raw } : BarGraph) VirtualTerm.new :=
  bars_new_invariant (float_laws_f64 (P2 := id) (P10 := id) logLikeF64_sub_one logLikeF64_sub_one) false 50 .linear .raw (by decide) (by decide)
/-- a grouped render on binary64: `b`'s value 8 raises the maximum while the rows are written; `a`'s bar is redrawn: 2/8 of 50 -/
example : (do let r ← BarGraph.writeOutput (f64Arith id id id id) ⟨false, false⟩ { barSize := 50, scaler := Scaler.linear, fmt := Fmt.raw } VirtualTerm.new [ascii "x"] [(ascii "a", [2]), (ascii "b", [8])]
              pure (r.2.lines.map (fun l => (l.filter (· == 124)).length), r.1.maxLineVal) : Res (List Nat × Int)).toOption
    = some ([0, 12, 50], 8) := by decide +kernel
example : Terminated ⟨true, true⟩ [0xe6, 0x97, 0xa5] ∧ Terminated ⟨true, true⟩ (27 :: ascii "[31mred" ++ 27 :: ascii "[0m") := by
  constructor <;> intro _ <;> decide +kernel

/-- the key column at work (colour on): a plain key and a key coloured by `{color red …}` are both padded to 16 visible cells
(`%-16s` counted the 9 runes of the colour codes: 7 cells) -/
example : strLen ⟨true, true⟩ (wrap ⟨true, true⟩ cYellow (padVis ⟨true, true⟩ (ascii "abc") 16)) = 16 ∧
    strLen ⟨true, true⟩ (wrap ⟨true, true⟩ cYellow (padVis ⟨true, true⟩ (cRed ++ ascii "abc" ++ cReset) 16)) = 16 ∧
    strLen ⟨true, true⟩ (wrap ⟨true, true⟩ cYellow (padRight (cRed ++ ascii "abc" ++ cReset) 16)) = 7 := by decide +kernel
/-- a render in `--sort value` order: the short key `b` (value 5) is written first, then `abcdefghij` (value 1) widens the key
column and `b` is re-drawn (cde79bf): both bars start in column 12 -/
example : (do let r ← BarGraph.writeOutput (f64Arith id id id id) ⟨false, false⟩ { barSize := 50, scaler := Scaler.linear, fmt := Fmt.raw } VirtualTerm.new [ascii "x"]
                [(ascii "b", [5]), (ascii "abcdefghij", [1])]
              pure (r.2.lines.drop 1 |>.map (fun l => (l.takeWhile (· != 124)).length), r.1.maxKeyLength) : Res (List Nat × Int)).toOption
    = some ([12, 12], 10) := by decide +kernel

/-- the legend at work on binary64 (ASCII mode, range [0,10]): six entries `cell number`, coldest `-` to hottest `9` -/
example : ((Heatmap.updateMinMax (f64Arith id id id id) ⟨false, false⟩ { rowCount := 5, colCount := 10 } VirtualTerm.new 0 10).toOption.map fun r => r.2.lines)
    = some [ascii " - 0    1 2    3 4    5 6    7 8    9 10"] := by decide +kernel
example : DomCells I64 (Cells.sample [] 0 0 1700000000000000000) := sampled_cells_int64 [] (by intro e he; cases he) 0 0 _
/-- the state of the seeded demo (one cell, 1.7e18, linear scale) on binary64: the heatmap renders; its one cell is the lowest colour -/
example : ((Heatmap.writeTable (f64Arith id id id id) ⟨false, false⟩ { rowCount := 5, colCount := 10 } VirtualTerm.new [ascii "a"] [ascii "x"]
    (Cells.sample [] 0 0 1700000000000000000)).toOption.map fun r => r.2.lines.drop 1) = some [ascii " x", ascii "a -"] := by decide +kernel
/-- the compiled form of `{0}/{2}`: the same value under another maximum gives another text -/
example : exprFormat [Expr.Comp.match_ 0, Expr.Stage.lit (ascii "/"), Expr.Comp.match_ 2] 5 0 9 = ascii "5/9" ∧
    exprFormat [Expr.Comp.match_ 0, Expr.Stage.lit (ascii "/"), Expr.Comp.match_ 2] 5 0 12 = ascii "5/12" := by decide +kernel
/-- reduce row: one group column, a key with three parts, one data column (the state that panicked before 73473fc) -/
example : Reduce.rowCells ⟨false, true⟩ { table := ⟨2, 3, 0, [0, 0], [[], [], []]⟩, gnames := [ascii "k"], dnames := [ascii "n"] }
    [97, 0, 98, 0, 99] [ascii "1"] = [ascii "a", ascii "1"] := by decide +kernel
/-- two frames into one table: `alpha` alone, then the empty group value in front of it – the first data row of the second
frame carries an empty label -/
example : (Reduce.new 10 20 [ascii "grp"] [ascii "total"] >>= fun r => r.start ⟨false, true⟩ VirtualTerm.new >>= fun st =>
    Reduce.renderAll ⟨false, true⟩ (ascii "F0") (ascii "F1") st
      [[(ascii "alpha", [ascii "i1"])], [([], [ascii "i5"]), (ascii "alpha", [ascii "i1"])]] >>= fun st =>
    pure (st.2.lines.take 3)).toOption = some [ascii "grp   total ", ascii "      i5    ", ascii "alpha i1    "] := by decide +kernel
/-- the hypotheses of `datatable_numbers` / `spark_render_ok` hold for the writers the commands build -/
example : ∃ d, DataTable.new 10 20 true true = .ok d ∧ d.table.maxRows = d.numRows + 2 ∧ 0 ≤ d.numCols ∧ 0 ≤ d.numRows :=
  ⟨_, rfl, by decide, by decide, by decide⟩
example : ∃ s, Spark.new 20 10 .linear .hi = .ok s ∧ s.table.maxRows = s.rowCount + 1 ∧ 0 ≤ s.rowCount ∧ 0 ≤ s.colCount :=
  ⟨_, rfl, by decide, by decide, by decide⟩
/-- eight columns named 日本1 … 日本8: the header is 8 cells wide (it was 6 when names were measured in bytes) -/
example : strLen ⟨false, true⟩ (sparkHeaderText ⟨false, true⟩ ((List.range 8).map fun i => [0xe6, 0x97, 0xa5, 0xe6, 0x9c, 0xac, UInt8.ofNat (49 + i)])) = 8 := by
  decide +kernel
/-- what `heat_render_ok` says of a drawn row: key, blanks, one cell per displayed column (here one, ASCII mode) -/
example : IsHeatRow ⟨false, false⟩ (ascii "r0") 1 (ascii "r0 3") :=
  ⟨1, [ascii "3"], by decide +kernel, rfl, by intro c hc; simp at hc; subst hc; exact Or.inl (by decide +kernel)⟩
example : (VirtualTerm.new).closed = false ∧ (0 : Int) ≤ ({ rowCount := 1, colCount := 0 } : Heatmap).colCount := ⟨rfl, by decide⟩

end Rare.C14
