import Rare.Proofs.C11Str
import Rare.Proofs.C11Float
import Rare.Gen.C11
import Rare.Proofs.C11Format
import Rare.Proofs.C11Hf
import Rare.Proofs.C11CaseC13
import Rare.Proofs.C11R4
import Rare.Proofs.C11Log
import Rare.Proofs.C17Atoi
import Rare.Proofs.C11Arity
import Rare.Proofs.C11Percent
import Rare.Proofs.C11CaseIdem
import Rare.Proofs.C11CaseIdemStr
/-!
# C11 — scalar helper functions follow their documented semantics

Vocabulary (defined in `Rare/Proofs/C11.lean`): an argument `Arg` is a constant written in the
template, a match group or a named key; `Arg.val c a` is its value in context `c`;
`callHelper builder args c` builds the helper with those arguments exactly as the compiler does
(static evaluation of constants included) and evaluates the resulting stage in `c`
(`.error` = the Go code would panic).  Theorems are therefore statements about both the
static-evaluation path and the run-time path.  Value-level theorems (`bucket_floor`, `substr_spec`,
`hi_only_separators` …) are about the pure functions those stages call; the `*_call` theorems tie
the two levels together.

Float-valued helpers (`sumf … divf`, `floor ceil round sqrt`, `lt … gte`, `isnum`, `hf`, `percent`,
`bytesize…`) are modelled on the software binary64 model `Rare/Base/F64.lean` (a float is its bit
pattern; every operation is the correctly rounded exact rational result; no `Float` anywhere) with
the modelled `strconv.ParseFloat` / `FormatFloat` of `Rare/Base/F64Str.lean`.  The last two sections
state the IEEE facts (`f64_*`: round trip, exact integers, monotone rounding, exact operations,
order = order of values, floor/ceil/trunc/round) and what the helpers compute from them.  `pow` and
`log10/log2/ln` (Go's `math.Pow`, `math.Log*`) stay outside the model.
-/
namespace Rare.C11
open Rare Rare.Expr Rare.Expr.Funcs

/-! ## integer folds: sumi, subi, multi, divi, modi, maxi, mini -/

/-- `{op a₀ a₁ … aₙ}` (n ≥ 1), every argument an integer, constants and match groups alike:
    the result is the left fold of the wrapped int64 operation, printed in decimal; when the
    operation rejects its operands (division by zero) the result is the `<VALUE>` marker.
    No panic. -/
theorem fold_int (op : Arith.IntOp) (c : Ctx) (as : List Arg) (n : Int) (ns : List Int)
    (hp : as.map (fun a => atoi (a.val c)) = (n :: ns).map some) (hlen : 1 ≤ ns.length) :
    callHelper (Arith.intHelper op) as c = .ok (match foldOp op n ns with
      | some r => itoa r
      | none => ErrorValue) :=
  intHelper_fold op c as n ns hp hlen

/-- For the five total operations the checked fold is the plain left fold of `Spec.foldInts`. -/
theorem fold_int_total (f : Int → Int → Int) (n : Int) (ns : List Int) :
    foldOp (fun a b => some (f a b)) n ns = Spec.foldInts f (n :: ns) := by
  unfold Spec.foldInts
  induction ns generalizing n with
  | nil => rfl
  | cons x r ih => simp only [foldOp, List.foldl_cons]; exact ih (f n x)

/-- The table of `funcs.go`, spelled out: each helper is the fold of this wrapped operation. -/
theorem fold_int_ops (a b : Int) :
    Arith.opSum a b = some (wrap64 (a + b)) ∧ Arith.opSub a b = some (wrap64 (a - b)) ∧
    Arith.opMul a b = some (wrap64 (a * b)) ∧
    Arith.opMax a b = some (max a b) ∧ Arith.opMin a b = some (min a b) ∧
    (b ≠ 0 → Arith.opDiv a b = some (goDiv a b) ∧ Arith.opMod a b = some (goMod a b)) ∧
    Arith.opDiv a 0 = none ∧ Arith.opMod a 0 = none := by
  refine ⟨rfl, rfl, rfl, ?_, ?_, ?_, by simp [Arith.opDiv], by simp [Arith.opMod]⟩
  · simp only [Arith.opMax]; congr 1; split <;> omega
  · simp only [Arith.opMin]; congr 1; split <;> omega
  · intro hb; simp [Arith.opDiv, Arith.opMod, hb]

example : (callHelper (Arith.intHelper Arith.opSum)
    [.const (ascii "9223372036854775807"), .group 0] ⟨fun _ => ascii "1", fun _ => []⟩).toOption
    = some (ascii "-9223372036854775808") := by decide +kernel

example : (callHelper (Arith.intHelper Arith.opDiv)
    [.const (ascii "1"), .const (ascii "0")] ⟨fun _ => [], fun _ => []⟩).toOption = some ErrorValue := by
  decide +kernel

/-! ## non-numeric input yields the marker, never a number -/

/-- If any argument of an integer fold does not parse as an int64, the result is `<BAD-TYPE>`
    (or `<VALUE>` when a division by zero is met first) — never digits. -/
theorem nonnumeric_marker (op : Arith.IntOp) (c : Ctx) (as : List Arg) (hlen : 2 ≤ as.length)
    (hbad : ∃ a ∈ as, atoi (a.val c) = none) :
    callHelper (Arith.intHelper op) as c = .ok ErrorNum ∨
    (callHelper (Arith.intHelper op) as c = .ok ErrorValue ∧ ∃ x y, op x y = none) :=
  intHelper_marker op c as hlen hbad

/-- The unary integer helpers: an unparsable argument gives `<BAD-TYPE>`, a parsable one the value. -/
theorem nonnumeric_marker_unary (c : Ctx) (a : Arg) (h : atoi (a.val c) = none) :
    callHelper Strings.kfHumanizeInt [a] c = .ok ErrorNum ∧
    callHelper Arith.kfExpBucket [a] c = .ok ErrorNum ∧
    (∀ sz s, atoi sz = some s → 0 < s → callHelper Arith.kfBucket [a, .const sz] c = .ok ErrorNum) ∧
    (∀ sz s, atoi sz = some s → 0 < s → callHelper Arith.kfBucketRange [a, .const sz] c = .ok ErrorNum) ∧
    (∀ lo hi mn mx, atoi lo = some mn → atoi hi = some mx →
      callHelper Arith.kfClamp [a, .const lo, .const hi] c = .ok ErrorNum) := by
  refine ⟨?_, ?_, ?_, ?_, ?_⟩
  · rw [hi_call, h]
  · rw [expbucket_call, h]
  · intro sz s hs hpos; unfold Arith.kfBucket; rw [bucket_call _ c a sz s hs hpos, h]
  · intro sz s hs hpos; unfold Arith.kfBucketRange; rw [bucket_call _ c a sz s hs hpos, h]
  · intro lo hi mn mx h1 h2; rw [clamp_call c a lo hi mn mx h1 h2, h]

/-- The markers contain no digit, so they cannot be mistaken for a number. -/
theorem markers_not_numeric :
    atoi ErrorNum = none ∧ atoi ErrorValue = none ∧
    ErrorNum.all (fun b => !isDigitB b) = true ∧ ErrorValue.all (fun b => !isDigitB b) = true := by
  decide +kernel

example : ∃ a : Arg, atoi (a.val ⟨fun _ => ascii "12x", fun _ => []⟩) = none := ⟨.group 0, by decide +kernel⟩

/-! ## bucket / bucketrange / clamp / expbucket -/

/-- `{bucket v s}` for `s > 0`: the multiple `b` of `s` with `b ≤ v < b + s` (which is unique),
    whenever that multiple is representable (`≥ MinInt64`). -/
theorem bucket_floor (v s : Int) (hs : 0 < s) (hv : inInt64 v = true) (hs64 : s ≤ maxInt64)
    (hr : minInt64 ≤ Spec.floorBucket v s) :
    Arith.bucketVal v s = Spec.floorBucket v s ∧ Spec.IsBucket v s (Arith.bucketVal v s) ∧
    ∀ b, Spec.IsBucket v s b → b = Arith.bucketVal v s := by
  have e := bucketVal_eq_floor v s hs hv hs64 hr
  refine ⟨e, ?_, ?_⟩
  · rw [e]; exact floorBucket_isBucket v s hs
  · intro b hb; rw [e]; exact isBucket_unique v s b hs hb

/-- The call: value from a constant or a group, size a positive constant. -/
theorem bucket_call_spec (c : Ctx) (a : Arg) (sz : Bytes) (v s : Int) (hs : atoi sz = some s) (hpos : 0 < s)
    (hv : atoi (a.val c) = some v) :
    callHelper Arith.kfBucket [a, .const sz] c = .ok (itoa (Arith.bucketVal v s)) := by
  unfold Arith.kfBucket; rw [bucket_call _ c a sz s hs hpos, hv]

example : Arith.bucketVal (-100) 50 = -100 ∧ Arith.bucketVal (-101) 50 = -150 ∧ Arith.bucketVal 149 50 = 100 := by
  decide

/-- `{bucketrange v s}` = "`b - (b+s-1)`" for the same bucket `b`, when both ends are representable. -/
theorem bucketrange_spec (v s : Int) (hs : 0 < s) (hv : inInt64 v = true) (hs64 : s ≤ maxInt64)
    (hlo : minInt64 ≤ Spec.floorBucket v s) (hhi : Spec.floorBucket v s + s - 1 ≤ maxInt64) :
    Arith.bucketRangeStr v s = Spec.bucketRange v s :=
  bucketRange_eq v s hs hv hs64 hlo hhi

example : Arith.bucketRangeStr (-100) 50 = ascii "-100 - -51" := by decide +kernel

/-- `{clamp v min max}` returns its argument unchanged iff `min ≤ v ≤ max`; otherwise the words
    `min` / `max`. -/
theorem clamp_iff (a : Bytes) (v mn mx : Int) (h : atoi a = some v) :
    (Arith.clampVal a v mn mx = a ↔ mn ≤ v ∧ v ≤ mx) ∧
    (v < mn → Arith.clampVal a v mn mx = ascii "min") ∧
    (mn ≤ v → mx < v → Arith.clampVal a v mn mx = ascii "max") := by
  refine ⟨clampVal_iff a v mn mx h, ?_, ?_⟩
  · intro h1; simp [Arith.clampVal, h1]
  · intro h1 h2
    have : ¬ (v < mn) := by omega
    simp [Arith.clampVal, this, h2]

theorem clamp_call_spec (c : Ctx) (a : Arg) (lo hi : Bytes) (v mn mx : Int)
    (h1 : atoi lo = some mn) (h2 : atoi hi = some mx) (hv : atoi (a.val c) = some v) :
    callHelper Arith.kfClamp [a, .const lo, .const hi] c = .ok (Arith.clampVal (a.val c) v mn mx) := by
  rw [clamp_call c a lo hi mn mx h1 h2, hv]

example : Arith.clampVal (ascii "5") 5 5 5 = ascii "5" := by decide +kernel

/-- `{expbucket v}` for `v ≥ 1`: the largest power of ten that is `≤ v` (integer arithmetic, exact
    on the whole int64 range); `0` for `v ≤ 0`. -/
theorem expbucket_spec (v : Int) (h2 : v ≤ maxInt64) :
    (1 ≤ v → Spec.IsExpBucket v (Arith.expBucketVal v)) ∧ (v ≤ 0 → Arith.expBucketVal v = 0) := by
  refine ⟨fun h1 => expBucketVal_spec v h1 h2, ?_⟩
  intro h; have : ¬ (v > 0) := by omega
  simp [Arith.expBucketVal, this]

example : Arith.expBucketVal 1000000000000000 = 1000000000000000 ∧ Arith.expBucketVal 999 = 100 := by decide

/-! ## logic -/

/-- Truthiness logic, for every argument value: `not`, `if`, `unless` test `Truthy`
    (non-blank), `and` / `or` test non-emptiness, `eq` / `neq` compare bytes. -/
theorem logic_truth_tables (c : Ctx) :
    (∀ a, callHelper Logic.kfNot [a] c = .ok (truthyStr (!truthy (a.val c)))) ∧
    (∀ as, callHelper Logic.kfAnd as c = .ok (truthyStr (as.all fun a => a.val c != []))) ∧
    (∀ as, callHelper Logic.kfOr as c = .ok (truthyStr (as.any fun a => a.val c != []))) ∧
    (∀ a t e, callHelper Logic.kfIf [a, t, e] c = .ok (if truthy (a.val c) then t.val c else e.val c)) ∧
    (∀ a t, callHelper Logic.kfIf [a, t] c = .ok (if truthy (a.val c) then t.val c else [])) ∧
    (∀ a t, callHelper Logic.kfUnless [a, t] c = .ok (if truthy (a.val c) then [] else t.val c)) ∧
    (∀ a b, callHelper (Logic.stringComparator fun x y => if x = y then TruthyVal else FalsyVal) [a, b] c =
      .ok (truthyStr (decide (a.val c = b.val c)))) ∧
    (∀ a b, callHelper (Logic.stringComparator fun x y => if x ≠ y then TruthyVal else FalsyVal) [a, b] c =
      .ok (truthyStr (decide (a.val c ≠ b.val c)))) :=
  ⟨not_call c, and_call c, or_call c, if_call c, if2_call c, unless_call c, eq_call c, neq_call c⟩

/-- On the two canonical values the helpers are the Boolean connectives. -/
theorem logic_truth_tables_bool (x y : Bool) (c : Ctx) :
    callHelper Logic.kfAnd [.const (truthyStr x), .const (truthyStr y)] c = .ok (truthyStr (x && y)) ∧
    callHelper Logic.kfOr [.const (truthyStr x), .const (truthyStr y)] c = .ok (truthyStr (x || y)) ∧
    callHelper Logic.kfNot [.const (truthyStr x)] c = .ok (truthyStr (!x)) := by
  rw [and_call, or_call, not_call]
  simp only [Arg.val, List.all_cons, List.all_nil, List.any_cons, List.any_nil, Except.ok.injEq]
  cases x <;> cases y <;> decide +kernel

/-! ## substr -/

/-- `{substr s left len}`: never out of bounds (the model's `Except` never fails — the Go slice
    expression cannot panic) and equal to the specification: a negative `left` wraps around from
    the end, both ends are clamped to the string, a negative length is 0. -/
theorem substr_spec (s : Bytes) (left len : Int) (hs : (s.length : Int) ≤ maxInt64)
    (hl : inInt64 left = true) (hlen : inInt64 len = true) :
    Strings.substrVal s left len = .ok (Spec.substr s left len) :=
  substrVal_spec s left len hs hl hlen

/-- The call: any mixture of constants and groups; no argument value makes it panic. -/
theorem substr_call_spec (c : Ctx) (a l n : Arg) (hs : ((a.val c).length : Int) ≤ maxInt64) :
    ∃ r, callHelper Strings.kfSubstr [a, l, n] c = .ok r := by
  rw [substr_call c a l n hs]
  by_cases he : (a.val c).isEmpty = true
  · exact ⟨[], by simp [he]⟩
  · rw [if_neg he]
    cases h1 : atoi (l.val c) with
    | none => exact ⟨ErrorNum, rfl⟩
    | some left =>
      cases h2 : atoi (n.val c) with
      | none => exact ⟨ErrorNum, rfl⟩
      | some len =>
        exact ⟨_, substrVal_spec _ left len hs (atoi_inInt64 h1) (atoi_inInt64 h2)⟩

example : (Strings.substrVal (ascii "abc") 1 9223372036854775807).toOption = some (ascii "bc") ∧
    (Strings.substrVal (ascii "abcde") (-2) 5).toOption = some (ascii "de") := by decide +kernel

/-! ## csv -/

/-- `{csv a₁ … aₙ}` (n ≥ 1) parses back, with an RFC 4180 record parser, to exactly its arguments —
    for arbitrary bytes in the arguments (quotes, commas, CR, LF, NUL, non-UTF-8). -/
theorem csv_item_roundtrip (c : Ctx) (as : List Arg) (h : as ≠ []) :
    ∃ out, callHelper Strings.kfCsv as c = .ok out ∧
      Spec.parseCsvRecord out = some (as.map (Arg.val c)) := by
  refine ⟨_, kfCsv_call c as h, ?_⟩
  have := csv_record (as.map (Arg.val c)) [] (by simpa using h)
  simpa [Spec.parseCsvRecord] using this

example : Spec.parseCsvRecord (Strings.csvRecord [ascii "a,b", ascii "say \"hi\"", [], ascii "x\ny"])
    = some [ascii "a,b", ascii "say \"hi\"", [], ascii "x\ny"] := by decide +kernel

/-! ## hi -/

/-- `{hi n}` only inserts thousands separators: for every int64 `n` the output is an optional `-`
    followed by a body whose digits (separators removed) are the decimal digits of `|n|` and
    whose `,`-separated groups have 1–3 digits first and exactly 3 afterwards.  In particular
    removing `,` gives `strconv.Itoa(n)`. -/
theorem hi_only_separators (n : Int) (h1 : minInt64 ≤ n) (h2 : n ≤ maxInt64) :
    Spec.stripCommas (Strings.humanizeInt n) = itoa n ∧
    ∃ body, Strings.humanizeInt n = (if n < 0 then [45] else []) ++ body ∧
      Spec.stripCommas body = natDigits n.natAbs ∧ Spec.groupedInThrees body = true :=
  ⟨humanizeInt_strip n h1 h2, humanizeInt_spec n h1 h2⟩

example : Strings.humanizeInt (-9223372036854775808) = ascii "-9,223,372,036,854,775,808" ∧
    Strings.humanizeInt 1000 = ascii "1,000" ∧ Strings.humanizeInt 999 = ascii "999" := by decide +kernel

/-! ## select -/

/-- `{select s i}` on words separated by single spaces (words: non-empty, free of white space, NUL
    and quotes): the `i`-th word, counting from 0; the empty string when `i` is out of range or
    negative. -/
theorem select_spec (ws : List Bytes) (idx : Int) (hne : ws ≠ []) (hw : ∀ w ∈ ws, Spec.IsWord w) :
    Strings.selectField (Spec.joinWords ws) idx = if 0 ≤ idx then ws.getD idx.toNat [] else [] := by
  have := sel_words idx ws [] 0 hne hw
  simpa [Strings.selectField] using this

example : Strings.selectField (Spec.joinWords [ascii "ab", ascii "c", ascii "def"]) 2 = ascii "def" ∧
    Spec.IsWord (ascii "def") := by
  refine ⟨by decide +kernel, by decide +kernel, ?_⟩
  have : ascii "def" = [100, 101, 102] := by decide +kernel
  rw [this]; decide

/-! ## lookup / haskey -/

/-- The table builder is a function of the lines alone: every non-comment line with one or two
    fields contributes one entry, in order (so the model's table is this association list).
    Lines are those `bufio.Scanner` delivers (a line of 64 KiB or more ends the scan), fields those
    of `strings.Fields` (ASCII and Unicode white space). -/
theorem lookup_table_spec (content commentPrefix : Bytes) :
    Misc.buildLookupTable content commentPrefix =
      (((Misc.splitLinesGo content [] 0).map Misc.dropCR).filterMap (lineEntry commentPrefix)) := by
  unfold Misc.buildLookupTable
  rw [table_eq_filterMap]; rfl

/-- `{lookup key table}`: later lines win — an entry for `key` followed by no other entry for `key`
    is the answer; and the call returns the value (or "" when the key is absent). -/
theorem lookup_spec (c : Ctx) (key : Arg) (content : Bytes) :
    callHelper Misc.kfLookupKey [key, .const content] c =
      .ok ((Misc.tableGet (Misc.buildLookupTable content []) (key.val c)).getD []) ∧
    ∀ (pre post : List (Bytes × Bytes)) (k v : Bytes), (∀ e ∈ post, e.1 ≠ k) →
      Misc.tableGet (pre ++ [(k, v)] ++ post) k = some v :=
  ⟨lookup_call c _ key content, tableGet_hit⟩

/-- `{haskey key table}` is truthy iff some line of the table has an entry for the key. -/
theorem haskey_spec (c : Ctx) (key : Arg) (content : Bytes) :
    callHelper Misc.kfHasKey [key, .const content] c =
      .ok (truthyStr (Misc.tableGet (Misc.buildLookupTable content []) (key.val c)).isSome) ∧
    ∀ (tbl : List (Bytes × Bytes)) (k : Bytes), (Misc.tableGet tbl k).isSome = true ↔ ∃ e ∈ tbl, e.1 = k := by
  refine ⟨lookup_call c _ key content, ?_⟩
  intro tbl k
  have := tableGet_none_iff tbl k
  constructor
  · intro h
    apply Classical.byContradiction
    intro hno
    have : Misc.tableGet tbl k = none := this.mpr (fun e he heq => hno ⟨e, he, heq⟩)
    rw [this] at h; cases h
  · intro ⟨e, he, heq⟩
    cases hg : Misc.tableGet tbl k with
    | none => exact absurd heq (this.mp hg e he)
    | some _ => rfl

example : Misc.tableGet (Misc.buildLookupTable (ascii "a 1\n#a 9\nb\na 2\nx y z") (ascii "#")) (ascii "a")
    = some (ascii "2") := by decide +kernel

/-! ## the same laws for the definitions regenerated from /repo on every run

`Rare.Gen.C11` is produced by `harness/extract/c11.go` from the Go AST of `kfBucket` /
`kfBucketRange` (statement blocks of the run-time closures), `pkg/humanize/units.go` and
`stdlib/errors.go`.  A changed comparison, operator or table entry in /repo changes these
definitions and the theorems below stop checking. -/

theorem gen_bucket_eq_model (v s : Int) : Gen.C11.bucket v s = Arith.bucketVal v s := by
  simp [Gen.C11.bucket, Arith.bucketVal]

/-- `bucket_floor` for the code as it is in /repo now. -/
theorem gen_bucket_floor (v s : Int) (hs : 0 < s) (hv : inInt64 v = true) (hs64 : s ≤ maxInt64)
    (hr : minInt64 ≤ Spec.floorBucket v s) :
    Gen.C11.bucket v s = Spec.floorBucket v s ∧ Spec.IsBucket v s (Gen.C11.bucket v s) := by
  rw [gen_bucket_eq_model]
  exact ⟨(bucket_floor v s hs hv hs64 hr).1, (bucket_floor v s hs hv hs64 hr).2.1⟩

/-- `bucketrange_spec` for the code as it is in /repo now: the two ends are `b` and `b + s - 1`. -/
theorem gen_bucketrange_spec (v s : Int) (hs : 0 < s) (hv : inInt64 v = true) (hs64 : s ≤ maxInt64)
    (hlo : minInt64 ≤ Spec.floorBucket v s) (hhi : Spec.floorBucket v s + s - 1 ≤ maxInt64) :
    Gen.C11.bucketRange v s = (Spec.floorBucket v s, Spec.floorBucket v s + s - 1) := by
  have e : Gen.C11.bucketRange v s = (Arith.bucketVal v s, Arith.bucketEnd (Arith.bucketVal v s) s) := by
    simp [Gen.C11.bucketRange, Arith.bucketVal, Arith.bucketEnd]
  rw [e, bucketVal_eq_floor v s hs hv hs64 hlo]
  have hb := (floorBucket_isBucket v s hs).2.1
  rw [inInt64_iff] at hv
  unfold Arith.bucketEnd
  rw [wrap64_id (x := s - 1) (by i64) (by i64), wrap64_id (by i64) (by i64)]
  congr 1; omega

/-- Unit tables and error markers of the model are the ones in /repo. -/
theorem gen_tables :
    Gen.C11.iecSizes = Strings.iecSizes ∧ Gen.C11.siSizes = Strings.siSizes ∧ Gen.C11.unitSize = Strings.unitSize ∧
    ascii Gen.C11.markerErrorNum = ErrorNum ∧ ascii Gen.C11.markerErrorValue = ErrorValue ∧
    ascii Gen.C11.markerErrorArgCount = ErrorArgCount ∧ ascii Gen.C11.markerErrorConst = ErrorConst := by
  decide +kernel

example : Gen.C11.bucket (-100) 50 = -100 ∧ Gen.C11.bucketRange (-100) 50 = (-100, -51) := by decide

/-! ## binary64: the software model under the float helpers (`Rare/Base/F64.lean`)

A float is its 64-bit pattern; `toRat` is the exact value of a finite pattern; `ofRat q` is the
float nearest to `q` (ties to even, overflow to ±Inf, gradual underflow); `add/sub/mul/div` of
finite operands are `ofRat` of the exact rational result (`F64.add_finite` …).  The model is compared
bit for bit with Go's float64 and with Lean's native `Float` on every run (`f64 …` ops). -/

/-- **Round trip.** Rounding the exact value of a finite float returns the float (an exact zero is
    given the float's own sign); with the default `+0` this is `ofRat (toRat x) = x` for every finite
    `x` except `-0`, and `-0 ↦ +0`. -/
theorem f64_ofRat_toRat (x : F64) (hf : x.isFinite = true) :
    F64.ofRatS x.sign x.toRat = x ∧
    (¬(x.sign = true ∧ x.mag = 0) → F64.ofRat x.toRat = x) ∧
    F64.ofRat (F64.zero true).toRat = F64.zero false :=
  ⟨F64.ofRatS_toRat x hf, F64.ofRat_toRat x hf, F64.ofRat_toRat_negZero⟩

example : (F64.ofInt 3).isFinite = true ∧ ¬((F64.ofInt 3).sign = true ∧ (F64.ofInt 3).mag = 0) := by decide +kernel

/-- **Integers up to `2^53` are floats**, and so is every `±m·2^e/2^1074` with `m < 2^53` below the
    overflow threshold (`e` counts from the smallest subnormal exponent, so subnormals are included). -/
theorem f64_ofRat_exact_int (n : Int) (h : n.natAbs ≤ 9007199254740992) :
    (F64.ofRat (n : Rat)).toRat? = some (n : Rat) :=
  F64.ofRat_exact_int h

theorem f64_ofRat_exact_dyadic (neg : Bool) (m e : Nat) (hm : m < 9007199254740992) (hr : m * 2 ^ e < 2 ^ 2098) :
    let q : Rat := (if neg then -1 else 1) * (((m * 2 ^ e : Nat) : Rat) / F64.two1074)
    (F64.ofRat q).toRat? = some q :=
  F64.ofRat_exact_dyadic neg m e hm hr

example : (F64.ofRat ((9007199254740992 : Int) : Rat)).toRat? = some ((9007199254740992 : Int) : Rat) :=
  f64_ofRat_exact_int _ (by decide)

/-- `2^53 + 1` is *not* a float: it rounds (ties to even) to `2^53`. -/
example : F64.ofInt 9007199254740993 = F64.ofInt 9007199254740992 := by decide +kernel

/-- **Rounding is monotone**: `q₁ ≤ q₂ → ofRat q₁ ≤ ofRat q₂` in the IEEE order, for all rationals
    (overflow to ±Inf and underflow to ±0 included; any signs of zero). -/
theorem f64_ofRat_mono (q₁ q₂ : Rat) (h : q₁ ≤ q₂) :
    F64.le (F64.ofRat q₁) (F64.ofRat q₂) = true ∧
    ∀ s₁ s₂, F64.le (F64.ofRatS s₁ q₁) (F64.ofRatS s₂ q₂) = true :=
  ⟨F64.ofRat_mono h, fun s₁ s₂ => F64.ofRatS_le_ofRatS s₁ s₂ h⟩

/-- The result of rounding is never NaN, and the nearest-integer function behind it errs by at most
    one half (ties to even). -/
theorem f64_round_basic (s : Bool) (q x : Rat) :
    (F64.ofRatS s q).isNaN = false ∧
    x - 1/2 ≤ (F64.roundNE x : Rat) ∧ (F64.roundNE x : Rat) ≤ x + 1/2 :=
  ⟨F64.isNaN_ofRatS s q, F64.roundNE_err x⟩

/-- **The float order is the order of the exact values** (finite operands; `-0 = +0`). -/
theorem f64_order_is_value_order (x y : F64) (hx : x.isFinite = true) (hy : y.isFinite = true) :
    (F64.le x y = true ↔ x.toRat ≤ y.toRat) ∧ (F64.lt x y = true ↔ x.toRat < y.toRat) :=
  ⟨F64.le_iff_toRat_le hx hy, F64.lt_iff_toRat_lt hx hy⟩

/-- **Exact operations.** Integer-valued operands whose exact sum / difference / product has
    magnitude at most `2^53`: `add` / `sub` / `mul` return exactly that integer. -/
theorem f64_exact_ops_int (x y : F64) (a b : Int)
    (hx : x.toRat? = some (a : Rat)) (hy : y.toRat? = some (b : Rat)) :
    ((a + b).natAbs ≤ 9007199254740992 → (F64.add x y).toRat? = some ((a + b : Int) : Rat)) ∧
    ((a - b).natAbs ≤ 9007199254740992 → (F64.sub x y).toRat? = some ((a - b : Int) : Rat)) ∧
    ((a * b).natAbs ≤ 9007199254740992 → (F64.mul x y).toRat? = some ((a * b : Int) : Rat)) :=
  ⟨F64.add_exact_int hx hy, F64.sub_exact_int hx hy, F64.mul_exact_int hx hy⟩

example : (F64.ofInt 4503599627370496).toRat? = some ((4503599627370496 : Int) : Rat) ∧
    (F64.ofInt (-3)).toRat? = some ((-3 : Int) : Rat) :=
  ⟨f64_ofRat_exact_int _ (by decide), f64_ofRat_exact_int _ (by decide)⟩

/-- More generally, whenever the exact result of `+ − ×` on finite floats is itself a float, it is returned. -/
theorem f64_exact_ops (x y : F64) (hx : x.isFinite = true) (hy : y.isFinite = true) :
    (F64.Rep (x.toRat + y.toRat) → (F64.add x y).toRat? = some (x.toRat + y.toRat)) ∧
    (F64.Rep (x.toRat - y.toRat) → (F64.sub x y).toRat? = some (x.toRat - y.toRat)) ∧
    (F64.Rep (x.toRat * y.toRat) → (F64.mul x y).toRat? = some (x.toRat * y.toRat)) :=
  ⟨F64.add_exact hx hy, F64.sub_exact hx hy, F64.mul_exact hx hy⟩

/-- **Division by a positive float is monotone** in the dividend, and so is addition of a fixed float
    (this is what proportional scaling — C14 — needs). -/
theorem f64_div_add_mono (x x' d : F64) (hx : x.isFinite = true) (hx' : x'.isFinite = true)
    (hd : d.isFinite = true) (h : x.toRat ≤ x'.toRat) :
    (0 < d.toRat → F64.le (F64.div x d) (F64.div x' d) = true) ∧
    F64.le (F64.add x d) (F64.add x' d) = true :=
  ⟨fun hpos => F64.div_mono_left hx hx' hd hpos h, F64.add_mono_left hx hx' hd h⟩

example : (F64.ofInt 7).isFinite = true ∧ 0 < (F64.ofInt 7).toRat := by decide +kernel

/-- Further monotonicity: multiplication by a non-negative float, subtraction (monotone / antitone),
    and `float64(·)` on integers. -/
theorem f64_mul_sub_ofInt_mono (x x' y y' : F64) (hx : x.isFinite = true) (hx' : x'.isFinite = true)
    (hy : y.isFinite = true) (hy' : y'.isFinite = true) (h : x.toRat ≤ x'.toRat) :
    (0 ≤ y.toRat → F64.le (F64.mul x y) (F64.mul x' y) = true) ∧
    (y'.toRat ≤ y.toRat → F64.le (F64.sub x y) (F64.sub x' y') = true) ∧
    (∀ a b : Int, a ≤ b → F64.le (F64.ofInt a) (F64.ofInt b) = true) :=
  ⟨fun hpos => F64.mul_mono_left hx hx' hy hpos h, fun h2 => F64.sub_mono hx hx' hy hy' h h2,
   fun _ _ hab => F64.ofInt_mono hab⟩

/-- **floor / ceil / trunc / round** (`math.Floor`, `math.Ceil`, `math.Trunc`, `math.Round`) of a
    finite float return *exactly* `⌊v⌋`, `⌈v⌉`, `v` truncated toward zero, and `v` rounded half away
    from zero — integer-valued floats bracketing the argument. -/
theorem f64_floor_ceil_bracket (x : F64) (hx : x.isFinite = true) :
    (F64.floor x).toRat? = some ((x.toRat.floor : Int) : Rat) ∧
    (F64.ceil x).toRat? = some ((x.toRat.ceil : Int) : Rat) ∧
    (F64.trunc x).toRat? = some ((F64.truncRat x.toRat : Int) : Rat) ∧
    ((x.toRat.floor : Int) : Rat) ≤ x.toRat ∧ x.toRat < ((x.toRat.floor + 1 : Int) : Rat) ∧
    x.toRat ≤ ((x.toRat.ceil : Int) : Rat) ∧ ((x.toRat.ceil - 1 : Int) : Rat) < x.toRat :=
  ⟨F64.floor_spec hx, F64.ceil_spec hx, F64.trunc_spec hx, Rat.floor_le _, Rat.lt_floor_add_one _,
   Rat.le_ceil, Rat.lt_ceil_iff.mp (by omega)⟩

/-- `math.Round`: half away from zero, exactly. -/
theorem f64_round_half_away (x : F64) (hx : x.isFinite = true) :
    (F64.roundHalfAway x).toRat? = some ((F64.roundAwayRat x.toRat : Int) : Rat) ∧
    F64.roundAwayRat (5 / 2) = 3 ∧ F64.roundAwayRat (-5 / 2) = -3 ∧ F64.roundAwayRat (7 / 2) = 4 ∧
    F64.roundNE (5 / 2) = 2 ∧ F64.roundNE (7 / 2) = 4 :=
  ⟨F64.roundHalfAway_spec hx, by decide +kernel, by decide +kernel, by decide +kernel, by decide +kernel,
   by decide +kernel⟩

example : F64.floor (F64.ofRat (-5 / 2)) = F64.ofInt (-3) ∧ F64.ceil (F64.ofRat (-5 / 2)) = F64.ofInt (-2) ∧
    F64.roundHalfAway (F64.ofRat (-5 / 2)) = F64.ofInt (-3) ∧ F64.trunc (F64.ofRat (-1 / 2)) = F64.zero true := by
  decide +kernel

/-! ## float-valued helpers: sumf subf multf divf, floor ceil round, lt … gte, isnum -/

/-- `{sumf a₀ … aₙ}` etc. (n ≥ 1), every argument accepted by `strconv.ParseFloat`: the result is
    the left fold of the IEEE operation over the parsed values, rendered by
    `FormatFloat(·, 'f', -1, 64)`; constants and match groups alike.  No panic. -/
theorem float_fold (op : F64 → F64 → F64) (c : Ctx) (as : List Arg) (x : F64) (xs : List F64)
    (hp : as.map (fun a => Float.parseF (a.val c)) = (x :: xs).map some) (hlen : 1 ≤ xs.length) :
    callHelper (Float.floatHelper op) as c = .ok (Float.fmtF (xs.foldl op x)) :=
  floatHelper_fold op c as x xs hp hlen

example : (callHelper (Float.floatHelper F64.add) [.const (ascii "0.1"), .group 0]
    ⟨fun _ => ascii "0.2", fun _ => []⟩).toOption = some (ascii "0.30000000000000004") := by decide +kernel

example : (callHelper (Float.floatHelper F64.mul) [.const (ascii "1e200"), .const (ascii "1E200")]
    ⟨fun _ => [], fun _ => []⟩).toOption = some (ascii "+Inf") := by decide +kernel

/-- **`sumf` on small integers is exact**: arguments that parse to integer-valued floats `n₀ … nₖ`
    (any spelling: `7`, `7.0`, `0.7e1`, `0x7p0` …) whose partial sums all have magnitude ≤ 2^53 give
    exactly the decimal rendering of the integer sum `Σ nᵢ` — `strconv.Itoa` of it.  The only other
    output is `-0`, when the sum is zero and IEEE makes it a negative zero (`{sumf -0 -0}`), as the
    code has it. -/
theorem sumf_exact_small_ints (c : Ctx) (as : List Arg) (x : F64) (xs : List F64) (n : Int) (ns : List Int)
    (hp : as.map (fun a => Float.parseF (a.val c)) = (x :: xs).map some) (hlen : 1 ≤ xs.length)
    (hx : x.toRat? = some (n : Rat))
    (hxs : All2 (fun x n => x.toRat? = some ((n : Int) : Rat)) xs ns)
    (hsmall : PartialSumsSmall n ns) :
    callHelper (Float.floatHelper F64.add) as c = .ok (itoa (ns.foldl (· + ·) n)) ∨
    (ns.foldl (· + ·) n = 0 ∧ callHelper (Float.floatHelper F64.add) as c = .ok (ascii "-0")) := by
  rw [floatHelper_fold F64.add c as x xs hp hlen]
  have hy := foldl_add_exact xs ns x n hx hxs hsmall
  obtain ⟨fy, vy⟩ := F64.toRat?_eq_some.mp hy
  -- the last partial sum is small, hence the total is a float
  have hsm : ∀ (ns : List Int) (n : Int), n.natAbs ≤ 9007199254740992 → PartialSumsSmall n ns →
      (ns.foldl (· + ·) n).natAbs ≤ 9007199254740992 := by
    intro ns
    induction ns with
    | nil => intro n h _; exact h
    | cons m r ih => intro n _ hs; exact ih (n + m) hs.1 hs.2
  cases ns with
  | nil => cases hxs; simp at hlen
  | cons m r =>
    have hb := hsm r (n + m) hsmall.1 hsmall.2
    by_cases hne : List.foldl (· + ·) n (m :: r) = 0
    · -- a zero sum prints as 0 or -0
      rw [hne] at vy
      have : (xs.foldl F64.add x).toRat = 0 := by rw [vy]; rfl
      rcases fmtF_zero this with e | e
      · left; rw [e, hne]; exact congrArg Except.ok (by decide +kernel)
      · right; exact ⟨hne, by rw [e]⟩
    · left
      obtain ⟨fo, vo⟩ := F64.isFinite_ofInt _ hb
      have heq : xs.foldl F64.add x = F64.ofInt (List.foldl (· + ·) n (m :: r)) := by
        apply F64.eq_of_toRat_eq fy fo
        · rw [vy]; exact vo.symm
        · rw [vy]; intro h0
          exact hne (by
            have : ((List.foldl (· + ·) n (m :: r) : Int) : Rat) = ((0 : Int) : Rat) := by simpa using h0
            exact Rat.intCast_inj.mp this)
      rw [heq]
      show Except.ok (F64.format _ (-1)) = _
      have hb' : (List.foldl (· + ·) n (m :: r)).natAbs ≤ 9007199254740992 := hb
      rw [F64.format_ofInt hb']

/-- The same for arguments that are *integer spellings* (whatever `strconv.Atoi` accepts, constants
    or match groups), each of magnitude ≤ 2^53, with partial sums of magnitude ≤ 2^53: `{sumf …}`
    prints the integer sum (or `-0` for `{sumf -0 -0}`). -/
theorem sumf_of_int_spellings (c : Ctx) (as : List Arg) (n : Int) (ns : List Int)
    (hp : as.map (fun a => atoi (a.val c)) = (n :: ns).map some) (hlen : 1 ≤ ns.length)
    (hb : ∀ m ∈ n :: ns, m.natAbs ≤ 9007199254740992) (hsmall : PartialSumsSmall n ns) :
    callHelper (Float.floatHelper F64.add) as c = .ok (itoa (ns.foldl (· + ·) n)) ∨
    (ns.foldl (· + ·) n = 0 ∧ callHelper (Float.floatHelper F64.add) as c = .ok (ascii "-0")) := by
  obtain ⟨xs, hx, hall⟩ := ints_parse_as_floats c as (n :: ns) hp hb
  cases hall with
  | cons h1 h2 =>
    rename_i x xs'
    exact sumf_exact_small_ints c as x xs' n ns hx (by
      have := congrArg List.length hx
      have l2 := congrArg List.length hp
      simp at this l2; omega) h1 h2 hsmall

/-- **`FormatFloat(float64(n), 'f', -1, 64) = strconv.Itoa(n)`** for every integer `|n| ≤ 2^53`: the
    shortest-digits rendering of an integer-valued float is the integer's decimal spelling (no
    exponent, no fraction) — what makes the float helpers agree with the integer helpers on integers. -/
theorem format_float_of_int (n : Int) (h : n.natAbs ≤ 9007199254740992) :
    Float.fmtF (F64.ofInt n) = itoa n :=
  F64.format_ofInt h

example : Float.fmtF (F64.ofInt (-9007199254740992)) = ascii "-9007199254740992" ∧
    Float.fmtF (F64.ofInt 9007199254740993) = ascii "9007199254740992" ∧
    Float.fmtF (F64.ofInt 1000000) = ascii "1000000" := by decide +kernel

/-- An integer spelling is a float spelling: `ParseFloat` accepts whatever `Atoi` accepts and returns the
    correctly rounded integer (so the integer helpers' inputs are also inputs of the float helpers). -/
theorem int_spelling_is_float (s : Bytes) (n : Int) (h : atoi s = some n) :
    Float.parseF s = some (F64.ofRatS (s.head? == some 45) (n : Rat)) ∧
    (n.natAbs ≤ 9007199254740992 → ∃ y, Float.parseF s = some y ∧ y.toRat? = some (n : Rat)) :=
  ⟨F64.parseFloat_of_atoi h, fun hs => F64.parseFloat_of_atoi_small h hs⟩

example : atoi (ascii "-9007199254740992") = some (-9007199254740992) ∧ atoi (ascii "+007") = some 7 := by
  decide +kernel

example : PartialSumsSmall 9007199254740000 [900, 92, -9007199254740992] := by
  unfold PartialSumsSmall PartialSumsSmall PartialSumsSmall PartialSumsSmall; decide

example : (callHelper (Float.floatHelper F64.add) [.const (ascii "9007199254740000"), .group 0, .group 1]
    ⟨fun i => if i = 0 then ascii "900" else ascii "92", fun _ => []⟩).toOption = some (ascii "9007199254740992") := by
  decide +kernel

/-- **`{divf a 0}` as the code has it**: IEEE division, no marker — a finite non-zero dividend gives
    `+Inf` / `-Inf` (sign = xor of the signs, so `1 ÷ -0 = -Inf`), `0/0` gives `NaN`. -/
theorem divf_zero_marker (c : Ctx) (a b : Arg) (x z : F64)
    (ha : Float.parseF (a.val c) = some x) (hb : Float.parseF (b.val c) = some z)
    (hx : x.isFinite = true) (hz : z.mag = 0) :
    callHelper (Float.floatHelper F64.div) [a, b] c =
      .ok (if x.mag = 0 then ascii "NaN" else if (x.sign != z.sign) then ascii "-Inf" else ascii "+Inf") := by
  rw [floatHelper_fold F64.div c [a, b] x [z] (by simp [ha, hb]) (by simp)]
  simp only [List.foldl_cons, List.foldl_nil, Float.fmtF, F64.div_by_zero hx hz]
  split
  · rw [F64.format_nan]
  · rw [F64.format_inf]

example : (callHelper (Float.floatHelper F64.div) [.const (ascii "-1.5"), .const (ascii "0")]
    ⟨fun _ => [], fun _ => []⟩).toOption = some (ascii "-Inf") ∧
    (callHelper (Float.floatHelper F64.div) [.const (ascii "0"), .const (ascii "-0")]
    ⟨fun _ => [], fun _ => []⟩).toOption = some (ascii "NaN") := by decide +kernel

/-- **`{floor a}` / `{ceil a}`**: for an argument that parses to a finite float `v` whose floor / ceiling
    fits an int64 the output is the decimal integer `⌊v⌋` / `⌈v⌉`, which brackets `v`
    (`⌊v⌋ ≤ v < ⌊v⌋+1`, `⌈v⌉-1 < v ≤ ⌈v⌉`); NaN and ±Inf print `MinInt64` (amd64's `int64(x)`). -/
theorem floor_ceil_bracket (c : Ctx) (a : Arg) (x : F64) (ha : Float.parseF (a.val c) = some x) :
    (x.isFinite = true → minInt64 ≤ x.toRat.floor → x.toRat.floor ≤ maxInt64 →
      callHelper (Float.unaryF Float.floorStr) [a] c = .ok (itoa x.toRat.floor) ∧
      ((x.toRat.floor : Int) : Rat) ≤ x.toRat ∧ x.toRat < ((x.toRat.floor + 1 : Int) : Rat)) ∧
    (x.isFinite = true → minInt64 ≤ x.toRat.ceil → x.toRat.ceil ≤ maxInt64 →
      callHelper (Float.unaryF Float.ceilStr) [a] c = .ok (itoa x.toRat.ceil) ∧
      ((x.toRat.ceil - 1 : Int) : Rat) < x.toRat ∧ x.toRat ≤ ((x.toRat.ceil : Int) : Rat)) ∧
    (x.isFinite = false →
      callHelper (Float.unaryF Float.floorStr) [a] c = .ok (itoa minInt64) ∧
      callHelper (Float.unaryF Float.ceilStr) [a] c = .ok (itoa minInt64)) := by
  refine ⟨?_, ?_, ?_⟩
  · intro hf h1 h2
    rw [unaryF_call, ha]
    refine ⟨?_, Rat.floor_le _, Rat.lt_floor_add_one _⟩
    simp only [Float.floorStr, F64.toInt64_of_int (F64.floor_spec hf) h1 h2]
  · intro hf h1 h2
    rw [unaryF_call, ha]
    refine ⟨?_, Rat.lt_ceil_iff.mp (by omega), Rat.le_ceil⟩
    simp only [Float.ceilStr, F64.toInt64_of_int (F64.ceil_spec hf) h1 h2]
  · intro hf
    rw [unaryF_call, unaryF_call, ha]
    simp only [Float.floorStr, Float.ceilStr, F64.floor, F64.ceil,
      F64.toInt64_not_finite (F64.integral_not_finite _ hf)]
    first | exact ⟨rfl, rfl⟩ | trivial | simp

example : (callHelper (Float.unaryF Float.floorStr) [.group 0] ⟨fun _ => ascii "-2.5", fun _ => []⟩).toOption
      = some (ascii "-3") ∧
    (callHelper (Float.unaryF Float.ceilStr) [.group 0] ⟨fun _ => ascii "-2.5", fun _ => []⟩).toOption
      = some (ascii "-2") ∧
    (callHelper (Float.unaryF Float.floorStr) [.group 0] ⟨fun _ => ascii "1e300", fun _ => []⟩).toOption
      = some (ascii "-9223372036854775808") := by decide +kernel

/-- **`{round a p}`** (constant `0 ≤ p ≤ 1024`) is `FormatFloat(v, 'f', p, 64)`: sign, then the digits of
    the integer `N = roundNE (|v|·10^p)` with the point `p` places from the right; `N` is within one
    half of `|v|·10^p` and exact ties go to the even digit (`roundNE`) — `{round 2.5}` is `2`,
    `{round 3.5}` is `4`, `{round 0.125 2}` is `0.12`: round-half-even on the exact binary value, not
    `math.Round`. -/
theorem round_half_even (c : Ctx) (a : Arg) (pb : Bytes) (p : Nat) (x : F64)
    (hp : atoi pb = some (p : Int)) (hmax : p ≤ 1024)
    (ha : Float.parseF (a.val c) = some x) (hf : x.isFinite = true) :
    callHelper Float.kfRound [a, .const pb] c =
      .ok ((if x.sign then [45] else []) ++
           F64.placePoint (natDigits (F64.roundNE (F64.magVal x.mag * F64.pow10 p)).toNat) p) ∧
    F64.magVal x.mag * F64.pow10 p - 1/2 ≤ ((F64.roundNE (F64.magVal x.mag * F64.pow10 p) : Int) : Rat) ∧
    ((F64.roundNE (F64.magVal x.mag * F64.pow10 p) : Int) : Rat) ≤ F64.magVal x.mag * F64.pow10 p + 1/2 := by
  refine ⟨?_, F64.fixed_digits_err _ _⟩
  rw [round_call c a pb p hp (by omega), ha]
  have h1 := F64.not_nan_of_finite hf
  have h2 := F64.not_inf_of_finite hf
  have h3 : ¬ ((p : Int) < 0) := by omega
  simp only [F64.format, h1, h2, Bool.false_eq_true, if_false, h3, Int.toNat_natCast, F64.fixedBody_eq]
  cases x.sign <;> simp

example : (callHelper Float.kfRound [.group 0] ⟨fun _ => ascii "2.5", fun _ => []⟩).toOption = some (ascii "2") ∧
    (callHelper Float.kfRound [.group 0] ⟨fun _ => ascii "3.5", fun _ => []⟩).toOption = some (ascii "4") ∧
    (callHelper Float.kfRound [.group 0, .const (ascii "2")] ⟨fun _ => ascii "0.125", fun _ => []⟩).toOption
      = some (ascii "0.12") ∧
    (callHelper Float.kfRound [.group 0, .const (ascii "1")] ⟨fun _ => ascii "-0.05", fun _ => []⟩).toOption
      = some (ascii "-0.1") := by decide +kernel

/-- **Comparisons** `{lt a b}` … `{gte a b}` on arguments that parse to finite floats compare the exact
    values; a NaN operand makes every comparison falsy (as IEEE and the code have it). -/
theorem float_compare_spec (c : Ctx) (a b : Arg) (x y : F64)
    (ha : Float.parseF (a.val c) = some x) (hb : Float.parseF (b.val c) = some y) :
    (x.isFinite = true → y.isFinite = true →
      callHelper (Float.cmpHelper fun a b => F64.lt a b) [a, b] c = .ok (truthyStr (decide (x.toRat < y.toRat))) ∧
      callHelper (Float.cmpHelper fun a b => F64.lt b a) [a, b] c = .ok (truthyStr (decide (y.toRat < x.toRat))) ∧
      callHelper (Float.cmpHelper fun a b => F64.le a b) [a, b] c = .ok (truthyStr (decide (x.toRat ≤ y.toRat))) ∧
      callHelper (Float.cmpHelper fun a b => F64.le b a) [a, b] c = .ok (truthyStr (decide (y.toRat ≤ x.toRat)))) ∧
    ((x.isNaN = true ∨ y.isNaN = true) →
      callHelper (Float.cmpHelper fun a b => F64.lt a b) [a, b] c = .ok FalsyVal ∧
      callHelper (Float.cmpHelper fun a b => F64.lt b a) [a, b] c = .ok FalsyVal ∧
      callHelper (Float.cmpHelper fun a b => F64.le a b) [a, b] c = .ok FalsyVal ∧
      callHelper (Float.cmpHelper fun a b => F64.le b a) [a, b] c = .ok FalsyVal) := by
  have e : ∀ test, callHelper (Float.cmpHelper test) [a, b] c = .ok (truthyStr (test x y)) := by
    intro test; rw [cmp_call, ha, hb]
  constructor
  · intro hx hy
    have l1 := F64.lt_iff_toRat_lt hx hy
    have l2 := F64.lt_iff_toRat_lt hy hx
    have l3 := F64.le_iff_toRat_le hx hy
    have l4 := F64.le_iff_toRat_le hy hx
    refine ⟨?_, ?_, ?_, ?_⟩ <;> rw [e] <;> congr 2
    · exact Bool.eq_iff_iff.mpr (by simpa using l1)
    · exact Bool.eq_iff_iff.mpr (by simpa using l2)
    · exact Bool.eq_iff_iff.mpr (by simpa using l3)
    · exact Bool.eq_iff_iff.mpr (by simpa using l4)
  · intro hn
    have f1 : F64.lt x y = false ∧ F64.lt y x = false ∧ F64.le x y = false ∧ F64.le y x = false := by
      unfold F64.lt F64.le
      rcases hn with h | h <;> simp [h]
    refine ⟨?_, ?_, ?_, ?_⟩ <;> rw [e] <;> simp [f1, truthyStr]

example : (callHelper (Float.cmpHelper fun a b => F64.lt a b) [.const (ascii "0.1"), .group 0]
      ⟨fun _ => ascii "1e-1", fun _ => []⟩).toOption = some FalsyVal ∧
    (callHelper (Float.cmpHelper fun a b => F64.le a b) [.const (ascii "0.1"), .group 0]
      ⟨fun _ => ascii "0x1.999999999999ap-4", fun _ => []⟩).toOption = some TruthyVal ∧
    (callHelper (Float.cmpHelper fun a b => F64.lt a b) [.const (ascii "9007199254740992"), .group 0]
      ⟨fun _ => ascii "9007199254740993", fun _ => []⟩).toOption = some FalsyVal ∧
    (callHelper (Float.cmpHelper fun a b => F64.le a b) [.const (ascii "nan"), .group 0]
      ⟨fun _ => ascii "nan", fun _ => []⟩).toOption = some FalsyVal := by decide +kernel

/-- **Non-numeric input yields the marker, never a number** — every float-valued helper: a value
    that `strconv.ParseFloat` rejects (syntax error, or out of range) gives `<BAD-TYPE>`
    (`isnum`: falsy), whether it is a constant or arrives from a match group; and the marker itself
    is not a float. -/
theorem float_nonnumeric_marker (c : Ctx) :
    (∀ (op : F64 → F64 → F64) (as : List Arg), 2 ≤ as.length → (∃ a ∈ as, Float.parseF (a.val c) = none) →
      callHelper (Float.floatHelper op) as c = .ok ErrorNum) ∧
    (∀ (f : F64 → Bytes) (a : Arg), Float.parseF (a.val c) = none →
      callHelper (Float.unaryF f) [a] c = .ok ErrorNum) ∧
    (∀ (a : Arg), Float.parseF (a.val c) = none →
      callHelper Float.kfRound [a] c = .ok ErrorNum ∧
      (∀ pb p, atoi pb = some p → p ≤ 1024 → callHelper Float.kfRound [a, .const pb] c = .ok ErrorNum) ∧
      callHelper Float.kfIsNum [a] c = .ok FalsyVal) ∧
    (∀ (test : F64 → F64 → Bool) (a b : Arg), (Float.parseF (a.val c) = none ∨ Float.parseF (b.val c) = none) →
      callHelper (Float.cmpHelper test) [a, b] c = .ok ErrorNum) ∧
    Float.parseF ErrorNum = none ∧ Float.parseF ErrorValue = none ∧ Float.parseF [] = none := by
  refine ⟨fun op as hl hb => floatHelper_marker op c as hl hb, ?_, ?_, ?_, by decide +kernel, by decide +kernel,
    by decide +kernel⟩
  · intro f a h; rw [unaryF_call, h]
  · intro a h
    refine ⟨by rw [round_call0, h], fun pb p hp hm => by rw [round_call c a pb p hp hm, h], ?_⟩
    rw [isnum_call, h]; rfl
  · intro test a b h
    rw [cmp_call]
    rcases h with h | h
    · rw [h]
    · rw [h]; cases Float.parseF (a.val c) <;> rfl

example : Float.parseF (ascii "12x") = none ∧ Float.parseF (ascii "1e999") = none ∧ Float.parseF (ascii "1__0") = none ∧
    Float.parseF (ascii "0x10") = none ∧ Float.parseF (ascii "+nan") = none ∧ Float.parseF (ascii " 1") = none ∧
    (Float.parseF (ascii "0x1_0p0")).isSome = true ∧ (Float.parseF (ascii "1_0")).isSome = true ∧ (Float.parseF (ascii "-Infinity")).isSome = true ∧
    (Float.parseF (ascii "1e-999")).isSome = true ∧ (Float.parseF (ascii ".5e1")).isSome = true := by decide +kernel

/-- `{isnum a}` is truthy exactly when `strconv.ParseFloat` accepts the value. -/
theorem isnum_spec (c : Ctx) (a : Arg) :
    callHelper Float.kfIsNum [a] c = .ok (if (Float.parseF (a.val c)).isSome then TruthyVal else FalsyVal) :=
  isnum_call c a

/-- `{hf a}`, `{sqrt a}`: the run-time path, for constants and groups alike. -/
theorem hf_sqrt_call (c : Ctx) (a : Arg) (x : F64) (ha : Float.parseF (a.val c) = some x) :
    callHelper (Float.unaryF Float.hfStr) [a] c = .ok (Float.humanizeFloat x 4) ∧
    callHelper (Float.unaryF Float.sqrtStr) [a] c = .ok (Float.fmtF (F64.sqrt x)) := by
  rw [unaryF_call, unaryF_call, ha]; exact ⟨rfl, rfl⟩

/-- `bytesize` / `bytesizesi` / `downscale`: below one step the integer is printed as is; otherwise the
    scaling loop stops at or before the last unit (`units[rank]` never indexes out of range). -/
theorem unitize_spec (n step precision : Int) (delim : Bytes) (units : List String) :
    ((-step < n ∧ n < step) →
      Float.unitize n step precision delim units = Strings.withUnit (itoa n) delim (units.headD "")) ∧
    (∀ (fuel : Nat) (nf : F64), (Float.unitLoop (F64.ofInt step) (units.length - 1) fuel nf 0).2 ≤ units.length - 1) := by
  constructor
  · intro h
    unfold Float.unitize
    have : n > -step ∧ n < step := ⟨by omega, h.2⟩
    simp [this]
  · intro fuel nf
    exact unitLoop_rank_le _ _ fuel nf 0 (by omega)

example : Float.hfStr (F64.ofInt (-1234567)) = ascii "-1,234,567.0000" ∧
    Float.hfStr (F64.ofRat (999.99996)) = ascii "1000.0000" ∧
    Float.sqrtStr (F64.ofInt 2) = ascii "1.4142135623730951" ∧
    Float.unitize 1536 1024 1 [32] Strings.iecSizes = ascii "1.5 KB" ∧
    Float.unitize (-1) 1024 0 [32] Strings.iecSizes = ascii "-1 B" ∧
    Float.unitize 9007199254740993 1000 3 [] Strings.unitSize = ascii "9007.199T" ∧
    Float.percentStr (F64.ofRat 0.25) (F64.zero false) F64.one 1 = ascii "25.0%" := by decide +kernel

/-! ## format: `fmt.Sprintf` on string operands (`Funcs/Format.lean`)

`{format f a₁ … aₙ}` evaluates every argument to a string and calls `fmt.Sprintf(f, a₁, …, aₙ)`.  The model
mirrors Go's `fmt` restricted to string operands (flags, width, precision, `*`, `[n]`, the verbs `s v q x X T`,
`%!verb(string=…)`, `(MISSING)`, `(BADINDEX)`, `(NOVERB)`, `(EXTRA …)`, `(BADWIDTH)`, `(BADPREC)`); the only
parameter is `unicode.IsPrint` for non-ASCII runes (`%q`).  The theorems hold for every such oracle. -/

/-- **What a call computes**: `{format f a₁ … aₙ}` – constants, match groups and keys alike – is the model's
    `Sprintf` of the argument values; it never panics (`Format.sprintf_total`). -/
theorem format_is_sprintf (isPrint : Nat → Bool) (c : Ctx) (f : Arg) (as : List Arg) :
    callHelper (Format.kfFormat isPrint) (f :: as) c = Format.sprintf isPrint (f.val c) (as.map (Arg.val c)) ∧
    ∃ out, Format.sprintf isPrint (f.val c) (as.map (Arg.val c)) = .ok out :=
  ⟨format_call isPrint c f as, Format.sprintf_total isPrint _ _⟩

/-- **`{format "%s" x}` is `x`**, for every byte string (valid UTF-8 or not). -/
theorem format_s_identity (isPrint : Nat → Bool) (c : Ctx) (a : Arg) :
    callHelper (Format.kfFormat isPrint) [.const [37, 115], a] c = .ok (a.val c) := by
  rw [format_call]; exact sprintf_s isPrint (a.val c)

/-- **Literal text is copied and `%%` is one percent sign**: a format `l₁ %% l₂` whose parts contain no `%`,
    with no operands, yields `l₁ % l₂` (in particular a format without `%` yields itself). -/
theorem format_percent_literal (isPrint : Nat → Bool) (l1 l2 : Bytes)
    (h1 : ∀ b ∈ l1, b ≠ 37) (h2 : ∀ b ∈ l2, b ≠ 37) :
    Format.sprintf isPrint (l1 ++ 37 :: 37 :: l2) [] = .ok (l1 ++ 37 :: l2) ∧
    Format.sprintf isPrint l1 [] = .ok l1 := by
  refine ⟨sprintf_percent isPrint l1 l2 h1 h2, ?_⟩
  have := formatLoop_literal isPrint [] l1 1 [] {} h1
  simp only [List.append_nil] at this
  unfold Format.sprintf
  rw [show l1.length + 1 = 1 + l1.length by omega, this]
  simp [Format.formatLoop]

/-- **Width pads with blanks to at least `w` runes; `-` left-justifies**: for a width field `w` written as a
    decimal numeral `d ds` (first digit not `0`, value at most 9 999 999), `%<w>s` puts `w - runes(x)` blanks
    in front of `x` and `%-<w>s` behind it – runes counted the way Go counts them (every invalid byte is one) –
    so the result has `max w (runes x)` runes and always contains `x` unaltered. -/
theorem format_pad_width (isPrint : Nat → Bool) (d : UInt8) (ds x : Bytes) (hd : 49 ≤ d ∧ d ≤ 57)
    (hds : ds.all isDigitB = true) (hw : digitsVal (d :: ds) 0 ≤ 9999999) :
    ∃ pad : Bytes, pad = List.replicate (digitsVal (d :: ds) 0 - Format.runeCount x) 32 ∧
      Format.sprintf isPrint (37 :: d :: ds ++ [115]) [x] = .ok (pad ++ x) ∧
      Format.sprintf isPrint (37 :: 45 :: d :: ds ++ [115]) [x] = .ok (x ++ pad) ∧
      Format.runeCount (pad ++ x) = max (digitsVal (d :: ds) 0) (Format.runeCount x) ∧
      Format.runeCount (x ++ pad) = max (digitsVal (d :: ds) 0) (Format.runeCount x) := by
  obtain ⟨h1, h2⟩ := sprintf_width isPrint d ds x hd hds hw
  refine ⟨_, rfl, h1, h2, ?_, ?_⟩
  · rw [runeCount_spaces_append]; omega
  · rw [runeCount_append_spaces]; omega

/-- `%12s` / `%-12s` of a 3-rune string (one invalid byte among them): nine blanks. -/
example : ∃ pad : Bytes, pad = List.replicate 9 32 ∧
    Format.sprintf (fun _ => true) (Format.lit "%12s") [[0xC3, 0xA9, 0xFF, 120]] = .ok (pad ++ [0xC3, 0xA9, 0xFF, 120]) ∧
    Format.sprintf (fun _ => true) (Format.lit "%-12s") [[0xC3, 0xA9, 0xFF, 120]] = .ok ([0xC3, 0xA9, 0xFF, 120] ++ pad) := by
  obtain ⟨pad, hp, h1, h2, _, _⟩ := format_pad_width (fun _ => true) 49 [50] [0xC3, 0xA9, 0xFF, 120]
    (by decide) (by decide) (by decide)
  refine ⟨pad, ?_, h1, h2⟩
  rw [hp]
  decide +kernel

example : Format.sprintf (fun _ => false) (Format.lit "100" ++ 37 :: 37 :: Format.lit " done") [] =
    .ok (Format.lit "100" ++ 37 :: Format.lit " done") :=
  (format_percent_literal _ _ _ (by decide) (by decide)).1

example : (Format.sprintf (fun _ => true) (Format.lit "%5s|%-5s|") [Format.lit "ab", [0xC3, 0xA9, 0xFF]]).toOption =
      some (Format.lit "   ab|" ++ [0xC3, 0xA9, 0xFF] ++ Format.lit "   |") ∧
    (Format.sprintf (fun _ => true) (Format.lit "%q %x %d %[1]s %s %! %") [Format.lit "a\"b", Format.lit "hi"]).toOption =
      some (Format.lit "\"a\\\"b\" 6869 %!d(MISSING) a\"b hi %!!(MISSING) %!(NOVERB)") ∧
    (Format.sprintf (fun _ => true) (Format.lit "100%% %s") [Format.lit "x", Format.lit "y"]).toOption =
      some (Format.lit "100% x%!(EXTRA string=y)") := by decide +kernel



/-! ## len, like / prefix / suffix, isint, coalesce, switch, tab, path helpers (round 4) -/

/-- `{len s}` is the number of BYTES of the value (not runes: `{len é}` is 2), in decimal. -/
theorem len_spec (c : Ctx) (a : Arg) :
    callHelper Strings.kfLen [a] c = .ok (itoa ((a.val c).length : Int)) :=
  len_call c a

/-- `{like s x}` / `{prefix s x}` / `{suffix s x}` return `s` itself when `x` occurs in `s` as a contiguous
    block / at its start / at its end, and the empty string otherwise – byte-wise, for arbitrary bytes; an empty
    `x` always matches. -/
theorem like_prefix_suffix_spec (c : Ctx) (a b : Arg) :
    callHelper (Strings.testHelper fun v x => Strings.containsB v x) [a, b] c =
      .ok (if b.val c <:+: a.val c then a.val c else []) ∧
    callHelper (Strings.testHelper fun v x => x.isPrefixOf v) [a, b] c =
      .ok (if b.val c <+: a.val c then a.val c else []) ∧
    callHelper (Strings.testHelper fun v x => x.isSuffixOf v) [a, b] c =
      .ok (if b.val c <:+ a.val c then a.val c else []) ∧
    ([] <:+: a.val c ∧ [] <+: a.val c ∧ [] <:+ a.val c) := by
  refine ⟨?_, ?_, ?_, ⟨List.nil_infix, List.nil_prefix, List.nil_suffix⟩⟩
  · rw [test_call]
    by_cases h : b.val c <:+: a.val c
    · rw [if_pos h, if_pos ((containsB_iff _ _).mpr h)]
    · rw [if_neg h, if_neg (fun x => h ((containsB_iff _ _).mp x))]
  · rw [test_call]
    by_cases h : b.val c <+: a.val c
    · rw [if_pos h, if_pos (List.isPrefixOf_iff_prefix.mpr h)]
    · rw [if_neg h, if_neg (fun x => h (List.isPrefixOf_iff_prefix.mp x))]
  · rw [test_call]
    by_cases h : b.val c <:+ a.val c
    · rw [if_pos h, if_pos (List.isSuffixOf_iff_suffix.mpr h)]
    · rw [if_neg h, if_neg (fun x => h (List.isSuffixOf_iff_suffix.mp x))]

example : Strings.containsB (ascii "hello world") (ascii "o w") = true ∧ Strings.containsB (ascii "abc") (ascii "ac") = false ∧
    Strings.containsB [] [] = true := by decide +kernel

/-- `{isint a}` is truthy exactly when `strconv.Atoi` accepts the value. -/
theorem isint_spec (c : Ctx) (a : Arg) :
    callHelper Arith.kfIsInt [a] c = .ok (if (atoi (a.val c)).isSome then TruthyVal else FalsyVal) :=
  isint_call c a

/-- The spellings at the edge of the two number grammars (a finite table, fully enumerated): `Atoi` takes an
    optional sign and decimal digits within int64 – no blanks, point, exponent, base prefix, underscore or
    non-ASCII digits; `ParseFloat` additionally takes points, exponents, hex floats, `_` between digits, `inf`,
    `nan`.  So `{eq 1 1.0}` is falsy (strings), `{lte 1 1.0}` truthy (floats), `{sumi 1 1.0}` the marker. -/
theorem number_spellings_table :
    ([ascii "+1", ascii "-0", ascii "007", ascii "-9223372036854775808", ascii "9223372036854775807"].all
        (fun s => (atoi s).isSome)) = true ∧
    ([ascii "1.0", ascii " 1", ascii "1 ", ascii "0x1", ascii "1e0", ascii "1_000", [], ascii "+", ascii "-", ascii "--1",
      ascii "9223372036854775808", ascii "-9223372036854775809", [0xD9, 0xA1]].all (fun s => (atoi s).isNone)) = true ∧
    ([ascii "1.0", ascii "1e0", ascii "1_000", ascii "0x1p0", ascii "+1", ascii ".5", ascii "5.", ascii "Inf", ascii "nan"].all
        (fun s => (Float.parseF s).isSome)) = true ∧
    ([ascii " 1", ascii "1 ", ascii "0x1", ascii "1e", ascii "1__0", ascii "_1", ascii "1_", [], ascii ".", [0xD9, 0xA1]].all
        (fun s => (Float.parseF s).isNone)) = true := by
  decide +kernel

/-- **The integer grammar, as an iff** (closing the seam with C17's `atoi_iff`): `{isint a}` is truthy exactly when the
    value is an optional sign `+` / `-` followed by one or more ASCII digits whose signed decimal value fits int64 –
    no blanks, point, exponent, base prefix, underscore or non-ASCII digit; every integer helper (`sumi … modi`,
    `bucket`, `clamp`, `hi` …) accepts exactly these spellings and answers `<BAD-TYPE>` on all others
    (`nonnumeric_marker`, `nonnumeric_marker_unary`). -/
theorem isint_grammar (c : Ctx) (a : Arg) :
    callHelper Arith.kfIsInt [a] c = .ok TruthyVal ↔
      ∃ sign ds, a.val c = sign ++ ds ∧ (sign = [] ∨ sign = [43] ∨ sign = [45]) ∧ ds ≠ [] ∧ ds.all isDigitB = true ∧
        minInt64 ≤ (if sign = [45] then -(C17.decVal ds : Int) else (C17.decVal ds : Int)) ∧
        (if sign = [45] then -(C17.decVal ds : Int) else (C17.decVal ds : Int)) ≤ maxInt64 := by
  rw [isint_call]
  have hne : TruthyVal ≠ FalsyVal := by decide +kernel
  constructor
  · intro h
    cases hv : atoi (a.val c) with
    | none =>
      rw [hv] at h
      simp only [Option.isSome_none, Bool.false_eq_true, if_false, Except.ok.injEq] at h
      exact absurd h.symm hne
    | some v =>
      obtain ⟨sign, ds, h1, h2, h3, h4, h5, h6, h7⟩ := (C17.atoi_iff _ v).mp hv
      exact ⟨sign, ds, h1, h2, h3, h4, by rw [← h5]; exact h6, by rw [← h5]; exact h7⟩
  · rintro ⟨sign, ds, h1, h2, h3, h4, h6, h7⟩
    have := (C17.atoi_iff (a.val c) _).mpr ⟨sign, ds, h1, h2, h3, h4, rfl, h6, h7⟩
    rw [this]; rfl

example : ∃ sign ds, ascii "-007" = sign ++ ds ∧ (sign = [] ∨ sign = [43] ∨ sign = [45]) ∧ ds ≠ [] ∧ ds.all isDigitB = true :=
  ⟨[45], ascii "007", by decide +kernel, Or.inr (Or.inr rfl), by decide +kernel, by decide +kernel⟩
/-- `{coalesce a₁ … aₙ}`: the first non-empty value (empty when there is none, also for no arguments). -/
theorem coalesce_spec (c : Ctx) (as : List Arg) :
    callHelper Logic.kfCoalesce as c = .ok (coalesceSpec (as.map (Arg.val c))) ∧
    (∀ vs : List Bytes, coalesceSpec vs = (vs.find? (· ≠ [])).getD []) := by
  refine ⟨coalesce_call c as, ?_⟩
  intro vs
  induction vs with
  | nil => rfl
  | cons v r ih =>
    by_cases h : v = []
    · simp [coalesceSpec, h, ih]
    · simp [coalesceSpec, h]

/-- `{switch c₁ v₁ c₂ v₂ … [default]}` (at least two arguments): the value paired with the first truthy
    condition; with none truthy the trailing default if the argument count is odd, else the empty string.
    Conditions after the first truthy one are not looked at. -/
theorem switch_spec (c : Ctx) (as : List Arg) (h : 2 ≤ as.length) :
    callHelper Logic.kfSwitch as c = .ok (switchSpec (as.map (Arg.val c))) ∧
    (∀ cnd v rest, truthy cnd = true → switchSpec (cnd :: v :: rest) = v) ∧
    (∀ cnd v rest, truthy cnd = false → switchSpec (cnd :: v :: rest) = switchSpec rest) ∧
    (∀ d, switchSpec [d] = d) ∧ switchSpec [] = [] :=
  ⟨switch_call c as h, fun _ _ _ ht => by simp [switchSpec, ht], fun _ _ _ ht => by simp [switchSpec, ht],
   fun _ => rfl, rfl⟩

example : switchSpec [ascii " ", ascii "a", ascii "x", ascii "b", ascii "dflt"] = ascii "b" ∧
    switchSpec [[], ascii "a", ascii "\t", ascii "b", ascii "dflt"] = ascii "dflt" ∧
    switchSpec [[], ascii "a", [], ascii "b"] = [] := by decide +kernel

/-- `{tab a₁ … aₙ}` (and `{$ …}`, `{@ …}` with the NUL separator): the values joined by ONE separator byte
    between neighbours, none at the ends; empty values keep their separators; no arguments give "". -/
theorem tab_join_spec (c : Ctx) (as : List Arg) :
    callHelper (Strings.kfJoin [9]) as c = .ok (joinSpec [9] (as.map (Arg.val c))) ∧
    callHelper (Strings.kfJoin [0]) as c = .ok (joinSpec [0] (as.map (Arg.val c))) ∧
    (∀ (d v : Bytes) (rest : List Bytes), joinSpec d (v :: rest) = v ++ rest.flatMap (d ++ ·)) :=
  ⟨join_call [9] c as, join_call [0] c as, joinSpec_cons⟩

example : joinSpec [9] [ascii "a", [], ascii "b"] = ascii "a\t\tb" := by decide +kernel

/-- **Path helpers** (`filepath.Base`, `filepath.Ext` on `/`-separated paths; every byte string): `{basename p}` is
    never empty and holds a `/` only when it is the root `/` itself; `{extname p}` is empty or a suffix `.xyz` of
    `p` (from the LAST dot of the last element) whose tail has neither `.` nor `/`; the calls never panic. -/
theorem path_spec (c : Ctx) (a : Arg) :
    callHelper (Misc.pathHelper Misc.pathBase) [a] c = .ok (Misc.pathBase (a.val c)) ∧
    callHelper (Misc.pathHelper Misc.pathDir) [a] c = .ok (Misc.pathDir (a.val c)) ∧
    callHelper (Misc.pathHelper Misc.pathExt) [a] c = .ok (Misc.pathExt (a.val c)) ∧
    (∀ p, Misc.pathBase p ≠ [] ∧ (47 ∈ Misc.pathBase p → Misc.pathBase p = [47])) ∧
    (∀ p, Misc.pathExt p = [] ∨
      ∃ pre k, p = pre ++ 46 :: k ∧ Misc.pathExt p = 46 :: k ∧ ∀ b ∈ k, b ≠ 46 ∧ b ≠ 47) := by
  refine ⟨?_, ?_, ?_, pathBase_facts, pathExt_facts⟩ <;>
    simp only [callHelper, Misc.pathHelper, List.map, ok, run_bind, Arg.run_stage] <;> rfl

example : Misc.pathBase [] = ascii "." ∧ Misc.pathBase (ascii "//") = ascii "/" ∧ Misc.pathBase (ascii "a/b/") = ascii "b" ∧
    Misc.pathExt (ascii ".bashrc") = ascii ".bashrc" ∧ Misc.pathExt (ascii "a.b/c") = [] ∧ Misc.pathExt (ascii "x.tar.gz") = ascii ".gz" ∧
    Misc.pathExt (ascii "x.") = ascii "." ∧ Misc.pathDir (ascii "a/b/../c/x") = ascii "a/c" ∧ Misc.pathDir (ascii "/..") = ascii "/" ∧
    Misc.pathDir [] = ascii "." ∧ Misc.pathDir (ascii "../../a") = ascii "../.." ∧ Misc.pathDir (ascii "a//b//") = ascii "a/b" := by
  decide +kernel

/-! ## more of /repo regenerated on every run (round 4): constants, delimiter set, dispatch table -/

/-- Caps and separators the model relies on are the ones in /repo (`util.go`, `drawing.go`, `humanize`,
    `stage.go`). -/
theorem gen_constants :
    Gen.C11.maxPrecision = Float.maxPrecision ∧ Gen.C11.maxRepeatBytes = Misc.maxRepeatBytes ∧
    Gen.C11.hfDecimals = Float.hfDecimals ∧ Gen.C11.baseSeparator = 44 ∧ Gen.C11.decimalSeparator = 46 ∧
    Gen.C11.arraySeparator = 0 := by decide +kernel

/-- The bytes `selectField` compares with – its delimiters and the quote – are exactly the model's. -/
theorem gen_select_chars : ∀ n : Nat, n < 256 →
    ((Strings.isSelDelim (UInt8.ofNat n) || UInt8.ofNat n == 34) = Gen.C11.selectFieldChars.contains n) := by
  decide +kernel

/-- Every C11 helper name is bound in `stdlib.StandardFunctions` to the builder – and, for the operator
    lambdas, the Go operator – the model mirrors (`lt` is `a < b`, `gte` is `a >= b`, `maxi` keeps `a` when
    `a > b`, `divi` / `modi` reject `b == 0` …). -/
theorem gen_dispatch :
    (c11Dispatch.all fun p => dispatchLookup Gen.C11.dispatch p.1 == some p.2) = true := by decide +kernel

/-! ## percent (round 4c): what a call computes, the default range, the boundary `min = max` -/

/-- **`{percent a p min max}`** – value, min and max constants, groups or keys that parse as floats, `p` a constant
    precision `≤ 1024`: the float expression `(v - min)·100 / (max - min)` (each operation correctly rounded) rendered
    with `p` decimals, then `%`. -/
theorem percent_call_spec (c : Ctx) (a mn mx : Arg) (pb : Bytes) (p : Int) (hp : atoi pb = some p) (hmax : p ≤ 1024)
    (x lo hi : F64) (ha : Float.parseF (a.val c) = some x) (hlo : Float.parseF (mn.val c) = some lo)
    (hhi : Float.parseF (mx.val c) = some hi) :
    callHelper Float.kfPercent [a, .const pb, mn, mx] c = .ok (Float.percentStr x lo hi p) ∧
    Float.percentStr x lo hi p =
      F64.format (F64.div (F64.mul (F64.sub x lo) (F64.ofInt 100)) (F64.sub hi lo)) p ++ [37] :=
  ⟨percent_call4 c a mn mx pb p hp hmax x lo hi ha hlo hhi, rfl⟩

/-- **Default range** `0 … 1`: `{percent v p}` is the rendering of the single float product `v·100` (no further
    rounding from the subtraction of 0 and the division by 1), for every finite `v` – `-0` and overflow to `±Inf`
    included. -/
theorem percent_default_range (v : F64) (d : Int) (hv : v.isFinite = true) :
    Float.percentStr v (F64.zero false) F64.one d = F64.format (F64.mul v (F64.ofInt 100)) d ++ [37] :=
  percentStr_default_range v d hv

/-- **Boundary `min = max`** (finite): the code divides by `max - min = +0`; the answer is `NaN%` when `(v - min)·100`
    is zero, else `+Inf%` / `-Inf%` by its sign – as IEEE has it, no marker, never digits. -/
theorem percent_min_eq_max (val m : F64) (d : Int) (hv : val.isFinite = true) (hm : m.isFinite = true) :
    Float.percentStr val m m d =
      (if (F64.mul (F64.sub val m) (F64.ofInt 100)).mag = 0 then ascii "NaN"
       else if (F64.mul (F64.sub val m) (F64.ofInt 100)).sign then ascii "-Inf" else ascii "+Inf") ++ [37] :=
  percentStr_min_eq_max val m d hv hm

example : Float.percentStr (F64.ofInt 5) (F64.ofInt 3) (F64.ofInt 3) 1 = ascii "+Inf%" ∧
    Float.percentStr (F64.ofInt 3) (F64.ofInt 3) (F64.ofInt 3) 1 = ascii "NaN%" ∧
    Float.percentStr (F64.ofInt 1) (F64.ofInt 3) (F64.ofInt 3) 0 = ascii "-Inf%" ∧
    Float.percentStr (F64.ofRat 0.125) (F64.zero false) F64.one 1 = ascii "12.5%" ∧
    (callHelper Float.kfPercent [.group 0, .const (ascii "2"), .const (ascii "10"), .group 1]
      ⟨fun i => if i = 0 then ascii "15" else ascii "30", fun _ => []⟩).toOption = some (ascii "25.00%") := by
  decide +kernel

/-! ## admissible arities (round 4c): the argument-count guard of every helper, for argument lists of every length

The property quantifies over "all admissible arities".  Which arities are admissible is decided by the guard at the
head of each builder (`len(args) != 3`, `!isArgCountBetween(args, 1, 4)`, `len(args) < 2` …).  `c11Builders` lists, for
all 63 helper names of this property, the builder the driver's registry binds to the name and the interval `[lo, hi]`
(`hi = none`: unbounded). -/

/-- **Every helper rejects exactly the inadmissible argument counts**, for argument lists of EVERY length: the builder
    answers with the `<ARGN>` stage and the `argcount` compile error IFF the number of arguments is outside the
    helper's interval (so inside the interval the answer is never the argument-count error, outside it nothing is
    evaluated and nothing panics); the builder is the one registered under the name; and a rejected call evaluates to
    `<ARGN>` in every context. -/
theorem arity_guards (isPrint : Nat → Bool) :
    (∀ e ∈ c11Builders isPrint, ∀ as : List Stage,
      argRejected (e.2.1 as) = !inArity e.2.2.1 e.2.2.2 as.length) ∧
    (∀ e ∈ c11Builders isPrint, e.1 = "format" ∨ lookupTable c11Table e.1 = some e.2.1) ∧
    (∀ (b : Builder) (as : List Arg) (c : Ctx), argRejected (b (as.map Arg.stage)) = true →
      callHelper b as c = .ok ErrorArgCount) :=
  ⟨c11Builders_arity isPrint, c11Builders_registered isPrint, argRejected_call⟩

/-- **The intervals are the guards of /repo** (regenerated on every run: the translator finds the guard of each builder
    bound in `StandardFunctions` – through helper-makers such as `arithmaticHelperi` → `arithmaticHelperiChecked` and
    `kfPathManip` – and evaluates its condition, `isArgCountBetween` through its own body, for 0 … 12 arguments). -/
theorem gen_arity :
    ((c11Builders fun _ => true).all fun e => Gen.C11.arity.lookup e.1 == some (e.2.2.1, e.2.2.2)) = true ∧
    (c11Builders fun _ => true).length = 63 := by decide +kernel

/-- `{substr a 1}`, `{clamp 5}` and `{if}` are `<ARGN>`; `{percent 1 2 3 4}` is not an arity error. -/
example : (∀ c, callHelper Strings.kfSubstr [.group 0, .const (ascii "1")] c = .ok ErrorArgCount) ∧
    (∀ c, callHelper Arith.kfClamp [.const (ascii "5")] c = .ok ErrorArgCount) ∧
    (∀ c, callHelper Logic.kfIf [] c = .ok ErrorArgCount) ∧
    argRejected (Float.kfPercent ([Arg.const (ascii "1"), .const (ascii "2"), .const (ascii "3"), .const (ascii "4")].map Arg.stage)) = false :=
  ⟨fun c => argRejected_call _ _ c (by decide +kernel), fun c => argRejected_call _ _ c (by decide +kernel),
   fun c => argRejected_call _ _ c (by decide +kernel), by decide +kernel⟩

/-! ## upper / lower: `strings.ToUpper` / `strings.ToLower` for every byte string (round 4)

`Rare/Model/C11Case.lean` mirrors `strings.ToUpper` / `ToLower` completely: the ASCII scan and its fast paths,
`strings.Map` over Go's UTF-8 decoding (an invalid byte is one U+FFFD and comes back as `EF BF BD`), and
`unicode.ToUpper` / `ToLower` as the search over `unicode.CaseRanges` (simple case mapping, no `SpecialCase`).
The direct op `case` compares it with the real `{upper {0}}` / `{lower {0}}` on every code point of every plane,
raw surrogates, truncated and overlong sequences. -/

/-- **The case table of the model is the toolchain's `unicode.CaseRanges`** (regenerated on every run). -/
theorem case_table_is_go :
    Gen.C11.caseRanges = Case.caseRanges ∧ Gen.C11.maxRune = Case.maxRune ∧ Gen.C11.upperLower = Case.upperLower := by
  decide +kernel

/-- **What a call computes**: `{upper a}` / `{lower a}` – constant, match group or key alike – is
    `strings.ToUpper` / `ToLower` of the value; no argument value makes it panic. -/
theorem upper_lower_call (c : Ctx) (a : Arg) :
    callHelper (Case.caseHelperU Case.goToUpper) [a] c = .ok (Case.goToUpper (a.val c)) ∧
    callHelper (Case.caseHelperU Case.goToLower) [a] c = .ok (Case.goToLower (a.val c)) := by
  constructor <;> simp only [callHelper, Case.caseHelperU, List.map, ok, run_bind, Arg.run_stage] <;> rfl

/-- **ASCII text**: the result is the byte-wise shift of `a–z` / `A–Z`; it has the same length, is ASCII again,
    and the helpers are idempotent on it. -/
theorem upper_lower_ascii (s : Bytes) (h : s.all (fun c => c < 128) = true) :
    Case.goToUpper s = s.map Case.upperB ∧ Case.goToLower s = s.map Case.lowerB ∧
    (Case.goToUpper s).length = s.length ∧ (Case.goToLower s).length = s.length ∧
    Case.goToUpper (Case.goToUpper s) = Case.goToUpper s ∧ Case.goToLower (Case.goToLower s) = Case.goToLower s := by
  have hu := Case.goToUpper_ascii s h
  have hl := Case.goToLower_ascii s h
  have au := Case.all_ascii_map Case.upperB Case.upperB_ascii s h
  have al := Case.all_ascii_map Case.lowerB Case.lowerB_ascii s h
  refine ⟨hu, hl, by rw [hu, List.length_map], by rw [hl, List.length_map], ?_, ?_⟩
  · rw [hu, Case.goToUpper_ascii _ au, List.map_map]
    congr 1; funext b; exact Case.upperB_idem b
  · rw [hl, Case.goToLower_ascii _ al, List.map_map]
    congr 1; funext b; exact Case.lowerB_idem b

/-- On ASCII values the full model and the ASCII-only builders of the shared expression table (the ones other
    properties' theorems are stated about) give the same answer. -/
theorem case_ascii_agrees_shared (c : Ctx) (a : Arg) (h : (a.val c).all (fun b => b < 128) = true) :
    callHelper (Strings.caseHelper Strings.upperB) [a] c = callHelper (Case.caseHelperU Case.goToUpper) [a] c ∧
    callHelper (Strings.caseHelper Strings.lowerB) [a] c = callHelper (Case.caseHelperU Case.goToLower) [a] c := by
  have h' : (a.val c).all (fun b => decide (b < 128)) = true := h
  rw [(upper_lower_call c a).1, (upper_lower_call c a).2, Case.goToUpper_ascii _ h, Case.goToLower_ascii _ h]
  constructor <;>
    simp only [callHelper, Strings.caseHelper, List.map, ok, run_bind, Arg.run_stage, h', if_true] <;> rfl

/-- **Where case mapping crosses the ASCII border** (all 1 114 112 code points and beyond): on ASCII runes
    `unicode.ToUpper` / `ToLower` are the ASCII shift; a non-ASCII rune is mapped into ASCII exactly for
    `ı` U+0131 ↦ `I`, `ſ` U+017F ↦ `S` (upper) and `İ` U+0130 ↦ `i`, `K` U+212A ↦ `k` (lower) – so `{upper}` of a
    non-ASCII word can be an ASCII word (`{upper ſıx}` = `SIX`) only through these. -/
theorem rune_case_ascii_border :
    (∀ r, r < 128 → Case.toUpperR r = (if 97 ≤ r ∧ r ≤ 122 then r - 32 else r) ∧
                    Case.toLowerR r = (if 65 ≤ r ∧ r ≤ 90 then r + 32 else r)) ∧
    (∀ r, 128 ≤ r → (Case.toUpperR r < 128 ↔ r = 0x131 ∨ r = 0x17F)) ∧
    (∀ r, 128 ≤ r → (Case.toLowerR r < 128 ↔ r = 0x130 ∨ r = 0x212A)) ∧
    Case.toUpperR 0x131 = 0x49 ∧ Case.toUpperR 0x17F = 0x53 ∧ Case.toLowerR 0x130 = 0x69 ∧ Case.toLowerR 0x212A = 0x6B := by
  refine ⟨Case.toRune_ascii, ?_, ?_, Case.toRune_exceptions⟩
  · intro r hr
    constructor
    · intro hlt
      apply Classical.byContradiction
      intro hx
      have := Case.toRune_nonascii false r hr (by unfold Case.intoAscii; simpa using hx)
      unfold Case.toUpperR at hlt; omega
    · rintro (h | h) <;> subst h
      · rw [Case.toRune_exceptions.1]; decide
      · rw [Case.toRune_exceptions.2.1]; decide
  · intro r hr
    constructor
    · intro hlt
      apply Classical.byContradiction
      intro hx
      have := Case.toRune_nonascii true r hr (by unfold Case.intoAscii; simpa using hx)
      unfold Case.toLowerR at hlt; omega
    · rintro (h | h) <;> subst h
      · rw [Case.toRune_exceptions.2.2.1]; decide
      · rw [Case.toRune_exceptions.2.2.2]; decide

/-- **`unicode.ToUpper` / `unicode.ToLower` are idempotent on every rune** (round 4c; all code points and beyond): a
    rune that came out of the table is left alone by the table.  Range-level argument: for every pair of ranges the
    image of the first misses the second, or the second has delta 0 for this case, or both are the same alternating
    range – 2 × 328² checks in the kernel, then arithmetic.  The mixed composition is NOT the identity on images:
    `upper (lower İ) = I ≠ İ = upper İ` (example below). -/
theorem rune_case_idempotent (r : Nat) :
    Case.toUpperR (Case.toUpperR r) = Case.toUpperR r ∧ Case.toLowerR (Case.toLowerR r) = Case.toLowerR r :=
  ⟨Case.toRune_idem false r, Case.toRune_idem true r⟩

example : Case.toUpperR (Case.toLowerR 0x130) = 0x49 ∧ Case.toUpperR 0x130 = 0x130 ∧
    Case.toLowerR (Case.toUpperR 0x17F) = 0x73 ∧ Case.toLowerR 0x17F = 0x17F ∧
    Case.toUpperR (Case.toUpperR 0x1C6) = 0x1C4 ∧ Case.toUpperR 0x1C5 = 0x1C4 := by decide +kernel

/-- **`{upper}` / `{lower}` are idempotent on EVERY value** (session 6; all byte strings: non-ASCII text, ill-formed
    UTF-8, values whose image leaves or enters ASCII such as `ſıx` ↦ `SIX`): `strings.ToUpper (strings.ToUpper s)`
    = `strings.ToUpper s`, likewise `ToLower`.  Lifts `rune_case_idempotent` through `strings.Map` by the UTF-8
    round trip (a rune `AppendRune` cannot write becomes U+FFFD, which both tables fix) and joins the ASCII fast
    path by `goMap_ascii` (on ASCII text the table and the byte shift agree). -/
theorem upper_lower_idempotent (s : Bytes) :
    Case.goToUpper (Case.goToUpper s) = Case.goToUpper s ∧ Case.goToLower (Case.goToLower s) = Case.goToLower s :=
  ⟨Case.goToUpper_idem s, Case.goToLower_idem s⟩

/-- The same at the level of a call: `{upper {upper a}}` = `{upper a}` for every argument and context. -/
theorem upper_lower_call_idempotent (c : Ctx) (a : Arg) :
    Case.goToUpper (Case.goToUpper (a.val c)) = Case.goToUpper (a.val c) ∧
    callHelper (Case.caseHelperU Case.goToUpper) [a] c = .ok (Case.goToUpper (a.val c)) ∧
    Case.goToLower (Case.goToLower (a.val c)) = Case.goToLower (a.val c) ∧
    callHelper (Case.caseHelperU Case.goToLower) [a] c = .ok (Case.goToLower (a.val c)) :=
  ⟨Case.goToUpper_idem _, (upper_lower_call c a).1, Case.goToLower_idem _, (upper_lower_call c a).2⟩

/-- `strings.Map` with either table is idempotent by itself (the non-ASCII path of both helpers). -/
theorem case_map_idempotent (lower : Bool) (s : Bytes) :
    Case.goMap (Case.toRune lower) (Case.goMap (Case.toRune lower) s) = Case.goMap (Case.toRune lower) s :=
  Case.goMap_case_idem lower s

/-- **`{upper}` / `{lower}` of a non-ASCII value is well-formed UTF-8**, whatever the input bytes (each ill-formed
    byte comes out as U+FFFD): the `strings.Map` path of both helpers only writes what `AppendRune` writes. -/
theorem upper_lower_nonascii_wellformed (s : Bytes) (h : s.all (fun c => c < 128) = false) :
    Rare.C20.ValidUtf8 (Case.goToUpper s) ∧ Rare.C20.ValidUtf8 (Case.goToLower s) := by
  have eu : Case.goToUpper s = Case.goMap Case.toUpperR s := by unfold Case.goToUpper; simp only [h]; rfl
  have el : Case.goToLower s = Case.goMap Case.toLowerR s := by unfold Case.goToLower; simp only [h]; rfl
  rw [eu, el]; exact ⟨Case.goMap_valid _ _, Case.goMap_valid _ _⟩

/-- **`{upper}` / `{lower}` always answer well-formed UTF-8** – for every byte string, ill-formed ones included
    (ASCII values stay ASCII; on the other path each ill-formed byte comes out as U+FFFD). -/
theorem upper_lower_wellformed (s : Bytes) :
    Rare.C20.ValidUtf8 (Case.goToUpper s) ∧ Rare.C20.ValidUtf8 (Case.goToLower s) :=
  ⟨Case.goToUpper_valid s, Case.goToLower_valid s⟩

/-- non-vacuity: a value that leaves ASCII-free text for ASCII (`ſıx`), and an ill-formed one (lone 0xFF, 0xC3). -/
example : Case.goToUpper [0xC5, 0xBF, 0xC4, 0xB1, 0x78] = [0x53, 0x49, 0x58] ∧
    Case.goToUpper [0x53, 0x49, 0x58] = [0x53, 0x49, 0x58] ∧
    Case.goToLower [0xFF, 0x41, 0xC3] = [0xEF, 0xBF, 0xBD, 0x61, 0xEF, 0xBF, 0xBD] := by decide +kernel

/-- **C11 × C13**: the sorters' model takes `unicode.ToLower` as a parameter and assumes the contract
    `C13.RuneLower` (checked there by correspondence only).  The table-driven `toLowerR` – tied to Go's table by
    `case_table_is_go` – satisfies it, and C13's `strings.ToLower` instantiated with it is C11's. -/
theorem lower_meets_c13_contract :
    Rare.C13.RuneLower Case.toLowerR ∧ ∀ s, Case.goToLower s = Rare.C13.goToLower Case.toLowerR s :=
  ⟨Case.runeLower_toLowerR, Case.goToLower_eq_c13⟩

/-- No `SpecialCase`: `ß` stays `ß`; `ſ` `ı` become ASCII (the string gets shorter); the title-case digraph `ǅ`
    goes to `Ǆ` / `ǆ`; `Ⱥ` (2 bytes) lower-cases to `ⱥ` (3 bytes); an invalid byte comes back as U+FFFD. -/
example : Case.goToUpper [0xC3, 0x9F] = [0xC3, 0x9F] ∧ Case.goToUpper [0xC5, 0xBF, 0xC4, 0xB1, 120] = [83, 73, 88] ∧
    Case.goToUpper [0xC7, 0x85] = [0xC7, 0x84] ∧ Case.goToLower [0xC7, 0x85] = [0xC7, 0x86] ∧
    Case.goToLower [0xC8, 0xBA] = [0xE2, 0xB1, 0xA5] ∧ Case.goToUpper [97, 0xFF] = [65, 0xEF, 0xBF, 0xBD] ∧
    Case.goToLower [0xC4, 0xB0] = [105] ∧ Case.goToUpper [0xF0, 0x90, 0x90, 0xA8] = [0xF0, 0x90, 0x90, 0x80] := by
  decide +kernel

/-! ## ln / log10 / log2 / pow (round 4b): `math.Log*` and `math.Pow` as they run (`Rare/Model/C11Log.lean`)

`math.Log` on amd64 is the assembly routine `log_amd64.s`; the model mirrors it instruction by instruction on the
software binary64 model, `math.Log10` / `math.Log2` / `math.Pow` are the pure-Go functions on top (a `pow` that reaches
`math.Exp` – fractional exponent other than ±0.5 – stays `unmodelled`).  The direct ops `lg` / `pw` compare them bit
for bit with the real helpers (every binade, the rescaling threshold `sqrt(2)/2`, subnormals, powers of two and ten). -/

/-- **What a call computes**: `{ln a}` / `{log10 a}` / `{log2 a}` – constant, group or key – parse the value with
    `strconv.ParseFloat`, apply the function, render with `FormatFloat(·, 'f', -1, 64)`; a value that does not parse
    gives `<BAD-TYPE>`; no argument value panics. -/
theorem log_call (c : Ctx) (a : Arg) :
    (∀ x, Float.parseF (a.val c) = some x →
      callHelper (Float.unaryF Log.lnStr) [a] c = .ok (Float.fmtF (Log.logAsm x)) ∧
      callHelper (Float.unaryF Log.log10Str) [a] c = .ok (Float.fmtF (Log.log10 x)) ∧
      callHelper (Float.unaryF Log.log2Str) [a] c = .ok (Float.fmtF (Log.log2 x))) ∧
    (Float.parseF (a.val c) = none →
      callHelper (Float.unaryF Log.lnStr) [a] c = .ok ErrorNum ∧
      callHelper (Float.unaryF Log.log10Str) [a] c = .ok ErrorNum ∧
      callHelper (Float.unaryF Log.log2Str) [a] c = .ok ErrorNum) := by
  constructor
  · intro x hx; rw [unaryF_call, unaryF_call, unaryF_call, hx]; exact ⟨rfl, rfl, rfl⟩
  · intro hx; rw [unaryF_call, unaryF_call, unaryF_call, hx]; exact ⟨rfl, rfl, rfl⟩

/-- **Special values of `ln`, for every argument**: `ln ±0 = -Inf`, `ln NaN = NaN`, `ln x = NaN` for every negative `x`
    (`-Inf` included), `ln +Inf = +Inf`; and `ln 1 = log10 1 = log2 1 = 0` exactly. -/
theorem log_special_values (x : F64) :
    (x.mag = 0 → Log.logAsm x = F64.inf true) ∧
    (x.isNaN = true → Log.logAsm x = F64.nan) ∧
    (x.sign = true → x.mag ≠ 0 → Log.logAsm x = F64.nan) ∧
    (x.sign = false → x.isInf = true → Log.logAsm x = x) ∧
    Log.logAsm F64.one = F64.zero false ∧ Log.log10 F64.one = F64.zero false ∧ Log.log2 F64.one = F64.zero false :=
  ⟨(Log.logAsm_special x).1, (Log.logAsm_special x).2.1, (Log.logAsm_special x).2.2.1, (Log.logAsm_special x).2.2.2,
   Log.log_one.1, Log.log_one.2.1, Log.log_one.2.2⟩

/-- **`log2` of a power of two is exactly the exponent**: for every positive normal float with fraction field 0 –
    `x = 2^(E-1023)`, `E` its biased exponent – `{log2 x}` is the float `E - 1023`; and for the 52 subnormal powers of
    two `2^(j-1074)` it is `j - 1074` (a finite table). -/
theorem log2_power_of_two :
    (∀ x : F64, x.sign = false → x.isFinite = true → 4503599627370496 ≤ x.mag → x.frac = 0 →
      Log.log2 x = F64.ofInt ((x.expField : Int) - 1023)) ∧
    ((List.range 52).all fun j => Log.log2 (F64.ofSM false (2 ^ j)) == F64.ofInt ((j : Int) - 1074)) = true :=
  ⟨Log.log2_pow2_normal, Log.log2_pow2_subnormal⟩

/-- the hypotheses are satisfiable: `1024 = 2^10`. -/
example : (F64.ofInt 1024).sign = false ∧ (F64.ofInt 1024).isFinite = true ∧ 4503599627370496 ≤ (F64.ofInt 1024).mag ∧
    (F64.ofInt 1024).frac = 0 ∧ ((F64.ofInt 1024).expField : Int) - 1023 = 10 ∧ Log.log2Str (F64.ofInt 1024) = ascii "10" := by
  decide +kernel

/-- Finite tables: `{log10 10^k}` is exactly `k` for `k = 0 … 22` except `k = 15` (`14.999999999999998`: the code
    computes `Log(x) * (1/Ln10)`); `{pow 10 k}` is exactly `10^k` for `k = 0 … 22`; `{pow 2 e}` is exactly `2^e`
    for `|e| ≤ 40` and at both ends of the range (`2^1024 = +Inf`, `2^-1074` the smallest subnormal, `2^-1075 = 0`). -/
theorem log_pow_tables :
    ((List.range 23).filter fun (k : Nat) =>
      !(Log.log10 (F64.ofInt (((10 ^ k : Nat) : Int))) == F64.ofInt (k : Int))) = [15] ∧
    ((List.range 23).all fun (k : Nat) =>
      Log.pow (F64.ofInt 10) (F64.ofInt (k : Int)) == some (F64.ofInt (((10 ^ k : Nat) : Int)))) = true ∧
    (((List.range 81).map (fun (j : Nat) => (j : Int) - 40) ++ [-1075, -1074, -1073, -1023, -1022, -1021, 1022, 1023, 1024]).all
      fun e => Log.pow Log.two (F64.ofInt e) == some (Log.ldexp F64.one e)) = true ∧
    Log.ldexp F64.one 1024 = F64.inf false ∧ Log.ldexp F64.one (-1075) = F64.zero false ∧
    Log.ldexp F64.one 10 = F64.ofInt 1024 :=
  ⟨Log.log10_table, Log.pow10_table, Log.pow2_table⟩

/-- **The platform the model mirrors is the platform of the run** (regenerated by the translator, which is built with
    the same toolchain as the harness): GOARCH is amd64 (where `math.Log` is `log_amd64.s`), the constants
    `1/Ln10`, `1/Ln2`, `Sqrt2/2` are the model's, and on the probe arguments (a subnormal, the rescaling threshold
    and its neighbour, powers of two and ten, the largest float; `3^y` up to overflow and down to underflow) the
    toolchain's `math.Log` / `Log10` / `Log2` / `Pow` return bit for bit what the model computes. -/
theorem gen_log_platform :
    Gen.C11.goarch = "amd64" ∧
    Gen.C11.invLn10Bits = Log.invLn10.bits ∧ Gen.C11.invLn2Bits = Log.invLn2.bits ∧ Gen.C11.hSqrt2Bits = Log.hSqrt2.bits ∧
    (Gen.C11.logProbes.all fun p => (Log.logAsm (Log.bitsF p.1)).bits == p.2) = true ∧
    (Gen.C11.log10Probes.all fun p => (Log.log10 (Log.bitsF p.1)).bits == p.2) = true ∧
    (Gen.C11.log2Probes.all fun p => (Log.log2 (Log.bitsF p.1)).bits == p.2) = true ∧
    (Gen.C11.pow3Probes.all fun p => (Log.pow (F64.ofInt 3) (Log.bitsF p.1)).map F64.bits == some p.2) = true ∧
    Gen.C11.logProbes.length = 15 ∧ Gen.C11.pow3Probes.length = 9 := by
  decide +kernel

/-- **`{pow a b}`**: the leading special cases of `math.Pow` for ALL arguments – `x^±0 = 1` and `1^y = 1` (also for NaN),
    `x^1 = x`, otherwise NaN in gives NaN out. -/
theorem pow_special_cases (x y : F64) :
    (y.mag = 0 → Log.pow x y = some F64.one) ∧
    (F64.eq x F64.one = true → Log.pow x y = some F64.one) ∧
    (y.mag ≠ 0 → F64.eq x F64.one = false → F64.eq y F64.one = true → Log.pow x y = some x) ∧
    (y.mag ≠ 0 → F64.eq x F64.one = false → F64.eq y F64.one = false → (x.isNaN = true ∨ y.isNaN = true) →
      Log.pow x y = some F64.nan) :=
  Log.pow_special x y

/-- The call `{pow a b}`, constants and groups alike: the rendering of `math.Pow` of the parsed values; a value that
    is not a float gives `<BAD-TYPE>`. -/
theorem pow_call_spec (c : Ctx) (a b : Arg) :
    (∀ x y r, Float.parseF (a.val c) = some x → Float.parseF (b.val c) = some y → Log.pow x y = some r →
      callHelper Log.kfPow [a, b] c = .ok (Float.fmtF r)) ∧
    ((Float.parseF (a.val c) = none ∨ Float.parseF (b.val c) = none) → callHelper Log.kfPow [a, b] c = .ok ErrorNum) :=
  ⟨fun x y r ha hb hr => Log.pow_call c a b x y r ha hb hr, Log.pow_marker c a b⟩

example : (callHelper Log.kfPow [.const (ascii "2"), .group 0] ⟨fun _ => ascii "-3", fun _ => []⟩).toOption = some (ascii "0.125") ∧
    (callHelper Log.kfPow [.const (ascii "-2"), .group 0] ⟨fun _ => ascii "3", fun _ => []⟩).toOption = some (ascii "-8") ∧
    (callHelper Log.kfPow [.const (ascii "-8"), .group 0] ⟨fun _ => ascii "x", fun _ => []⟩).toOption = some ErrorNum := by
  decide +kernel

/-! ### KNOWN FINDING: `{ln v}` / `{log10 v}` of a subnormal `v` is a wrong number

The full statement is `∀ x, Log.logAsm x = Log.logNorm x` – the code's `ln` is the documented algorithm applied to the
`Frexp` decomposition of the argument (what `math.Log` computes on every other architecture).  It is FALSE for the code
as it runs: `log_amd64.s` reads exponent and fraction straight from the bit pattern and never normalises a subnormal,
so `{ln 5e-324}` is `-709.0895657128241` (the logarithm is `-744.44…`) and `{log10 5e-324}` is `-307.95…` (`-323.3…`),
while `{log2 5e-324}` is the correct `-1074`.  Proved instead: the statement off the subnormal range
(`ln_is_documented_algorithm_partial`) and its negation at the witness, where the code's answer also violates the
elementary enclosure `ln x ≤ -e·0.693` for `x ≤ 2^-e` (`ln_subnormal_counterexample`).  The cases `C11 spec ln 35652d333234`
and `C11 spec log10 35652d333234` are listed in `known_findings/C11.json` (root cause in the Go runtime, not in rare's
own code: recorded, not repaired). -/

/-- Every argument that is not subnormal (normal, zero excluded by `mag ≥ 2^52`, ±Inf, NaN): the code's `ln` / `log10`
    is the documented algorithm's. -/
theorem ln_is_documented_algorithm_partial (x : F64) (h : 4503599627370496 ≤ x.mag) :
    Log.logAsm x = Log.logNorm x ∧ Log.log10 x = Log.log10Norm x := by
  have := Log.logAsm_eq_logNorm x h
  exact ⟨this, by unfold Log.log10 Log.log10Norm; rw [this]⟩

/-- The witness `5e-324 = 2^-1074`: it parses, the code answers `-709.0895657128241` / `-307.9536855642528`, the
    documented algorithm `-744.4400719213812` / `-323.30621534311575`; the code's `ln` breaks the enclosure
    `Spec.LnUpperOK` (at `e = 1074`: `ln x ≤ -744.28`), the documented algorithm's answer respects that bound; `log2`
    of the same value is right. -/
theorem ln_subnormal_counterexample :
    Float.parseF (ascii "5e-324") = some Log.tiny ∧
    Log.lnStr Log.tiny = ascii "-709.0895657128241" ∧ Log.log10Str Log.tiny = ascii "-307.9536855642528" ∧
    Float.fmtF (Log.logNorm Log.tiny) = ascii "-744.4400719213812" ∧
    Float.fmtF (Log.log10Norm Log.tiny) = ascii "-323.30621534311575" ∧
    Log.logAsm Log.tiny ≠ Log.logNorm Log.tiny ∧
    ¬ Spec.LnUpperOK Log.tiny (Log.logAsm Log.tiny) ∧
    (Log.logNorm Log.tiny).toRat ≤ -((((1074 : Nat) : Int) : Rat) * (693 / 1000)) ∧
    Log.log2Str Log.tiny = ascii "-1074" ∧
    (∀ c : Ctx, callHelper (Float.unaryF Log.lnStr) [.const (ascii "5e-324")] c = .ok (ascii "-709.0895657128241")) := by
  obtain ⟨hp, hv, h1, h2, h3, h4, h5⟩ := Log.tiny_facts
  refine ⟨hp, h1, h2, h3, h4, ?_, ?_, Log.tiny_bound.2, h5, ?_⟩
  · intro he
    have : Float.fmtF (Log.logAsm Log.tiny) = Float.fmtF (Log.logNorm Log.tiny) := by rw [he]
    rw [h3] at this
    have h1' : Float.fmtF (Log.logAsm Log.tiny) = ascii "-709.0895657128241" := h1
    rw [h1'] at this
    revert this
    decide +kernel
  · intro hok
    exact Log.tiny_bound.1 (hok 1074 (by rw [hv]; exact Rat.le_refl))
  · intro c
    have := ((log_call c (.const (ascii "5e-324"))).1 Log.tiny hp).1
    rw [this]
    exact congrArg Except.ok h1


/-! ## hf: the sign of the rendering (KNOWN FINDING: `{hf -Inf}` prints `Inf`)

"`hf` only inserts thousands separators": in particular the rendering keeps the sign of the value.  The full
statement is

    ∀ x, Spec.SignFaithful x (Float.hfStr x)        -- the output starts with `-` iff the sign bit is set (x not NaN)

It is FALSE for the code as it is: `humanizeFloat` answers `"Inf"` for both infinities
(pkg/humanize/numeric.go; pinned by the repository's own test `numeric_test.go:47`), so `{hf -Inf}` – and a
`-Inf` statistic of `rare analyze` – loses its sign.  Proved instead: the statement for every other value
(`hf_sign_partial`) and the negation at the witness (`hf_neg_inf_counterexample`); the case
`C11 spec hf 2d496e66` is listed in `known_findings/C11.json`. -/

/-- Every value except `-Inf` keeps its sign: finite values of either sign (zeros and values that round to
    zero included), and `+Inf`; NaN is the marker `NaN`. -/
theorem hf_sign_partial (x : F64) (hi : ¬ (x.isInf = true ∧ x.sign = true)) :
    Spec.SignFaithful x (Float.hfStr x) ∧
    (x.isNaN = true → Float.hfStr x = ascii "NaN") ∧
    Float.hfStr (F64.inf false) = Spec.hfInfSpec false := by
  refine ⟨fun hn => humanizeFloat_sign x Float.hfDecimals (by decide) hn hi, ?_, by decide +kernel⟩
  intro hn
  simp [Float.hfStr, Float.humanizeFloat, hn]

/-- The witness: `-Inf` parses (`strconv.ParseFloat("-Inf")`), is rendered `Inf` – the very text of `+Inf` –,
    which is neither sign-faithful nor the specified `-Inf`; at the call level `{hf -Inf}` = `Inf`. -/
theorem hf_neg_inf_counterexample :
    Float.parseF (ascii "-Inf") = some (F64.inf true) ∧
    Float.hfStr (F64.inf true) = ascii "Inf" ∧
    Float.hfStr (F64.inf true) = Float.hfStr (F64.inf false) ∧
    ¬ Spec.SignFaithful (F64.inf true) (Float.hfStr (F64.inf true)) ∧
    Float.hfStr (F64.inf true) ≠ Spec.hfInfSpec true ∧
    (∀ c : Ctx, callHelper (Float.unaryF Float.hfStr) [.const (ascii "-Inf")] c = .ok (ascii "Inf")) := by
  have hp : Float.parseF (ascii "-Inf") = some (F64.inf true) := by decide +kernel
  have hs : Float.hfStr (F64.inf true) = ascii "Inf" := by decide +kernel
  refine ⟨hp, hs, by decide +kernel, ?_, by decide +kernel, ?_⟩
  · intro h
    have := h (by decide +kernel)
    revert this
    decide +kernel
  · intro c
    have := (hf_sqrt_call c (.const (ascii "-Inf")) (F64.inf true) hp).1
    rw [this]
    show Except.ok (Float.hfStr (F64.inf true)) = _
    rw [hs]

example : Spec.SignFaithful (F64.ofInt (-1234567)) (Float.hfStr (F64.ofInt (-1234567))) ∧
    Float.hfStr (F64.ofInt (-1234567)) = ascii "-1,234,567.0000" ∧
    Float.hfStr (F64.zero true) = ascii "-0.0000" :=
  ⟨(hf_sign_partial _ (by decide +kernel)).1, by decide +kernel, by decide +kernel⟩


end Rare.C11
