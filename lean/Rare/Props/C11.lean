import Rare.Proofs.C11Str
import Rare.Gen.C11
/-!
# C11 — scalar helper functions follow their documented semantics

Vocabulary (defined in `Rare/Proofs/C11.lean`): an argument `Arg` is a constant written in the
template, a match group or a named key; `Arg.val c a` is its value in context `c`;
`callHelper builder args c` builds the helper with those arguments exactly as the compiler does
(static evaluation of constants included) and evaluates the resulting stage in `c`
(`.error` = the Go code would panic).  Theorems are therefore statements about both the
static-evaluation path and the run-time path.  Value-level theorems (`bucket_floor`, `substr_spec`,
`hi_only_separators` …) are about the pure functions those stages call; the `*_call` theorems tie
the two levels together.

Float-valued helpers are outside these theorems (see DESIGN.md, C11 "Level"): only the
`<BAD-TYPE>` marker and exactly-representable decimal comparisons are modelled, and they are
checked by correspondence only.
-/
namespace Rare.C11
open Rare Rare.Expr Rare.Expr.Funcs

/-! ## integer folds: sumi, subi, multi, divi, modi, maxi, mini -/

/-- `{op a₀ a₁ … aₙ}` (n ≥ 1), every argument an integer, constants and match groups alike:
    the result is the left fold of the wrapped int64 operation, printed in decimal; when the
    operation rejects its operands (division by zero) the result is the `<VALUE>` marker.
    No panic. -/
theorem fold_int (op : Arith.IntOp) (c : Ctx) (as : List Arg) (n : Int) (ns : List Int)
    (hp : as.map (fun a => atoi (a.val c)) = (n :: ns).map some) (hlen : 1 ≤ ns.length) :
    callHelper (Arith.intHelper op) as c = .ok (match foldOp op n ns with
      | some r => itoa r
      | none => ErrorValue) :=
  intHelper_fold op c as n ns hp hlen

/-- For the five total operations the checked fold is the plain left fold of `Spec.foldInts`. -/
theorem fold_int_total (f : Int → Int → Int) (n : Int) (ns : List Int) :
    foldOp (fun a b => some (f a b)) n ns = Spec.foldInts f (n :: ns) := by
  unfold Spec.foldInts
  induction ns generalizing n with
  | nil => rfl
  | cons x r ih => simp only [foldOp, List.foldl_cons]; exact ih (f n x)

/-- The table of `funcs.go`, spelled out: each helper is the fold of this wrapped operation. -/
theorem fold_int_ops (a b : Int) :
    Arith.opSum a b = some (wrap64 (a + b)) ∧ Arith.opSub a b = some (wrap64 (a - b)) ∧
    Arith.opMul a b = some (wrap64 (a * b)) ∧
    Arith.opMax a b = some (max a b) ∧ Arith.opMin a b = some (min a b) ∧
    (b ≠ 0 → Arith.opDiv a b = some (goDiv a b) ∧ Arith.opMod a b = some (goMod a b)) ∧
    Arith.opDiv a 0 = none ∧ Arith.opMod a 0 = none := by
  refine ⟨rfl, rfl, rfl, ?_, ?_, ?_, by simp [Arith.opDiv], by simp [Arith.opMod]⟩
  · simp only [Arith.opMax]; congr 1; split <;> omega
  · simp only [Arith.opMin]; congr 1; split <;> omega
  · intro hb; simp [Arith.opDiv, Arith.opMod, hb]

example : (callHelper (Arith.intHelper Arith.opSum)
    [.const (ascii "9223372036854775807"), .group 0] ⟨fun _ => ascii "1", fun _ => []⟩).toOption
    = some (ascii "-9223372036854775808") := by decide +kernel

example : (callHelper (Arith.intHelper Arith.opDiv)
    [.const (ascii "1"), .const (ascii "0")] ⟨fun _ => [], fun _ => []⟩).toOption = some ErrorValue := by
  decide +kernel

/-! ## non-numeric input yields the marker, never a number -/

/-- If any argument of an integer fold does not parse as an int64, the result is `<BAD-TYPE>`
    (or `<VALUE>` when a division by zero is met first) — never digits. -/
theorem nonnumeric_marker (op : Arith.IntOp) (c : Ctx) (as : List Arg) (hlen : 2 ≤ as.length)
    (hbad : ∃ a ∈ as, atoi (a.val c) = none) :
    callHelper (Arith.intHelper op) as c = .ok ErrorNum ∨
    (callHelper (Arith.intHelper op) as c = .ok ErrorValue ∧ ∃ x y, op x y = none) :=
  intHelper_marker op c as hlen hbad

/-- The unary integer helpers: an unparsable argument gives `<BAD-TYPE>`, a parsable one the value. -/
theorem nonnumeric_marker_unary (c : Ctx) (a : Arg) (h : atoi (a.val c) = none) :
    callHelper Strings.kfHumanizeInt [a] c = .ok ErrorNum ∧
    callHelper Arith.kfExpBucket [a] c = .ok ErrorNum ∧
    (∀ sz s, atoi sz = some s → 0 < s → callHelper Arith.kfBucket [a, .const sz] c = .ok ErrorNum) ∧
    (∀ sz s, atoi sz = some s → 0 < s → callHelper Arith.kfBucketRange [a, .const sz] c = .ok ErrorNum) ∧
    (∀ lo hi mn mx, atoi lo = some mn → atoi hi = some mx →
      callHelper Arith.kfClamp [a, .const lo, .const hi] c = .ok ErrorNum) := by
  refine ⟨?_, ?_, ?_, ?_, ?_⟩
  · rw [hi_call, h]
  · rw [expbucket_call, h]
  · intro sz s hs hpos; unfold Arith.kfBucket; rw [bucket_call _ c a sz s hs hpos, h]
  · intro sz s hs hpos; unfold Arith.kfBucketRange; rw [bucket_call _ c a sz s hs hpos, h]
  · intro lo hi mn mx h1 h2; rw [clamp_call c a lo hi mn mx h1 h2, h]

/-- The markers contain no digit, so they cannot be mistaken for a number. -/
theorem markers_not_numeric :
    atoi ErrorNum = none ∧ atoi ErrorValue = none ∧
    ErrorNum.all (fun b => !isDigitB b) = true ∧ ErrorValue.all (fun b => !isDigitB b) = true := by
  decide +kernel

example : ∃ a : Arg, atoi (a.val ⟨fun _ => ascii "12x", fun _ => []⟩) = none := ⟨.group 0, by decide +kernel⟩

/-! ## bucket / bucketrange / clamp / expbucket -/

/-- `{bucket v s}` for `s > 0`: the multiple `b` of `s` with `b ≤ v < b + s` (which is unique),
    whenever that multiple is representable (`≥ MinInt64`). -/
theorem bucket_floor (v s : Int) (hs : 0 < s) (hv : inInt64 v = true) (hs64 : s ≤ maxInt64)
    (hr : minInt64 ≤ Spec.floorBucket v s) :
    Arith.bucketVal v s = Spec.floorBucket v s ∧ Spec.IsBucket v s (Arith.bucketVal v s) ∧
    ∀ b, Spec.IsBucket v s b → b = Arith.bucketVal v s := by
  have e := bucketVal_eq_floor v s hs hv hs64 hr
  refine ⟨e, ?_, ?_⟩
  · rw [e]; exact floorBucket_isBucket v s hs
  · intro b hb; rw [e]; exact isBucket_unique v s b hs hb

/-- The call: value from a constant or a group, size a positive constant. -/
theorem bucket_call_spec (c : Ctx) (a : Arg) (sz : Bytes) (v s : Int) (hs : atoi sz = some s) (hpos : 0 < s)
    (hv : atoi (a.val c) = some v) :
    callHelper Arith.kfBucket [a, .const sz] c = .ok (itoa (Arith.bucketVal v s)) := by
  unfold Arith.kfBucket; rw [bucket_call _ c a sz s hs hpos, hv]

example : Arith.bucketVal (-100) 50 = -100 ∧ Arith.bucketVal (-101) 50 = -150 ∧ Arith.bucketVal 149 50 = 100 := by
  decide

/-- `{bucketrange v s}` = "`b - (b+s-1)`" for the same bucket `b`, when both ends are representable. -/
theorem bucketrange_spec (v s : Int) (hs : 0 < s) (hv : inInt64 v = true) (hs64 : s ≤ maxInt64)
    (hlo : minInt64 ≤ Spec.floorBucket v s) (hhi : Spec.floorBucket v s + s - 1 ≤ maxInt64) :
    Arith.bucketRangeStr v s = Spec.bucketRange v s :=
  bucketRange_eq v s hs hv hs64 hlo hhi

example : Arith.bucketRangeStr (-100) 50 = ascii "-100 - -51" := by decide +kernel

/-- `{clamp v min max}` returns its argument unchanged iff `min ≤ v ≤ max`; otherwise the words
    `min` / `max`. -/
theorem clamp_iff (a : Bytes) (v mn mx : Int) (h : atoi a = some v) :
    (Arith.clampVal a v mn mx = a ↔ mn ≤ v ∧ v ≤ mx) ∧
    (v < mn → Arith.clampVal a v mn mx = ascii "min") ∧
    (mn ≤ v → mx < v → Arith.clampVal a v mn mx = ascii "max") := by
  refine ⟨clampVal_iff a v mn mx h, ?_, ?_⟩
  · intro h1; simp [Arith.clampVal, h1]
  · intro h1 h2
    have : ¬ (v < mn) := by omega
    simp [Arith.clampVal, this, h2]

theorem clamp_call_spec (c : Ctx) (a : Arg) (lo hi : Bytes) (v mn mx : Int)
    (h1 : atoi lo = some mn) (h2 : atoi hi = some mx) (hv : atoi (a.val c) = some v) :
    callHelper Arith.kfClamp [a, .const lo, .const hi] c = .ok (Arith.clampVal (a.val c) v mn mx) := by
  rw [clamp_call c a lo hi mn mx h1 h2, hv]

example : Arith.clampVal (ascii "5") 5 5 5 = ascii "5" := by decide +kernel

/-- `{expbucket v}` for `v ≥ 1`: the largest power of ten that is `≤ v` (integer arithmetic, exact
    on the whole int64 range); `0` for `v ≤ 0`. -/
theorem expbucket_spec (v : Int) (h2 : v ≤ maxInt64) :
    (1 ≤ v → Spec.IsExpBucket v (Arith.expBucketVal v)) ∧ (v ≤ 0 → Arith.expBucketVal v = 0) := by
  refine ⟨fun h1 => expBucketVal_spec v h1 h2, ?_⟩
  intro h; have : ¬ (v > 0) := by omega
  simp [Arith.expBucketVal, this]

example : Arith.expBucketVal 1000000000000000 = 1000000000000000 ∧ Arith.expBucketVal 999 = 100 := by decide

/-! ## logic -/

/-- Truthiness logic, for every argument value: `not`, `if`, `unless` test `Truthy`
    (non-blank), `and` / `or` test non-emptiness, `eq` / `neq` compare bytes. -/
theorem logic_truth_tables (c : Ctx) :
    (∀ a, callHelper Logic.kfNot [a] c = .ok (truthyStr (!truthy (a.val c)))) ∧
    (∀ as, callHelper Logic.kfAnd as c = .ok (truthyStr (as.all fun a => a.val c != []))) ∧
    (∀ as, callHelper Logic.kfOr as c = .ok (truthyStr (as.any fun a => a.val c != []))) ∧
    (∀ a t e, callHelper Logic.kfIf [a, t, e] c = .ok (if truthy (a.val c) then t.val c else e.val c)) ∧
    (∀ a t, callHelper Logic.kfIf [a, t] c = .ok (if truthy (a.val c) then t.val c else [])) ∧
    (∀ a t, callHelper Logic.kfUnless [a, t] c = .ok (if truthy (a.val c) then [] else t.val c)) ∧
    (∀ a b, callHelper (Logic.stringComparator fun x y => if x = y then TruthyVal else FalsyVal) [a, b] c =
      .ok (truthyStr (decide (a.val c = b.val c)))) ∧
    (∀ a b, callHelper (Logic.stringComparator fun x y => if x ≠ y then TruthyVal else FalsyVal) [a, b] c =
      .ok (truthyStr (decide (a.val c ≠ b.val c)))) :=
  ⟨not_call c, and_call c, or_call c, if_call c, if2_call c, unless_call c, eq_call c, neq_call c⟩

/-- On the two canonical values the helpers are the Boolean connectives. -/
theorem logic_truth_tables_bool (x y : Bool) (c : Ctx) :
    callHelper Logic.kfAnd [.const (truthyStr x), .const (truthyStr y)] c = .ok (truthyStr (x && y)) ∧
    callHelper Logic.kfOr [.const (truthyStr x), .const (truthyStr y)] c = .ok (truthyStr (x || y)) ∧
    callHelper Logic.kfNot [.const (truthyStr x)] c = .ok (truthyStr (!x)) := by
  rw [and_call, or_call, not_call]
  simp only [Arg.val, List.all_cons, List.all_nil, List.any_cons, List.any_nil, Except.ok.injEq]
  cases x <;> cases y <;> decide +kernel

/-! ## substr -/

/-- `{substr s left len}`: never out of bounds (the model's `Except` never fails — the Go slice
    expression cannot panic) and equal to the specification: a negative `left` wraps around from
    the end, both ends are clamped to the string, a negative length is 0. -/
theorem substr_spec (s : Bytes) (left len : Int) (hs : (s.length : Int) ≤ maxInt64)
    (hl : inInt64 left = true) (hlen : inInt64 len = true) :
    Strings.substrVal s left len = .ok (Spec.substr s left len) :=
  substrVal_spec s left len hs hl hlen

/-- The call: any mixture of constants and groups; no argument value makes it panic. -/
theorem substr_call_spec (c : Ctx) (a l n : Arg) (hs : ((a.val c).length : Int) ≤ maxInt64) :
    ∃ r, callHelper Strings.kfSubstr [a, l, n] c = .ok r := by
  rw [substr_call c a l n hs]
  by_cases he : (a.val c).isEmpty = true
  · exact ⟨[], by simp [he]⟩
  · rw [if_neg he]
    cases h1 : atoi (l.val c) with
    | none => exact ⟨ErrorNum, rfl⟩
    | some left =>
      cases h2 : atoi (n.val c) with
      | none => exact ⟨ErrorNum, rfl⟩
      | some len =>
        exact ⟨_, substrVal_spec _ left len hs (atoi_inInt64 h1) (atoi_inInt64 h2)⟩

example : (Strings.substrVal (ascii "abc") 1 9223372036854775807).toOption = some (ascii "bc") ∧
    (Strings.substrVal (ascii "abcde") (-2) 5).toOption = some (ascii "de") := by decide +kernel

/-! ## csv -/

/-- `{csv a₁ … aₙ}` (n ≥ 1) parses back, with an RFC 4180 record parser, to exactly its arguments —
    for arbitrary bytes in the arguments (quotes, commas, CR, LF, NUL, non-UTF-8). -/
theorem csv_item_roundtrip (c : Ctx) (as : List Arg) (h : as ≠ []) :
    ∃ out, callHelper Strings.kfCsv as c = .ok out ∧
      Spec.parseCsvRecord out = some (as.map (Arg.val c)) := by
  refine ⟨_, kfCsv_call c as h, ?_⟩
  have := csv_record (as.map (Arg.val c)) [] (by simpa using h)
  simpa [Spec.parseCsvRecord] using this

example : Spec.parseCsvRecord (Strings.csvRecord [ascii "a,b", ascii "say \"hi\"", [], ascii "x\ny"])
    = some [ascii "a,b", ascii "say \"hi\"", [], ascii "x\ny"] := by decide +kernel

/-! ## hi -/

/-- `{hi n}` only inserts thousands separators: for every int64 `n` the output is an optional `-`
    followed by a body whose digits (separators removed) are the decimal digits of `|n|` and
    whose `,`-separated groups have 1–3 digits first and exactly 3 afterwards.  In particular
    removing `,` gives `strconv.Itoa(n)`. -/
theorem hi_only_separators (n : Int) (h1 : minInt64 ≤ n) (h2 : n ≤ maxInt64) :
    Spec.stripCommas (Strings.humanizeInt n) = itoa n ∧
    ∃ body, Strings.humanizeInt n = (if n < 0 then [45] else []) ++ body ∧
      Spec.stripCommas body = natDigits n.natAbs ∧ Spec.groupedInThrees body = true :=
  ⟨humanizeInt_strip n h1 h2, humanizeInt_spec n h1 h2⟩

example : Strings.humanizeInt (-9223372036854775808) = ascii "-9,223,372,036,854,775,808" ∧
    Strings.humanizeInt 1000 = ascii "1,000" ∧ Strings.humanizeInt 999 = ascii "999" := by decide +kernel

/-! ## select -/

/-- `{select s i}` on words separated by single spaces (words: non-empty, free of white space, NUL
    and quotes): the `i`-th word, counting from 0; the empty string when `i` is out of range or
    negative. -/
theorem select_spec (ws : List Bytes) (idx : Int) (hne : ws ≠ []) (hw : ∀ w ∈ ws, Spec.IsWord w) :
    Strings.selectField (Spec.joinWords ws) idx = if 0 ≤ idx then ws.getD idx.toNat [] else [] := by
  have := sel_words idx ws [] 0 hne hw
  simpa [Strings.selectField] using this

example : Strings.selectField (Spec.joinWords [ascii "ab", ascii "c", ascii "def"]) 2 = ascii "def" ∧
    Spec.IsWord (ascii "def") := by
  refine ⟨by decide +kernel, by decide +kernel, ?_⟩
  have : ascii "def" = [100, 101, 102] := by decide +kernel
  rw [this]; decide

/-! ## lookup / haskey -/

/-- The table builder is a function of the lines alone: every non-comment line with one or two
    fields contributes one entry, in order (so the model's table is this association list).
    Lines are those `bufio.Scanner` delivers (a line of 64 KiB or more ends the scan), fields those
    of `strings.Fields` (ASCII and Unicode white space). -/
theorem lookup_table_spec (content commentPrefix : Bytes) :
    Misc.buildLookupTable content commentPrefix =
      (((Misc.splitLinesGo content [] 0).map Misc.dropCR).filterMap (lineEntry commentPrefix)) := by
  unfold Misc.buildLookupTable
  rw [table_eq_filterMap]; rfl

/-- `{lookup key table}`: later lines win — an entry for `key` followed by no other entry for `key`
    is the answer; and the call returns the value (or "" when the key is absent). -/
theorem lookup_spec (c : Ctx) (key : Arg) (content : Bytes) :
    callHelper Misc.kfLookupKey [key, .const content] c =
      .ok ((Misc.tableGet (Misc.buildLookupTable content []) (key.val c)).getD []) ∧
    ∀ (pre post : List (Bytes × Bytes)) (k v : Bytes), (∀ e ∈ post, e.1 ≠ k) →
      Misc.tableGet (pre ++ [(k, v)] ++ post) k = some v :=
  ⟨lookup_call c _ key content, tableGet_hit⟩

/-- `{haskey key table}` is truthy iff some line of the table has an entry for the key. -/
theorem haskey_spec (c : Ctx) (key : Arg) (content : Bytes) :
    callHelper Misc.kfHasKey [key, .const content] c =
      .ok (truthyStr (Misc.tableGet (Misc.buildLookupTable content []) (key.val c)).isSome) ∧
    ∀ (tbl : List (Bytes × Bytes)) (k : Bytes), (Misc.tableGet tbl k).isSome = true ↔ ∃ e ∈ tbl, e.1 = k := by
  refine ⟨lookup_call c _ key content, ?_⟩
  intro tbl k
  have := tableGet_none_iff tbl k
  constructor
  · intro h
    apply Classical.byContradiction
    intro hno
    have : Misc.tableGet tbl k = none := this.mpr (fun e he heq => hno ⟨e, he, heq⟩)
    rw [this] at h; cases h
  · intro ⟨e, he, heq⟩
    cases hg : Misc.tableGet tbl k with
    | none => exact absurd heq (this.mp hg e he)
    | some _ => rfl

example : Misc.tableGet (Misc.buildLookupTable (ascii "a 1\n#a 9\nb\na 2\nx y z") (ascii "#")) (ascii "a")
    = some (ascii "2") := by decide +kernel

/-! ## the same laws for the definitions regenerated from /repo on every run

`Rare.Gen.C11` is produced by `harness/extract/c11.go` from the Go AST of `kfBucket` /
`kfBucketRange` (statement blocks of the run-time closures), `pkg/humanize/units.go` and
`stdlib/errors.go`.  A changed comparison, operator or table entry in /repo changes these
definitions and the theorems below stop checking. -/

theorem gen_bucket_eq_model (v s : Int) : Gen.C11.bucket v s = Arith.bucketVal v s := by
  simp [Gen.C11.bucket, Arith.bucketVal]

/-- `bucket_floor` for the code as it is in /repo now. -/
theorem gen_bucket_floor (v s : Int) (hs : 0 < s) (hv : inInt64 v = true) (hs64 : s ≤ maxInt64)
    (hr : minInt64 ≤ Spec.floorBucket v s) :
    Gen.C11.bucket v s = Spec.floorBucket v s ∧ Spec.IsBucket v s (Gen.C11.bucket v s) := by
  rw [gen_bucket_eq_model]
  exact ⟨(bucket_floor v s hs hv hs64 hr).1, (bucket_floor v s hs hv hs64 hr).2.1⟩

/-- `bucketrange_spec` for the code as it is in /repo now: the two ends are `b` and `b + s - 1`. -/
theorem gen_bucketrange_spec (v s : Int) (hs : 0 < s) (hv : inInt64 v = true) (hs64 : s ≤ maxInt64)
    (hlo : minInt64 ≤ Spec.floorBucket v s) (hhi : Spec.floorBucket v s + s - 1 ≤ maxInt64) :
    Gen.C11.bucketRange v s = (Spec.floorBucket v s, Spec.floorBucket v s + s - 1) := by
  have e : Gen.C11.bucketRange v s = (Arith.bucketVal v s, Arith.bucketEnd (Arith.bucketVal v s) s) := by
    simp [Gen.C11.bucketRange, Arith.bucketVal, Arith.bucketEnd]
  rw [e, bucketVal_eq_floor v s hs hv hs64 hlo]
  have hb := (floorBucket_isBucket v s hs).2.1
  rw [inInt64_iff] at hv
  unfold Arith.bucketEnd
  rw [wrap64_id (x := s - 1) (by i64) (by i64), wrap64_id (by i64) (by i64)]
  congr 1; omega

/-- Unit tables and error markers of the model are the ones in /repo. -/
theorem gen_tables :
    Gen.C11.iecSizes = Strings.iecSizes ∧ Gen.C11.siSizes = Strings.siSizes ∧ Gen.C11.unitSize = Strings.unitSize ∧
    ascii Gen.C11.markerErrorNum = ErrorNum ∧ ascii Gen.C11.markerErrorValue = ErrorValue ∧
    ascii Gen.C11.markerErrorArgCount = ErrorArgCount ∧ ascii Gen.C11.markerErrorConst = ErrorConst := by
  decide +kernel

example : Gen.C11.bucket (-100) 50 = -100 ∧ Gen.C11.bucketRange (-100) 50 = (-100, -51) := by decide

end Rare.C11
