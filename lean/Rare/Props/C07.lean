import Rare.Proofs.C07SubKey
import Rare.Proofs.C07MinMax
import Rare.Proofs.C07Num
import Rare.Proofs.C07TrimLink
/-!
C07 – Aggregators compute the exact fold of their sample history.

Spec: `Rare/Spec/C07.lean` (folds over the parsed history).  Model: `Rare/Model/C07.lean`
(mirror of counter.go, countersubkey.go, table.go, numerical.go, splitter.go after the `fix:` commits).
Every theorem quantifies over ALL histories (`List Bytes` of raw sample strings); int64 results are
`wrap64` of the exact sum, i.e. the exact sum whenever it is representable (`total_exact`).
Floating point: the numerical theorems are about the model instantiated with `Rat`; the same
polymorphic definitions instantiated with IEEE doubles are compared bit for bit with the Go code by
the correspondence driver (partial: no theorem mentions `Float`).
-/
namespace Rare.C07

/-! ## the splitter (F9 fixed: advance by `len(Delim)`) -/

/-- The three reads every `Sample` performs return the first three fields of `strings.Split(e, d)`
and report correctly whether a 2nd / 3rd field exists – for every non-empty delimiter, including
multi-byte ones. -/
theorem splitter_fields_spec (d e : Bytes) (hd : d ≠ []) :
    let s0 : Splitter := { S := e, delim := d }
    let r0 := s0.next'
    let r1 := r0.2.nextOk
    let r2 := r1.2.2.nextOk
    let fs := splitOn d e
    r0.1 = fs.headD [] ∧
    r1.1 = fs.tail.headD [] ∧ r1.2.1 = !fs.tail.isEmpty ∧
    r2.1 = fs.tail.tail.headD [] ∧ r2.2.1 = !fs.tail.tail.isEmpty :=
  splitter_fields d e hd

/-- General form: a splitter positioned in front of the remaining fields `fs` yields `fs` one by one,
then "" forever, and `Done()` is true exactly when nothing is left. -/
theorem splitter_next_spec (s : Splitter) (fs : List Bytes) (hd : s.delim ≠ []) (h : Tracks s fs) :
    s.next'.1 = fs.headD [] ∧ Tracks s.next'.2 fs.tail ∧ s.done = fs.isEmpty :=
  ⟨(tracks_next s fs hd h).1, (tracks_next s fs hd h).2.1, tracks_done s fs h⟩

/-! ## int64 sums -/

/-- `total` is the exact sum whenever that sum is an int64. -/
theorem total_exact (sel : Parsed → Bool) (hp : List Parsed) (h : inInt64 (sumBy (incIf sel) hp) = true) :
    total sel hp = sumBy (incIf sel) hp := wrap64_of_inRange _ h

/-! ## histogram counter -/

/-- After any history: per-key counts (present exactly for the keys sampled with a valid increment),
the running total and the parse-error count are the folds of the history. -/
theorem counter_fold (h : List Bytes) :
    let c := Counter.run h
    let hp := h.map parseCounter
    (∀ k, aget c.items k = if present (selKey k) hp then some (total (selKey k) hp) else none) ∧
    c.total = total selAll hp ∧ c.errors = errorCount hp :=
  let inv := counterInv_run h
  ⟨inv.items, inv.total, inv.errors⟩

/-- Order independence: permuting the history changes nothing observable. -/
theorem counter_perm (h1 h2 : List Bytes) (hperm : h1.Perm h2) :
    (∀ k, aget (Counter.run h1).items k = aget (Counter.run h2).items k) ∧
    (Counter.run h1).total = (Counter.run h2).total ∧ (Counter.run h1).errors = (Counter.run h2).errors := by
  have i1 := counterInv_run h1
  have i2 := counterInv_run h2
  have hp := hperm.map parseCounter
  refine ⟨fun k => ?_, ?_, ?_⟩
  · rw [i1.items, i2.items, present_perm _ hp, total_perm _ hp]
  · rw [i1.total, i2.total, total_perm _ hp]
  · rw [i1.errors, i2.errors, errorCount_perm hp]

/-! ## sub-key counter -/

/-- After any history `Sample` never panics (no index out of range), the sub-key list is the sorted
duplicate-free list of the sub-keys seen, the index map is its inverse, every row vector is aligned with
it (`SubKeysAligned`), and counts / cells are the folds of the history. -/
theorem subkey_fold (h : List Bytes) :
    ∃ s, SubKeyCounter.run h = .ok s ∧
      let hp := h.map parseSubKey
      IsSortedSetOf s.subKeys (fun x => present (selSub x) hp = true) ∧
      (∀ x i, aget s.subKeyIdx x = some i ↔ s.subKeys[i]? = some x) ∧
      (∀ k, (aget s.items k).isSome = present (selKey k) hp) ∧
      (∀ k it, aget s.items k = some it →
        it.count = total (selKey k) hp ∧ it.submatches.length = s.subKeys.length ∧
        ∀ (j : Nat) (x : Bytes), s.subKeys[j]? = some x → it.submatches[j]? = some (total (selKeySub k x) hp)) ∧
      s.errors = errorCount hp := by
  obtain ⟨s, hs, inv⟩ := subInv_run h
  refine ⟨s, hs, ⟨inv.sorted, inv.mem⟩, inv.idx, inv.itemsPresent, ?_, inv.errors⟩
  intro k it hk
  obtain ⟨c1, c2⟩ := inv.items k it hk
  refine ⟨c1, by rw [c2]; simp, ?_⟩
  intro j x hj
  rw [c2, List.getElem?_map, hj]; rfl

/-- Two strictly sorted lists with the same members are equal. -/
theorem sortedSet_unique (l1 l2 : List Bytes) (mem : Bytes → Prop) (h1 : IsSortedSetOf l1 mem) (h2 : IsSortedSetOf l2 mem) :
    l1 = l2 := by
  have p : l1.Perm l2 := (List.perm_ext_iff_of_nodup (sorted_nodup h1.1) (sorted_nodup h2.1)).mpr
    (fun a => (h1.2 a).trans (h2.2 a).symm)
  refine List.Perm.eq_of_pairwise ?_ h1.1 h2.1 p
  intro a b _ _ hab hba
  have := bLt_trans hab hba
  rw [bLt_irrefl] at this; exact Bool.noConfusion this

/-- Order independence of the sub-key counter: same sub-key list, same rows, same vectors. -/
theorem subkey_perm (h1 h2 : List Bytes) (hperm : h1.Perm h2) :
    ∃ s1 s2, SubKeyCounter.run h1 = .ok s1 ∧ SubKeyCounter.run h2 = .ok s2 ∧
      s1.subKeys = s2.subKeys ∧ s1.errors = s2.errors ∧
      (∀ k, (aget s1.items k).isSome = (aget s2.items k).isSome) ∧
      (∀ k it1 it2, aget s1.items k = some it1 → aget s2.items k = some it2 →
        it1.count = it2.count ∧ it1.submatches = it2.submatches) := by
  obtain ⟨s1, r1, i1⟩ := subInv_run h1
  obtain ⟨s2, r2, i2⟩ := subInv_run h2
  have hp := hperm.map parseSubKey
  have hk : s1.subKeys = s2.subKeys :=
    sortedSet_unique _ _ (fun x => present (selSub x) (h1.map parseSubKey) = true) ⟨i1.sorted, i1.mem⟩
      ⟨i2.sorted, fun x => by
        show x ∈ s2.subKeys ↔ present (selSub x) (h1.map parseSubKey) = true
        rw [present_perm _ hp]; exact i2.mem x⟩
  refine ⟨s1, s2, r1, r2, hk, ?_, ?_, ?_⟩
  · rw [i1.errors, i2.errors, errorCount_perm hp]
  · intro k; rw [i1.itemsPresent, i2.itemsPresent, present_perm _ hp]
  · intro k it1 it2 g1 g2
    obtain ⟨a1, a2⟩ := i1.items k it1 g1
    obtain ⟨b1, b2⟩ := i2.items k it2 g2
    refine ⟨by rw [a1, b1, total_perm _ hp], ?_⟩
    rw [a2, b2, hk]
    apply List.map_congr_left
    intro x _
    exact total_perm _ hp

/-! ## table -/

/-- After any sample history (non-empty delimiter): column totals, row sums, cells and the grand total
are the sums of the corresponding increments; rows/columns/cells exist exactly when sampled. -/
theorem table_fold (d : Bytes) (hd : d ≠ []) (h : List Bytes) :
    let t := Table.run d h
    let hp := h.map (parseTable d)
    (∀ c, aget t.cols c = if present (selCol c) hp then some (total (selCol c) hp) else none) ∧
    (∀ r, (aget t.rows r).isSome = present (selRow r) hp) ∧
    (∀ r row, aget t.rows r = some row →
      row.name = r ∧ row.sum = total (selRow r) hp ∧
      (∀ c, aget row.cols c = if present (selCell c r) hp then some (total (selCell c r) hp) else none) ∧
      (∀ c, row.value c = total (selCell c r) hp)) ∧
    (∀ c, t.colTotal c = total (selCol c) hp) ∧
    t.sum = total selAll hp ∧ t.errors = errorCount hp := by
  intro t hp
  have inv := tableInv_run d hd h
  refine ⟨inv.cols, inv.rowsPresent, ?_, ?_, sum_spec _ _ inv, inv.errors⟩
  · intro r row hr
    have ok := inv.rows r row hr
    exact ⟨ok.name, ok.sum, ok.cells, row_value _ _ inv r row hr⟩
  · intro c
    show (aget t.cols c).getD 0 = _
    rw [inv.cols c]
    show (if present (selCol c) (h.map (parseTable d)) = true then some (total (selCol c) (h.map (parseTable d))) else none).getD 0 =
      total (selCol c) (h.map (parseTable d))
    cases hc : present (selCol c) (h.map (parseTable d)) with
    | true => simp
    | false => simp [total_of_not_present _ _ hc]

/-- `ComputeMinMax` returns the minimum and maximum over the full rows × columns grid (absent cells = 0),
whatever order Go's map iteration produces; (0, 0) for an empty table. -/
theorem table_minmax (d : Bytes) (hd : d ≠ []) (h : List Bytes) (rs : List TableRow) (cs : List Bytes)
    (hrs : rs.Perm ((Table.run d h).rows.map (·.2))) (hcs : cs.Perm (akeys (Table.run d h).cols)) :
    IsGridMin (h.map (parseTable d)) (Table.computeMinMaxWith rs cs).1 ∧
    IsGridMax (h.map (parseTable d)) (Table.computeMinMaxWith rs cs).2 :=
  minmax_spec _ _ (tableInv_run d hd h) rs cs hrs hcs

theorem gridMin_unique (hp : List Parsed) (m1 m2 : Int) (h1 : IsGridMin hp m1) (h2 : IsGridMin hp m2) : m1 = m2 := by
  unfold IsGridMin at h1 h2
  by_cases hpres : present selAll hp = true
  · simp only [hpres, if_true] at h1 h2
    obtain ⟨⟨c1, r1, a1, b1, e1⟩, l1⟩ := h1
    obtain ⟨⟨c2, r2, a2, b2, e2⟩, l2⟩ := h2
    have := l1 c2 r2 a2 b2
    have := l2 c1 r1 a1 b1
    omega
  · rw [if_neg hpres] at h1 h2
    omega

theorem gridMax_unique (hp : List Parsed) (m1 m2 : Int) (h1 : IsGridMax hp m1) (h2 : IsGridMax hp m2) : m1 = m2 := by
  unfold IsGridMax at h1 h2
  by_cases hpres : present selAll hp = true
  · simp only [hpres, if_true] at h1 h2
    obtain ⟨⟨c1, r1, a1, b1, e1⟩, l1⟩ := h1
    obtain ⟨⟨c2, r2, a2, b2, e2⟩, l2⟩ := h2
    have := l1 c2 r2 a2 b2
    have := l2 c1 r1 a1 b1
    omega
  · rw [if_neg hpres] at h1 h2
    omega

/-- Order independence of the table: every public observable agrees for permuted histories. -/
theorem table_perm (d : Bytes) (hd : d ≠ []) (h1 h2 : List Bytes) (hperm : h1.Perm h2) :
    let t1 := Table.run d h1
    let t2 := Table.run d h2
    (∀ c, aget t1.cols c = aget t2.cols c) ∧
    (∀ r, (aget t1.rows r).isSome = (aget t2.rows r).isSome) ∧
    (∀ r row1 row2, aget t1.rows r = some row1 → aget t2.rows r = some row2 →
      row1.name = row2.name ∧ row1.sum = row2.sum ∧ ∀ c, aget row1.cols c = aget row2.cols c) ∧
    t1.sum = t2.sum ∧ t1.errors = t2.errors ∧ t1.computeMinMax = t2.computeMinMax := by
  intro t1 t2
  have i1 := tableInv_run d hd h1
  have i2 := tableInv_run d hd h2
  have hp := hperm.map (parseTable d)
  have pp : ∀ sel, present sel (h1.map (parseTable d)) = present sel (h2.map (parseTable d)) := fun sel => present_perm sel hp
  have tp : ∀ sel, total sel (h1.map (parseTable d)) = total sel (h2.map (parseTable d)) := fun sel => total_perm sel hp
  refine ⟨?_, ?_, ?_, ?_, ?_, ?_⟩
  · intro c; rw [i1.cols, i2.cols, pp, tp]
  · intro r; rw [i1.rowsPresent, i2.rowsPresent, pp]
  · intro r row1 row2 g1 g2
    have o1 := i1.rows r row1 g1
    have o2 := i2.rows r row2 g2
    refine ⟨by rw [o1.name, o2.name], by rw [o1.sum, o2.sum, tp], fun c => ?_⟩
    rw [o1.cells, o2.cells, pp, tp]
  · rw [sum_spec _ _ i1, sum_spec _ _ i2, tp]
  · rw [i1.errors, i2.errors, errorCount_perm hp]
  · unfold Table.computeMinMax
    have m1 := minmax_spec t1 _ i1 _ _ (List.Perm.refl _) (List.Perm.refl _)
    have m2 := minmax_spec t2 _ i2 _ _ (List.Perm.refl _) (List.Perm.refl _)
    have e1 : IsGridMin (h2.map (parseTable d)) (Table.computeMinMaxWith (t1.rows.map (·.2)) (akeys t1.cols)).1 := by
      have := m1.1; unfold IsGridMin at this ⊢; simpa only [pp, tp] using this
    have e2 : IsGridMax (h2.map (parseTable d)) (Table.computeMinMaxWith (t1.rows.map (·.2)) (akeys t1.cols)).2 := by
      have := m1.2; unfold IsGridMax at this ⊢; simpa only [pp, tp] using this
    exact Prod.ext (gridMin_unique _ _ _ e1 m2.1) (gridMax_unique _ _ _ e2 m2.2)

/-! ## Table.Trim (after the fixes f6f463b, 907408d) -/

/-- For every well-formed table, every predicate and every pair of map iteration orders that cover the
maps: the remaining cells are exactly the unselected ones with unchanged values, a row / column survives
iff it still has a cell (rows and columns left empty are removed, nothing else is), the result is again
well-formed. -/
theorem trim_exact (t : Table) (p : Pred) (colOrder : List Bytes) (rowOrder : Bytes → List Bytes)
    (hwf : t.WF) (hcov : Covers t colOrder rowOrder) :
    let t' := (t.trim p colOrder rowOrder).1
    (∀ c r, t'.cell c r = trimmedCell p c r (t.cell c r)) ∧
    (∀ r, (aget t'.rows r).isSome ↔ ∃ c, (t'.cell c r).isSome) ∧
    (∀ c, (aget t'.cols c).isSome ↔ ∃ r, (t'.cell c r).isSome) ∧
    t'.WF :=
  ⟨trim_cells t p colOrder rowOrder hwf hcov, trim_rows t p colOrder rowOrder hwf hcov,
   trim_cols t p colOrder rowOrder hwf hcov, trim_wf t p colOrder rowOrder hwf hcov⟩

/-- The result of `Trim` does not depend on Go's map iteration order (cells, row set, column set, and –
for duplicate-free orders, as `range` produces – the returned count, which is the number of existing
selected cells). -/
theorem trim_deterministic (t : Table) (p : Pred) (co co' : List Bytes) (ro ro' : Bytes → List Bytes)
    (hwf : t.WF) (hcov : Covers t co ro) (hcov' : Covers t co' ro') :
    (∀ c r, (t.trim p co ro).1.cell c r = (t.trim p co' ro').1.cell c r) ∧
    (∀ r, (aget (t.trim p co ro).1.rows r).isSome = (aget (t.trim p co' ro').1.rows r).isSome) ∧
    (∀ c, (aget (t.trim p co ro).1.cols c).isSome = (aget (t.trim p co' ro').1.cols c).isSome) ∧
    (co.Nodup → (∀ c, (ro c).Nodup) → co'.Nodup → (∀ c, (ro' c).Nodup) →
      (t.trim p co ro).2 = (t.trim p co' ro').2 ∧
      (t.trim p co ro).2 = (co.map fun c => (ro c).countP fun r => selected p c r (t.cell c r)).sum) := by
  obtain ⟨a, b, c⟩ := trim_order_independent t p co ro co' ro' hwf hcov hcov'
  refine ⟨a, b, c, fun n1 n2 n3 n4 => ⟨?_, trim_count t p co ro hwf hcov n1 n2⟩⟩
  exact trim_count_order_independent t p co co' ro ro' hwf hcov hcov' n1 n2 n3 n4

/-- Every table reachable by interleaving samples and trims is well-formed, and any permutation of the
key sets is a covering order – so `trim_exact` applies to every `Trim` call of every history. -/
theorem trim_applies_to_every_history (d : Bytes) (t : Table) (h : Reach d t)
    (colOrder : List Bytes) (rowOrder : Bytes → List Bytes)
    (hc : colOrder.Perm (akeys t.cols)) (hr : ∀ c, (rowOrder c).Perm (akeys t.rows)) :
    t.WF ∧ Covers t colOrder rowOrder :=
  ⟨reach_wf h, covers_of_perm t colOrder rowOrder hc hr⟩

/-- F23 fixed: `Trim` keeps every row sum equal to the sum of the row's remaining cells, and every column
total equal to the sum of the column's remaining cells (`R` = any duplicate-free list naming the rows).
Tables built from samples satisfy the row-sum invariant (`SumsOK`). -/
theorem trim_totals (t : Table) (p : Pred) (colOrder : List Bytes) (rowOrder : Bytes → List Bytes) :
    (SumsOK t → SumsOK (t.trim p colOrder rowOrder).1) ∧
    (∀ R : List Bytes, R.Nodup → CellsIn R t → ColsOK R t → ColsOK R (t.trim p colOrder rowOrder).1) ∧
    (∀ d h, d ≠ [] → t = Table.run d h → SumsOK t) := by
  refine ⟨trim_sums t p colOrder rowOrder, fun R => trim_colTotals t p colOrder rowOrder R, ?_⟩
  intro d h hd ht
  subst ht
  exact sumsOK_of_inv _ _ (tableInv_run d hd h)

/-- Parse-error counts of all three count-style aggregators. -/
theorem errors_count (h : List Bytes) :
    (Counter.run h).errors = errorCount (h.map parseCounter) ∧
    (∀ s, SubKeyCounter.run h = .ok s → s.errors = errorCount (h.map parseSubKey)) ∧
    (∀ d, d ≠ [] → (Table.run d h).errors = errorCount (h.map (parseTable d))) := by
  refine ⟨(counterInv_run h).errors, ?_, fun d hd => (tableInv_run d hd h).errors⟩
  intro s hs
  obtain ⟨s', hs', inv⟩ := subInv_run h
  rw [hs] at hs'
  cases hs'
  exact inv.errors

/-! ## numerical aggregator (exact arithmetic) -/

/-- Welford's recurrence yields exactly the count, mean, M2 and sample variance of the sample list. -/
theorem welford_exact (keep : Bool) (l : List Rat) :
    (runQ keep l).samples = l.length ∧ (runQ keep l).mean = mean l ∧ (runQ keep l).variance = m2 l ∧
    (runQ keep l).varianceOf ratOps = sampleVariance l ∧ (keep = true → (runQ keep l).values = l) :=
  ⟨welford_samples keep l, welford_mean keep l, welford_m2 keep l, welford_variance keep l,
   fun hk => by subst hk; exact welford_values l⟩

/-- Min / Max are the least / greatest sample (samples within ±MaxFloat64, as every finite double is). -/
theorem numerical_minmax (keep : Bool) (l : List Rat) (hne : l ≠ [])
    (hb : ∀ x ∈ l, ratOps.negMaxVal ≤ x ∧ x ≤ ratOps.maxVal) :
    IsMin l (runQ keep l).min ∧ IsMax l (runQ keep l).max := welford_minmax keep l hne hb

/-- `Analyze` sorts; `Median` is the element of rank ⌊n/2⌋ and `Quantile p` the element of rank ⌊n·p⌋ of the
sorted samples for 0 ≤ p < 1.  The raw index ⌊n·p⌋ is inside the slice iff p < 1 (at p = 1 it is n: the old
out-of-range panic, F20); with the clamp `Quantile` is total and `Quantile 1` is the last element. -/
theorem order_stats (rev : Bool) (l : List Rat) (hne : l ≠ []) :
    IsSortedOf rev (analyze ratOps rev l) l ∧
    IsRank rev l (l.length / 2) (median 0 (analyze ratOps rev l)) ∧
    (∀ p : Rat, 0 ≤ p → p < 1 → ∃ x, quantileAt 0 (analyze ratOps rev l) (((l.length : Rat) * p).floor) = .ok x ∧
      IsRank rev l (((l.length : Rat) * p).floor.toNat) x) ∧
    (∀ p : Rat, 0 ≤ p →
      ((0 ≤ ((l.length : Rat) * p).floor ∧ ((l.length : Rat) * p).floor < (l.length : Int)) ↔ p < 1)) ∧
    (∀ idx : Int, ∃ x, quantileAt 0 (analyze ratOps rev l) idx = .ok x ∧ x ∈ l) ∧
    (∃ x, quantileAt 0 (analyze ratOps rev l) (l.length : Int) = .ok x ∧ IsRank rev l (l.length - 1) x) := by
  refine ⟨analyze_sorted rev l, median_rank rev l hne, fun p h0 h1 => quantile_rank rev l hne p h0 h1, ?_, ?_,
    quantile_one rev l hne⟩
  · intro p h0
    exact quantile_index_in_bounds_iff l.length (List.length_pos_iff.mpr hne) p h0
  · intro idx
    obtain ⟨x, hx, hm⟩ := quantile_total rev l idx
    exact ⟨x, hx, hm hne⟩

/-- `Mode` returns one of the samples. (That it has maximal multiplicity is covered by correspondence only.) -/
theorem mode_is_sample_partial (rev : Bool) (l : List Rat) (hne : l ≠ []) :
    mode 0 (fun a b => decide (a = b)) (analyze ratOps rev l) ∈ l := mode_mem rev l hne

/-! ## non-vacuity: the hypotheses are satisfiable on concrete non-trivial values -/

/-- `a NUL 2`, `b`, `a`, `a NUL x` (bad increment). -/
def exHist : List Bytes := [[97, 0, 50], [98], [97], [97, 0, 120]]

example : (Counter.run exHist).total = 4 ∧ aget (Counter.run exHist).items [97] = some 3 ∧
    (Counter.run exHist).errors = 1 := by decide
example : exHist.Perm exHist.reverse := (List.reverse_perm exHist).symm
example : (Counter.run exHist.reverse).total = 4 := by decide
example : ([58, 58] : Bytes) ≠ [] := by decide
example : Tracks { S := [49, 58, 58, 50], delim := [58, 58] } (splitOn [58, 58] [49, 58, 58, 50]) := tracks_init _ _
example : (Table.run [58, 58] [[120, 58, 58, 97], [121, 58, 58, 97, 58, 58, 53]]).sum = 6 := by decide
example : ([(1 : Rat), 2, 4] : List Rat) ≠ [] := by decide
/-- two columns x, y; rows a, b; the trim selects column x: a non-trivial well-formed table with a covering order. -/
def exTable : Table := Table.run [0] [[120, 0, 97], [121, 0, 97], [120, 0, 98, 0, 53]]
example : Reach [0] exTable := by
  show Reach [0] ((({ delim := [0] } : Table).sample [120, 0, 97]).sample [121, 0, 97] |>.sample [120, 0, 98, 0, 53])
  exact Reach.sample _ _ (Reach.sample _ _ (Reach.sample _ _ Reach.init))
example : exTable.WF ∧ Covers exTable (akeys exTable.cols) (fun _ => akeys exTable.rows) :=
  ⟨wf_of_inv _ _ (tableInv_run [0] (by decide) _), covers_of_perm _ _ _ (List.Perm.refl _) (fun _ => List.Perm.refl _)⟩
example : (exTable.trim (fun c _ _ => c == [120]) (akeys exTable.cols) (fun _ => akeys exTable.rows)).2 = 2 ∧
    akeys (exTable.trim (fun c _ _ => c == [120]) (akeys exTable.cols) (fun _ => akeys exTable.rows)).1.rows = [[97]] ∧
    (exTable.trim (fun c _ _ => c == [120]) (akeys exTable.cols) (fun _ => akeys exTable.rows)).1.sum = 1 := by decide
example : SumsOK exTable := sumsOK_of_inv _ _ (tableInv_run [0] (by decide) _)
example : inInt64 (sumBy (incIf selAll) [⟨[97], [], some 5⟩, ⟨[98], [], none⟩]) = true := by decide

end Rare.C07
