import Rare.Proofs.C07SubKey
import Rare.Proofs.C07MinMax
import Rare.Proofs.C07Num
import Rare.Proofs.C07TrimLink
import Rare.Proofs.C07Acc
import Rare.Proofs.C07Mode
import Rare.Proofs.C07Sorted
import Rare.Spec.C07Mode
import Rare.Proofs.C07NumF64Arith
import Rare.Proofs.C07AccOpt
import Rare.Proofs.C07GroupKey
import Rare.Proofs.C07NumF64Err
import Rare.Proofs.C07NumF64Acc
import Rare.Proofs.C07NumF64Var
import Rare.Proofs.C07ModeNaN
import Rare.Model.C07NumErr
import Rare.Proofs.C07Sqrt
import Rare.Proofs.C07NumHist
import Rare.Proofs.C07NumExact
import Rare.Gen.C07
/-!
C07 – Aggregators compute the exact fold of their sample history.

Spec: `Rare/Spec/C07.lean` (folds over the parsed history).  Model: `Rare/Model/C07.lean`
(mirror of counter.go, countersubkey.go, table.go, numerical.go, splitter.go after the `fix:` commits)
and `Rare/Model/C07Acc.lean` (accumulator.go; spec `Rare/Spec/C07Acc.lean`).
Every theorem quantifies over ALL histories (`List Bytes` of raw sample strings); int64 results are
`wrap64` of the exact sum, i.e. the exact sum whenever it is representable (`total_exact`).
Floating point: `welford_exact` … `mode_spec` are about the model instantiated with `Rat`; the `num_f64_*`
theorems are about the SAME polymorphic definitions instantiated with the kernel-checkable software binary64
`Rare.F64` (`Model/C07NumF64.lean`), which the correspondence compares bit for bit with the Go code
(`agg numf` / `agg numfv`; Lean's opaque `Float` occurs only in drivers, as a second opinion).
-/
namespace Rare.C07
open Rare.Expr (Comp Stage Ctx)

/-! ## the splitter (F9 fixed: advance by `len(Delim)`) -/

/-- The three reads every `Sample` performs return the first three fields of `strings.Split(e, d)`
and report correctly whether a 2nd / 3rd field exists – for every non-empty delimiter, including
multi-byte ones. -/
theorem splitter_fields_spec (d e : Bytes) (hd : d ≠ []) :
    let s0 : Splitter := { S := e, delim := d }
    let r0 := s0.next'
    let r1 := r0.2.nextOk
    let r2 := r1.2.2.nextOk
    let fs := splitOn d e
    r0.1 = fs.headD [] ∧
    r1.1 = fs.tail.headD [] ∧ r1.2.1 = !fs.tail.isEmpty ∧
    r2.1 = fs.tail.tail.headD [] ∧ r2.2.1 = !fs.tail.tail.isEmpty :=
  splitter_fields d e hd

/-- General form: a splitter positioned in front of the remaining fields `fs` yields `fs` one by one,
then "" forever, and `Done()` is true exactly when nothing is left. -/
theorem splitter_next_spec (s : Splitter) (fs : List Bytes) (hd : s.delim ≠ []) (h : Tracks s fs) :
    s.next'.1 = fs.headD [] ∧ Tracks s.next'.2 fs.tail ∧ s.done = fs.isEmpty :=
  ⟨(tracks_next s fs hd h).1, (tracks_next s fs hd h).2.1, tracks_done s fs h⟩

/-! ## int64 sums -/

/-- `total` is the exact sum whenever that sum is an int64. -/
theorem total_exact (sel : Parsed → Bool) (hp : List Parsed) (h : inInt64 (sumBy (incIf sel) hp) = true) :
    total sel hp = sumBy (incIf sel) hp := wrap64_of_inRange _ h

/-! ## histogram counter -/

/-- After any history: per-key counts (present exactly for the keys sampled with a valid increment),
the running total and the parse-error count are the folds of the history. -/
theorem counter_fold (h : List Bytes) :
    let c := Counter.run h
    let hp := h.map parseCounter
    (∀ k, aget c.items k = if present (selKey k) hp then some (total (selKey k) hp) else none) ∧
    c.total = total selAll hp ∧ c.errors = errorCount hp :=
  let inv := counterInv_run h
  ⟨inv.items, inv.total, inv.errors⟩

/-- Order independence: permuting the history changes nothing observable. -/
theorem counter_perm (h1 h2 : List Bytes) (hperm : h1.Perm h2) :
    (∀ k, aget (Counter.run h1).items k = aget (Counter.run h2).items k) ∧
    (Counter.run h1).total = (Counter.run h2).total ∧ (Counter.run h1).errors = (Counter.run h2).errors := by
  have i1 := counterInv_run h1
  have i2 := counterInv_run h2
  have hp := hperm.map parseCounter
  refine ⟨fun k => ?_, ?_, ?_⟩
  · rw [i1.items, i2.items, present_perm _ hp, total_perm _ hp]
  · rw [i1.total, i2.total, total_perm _ hp]
  · rw [i1.errors, i2.errors, errorCount_perm hp]

/-! ## sub-key counter -/

/-- After any history `Sample` never panics (no index out of range), the sub-key list is the sorted
duplicate-free list of the sub-keys seen, the index map is its inverse, every row vector is aligned with
it (`SubKeysAligned`), and counts / cells are the folds of the history. -/
theorem subkey_fold (h : List Bytes) :
    ∃ s, SubKeyCounter.run h = .ok s ∧
      let hp := h.map parseSubKey
      IsSortedSetOf s.subKeys (fun x => present (selSub x) hp = true) ∧
      (∀ x i, aget s.subKeyIdx x = some i ↔ s.subKeys[i]? = some x) ∧
      (∀ k, (aget s.items k).isSome = present (selKey k) hp) ∧
      (∀ k it, aget s.items k = some it →
        it.count = total (selKey k) hp ∧ it.submatches.length = s.subKeys.length ∧
        ∀ (j : Nat) (x : Bytes), s.subKeys[j]? = some x → it.submatches[j]? = some (total (selKeySub k x) hp)) ∧
      s.errors = errorCount hp := by
  obtain ⟨s, hs, inv⟩ := subInv_run h
  refine ⟨s, hs, ⟨inv.sorted, inv.mem⟩, inv.idx, inv.itemsPresent, ?_, inv.errors⟩
  intro k it hk
  obtain ⟨c1, c2⟩ := inv.items k it hk
  refine ⟨c1, by rw [c2]; simp, ?_⟩
  intro j x hj
  rw [c2, List.getElem?_map, hj]; rfl

/-- Two strictly sorted lists with the same members are equal. -/
theorem sortedSet_unique (l1 l2 : List Bytes) (mem : Bytes → Prop) (h1 : IsSortedSetOf l1 mem) (h2 : IsSortedSetOf l2 mem) :
    l1 = l2 := by
  have p : l1.Perm l2 := (List.perm_ext_iff_of_nodup (sorted_nodup h1.1) (sorted_nodup h2.1)).mpr
    (fun a => (h1.2 a).trans (h2.2 a).symm)
  refine List.Perm.eq_of_pairwise ?_ h1.1 h2.1 p
  intro a b _ _ hab hba
  have := bLt_trans hab hba
  rw [bLt_irrefl] at this; exact Bool.noConfusion this

/-- Order independence of the sub-key counter: same sub-key list, same rows, same vectors. -/
theorem subkey_perm (h1 h2 : List Bytes) (hperm : h1.Perm h2) :
    ∃ s1 s2, SubKeyCounter.run h1 = .ok s1 ∧ SubKeyCounter.run h2 = .ok s2 ∧
      s1.subKeys = s2.subKeys ∧ s1.errors = s2.errors ∧
      (∀ k, (aget s1.items k).isSome = (aget s2.items k).isSome) ∧
      (∀ k it1 it2, aget s1.items k = some it1 → aget s2.items k = some it2 →
        it1.count = it2.count ∧ it1.submatches = it2.submatches) := by
  obtain ⟨s1, r1, i1⟩ := subInv_run h1
  obtain ⟨s2, r2, i2⟩ := subInv_run h2
  have hp := hperm.map parseSubKey
  have hk : s1.subKeys = s2.subKeys :=
    sortedSet_unique _ _ (fun x => present (selSub x) (h1.map parseSubKey) = true) ⟨i1.sorted, i1.mem⟩
      ⟨i2.sorted, fun x => by
        show x ∈ s2.subKeys ↔ present (selSub x) (h1.map parseSubKey) = true
        rw [present_perm _ hp]; exact i2.mem x⟩
  refine ⟨s1, s2, r1, r2, hk, ?_, ?_, ?_⟩
  · rw [i1.errors, i2.errors, errorCount_perm hp]
  · intro k; rw [i1.itemsPresent, i2.itemsPresent, present_perm _ hp]
  · intro k it1 it2 g1 g2
    obtain ⟨a1, a2⟩ := i1.items k it1 g1
    obtain ⟨b1, b2⟩ := i2.items k it2 g2
    refine ⟨by rw [a1, b1, total_perm _ hp], ?_⟩
    rw [a2, b2, hk]
    apply List.map_congr_left
    intro x _
    exact total_perm _ hp

/-! ## table -/

/-- After any sample history (non-empty delimiter): column totals, row sums, cells and the grand total
are the sums of the corresponding increments; rows/columns/cells exist exactly when sampled. -/
theorem table_fold (d : Bytes) (hd : d ≠ []) (h : List Bytes) :
    let t := Table.run d h
    let hp := h.map (parseTable d)
    (∀ c, aget t.cols c = if present (selCol c) hp then some (total (selCol c) hp) else none) ∧
    (∀ r, (aget t.rows r).isSome = present (selRow r) hp) ∧
    (∀ r row, aget t.rows r = some row →
      row.name = r ∧ row.sum = total (selRow r) hp ∧
      (∀ c, aget row.cols c = if present (selCell c r) hp then some (total (selCell c r) hp) else none) ∧
      (∀ c, row.value c = total (selCell c r) hp)) ∧
    (∀ c, t.colTotal c = total (selCol c) hp) ∧
    t.sum = total selAll hp ∧ t.errors = errorCount hp := by
  intro t hp
  have inv := tableInv_run d hd h
  refine ⟨inv.cols, inv.rowsPresent, ?_, ?_, sum_spec _ _ inv, inv.errors⟩
  · intro r row hr
    have ok := inv.rows r row hr
    exact ⟨ok.name, ok.sum, ok.cells, row_value _ _ inv r row hr⟩
  · intro c
    show (aget t.cols c).getD 0 = _
    rw [inv.cols c]
    show (if present (selCol c) (h.map (parseTable d)) = true then some (total (selCol c) (h.map (parseTable d))) else none).getD 0 =
      total (selCol c) (h.map (parseTable d))
    cases hc : present (selCol c) (h.map (parseTable d)) with
    | true => simp
    | false => simp [total_of_not_present _ _ hc]

/-- `ComputeMinMax` returns the minimum and maximum over the full rows × columns grid (absent cells = 0),
whatever order Go's map iteration produces; (0, 0) for an empty table. -/
theorem table_minmax (d : Bytes) (hd : d ≠ []) (h : List Bytes) (rs : List TableRow) (cs : List Bytes)
    (hrs : rs.Perm ((Table.run d h).rows.map (·.2))) (hcs : cs.Perm (akeys (Table.run d h).cols)) :
    IsGridMin (h.map (parseTable d)) (Table.computeMinMaxWith rs cs).1 ∧
    IsGridMax (h.map (parseTable d)) (Table.computeMinMaxWith rs cs).2 :=
  minmax_spec _ _ (tableInv_run d hd h) rs cs hrs hcs

theorem gridMin_unique (hp : List Parsed) (m1 m2 : Int) (h1 : IsGridMin hp m1) (h2 : IsGridMin hp m2) : m1 = m2 := by
  unfold IsGridMin at h1 h2
  by_cases hpres : present selAll hp = true
  · simp only [hpres, if_true] at h1 h2
    obtain ⟨⟨c1, r1, a1, b1, e1⟩, l1⟩ := h1
    obtain ⟨⟨c2, r2, a2, b2, e2⟩, l2⟩ := h2
    have := l1 c2 r2 a2 b2
    have := l2 c1 r1 a1 b1
    omega
  · rw [if_neg hpres] at h1 h2
    omega

theorem gridMax_unique (hp : List Parsed) (m1 m2 : Int) (h1 : IsGridMax hp m1) (h2 : IsGridMax hp m2) : m1 = m2 := by
  unfold IsGridMax at h1 h2
  by_cases hpres : present selAll hp = true
  · simp only [hpres, if_true] at h1 h2
    obtain ⟨⟨c1, r1, a1, b1, e1⟩, l1⟩ := h1
    obtain ⟨⟨c2, r2, a2, b2, e2⟩, l2⟩ := h2
    have := l1 c2 r2 a2 b2
    have := l2 c1 r1 a1 b1
    omega
  · rw [if_neg hpres] at h1 h2
    omega

/-- Order independence of the table: every public observable agrees for permuted histories. -/
theorem table_perm (d : Bytes) (hd : d ≠ []) (h1 h2 : List Bytes) (hperm : h1.Perm h2) :
    let t1 := Table.run d h1
    let t2 := Table.run d h2
    (∀ c, aget t1.cols c = aget t2.cols c) ∧
    (∀ r, (aget t1.rows r).isSome = (aget t2.rows r).isSome) ∧
    (∀ r row1 row2, aget t1.rows r = some row1 → aget t2.rows r = some row2 →
      row1.name = row2.name ∧ row1.sum = row2.sum ∧ ∀ c, aget row1.cols c = aget row2.cols c) ∧
    t1.sum = t2.sum ∧ t1.errors = t2.errors ∧ t1.computeMinMax = t2.computeMinMax := by
  intro t1 t2
  have i1 := tableInv_run d hd h1
  have i2 := tableInv_run d hd h2
  have hp := hperm.map (parseTable d)
  have pp : ∀ sel, present sel (h1.map (parseTable d)) = present sel (h2.map (parseTable d)) := fun sel => present_perm sel hp
  have tp : ∀ sel, total sel (h1.map (parseTable d)) = total sel (h2.map (parseTable d)) := fun sel => total_perm sel hp
  refine ⟨?_, ?_, ?_, ?_, ?_, ?_⟩
  · intro c; rw [i1.cols, i2.cols, pp, tp]
  · intro r; rw [i1.rowsPresent, i2.rowsPresent, pp]
  · intro r row1 row2 g1 g2
    have o1 := i1.rows r row1 g1
    have o2 := i2.rows r row2 g2
    refine ⟨by rw [o1.name, o2.name], by rw [o1.sum, o2.sum, tp], fun c => ?_⟩
    rw [o1.cells, o2.cells, pp, tp]
  · rw [sum_spec _ _ i1, sum_spec _ _ i2, tp]
  · rw [i1.errors, i2.errors, errorCount_perm hp]
  · unfold Table.computeMinMax
    have m1 := minmax_spec t1 _ i1 _ _ (List.Perm.refl _) (List.Perm.refl _)
    have m2 := minmax_spec t2 _ i2 _ _ (List.Perm.refl _) (List.Perm.refl _)
    have e1 : IsGridMin (h2.map (parseTable d)) (Table.computeMinMaxWith (t1.rows.map (·.2)) (akeys t1.cols)).1 := by
      have := m1.1; unfold IsGridMin at this ⊢; simpa only [pp, tp] using this
    have e2 : IsGridMax (h2.map (parseTable d)) (Table.computeMinMaxWith (t1.rows.map (·.2)) (akeys t1.cols)).2 := by
      have := m1.2; unfold IsGridMax at this ⊢; simpa only [pp, tp] using this
    exact Prod.ext (gridMin_unique _ _ _ e1 m2.1) (gridMax_unique _ _ _ e2 m2.2)

/-! ## Table.Trim (after the fixes f6f463b, 907408d) -/

/-- For every well-formed table, every predicate and every pair of map iteration orders that cover the
maps: the remaining cells are exactly the unselected ones with unchanged values, a row / column survives
iff it still has a cell (rows and columns left empty are removed, nothing else is), the result is again
well-formed. -/
theorem trim_exact (t : Table) (p : Pred) (colOrder : List Bytes) (rowOrder : Bytes → List Bytes)
    (hwf : t.WF) (hcov : Covers t colOrder rowOrder) :
    let t' := (t.trim p colOrder rowOrder).1
    (∀ c r, t'.cell c r = trimmedCell p c r (t.cell c r)) ∧
    (∀ r, (aget t'.rows r).isSome ↔ ∃ c, (t'.cell c r).isSome) ∧
    (∀ c, (aget t'.cols c).isSome ↔ ∃ r, (t'.cell c r).isSome) ∧
    t'.WF :=
  ⟨trim_cells t p colOrder rowOrder hwf hcov, trim_rows t p colOrder rowOrder hwf hcov,
   trim_cols t p colOrder rowOrder hwf hcov, trim_wf t p colOrder rowOrder hwf hcov⟩

/-- The result of `Trim` does not depend on Go's map iteration order (cells, row set, column set, and –
for duplicate-free orders, as `range` produces – the returned count, which is the number of existing
selected cells). -/
theorem trim_deterministic (t : Table) (p : Pred) (co co' : List Bytes) (ro ro' : Bytes → List Bytes)
    (hwf : t.WF) (hcov : Covers t co ro) (hcov' : Covers t co' ro') :
    (∀ c r, (t.trim p co ro).1.cell c r = (t.trim p co' ro').1.cell c r) ∧
    (∀ r, (aget (t.trim p co ro).1.rows r).isSome = (aget (t.trim p co' ro').1.rows r).isSome) ∧
    (∀ c, (aget (t.trim p co ro).1.cols c).isSome = (aget (t.trim p co' ro').1.cols c).isSome) ∧
    (co.Nodup → (∀ c, (ro c).Nodup) → co'.Nodup → (∀ c, (ro' c).Nodup) →
      (t.trim p co ro).2 = (t.trim p co' ro').2 ∧
      (t.trim p co ro).2 = (co.map fun c => (ro c).countP fun r => selected p c r (t.cell c r)).sum) := by
  obtain ⟨a, b, c⟩ := trim_order_independent t p co ro co' ro' hwf hcov hcov'
  refine ⟨a, b, c, fun n1 n2 n3 n4 => ⟨?_, trim_count t p co ro hwf hcov n1 n2⟩⟩
  exact trim_count_order_independent t p co co' ro ro' hwf hcov hcov' n1 n2 n3 n4

/-- Every table reachable by interleaving samples and trims is well-formed, and any permutation of the
key sets is a covering order – so `trim_exact` applies to every `Trim` call of every history. -/
theorem trim_applies_to_every_history (d : Bytes) (t : Table) (h : Reach d t)
    (colOrder : List Bytes) (rowOrder : Bytes → List Bytes)
    (hc : colOrder.Perm (akeys t.cols)) (hr : ∀ c, (rowOrder c).Perm (akeys t.rows)) :
    t.WF ∧ Covers t colOrder rowOrder :=
  ⟨reach_wf h, covers_of_perm t colOrder rowOrder hc hr⟩

/-- F23 fixed: `Trim` keeps every row sum equal to the sum of the row's remaining cells, and every column
total equal to the sum of the column's remaining cells (`R` = any duplicate-free list naming the rows).
Tables built from samples satisfy the row-sum invariant (`SumsOK`). -/
theorem trim_totals (t : Table) (p : Pred) (colOrder : List Bytes) (rowOrder : Bytes → List Bytes) :
    (SumsOK t → SumsOK (t.trim p colOrder rowOrder).1) ∧
    (∀ R : List Bytes, R.Nodup → CellsIn R t → ColsOK R t → ColsOK R (t.trim p colOrder rowOrder).1) ∧
    (∀ d h, d ≠ [] → t = Table.run d h → SumsOK t) := by
  refine ⟨trim_sums t p colOrder rowOrder, fun R => trim_colTotals t p colOrder rowOrder R, ?_⟩
  intro d h hd ht
  subst ht
  exact sumsOK_of_inv _ _ (tableInv_run d hd h)

/-- Parse-error counts of all three count-style aggregators. -/
theorem errors_count (h : List Bytes) :
    (Counter.run h).errors = errorCount (h.map parseCounter) ∧
    (∀ s, SubKeyCounter.run h = .ok s → s.errors = errorCount (h.map parseSubKey)) ∧
    (∀ d, d ≠ [] → (Table.run d h).errors = errorCount (h.map (parseTable d))) := by
  refine ⟨(counterInv_run h).errors, ?_, fun d hd => (tableInv_run d hd h).errors⟩
  intro s hs
  obtain ⟨s', hs', inv⟩ := subInv_run h
  rw [hs] at hs'
  cases hs'
  exact inv.errors

/-! ## numerical aggregator (exact arithmetic) -/

/-- Welford's recurrence yields exactly the count, mean, M2 and sample variance of the sample list. -/
theorem welford_exact (keep : Bool) (l : List Rat) :
    (runQ keep l).samples = l.length ∧ (runQ keep l).mean = mean l ∧ (runQ keep l).variance = m2 l ∧
    (runQ keep l).varianceOf ratOps = sampleVariance l ∧ (keep = true → (runQ keep l).values = l) :=
  ⟨welford_samples keep l, welford_mean keep l, welford_m2 keep l, welford_variance keep l,
   fun hk => by subst hk; exact welford_values l⟩

/-- Min / Max are the least / greatest sample (samples within ±MaxFloat64, as every finite double is). -/
theorem numerical_minmax (keep : Bool) (l : List Rat) (hne : l ≠ [])
    (hb : ∀ x ∈ l, ratOps.negMaxVal ≤ x ∧ x ≤ ratOps.maxVal) :
    IsMin l (runQ keep l).min ∧ IsMax l (runQ keep l).max := welford_minmax keep l hne hb

/-- `Analyze` sorts; `Median` is the element of rank ⌊n/2⌋ and `Quantile p` the element of rank ⌊n·p⌋ of the
sorted samples for 0 ≤ p < 1.  The raw index ⌊n·p⌋ is inside the slice iff p < 1 (at p = 1 it is n: the old
out-of-range panic, F20); with the clamp `Quantile` is total and `Quantile 1` is the last element. -/
theorem order_stats (rev : Bool) (l : List Rat) (hne : l ≠ []) :
    IsSortedOf rev (analyze ratOps rev l) l ∧
    IsRank rev l (l.length / 2) (median 0 (analyze ratOps rev l)) ∧
    (∀ p : Rat, 0 ≤ p → p < 1 → ∃ x, quantileAt 0 (analyze ratOps rev l) (((l.length : Rat) * p).floor) = .ok x ∧
      IsRank rev l (((l.length : Rat) * p).floor.toNat) x) ∧
    (∀ p : Rat, 0 ≤ p →
      ((0 ≤ ((l.length : Rat) * p).floor ∧ ((l.length : Rat) * p).floor < (l.length : Int)) ↔ p < 1)) ∧
    (∀ idx : Int, ∃ x, quantileAt 0 (analyze ratOps rev l) idx = .ok x ∧ x ∈ l) ∧
    (∃ x, quantileAt 0 (analyze ratOps rev l) (l.length : Int) = .ok x ∧ IsRank rev l (l.length - 1) x) := by
  refine ⟨analyze_sorted rev l, median_rank rev l hne, fun p h0 h1 => quantile_rank rev l hne p h0 h1, ?_, ?_,
    quantile_one rev l hne⟩
  · intro p h0
    exact quantile_index_in_bounds_iff l.length (List.length_pos_iff.mpr hne) p h0
  · intro idx
    obtain ⟨x, hx, hm⟩ := quantile_total rev l idx
    exact ⟨x, hx, hm hne⟩

/-- `Mode()` exactly.  The returned value is a sample of maximal multiplicity (`IsMode`).  Ties are NOT left
to chance: `Mode` scans the ordered values for the longest run and keeps the first one, so among several
values of maximal multiplicity it returns the smallest (the largest when `Reverse` is set) – there is no map
iteration in `Mode`, and the result is the same for every arrival order of the samples. -/
theorem mode_spec (rev : Bool) (l : List Rat) (hne : l ≠ []) :
    let m := mode 0 (fun a b => decide (a = b)) (analyze ratOps rev l)
    IsMode l m ∧
    (∀ y, l.count y = l.count m → y ≠ m → if rev then y < m else m < y) ∧
    (∀ l' : List Rat, l'.Perm l → mode 0 (fun a b => decide (a = b)) (analyze ratOps rev l') = m) := by
  intro m
  obtain ⟨hperm, hsorted⟩ := analyze_sorted rev l
  have hne' : analyze ratOps rev l ≠ [] := by
    intro h; rw [h] at hperm; exact hne hperm.symm.eq_nil
  have hanti : ∀ a b : Rat, (if rev then b ≤ a else a ≤ b) → (if rev then a ≤ b else b ≤ a) → a = b := by
    intro a b h1 h2
    cases rev
    · exact Rat.le_antisymm h1 h2
    · exact Rat.le_antisymm h2 h1
  obtain ⟨hm, hb, ht⟩ := mode_scan (fun a b => if rev then b ≤ a else a ≤ b) hanti _ hne' hsorted
  have hc : ∀ y, (analyze ratOps rev l).count y = l.count y := fun y => hperm.count_eq y
  refine ⟨⟨hperm.mem_iff.mp hm, fun y => by rw [← hc y, ← hc m]; exact hb y⟩, ?_, ?_⟩
  · intro y hy hne2
    have := ht y (by rw [hc y, hc]; exact hy) hne2
    cases rev
    · simp only [Bool.false_eq_true, if_false] at this ⊢
      exact Rat.lt_of_le_of_ne this (fun e => hne2 e.symm)
    · simp only [if_true] at this ⊢
      exact Rat.lt_of_le_of_ne this hne2
  · intro l' hp
    obtain ⟨hperm', hsorted'⟩ := analyze_sorted rev l'
    have : analyze ratOps rev l' = analyze ratOps rev l :=
      List.Perm.eq_of_pairwise (fun a b _ _ h1 h2 => hanti a b h1 h2) hsorted' hsorted
        ((hperm'.trans hp).trans hperm.symm)
    rw [this]

/-! ## non-vacuity: the hypotheses are satisfiable on concrete non-trivial values -/

/-- `a NUL 2`, `b`, `a`, `a NUL x` (bad increment). -/
def exHist : List Bytes := [[97, 0, 50], [98], [97], [97, 0, 120]]

example : (Counter.run exHist).total = 4 ∧ aget (Counter.run exHist).items [97] = some 3 ∧
    (Counter.run exHist).errors = 1 := by decide
example : exHist.Perm exHist.reverse := (List.reverse_perm exHist).symm
example : (Counter.run exHist.reverse).total = 4 := by decide
example : ([58, 58] : Bytes) ≠ [] := by decide
example : Tracks { S := [49, 58, 58, 50], delim := [58, 58] } (splitOn [58, 58] [49, 58, 58, 50]) := tracks_init _ _
example : (Table.run [58, 58] [[120, 58, 58, 97], [121, 58, 58, 97, 58, 58, 53]]).sum = 6 := by decide
example : ([(1 : Rat), 2, 4] : List Rat) ≠ [] := by decide
/-- two columns x, y; rows a, b; the trim selects column x: a non-trivial well-formed table with a covering order. -/
def exTable : Table := Table.run [0] [[120, 0, 97], [121, 0, 97], [120, 0, 98, 0, 53]]
example : Reach [0] exTable := by
  show Reach [0] ((({ delim := [0] } : Table).sample [120, 0, 97]).sample [121, 0, 97] |>.sample [120, 0, 98, 0, 53])
  exact Reach.sample _ _ (Reach.sample _ _ (Reach.sample _ _ Reach.init))
example : exTable.WF ∧ Covers exTable (akeys exTable.cols) (fun _ => akeys exTable.rows) :=
  ⟨wf_of_inv _ _ (tableInv_run [0] (by decide) _), covers_of_perm _ _ _ (List.Perm.refl _) (fun _ => List.Perm.refl _)⟩
example : (exTable.trim (fun c _ _ => c == [120]) (akeys exTable.cols) (fun _ => akeys exTable.rows)).2 = 2 ∧
    akeys (exTable.trim (fun c _ _ => c == [120]) (akeys exTable.cols) (fun _ => akeys exTable.rows)).1.rows = [[97]] ∧
    (exTable.trim (fun c _ _ => c == [120]) (akeys exTable.cols) (fun _ => akeys exTable.rows)).1.sum = 1 := by decide
example : SumsOK exTable := sumsOK_of_inv _ _ (tableInv_run [0] (by decide) _)
example : inInt64 (sumBy (incIf selAll) [⟨[97], [], some 5⟩, ⟨[98], [], none⟩]) = true := by decide

/-! ## accumulating group (`rare reduce`, accumulator.go after the fixes 392a859, b9dd8f5)

Spec: `Rare/Spec/C07Acc.lean`; model: `Rare/Model/C07Acc.lean`.  A compiled expression is ANY tree of
context look-ups (`Stage`), so every statement holds for every expression language and every function
library; `.error` stands for a Go panic inside an expression and is propagated, never swallowed. -/

/-- What the accumulator context answers: `{0}` is the whole element, `{n}` (n ≥ 1) the n-th
NUL-separated part – computed by the splitter loop, for every index including negative and huge ones –
and the sort context numbers the parts of the group key from 0. -/
theorem accgroup_context (m : Bytes) (idx : Int) :
    accGetMatch m idx = partOf m idx ∧
    sortGetMatch m idx = (if idx < 0 then [] else (splitOn nul m).getD idx.toNat []) :=
  ⟨congrFun (accGetMatch_eq m) idx, sortGetMatch_eq m idx⟩

/-- Invariant of every reachable aggregator (any sequence of AddGroupExpr / AddDataExpr / SetSort / Sample
calls that did not panic): data-column names are distinct, the name→index map is exactly the inverse of the
column list, every row has exactly one entry per data column, every index the look-up closure can use is
inside every row (so no `rowData[idx]` can panic and no default value is ever taken), each group is stored
once. -/
theorem accgroup_invariant (s : AccGroup) (h : AccReach s) :
    s.dataCols.Nodup ∧ s.groupCols.Nodup ∧
    (∀ k j, aget s.colIdx k = some j ↔ s.dataCols[j]? = some k) ∧
    (∀ g row, aget s.data g = some row → row.length = s.colDef.length) ∧
    (∀ g row key j, aget s.data g = some row → aget s.colIdx key = some j → j < row.length) ∧
    (akeys s.data).Nodup := by
  have wf := reach_accwf h
  refine ⟨wf.names_nodup, wf.gnames_nodup, wf.idx, wf.rows, ?_, reach_keys_nodup h⟩
  intro g row key j hg hk
  exact accKeyLookup_in_range s wf key j row (wf.rows g row hg) hk

/-- MAIN THEOREM.  For every reachable aggregator (every definition list, whatever rows it already holds)
and every further sample sequence: the model and the spec fold – started from the map the aggregator holds –
either both fail with the same panic, or both succeed and the aggregator holds exactly the spec map; the
definitions are untouched. -/
theorem accgroup_fold (s0 : AccGroup) (h0 : AccReach s0) (h : List Bytes) :
    match s0.run h, h.foldlM (specSample s0.specGroups s0.specCols) (fun k => aget s0.data k) with
    | .ok s, .ok st => (∀ k, aget s.data k = st k) ∧ SameDefs s0 s ∧ AccReach s0
    | .error m, .error m' => m = m'
    | _, _ => False := by
  rcases (run_refines s0 (reach_accwf h0) _ (holds_self s0) h).cases with ⟨s, st, e1, e2, hh, _, sd⟩ | ⟨m, e1, e2⟩
  · rw [e1, e2]; exact ⟨hh, sd, h0⟩
  · rw [e1, e2]

/-- The same from a freshly configured aggregator: the state after a history is `specRun` of it. -/
theorem accgroup_fold_init (s0 : AccGroup) (h0 : AccReach s0) (hempty : s0.data = []) (h : List Bytes) :
    match s0.run h, specRun s0.specGroups s0.specCols h with
    | .ok s, .ok st => (∀ k, aget s.data k = st k) ∧ SameDefs s0 s
    | .error m, .error m' => m = m'
    | _, _ => False := by
  have hh : Holds s0 (fun _ => none) := by intro k; rw [hempty]; rfl
  unfold specRun
  rcases (run_refines s0 (reach_accwf h0) _ hh h).cases with ⟨s, st, e1, e2, hh', _, sd⟩ | ⟨m, e1, e2⟩
  · rw [e1, e2]; exact ⟨hh', sd⟩
  · rw [e1, e2]

/-- Per group: after any accepted history the row of group `k` is the fold of the row update over exactly
the samples whose group key is `k` (in order) starting from the initial values, and a group exists iff it
was sampled.  Consequently the state depends only on the per-group sub-histories. -/
theorem accgroup_group_history (s0 s : AccGroup) (h0 : AccReach s0) (hempty : s0.data = []) (h : List Bytes)
    (hr : s0.run h = .ok s) (k : Bytes) :
    ∃ row, (subHistory s0.specGroups h k).foldlM (updRow s0.specCols) (initialRow s0.specCols) = .ok row ∧
      aget s.data k = if subHistory s0.specGroups h k = [] then none else some row := by
  have := accgroup_fold_init s0 h0 hempty h
  rw [hr] at this
  cases hs : specRun s0.specGroups s0.specCols h with
  | error m => rw [hs] at this; exact this.elim
  | ok st =>
    rw [hs] at this
    obtain ⟨row, a, b⟩ := specRun_sub _ _ h st hs k
    exact ⟨row, a, by rw [this.1 k]; exact b⟩

/-- Two histories with the same per-group sub-histories (any interleaving of the groups) that are both
accepted leave the same rows. -/
theorem accgroup_interleave (s0 s1 s2 : AccGroup) (h0 : AccReach s0) (hempty : s0.data = []) (h1 h2 : List Bytes)
    (hsub : ∀ k, subHistory s0.specGroups h1 k = subHistory s0.specGroups h2 k)
    (r1 : s0.run h1 = .ok s1) (r2 : s0.run h2 = .ok s2) (k : Bytes) : aget s1.data k = aget s2.data k := by
  obtain ⟨row1, a1, b1⟩ := accgroup_group_history s0 s1 h0 hempty h1 r1 k
  obtain ⟨row2, a2, b2⟩ := accgroup_group_history s0 s2 h0 hempty h2 r2 k
  rw [hsub k] at a1 b1
  rw [a1] at a2; cases a2
  rw [b1, b2]

/-- Samples of different groups commute (accumulators are order-sensitive WITHIN a group; that is not
claimed and not true): if `e1; e2` is accepted so is `e2; e1`, with the same rows. -/
theorem accgroup_comm (s s12 : AccGroup) (h0 : AccReach s) (e1 e2 k1 k2 : Bytes)
    (hk1 : s.buildGroupKey (accCtx e1 [] none) = .ok k1) (hk2 : s.buildGroupKey (accCtx e2 [] none) = .ok k2)
    (hne : k1 ≠ k2) (h : s.run [e1, e2] = .ok s12) :
    ∃ s21, s.run [e2, e1] = .ok s21 ∧ (∀ k, aget s12.data k = aget s21.data k) ∧ SameDefs s12 s21 :=
  sample_comm_model s s12 (reach_accwf h0) e1 e2 k1 k2 hk1 hk2 hne h

/-- One sample touches only the row of its own group (which exists afterwards). -/
theorem accgroup_other_groups_untouched (s s' : AccGroup) (e gk : Bytes)
    (hk : s.buildGroupKey (accCtx e [] none) = .ok gk) (h : s.sample e = .ok s') :
    (∀ k, k ≠ gk → aget s'.data k = aget s.data k) ∧ (aget s'.data gk).isSome := by
  unfold AccGroup.sample at h
  rw [hk] at h
  simp only at h
  split at h
  · cases h
  · simp only [Except.ok.injEq] at h
    subst h
    refine ⟨fun k hne => ?_, ?_⟩
    · show aget (aset s.data gk _) k = _
      rw [aget_aset_ne _ _ _ _ (fun e => hne e.symm)]
    · show (aget (aset s.data gk _) gk).isSome
      rw [aget_aset_self]; rfl

/-- `ParseErrors()` is constantly 0. -/
theorem accgroup_parse_errors (s : AccGroup) : s.parseErrors = 0 := rfl

/-- Group keys and `Parts`.  (1) The parts of ANY key joined by NUL give the key back.  (2) A built key is the
NUL-join of the group values, one per group expression.  (3) `Parts` returns exactly those values iff no value
contains NUL and the key was not built from a single empty value: (4) a single empty group value gives the key
"" which has NO parts (not one empty part), and a value containing NUL splits into extra parts. -/
theorem groupkey_parts (s : AccGroup) (ctx : Ctx) :
    (∀ k, nulJoin (groupKeyParts k) = k) ∧
    (∀ k, s.buildGroupKey ctx = .ok k →
      ∃ vs, s.groupDef.mapM (m := Except String) (fun g => g.expr.run ctx) = .ok vs ∧
        vs.length = s.groupColCount ∧ k = nulJoin vs ∧
        (groupKeyParts k = vs ↔ (∀ v ∈ vs, (0 : UInt8) ∉ v) ∧ vs ≠ [[]])) ∧
    groupKeyParts (nulJoin [[]]) = [] ∧
    groupKeyParts (nulJoin [[97, 0, 98]]) = [[97], [98]] := by
  refine ⟨nulJoin_parts, ?_, by decide, ?_⟩
  case refine_2 =>
    have h1 : splitOn nul ([97] ++ 0 :: [98]) = [97] :: splitOn nul [98] := splitOn_free_append [97] [98] (by decide)
    have h2 : splitOn nul [98] = [[98]] := splitOn_free [98] (by decide)
    show (if ([97, 0, 98] : Bytes) = [] then [] else splitOn nul [97, 0, 98]) = _
    rw [if_neg (by decide)]
    exact h1.trans (by rw [h2])
  intro k hk
  rw [buildGroupKey_eq] at hk
  cases hm : s.groupDef.mapM (m := Except String) (fun g => g.expr.run ctx) with
  | error m => rw [hm] at hk; cases hk
  | ok vs =>
    rw [hm] at hk
    simp only [Except.map, Except.ok.injEq] at hk
    subst hk
    refine ⟨vs, rfl, ?_, rfl, parts_nulJoin_iff vs⟩
    have : ∀ (l : List AccGroupDef) (r : List Bytes),
        l.mapM (m := Except String) (fun g => g.expr.run ctx) = .ok r → r.length = l.length := by
      intro l
      induction l with
      | nil => intro r h; simp [pure, Except.pure] at h; subst h; rfl
      | cons g l ih =>
        intro r h
        rw [mapM_except_cons] at h
        cases hg : g.expr.run ctx with
        | error m => rw [hg] at h; cases h
        | ok v =>
          rw [hg] at h
          simp only at h
          cases hl : l.mapM (m := Except String) (fun g => g.expr.run ctx) with
          | error m => rw [hl] at h; cases h
          | ok r' => rw [hl] at h; simp only [Except.ok.injEq] at h; subst h; simp [ih r' hl]
    exact this _ _ hm

/-- Group keys at EVERY arity (no, one, two, … group expressions) and with empty values at any position.
For the values `vs` the group expressions yield: the key is their NUL-join and there is one value per group column;
the cells the consumers show (`groupCells`: `GroupColCount()` cells, cell `i` = `Parts()[i]`, surplus parts dropped,
missing ones empty – `cmd/reduce.go`, `csv.WriteAccumulator`) are EXACTLY the values iff no value contains NUL.  In
particular a single empty value (key "", no parts) is shown as one empty cell, and leading / trailing / inner empty
values of a longer tuple keep their positions (seeded/C07-groupkey-leading-empty breaks this equation). -/
theorem groupkey_cells (s : AccGroup) (ctx : Ctx) (k : Bytes) (vs : List Bytes)
    (hvs : s.groupDef.mapM (m := Except String) (fun g => g.expr.run ctx) = .ok vs)
    (hk : s.buildGroupKey ctx = .ok k) :
    k = nulJoin vs ∧ vs.length = s.groupColCount ∧
    (groupCells s.groupColCount k = vs ↔ ∀ v ∈ vs, (0 : UInt8) ∉ v) := by
  rw [buildGroupKey_eq, hvs] at hk
  simp only [Except.map, Except.ok.injEq] at hk
  subst hk
  have hl : vs.length = s.groupColCount := mapM_run_length ctx _ _ hvs
  refine ⟨rfl, hl, ?_⟩
  rw [← hl]
  exact groupCells_nulJoin_iff vs

/-- Distinct group tuples never share a row: for NUL-free group values, two samples get the same group key IFF
their group tuples are equal – whatever the arity and wherever the empty values are. -/
theorem groupkey_injective (s : AccGroup) (c1 c2 : Ctx) (k1 k2 : Bytes) (vs ws : List Bytes)
    (h1 : s.groupDef.mapM (m := Except String) (fun g => g.expr.run c1) = .ok vs)
    (h2 : s.groupDef.mapM (m := Except String) (fun g => g.expr.run c2) = .ok ws)
    (hk1 : s.buildGroupKey c1 = .ok k1) (hk2 : s.buildGroupKey c2 = .ok k2)
    (hv : ∀ v ∈ vs, (0 : UInt8) ∉ v) (hw : ∀ w ∈ ws, (0 : UInt8) ∉ w) :
    k1 = k2 ↔ vs = ws := by
  obtain ⟨e1, l1, _⟩ := groupkey_cells s c1 k1 vs h1 hk1
  obtain ⟨e2, l2, _⟩ := groupkey_cells s c2 k2 ws h2 hk2
  subst e1 e2
  exact ⟨fun h => nulJoin_injective vs ws (l1.trans l2.symm) hv hw h, fun h => by rw [h]⟩

/-- Just outside that class: group values that contain the separator.  Two different tuples of the same arity share
one key (their samples are accumulated into ONE row), and the displayed cells are not the values. -/
theorem groupkey_nul_counterexample :
    nulJoin [[97, 0, 98], [99]] = nulJoin [[97], [98, 0, 99]] ∧
    ([[97, 0, 98], [99]] : List Bytes) ≠ [[97], [98, 0, 99]] ∧
    groupCells 2 (nulJoin [[97, 0, 98], [99]]) ≠ [[97, 0, 98], [99]] := by
  refine ⟨by decide, by decide, ?_⟩
  intro h
  have := (groupCells_nulJoin_iff [[97, 0, 98], [99]]).mp h [97, 0, 98] (by simp)
  exact this (by decide)

/-- Which definitions a sequence of configuration calls leaves behind: those whose expression compiled,
the first of each name, in call order (group names and data names are separate name spaces); no call panics. -/
theorem accgroup_config (ops : List AccOp) (hcfg : ∀ op ∈ ops, op.isSample = false) :
    ∃ s, ({} : AccGroup).applyAll ops = .ok s ∧ s.data = [] ∧
      s.groupDef = (acceptedBy (·.1) (·.2.isSome) (groupCalls ops)).filterMap toGDef ∧
      s.colDef = (acceptedBy (·.1) (·.2.1.isSome) (dataCalls ops)).filterMap toDDef := by
  obtain ⟨s, hs, inv⟩ := cfg_applyAll ops hcfg {} [] [] cfg_init
  refine ⟨s, hs, inv.nodata, ?_, ?_⟩
  · rw [inv.groups, accept_foldl]
    have : ∀ l : List GCall, l.filter (fun _ => true) = l := fun l => List.filter_eq_self.mpr (by simp)
    simp [this]
  · rw [inv.cols, accept_foldl]
    have : ∀ l : List DCall, l.filter (fun _ => true) = l := fun l => List.filter_eq_self.mpr (by simp)
    simp [this]

/-- Once data exists both `Add…` calls are refused and change nothing; a duplicate name is refused. -/
theorem accgroup_frozen (s : AccGroup) (n i : Bytes) (c : Option Stage) :
    (s.data ≠ [] → s.addGroupExpr n c = (s, some "existing-data") ∧ s.addDataExpr n c i = (s, some "existing-data")) ∧
    (s.data = [] → n ∈ s.groupCols → s.addGroupExpr n c = (s, some "duplicate")) ∧
    (s.data = [] → (aget s.colIdx n).isSome → s.addDataExpr n c i = (s, some "duplicate")) := by
  refine ⟨?_, ?_, ?_⟩
  · intro h
    have : s.data.length > 0 := List.length_pos_iff.mpr h
    simp [AccGroup.addGroupExpr, AccGroup.addDataExpr, this]
  · intro h hn
    have hany : s.groupDef.any (fun g => g.name == n) = true := by
      obtain ⟨g, hg, hgn⟩ := List.mem_map.mp hn
      exact List.any_eq_true.mpr ⟨g, hg, by simp [hgn]⟩
    simp [AccGroup.addGroupExpr, h, hany]
  · intro h hn
    simp [AccGroup.addDataExpr, h, hn]

/-- `Groups(sort)` for a sorter that is a strict total order (e.g. `ByName` = `bLt`): the answer is a
permutation of the group keys, sorted by `less` – or, with a sort expression, by (sort key under `less`,
then group key) – and it does not depend on Go's map iteration order. -/
theorem accgroup_groups (s : AccGroup) (less : Bytes → Bytes → Bool) (hlt : StrictTotal less)
    (order res : List Bytes) (h : s.groupsWith less order = .ok res) :
    res.Perm order ∧
    (match s.sortExpr with
     | none => res.Pairwise fun a b => (!less b a) = true
     | some e => res.Pairwise fun a b => (!sortLess less (b, s.sortKeyD e b) (a, s.sortKeyD e a)) = true) ∧
    (∀ order' res', order'.Perm order → s.groupsWith less order' = .ok res' → res' = res) :=
  ⟨(groupsWith_spec s less hlt order res h).1, (groupsWith_spec s less hlt order res h).2,
   fun order' res' hp h' => groupsWith_deterministic s less hlt order' order res' res hp h' h⟩

/-- `Data` / `DataNoCopy` / `DataCount` of a reachable aggregator: the stored row as it is (`Data` pads
nothing and cuts nothing), an all-empty row of the right width / nil for an unknown group. -/
theorem accgroup_data_accessors (s : AccGroup) (h : AccReach s) (k : Bytes) :
    (∀ row, aget s.data k = some row → s.dataOf k = row ∧ s.dataNoCopy k = row) ∧
    (aget s.data k = none → s.dataOf k = List.replicate s.colDef.length [] ∧ s.dataNoCopy k = []) ∧
    (s.dataOf k).length = s.dataCols.length ∧ s.colCount = s.groupCols.length + s.dataCols.length ∧
    s.dataCount = (akeys s.data).length := by
  have wf := reach_accwf h
  refine ⟨?_, ?_, by simp [AccGroup.dataOf, AccGroup.dataCols], by simp [AccGroup.colCount, AccGroup.groupCols, AccGroup.dataCols],
    by simp [AccGroup.dataCount, akeys]⟩
  · intro row hr
    exact ⟨dataOf_row s k row hr (wf.rows k row hr), by simp [AccGroup.dataNoCopy, hr]⟩
  · intro hn
    exact ⟨dataOf_missing s k hn, by simp [AccGroup.dataNoCopy, hn]⟩

/-! ## non-vacuity for the accumulating group and `Mode` -/

example : IsMode [3, 1, 3, 1, 2] (mode 0 (fun a b => decide (a = b)) (analyze ratOps false [3, 1, 3, 1, 2])) :=
  (mode_spec false [3, 1, 3, 1, 2] (by decide)).1

/-- `{.}x`: appends an `x` per sample. -/
def exCount : Stage := Comp.getKey dot fun cur => .ret (cur ++ [120])
/-- `{c}:{2}`: reads the ALREADY UPDATED column `c` and the second part of the element. -/
def exLast : Stage := Comp.getKey [99] fun c => Comp.getMatch 2 fun v => .ret (c ++ [58] ++ v)
/-- `{n}` (the NOT YET updated column `n`, declared after it). -/
def exPrev : Stage := Comp.key [110]
/-- group `g={1}`; columns `p={n}`, `c={.}x`, `l={c}:{2}`, `n={2}`. -/
def exAcc : AccGroup :=
  let s0 : AccGroup := {}
  let s1 := (s0.addGroupExpr [103] (some (Comp.match_ 1))).1
  let s2 := (s1.addDataExpr [112] (some exPrev) []).1
  let s3 := (s2.addDataExpr [99] (some exCount) []).1
  let s4 := (s3.addDataExpr [108] (some exLast) [45]).1
  (s4.addDataExpr [110] (some (Comp.match_ 2)) [48]).1

example : AccReach exAcc :=
  AccReach.step _ _ (.addData [110] (some (Comp.match_ 2)) [48]) none
    (AccReach.step _ _ (.addData [108] (some exLast) [45]) none
      (AccReach.step _ _ (.addData [99] (some exCount) []) none
        (AccReach.step _ _ (.addData [112] (some exPrev) []) none
          (AccReach.step _ _ (.addGroup [103] (some (Comp.match_ 1))) none AccReach.init rfl) rfl) rfl) rfl) rfl
example : exAcc.data = [] := rfl
/-- `a NUL p`, `b NUL q`, `a NUL r`. -/
def exAccHist : List Bytes := [[97, 0, 112], [98, 0, 113], [97, 0, 114]]
/-- group a after two samples: p = previous n, c = "xx", l = "xx:r" (sees the new c), n = "r". -/
example : (match exAcc.run exAccHist with | .ok s => aget s.data [97] | .error _ => none) =
    some [[112], [120, 120], [120, 120, 58, 114], [114]] := by decide
example : (match exAcc.run exAccHist with | .ok s => aget s.data [98] | .error _ => none) =
    some [[48], [120], [120, 58, 113], [113]] := by decide
example : (match exAcc.buildGroupKey (accCtx [97, 0, 112] [] none), exAcc.buildGroupKey (accCtx [98, 0, 113] [] none) with
    | .ok k1, .ok k2 => decide (k1 ≠ k2) | _, _ => false) = true := by decide
/-- hypotheses of `accgroup_comm`: both orders are accepted from the configured aggregator. -/
example : ∃ s12, exAcc.run [[97, 0, 112], [98, 0, 113]] = .ok s12 := ⟨_, rfl⟩
example : ∃ s', exAcc.sample [97, 0, 112] = .ok s' := ⟨_, rfl⟩
example : groupCells 1 (nulJoin [[]]) = [[]] ∧ groupCells 0 (nulJoin []) = [] ∧
    groupCells 3 (nulJoin [[], [120], []]) = [[], [120], []] :=
  ⟨groupCells_nulJoin [[]] (by decide), groupCells_nulJoin [] (by decide), groupCells_nulJoin [[], [120], []] (by decide)⟩
example : StrictTotal bLt := bLt_strictTotal
example : ∀ val : Bytes → Int, StrictTotal (keyLess nvNameSorter val) ∧ StrictTotal (keyLess nvValueSorter val) :=
  fun val => ⟨nvName_strictTotal val, nvValue_strictTotal val⟩
example : ∃ res, exAcc.groupsWith bLt [[98], [97]] = .ok res := ⟨_, rfl⟩
example : ∀ op ∈ [AccOp.addGroup [103] none, AccOp.addData [99] (some exCount) [], AccOp.addData [99] (some exLast) []],
    op.isSample = false := by decide

/-! ## counted and sorted accessors (GroupCount, ItemsSortedBy, ItemsSorted, ColumnCount, RowCount,
OrderedColumns, OrderedRows) -/

/-- `sorting.SortBy` over the keys of a map with a sorter that is a strict total order on the (name, value)
pairs of those keys: the answer is a permutation of the keys, sorted, and the same for every map iteration
order. -/
theorem sorted_accessors (less : NVLess) (val : Bytes → Int) (hst : StrictTotal (keyLess less val)) (order : List Bytes) :
    (orderedKeys less val order).Perm order ∧
    (orderedKeys less val order).Pairwise (fun a b => (!keyLess less val b a) = true) ∧
    (∀ order', order'.Perm order → orderedKeys less val order' = orderedKeys less val order) :=
  orderedKeys_spec less val hst order

/-- The sorters the commands use by default are strict total orders on the keys of any map:
`NVNameSorter` = by name; `NVValueSorter` = larger value first, equal values by name. -/
theorem default_sorters_total (val : Bytes → Int) :
    StrictTotal (keyLess nvNameSorter val) ∧ StrictTotal (keyLess nvValueSorter val) ∧
    (∀ a b, keyLess nvNameSorter val a b = bLt a b) ∧
    (∀ a b, keyLess nvValueSorter val a b = if val a = val b then bLt a b else decide (val b < val a)) :=
  ⟨nvName_strictTotal val, nvValue_strictTotal val, fun _ _ => rfl, keyLess_nvValue val⟩

/-- `minSlice`: the first `count` items (all of them when there are fewer); a negative `count` panics
(since bb14ba5 the CLI refuses a negative `-n`; before, `rare histo -n -1` died even earlier, in `NewHistogram`). -/
theorem minSlice_exact {α : Type} (items : List α) (count : Int) :
    minSlice items count = if count < 0 then .error "slice bounds out of range" else .ok (items.take count.toNat) :=
  minSlice_spec items count

/-- Histogram counter: each key is stored once (`GroupCount` = number of distinct keys sampled with a valid
increment) and `ItemsSortedBy(count, sorter)` is the first `count` entries of the sorted (key, fold) list,
whatever the map order. -/
theorem counter_items_sorted (h : List Bytes) (less : NVLess)
    (hst : StrictTotal (keyLess less (Counter.run h).countOf)) (order : List Bytes)
    (hp : order.Perm (akeys (Counter.run h).items)) (count : Int) :
    let c := Counter.run h
    (akeys c.items).Nodup ∧ c.groupCount = (akeys c.items).length ∧
    (∀ k, k ∈ akeys c.items ↔ present (selKey k) (h.map parseCounter) = true) ∧
    c.itemsSortedBy less order count =
      (if count < 0 then .error "slice bounds out of range"
       else .ok (((orderedKeys less c.countOf (akeys c.items)).map
              fun k => (k, total (selKey k) (h.map parseCounter))).take count.toNat)) := by
  intro c
  have inv := counterInv_run h
  have hmem : ∀ k, k ∈ akeys c.items ↔ present (selKey k) (h.map parseCounter) = true := by
    intro k
    rw [mem_akeys_iff, inv.items k]
    split <;> simp_all
  refine ⟨counter_keys_nodup h, by simp [Counter.groupCount, akeys], hmem, ?_⟩
  unfold Counter.itemsSortedBy
  rw [minSlice_spec, (orderedKeys_spec less c.countOf hst _).2.2 order hp]
  have hval : ∀ k ∈ orderedKeys less c.countOf (akeys c.items), (k, c.countOf k) = (k, total (selKey k) (h.map parseCounter)) := by
    intro k hk
    have hk' := ((orderedKeys_spec less c.countOf hst _).1.mem_iff).mp hk
    have := (hmem k).mp hk'
    unfold Counter.countOf
    rw [inv.items k, if_pos this]; rfl
  rw [List.map_congr_left hval]

/-- Sub-key counter: `ItemsSorted(sorter)` lists every key exactly once, in sorted order, whatever the map order. -/
theorem subkey_items_sorted (s : SubKeyCounter) (less : NVLess) (hst : StrictTotal (keyLess less s.countOf))
    (order : List Bytes) (hp : order.Perm (akeys s.items)) :
    (s.itemsSorted less order).map (·.1) = orderedKeys less s.countOf (akeys s.items) ∧
    (∀ p ∈ s.itemsSorted less order, aget s.items p.1 = some p.2) := by
  have hsame := (orderedKeys_spec less s.countOf hst _).2.2 order hp
  have hall : ∀ k ∈ orderedKeys less s.countOf order, (aget s.items k).isSome = true := by
    intro k hk
    have := (List.mergeSort_perm order _).mem_iff.mp hk
    exact (mem_akeys_iff s.items k).mp (hp.mem_iff.mp this)
  refine ⟨?_, ?_⟩
  · unfold SubKeyCounter.itemsSorted
    rw [filterMap_keys s.items _ hall, hsame]
  · intro p hpm
    unfold SubKeyCounter.itemsSorted at hpm
    obtain ⟨k, _, hk⟩ := List.mem_filterMap.mp hpm
    cases hg : aget s.items k with
    | none => rw [hg] at hk; cases hk
    | some v => rw [hg] at hk; simp only [Option.map_some, Option.some.injEq] at hk; subst hk; exact hg

/-- Table: every column / row is stored once (`ColumnCount`, `RowCount` count distinct names), and
`OrderedColumns` / `OrderedRows` list each of them exactly once in sorted order, whatever the map order. -/
theorem table_ordered (d : Bytes) (hd : d ≠ []) (h : List Bytes) (less : NVLess) :
    let t := Table.run d h
    (akeys t.cols).Nodup ∧ (akeys t.rows).Nodup ∧
    t.columnCount = (akeys t.cols).length ∧ t.rowCount = (akeys t.rows).length ∧
    (StrictTotal (keyLess less t.colTotal) → ∀ order, order.Perm (akeys t.cols) →
      t.orderedColumns less order = t.orderedColumns less (akeys t.cols) ∧ (t.orderedColumns less order).Perm (akeys t.cols)) ∧
    (StrictTotal (keyLess less t.rowSum) → ∀ order, order.Perm (akeys t.rows) →
      (t.orderedRows less order).map (·.name) = orderedKeys less t.rowSum (akeys t.rows) ∧
      ∀ row ∈ t.orderedRows less order, aget t.rows row.name = some row) := by
  intro t
  have inv := tableInv_run d hd h
  refine ⟨inv.nodupCols, inv.nodupRows, by simp [Table.columnCount, akeys], by simp [Table.rowCount, akeys], ?_, ?_⟩
  · intro hst order hp
    have sp := orderedKeys_spec less t.colTotal hst (akeys t.cols)
    unfold Table.orderedColumns
    rw [sp.2.2 order hp]
    exact ⟨rfl, sp.1⟩
  · intro hst order hp
    have sp := orderedKeys_spec less t.rowSum hst (akeys t.rows)
    have hall : ∀ k ∈ orderedKeys less t.rowSum order, ∃ row, aget t.rows k = some row ∧ row.name = k := by
      intro k hk
      have := (List.mergeSort_perm order _).mem_iff.mp hk
      have hs := (mem_akeys_iff t.rows k).mp (hp.mem_iff.mp this)
      obtain ⟨row, hr⟩ := Option.isSome_iff_exists.mp hs
      exact ⟨row, hr, (inv.rows k row hr).name⟩
    unfold Table.orderedRows
    rw [← sp.2.2 order hp]
    refine ⟨?_, ?_⟩
    · generalize orderedKeys less t.rowSum order = ks at hall
      induction ks with
      | nil => rfl
      | cons k ks ih =>
        obtain ⟨row, hr, hn⟩ := hall k (by simp)
        simp only [List.filterMap_cons, hr, List.map_cons, hn]
        rw [ih (fun k' hk' => hall k' (List.mem_cons_of_mem _ hk'))]
    · intro row hrow
      obtain ⟨k, hk, hkr⟩ := List.mem_filterMap.mp hrow
      obtain ⟨row', hr', hn'⟩ := hall k hk
      rw [hr'] at hkr; cases hkr
      rw [hn']; exact hr'

example : StrictTotal (keyLess nvValueSorter (Counter.run exHist).countOf) := nvValue_strictTotal _
example : (akeys (Counter.run exHist).items).Perm (akeys (Counter.run exHist).items) := List.Perm.refl _
example : minSlice [1, 2, 3] 2 = Except.ok [1, 2] ∧ minSlice [1, 2, 3] 7 = Except.ok [1, 2, 3] := ⟨rfl, rfl⟩

/-! ## numerical aggregator in IEEE-754 binary64

Model: `Rare/Model/C07NumF64.lean` – `MatchNumerical` / `StatisticalAnalysis` over the kernel-checkable software
float `Rare.F64` (every operation = the exact rational result rounded once, ties to even; NaN, ±Inf, ±0,
subnormals included), compared bit for bit with the Go code by the driver ops `agg numf` / `agg numfv`.
`runF` = a history of raw strings through `Sample` (`strconv.ParseFloat`), `runFv` = `Samplef` calls. -/

/-- Counting.  `Sample` parses with `strconv.ParseFloat`; what does not parse (syntax, or range: the value rounds
to ±Inf) only counts a parse error, the others go through `Samplef` in order.  `Count()` + `ParseErrors()` is the
number of samples offered, and the kept values are the parsed samples in arrival order. -/
theorem num_f64_count (keep : Bool) (h : List Bytes) :
    let ok := h.filterMap F64.parseFloat
    runF keep h = { runFv keep ok with parseErrors := h.countP (fun e => (F64.parseFloat e).isNone) } ∧
    (runF keep h).samples = ok.length ∧
    (runF keep h).samples + (runF keep h).parseErrors = h.length ∧
    (runF keep h).values = (if keep then ok else []) := by
  intro ok
  have e := runF_eq keep h
  refine ⟨e, ?_, ?_, ?_⟩
  · rw [e]; exact runFv_samples keep ok
  · rw [e]
    show (runFv keep ok).samples + h.countP (fun e => (F64.parseFloat e).isNone) = h.length
    rw [runFv_samples]; exact length_filterMap_add_countP _ _
  · rw [e]; exact runFv_values keep ok

/-- `Min()` / `Max()` are exact – comparisons do not round.  After any `Samplef` sequence `l`: neither is NaN (a NaN
sample never wins a comparison, so NaN samples are ignored); `Min()` is ≤ and `Max()` is ≥ every non-NaN sample in
the IEEE order; as soon as ONE sample is not NaN both ARE samples (after the fix bda1842: they start at `+Inf` /
`-Inf`; the old sentinels `±MaxFloat64` made `Min()` of samples that are all `+Inf` equal to `MaxFloat64`), and
with only NaN samples (or none) they are still `+Inf` / `-Inf`.  Hence for finite samples they are the least /
greatest sample VALUE: on finite floats the IEEE order is the order of the exact values. -/
theorem num_f64_minmax (keep : Bool) (l : List F64) :
    let r := runFv keep l
    r.min.isNaN = false ∧ r.max.isNaN = false ∧
    (∀ y ∈ l, y.isNaN = false → F64.le r.min y = true ∧ F64.le y r.max = true) ∧
    ((∃ y ∈ l, y.isNaN = false) → r.min ∈ l ∧ r.max ∈ l) ∧
    ((∀ y ∈ l, y.isNaN = true) → r.min = F64.inf false ∧ r.max = F64.inf true) ∧
    (l ≠ [] → (∀ x ∈ l, x.isFinite = true) →
      r.min ∈ l ∧ r.max ∈ l ∧ ∀ y ∈ l, r.min.toRat ≤ y.toRat ∧ y.toRat ≤ r.max.toRat) := by
  intro r
  have mm := minmax_fold keep l NumF.new isNaN_posInf isNaN_negInf
  simp only [] at mm
  obtain ⟨a1, a2, _, _, a5, _, _, _, a9, _⟩ := mm
  refine ⟨a1, a2, fun y hy hn => ⟨a5 y hy hn, a9 y hy hn⟩, minmax_mem keep l, ?_, ?_⟩
  · intro hall
    refine ⟨min_unchanged keep l NumF.new fun y hy => ?_, max_unchanged keep l NumF.new fun y hy => ?_⟩
    · cases h : F64.lt y NumF.new.min
      · rfl
      · have := ((lt_iff_key _ _).mp h).1; rw [hall y hy] at this; cases this
    · cases h : F64.lt NumF.new.max y
      · rfl
      · have := ((lt_iff_key _ _).mp h).2.1; rw [hall y hy] at this; cases this
  · intro hne hf
    obtain ⟨y0, l', rfl⟩ := List.exists_cons_of_ne_nil hne
    obtain ⟨m1, m2⟩ := minmax_mem keep (y0 :: l') ⟨y0, by simp, F64.not_nan_of_finite (hf y0 (by simp))⟩
    refine ⟨m1, m2, fun y hy => ?_⟩
    have fy := hf y hy
    exact ⟨(F64.le_iff_toRat_le (hf _ m1) fy).mp (a5 y hy (F64.not_nan_of_finite fy)),
      (F64.le_iff_toRat_le fy (hf _ m2)).mp (a9 y hy (F64.not_nan_of_finite fy))⟩

/-- Order statistics involve no arithmetic on the samples, hence no rounding: they ARE samples.
`sort.Float64s` / `sort.Sort(sort.Reverse(…))` is specified by its contract only (Go's pdqsort is not stable): `s` is
ANY arrangement of the kept samples `l` that is sorted for Go's order `goLess` (NaN before every number, `-0` and
`+0` equal); the model's merge sort is one (1).  For every such `s`:
(2) `Median()` is the element of rank ⌊n/2⌋;
(3) `Quantile(p)` is the element of rank `clamp(int(float64(n)·p))` – the product is ONE correctly rounded float
    multiplication, the conversion truncates (NaN / ±Inf / out of range give MinInt64 on amd64, i.e. rank 0), and the
    clamps make every rank valid;
(4) the element of any rank is the same for every sorted arrangement up to the sign of a zero / the identity of NaNs,
    so the answers do not depend on the sorting algorithm;
(5) ranks are ordered: nothing at a later rank sorts before anything at an earlier one (NaN samples occupy the
    first ranks, the last ones when `Reverse` is set: `Median` / `Quantile` can return NaN only then);
(6) for a probability `0 ≤ p ≤ 1` and at most 2^53 samples the raw index is ⌊fl(n·p)⌋ ∈ [0, n]: only the upper clamp
    can act, and only when the rounded product reaches `n` (p = 1, or p within half an ulp of it – F20). -/
theorem num_f64_order_stats (rev : Bool) (l s : List F64) (hne : l ≠ []) (hs : IsSortedF rev s l) :
    IsSortedF rev (analyzeF rev l) l ∧
    (∃ x, s[l.length / 2]? = some x ∧ medianF s = x ∧ x ∈ l) ∧
    (∀ p : F64, ∃ x, s[clampIdx l.length (quantileIdx l.length p)]? = some x ∧ quantileF s p = .ok x ∧ x ∈ l) ∧
    (∀ (s' : List F64) (k : Nat) (x x' : F64), IsSortedF rev s' l → s[k]? = some x → s'[k]? = some x' → sameF x x' = true) ∧
    (∀ (i j : Nat) (x y : F64), i < j → s[i]? = some x → s[j]? = some y → (if rev then goLess x y else goLess y x) = false) ∧
    (∀ p : F64, l.length ≤ 9007199254740992 → p.isFinite = true → 0 ≤ p.toRat → p.toRat ≤ 1 →
      0 ≤ quantileIdx l.length p ∧ quantileIdx l.length p ≤ l.length ∧
      quantileIdx l.length p =
        (F64.ofRatS ((F64.ofInt l.length).sign != p.sign) ((l.length : Rat) * p.toRat)).toRat.floor) := by
  have hlen : s.length = l.length := hs.1.length_eq
  have hsne : s ≠ [] := by intro e; rw [e] at hs; exact hne hs.1.symm.eq_nil
  have hpos : 0 < s.length := List.length_pos_iff.mpr hsne
  refine ⟨analyzeF_sorted rev l, ?_, ?_, ?_, ?_, ?_⟩
  · obtain ⟨x, hx, hm⟩ := medianF_eq s hsne
    rw [hlen] at hx
    exact ⟨x, hx, hm, hs.1.mem_iff.mp (List.mem_of_getElem? hx)⟩
  · intro p
    obtain ⟨x, hx, hq⟩ := quantileF_ok s hpos p
    rw [hlen] at hx
    exact ⟨x, hx, hq, hs.1.mem_iff.mp (List.mem_of_getElem? hx)⟩
  · intro s' k x x' hs' hx hx'
    exact rank_unique rev s s' l hs hs' k x x' hx hx'
  · intro i j x y hij hx hy
    have := sorted_rank_bounds rev s l hs i j hij x y hx hy
    cases rev
    · simp only [Bool.false_eq_true, if_false] at this ⊢; exact (goLess_false_iff _ _).mpr this
    · simp only [if_true] at this ⊢; exact (goLess_false_iff _ _).mpr this
  · intro p hn hp h0 h1
    exact quantileIdx_bounds l.length hn p hp h0 h1

/-- `Mode()` in floats, for samples without NaN.  The scan compares neighbours with the IEEE `!=`, so `-0` and `+0`
are one value: the result `m` is not NaN, equals (`==`) a sample, no value occurs more often than `m` (multiplicities
counted with `==`), and among the values of maximal multiplicity it is the smallest (the largest when `Reverse` is
set) – for every sorted arrangement `s`.  With NaN samples: `num_f64_mode_any` below (every NaN
starts a run of length one, so NaN can be returned only when no number occurs twice). -/
theorem num_f64_mode (rev : Bool) (l s : List F64) (hne : l ≠ []) (hs : IsSortedF rev s l)
    (hn : ∀ x ∈ l, x.isNaN = false) :
    let m := modeF s
    m.isNaN = false ∧ (∃ x ∈ l, F64.eq m x = true) ∧
    (∀ y, l.countP (fun x => F64.eq y x) ≤ l.countP (fun x => F64.eq m x)) ∧
    (∀ y ∈ l, l.countP (fun x => F64.eq y x) = l.countP (fun x => F64.eq m x) → F64.eq y m = false →
      (if rev then F64.lt y m else F64.lt m y) = true) :=
  modeF_scan rev s l hs hne hn

/-- `Mode()` FOR ALL SAMPLES, NaN INCLUDED (drops the hypothesis of `num_f64_mode`).  `sort.Float64s` puts the NaN samples
first (last with `Reverse`), and the scan's `val != currValue` is true for every NaN: each NaN is a run of length one.
For every sorted arrangement `s` of any non-empty sample list `l`:

* ascending: `Mode()` is NaN exactly when some sample is NaN and NO number occurs twice (`==`-multiplicities ≤ 1) – a
  number replaces the first NaN only with a run of length 2;
* `Reverse`: `Mode()` is NaN exactly when ALL samples are NaN (the numbers are scanned first; a NaN run never exceeds
  the count already observed);
* a NaN result is one of the samples; a result that is a number satisfies the three clauses of `num_f64_mode`
  (it `==` a sample, has maximal multiplicity, and is the first such value in the sort order). -/
theorem num_f64_mode_any (rev : Bool) (l s : List F64) (hne : l ≠ []) (hs : IsSortedF rev s l) :
    let m := modeF s
    (m.isNaN = true ↔ (if rev then ∀ x ∈ l, x.isNaN = true
        else (∃ x ∈ l, x.isNaN = true) ∧ ∀ y, l.countP (fun x => F64.eq y x) ≤ 1)) ∧
    (m.isNaN = true → m ∈ l) ∧
    (m.isNaN = false →
      (∃ x ∈ l, F64.eq m x = true) ∧
      (∀ y, l.countP (fun x => F64.eq y x) ≤ l.countP (fun x => F64.eq m x)) ∧
      (∀ y ∈ l, l.countP (fun x => F64.eq y x) = l.countP (fun x => F64.eq m x) → F64.eq y m = false →
        (if rev then F64.lt y m else F64.lt m y) = true)) :=
  modeF_general rev s l hs hne

/-- **The float order statistics ARE the spec's nearest-rank statistics of the sample VALUES** (finite samples; with NaN or
±Inf there is no exact value to speak of – `num_f64_order_stats` / `num_f64_mode_any` cover those).  For every sorted
arrangement `s` of finite samples `l` (the view of any `Analyze()`, `num_f64_analyze_any_schedule`), with `q` the exact
rational values of the samples:

* read as rationals, `s` is THE sorted list of the values – the exact model's `analyze ratOps rev q` (`-0`/`+0` are the
  one value 0; Go's float order is the order of the exact values);
* `Median()` is the element of rank ⌊n/2⌋ of `q` in the sense of the spec (`IsRank`, `Spec/C07.lean`), `Quantile(p)` the
  element of rank `clamp(int(float64(n)·p))`;
* `Mode()` is a value of maximal multiplicity among the VALUES (`IsMode`), the smallest such (largest with `Reverse`).

No rounding is involved: the results are samples. -/
theorem num_f64_order_stats_exact (rev : Bool) (l s : List F64) (hne : l ≠ []) (hf : ∀ x ∈ l, x.isFinite = true)
    (hs : IsSortedF rev s l) :
    let q := l.map F64.toRat
    s.map F64.toRat = analyze ratOps rev q ∧
    IsRank rev q (l.length / 2) (medianF s).toRat ∧
    (∀ p : F64, ∃ x, quantileF s p = .ok x ∧ IsRank rev q (clampIdx l.length (quantileIdx l.length p)) x.toRat) ∧
    IsMode q (modeF s).toRat ∧
    (∀ y, q.count y = q.count (modeF s).toRat → y ≠ (modeF s).toRat →
      if rev then y < (modeF s).toRat else (modeF s).toRat < y) := by
  intro q
  have hso := isSortedOf_map_toRat rev l s hf hs
  have hmap := sorted_map_toRat rev l s hf hs
  obtain ⟨_, ⟨x, hx, hm, _⟩, hq, _⟩ := num_f64_order_stats rev l s hne hs
  have hqne : q ≠ [] := by intro e; exact hne (List.map_eq_nil_iff.mp e)
  have hfs : ∀ x ∈ s, x.isFinite = true := fun x hx => hf x (hs.1.mem_iff.mp hx)
  have hmode : (modeF s).toRat = mode 0 (fun a b => decide (a = b)) (analyze ratOps rev q) := by
    rw [modeF_toRat s hfs, hmap]
  obtain ⟨m1, m2, _⟩ := mode_spec rev q hqne
  refine ⟨hmap, ⟨_, hso, ?_⟩, ?_, ?_, ?_⟩
  · rw [List.getElem?_map, hx, hm]; rfl
  · intro p
    obtain ⟨y, hy, hqy, _⟩ := hq p
    exact ⟨y, hqy, _, hso, by rw [List.getElem?_map, hy]; rfl⟩
  · rw [hmode]; exact m1
  · rw [hmode]; exact m2

/-- A SUFFICIENT EXACTNESS CONDITION.  If the samples are finite and every intermediate value of the exact
(rational) Welford recurrence on their values – `x − mean`, `(x − mean)/k`, the new mean, `x − mean'`, the product
and the new `M2` – is a float (`AllRep`; decidable on concrete lists: `allRepB`), then no operation rounds: the float
aggregator holds EXACTLY the mean and `M2 = Σ (x − mean)²` of the sample values (`welford_exact`), and `Variance()`
is exactly the sample variance whenever that quotient is a float.  Small integers with dyadic running means are
such lists (examples below); constant samples are the simplest case (`num_f64_constant_exact`). -/
theorem num_f64_exact_run (keep : Bool) (l : List F64) (hf : ∀ x ∈ l, x.isFinite = true)
    (hn : l.length ≤ 9007199254740992) (hr : AllRep (Numerical.new ratOps) (l.map F64.toRat)) :
    let r := runFv keep l
    let q := l.map F64.toRat
    r.samples = l.length ∧ r.mean.toRat? = some (mean q) ∧ r.variance.toRat? = some (m2 q) ∧
    (F64.Rep (sampleVariance q) → r.varianceF.toRat? = some (sampleVariance q)) := by
  intro r q
  have hs := exact_run keep l hf hn hr
  obtain ⟨w1, w2, w3, w4, _⟩ := welford_exact false q
  have hlen : q.length = l.length := by simp [q]
  refine ⟨runFv_samples keep l, ?_, ?_, ?_⟩
  · rw [F64.toRat?_eq_some]; exact ⟨hs.meanF, by rw [hs.meanV, w2]⟩
  · rw [F64.toRat?_eq_some]; exact ⟨hs.varF, by rw [hs.varV, w3]⟩
  · intro hrep
    have hv : r.varianceF = if l.length > 1 then F64.div r.variance (F64.ofInt ((l.length - 1 : Nat) : Int))
        else F64.zero false := by
      show Numerical.varianceOf f64Ops r = _
      unfold Numerical.varianceOf; rw [runFv_samples]; rfl
    have hsv : sampleVariance q = if l.length > 1 then m2 q / ((l.length : Rat) - 1) else 0 := by
      unfold sampleVariance; rw [hlen]
    rw [hsv] at hrep ⊢
    rw [hv]
    by_cases hgt : l.length > 1
    · rw [if_pos hgt] at hrep ⊢
      rw [if_pos hgt]
      obtain ⟨kf, kv, kz⟩ := ofInt_count (l.length - 1) (by omega) (by omega)
      have hc : ((l.length - 1 : Nat) : Rat) = (l.length : Rat) - 1 := by
        obtain ⟨k, hk⟩ : ∃ k, l.length = k + 1 := ⟨l.length - 1, by omega⟩
        rw [hk]; simp [Rat.natCast_add]; grind
      rw [F64.div_finite hs.varF kf kz, kv, hs.varV, w3, hc]
      obtain ⟨a, b⟩ := F64.ofRatS_rep (r.variance.sign != (F64.ofInt ((l.length - 1 : Nat) : Int)).sign) hrep
      rw [F64.toRat?_eq_some]; exact ⟨a, b⟩
    · rw [if_neg hgt, if_neg hgt]
      rw [F64.toRat?_eq_some]
      exact ⟨by decide, F64.toRat_eq_zero_of_mag (x := F64.zero false) (by decide)⟩

/-- Small integers.  For integer samples `|x| ≤ 2^53` (at most 2^53 of them) that pass the decidable check `allRepB`
(every intermediate value of the exact recurrence is a float – e.g. whenever the running means are dyadic with
few bits, as for 1, 2, 3, 4 or the odd numbers 1 … 15 below; it fails for 2, 4, 4 whose mean 10/3 is no float):
`Mean()·n` is EXACTLY the integer sum and `M2` EXACTLY `Σ (x − mean)²` – nothing was rounded. -/
theorem num_f64_small_ints_exact (keep : Bool) (l : List Int) (hl : ∀ x ∈ l, x.natAbs ≤ 9007199254740992)
    (hn : l.length ≤ 9007199254740992)
    (hr : allRepB (Numerical.new ratOps) (l.map fun (x : Int) => (x : Rat)) = true) :
    let r := runFv keep (l.map F64.ofInt)
    let q := l.map fun (x : Int) => (x : Rat)
    r.mean.isFinite = true ∧ r.mean.toRat * (l.length : Rat) = ratSum q ∧
    r.variance.toRat? = some (m2 q) := by
  intro r q
  have hmap : (l.map F64.ofInt).map F64.toRat = q := by
    rw [List.map_map]
    show List.map (F64.toRat ∘ F64.ofInt) l = List.map (fun (x : Int) => (x : Rat)) l
    apply List.map_congr_left
    intro x hx
    exact (F64.isFinite_ofInt x (hl x hx)).2
  have hf : ∀ y ∈ l.map F64.ofInt, y.isFinite = true := by
    intro y hy
    obtain ⟨x, hx, rfl⟩ := List.mem_map.mp hy
    exact (F64.isFinite_ofInt x (hl x hx)).1
  obtain ⟨_, h2, h3, _⟩ := num_f64_exact_run keep (l.map F64.ofInt) hf (by simpa using hn)
    (by rw [hmap]; exact allRep_of_allRepB _ _ hr)
  rw [hmap] at h2 h3
  obtain ⟨mf, mv⟩ := F64.toRat?_eq_some.mp h2
  refine ⟨mf, ?_, h3⟩
  show (runFv keep (l.map F64.ofInt)).mean.toRat * (l.length : Rat) = ratSum q
  rw [mv]
  have hlen : q.length = l.length := by simp [q]
  unfold mean
  rw [hlen]
  cases l with
  | nil => simp [q, ratSum]
  | cons x l' =>
    have hne := natCast_succ_ne_zero l'.length
    have : (((x :: l').length : Nat) : Rat) = (l'.length : Rat) + 1 := by simp [Rat.natCast_add]
    rw [this]
    exact Rat.div_mul_cancel hne

example : allRepB (Numerical.new ratOps) ([1, 3, 5, 7, 9, 11, 13, 15].map fun x : Int => (x : Rat)) = true := by decide +kernel
example : ∀ x ∈ ([1, 3, 5, 7, 9, 11, 13, 15] : List Int), x.natAbs ≤ 9007199254740992 := by decide

/-- Constant samples (any finite float, up to 2^53 of them): after every prefix the mean is EXACTLY the sample
(the same bit pattern unless the sample is `-0`, whose mean is `+0`), `M2`, `Variance()` and `StdDev()` are exactly 0 –
Welford's update has nothing to cancel (the sum-of-squares formula of seeded/C07-variance-sumsq does not have this
property). -/
theorem num_f64_constant_exact (keep : Bool) (x : F64) (hx : x.isFinite = true) (n : Nat) (hn : n + 1 ≤ 9007199254740992) :
    let r := runFv keep (List.replicate (n + 1) x)
    r.mean.toRat? = some x.toRat ∧ (x.toRat ≠ 0 → r.mean = x) ∧
    r.variance.toRat? = some 0 ∧ r.varianceF.toRat? = some 0 ∧ r.stdDev.toRat? = some 0 := by
  intro r
  obtain ⟨a, b, c, d⟩ := const_run keep x hx n hn
  have hvF : r.varianceF.isFinite = true ∧ r.varianceF.toRat = 0 := by
    have hv : r.varianceF = if n + 1 > 1 then F64.div r.variance (F64.ofInt ((n + 1 - 1 : Nat) : Int))
        else F64.zero false := by
      show Numerical.varianceOf f64Ops r = _
      unfold Numerical.varianceOf
      have hsn : r.samples = n + 1 := by rw [runFv_samples]; simp
      rw [hsn]; rfl
    rw [hv]
    by_cases hgt : n + 1 > 1
    · rw [if_pos hgt]
      obtain ⟨kf, kv, kz⟩ := ofInt_count (n + 1 - 1) (by omega) (by omega)
      rw [F64.div_finite c kf kz, d]
      have : (0 : Rat) / (F64.ofInt ((n + 1 - 1 : Nat) : Int)).toRat = 0 := by grind
      rw [this]
      exact F64.ofRatS_rep _ F64.rep_zero
    · rw [if_neg hgt]
      exact ⟨by decide, F64.toRat_eq_zero_of_mag (x := F64.zero false) (by decide)⟩
  refine ⟨by rw [F64.toRat?_eq_some]; exact ⟨a, b⟩, fun hne => F64.eq_of_toRat_eq a hx b (by rw [b]; exact hne),
    by rw [F64.toRat?_eq_some]; exact ⟨c, d⟩, by rw [F64.toRat?_eq_some]; exact hvF, ?_⟩
  have hz : r.varianceF.isZero = true := (F64.isZero_iff _).mpr ((F64.toRat_eq_zero_iff _).mp hvF.2)
  have : r.stdDev = r.varianceF := by
    show F64.sqrt r.varianceF = r.varianceF
    unfold F64.sqrt
    rw [F64.not_nan_of_finite hvF.1, hz]; rfl
  rw [this, F64.toRat?_eq_some]; exact hvF

/-- The mean lies between `Min()` and `Max()`.  For a non-empty list of at most 2^53 finite samples of magnitude at
most 2^1021 (so that no difference of two of them overflows): `Min()` and `Max()` are samples, the mean is finite, and
`Min() ≤ Mean() ≤ Max()` in the IEEE order = in exact value – after every prefix, since this holds for every list.
Rounding is monotone, so no update can push the mean past the old mean or the new sample.  Without the magnitude
bound it is false: for `-MaxFloat64, MaxFloat64` the difference overflows and the mean is `+Inf` (corpus case). -/
theorem num_f64_mean_between_min_max (keep : Bool) (l : List F64) (hne : l ≠ []) (hn : l.length ≤ 9007199254740992)
    (hl : ∀ x ∈ l, x.isFinite = true ∧ -((2 ^ 1021 : Nat) : Rat) ≤ x.toRat ∧ x.toRat ≤ ((2 ^ 1021 : Nat) : Rat)) :
    let r := runFv keep l
    r.min ∈ l ∧ r.max ∈ l ∧ r.mean.isFinite = true ∧
    F64.le r.min r.mean = true ∧ F64.le r.mean r.max = true ∧
    r.min.toRat ≤ r.mean.toRat ∧ r.mean.toRat ≤ r.max.toRat := by
  intro r
  have hf : ∀ x ∈ l, x.isFinite = true := fun x hx => (hl x hx).1
  obtain ⟨_, _, _, _, _, hfin⟩ := num_f64_minmax keep l
  obtain ⟨m1, m2, hb⟩ := hfin hne hf
  have b1 := hl _ m1
  have b2 := hl _ m2
  rw [← bigB_eq] at b1 b2
  obtain ⟨mf, lo, hi⟩ := mean_between keep r.min.toRat r.max.toRat b1.2.1 b2.2.2 l hne hn
    (fun x hx => ⟨hf x hx, (hb x hx).1, (hb x hx).2⟩)
  exact ⟨m1, m2, mf, (F64.le_iff_toRat_le b1.1 mf).mpr lo, (F64.le_iff_toRat_le mf b2.1).mpr hi, lo, hi⟩

/-- `M2` never goes negative: under the same hypotheses (the empty list included) the accumulated `M2`, `Variance()`
and `StdDev()` are never NaN and never below zero (`+Inf` when a product overflows) – each increment
`(x − oldMean)·(x − newMean)` is a product of two differences of the same sign, because the new mean lies between
the old mean and the sample.  No clamp is needed (the sum-of-squares variant needs one and still cancels). -/
theorem num_f64_variance_nonneg (keep : Bool) (l : List F64) (hn : l.length ≤ 9007199254740992)
    (hl : ∀ x ∈ l, x.isFinite = true ∧ -((2 ^ 1021 : Nat) : Rat) ≤ x.toRat ∧ x.toRat ≤ ((2 ^ 1021 : Nat) : Rat)) :
    let r := runFv keep l
    F64.le (F64.zero false) r.variance = true ∧ F64.le (F64.zero false) r.varianceF = true ∧
    F64.le (F64.zero false) r.stdDev = true ∧ r.stdDev.isNaN = false := by
  intro r
  obtain ⟨a, b, c⟩ := var_nonneg keep l hn (fun x hx => by rw [bigB_eq]; exact hl x hx)
  have hz : (F64.zero false).isNaN = false := by decide
  have hk : (F64.zero false).key = 0 := by decide
  have conv : ∀ v : F64, VarOK v → F64.le (F64.zero false) v = true := by
    intro v hv
    rw [le_iff_key]; exact ⟨hz, hv.1, by rw [hk]; exact hv.2⟩
  exact ⟨conv _ a, conv _ b, conv _ c, c.1⟩

/-- THE STANDARD MODEL OF FLOATING-POINT ARITHMETIC holds for the software binary64 the aggregator is modelled on: every
correctly rounded result `fl q` (each `+ - * /` of finite operands is `ofRatS _ (exact result)`) that is finite
differs from the exact rational `q` by at most `|q|·u + η` AND by at most `|fl q|·u + η`, with the unit roundoff
`u = 2^-53` and `η = 2^-1075` (half the smallest subnormal; it only matters when the result is subnormal).  All `q`,
no magnitude restriction other than "the result did not overflow". -/
theorem num_f64_rounding_error (s : Bool) (q : Rat) (hf : (F64.ofRatS s q).isFinite = true) :
    let r := (F64.ofRatS s q).toRat
    (r - q ≤ F64.absRat q * uF + F64.etaF ∧ q - r ≤ F64.absRat q * uF + F64.etaF) ∧
    (r - q ≤ F64.absRat r * uF + F64.etaF ∧ q - r ≤ F64.absRat r * uF + F64.etaF) ∧
    uF = 1 / ((2 ^ 53 : Nat) : Rat) ∧ F64.etaF = 1 / (2 * ((2 ^ 1074 : Nat) : Rat)) := by
  intro r
  obtain ⟨a, b⟩ := F64.ofRatS_err s q hf
  simp only [div_P53] at a b
  refine ⟨a, b, rfl, ?_⟩
  unfold F64.etaF; rw [F64.two1074_eq]

/-- ERROR OF ONE WELFORD MEAN UPDATE (the float error bound of the running mean, per step).  For a state that has seen
at least one and fewer than 2^53 samples, with a finite mean, and a finite sample, both of magnitude at most 2^1021:
the computed difference `d = val − oldMean` and the new mean are finite, and the new mean differs from the EXACT update
`oldMean + (val − oldMean)/n` of the same state by at most

    (|mean'|·u + η) + (|d/n|·u + η) + (|val − oldMean|·u + η)/n          (u = 2^-53, η = 2^-1075)

– one term per rounding (`+`, `/`, `−`).  With all magnitudes ≤ M this is about `(1 + 4/n)·u·M`, so over a run the
deviation from the exact mean grows at most linearly, ≈ `n·u·max|x|` (the accumulated bound is not formalised: the
recurrence `e_n ≤ (1−1/n)·e_{n−1} + step bound` is, through `welford_exact`, the remaining arithmetic).  The first
sample is exact (`num_f64_constant_exact` with n = 0). -/
theorem num_f64_mean_step_error (keep : Bool) (s : NumF) (x : F64) (hk : 1 ≤ s.samples) (hn : s.samples + 1 ≤ 9007199254740992)
    (hm : s.mean.isFinite = true) (hx : x.isFinite = true)
    (bm : -((2 ^ 1021 : Nat) : Rat) ≤ s.mean.toRat ∧ s.mean.toRat ≤ ((2 ^ 1021 : Nat) : Rat))
    (bx : -((2 ^ 1021 : Nat) : Rat) ≤ x.toRat ∧ x.toRat ≤ ((2 ^ 1021 : Nat) : Rat)) :
    let s' := NumF.samplef keep s x
    let n : Rat := ((s.samples + 1 : Nat) : Rat)
    let d := F64.sub x s.mean
    let exact := s.mean.toRat + (x.toRat - s.mean.toRat) / n
    let B := (F64.absRat s'.mean.toRat * uF + F64.etaF) + (F64.absRat (d.toRat / n) * uF + F64.etaF) +
      (F64.absRat (x.toRat - s.mean.toRat) * uF + F64.etaF) / n
    s'.samples = s.samples + 1 ∧ s'.mean.isFinite = true ∧ d.isFinite = true ∧
    s'.mean.toRat - exact ≤ B ∧ exact - s'.mean.toRat ≤ B := by
  intro s' n d exact B
  rw [← bigB_eq] at bm bx
  obtain ⟨a, b, c, e⟩ := mean_step_error_full keep s x hk hn hm hx bm bx
  exact ⟨rfl, a, b, c, e⟩

/-- ACCUMULATED ERROR OF THE RUNNING MEAN ("equal to the mean of the full sample list within floating-point tolerance",
with the tolerance made explicit).  For every non-empty list of at most 2^53 finite samples of magnitude at most `M`
(any rational `M ≤ 2^1021`): `Mean()` is finite, lies in `[-M, M]`, and differs from the EXACT mean of the sample
values by at most

    (n + 11)/2 · u · M  +  (n + 3) · η                    (n = Count(), u = 2^-53, η = 2^-1075)

– linear growth in `n` with constant 1/2; e.g. a million samples: `|Mean() − exact| < 5.6·10^-11 · max|x|`.  The list is
arbitrary, so the bound holds after every prefix of every history.  Proof: `num_f64_mean_step_error` per step; scaled
by the count the error recurrence becomes additive, `k·m_k − S_k = ((k−1)·m_{k−1} − S_{k−1}) + k·δ_k` with
`k·|δ_k| ≤ (k+5)·M·u + (2k+2)·η` (`Proofs/C07NumF64Acc.lean`).  Outside the magnitude class the statement fails
(`-MaxFloat64, MaxFloat64`: the mean is `+Inf`, see the example below). -/
theorem num_f64_mean_error (keep : Bool) (M : Rat) (hM : M ≤ ((2 ^ 1021 : Nat) : Rat)) (l : List F64) (hne : l ≠ [])
    (hn : l.length ≤ 9007199254740992)
    (hl : ∀ x ∈ l, x.isFinite = true ∧ -M ≤ x.toRat ∧ x.toRat ≤ M) :
    let r := runFv keep l
    let n : Rat := (l.length : Rat)
    let R := (n + 11) / 2 * (M * uF) + (n + 3) * F64.etaF
    r.samples = l.length ∧ r.mean.isFinite = true ∧ -M ≤ r.mean.toRat ∧ r.mean.toRat ≤ M ∧
    r.mean.toRat - mean (l.map F64.toRat) ≤ R ∧ mean (l.map F64.toRat) - r.mean.toRat ≤ R := by
  intro r n R
  rw [← bigB_eq] at hM
  exact ⟨runFv_samples keep l, mean_acc_error keep M hM l hne hn hl⟩


/-- Just outside the magnitude class of `num_f64_mean_error` (`M ≤ 2^1021`): the two finite samples `-MaxFloat64, MaxFloat64`
have the exact mean 0, but `val − oldMean` overflows and `Mean()` is `+Inf` – no tolerance can hold beyond the class. -/
theorem num_f64_mean_overflow_counterexample :
    let l := [F64.neg maxF64, maxF64]
    (∀ x ∈ l, x.isFinite = true) ∧ mean (l.map F64.toRat) = 0 ∧
    (runFv false l).mean = F64.inf false ∧ (runFv false l).mean.isFinite = false := by
  decide +kernel

/-- ACCUMULATED ERROR OF `M2` AND OF `Variance()` (the "sample standard deviation … within floating-point tolerance" part,
with the tolerance explicit).  For every non-empty list of at most 2^53 finite samples of magnitude at most `M = 2^e`
(`e ≤ 480`, so that no product of two differences overflows; smaller data are covered by `e = 0`):

* the accumulated `M2` (field `variance`) is finite, `|M2| ≤ 8n·M²`, and differs from the EXACT `Σ (x − mean)²` of the
  sample values by at most `G = (15·n(n+1)/2 + 55n)·u·M² + 2n·η`;
* with at least two samples `Variance()` is finite and differs from the exact sample variance `Σ (x − mean)²/(n−1)` by
  at most `G/(n−1) + 16·u·M² + η` – about `7.5·n·u·M²`: linear in the number of samples, like the mean.

Every rounding of the update `variance += (val − oldMean)·(val − mean)` is accounted for: the two differences (each also
carries the accumulated error of its mean, `num_f64_mean_error`), the product, and the sum, whose magnitude is bounded by
monotone rounding against the float `8K·M²` (`Proofs/C07NumF64Var.lean`).  The list is arbitrary: the bound holds after
every prefix.  `StdDev()` is `math.Sqrt` of `Variance()`, one more correctly rounded operation (not bounded here). -/
theorem num_f64_variance_error (keep : Bool) (e : Nat) (he : e ≤ 480) (l : List F64) (hne : l ≠ [])
    (hn : l.length ≤ 9007199254740992)
    (hl : ∀ x ∈ l, x.isFinite = true ∧ -((2 ^ e : Nat) : Rat) ≤ x.toRat ∧ x.toRat ≤ ((2 ^ e : Nat) : Rat)) :
    let r := runFv keep l
    let q := l.map F64.toRat
    let n : Rat := (l.length : Rat)
    let M : Rat := ((2 ^ e : Nat) : Rat)
    let G := (15 * (n * (n + 1)) / 2 + 55 * n) * (M * (M * uF)) + 2 * n * F64.etaF
    let T := G / (n - 1) + 16 * (M * M * uF) + F64.etaF
    (r.variance.isFinite = true ∧ -(n * (8 * M * M)) ≤ r.variance.toRat ∧ r.variance.toRat ≤ n * (8 * M * M) ∧
      r.variance.toRat - m2 q ≤ G ∧ m2 q - r.variance.toRat ≤ G) ∧
    (2 ≤ l.length → r.varianceF.isFinite = true ∧
      r.varianceF.toRat - sampleVariance q ≤ T ∧ sampleVariance q - r.varianceF.toRat ≤ T) := by
  intro r q n M G T
  exact ⟨var_acc_error keep e he l hne hn hl, fun h2 => variance_acc_error keep e he l h2 hn hl⟩

/-- `num_f64_variance_error` FOR DATA OF ANY SCALE, small magnitudes included: the same statement for every power of two
`M = 2^j / 2^1074 = 2^(j − 1074)` with `536 ≤ j ≤ 1554`, i.e. `2^-538 ≤ M ≤ 2^480` (e.g. `j = 1064`: samples within
`±2^-10`), so the tolerance scales with the data (`u·M²`) down to the point where `8·M²` leaves the normal range.  The proof
is the same run invariant; the magnitude class is abstracted as `MagClass M` (`0 ≤ M ≤ 2^1021`, `η ≤ M·u`, `K·8·M²` a float
for every count `K ≤ 2^53`), `Proofs/C07NumF64Var.lean`. -/
theorem num_f64_variance_error_scaled (keep : Bool) (j : Nat) (h1 : 536 ≤ j) (h2 : j ≤ 1554) (l : List F64) (hne : l ≠ [])
    (hn : l.length ≤ 9007199254740992)
    (hl : ∀ x ∈ l, x.isFinite = true ∧ -(((2 ^ j : Nat) : Rat) / F64.two1074) ≤ x.toRat ∧
      x.toRat ≤ ((2 ^ j : Nat) : Rat) / F64.two1074) :
    let r := runFv keep l
    let q := l.map F64.toRat
    let n : Rat := (l.length : Rat)
    let M : Rat := ((2 ^ j : Nat) : Rat) / F64.two1074
    let G := (15 * (n * (n + 1)) / 2 + 55 * n) * (M * (M * uF)) + 2 * n * F64.etaF
    let T := G / (n - 1) + 16 * (M * M * uF) + F64.etaF
    (r.variance.isFinite = true ∧ -(n * (8 * M * M)) ≤ r.variance.toRat ∧ r.variance.toRat ≤ n * (8 * M * M) ∧
      r.variance.toRat - m2 q ≤ G ∧ m2 q - r.variance.toRat ≤ G) ∧
    (2 ≤ l.length → r.varianceF.isFinite = true ∧
      r.varianceF.toRat - sampleVariance q ≤ T ∧ sampleVariance q - r.varianceF.toRat ≤ T) ∧
    F64.two1074 = ((2 ^ 1074 : Nat) : Rat) := by
  intro r q n M G T
  have hcls := magClass_scaled j h1 h2
  exact ⟨var_acc_error_gen keep _ hcls l hne hn hl, fun h => variance_acc_error_gen keep _ hcls l h hn hl,
    F64.two1074_eq⟩

/-- Just outside the magnitude class of `num_f64_variance_error` (but inside that of `num_f64_mean_error`): for the two
samples `2^600, −2^600` the mean is exactly 0, yet the product `(−2^601)·(−2^600)` overflows – `M2`, `Variance()` and
`StdDev()` are `+Inf` (the exact `M2 = 2^1201` exceeds `MaxFloat64`): beyond the class there is no finite result to bound. -/
theorem num_f64_variance_overflow_counterexample :
    let l := [F64.ofSM false (1623 * 4503599627370496), F64.ofSM true (1623 * 4503599627370496)]
    (∀ x ∈ l, x.isFinite = true ∧ -((2 ^ 600 : Nat) : Rat) ≤ x.toRat ∧ x.toRat ≤ ((2 ^ 600 : Nat) : Rat)) ∧
    (runFv false l).mean.toRat = 0 ∧ (runFv false l).variance = F64.inf false ∧
    (runFv false l).varianceF = F64.inf false ∧ (runFv false l).stdDev = F64.inf false := by
  decide +kernel

/-- THE TOLERANCE CHECK OF THE CORRESPONDENCE IS THE PROVED ONE.  The driver op `agg numerr` evaluates `numErrCheck`
(`Model/C07NumErr.lean`: is `Mean()` within `meanErrBound`, `M2` within `m2ErrBound`, `Variance()` within
`varianceErrBound` of the exact rational statistics?), and the harness evaluates the same inequalities for the REAL
`MatchNumerical` with `math/big`.  For every list of the class (`inErrClass`: `e ≤ 480`, non-empty, finite samples of
magnitude ≤ 2^e; at most 2^53 of them) all three flags are `true` – so a real run that prints a `0` contradicts
`num_f64_mean_error` / `num_f64_variance_error` (or the bit-for-bit tie `agg numfv`), e.g. a variance computed by the
cancelling sum-of-squares formula. -/
theorem num_f64_error_check_true (e : Nat) (l : List F64) (hc : inErrClass e l = true)
    (hn : l.length ≤ 9007199254740992) : numErrCheck e l = (true, true, true) := by
  unfold inErrClass at hc
  simp only [Bool.and_eq_true, decide_eq_true_eq, Bool.not_eq_true', List.all_eq_true] at hc
  obtain ⟨⟨he, hne⟩, hall⟩ := hc
  have hne' : l ≠ [] := by intro h; rw [h] at hne; simp at hne
  have hl : ∀ x ∈ l, x.isFinite = true ∧ -((2 ^ e : Nat) : Rat) ≤ x.toRat ∧ x.toRat ≤ ((2 ^ e : Nat) : Rat) :=
    fun x hx => ⟨(hall x hx).1.1, (hall x hx).1.2, (hall x hx).2⟩
  have hM : ((2 ^ e : Nat) : Rat) ≤ ((2 ^ 1021 : Nat) : Rat) :=
    Rat.natCast_le_natCast.mpr (Nat.pow_le_pow_right (by decide) (by omega))
  obtain ⟨_, mf, _, _, m1, m2'⟩ := num_f64_mean_error false _ hM l hne' hn hl
  obtain ⟨⟨vf, _, _, v1, v2⟩, hv⟩ := num_f64_variance_error false e he l hne' hn hl
  unfold numErrCheck within meanErrBound m2ErrBound varianceErrBound
  simp only [Prod.mk.injEq, Bool.and_eq_true, Bool.or_eq_true, decide_eq_true_eq]
  refine ⟨⟨mf, m1, m2'⟩, ⟨vf, v1, v2⟩, ?_⟩
  by_cases h2 : l.length < 2
  · exact Or.inl h2
  · obtain ⟨a, b, c⟩ := hv (by omega)
    exact Or.inr ⟨a, b, c⟩

/-- THE SAME FOR DATA OF ANY SCALE: `agg numerr` with a NEGATIVE exponent (`M = 2^e`, `-538 ≤ e < 0`, `j = 1074 + e`)
evaluates `numErrCheckJ`, whose tolerances are `num_f64_mean_error` / `num_f64_variance_error_scaled` at `M = 2^(j − 1074)` –
proportional to the scale of the data (`u·M`, `u·M²`), so an error that is small against 1 but large against the samples
(readings like 0.0003 ± 0.0001) is a `0` flag.  All three flags are `true` on the whole class `inErrClassJ`
(`536 ≤ j ≤ 1554`, which also covers the exponents `0 … 480` of `num_f64_error_check_true`). -/
theorem num_f64_error_check_scaled_true (j : Nat) (l : List F64) (hc : inErrClassJ j l = true)
    (hn : l.length ≤ 9007199254740992) : numErrCheckJ j l = (true, true, true) := by
  unfold inErrClassJ at hc
  simp only [Bool.and_eq_true, decide_eq_true_eq, Bool.not_eq_true', List.all_eq_true] at hc
  obtain ⟨⟨⟨h1, h2⟩, hne⟩, hall⟩ := hc
  have hne' : l ≠ [] := by intro h; rw [h] at hne; simp at hne
  have hl : ∀ x ∈ l, x.isFinite = true ∧ -(scaleOf j) ≤ x.toRat ∧ x.toRat ≤ scaleOf j :=
    fun x hx => ⟨(hall x hx).1.1, (hall x hx).1.2, (hall x hx).2⟩
  have hcls := magClass_scaled j h1 h2
  have hM : scaleOf j ≤ ((2 ^ 1021 : Nat) : Rat) := by rw [← bigB_eq]; exact hcls.le
  obtain ⟨_, mf, _, _, m1, m2'⟩ := num_f64_mean_error false _ hM l hne' hn hl
  obtain ⟨vf, _, _, v1, v2⟩ := var_acc_error_gen false _ hcls l hne' hn hl
  unfold numErrCheckJ within meanErrBound m2ErrBound varianceErrBound
  simp only [Prod.mk.injEq, Bool.and_eq_true, Bool.or_eq_true, decide_eq_true_eq]
  refine ⟨⟨mf, m1, m2'⟩, ⟨vf, v1, v2⟩, ?_⟩
  by_cases h2' : l.length < 2
  · exact Or.inl h2'
  · obtain ⟨a, b, c⟩ := variance_acc_error_gen false _ hcls l (by omega) hn hl
    exact Or.inr ⟨a, b, c⟩

/-- `StdDev()` = `math.Sqrt(Variance())`, FOR EVERY SAMPLE LIST.  The software `F64.sqrt` (compared bit for bit with
`math.Sqrt` by `agg numf` / `numfv`) takes the integer square root `s` of the scaled argument by Newton's iteration –
proved correct for every natural number (`F64.isqrt_spec`: `s² ≤ N < (s+1)²`, the fuel always suffices) – and rounds once.
Hence, whenever `Variance()` is finite and positive: `StdDev()` is FINITE, it is the correct rounding of a rational `t`
with `(t − 2^-603)² ≤ Variance() ≤ (t + 2^-603)²` (the exact root lies within `2^-603` of `t`, and `t² = Variance()` when
the root is rational at that scale), and `|StdDev() − t| ≤ t·u + η`.  A zero variance (either sign) is returned as it
is.  Within the class of `num_f64_variance_error` (finite samples of magnitude ≤ 2^e, e ≤ 480, at least two of them)
`Variance()` is finite and not negative, so `StdDev()` is always finite there: the chain
samples → `M2` → `Variance()` → `StdDev()` has an explicit tolerance at every link. -/
theorem num_f64_stddev (keep : Bool) (l : List F64) :
    let r := runFv keep l
    r.stdDev = F64.sqrt r.varianceF ∧
    (r.varianceF.isZero = true → r.stdDev = r.varianceF) ∧
    (r.varianceF.isFinite = true → 0 < r.varianceF.toRat →
      r.stdDev.isFinite = true ∧
      ∃ t : Rat, F64.sqrtEps ≤ t ∧ r.stdDev = F64.ofRatS false t ∧
        (t - F64.sqrtEps) * (t - F64.sqrtEps) ≤ r.varianceF.toRat ∧
        r.varianceF.toRat ≤ (t + F64.sqrtEps) * (t + F64.sqrtEps) ∧
        r.stdDev.toRat - t ≤ t * uF + F64.etaF ∧ t - r.stdDev.toRat ≤ t * uF + F64.etaF) ∧
    (∀ e : Nat, e ≤ 480 → 2 ≤ l.length → l.length ≤ 9007199254740992 →
      (∀ x ∈ l, x.isFinite = true ∧ -((2 ^ e : Nat) : Rat) ≤ x.toRat ∧ x.toRat ≤ ((2 ^ e : Nat) : Rat)) →
      r.stdDev.isFinite = true) ∧
    F64.sqrtEps = 1 / ((2 ^ 603 : Nat) : Rat) := by
  intro r
  have hz : r.varianceF.isZero = true → r.stdDev = r.varianceF := by
    intro hz
    have hm : r.varianceF.mag = 0 := (F64.isZero_iff _).mp hz
    have hn : r.varianceF.isNaN = false := by simp [F64.isNaN, hm]
    show F64.sqrt r.varianceF = r.varianceF
    unfold F64.sqrt
    rw [hn, hz]; rfl
  refine ⟨rfl, hz, fun hf hp => sqrt_finite_err r.varianceF hf hp, ?_, rfl⟩
  intro e he h2 hn hl
  have hne : l ≠ [] := by intro h; rw [h] at h2; simp at h2
  obtain ⟨vf, _, _⟩ := (num_f64_variance_error keep e he l hne hn hl).2 h2
  have hl' : ∀ x ∈ l, x.isFinite = true ∧ -((2 ^ 1021 : Nat) : Rat) ≤ x.toRat ∧ x.toRat ≤ ((2 ^ 1021 : Nat) : Rat) := by
    intro x hx
    obtain ⟨a, b, c⟩ := hl x hx
    have hM : ((2 ^ e : Nat) : Rat) ≤ ((2 ^ 1021 : Nat) : Rat) :=
      Rat.natCast_le_natCast.mpr (Nat.pow_le_pow_right (by decide) (by omega))
    exact ⟨a, by grind, by grind⟩
  obtain ⟨_, nn, _, _⟩ := num_f64_variance_nonneg keep l hn hl'
  have z0 : (F64.zero false).isFinite = true := by decide
  have zv : (F64.zero false).toRat = 0 := F64.toRat_eq_zero_of_mag (by decide)
  have h0 : 0 ≤ r.varianceF.toRat := by
    have := (F64.le_iff_toRat_le z0 vf).mp nn
    rwa [zv] at this
  by_cases hpos : 0 < r.varianceF.toRat
  · exact (sqrt_finite_err r.varianceF vf hpos).1
  · have h00 : r.varianceF.toRat = 0 := by grind
    have hzz : r.varianceF.isZero = true := (F64.isZero_iff _).mpr ((F64.toRat_eq_zero_iff _).mp h00)
    rw [hz hzz]; exact vf

/-- END TO END: `StdDev()` against the EXACT sample variance `σ²` of the sample values.  In the class of
`num_f64_variance_error` (finite samples of magnitude ≤ 2^e, e ≤ 480, between 2 and 2^53 of them) with a positive
`Variance()`: `StdDev()` is finite and is the correct rounding of a rational `t`, `|StdDev() − t| ≤ t·u + η`, with

    (t − 2^-603)² − T  ≤  σ²  ≤  (t + 2^-603)² + T,        T = `varianceErrBound 2^e n` (the tolerance of `Variance()`).

(Square roots are irrational, so the tolerance is stated on the squares.)  With `num_f64_mean_error` this makes every
clause of "count, mean, sample standard deviation, min and max equal those of the full sample list within floating-point
tolerance" a theorem with an explicit tolerance; count, min and max are exact (`num_f64_count`, `num_f64_minmax`). -/
theorem num_f64_stddev_error (keep : Bool) (e : Nat) (he : e ≤ 480) (l : List F64) (h2 : 2 ≤ l.length)
    (hn : l.length ≤ 9007199254740992)
    (hl : ∀ x ∈ l, x.isFinite = true ∧ -((2 ^ e : Nat) : Rat) ≤ x.toRat ∧ x.toRat ≤ ((2 ^ e : Nat) : Rat))
    (hpos : 0 < (runFv keep l).varianceF.toRat) :
    let r := runFv keep l
    let σ2 := sampleVariance (l.map F64.toRat)
    let T := varianceErrBound ((2 ^ e : Nat) : Rat) l.length
    r.stdDev.isFinite = true ∧
    ∃ t : Rat, F64.sqrtEps ≤ t ∧ r.stdDev = F64.ofRatS false t ∧
      r.stdDev.toRat - t ≤ t * uF + F64.etaF ∧ t - r.stdDev.toRat ≤ t * uF + F64.etaF ∧
      (t - F64.sqrtEps) * (t - F64.sqrtEps) - T ≤ σ2 ∧ σ2 ≤ (t + F64.sqrtEps) * (t + F64.sqrtEps) + T := by
  intro r σ2 T
  have hne : l ≠ [] := by intro h; rw [h] at h2; simp at h2
  obtain ⟨vf, v1, v2⟩ := (num_f64_variance_error keep e he l hne hn hl).2 h2
  obtain ⟨_, _, hs, _, _⟩ := num_f64_stddev keep l
  obtain ⟨sf, t, t0, t1, b1, b2, e1, e2⟩ := hs vf hpos
  refine ⟨sf, t, t0, t1, e1, e2, ?_, ?_⟩
  · show _ - varianceErrBound _ _ ≤ sampleVariance (l.map F64.toRat)
    unfold varianceErrBound m2ErrBound unitRoundoff halfMinSub
    unfold uF F64.etaF at v1
    grind
  · show sampleVariance (l.map F64.toRat) ≤ _ + varianceErrBound _ _
    unfold varianceErrBound m2ErrBound unitRoundoff halfMinSub
    unfold uF F64.etaF at v2
    grind

/-! ### non-vacuity of the float theorems -/

/-- "1.5", "x", "-2", "1e999" (range error), "0x1p-1", "nan". -/
def exNumHist : List Bytes := [[49, 46, 53], [120], [45, 50], [49, 101, 57, 57, 57], [48, 120, 49, 112, 45, 49], [110, 97, 110]]
example : ((runF true exNumHist).samples, (runF true exNumHist).parseErrors, (runF true exNumHist).values.length) = (4, 2, 4) := by
  decide +kernel
/-- 1, 2, 3, 4 (running means 1, 1.5, 2, 2.5) and the odd numbers 1 … 15 (running means 1 … 8) as floats. -/
def exInts : List F64 := [1, 2, 3, 4].map F64.ofInt
def exInts8 : List F64 := [1, 3, 5, 7, 9, 11, 13, 15].map F64.ofInt
example : ∀ x ∈ exInts8, x.isFinite = true := by decide +kernel
example : AllRep (Numerical.new ratOps) (exInts.map F64.toRat) := allRep_of_allRepB _ _ (by decide +kernel)
example : AllRep (Numerical.new ratOps) (exInts8.map F64.toRat) := allRep_of_allRepB _ _ (by decide +kernel)
/-- mean 8, M2 168, sample variance 24 (a float), computed without any rounding. -/
example : (runFv true exInts8).mean = F64.ofInt 8 ∧ (runFv true exInts8).variance = F64.ofInt 168 ∧
    (runFv true exInts8).varianceF = F64.ofInt 24 := by decide +kernel
example : F64.Rep (sampleVariance (exInts8.map F64.toRat)) := rep_of_repB (by decide +kernel)
/-- 2, 4, 4: the running mean 10/3 is not a float – the condition fails, the mean is rounded. -/
example : allRepB (Numerical.new ratOps) (([2, 4, 4].map F64.ofInt).map F64.toRat) = false := by decide +kernel
/-- 0.1 + 0.2 + 0.3 does round: the condition is not vacuous. -/
example : allRepB (Numerical.new ratOps) ([F64.ofRat (1/10), F64.ofRat (2/10), F64.ofRat (3/10)].map F64.toRat) = false := by
  decide +kernel
example : ∀ x ∈ exInts, x.isFinite = true ∧ -((2 ^ 1021 : Nat) : Rat) ≤ x.toRat ∧ x.toRat ≤ ((2 ^ 1021 : Nat) : Rat) := by
  decide +kernel
/-- a sorted arrangement with both zeros and a NaN: `[NaN, -0, +0, 1]` and `[NaN, +0, -0, 1]` are both sorted. -/
example : 1 ≤ (runFv true exInts).samples ∧ (runFv true exInts).samples + 1 ≤ 9007199254740992 ∧
    (runFv true exInts).mean.isFinite = true ∧ (F64.ofRat (1/10)).isFinite = true := by decide +kernel
example : (F64.ofRatS false (1/10)).isFinite = true ∧ (F64.ofRatS false (1/10)).toRat ≠ 1/10 := by decide +kernel
def exMixed : List F64 := [F64.ofInt 1, F64.zero true, F64.nan, F64.zero false]
/-- `[1, -0, NaN, +0]`: the zeros are one value with multiplicity 2, so the mode is a zero – ascending and reversed;
`[1, NaN, 2]`: ascending the mode is the NaN (no number twice), reversed it is 2. -/
example : (modeF [F64.nan, F64.zero true, F64.zero false, F64.ofInt 1]).isNaN = false ∧
    F64.eq (modeF [F64.nan, F64.zero true, F64.zero false, F64.ofInt 1]) (F64.zero false) = true ∧
    (modeF [F64.nan, F64.ofInt 1, F64.ofInt 2]).isNaN = true ∧
    modeF [F64.ofInt 2, F64.ofInt 1, F64.nan] = F64.ofInt 2 := by decide +kernel
example : IsSortedF false [F64.nan, F64.ofInt 1, F64.ofInt 2] [F64.ofInt 1, F64.nan, F64.ofInt 2] ∧
    IsSortedF true [F64.ofInt 2, F64.ofInt 1, F64.nan] [F64.ofInt 1, F64.nan, F64.ofInt 2] :=
  ⟨⟨by decide +kernel, by decide +kernel⟩, ⟨by decide +kernel, by decide +kernel⟩⟩
/-- hypotheses of `num_f64_order_stats_exact`: finite samples with both zeros, and a sorted arrangement of them -/
example : (∀ x ∈ [F64.ofInt 1, F64.zero true, F64.zero false], x.isFinite = true) ∧
    IsSortedF true [F64.ofInt 1, F64.zero false, F64.zero true] [F64.ofInt 1, F64.zero true, F64.zero false] :=
  ⟨by decide +kernel, by decide +kernel, by decide +kernel⟩
example : IsSortedF false [F64.nan, F64.zero true, F64.zero false, F64.ofInt 1] exMixed ∧
    IsSortedF false [F64.nan, F64.zero false, F64.zero true, F64.ofInt 1] exMixed := by
  exact ⟨⟨by decide +kernel, by decide +kernel⟩, ⟨by decide +kernel, by decide +kernel⟩⟩
/-- all samples `+Inf`: `Min()` is `+Inf` (was `MaxFloat64` before bda1842); the overflow witness is real -/
example : (runFv false [F64.inf false, F64.inf false]).min = F64.inf false := by decide +kernel
example : (runFv false [F64.neg maxF64, maxF64]).mean = F64.inf false := by decide +kernel
example : inErrClass 0 [F64.ofRat (1/10), F64.ofRat (2/10), F64.ofRat (3/10)] = true := by decide +kernel
/-- j = 1064 (M = 2^-10): 0.0001, 0.0002, 0.0003 are in the scaled class of `num_f64_error_check_scaled_true`. -/
example : inErrClassJ 1064 [F64.ofRat (1/10000), F64.ofRat (2/10000), F64.ofRat (3/10000)] = true := by decide +kernel
/-- hypotheses of `num_f64_variance_error_scaled` with j = 1064 (M = 2^-10) on 0.0001, 0.0002, 0.0003. -/
example : ∀ x ∈ [F64.ofRat (1/10000), F64.ofRat (2/10000), F64.ofRat (3/10000)],
    x.isFinite = true ∧ -(((2 ^ 1064 : Nat) : Rat) / F64.two1074) ≤ x.toRat ∧
      x.toRat ≤ ((2 ^ 1064 : Nat) : Rat) / F64.two1074 := by decide +kernel
/-- hypotheses of `num_f64_stddev_error` on 1, 3, …, 15 (e = 4). -/
example : (∀ x ∈ exInts8, x.isFinite = true ∧ -((2 ^ 4 : Nat) : Rat) ≤ x.toRat ∧ x.toRat ≤ ((2 ^ 4 : Nat) : Rat)) ∧
    0 < (runFv false exInts8).varianceF.toRat := by decide +kernel
/-- `num_f64_stddev`: 1, 3, … , 15 have the positive finite variance 24 (√24 is irrational: the bracket is strict). -/
example : (runFv true exInts8).varianceF.isFinite = true ∧ 0 < (runFv true exInts8).varianceF.toRat := by decide +kernel
/-- hypotheses of `num_f64_variance_error` (e = 0) on 0.1, 0.2, 0.3: `M2` is rounded (it is not the exact value). -/
example : (runFv false [F64.ofRat (1/10), F64.ofRat (2/10), F64.ofRat (3/10)]).variance.toRat ≠
    m2 ([F64.ofRat (1/10), F64.ofRat (2/10), F64.ofRat (3/10)].map F64.toRat) := by decide +kernel
example : ∀ x ∈ [F64.ofRat (1/10), F64.ofRat (2/10), F64.ofRat (3/10)],
    x.isFinite = true ∧ -((2 ^ 0 : Nat) : Rat) ≤ x.toRat ∧ x.toRat ≤ ((2 ^ 0 : Nat) : Rat) := by decide +kernel
/-- hypotheses of `num_f64_mean_error` on 0.1, 0.2, 0.3 (M = 1): the mean IS rounded, and the bound holds with room. -/
example : ∀ x ∈ [F64.ofRat (1/10), F64.ofRat (2/10), F64.ofRat (3/10)],
    x.isFinite = true ∧ -(1 : Rat) ≤ x.toRat ∧ x.toRat ≤ 1 := by decide +kernel
example : (runFv false [F64.ofRat (1/10), F64.ofRat (2/10), F64.ofRat (3/10)]).mean.toRat ≠
    mean ([F64.ofRat (1/10), F64.ofRat (2/10), F64.ofRat (3/10)].map F64.toRat) := by decide +kernel

/-! ## `Analyze()` between the samples: the numerical aggregator as a state machine

`Model/C07NumHist.lean`.  `Analyze()` is not a pure accessor – it sorts `s.values` IN PLACE and hands out a view of that
slice – and `rare analyze --extra` calls it on every 100 ms refresh, between the samples.  A history is a list of calls
`Samplef(v)` / `Sample(element)` / `Analyze()`; `HistRun` runs it with the sort specified by its contract only (any sorted
arrangement, Go's pdqsort is not stable), `histRun` is the executable instance the correspondence op `agg numh` compares
with the real aggregator after EVERY prefix of the history. -/

/-- **Every schedule of `Analyze()` calls gives the same answers.**  For every history `ops` of calls on a new aggregator,
every run `h` of it (any sorting algorithm), with `l` the samples handed to `Samplef` in arrival order:

1. `Count`, `Mean`, `Variance`, `StdDev`, `Min`, `Max`, `ParseErrors` are those of the plain `Samplef` fold over `l`
   (`runFv`: everything the other `num_f64_*` theorems say about it applies) – `Analyze()` touches no moment;
2. the stored values are an arrangement of the kept samples: nothing is lost or duplicated by the in-place sorts;
3. one view per `Analyze()` call, and the view of EVERY `Analyze()` – however many came before it, wherever they were –
   is a sorted arrangement of ALL samples kept before that call;
4. so is the view `o` of any further `Analyze()` on the final state, and its `Median()`, every `Quantile(p)` and `Mode()`
   are those of a fresh sort of the kept samples (up to the sign of a zero / the identity of a NaN): `num_f64_order_stats`,
   `num_f64_mode_any` describe them.  The order statistics depend on the multiset of samples only – not on the arrival
   order, not on the refresh schedule;
5. the executable machine `histRun` (merge sort in place) is one such run. -/
theorem num_f64_analyze_any_schedule (keep rev : Bool) (ops : List NumOp) (s : NumF) (vs : List (List F64))
    (h : HistRun keep rev NumF.new ops s vs) :
    let l := histSamples ops
    let kept := keptOf keep l
    (s.samples = l.length ∧ s.mean = (runFv keep l).mean ∧ s.varianceF = (runFv keep l).varianceF ∧
      s.stdDev = (runFv keep l).stdDev ∧ s.min = (runFv keep l).min ∧ s.max = (runFv keep l).max ∧
      s.parseErrors = ops.countP NumOp.isParseError) ∧
    s.values.Perm kept ∧
    (vs.length = ops.countP NumOp.isAnalyze ∧
      ∀ pre post, ops = pre ++ NumOp.analyze :: post →
        ∃ o, vs[pre.countP NumOp.isAnalyze]? = some o ∧ IsSortedF rev o (keptOf keep (histSamples pre))) ∧
    (∀ o, IsSortedF rev o s.values →
      IsSortedF rev o kept ∧
      sameF (medianF o) (medianF (analyzeF rev kept)) = true ∧
      (∀ p, ∃ x x', quantileF o p = .ok x ∧ quantileF (analyzeF rev kept) p = .ok x' ∧ sameF x x' = true) ∧
      sameF (modeF o) (modeF (analyzeF rev kept)) = true) ∧
    HistRun keep rev NumF.new ops (histRun keep rev ops).1 (histRun keep rev ops).2 := by
  intro l kept
  obtain ⟨⟨h1, h2, h3, h4, h5, h6, _⟩, hperm⟩ := histRun_final keep rev ops s vs h
  have hv : s.varianceF = (runFv keep l).varianceF := by
    unfold NumF.varianceF Numerical.varianceOf
    rw [h1, h3]
  refine ⟨⟨?_, h2, hv, ?_, h4, h5, h6⟩, hperm, ⟨histRun_views_length keep rev h, ?_⟩, ?_, histRun_is_run keep rev ops NumF.new⟩
  · rw [h1]; exact runFv_samples keep l
  · unfold NumF.stdDev; rw [hv]
  · intro pre post e
    exact histRun_view keep rev ops s vs h pre post e
  · intro o ho
    have hs : IsSortedF rev o kept := ⟨ho.1.trans hperm, ho.2⟩
    have hf := analyzeF_sorted rev kept
    exact ⟨hs, medianF_sorted_unique rev o _ kept hs hf, fun p => quantileF_sorted_unique rev o _ kept hs hf p,
      modeF_sorted_unique rev o _ kept hs hf⟩

/-- **What `Reverse` (`rare analyze --reverse`) means.**  The view sorted with `Reverse` is the ascending view read
backwards: rank `k` of the ascending arrangement and rank `n-1-k` of the reversed one are the same value (up to the sign of
a zero / the identity of a NaN), for every pair of sorted arrangements.  So `Quantile(p)` with `Reverse` is the
`(n-1-⌊n·p⌋)`-th smallest sample, and `Median()` (rank `⌊n/2⌋` in both) is the UPPER median ascending but the LOWER
median with `Reverse` when `n` is even (`n = 4`: ascending rank 2, reversed rank 2 = ascending rank 1). -/
theorem num_f64_reverse_mirrors (l s s' : List F64) (hs : IsSortedF false s l) (hs' : IsSortedF true s' l)
    (k : Nat) (hk : k < l.length) :
    ∃ x x', s[k]? = some x ∧ s'[l.length - 1 - k]? = some x' ∧ sameF x x' = true := by
  have h1 : IsSortedF true s.reverse l := (isSortedF_reverse false s l).mp hs
  have len : s.length = l.length := hs.1.length_eq
  have len' : s'.length = l.length := hs'.1.length_eq
  have hk1 : k < s.length := by omega
  have hk2 : l.length - 1 - k < s'.length := by omega
  refine ⟨s[k], s'[l.length - 1 - k], List.getElem?_eq_getElem hk1, List.getElem?_eq_getElem hk2, ?_⟩
  have e : s.reverse[l.length - 1 - k]? = some s[k] := by
    rw [List.getElem?_reverse (by omega)]
    have : s.length - 1 - (l.length - 1 - k) = k := by omega
    rw [this]; exact List.getElem?_eq_getElem hk1
  exact rank_unique true s.reverse s' l h1 hs' _ _ _ e (List.getElem?_eq_getElem hk2)

/-- **When could a re-sort be skipped?**  Appending a sample `v` to a non-empty sorted slice `o` leaves it sorted IFF `v`
is not before the LAST stored value in the sort order – ascending: `v` is not below it; with `Reverse`: `v` is not ABOVE
it (the direction flips with the flag; NaN sorts below every number in both).  In every other case the slice `Analyze()`
finds is unsorted and it has to sort again – which it always does. -/
theorem num_f64_append_keeps_sorted_iff (rev : Bool) (o l : List F64) (last v : F64) (h : IsSortedF rev o l)
    (hl : o.getLast? = some last) :
    IsSortedF rev (o ++ [v]) (l ++ [v]) ↔ (if rev then goLess last v else goLess v last) = false :=
  sorted_append_iff rev o l last v h hl

/-- Just outside: the ASCENDING test `v >= last` does not license skipping the sort when `Reverse` is set.  Samples 1, 2,
a refresh (stored: 2, 1), then 3: `3 >= 1`, yet `2, 1, 3` is not sorted for `Reverse`; read as it stands its median would
be 1 and its mode 2, while EVERY run of the aggregator (which sorts again) answers median 2 and mode 3 at the second
`Analyze()`.  (This is the history with which `agg numh` catches seeded/C07-analyze-ordered-flag.) -/
theorem num_f64_stale_order_counterexample :
    let one := F64.ofInt 1; let two := F64.ofInt 2; let three := F64.ofInt 3
    IsSortedF true [two, one] [one, two] ∧ F64.le one three = true ∧
    ¬ IsSortedF true [two, one, three] [one, two, three] ∧
    medianF [two, one, three] = one ∧ modeF [two, one, three] = two ∧
    (∀ s vs, HistRun true true NumF.new [.samplef one, .samplef two, .analyze, .samplef three, .analyze] s vs →
      ∃ o, vs[1]? = some o ∧ sameF (medianF o) two = true ∧ sameF (modeF o) three = true) := by
  intro one two three
  have hs : IsSortedF true [two, one] [one, two] := ⟨by decide +kernel, by decide +kernel⟩
  refine ⟨hs, by decide +kernel, ?_, by decide +kernel, by decide +kernel, ?_⟩
  · intro hbad
    have := (sorted_append_iff true [two, one] [one, two] one three hs rfl).mp hbad
    revert this
    decide +kernel
  · intro s vs h
    obtain ⟨o, ho, hso⟩ := histRun_view true true _ s vs h [.samplef one, .samplef two, .analyze, .samplef three] [] rfl
    have h3 : IsSortedF true [three, two, one] [one, two, three] := ⟨by decide +kernel, by decide +kernel⟩
    have hso' : IsSortedF true o [one, two, three] := hso
    refine ⟨o, ho, ?_, ?_⟩
    · have := medianF_sorted_unique true o _ _ hso' h3
      have e : medianF [three, two, one] = two := by decide +kernel
      rw [e] at this; exact this
    · have := modeF_sorted_unique true o _ _ hso' h3
      have e : modeF [three, two, one] = three := by decide +kernel
      rw [e] at this; exact this

/-- a history with refreshes, a parse error and a NaN: hypotheses of `num_f64_analyze_any_schedule` on the executable run -/
def exHistOps : List NumOp :=
  [.analyze, .samplef (F64.ofInt 1), .samplef (F64.ofInt 2), .analyze, .sample [120], .samplef F64.nan, .sample [51], .analyze]
example : HistRun true true NumF.new exHistOps (histRun true true exHistOps).1 (histRun true true exHistOps).2 :=
  histRun_is_run true true exHistOps NumF.new
example : (histRun true true exHistOps).1.parseErrors = 1 ∧ (histRun true true exHistOps).1.samples = 4 ∧
    histSamples exHistOps = [F64.ofInt 1, F64.ofInt 2, F64.nan, F64.ofInt 3] ∧ exHistOps.countP NumOp.isAnalyze = 3 := by
  decide +kernel
example : IsSortedF true [F64.ofInt 2, F64.ofInt 1] [F64.ofInt 1, F64.ofInt 2] ∧
    [F64.ofInt 2, F64.ofInt 1].getLast? = some (F64.ofInt 1) := ⟨⟨by decide +kernel, by decide +kernel⟩, rfl⟩

/-! ## `rare reduce` with the static optimiser on (C07 × C10)

`Model/C07AccCompile.lean`: the configuration calls with TEMPLATES, compiled by the shared expression model
`Rare.Expr.compile reg opt` exactly where accumulator.go calls `s.compiler.Compile` (after the "data exists" /
"duplicate name" checks).  `opt` is the static-optimisation switch of the key builder (on in `rare reduce`). -/

/-- The optimiser is invisible to the aggregator: whenever a call sequence (configuration and samples, in any
order) runs with the optimising compiler without a compile-time panic, the same sequence with the plain
compiler yields the SAME aggregator – same definitions (the compiled expressions are equal as interaction trees:
C10 `compile_opt_sound`), same rows, same returned errors. -/
theorem accgroup_optimizer_invisible (reg : Rare.Expr.Registry) (ops : List AccTOp) (s : AccGroup)
    (r : AccGroup × List (Option String)) (h : s.applyAllT reg true ops = .ok r) :
    s.applyAllT reg false ops = .ok r :=
  applyAllT_opt reg ops s r h

/-- `accgroup_fold` for expressions compiled with the optimiser ON.  Configure a fresh aggregator through the
optimising compiler (`cfg`: any `AddGroupExpr` / `AddDataExpr` / `SetSort` calls; hypothesis: no compile-time
panic).  Then (1) the plain compiler gives the same aggregator `s0`, so (2) for every sample history the state is
the left fold of the spec whose column functions are the UNOPTIMISED compiled templates of `s0` – both fail with
the same panic, or both succeed with the same rows. -/
theorem accgroup_fold_optimized (reg : Rare.Expr.Registry) (cfg : List AccTOp) (s0 : AccGroup) (errs : List (Option String))
    (h : ({} : AccGroup).applyAllT reg true cfg = .ok (s0, errs)) (hist : List Bytes) :
    ({} : AccGroup).applyAllT reg false cfg = .ok (s0, errs) ∧ AccReach s0 ∧
    (match s0.run hist, hist.foldlM (specSample s0.specGroups s0.specCols) (fun k => aget s0.data k) with
     | .ok s, .ok st => (∀ k, aget s.data k = st k) ∧ SameDefs s0 s
     | .error m, .error m' => m = m'
     | _, _ => False) := by
  have hr : AccReach s0 := reach_applyAllT reg true cfg {} (s0, errs) AccReach.init h
  refine ⟨applyAllT_opt reg cfg {} _ h, hr, ?_⟩
  have := accgroup_fold s0 hr hist
  revert this
  cases s0.run hist <;> cases hist.foldlM (specSample s0.specGroups s0.specCols) (fun k => aget s0.data k) <;> simp
  intro a b _; exact ⟨a, b⟩

/-- For a registry of panic-free builders (C08 `SafeRegistry`, e.g. the standard helpers that are modelled) the
hypothesis always holds: configuration never panics, with or without the optimiser, both give the same fresh
aggregator (no rows), and its state after any history is `specRun` of that history. -/
theorem accgroup_fold_optimized_safe (reg : Rare.Expr.Registry) (hreg : Rare.Expr.SafeRegistry reg)
    (cfg : List AccTOp) (hcfg : ∀ op ∈ cfg, op.isSample = false) (hist : List Bytes) :
    ∃ s0 errs, ({} : AccGroup).applyAllT reg true cfg = .ok (s0, errs) ∧
      ({} : AccGroup).applyAllT reg false cfg = .ok (s0, errs) ∧ AccReach s0 ∧ s0.data = [] ∧
      (match s0.run hist, specRun s0.specGroups s0.specCols hist with
       | .ok s, .ok st => (∀ k, aget s.data k = st k) ∧ SameDefs s0 s
       | .error m, .error m' => m = m'
       | _, _ => False) := by
  obtain ⟨s0, errs, h, hd⟩ := applyAllT_cfg_ok reg hreg true cfg {} hcfg
  have hr : AccReach s0 := reach_applyAllT reg true cfg {} (s0, errs) AccReach.init h
  exact ⟨s0, errs, h, applyAllT_opt reg cfg {} _ h, hr, hd, accgroup_fold_init s0 hr hd hist⟩

/-- non-vacuity: the registry without helpers is (vacuously) safe; `g={1}`, `c={.}x`, `l={c}:{2}`, a duplicate and a sort. -/
def exReg : Rare.Expr.Registry := fun _ => none
example : Rare.Expr.SafeRegistry exReg := by intro name b h; cases h
def exCfg : List AccTOp :=
  [.addGroup [103] "{1}".toList, .addData [99] "{.}x".toList [], .addData [108] "{c}:{2}".toList [45],
   .addData [99] "{2}".toList [], .setSort "{c}".toList]
example : ∀ op ∈ exCfg, op.isSample = false := by decide

/-! ## translator tie: the model equals what `harness/extract/c07.go` reads from /repo (`Gen/C07.lean`) -/

/-- **The splitter's conditions and index arithmetic are the source's.**  `Done()` is the source's returned expression;
the two `if` conditions of `Next` are the model's two tests (exhausted, delimiter not found – `strings.Index` = -1);
when the delimiter is found at offset `i` of the rest, the field boundaries and the new position are the source's
assignments `idx += s.next; s.next = idx + len(s.Delim)` (the F9 defect was `idx + 1` here). -/
theorem splitter_matches_source (s : Splitter) :
    s.done = Gen.C07.splitterDone s.next ∧
    (∀ idx : Int, Gen.C07.splitterNextConds s.next idx = [s.done, decide (idx < 0)]) ∧
    (s.done = false → ∀ i : Nat, indexOf s.delim (s.S.drop s.next.toNat) = some i →
      s.next' = ((s.S.take (Gen.C07.splitterAdvance s.next i s.delim.length).1.toNat).drop s.next.toNat,
                 { s with next := (Gen.C07.splitterAdvance s.next i s.delim.length).2 })) ∧
    (s.done = false → indexOf s.delim (s.S.drop s.next.toNat) = none →
      s.next' = (s.S.drop s.next.toNat, { s with next := -1 })) := by
  refine ⟨rfl, fun _ => rfl, ?_, ?_⟩
  · intro hd i hi
    have hn : ¬ s.next < 0 := by simpa [Splitter.done] using hd
    unfold Splitter.next'
    rw [if_neg hn]
    simp only [hi, Gen.C07.splitterAdvance]
  · intro hd hi
    have hn : ¬ s.next < 0 := by simpa [Splitter.done] using hd
    unfold Splitter.next'
    rw [if_neg hn]
    simp only [hi]

/-- **`Samplef` / `Variance` compute the source's expressions**, for every number type: the new count, mean and `M2` are
the source's four statements `s.samples++; oldMean := s.mean; s.mean += (val - oldMean) / float64(s.samples);
s.variance += (val - oldMean) * (val - s.mean)` (so the sum-of-squares variant of seeded/C07-variance-sumsq is a
different function), `Min` / `Max` are updated under the source's two comparisons, `Variance()` is the source's guarded
quotient, and they start at `math.Inf(1)` / `math.Inf(-1)`. -/
theorem welford_matches_source {α : Type} (o : NumOps α) (keep : Bool) (s : Numerical α) (val : α) :
    let r := Numerical.samplef o keep s val
    (r.samples, r.mean, r.variance) = Gen.C07.welford o.add o.sub o.mul o.div o.ofNat s.samples s.mean s.variance val ∧
    (r.min, r.max) = Gen.C07.minMaxUpdate o.lt s.min s.max val ∧
    Numerical.varianceOf o s = Gen.C07.varianceOf o.div o.ofNat o.zero s.samples s.variance ∧
    (f64Ops.maxVal, f64Ops.negMaxVal) =
      (F64.inf (decide (Gen.C07.initInfSigns.1 < 0)), F64.inf (decide (Gen.C07.initInfSigns.2 < 0))) := by
  refine ⟨rfl, rfl, ?_, by decide⟩
  unfold Numerical.varianceOf Gen.C07.varianceOf
  by_cases h : s.samples > 1 <;> simp [h]

/-- **`Median` / `Quantile` index as the source says** (`n` = number of kept values): the empty test, `n/2`, and the two
clamps `idx >= n → n-1`, `idx < 0 → 0` (F20 was the missing first clamp); the raw index is still
`int(float64(len) * p)` and `Mode` is still the scan the model mirrors. -/
theorem order_stats_match_source {α : Type} (zero : α) (ordered : List α) (idx : Int) :
    median zero ordered =
      (if (Gen.C07.medianIdx ordered.length).1 then zero
       else ordered[(Gen.C07.medianIdx ordered.length).2.toNat]?.getD zero) ∧
    quantileAt zero ordered idx =
      (if (Gen.C07.quantileIdx ordered.length idx).1 then .ok zero
       else match ordered[(Gen.C07.quantileIdx ordered.length idx).2.toNat]? with
         | some v => .ok v
         | none => .error "index out of range") ∧
    Gen.C07.quantileRaw = "int(float64(len(s.orderedValues))*p)" ∧
    Gen.C07.modeSource = ["if len(s.orderedValues) == 0 {", "return 0.0", "}", "maxObserved := 0", "maxValue := 0.0",
      "currObserved := 0", "currValue := 0.0", "for i := 0; i < len(s.orderedValues); i++ {", "val := s.orderedValues[i]",
      "if val != currValue {", "currValue = val", "currObserved = 0", "}", "currObserved++",
      "if currObserved > maxObserved {", "maxValue = currValue", "maxObserved = currObserved", "}", "}", "return maxValue"] := by
  refine ⟨?_, ?_, rfl, rfl⟩
  · unfold median Gen.C07.medianIdx
    by_cases h : ordered.length = 0
    · simp [h]
    · have h' : ¬ ((ordered.length : Int) = 0) := by omega
      simp only [h, h', if_false, decide_false, Bool.false_eq_true]
      have : (Int.tdiv (ordered.length : Int) 2).toNat = ordered.length / 2 := by
        rw [Int.tdiv_eq_ediv_of_nonneg (by omega)]; omega
      rw [this]
  · unfold quantileAt Gen.C07.quantileIdx
    by_cases h : ordered.length = 0
    · simp [h]
    · have h' : ¬ ((ordered.length : Int) = 0) := by omega
      simp only [h, h', if_false, decide_false, Bool.false_eq_true, decide_eq_true_eq]
      rfl

/-- **`ComputeMinMax` / `minSlice` test and start as the source says**: the empty-table test, the start values
`math.MaxInt64` / `math.MinInt64`, the two guarded assignments of the inner loop; `minSlice`'s `len(items) < count`. -/
theorem minmax_matches_source (rs : List TableRow) (cs : List Bytes) :
    Table.computeMinMaxWith rs cs =
      (if Gen.C07.minMaxEmpty rs.length cs.length then (0, 0)
       else rs.foldl (fun acc r => cs.foldl (fun (acc : Int × Int) c => Gen.C07.minMaxStep acc.1 acc.2 (r.value c)) acc)
              Gen.C07.minMaxInit) ∧
    (∀ {β : Type} (items : List β) (count : Int),
      minSlice items count =
        (if (Gen.C07.minSliceConds items.length count).headD false then .ok items
         else if count < 0 then .error "slice bounds out of range" else .ok (items.take count.toNat))) := by
  refine ⟨?_, ?_⟩
  · unfold Table.computeMinMaxWith Gen.C07.minMaxEmpty Gen.C07.minMaxInit Gen.C07.minMaxStep
    by_cases h : rs.length = 0 ∨ cs.length = 0
    · have : ((decide ((rs.length : Int) = 0)) || (decide ((cs.length : Int) = 0))) = true := by
        rcases h with h | h <;> simp [h]
      rw [if_pos h, if_pos this]
    · have : ¬ (((decide ((rs.length : Int) = 0)) || (decide ((cs.length : Int) = 0))) = true) := by
        simp only [Bool.or_eq_true, decide_eq_true_eq]; omega
      rw [if_neg h, if_neg this]
      simp only [decide_eq_true_eq]
  · intro β items count
    unfold minSlice Gen.C07.minSliceConds
    by_cases h : (items.length : Int) < count <;> simp [h]

/-- **Group keys and the part look-ups follow the source's conditions**: `buildGroupKey` tests the number of group
expressions for 0 and 1 in that order and its loop writes the separator before part `i` exactly when the source's
condition (`i > 0`) holds – seeded/C07-groupkey-leading-empty replaces it by `sb.Len() > 0`, which is not a condition
on `i` at all; `exprAccumulatorContext.GetMatch` runs its loop for `i < idx`, the sort context for `i <= idx`;
`Parts` is still the `""` test followed by `strings.Split`. -/
theorem groupkey_matches_source :
    (∀ (ctx : Ctx) (g : AccGroupDef) (rest : List AccGroupDef) (i : Nat) (sb : Bytes),
      joinGroupKey ctx (g :: rest) i sb =
        match g.expr.run ctx with
        | .error m => .error m
        | .ok v => joinGroupKey ctx rest (i + 1) ((if Gen.C07.groupKeySep i then sb ++ nul else sb) ++ v)) ∧
    (∀ (s : AccGroup) (ctx : Ctx), s.buildGroupKey ctx =
      if (Gen.C07.groupKeyArity s.groupDef.length).getD 0 false then .ok []
      else if (Gen.C07.groupKeyArity s.groupDef.length).getD 1 false then
        (match s.groupDef.head? with | some g => g.expr.run ctx | none => .ok [])
      else joinGroupKey ctx s.groupDef 0 []) ∧
    (∀ (i : Nat) (idx : Int), Gen.C07.accGetMatchLoop i idx = decide (i < idx.toNat)) ∧
    (∀ (i : Nat) (idx : Int), Gen.C07.sortGetMatchLoop i idx = (decide (0 ≤ idx) && decide (i < idx.toNat + 1))) ∧
    (∀ (idx : Int) (d : Bool), Gen.C07.accGetMatchConds idx d = [decide (idx = 0), d]) ∧
    (∀ d : Bool, Gen.C07.sortGetMatchConds d = [d]) ∧
    Gen.C07.partsSource = ["if s == \"\" {", "return make([]string, 0)", "}",
      "return strings.Split(string(s), expressions.ArraySeparatorString)"] := by
  refine ⟨?_, ?_, ?_, ?_, fun _ _ => rfl, fun _ => rfl, rfl⟩
  · intro ctx g rest i sb
    rw [joinGroupKey]
    have : Gen.C07.groupKeySep (i : Int) = decide (i > 0) := by
      unfold Gen.C07.groupKeySep; by_cases h : i > 0 <;> simp [h] <;> omega
    rw [this]
    cases g.expr.run ctx <;> simp
  · intro s ctx
    unfold AccGroup.buildGroupKey Gen.C07.groupKeyArity
    match s.groupDef with
    | [] => simp
    | [g] => simp
    | g :: g' :: r =>
      have h0 : ¬ ((r.length : Int) + 1 + 1 = 0) := by omega
      have h1 : ¬ ((r.length : Int) + 1 + 1 = 1) := by omega
      simp [h0, h1]
  · intro i idx
    unfold Gen.C07.accGetMatchLoop
    by_cases h : (i : Int) < idx <;> simp [h] <;> omega
  · intro i idx
    unfold Gen.C07.sortGetMatchLoop
    by_cases h : (i : Int) ≤ idx <;> simp [h] <;> omega

/-- **The `Sample` methods, `Trim` and the sub-key insertion are still the statements the model mirrors** (text of the
function bodies, statement by statement): the presence flag of `NextOk` decides between the explicit increment
(`strconv.ParseInt(…, 10, 64)`, a failure only counts an error) and the default increment 1 (seeded/C07-empty-increment
tests the value instead), `Trim` decides "column empty" from `removeAllInCol` (seeded/C07-trim-zero-col and C07-trim-zero-total test the
running total instead), a new sub-key is inserted before the first greater one and every row is widened at its index. -/
theorem sample_sources_match :
    Gen.C07.counterSampleSource = ["splitter := stringSplitter.Splitter{ S: element, Delim: expressions.ArraySeparatorString, }",
      "key := splitter.Next()", "val, hasVal := splitter.NextOk()", "if hasVal {", "valNum, err := strconv.ParseInt(val, 10, 64)",
      "if err != nil {", "s.errors++", "} else {", "s.SampleValue(key, valNum)", "}", "} else {", "s.SampleValue(key, 1)", "}"] ∧
    Gen.C07.subKeySampleSource = ["splitter := stringSplitter.Splitter{ S: element, Delim: expressions.ArraySeparatorString, }",
      "key := splitter.Next()", "subkey := splitter.Next()", "sVal, hasVal := splitter.NextOk()", "if hasVal {",
      "valNum, err := strconv.ParseInt(sVal, 10, 64)", "if err != nil {", "s.errors++", "} else {",
      "s.SampleValue(key, subkey, valNum)", "}", "} else {", "s.SampleValue(key, subkey, 1)", "}"] ∧
    Gen.C07.tableSampleSource = ["splitter := stringSplitter.Splitter{ S: ele, Delim: s.delim, }", "part0 := splitter.Next()",
      "part1, has1 := splitter.NextOk()", "part2, has2 := splitter.NextOk()", "if has2 {",
      "inc, err := strconv.ParseInt(part2, 10, 64)", "if err != nil {", "s.errors++", "} else {", "s.SampleItem(part0, part1, inc)", "}",
      "} else if has1 {", "s.SampleItem(part0, part1, 1)", "} else {", "s.SampleItem(part0, \"\", 1)", "}"] ∧
    Gen.C07.trimSource = ["trimmed := 0", "for colName := range s.cols {", "removeAllInCol := true",
      "for rowName, row := range s.rows {", "if val, hasCell := row.cols[colName]; hasCell {",
      "if predicate(colName, rowName, val) {", "delete(row.cols, colName)", "row.sum -= val", "s.cols[colName] -= val", "trimmed++",
      "} else {", "removeAllInCol = false", "}", "}", "if len(row.cols) == 0 {", "delete(s.rows, rowName)", "}", "}",
      "if removeAllInCol {", "delete(s.cols, colName)", "}", "}", "return trimmed"] ∧
    Gen.C07.subkeyIndexSource = ["if idx, ok := s.subKeyIdx[subkey]; !ok {", "s.subKeys, idx = insertAlphanumeric(s.subKeys, subkey)",
      "for i, name := range s.subKeys {", "s.subKeyIdx[name] = i", "}", "for _, item := range s.matches {",
      "item.submatches = insertAti64(item.submatches, idx, 0)", "}", "return idx", "} else {", "return idx", "}"] ∧
    Gen.C07.insertAlphanumericSource = ["for i, val := range slice {", "if ele < val {", "ret = insertAt(slice, i, ele)", "idx = i",
      "return", "}", "}", "idx = len(slice)", "ret = append(slice, ele)", "return"] :=
  ⟨rfl, rfl, rfl, rfl, rfl, rfl⟩

/-- **The aggregator is still the state machine the model runs** (`Model/C07NumHist.lean`): its state is the eight fields
below (no cached "already sorted" flag or other hidden state), `Samplef` appends the sample under `KeepValuesForAnalysis`
and nothing else touches `s.values`, `Sample` counts a parse error or calls `Samplef`, and `Analyze()` sorts `s.values`
unconditionally – ascending or reversed by `s.config.Reverse` – and returns the view `s.values[0:len(s.values)]`; a
`StatisticalAnalysis` is that one slice.  (seeded/C07-analyze-ordered-flag adds the field `ordered` and guards the sort.) -/
theorem analyze_machine_matches_source :
    Gen.C07.numericalFields = ["samples uint64", "mean float64", "variance float64", "min float64", "max float64",
      "parseErrors uint64", "values []float64", "config *NumericalConfig"] ∧
    Gen.C07.analysisFields = ["orderedValues []float64"] ∧
    Gen.C07.numericalConfigFields = ["Reverse bool", "KeepValuesForAnalysis bool"] ∧
    Gen.C07.samplefSource = ["s.samples++", "oldMean := s.mean", "s.mean += (val - oldMean) / float64(s.samples)",
      "s.variance += (val - oldMean) * (val - s.mean)", "if s.config.KeepValuesForAnalysis {", "s.values = append(s.values, val)", "}",
      "if val < s.min {", "s.min = val", "}", "if val > s.max {", "s.max = val", "}"] ∧
    Gen.C07.numSampleSource = ["val, err := strconv.ParseFloat(element, 64)", "if err != nil {", "s.parseErrors++", "} else {",
      "s.Samplef(val)", "}"] ∧
    Gen.C07.analyzeSource = ["if s.config.Reverse {", "sort.Sort(sort.Reverse(sort.Float64Slice(s.values)))", "} else {",
      "sort.Float64s(s.values)", "}", "out := &StatisticalAnalysis{ orderedValues: s.values[0:len(s.values)], }", "return out"] :=
  ⟨rfl, rfl, rfl, rfl, rfl, rfl⟩


end Rare.C07
