import Rare.Proofs.C03Csv
import Rare.Proofs.C03Comp
import Rare.Proofs.C03Det
import Rare.Proofs.C03Run
import Rare.Proofs.C03ReduceExpr
import Rare.Proofs.C03Analyze
import Rare.Proofs.C03Wiring
import Rare.Proofs.C03Spark
import Rare.Proofs.C03Cmd
import Rare.Proofs.C03SparkCsv
import Rare.Proofs.C03Sbv
import Rare.Proofs.C03SparkBy
import Rare.Gen.C03
import Rare.Props.C07
import Rare.Props.C13
/-!
# C03 – Final aggregates equal the reference aggregation, independent of parallelism

Composition of C01 (`pipeline_final_bytes`: every terminal state of the reader/worker/consumer system
carries the sequential multiset of matches), C05 (`final_render_after_last_sample`: the aggregation loop
has sampled exactly what it received), C02 (`fifo_reach`: one source + one worker ⇒ input order), C07
(`counter_perm`, `table_perm`, `subkey_perm`: the aggregators do not see the order of their history),
C13 (`sorted_unique`, `SortContract`: a strict total order leaves `sort.Sort` one possible answer) with
a model of `encoding/csv`'s Writer and an RFC 4180 reader.

`Terminal cls key cfg datas h` (Proofs/C03Comp): `h` is the complete sample history of the aggregator in
SOME terminal state of the program on the input files `datas` under tuning `cfg` (reader concurrency,
channel capacities, worker count, batch size, flush-timer behaviour), for SOME schedule.

Later sections: `rare reduce` on the `AccumulatingGroup` model of C07 (`Model/C03Reduce.lean`: set-up, the CSV
writer with its reused row buffer, the render script, exit status) – any accumulator for one source and one
worker, order-insensitive accumulators for any tuning, CSV round trip; `rare analyze` on the binary64 model of
`MatchNumerical` (`Model/C03Analyze.lean`) – everything it prints except `Mean:`/`StdDev:` is exactly order
independent, those two only in exact arithmetic (known finding F26 with a kernel-checked counterexample); the
wiring of all seven commands regenerated from the Go AST (`Gen/C03.lean`), with the CSV determinism theorems
instantiated for the sorter each writer names in the source.

Last section: the five counting commands' functions (`Model/C03Cmd.lean`: which rows the histogram shows, the footers,
`--csv`, exit status) – schedule independent as a whole, and `spark`'s CSV text under any placing of its trimming renders.

Not covered by a theorem (correspondence only, `extra/C03.py` / the in-process `cmd`, `reduce` and `analyze` ops):
`reduce` with ORDER-SENSITIVE accumulators over several sources (the pipeline LTS lets sources start in any order;
one source and one worker is covered); the drawing of rows, bars and heat cells (C14/C20) and the padding of the final
frame (F25, known finding: the snapshot is claimed modulo runs of spaces); the inferring sorters `numeric` (on mixed
keys), `contextual`, `date` of the render callbacks (C13, F19).  (`spark` with a value-ordered column sort depended on
render timing, F24: fixed by b216f7d – it no longer trims; `spark_value_trim_timing_counterexample` keeps the witness.)
-/
namespace Rare.C03
open Rare.C07 Rare.C13 Rare.Pipeline Rare.C01
open Rare.Expr (Stage Comp)

/-! ## CSV: reading back what the writer wrote -/

/-- For ALL rows of arbitrary byte strings in which every record has at least one field, the RFC 4180
reader returns exactly the rows that `encoding/csv`'s Writer (as rare configures it) wrote – whatever
the fields contain (`,`, `"`, CR, LF, CR LF, NUL, invalid UTF-8, leading blanks, `\.`).  A lone CR or a
CR LF inside a field is written raw inside quotes and read back unchanged. -/
theorem csv_roundtrip (rows : List (List Bytes)) (h : ∀ r ∈ rows, r ≠ []) : parseCsv (writeCsv rows) = rows :=
  roundtrip rows h

/-- The guard is exact: a record WITHOUT fields is written as an empty line, which reads back as a record
with one empty field (and a record with one empty field is written the same way – and reads back). -/
theorem csv_roundtrip_guard_exact :
    writeCsv [[]] = [10] ∧ writeCsv [[[]]] = [10] ∧ parseCsv [10] = [[[]]] ∧ parseCsv (writeCsv [[]]) ≠ [[]] := by
  refine ⟨rfl, rfl, by decide, by decide⟩

/-- What the writer does with the awkward fields: a lone CR, CR LF, `"`, `,`, a leading blank and `\.` are
quoted (only `"` is changed: doubled); a NUL byte, a trailing blank or a backslash alone are not. -/
theorem csv_writer_quoting :
    writeField [97, 13, 98] = [34, 97, 13, 98, 34] ∧ writeField [13, 10] = [34, 13, 10, 34] ∧
    writeField [34] = [34, 34, 34, 34] ∧ writeField [44] = [34, 44, 34] ∧ writeField [32, 97] = [34, 32, 97, 34] ∧
    writeField [92, 46] = [34, 92, 46, 34] ∧ writeField [0xC2, 0xA0, 97] = [34, 0xC2, 0xA0, 97, 34] ∧
    writeField [97, 0, 98] = [97, 0, 98] ∧ writeField [97, 32] = [97, 32] ∧ writeField [92] = [92] ∧ writeField [] = [] := by
  decide

/-! ## schedule independence of the final aggregator state -/

/-- Any two terminal states of pipeline + aggregation loop for the same files and command line – whatever
`--readers`, `--workers`, `--batch`, `--batch-buffer`, channel capacities, flush-timer behaviour and schedule –
have sample histories that are permutations of each other and of the sequential reference; hence the
histogram counter, the table (any non-empty delimiter) and the sub-key counter are in observably equal states. -/
theorem final_state_schedule_independent (cls : Line → Cls) (key : Line → Bytes) (datas : List Bytes)
    (cfg₁ cfg₂ : Config) (hW₁ : 1 ≤ cfg₁.W) (hW₂ : 1 ≤ cfg₂.W) (h₁ h₂ : List Bytes)
    (t₁ : Terminal cls key cfg₁ datas h₁) (t₂ : Terminal cls key cfg₂ datas h₂) :
    h₁.Perm h₂ ∧ h₁.Perm (refSamples cls key datas) ∧
    ((∀ k, aget (Counter.run h₁).items k = aget (Counter.run h₂).items k) ∧
      (Counter.run h₁).total = (Counter.run h₂).total ∧ (Counter.run h₁).errors = (Counter.run h₂).errors) ∧
    (∀ d : Bytes, d ≠ [] →
      (∀ c, aget (Table.run d h₁).cols c = aget (Table.run d h₂).cols c) ∧
      (∀ r, (aget (Table.run d h₁).rows r).isSome = (aget (Table.run d h₂).rows r).isSome) ∧
      (∀ r row1 row2, aget (Table.run d h₁).rows r = some row1 → aget (Table.run d h₂).rows r = some row2 →
        row1.name = row2.name ∧ row1.sum = row2.sum ∧ ∀ c, aget row1.cols c = aget row2.cols c) ∧
      (Table.run d h₁).sum = (Table.run d h₂).sum ∧ (Table.run d h₁).errors = (Table.run d h₂).errors ∧
      (Table.run d h₁).computeMinMax = (Table.run d h₂).computeMinMax) ∧
    (∃ s1 s2, SubKeyCounter.run h₁ = .ok s1 ∧ SubKeyCounter.run h₂ = .ok s2 ∧
      s1.subKeys = s2.subKeys ∧ s1.errors = s2.errors ∧
      (∀ k, (aget s1.items k).isSome = (aget s2.items k).isSome) ∧
      (∀ k it1 it2, aget s1.items k = some it1 → aget s2.items k = some it2 →
        it1.count = it2.count ∧ it1.submatches = it2.submatches)) := by
  have p1 := terminal_perm cls key cfg₁ hW₁ datas h₁ t₁
  have p2 := terminal_perm cls key cfg₂ hW₂ datas h₂ t₂
  have hp : h₁.Perm h₂ := p1.trans p2.symm
  exact ⟨hp, p1, C07.counter_perm h₁ h₂ hp, fun d hd => C07.table_perm d hd h₁ h₂ hp, C07.subkey_perm h₁ h₂ hp⟩

/-- One source (a file or stdin) and one worker: the sample history IS the sequential reference, in order, so
ANY accumulator `f` (e.g. `reduce` with order-sensitive expressions) ends in the reference state – for every
batch size, buffer size, timer behaviour and schedule. -/
theorem final_state_fifo_any_accumulator (cls : Line → Cls) (key : Line → Bytes) (data : Bytes)
    (cfg₁ cfg₂ : Config) (hW₁ : cfg₁.W = 1) (hW₂ : cfg₂.W = 1) (h₁ h₂ : List Bytes)
    (t₁ : Terminal cls key cfg₁ [data] h₁) (t₂ : Terminal cls key cfg₂ [data] h₂)
    {σ : Type} (f : σ → Bytes → σ) (init : σ) :
    h₁ = refSamples cls key [data] ∧ h₁.foldl f init = h₂.foldl f init ∧
    h₁.foldl f init = reference (fun l => if cls l = .matched then some (key l) else none) init f id [allLines [data]] := by
  have e1 := terminal_fifo cls key cfg₁ hW₁ data h₁ t₁
  have e2 := terminal_fifo cls key cfg₂ hW₂ data h₂ t₂
  refine ⟨e1, by rw [e1, e2], ?_⟩
  rw [e1]
  simp only [reference, refSamples, seqMatches, id, List.flatten_cons, List.flatten_nil, List.append_nil]
  congr 1
  generalize allLines [data] = ls
  induction ls with
  | nil => rfl
  | cons x xs ih =>
    by_cases hx : cls x = .matched
    · simp [isMatched, hx]; simpa [isMatched] using ih
    · simp [isMatched, hx]; simpa [isMatched] using ih

/-! ## dividing the lines among files -/

/-- When matching and key extraction look at the text of a line only (no `{src}`, no `{line}`): two sets of
files whose lines are, as a multiset, the same – the same lines cut into files differently, the files given in
another order – have the same multiset of reference samples (and by `final_state_schedule_independent` every
terminal state of either run is a permutation of it). -/
theorem file_split_invariance (clsT : Bytes → Cls) (keyT : Bytes → Bytes) (datas₁ datas₂ : List Bytes)
    (h : (datas₁.flatMap C04.splitLines).Perm (datas₂.flatMap C04.splitLines)) :
    (refSamples (fun l => clsT l.text) (fun l => keyT l.text) datas₁).Perm
      (refSamples (fun l => clsT l.text) (fun l => keyT l.text) datas₂) := by
  rw [refSamples_of_texts, refSamples_of_texts]
  exact (h.filter _).map _

/-- The hypothesis of `file_split_invariance` for files written line by line: ANY two ways `chunks₁`, `chunks₂`
of distributing the same multiset of clean lines over files (every line LF-terminated). -/
theorem file_split_lines (chunks₁ chunks₂ : List (List Bytes)) (hc₁ : ∀ c ∈ chunks₁, ∀ l ∈ c, CleanLine l)
    (hc₂ : ∀ c ∈ chunks₂, ∀ l ∈ c, CleanLine l) (h : chunks₁.flatten.Perm chunks₂.flatten) :
    ((chunks₁.map unlines).flatMap C04.splitLines).Perm ((chunks₂.map unlines).flatMap C04.splitLines) := by
  have e : ∀ chunks : List (List Bytes), (∀ c ∈ chunks, ∀ l ∈ c, CleanLine l) →
      (chunks.map unlines).flatMap C04.splitLines = chunks.flatten := by
    intro chunks hc
    induction chunks with
    | nil => rfl
    | cons c rest ih =>
      simp only [List.map_cons, List.flatMap_cons, List.flatten_cons]
      rw [splitLines_unlines c (hc c (by simp)), ih (fun x hx => hc x (by simp [hx]))]
  rw [e _ hc₁, e _ hc₂]
  exact h

/-! ## the CSV text is a function of the aggregator's observable state -/

/-- Histogram export: for every `sort.Sort` meeting its contract, every two map iteration orders and every
two counters with equal look-ups, the CSV text is the same, and it is the reference text. -/
theorem csv_of_state_deterministic (alg : List NV → Algo NV (List NV)) (hc : SortContract alg)
    (c₁ c₂ : Counter) (hobs : ∀ k, aget c₁.items k = aget c₂.items k)
    (o₁ o₂ : List Bytes) (r₁ : IsRangeOf o₁ c₁.items) (r₂ : IsRangeOf o₂ c₂.items) :
    writeCsv (counterCsvRows (sortOf alg) o₁ c₁) = writeCsv (counterCsvRows (sortOf alg) o₂ c₂) ∧
    counterCsvRows (sortOf alg) o₂ c₂ = counterCsvRows isortFn o₁ c₁ := by
  have hp : o₂.Perm o₁ := range_perm r₂ r₁ (fun k => by rw [hobs])
  have e1 := sorted_rows_eq alg hc nvValueLess nvValueLess_order o₁ o₁ (fun k => (aget c₁.items k).getD 0)
    (fun k => (aget c₁.items k).getD 0) r₁.1 (List.Perm.refl _) (fun _ _ => rfl)
  have e2 := sorted_rows_eq alg hc nvValueLess nvValueLess_order o₁ o₂ (fun k => (aget c₁.items k).getD 0)
    (fun k => (aget c₂.items k).getD 0) r₁.1 hp (fun k _ => by rw [hobs])
  simp only [counterCsvRows, counterRows, e1, e2, isortFn, and_self]

/-- Table export (table, heatmap, spark): same statement; `hobs` is what `table_perm` provides. -/
theorem csv_of_state_deterministic_table (alg : List NV → Algo NV (List NV)) (hc : SortContract alg)
    (t₁ t₂ : Table) (hcols : ∀ c, aget t₁.cols c = aget t₂.cols c)
    (hrows : ∀ r, (aget t₁.rows r).isSome = (aget t₂.rows r).isSome)
    (hcells : ∀ r row1 row2, aget t₁.rows r = some row1 → aget t₂.rows r = some row2 →
      row1.name = row2.name ∧ row1.sum = row2.sum ∧ ∀ c, aget row1.cols c = aget row2.cols c)
    (co₁ co₂ ro₁ ro₂ : List Bytes) (hco₁ : IsRangeOf co₁ t₁.cols) (hco₂ : IsRangeOf co₂ t₂.cols)
    (hro₁ : IsRangeOf ro₁ t₁.rows) (hro₂ : IsRangeOf ro₂ t₂.rows) :
    writeCsv (tableCsvRows (sortOf alg) co₁ ro₁ t₁) = writeCsv (tableCsvRows (sortOf alg) co₂ ro₂ t₂) ∧
    tableCsvRows (sortOf alg) co₂ ro₂ t₂ = tableCsvRows isortFn co₁ ro₁ t₁ := by
  have hct : t₁.colTotal = t₂.colTotal := by funext c; simp [Table.colTotal, hcols]
  have hrow : ∀ r, (aget t₁.rows r).map (·.sum) = (aget t₂.rows r).map (·.sum) ∧
      ∀ c, (aget t₁.rows r).map (·.value c) = (aget t₂.rows r).map (·.value c) := by
    intro r
    have := hrows r
    cases h1 : aget t₁.rows r with
    | none => rw [h1] at this; cases h2 : aget t₂.rows r with
      | none => simp
      | some _ => rw [h2] at this; cases this
    | some row1 => rw [h1] at this; cases h2 : aget t₂.rows r with
      | none => rw [h2] at this; cases this
      | some row2 =>
        obtain ⟨_, hs, hv⟩ := hcells r row1 row2 h1 h2
        simp [hs, TableRow.value, hv]
  have hsum : (fun r => ((aget t₁.rows r).map (·.sum)).getD 0) = fun r => ((aget t₂.rows r).map (·.sum)).getD 0 := by
    funext r; rw [(hrow r).1]
  have hcell : (fun r c => ((aget t₁.rows r).map (·.value c)).getD 0) = fun r c => ((aget t₂.rows r).map (·.value c)).getD 0 := by
    funext r c; rw [(hrow r).2 c]
  have pc : co₂.Perm co₁ := range_perm hco₂ hco₁ (fun k => by rw [hcols])
  have pr : ro₂.Perm ro₁ := range_perm hro₂ hro₁ (fun k => (hrows k).symm)
  have c1 := sorted_rows_eq alg hc nvNameLess nvNameLess_order co₁ co₁ t₁.colTotal t₁.colTotal hco₁.1 (List.Perm.refl _) (fun _ _ => rfl)
  have c2 := sorted_rows_eq alg hc nvNameLess nvNameLess_order co₁ co₂ t₁.colTotal t₁.colTotal hco₁.1 pc (fun _ _ => rfl)
  have w1 := sorted_rows_eq alg hc nvNameLess nvNameLess_order ro₁ ro₁ (fun r => ((aget t₁.rows r).map (·.sum)).getD 0)
    (fun r => ((aget t₁.rows r).map (·.sum)).getD 0) hro₁.1 (List.Perm.refl _) (fun _ _ => rfl)
  have w2 := sorted_rows_eq alg hc nvNameLess nvNameLess_order ro₁ ro₂ (fun r => ((aget t₁.rows r).map (·.sum)).getD 0)
    (fun r => ((aget t₁.rows r).map (·.sum)).getD 0) hro₁.1 pr (fun _ _ => rfl)
  unfold tableCsvRows
  rw [← hct, ← hsum, ← hcell]
  simp only [tableRows, c1, c2, w1, w2, isortFn, and_self]

/-- Bar-graph export: same statement; `hobs` is what `subkey_perm` provides. -/
theorem csv_of_state_deterministic_subkey (alg : List NV → Algo NV (List NV)) (hc : SortContract alg)
    (s₁ s₂ : SubKeyCounter) (hk : s₁.subKeys = s₂.subKeys)
    (hpres : ∀ k, (aget s₁.items k).isSome = (aget s₂.items k).isSome)
    (hitems : ∀ k it1 it2, aget s₁.items k = some it1 → aget s₂.items k = some it2 →
      it1.count = it2.count ∧ it1.submatches = it2.submatches)
    (o₁ o₂ : List Bytes) (r₁ : IsRangeOf o₁ s₁.items) (r₂ : IsRangeOf o₂ s₂.items) :
    writeCsv (subKeyCsvRows (sortOf alg) o₁ s₁) = writeCsv (subKeyCsvRows (sortOf alg) o₂ s₂) ∧
    subKeyCsvRows (sortOf alg) o₂ s₂ = subKeyCsvRows isortFn o₁ s₁ := by
  have hit : ∀ k, (aget s₁.items k).map (·.count) = (aget s₂.items k).map (·.count) ∧
      (aget s₁.items k).map (·.submatches) = (aget s₂.items k).map (·.submatches) := by
    intro k
    have := hpres k
    cases h1 : aget s₁.items k with
    | none => rw [h1] at this; cases h2 : aget s₂.items k with
      | none => simp
      | some _ => rw [h2] at this; cases this
    | some it1 => rw [h1] at this; cases h2 : aget s₂.items k with
      | none => rw [h2] at this; cases this
      | some it2 =>
        obtain ⟨a, b⟩ := hitems k it1 it2 h1 h2
        simp [a, b]
  have hp : o₂.Perm o₁ := range_perm r₂ r₁ (fun k => (hpres k).symm)
  have e1 := sorted_rows_eq alg hc nvNameLess nvNameLess_order o₁ o₁ (fun k => ((aget s₁.items k).map (·.count)).getD 0)
    (fun k => ((aget s₁.items k).map (·.count)).getD 0) r₁.1 (List.Perm.refl _) (fun _ _ => rfl)
  have e2 := sorted_rows_eq alg hc nvNameLess nvNameLess_order o₁ o₂ (fun k => ((aget s₁.items k).map (·.count)).getD 0)
    (fun k => ((aget s₂.items k).map (·.count)).getD 0) r₁.1 hp (fun k _ => by rw [(hit k).1])
  have hv : ∀ k, ((aget s₂.items k).map (·.submatches)).getD [] = ((aget s₁.items k).map (·.submatches)).getD [] :=
    fun k => by rw [(hit k).2]
  simp only [subKeyCsvRows, subCounterRows, e1, e2, isortFn, hv, hk, and_self]

/-- End to end for the histogram: two terminal states of the whole program for the same files and command
line, under any tuning, any schedule, any `sort.Sort` meeting its contract and any map iteration orders,
export the same CSV text, and re-reading it gives the reference rows (header, then `key,count` by descending
count then key). -/
theorem histo_csv_schedule_independent (cls : Line → Cls) (key : Line → Bytes) (datas : List Bytes)
    (cfg₁ cfg₂ : Config) (hW₁ : 1 ≤ cfg₁.W) (hW₂ : 1 ≤ cfg₂.W) (h₁ h₂ : List Bytes)
    (t₁ : Terminal cls key cfg₁ datas h₁) (t₂ : Terminal cls key cfg₂ datas h₂)
    (alg : List NV → Algo NV (List NV)) (hc : SortContract alg) (o₁ o₂ oref : List Bytes)
    (r₁ : IsRangeOf o₁ (Counter.run h₁).items) (r₂ : IsRangeOf o₂ (Counter.run h₂).items)
    (rr : IsRangeOf oref (Counter.run (refSamples cls key datas)).items) :
    writeCsv (counterCsvRows (sortOf alg) o₁ (Counter.run h₁)) = writeCsv (counterCsvRows (sortOf alg) o₂ (Counter.run h₂)) ∧
    parseCsv (writeCsv (counterCsvRows (sortOf alg) o₁ (Counter.run h₁))) =
      counterCsvRows isortFn oref (Counter.run (refSamples cls key datas)) := by
  have p1 := terminal_perm cls key cfg₁ hW₁ datas h₁ t₁
  have p2 := terminal_perm cls key cfg₂ hW₂ datas h₂ t₂
  have hobs := (C07.counter_perm h₁ h₂ (p1.trans p2.symm)).1
  have hobsr := (C07.counter_perm (refSamples cls key datas) h₁ p1.symm).1
  refine ⟨(csv_of_state_deterministic alg hc _ _ hobs o₁ o₂ r₁ r₂).1, ?_⟩
  rw [csv_roundtrip _ (by intro r hr; simp [counterCsvRows, counterRows] at hr; rcases hr with rfl | ⟨_, _, rfl⟩ <;> simp)]
  exact (csv_of_state_deterministic alg hc _ _ hobsr oref o₁ rr r₁).2

/-- End to end for `table` / `heatmap` (and `spark` whenever nothing is trimmed: `--notruncate`, a value-ordered
column sort, or no more columns than `--cols`): two terminal states of the whole program for the same files and
command line, under any tuning, schedule, contract-abiding `sort.Sort` and map iteration orders, export the same CSV
text; re-reading it gives the rows of the sequential reference. -/
theorem table_csv_schedule_independent (cls : Line → Cls) (key : Line → Bytes) (datas : List Bytes) (d : Bytes) (hd : d ≠ [])
    (cfg₁ cfg₂ : Config) (hW₁ : 1 ≤ cfg₁.W) (hW₂ : 1 ≤ cfg₂.W) (h₁ h₂ : List Bytes)
    (t₁ : Terminal cls key cfg₁ datas h₁) (t₂ : Terminal cls key cfg₂ datas h₂)
    (alg : List NV → Algo NV (List NV)) (hc : SortContract alg) (co₁ co₂ ro₁ ro₂ coref roref : List Bytes)
    (hco₁ : IsRangeOf co₁ (Table.run d h₁).cols) (hco₂ : IsRangeOf co₂ (Table.run d h₂).cols)
    (hro₁ : IsRangeOf ro₁ (Table.run d h₁).rows) (hro₂ : IsRangeOf ro₂ (Table.run d h₂).rows)
    (hcor : IsRangeOf coref (Table.run d (refSamples cls key datas)).cols)
    (hror : IsRangeOf roref (Table.run d (refSamples cls key datas)).rows) :
    writeCsv (tableCsvRows (sortOf alg) co₁ ro₁ (Table.run d h₁)) = writeCsv (tableCsvRows (sortOf alg) co₂ ro₂ (Table.run d h₂)) ∧
    parseCsv (writeCsv (tableCsvRows (sortOf alg) co₁ ro₁ (Table.run d h₁))) =
      tableCsvRows isortFn coref roref (Table.run d (refSamples cls key datas)) := by
  have p1 := terminal_perm cls key cfg₁ hW₁ datas h₁ t₁
  have p2 := terminal_perm cls key cfg₂ hW₂ datas h₂ t₂
  obtain ⟨a1, a2, a3, _⟩ := C07.table_perm d hd h₁ h₂ (p1.trans p2.symm)
  obtain ⟨b1, b2, b3, _⟩ := C07.table_perm d hd (refSamples cls key datas) h₁ p1.symm
  refine ⟨(csv_of_state_deterministic_table alg hc _ _ a1 a2 a3 co₁ co₂ ro₁ ro₂ hco₁ hco₂ hro₁ hro₂).1, ?_⟩
  rw [csv_roundtrip _ (by intro r hr; simp [tableCsvRows, tableRows] at hr; rcases hr with rfl | ⟨_, _, rfl⟩ <;> simp)]
  exact (csv_of_state_deterministic_table alg hc _ _ b1 b2 b3 coref co₁ roref ro₁ hcor hco₁ hror hro₁).2

/-- End to end for `bargraph`: same statement for the sub-key counter (a history the aggregator accepts at all:
`SubKeyCounter.run` is `.ok` – it is for every history, see C07). -/
theorem bargraph_csv_schedule_independent (cls : Line → Cls) (key : Line → Bytes) (datas : List Bytes)
    (cfg₁ cfg₂ : Config) (hW₁ : 1 ≤ cfg₁.W) (hW₂ : 1 ≤ cfg₂.W) (h₁ h₂ : List Bytes)
    (t₁ : Terminal cls key cfg₁ datas h₁) (t₂ : Terminal cls key cfg₂ datas h₂)
    (alg : List NV → Algo NV (List NV)) (hc : SortContract alg) :
    ∃ s₁ s₂ sr, SubKeyCounter.run h₁ = .ok s₁ ∧ SubKeyCounter.run h₂ = .ok s₂ ∧
      SubKeyCounter.run (refSamples cls key datas) = .ok sr ∧
      ∀ o₁ o₂ oref, IsRangeOf o₁ s₁.items → IsRangeOf o₂ s₂.items → IsRangeOf oref sr.items →
        writeCsv (subKeyCsvRows (sortOf alg) o₁ s₁) = writeCsv (subKeyCsvRows (sortOf alg) o₂ s₂) ∧
        parseCsv (writeCsv (subKeyCsvRows (sortOf alg) o₁ s₁)) = subKeyCsvRows isortFn oref sr := by
  have p1 := terminal_perm cls key cfg₁ hW₁ datas h₁ t₁
  have p2 := terminal_perm cls key cfg₂ hW₂ datas h₂ t₂
  obtain ⟨s₁, s₂, e1, e2, a1, _, a2, a3⟩ := C07.subkey_perm h₁ h₂ (p1.trans p2.symm)
  obtain ⟨sr, s₁', e3, e1', b1, _, b2, b3⟩ := C07.subkey_perm (refSamples cls key datas) h₁ p1.symm
  rw [e1] at e1'; cases e1'
  refine ⟨s₁, s₂, sr, e1, e2, e3, ?_⟩
  intro o₁ o₂ oref r₁ r₂ rr
  refine ⟨(csv_of_state_deterministic_subkey alg hc _ _ a1 a2 a3 o₁ o₂ r₁ r₂).1, ?_⟩
  rw [csv_roundtrip _ (by intro r hr; simp [subKeyCsvRows, subCounterRows] at hr; rcases hr with rfl | ⟨_, _, rfl⟩ <;> simp)]
  exact (csv_of_state_deterministic_subkey alg hc _ _ b1 b2 b3 oref o₁ rr r₁).2

/-! ## `rare spark`: the trim inside every render

`cmd/spark.go` trims, in every periodic render and in the final one, the columns outside the last `--cols` of
`OrderedColumns(colSorter)` (since b216f7d only for column orders that look at the names; a value-ordered sort never
trims, so `table_csv_schedule_independent` covers it).  `SparkReach lt n d h t`: `t` is the aggregator after SOME
interleaving of the samples `h` with render steps, each using any arrangement `s` of the current column names that is
sorted by the name order `lt` and any map iteration orders. -/

/-- The final table of `spark` does not depend on where the renders fell: whatever the interleaving, after the final
render the aggregator has the cells, rows, columns and parse-error count of ONE render step applied to the
sequentially sampled table – for every strict total order on column names, every `--cols`, every delimiter. -/
theorem spark_trim_any_render_schedule {lt : Bytes → Bytes → Bool} (ho : NameOrder lt) (n : Nat) (d : Bytes) (hd : d ≠ [])
    (h : List Bytes) (t : Table) (hr : SparkReach lt n d h t)
    (st co : List Bytes) (ro : Bytes → List Bytes) (hst : IsSortedCols lt t st) (hcov : Covers t co ro)
    (sF coF : List Bytes) (roF : Bytes → List Bytes) (hsF : IsSortedCols lt (Table.run d h) sF)
    (hcovF : Covers (Table.run d h) coF roF) :
    (∀ c r, (renderStep n t st co ro).cell c r = (renderStep n (Table.run d h) sF coF roF).cell c r) ∧
    (∀ r, (aget (renderStep n t st co ro).rows r).isSome = (aget (renderStep n (Table.run d h) sF coF roF).rows r).isSome) ∧
    (∀ c, (aget (renderStep n t st co ro).cols c).isSome = (aget (renderStep n (Table.run d h) sF coF roF).cols c).isSome) ∧
    (renderStep n t st co ro).errors = (renderStep n (Table.run d h) sF coF roF).errors :=
  let ⟨a, b, c, e, _, _⟩ := spark_final ho n d hd h t hr st co ro hst hcov sF coF roF hsF hcovF
  ⟨a, b, c, e⟩

/-- The same for the executable model the correspondence runs (`tbl` op: the real `TableAggregator` driven through
the same script): `sparkRun` over any script of samples and renders, then the final render, against one `sparkTrim`
of the sequential table.  In particular a row that a render emptied and that is sampled again right afterwards
counts like a fresh row. -/
theorem spark_model_render_timing_independent (n : Nat) (d : Bytes) (hd : d ≠ []) (evs : List SparkEv) :
    let tf := sparkTrim n (sparkRun n d evs)
    let rf := sparkTrim n (Table.run d (sparkSamples evs))
    (∀ c r, tf.cell c r = rf.cell c r) ∧ (∀ r, (aget tf.rows r).isSome = (aget rf.rows r).isSome) ∧
    (∀ c, (aget tf.cols c).isSome = (aget rf.cols c).isSome) ∧ tf.errors = rf.errors := by
  obtain ⟨hr, hn⟩ := sparkRun_reach n d evs
  have hnF := (C07.tableInv_run d hd (sparkSamples evs)).nodupCols
  simp only [sparkTrim_eq]
  exact spark_trim_any_render_schedule bytesLt_nameOrder n d hd _ _ hr _ _ _ (sparkCols_sorted _ hn) (covers_self _)
    _ _ _ (sparkCols_sorted _ hnF) (covers_self _)

/-- A render step keeps exactly the columns with fewer than `--cols` columns after them, cell values unchanged. -/
theorem spark_render_keeps_last_columns {lt : Bytes → Bytes → Bool} (ho : NameOrder lt) (n : Nat) (t : Table) (s co : List Bytes)
    (ro : Bytes → List Bytes) (hwf : t.WF) (hs : IsSortedCols lt t s) (hcov : Covers t co ro) (c r : Bytes) :
    (renderStep n t s co ro).cell c r = if above lt (akeys t.cols) c < n then t.cell c r else none :=
  render_cells ho n t s co ro hwf hs hcov c r

/-- F24 (before b216f7d), kernel-checked on the model: with a VALUE-ordered trim the result depends on where the render
falls.  Columns a, b, c with a a a b | b b b b c, `--cols 1`, ascending by column total: trimming after the fourth
sample drops column b's first count. -/
theorem spark_value_trim_timing_counterexample :
    let valueTrim (t : Table) : Table :=
      let cols := (isort (fun a b : NV => decide (a.value < b.value) || (a.value == b.value && bytesLt a.name b.name))
        ((akeys t.cols).map fun c => (⟨c, t.colTotal c⟩ : NV))).map (·.name)
      if cols.length > 1 then
        (t.trim (renderPred (cols.drop (cols.length - 1))) (akeys t.cols) (fun _ => akeys t.rows)).1 else t
    let a : Bytes := [97, 0, 114]
    let b : Bytes := [98, 0, 114]
    let c : Bytes := [99, 0, 114]
    (valueTrim (Table.run [0] [a, a, a, b, b, b, b, b, c])).cell [98] [114] = some 5 ∧
    (valueTrim ([b, b, b, b, c].foldl Table.sample (valueTrim (Table.run [0] [a, a, a, b])))).cell [98] [114] = some 4 := by
  decide +kernel

/-! ## exit status -/

/-- `DetermineErrorState`, every case: read errors ⇒ 2; else parse errors of a present aggregator ⇒ 2; else no
matched line ⇒ 1; else 0.  It is the specified exit status when an aggregator is present. -/
theorem exit_code_table (readErrors : Int) (aggNil : Bool) (parseErrors matched : Nat) :
    (0 < readErrors → determineErrorState readErrors aggNil parseErrors matched = 2) ∧
    (readErrors ≤ 0 → aggNil = false → 0 < parseErrors → determineErrorState readErrors aggNil parseErrors matched = 2) ∧
    (readErrors ≤ 0 → (aggNil = true ∨ parseErrors = 0) → matched = 0 → determineErrorState readErrors aggNil parseErrors matched = 1) ∧
    (readErrors ≤ 0 → (aggNil = true ∨ parseErrors = 0) → 0 < matched → determineErrorState readErrors aggNil parseErrors matched = 0) ∧
    (aggNil = false → determineErrorState readErrors aggNil parseErrors matched = exitStatus readErrors.toNat parseErrors matched) := by
  unfold determineErrorState exitStatus
  refine ⟨?_, ?_, ?_, ?_, ?_⟩
  · intro h; simp [h]
  · intro h1 h2 h3; subst h2; have : ¬ readErrors > 0 := by omega
    simp [this, h3]
  · intro h1 h2 h3; have : ¬ readErrors > 0 := by omega
    rcases h2 with h2 | h2 <;> simp [this, h2, h3]
  · intro h1 h2 h3; have : ¬ readErrors > 0 := by omega
    have h4 : matched ≠ 0 := by omega
    rcases h2 with h2 | h2 <;> simp [this, h2, h4]
  · intro h; subst h
    by_cases hr : readErrors > 0
    · have : readErrors.toNat > 0 := by omega
      simp [hr, this]
    · have : ¬ readErrors.toNat > 0 := by omega
      simp [hr, this]

/-- The exit status of a run is therefore a function of the corpus and the command line: the counters it is
computed from are the same in every terminal state (`pipeline_final_bytes`: matched lines; `*_perm`: parse errors). -/
theorem exit_status_schedule_independent (cls : Line → Cls) (key : Line → Bytes) (datas : List Bytes)
    (cfg₁ cfg₂ : Config) (hW₁ : 1 ≤ cfg₁.W) (hW₂ : 1 ≤ cfg₂.W) (h₁ h₂ : List Bytes)
    (t₁ : Terminal cls key cfg₁ datas h₁) (t₂ : Terminal cls key cfg₂ datas h₂) (readErrors : Int) :
    determineErrorState readErrors false (Counter.run h₁).errors h₁.length =
      determineErrorState readErrors false (Counter.run h₂).errors h₂.length := by
  have p1 := terminal_perm cls key cfg₁ hW₁ datas h₁ t₁
  have p2 := terminal_perm cls key cfg₂ hW₂ datas h₂ t₂
  have hp := p1.trans p2.symm
  rw [(C07.counter_perm h₁ h₂ hp).2.2, hp.length_eq]

/-! ## non-vacuity -/

/-- the aggregation loop can run to its end on any single batch (so `Terminal` below is inhabited) -/
theorem aggloop_runs (b : List Bytes) :
    ∃ a : AggLoop.St Bytes, AggLoop.Reach (AggLoop.init [b]) a ∧ a.main = .finished ∧ a.sampled = b := by
  have sample_all : ∀ (xs : List Bytes) (s : AggLoop.St Bytes), s.main = .sampling xs →
      AggLoop.Reach (AggLoop.init [b]) s →
      ∃ s', AggLoop.Reach (AggLoop.init [b]) s' ∧ s'.main = .sampling [] ∧ s'.sampled = s.sampled ++ xs ∧
        s'.rc = s.rc ∧ s'.rcClosed = s.rcClosed ∧ s'.ticker = s.ticker := by
    intro xs
    induction xs with
    | nil => intro s hm hr; exact ⟨s, hr, hm, by simp, rfl, rfl, rfl⟩
    | cons x xs ih =>
      intro s hm hr
      obtain ⟨s', h1, h2, h3, h4, h5, h6⟩ := ih _ rfl (.step hr (.sample s x xs hm))
      exact ⟨s', h1, h2, by simpa [List.append_assoc] using h3, h4, h5, h6⟩
  have hr : AggLoop.Reach (AggLoop.init [b]) _ :=
    .step (.step (.step (.step (.refl (s0 := AggLoop.init [b])) (.arrive _ b [] rfl)) (.close _ rfl rfl))
      (.recv _ b [] rfl rfl)) (.mlock _ b rfl rfl)
  obtain ⟨s', h1, h2, h3, h4, h5, h6⟩ := sample_all b _ rfl hr
  have hr2 : AggLoop.Reach (AggLoop.init [b]) _ :=
    .step (.step (.step (.step h1 (.munlock s' h2)) (.eof _ rfl h4 h5)) (.handshake _ rfl h6)) (.final _ rfl)
  exact ⟨_, hr2, rfl, by simpa [AggLoop.init] using h3⟩

def exCfg : Config := ⟨2, 1, 5, 3, 2, fun _ n => n % 2 = 0⟩
def exCls (l : Line) : Cls := if l.text.contains 120 then .unmatched else .matched
/-- two files, `a\nx\n"b,\n` and `a\n` -/
def exData : List Bytes := [[97, 10, 120, 10, 34, 98, 44, 10], [97, 10]]

/-- `Terminal` is inhabited for a concrete corpus of two files, three workers, two readers, batch size 2 –
and every such terminal history is a permutation of the reference `["a", "\"b,", "a"]`. -/
example : ∃ h, Terminal exCls (·.text) exCfg exData h ∧ h.Perm [[97], [34, 98, 44], [97]] := by
  obtain ⟨s, hr, hd⟩ := C01.pipeline_reaches_end exCls (R := exCfg.R) (B := exCfg.B) (K := exCfg.K)
    (by decide) (by decide) (by decide) _ (pipelineInit exCfg exData) _ .refl (Nat.le_refl _)
  obtain ⟨a, ha, hf, hs⟩ := aggloop_runs (s.consumed.map (·.text))
  have ht : Terminal exCls (·.text) exCfg exData a.sampled := ⟨s, [s.consumed.map (·.text)], a, hr, hd, by simp, ha, hf, rfl⟩
  refine ⟨_, ht, ?_⟩
  have := terminal_perm exCls (·.text) exCfg (by decide) exData _ ht
  have e : refSamples exCls (·.text) exData = [[97], [34, 98, 44], [97]] := by decide
  rwa [e] at this

/-- the reference CSV of that corpus, `group,value⏎a,2⏎"""b,",1⏎`: the key `"b,` needs quoting, and reads back -/
example : refCounterCsv [[97], [34, 98, 44], [97]] =
      hdrGroup ++ [44] ++ hdrValue ++ [10, 97, 44, 50, 10, 34, 34, 34, 98, 44, 34, 44, 49, 10] ∧
    parseCsv (refCounterCsv [[97], [34, 98, 44], [97]]) = [[hdrGroup, hdrValue], [[97], [50]], [[34, 98, 44], [49]]] := by
  decide

/-- the hypotheses of `csv_roundtrip`, `csv_of_state_deterministic`, `file_split_lines` on concrete values -/
example : ∀ r ∈ ([[[44, 34], [13], []], [[10, 13, 10]]] : List (List Bytes)), r ≠ [] := by decide
example : IsRangeOf [[98], [97]] (Counter.run [[97], [98], [97]]).items := by
  refine ⟨by decide, fun k => ?_⟩
  have : (Counter.run [[97], [98], [97]]).items = [([97], 2), ([98], 1)] := by decide
  rw [this]
  simp only [List.mem_cons, List.not_mem_nil, or_false, aget]
  by_cases h1 : ([97] : Bytes) = k <;> by_cases h2 : ([98] : Bytes) = k <;> simp_all [eq_comm]
example : SortContract (isortA (α := NV)) := C13.sort_contract_satisfiable
example : CleanLine [97, 13, 98] ∧ ¬ CleanLine [97, 13] := by
  refine ⟨⟨by decide, by decide⟩, fun h => h.2 (by decide)⟩
example : ([[[97], [98]], [[99]]] : List (List Bytes)).flatten.Perm ([[[99], [97]], [], [[98]]] : List (List Bytes)).flatten := by
  decide

/-! ## `rare reduce` -/

/-- "any accumulator with one reader and one worker".  For EVERY accumulating group `s0` (any group, accumulator
and sort definitions – order-sensitive ones included, e.g. `last={2}` or `cat={.}{3}`), one source and one worker:
whatever batch size, channel depths, flush-timer behaviour and schedule, the sample history is the input order
(C02 `fifo_order`), so the run is refused (an expression panics) in both cases or accepted in both with THE SAME
aggregator; and the complete result of `rare reduce` – final render, `--csv` text, exit status – is the same for
every order in which Go ranges over the map.  `less` is the pure comparison the render callback's sorter denotes
(`ByContextual()` is one under C13 `contextual_partial`); `--sort-reverse` (`Reverse` = `!less a b`, not a strict
order) is covered: on the distinct keys of a map it sorts like the flipped order (`groupsWith_reverse`). -/
theorem reduce_fifo_deterministic (cls : Line → Cls) (key : Line → Bytes) (data : Bytes)
    (cfg₁ cfg₂ : Config) (hW₁ : cfg₁.W = 1) (hW₂ : cfg₂.W = 1) (h₁ h₂ : List Bytes) (c₁ c₂ : Counters)
    (t₁ : TerminalC cls key cfg₁ [data] h₁ c₁) (t₂ : TerminalC cls key cfg₂ [data] h₂ c₂)
    (a : ReduceArgs) (maxKeylen : Nat) (s0 : AccGroup) (h0 : AccReach s0)
    (less : Bytes → Bytes → Bool) (hlt : C07.StrictTotal less)
    (ord₁ ord₂ : AccGroup → List Bytes) (hord₁ : ∀ s, AccReach s → IsRangeOf (ord₁ s) s.data) (hord₂ : ∀ s, AccReach s → IsRangeOf (ord₂ s) s.data)
    (readErrors : Int) :
    h₁ = refSamples cls key [data] ∧ h₂ = h₁ ∧ c₁ = refCounters cls [data] ∧ c₂ = c₁ ∧ s0.run h₁ = s0.run h₂ ∧
    SameOutcome (reduceRun a maxKeylen s0 less h₁ ord₁ c₁ readErrors)
      (reduceRun a maxKeylen s0 less h₂ ord₂ c₂ readErrors) := by
  have e1 := terminal_fifo cls key cfg₁ hW₁ data h₁ t₁.terminal
  have e2 := terminal_fifo cls key cfg₂ hW₂ data h₂ t₂.terminal
  have k1 := terminalC_counters (by omega) t₁
  have k2 := terminalC_counters (by omega) t₂
  have eh : h₂ = h₁ := e2.trans e1.symm
  have ec : c₂ = c₁ := k2.trans k1.symm
  refine ⟨e1, eh, k1, ec, by rw [eh], ?_⟩
  subst eh ec
  apply reduceRun_sameOutcome a maxKeylen s0 less hlt h₂ h₂ _ ord₁ ord₂ hord₁ hord₂
  cases hr : s0.run h₂ with
  | error m => exact Or.inl ⟨m, m, rfl, rfl⟩
  | ok s => exact Or.inr ⟨s, s, rfl, rfl, ObsEq.refl s, reach_run h0 h₂ hr, reach_run h0 h₂ hr⟩

/-- Order-insensitive accumulators, ANY number of readers and workers, any number of files.  Hypothesis on the
compiled accumulator expressions (`RowComm`): two consecutive samples of one group can be exchanged – the row
ends up the same (or the same panic).  Then two terminal states of the whole program under any two tunings and
schedules, both accepted, hold aggregators that answer every accessor alike (each group's row is the fold over
the group's sub-multiset of samples: `accgroup_group_history` ∘ `pipeline_final`), and the complete result of
`rare reduce` is the same. -/
theorem reduce_commutative_schedule_independent (cls : Line → Cls) (key : Line → Bytes) (datas : List Bytes)
    (cfg₁ cfg₂ : Config) (hW₁ : 1 ≤ cfg₁.W) (hW₂ : 1 ≤ cfg₂.W) (h₁ h₂ : List Bytes) (c₁ c₂ : Counters)
    (t₁ : TerminalC cls key cfg₁ datas h₁ c₁) (t₂ : TerminalC cls key cfg₂ datas h₂ c₂)
    (a : ReduceArgs) (maxKeylen : Nat) (s0 : AccGroup) (h0 : AccReach s0) (hempty : s0.data = [])
    (hcomm : RowComm s0.specCols)
    (s₁ s₂ : AccGroup) (r₁ : s0.run h₁ = .ok s₁) (r₂ : s0.run h₂ = .ok s₂)
    (less : Bytes → Bytes → Bool) (hlt : C07.StrictTotal less)
    (ord₁ ord₂ : AccGroup → List Bytes) (hord₁ : ∀ s, AccReach s → IsRangeOf (ord₁ s) s.data) (hord₂ : ∀ s, AccReach s → IsRangeOf (ord₂ s) s.data)
    (readErrors : Int) :
    h₁.Perm h₂ ∧ c₁ = refCounters cls datas ∧ c₂ = c₁ ∧
    (∀ k, aget s₁.data k = aget s₂.data k) ∧ SameDefs s₁ s₂ ∧
    SameOutcome (reduceRun a maxKeylen s0 less h₁ ord₁ c₁ readErrors)
      (reduceRun a maxKeylen s0 less h₂ ord₂ c₂ readErrors) := by
  have p1 := terminal_perm cls key cfg₁ hW₁ datas h₁ t₁.terminal
  have p2 := terminal_perm cls key cfg₂ hW₂ datas h₂ t₂.terminal
  have hp : h₁.Perm h₂ := p1.trans p2.symm
  have k1 := terminalC_counters hW₁ t₁
  have k2 := terminalC_counters hW₂ t₂
  have ec : c₂ = c₁ := k2.trans k1.symm
  have ho := run_perm_obsEq s0 s₁ s₂ h0 hempty hcomm hp r₁ r₂
  refine ⟨hp, k1, ec, ho.2, ho.1, ?_⟩
  subst ec
  exact reduceRun_sameOutcome a maxKeylen s0 less hlt h₁ h₂
    (Or.inr ⟨s₁, s₂, r₁, r₂, ho, reach_run h0 h₁ r₁, reach_run h0 h₂ r₂⟩) ord₁ ord₂ hord₁ hord₂ c₂ readErrors

/-- The algebraic hypothesis for the accumulators people write.  A column that reads only its own accumulator
`{.}` and the sampled element, cannot panic, and whose update right-commutes (`CommCol`) – in particular the stages
the modelled builders return for `{sumi {.} {i}}`, `{maxi {.} {i}}`, `{mini {.} {i}}` and the counter `{sumi {.} n}` –
gives `RowComm`, for any number of such columns. -/
theorem reduce_commutative_accumulators :
    (∀ cols : List SCol, (∀ c ∈ cols, CommCol c) → RowComm cols) ∧
    (∀ name initial i, CommCol (AccDataDef.toSpec ⟨name, foldDotMatch Rare.Expr.Funcs.Arith.opSum i, initial⟩)) ∧
    (∀ name initial i, CommCol (AccDataDef.toSpec ⟨name, foldDotMatch Rare.Expr.Funcs.Arith.opMax i, initial⟩)) ∧
    (∀ name initial i, CommCol (AccDataDef.toSpec ⟨name, foldDotMatch Rare.Expr.Funcs.Arith.opMin i, initial⟩)) ∧
    (∀ op name initial n, CommCol (AccDataDef.toSpec ⟨name, foldDotLit op n, initial⟩)) ∧
    (∀ op i, Rare.Expr.Funcs.Arith.intHelper op [Comp.key dot, Comp.match_ i] = Rare.Expr.ok (foldDotMatch op i)) ∧
    (∀ op lit n, atoi lit = some n →
      Rare.Expr.Funcs.Arith.intHelper op [Comp.key dot, Stage.lit lit] = Rare.Expr.ok (foldDotLit op n)) :=
  ⟨rowComm_of_commCols, fun n i k => commCol_foldDotMatch _ commOp_sum n i k,
   fun n i k => commCol_foldDotMatch _ commOp_max n i k, fun n i k => commCol_foldDotMatch _ commOp_min n i k,
   fun op n i k => commCol_foldDotLit op n i k, intHelper_dot_match, intHelper_dot_lit⟩

/-- What the aggregator `reduceFunction` configures satisfies the hypotheses of the two theorems above, and the
simple (no group, no `--table`) output cannot panic on it: every state sampled from it keeps the column names. -/
theorem reduce_setup (compile : Bytes → Option Stage) (a : ReduceArgs) (s0 : AccGroup) (maxKeylen : Nat)
    (h : reduceSetup compile a = .ok (s0, maxKeylen)) :
    AccReach s0 ∧ s0.data = [] ∧
    ∀ (hist : List Bytes) (s : AccGroup) (c : Counters), s0.run hist = .ok s → ∃ lines, reduceSimple s maxKeylen c = .ok lines := by
  have inv := reduceSetup_inv compile a s0 maxKeylen h
  refine ⟨inv.reach, inv.nodata, fun hist s c hr => ?_⟩
  apply reduceSimple_ok
  have sd := run_sameDefs inv.reach hist hr
  intro n hn
  apply inv.keylen
  simpa [AccGroup.dataCols, sd.2.1] using hn

/-- `reduce --csv`: the RFC 4180 reader of `Spec/C03` gives back, for every reachable aggregator with at least one
column, the header and – per group, each exactly once, in `Groups(ByName)` order – the key parts padded to the
number of group columns followed by the group's row, whatever bytes the values contain.  The key parts ARE the
values of the group expressions iff no value contains NUL (`groupkey_parts`): a single empty value has the key ""
without parts, and the padding supplies its empty cell.  (The reused row buffer leaks nothing: 6a022dd.) -/
theorem reduce_csv_roundtrip (s : AccGroup) (hs : AccReach s) (hcols : 1 ≤ s.colCount)
    (order gs : List Bytes) (hr : IsRangeOf order s.data) (hg : s.groupsWith bLt order = .ok gs) :
    reduceCsv s order = .ok (writeCsv (writeAccumulatorRows s gs)) ∧
    parseCsv (writeCsv (writeAccumulatorRows s gs)) =
      (s.groupCols ++ s.dataCols) :: gs.map (fun g => padParts s.groupColCount (groupKeyParts g) ++ s.dataNoCopy g) ∧
    gs.Perm order ∧
    (∀ g ∈ gs, ∃ row, aget s.data g = some row ∧ s.dataNoCopy g = row ∧ s.dataOf g = row ∧ row.length = s.dataCols.length) ∧
    (∀ vs : List Bytes, vs.length = s.groupColCount → (∀ v ∈ vs, (0 : UInt8) ∉ v) →
      padParts s.groupColCount (groupKeyParts (nulJoin vs)) = vs) ∧
    (∀ g, reduceTableRow s g = padParts s.groupColCount (groupKeyParts g) ++ s.dataOf g) := by
  have hperm := (groupsWith_spec s bLt bLt_strictTotal order gs hg).1
  have hsome : ∀ g ∈ gs, (aget s.data g).isSome = true := fun g hgm => (hr.2 g).mp (hperm.mem_iff.mp hgm)
  have hdata : ∀ g ∈ gs, (s.dataNoCopy g).length = s.colDef.length :=
    fun g hgm => dataNoCopy_length_of_reach s hs g (hsome g hgm)
  have hrows := writeAccumulatorRows_eq s gs hdata
  refine ⟨by simp [reduceCsv, hg, Except.map], ?_, hperm, ?_, ?_, reduceTableRow_eq s⟩
  · rw [csv_roundtrip _ ?_, hrows]
    · rfl
    · rw [hrows]
      intro r hrm
      rcases List.mem_cons.mp hrm with rfl | hrm
      · intro h0
        have : (s.groupCols ++ s.dataCols).length = s.colCount := by
          simp [AccGroup.groupCols, AccGroup.dataCols, AccGroup.colCount]
        rw [h0] at this; simp at this; omega
      · obtain ⟨g, hgm, rfl⟩ := List.mem_map.mp hrm
        intro h0
        have := csvCells_length s g (hdata g hgm)
        rw [h0] at this; simp at this; omega
  · intro g hgm
    cases hrow : aget s.data g with
    | none => have := hsome g hgm; rw [hrow] at this; cases this
    | some row =>
      have hl := (reach_accwf hs).rows g row hrow
      refine ⟨row, rfl, by simp [AccGroup.dataNoCopy, hrow], dataOf_row s g row hrow hl, by simp [hl, AccGroup.dataCols]⟩
  · intro vs hl hfree
    rw [← hl]; exact padParts_nulJoin vs hfree

/-- The guard `1 ≤ colCount` of `reduce_csv_roundtrip` is needed: `rare reduce` without `-g` and `-a` has no
columns, writes records without fields (empty lines), and those read back as records with one empty field. -/
theorem reduce_csv_roundtrip_guard_exact :
    writeAccumulatorRows {} [[]] = [[], []] ∧ parseCsv (writeCsv (writeAccumulatorRows {} [[]])) = [[[]], [[]]] := by
  decide

/-! ### non-vacuity for `rare reduce` -/

/-- `TerminalC` is inhabited for every corpus and every tuning with at least one reader slot and channel slot. -/
theorem terminalC_inhabited (cls : Line → Cls) (key : Line → Bytes) (cfg : Config) (datas : List Bytes)
    (hR : 1 ≤ cfg.R) (hB : 1 ≤ cfg.B) (hK : 1 ≤ cfg.K) : ∃ h c, TerminalC cls key cfg datas h c := by
  obtain ⟨s, hr, hd⟩ := C01.pipeline_reaches_end cls hR hB hK _ (pipelineInit cfg datas) _ .refl (Nat.le_refl _)
  obtain ⟨a, ha, hf, hs⟩ := aggloop_runs (s.consumed.map key)
  exact ⟨a.sampled, _, s, [s.consumed.map key], a, hr, hd, by simp, ha, hf, rfl, rfl⟩

/-- one reader, one worker, batch size 2 -/
def exCfg1 : Config := ⟨1, 1, 1, 1, 2, fun _ n => n % 2 = 0⟩
example : ∃ h c, TerminalC exCls (·.text) exCfg1 [[97, 10, 120, 10, 98, 10]] h c ∧ exCfg1.W = 1 := by
  obtain ⟨h, c, t⟩ := terminalC_inhabited exCls (·.text) exCfg1 [[97, 10, 120, 10, 98, 10]] (by decide) (by decide) (by decide)
  exact ⟨h, c, t, rfl⟩
example : ∃ h c, TerminalC exCls (·.text) exCfg exData h c ∧ 1 ≤ exCfg.W := by
  obtain ⟨h, c, t⟩ := terminalC_inhabited exCls (·.text) exCfg exData (by decide) (by decide) (by decide)
  exact ⟨h, c, t, by decide⟩

/-- `-g k={1} -a t={sumi {.} {2}} -a n={sumi {.} 1} -a m:-5={maxi {.} {2}}` as the builders compile it. -/
def exReduce : AccGroup :=
  let s1 := (({} : AccGroup).addGroupExpr [107] (some (Comp.match_ 1))).1
  let s2 := (s1.addDataExpr [116] (some (foldDotMatch Rare.Expr.Funcs.Arith.opSum 2)) [48]).1
  let s3 := (s2.addDataExpr [110] (some (foldDotLit Rare.Expr.Funcs.Arith.opSum 1)) [48]).1
  (s3.addDataExpr [109] (some (foldDotMatch Rare.Expr.Funcs.Arith.opMax 2)) [45, 53]).1

example : AccReach exReduce :=
  AccReach.step _ _ (.addData [109] (some (foldDotMatch Rare.Expr.Funcs.Arith.opMax 2)) [45, 53]) none
    (AccReach.step _ _ (.addData [110] (some (foldDotLit Rare.Expr.Funcs.Arith.opSum 1)) [48]) none
      (AccReach.step _ _ (.addData [116] (some (foldDotMatch Rare.Expr.Funcs.Arith.opSum 2)) [48]) none
        (AccReach.step _ _ (.addGroup [107] (some (Comp.match_ 1))) none AccReach.init rfl) rfl) rfl) rfl
example : exReduce.data = [] := rfl
example : RowComm exReduce.specCols := by
  apply reduce_commutative_accumulators.1
  intro c hc
  have : c = AccDataDef.toSpec ⟨[116], foldDotMatch Rare.Expr.Funcs.Arith.opSum 2, [48]⟩ ∨
      c = AccDataDef.toSpec ⟨[110], foldDotLit Rare.Expr.Funcs.Arith.opSum 1, [48]⟩ ∨
      c = AccDataDef.toSpec ⟨[109], foldDotMatch Rare.Expr.Funcs.Arith.opMax 2, [45, 53]⟩ := by
    simpa [exReduce, AccGroup.specCols, AccGroup.addDataExpr, AccGroup.addGroupExpr, aget, aset] using hc
  rcases this with rfl | rfl | rfl
  · exact reduce_commutative_accumulators.2.1 _ _ _
  · exact reduce_commutative_accumulators.2.2.2.2.1 _ _ _ _
  · exact reduce_commutative_accumulators.2.2.1 _ _ _
/-- samples `b NUL 7`, `a NUL -2`, `b NUL 5` and a permutation of them: the same rows, and (groups in `ByName`
order) the CSV `k,t,n,m⏎a,-2,1,-2⏎b,12,2,7⏎` (group `a`: the maximum of the initial -5 and -2). -/
example : (match exReduce.run [[98, 0, 55], [97, 0, 45, 50], [98, 0, 53]] with
      | .ok s => some (writeCsv (writeAccumulatorRows s [[97], [98]])) | .error _ => none) =
    some [107, 44, 116, 44, 110, 44, 109, 10, 97, 44, 45, 50, 44, 49, 44, 45, 50, 10, 98, 44, 49, 50, 44, 50, 44, 55, 10] ∧
    (match exReduce.run [[98, 0, 53], [98, 0, 55], [97, 0, 45, 50]] with
      | .ok s => some (writeCsv (writeAccumulatorRows s [[97], [98]])) | .error _ => none) =
    some [107, 44, 116, 44, 110, 44, 109, 10, 97, 44, 45, 50, 44, 49, 44, 45, 50, 10, 98, 44, 49, 50, 44, 50, 44, 55, 10] := by
  decide +kernel
example : ∃ gs, exReduce.groupsWith bLt [[98], [97]] = .ok gs := ⟨_, rfl⟩
example : C07.StrictTotal bLt := bLt_strictTotal
example : ∀ s, AccReach s → IsRangeOf (akeys s.data) s.data :=
  fun _ h => ⟨reach_keys_nodup h, fun _ => mem_akeys_iff _ _⟩
/-- the set-up of `reduce -g k={1} -a n:7={1}` with a compiler that knows the template `{1}` only -/
example : ∃ s0 mk, reduceSetup (fun t => if t = [123, 49, 125] then some (Comp.match_ 1) else none)
    { group := [[107, 61, 123, 49, 125]], accum := [[110, 58, 55, 61, 123, 49, 125]] } = .ok (s0, mk) ∧ mk = 1 ∧
    s0.groupCols = [[107]] ∧ s0.dataCols = [[110]] ∧ s0.colDef.map (·.initial) = [[55]] := ⟨_, _, rfl, rfl, rfl, rfl, rfl⟩
example : parseKeyValInitial [97, 58, 49, 61, 120, 61] [48] = ([97], [49], [120, 61]) ∧ parseKeyValue [120] = ([120], [120]) := by decide

/-! ## `rare analyze`

`Model/C03Analyze.lean` states what the final render prints (`--nocolor --noformat`) as a function of the
aggregator `runF extra history` (`Model/C07NumF64.lean`: the float computation of numerical.go bit for bit on the
software binary64 model) and of the arrangement `sort.Sort` left in `values`.

FULL STATEMENT WANTED (the property's claim for `analyze`):
  for two sample histories that are permutations of each other, `analyzeLines` is the same text.
It is FALSE for `Mean:` and `StdDev:` (Welford's recurrence in binary64 is order sensitive in the last bits, and
the 4-decimal rendering shows it when the exact value is a tie at the 5th decimal or the magnitude exceeds 2^39):
`analyze_mean_print_order_dependent_counterexample` (known finding F26).  Proved instead: every OTHER line is
exactly order independent (`analyze_order_independent_partial`), and in exact arithmetic mean and variance are
functions of the multiset (`analyze_mean_stddev_exact_perm`). -/

/-- Count, Min, Max, the parse-error count, every order statistic (Median, Mode, every `-q` quantile, with or
without `--reverse`) and the exit status are EXACTLY the same for two sample histories that are permutations of
each other – whatever sorting algorithm `sort.Sort` is (`IsSortedF`: any sorted arrangement) – when no sample is
NaN or `-0` (`Ordinary`; those two have several bit patterns / signs per place in the order, and `-0` prints as
`-0.0000`).  Hence the two final renders differ at most in line 1 (`Mean:`) and line 2 (`StdDev:`). -/
theorem analyze_order_independent_partial (a : AnalyzeArgs) (quantiles : List F64) (h₁ h₂ : List Bytes)
    (hp : h₁.Perm h₂) (ho : ∀ x ∈ parsedValues h₁, Ordinary x) (s₁ s₂ : List F64)
    (hs₁ : IsSortedF a.reverse s₁ (runF a.extra h₁).values) (hs₂ : IsSortedF a.reverse s₂ (runF a.extra h₂).values)
    (c : Counters) (readErrors : Int) :
    (runF a.extra h₁).samples = (runF a.extra h₂).samples ∧ (runF a.extra h₁).min = (runF a.extra h₂).min ∧
    (runF a.extra h₁).max = (runF a.extra h₂).max ∧ (runF a.extra h₁).parseErrors = (runF a.extra h₂).parseErrors ∧
    s₁ = s₂ ∧ analyzeExtra s₁ quantiles = analyzeExtra s₂ quantiles ∧
    analyzeExit readErrors (runF a.extra h₁) c = analyzeExit readErrors (runF a.extra h₂) c ∧
    (∀ l₁ l₂, analyzeLines a quantiles (runF a.extra h₁) s₁ c = .ok l₁ →
      analyzeLines a quantiles (runF a.extra h₂) s₂ c = .ok l₂ →
      l₁.length = l₂.length ∧ ∀ i, i ≠ 1 → i ≠ 2 → l₁[i]? = l₂[i]?) ∧
    ((runF a.extra h₁).mean = (runF a.extra h₂).mean → (runF a.extra h₁).variance = (runF a.extra h₂).variance →
      analyzeLines a quantiles (runF a.extra h₁) s₁ c = analyzeLines a quantiles (runF a.extra h₂) s₂ c) := by
  obtain ⟨pv, pe⟩ := parsedValues_perm hp
  obtain ⟨f1s, f1mn, f1mx, f1me, f1va, f1pe⟩ := runF_fields a.extra h₁
  obtain ⟨f2s, f2mn, f2mx, f2me, f2va, f2pe⟩ := runF_fields a.extra h₂
  obtain ⟨es, emn, emx⟩ := runFv_minmax_perm a.extra pv ho
  have hsamples : (runF a.extra h₁).samples = (runF a.extra h₂).samples := by rw [f1s, f2s, es]
  have hmin : (runF a.extra h₁).min = (runF a.extra h₂).min := by rw [f1mn, f2mn, emn]
  have hmax : (runF a.extra h₁).max = (runF a.extra h₂).max := by rw [f1mx, f2mx, emx]
  have hpe : (runF a.extra h₁).parseErrors = (runF a.extra h₂).parseErrors := by rw [f1pe, f2pe, pe]
  have hsort : s₁ = s₂ := by
    rw [runF_values] at hs₁ hs₂
    cases he : a.extra with
    | false =>
      rw [he] at hs₁ hs₂
      simp only [Bool.false_eq_true, if_false] at hs₁ hs₂
      rw [hs₁.1.eq_nil, hs₂.1.eq_nil]
    | true =>
      rw [he] at hs₁ hs₂
      simp only [if_true] at hs₁ hs₂
      exact sorted_unique_ordinary a.reverse s₁ s₂ _ _ pv hs₁ hs₂ ho
  have hexit : analyzeExit readErrors (runF a.extra h₁) c = analyzeExit readErrors (runF a.extra h₂) c := by
    unfold analyzeExit; rw [hpe]
  have hbasic : ∀ i, i ≠ 1 → i ≠ 2 → (analyzeBasic (runF a.extra h₁))[i]? = (analyzeBasic (runF a.extra h₂))[i]? := by
    intro i h1 h2
    unfold analyzeBasic
    rw [hsamples, hmin, hmax]
    match i with
    | 0 => simp only [List.getElem?_cons_zero]
    | 1 => exact absurd rfl h1
    | 2 => exact absurd rfl h2
    | (n + 3) => simp only [List.getElem?_cons_succ]
  have hblen : ∀ s : NumF, (analyzeBasic s).length = 5 := fun _ => by simp only [analyzeBasic, List.length_cons, List.length_nil]
  refine ⟨hsamples, hmin, hmax, hpe, hsort, by rw [hsort], hexit, ?_, ?_⟩
  · intro l₁ l₂ e1 e2
    subst hsort
    unfold analyzeLines at e1 e2
    rw [← hpe] at e2
    have key : ∀ (tail : List Bytes) (i : Nat), i ≠ 1 → i ≠ 2 →
        (analyzeBasic (runF a.extra h₁) ++ tail)[i]? = (analyzeBasic (runF a.extra h₂) ++ tail)[i]? := by
      intro tail i h1 h2
      by_cases hi : i < 5
      · rw [List.getElem?_append_left (by rw [hblen]; exact hi), List.getElem?_append_left (by rw [hblen]; exact hi)]
        exact hbasic i h1 h2
      · rw [List.getElem?_append_right (by rw [hblen]; omega), List.getElem?_append_right (by rw [hblen]; omega),
          hblen, hblen]
    by_cases hx : a.extra = true
    · rw [if_pos hx] at e1 e2
      cases hex : analyzeExtra s₁ quantiles with
      | error m => rw [hex] at e1; cases e1
      | ok ex =>
        rw [hex] at e1 e2
        simp only [Except.map, Except.ok.injEq] at e1 e2
        subst e1 e2
        refine ⟨by simp [hblen], fun i h1 h2 => ?_⟩
        rw [List.append_assoc, List.append_assoc]
        exact key _ i h1 h2
    · rw [if_neg hx] at e1 e2
      simp only [Except.ok.injEq] at e1 e2
      subst e1 e2
      exact ⟨by simp [hblen], fun i h1 h2 => key _ i h1 h2⟩
  · intro hmean hvar
    subst hsort
    have hsd : (runF a.extra h₁).stdDev = (runF a.extra h₂).stdDev := by
      unfold NumF.stdDev NumF.varianceF Numerical.varianceOf
      rw [hsamples, hvar]
    unfold analyzeLines analyzeBasic
    rw [hsamples, hmin, hmax, hpe, hmean, hsd]

/-- The same composed with the pipeline: two terminal states of the whole program for the same files under any
two tunings and schedules print – apart from the `Mean:` and `StdDev:` lines – the same final render and end
with the same exit status. -/
theorem analyze_schedule_independent_partial (cls : Line → Cls) (key : Line → Bytes) (datas : List Bytes)
    (cfg₁ cfg₂ : Config) (hW₁ : 1 ≤ cfg₁.W) (hW₂ : 1 ≤ cfg₂.W) (h₁ h₂ : List Bytes) (c₁ c₂ : Counters)
    (t₁ : TerminalC cls key cfg₁ datas h₁ c₁) (t₂ : TerminalC cls key cfg₂ datas h₂ c₂)
    (a : AnalyzeArgs) (quantiles : List F64) (ho : ∀ x ∈ parsedValues (refSamples cls key datas), Ordinary x)
    (sort₁ sort₂ : List F64 → List F64) (hsort₁ : ∀ l, IsSortedF a.reverse (sort₁ l) l)
    (hsort₂ : ∀ l, IsSortedF a.reverse (sort₂ l) l) (readErrors : Int) :
    h₁.Perm h₂ ∧ c₁ = c₂ ∧
    ∀ r₁ r₂, analyzeRun a quantiles h₁ sort₁ c₁ readErrors = .ok r₁ → analyzeRun a quantiles h₂ sort₂ c₂ readErrors = .ok r₂ →
      r₁.exit = r₂.exit ∧ r₁.lines.length = r₂.lines.length ∧ ∀ i, i ≠ 1 → i ≠ 2 → r₁.lines[i]? = r₂.lines[i]? := by
  have p1 := terminal_perm cls key cfg₁ hW₁ datas h₁ t₁.terminal
  have p2 := terminal_perm cls key cfg₂ hW₂ datas h₂ t₂.terminal
  have hp : h₁.Perm h₂ := p1.trans p2.symm
  have ec : c₁ = c₂ := (terminalC_counters hW₁ t₁).trans (terminalC_counters hW₂ t₂).symm
  refine ⟨hp, ec, ?_⟩
  subst ec
  intro r₁ r₂ e1 e2
  have ho1 : ∀ x ∈ parsedValues h₁, Ordinary x :=
    fun x hx => ho x ((parsedValues_perm p1).1.mem_iff.mp hx)
  have := analyze_order_independent_partial a quantiles h₁ h₂ hp ho1 _ _ (hsort₁ _) (hsort₂ _) c₁ readErrors
  obtain ⟨_, _, _, _, _, _, hexit, hlines, _⟩ := this
  simp only [analyzeRun] at e1 e2
  cases hl1 : analyzeLines a quantiles (runF a.extra h₁) (sort₁ (runF a.extra h₁).values) c₁ with
  | error m => rw [hl1] at e1; cases e1
  | ok l1 =>
    cases hl2 : analyzeLines a quantiles (runF a.extra h₂) (sort₂ (runF a.extra h₂).values) c₁ with
    | error m => rw [hl2] at e2; cases e2
    | ok l2 =>
      rw [hl1] at e1; rw [hl2] at e2
      simp only [Except.map, Except.ok.injEq] at e1 e2
      subst e1 e2
      obtain ⟨a1, a2⟩ := hlines l1 l2 hl1 hl2
      exact ⟨hexit, a1, a2⟩

/-- In exact arithmetic Welford's recurrence (C07 `welford_exact`) gives mean = Σ/n, M2 = Σ(x-mean)², sample
variance = M2/(n-1): functions of the multiset of samples – permuting the samples changes nothing.  What the
binary64 computation adds is one rounding per operation, in an order-dependent sequence. -/
theorem analyze_mean_stddev_exact_perm (keep : Bool) (l₁ l₂ : List Rat) (hp : l₁.Perm l₂) :
    (runQ keep l₁).samples = (runQ keep l₂).samples ∧ (runQ keep l₁).mean = (runQ keep l₂).mean ∧
    (runQ keep l₁).variance = (runQ keep l₂).variance ∧
    (runQ keep l₁).varianceOf ratOps = (runQ keep l₂).varianceOf ratOps ∧
    (runQ keep l₁).mean = ratSum l₁ / l₁.length := by
  obtain ⟨a1, a2, a3, a4, _⟩ := C07.welford_exact keep l₁
  obtain ⟨b1, b2, b3, b4, _⟩ := C07.welford_exact keep l₂
  exact ⟨by rw [a1, b1, hp.length_eq], by rw [a2, b2, mean_perm hp], by rw [a3, b3, m2_perm hp],
    by rw [a4, b4, sampleVariance_perm hp], by rw [a2]; rfl⟩

/-- F26 (known finding).  The two sample histories `2`, `0.0001` and `0.0001`, `2` – e.g. the files `2⏎` and
`0.0001⏎` given to `rare analyze` in either order, or one schedule of two workers against another – are
permutations of each other, all values are ordinary, and the PRINTED mean differs: `1.0000` against `1.0001`
(the exact mean of the two binary64 values is 1.00005000000000000000239…, a hair above the tie of the 4-decimal
rendering, so the specification prints 1.0001; the binary64 recurrence lands on either side of the tie depending
on the order).  So the full statement (equal final renders for permuted histories) is false. -/
theorem analyze_mean_print_order_dependent_counterexample :
    let h₁ : List Bytes := [[50], [48, 46, 48, 48, 48, 49]]
    let h₂ : List Bytes := [[48, 46, 48, 48, 48, 49], [50]]
    h₁.Perm h₂ ∧
    hf (runF false h₁).mean = [49, 46, 48, 48, 48, 48] ∧ hf (runF false h₂).mean = [49, 46, 48, 48, 48, 49] ∧
    (runF false h₁).samples = 2 ∧ hf (runF false h₁).stdDev = hf (runF false h₂).stdDev ∧
    (match analyzeLines {} [] (runF false h₁) [] ⟨2, 2, 0⟩, analyzeLines {} [] (runF false h₂) [] ⟨2, 2, 0⟩ with
      | .ok l₁, .ok l₂ => decide (l₁ ≠ l₂ ∧ l₁[1]? ≠ l₂[1]? ∧ l₁[0]? = l₂[0]? ∧ l₁.drop 2 = l₂.drop 2)
      | _, _ => false) = true := by
  refine ⟨List.Perm.swap _ _ _, by decide +kernel, by decide +kernel, by decide +kernel, by decide +kernel, by decide +kernel⟩

/-! ### non-vacuity for `rare analyze` -/

/-- the samples `7`, `0.25`, `x` (not a number), `7`, `-3e2` and a permutation: ordinary values, a sorted arrangement
exists for both (`analyzeF`), and the final render of the first with `--extra -q 50` -/
example : ([[55], [48, 46, 50, 53], [120], [55], [45, 51, 101, 50]] : List Bytes).Perm [[45, 51, 101, 50], [55], [120], [55], [48, 46, 50, 53]] := by
  decide
example : ∀ x ∈ parsedValues [[55], [48, 46, 50, 53], [120], [55], [45, 51, 101, 50]], Ordinary x := by decide +kernel
example (rev : Bool) (l : List F64) : IsSortedF rev (analyzeF rev l) l := analyzeF_sorted rev l
example : (analyzeRun { extra := true, quantiles := [[53, 48]] } [F64.ofInt 50] [[55], [48, 46, 50, 53], [120], [55], [45, 51, 101, 50]]
      (fun _ => parsedValues [[45, 51, 101, 50], [48, 46, 50, 53], [55], [55]]) ⟨5, 6, 0⟩ 0).toOption =
    some { lines := [ascii "Samples:  4", ascii "Mean:     -71.4375", ascii "StdDev:   152.4082", ascii "Min:      -300.0000",
                    ascii "Max:      7.0000", [], ascii "Median:   7.0000", ascii "Mode:     7.0000", ascii "P50.0000: 7.0000",
                    [], ascii "Matched: 5 / 6 (Errors: 1)"], exit := 2 } := by
  decide +kernel
example : (parseQuantiles [[57, 48], [120]]).toOption = none ∧ ¬ Ordinary (F64.zero true) ∧ ¬ Ordinary F64.nan := by decide +kernel
example : ([1, 2, 4] : List Rat).Perm [4, 1, 2] := by decide

/-! ## the wiring of the commands, regenerated from the Go source on every run (`Rare/Gen/C03.lean`)

`harness/extract/c03.go` reads, from the AST of /repo: for every aggregating command its aggregator constructor,
the aggregator variable handed to `RunAggregationLoop`, `TryWriteCSV` and `DetermineErrorState`, its sorter flags
with their defaults, its CSV writer and the order of the final steps; for every `Write…` of `pkg/csv/aggWriters.go`
what it ranges over, which `sorting.…` value it hands to which accessor and every method it calls on the aggregator;
the package-level sorters of `sorting/namevalue.go`; the if-chain of `DetermineErrorState`.  The theorems below are
stated ABOUT those generated definitions, so a command switched to another writer or aggregator, a writer handed a
stateful / non-total / other sorter or ranging over anything new, a changed default, a reordered final step or a
changed exit condition stops a proof from checking. -/

/-- The sorter expressions the CSV writers name in the source denote exactly the comparators of the model:
`WriteCounter` → `ItemsSortedBy(…, NVValueSorter)`, `WriteTable` → `OrderedColumns/OrderedRows(NVNameSorter)`,
`WriteSubCounter` → `ItemsSorted(NVNameSorter)`, `WriteAccumulator` → `Groups(ByName)`; all of them pure
functions of the two rows (no inferring closure, no oracle). -/
theorem csv_sorters_from_source :
    SortExpr.nvLess Gen.C03.sorterVars ((findWriter Gen.C03.csvWriters "WriteCounter").sorterOf "ItemsSortedBy") = nvValueLess ∧
    SortExpr.nvLess Gen.C03.sorterVars ((findWriter Gen.C03.csvWriters "WriteTable").sorterOf "OrderedColumns") = nvNameLess ∧
    SortExpr.nvLess Gen.C03.sorterVars ((findWriter Gen.C03.csvWriters "WriteTable").sorterOf "OrderedRows") = nvNameLess ∧
    SortExpr.nvLess Gen.C03.sorterVars ((findWriter Gen.C03.csvWriters "WriteSubCounter").sorterOf "ItemsSorted") = nvNameLess ∧
    SortExpr.nameLess Gen.C03.sorterVars ((findWriter Gen.C03.csvWriters "WriteAccumulator").sorterOf "Groups") = bLt :=
  ⟨rfl, rfl, rfl, rfl, by rw [bLt_eq_bytesLt]; rfl⟩

/-- What the CSV writers do with their aggregator, pinned: every `range` is over the result of a SORTED accessor
(or over a local slice / the sub-item vector) – none ranges over a map – and these are all the methods they call. -/
theorem csv_writers_shape :
    Gen.C03.csvWriters.map (fun w => (w.name, w.aggType, w.ranges, w.aggCalls)) =
      [("WriteTable", "aggregation.TableAggregator", ["agg.OrderedRows(sorting.NVNameSorter)", "cols"], ["OrderedColumns", "OrderedRows"]),
       ("WriteAccumulator", "aggregation.AccumulatingGroup", ["aggr.Groups(sorting.ByName)"],
        ["ColCount", "GroupCols", "DataCols", "ColCount", "Groups", "GroupColCount", "GroupColCount", "DataNoCopy"]),
       ("WriteCounter", "aggregation.MatchCounter", ["aggr.ItemsSortedBy(aggr.GroupCount(), sorting.NVValueSorter)"],
        ["ItemsSortedBy", "GroupCount"]),
       ("WriteSubCounter", "aggregation.SubKeyCounter", ["aggr.ItemsSorted(sorting.NVNameSorter)", "item.Item.Items()"],
        ["SubKeys", "ItemsSorted"])] := by
  decide

/-- Every aggregating command: ONE aggregator – the one it constructs – is sampled by `RunAggregationLoop`,
exported by `TryWriteCSV` and asked for parse errors by `DetermineErrorState`; the CSV writer is the one for that
aggregator type; and the final steps come in the order aggregation loop (with its final render) → close the
terminal → write the CSV → compute the exit status. -/
theorem commands_wiring :
    Gen.C03.commands.map (fun c => (c.name, c.aggCtor, c.csvWriter)) =
      [("histo", "aggregation.NewCounter", "csv.WriteCounter"), ("table", "aggregation.NewTable", "csv.WriteTable"),
       ("heatmap", "aggregation.NewTable", "csv.WriteTable"), ("spark", "aggregation.NewTable", "csv.WriteTable"),
       ("bargraph", "aggregation.NewSubKeyCounter", "csv.WriteSubCounter"),
       ("analyze", "aggregation.NewNumericalAggregator", ""),
       ("reduce", "aggregation.NewAccumulatingGroup", "csv.WriteAccumulator")] ∧
    (∀ c ∈ Gen.C03.commands, c.loopAgg = c.aggVar ∧ c.exitArgs.length = 3 ∧ c.exitArgs.getLast? = some c.aggVar ∧
      (if c.csvWriter = "" then c.order = ["RunAggregationLoop", "Close", "DetermineErrorState"]
       else c.csvAgg = c.aggVar ∧ c.order = ["RunAggregationLoop", "Close", "TryWriteCSV", "DetermineErrorState"])) := by
  decide

/-- The sorter flags of every command and their defaults (`helpers.DefaultSortFlag` is `--sort numeric`), the
sorter `reduce` builds without a flag (`ByContextual()`, reversed by `--sort-reverse`), and: every default is a
name `BuildSorter` accepts (C13 `parseSort` / `lookupMode`), naming one of the modes C13 proves total (`value`:
by count then name; `numeric`). -/
theorem command_sorters :
    Gen.C03.commands.map (fun c => (c.name, c.sorterFlags.map (fun f => (f.2.1, f.2.2)))) =
      [("histo", [("sort", "value")]), ("table", [("sort-rows", "value"), ("sort-cols", "value")]),
       ("heatmap", [("sort-rows", "numeric"), ("sort-cols", "numeric")]),
       ("spark", [("sort-rows", "value"), ("sort-cols", "numeric")]), ("bargraph", [("sort", "numeric")]),
       ("analyze", []), ("reduce", [])] ∧
    Gen.C03.defaultSortFlag = ("sort", "numeric") ∧
    (findCommand Gen.C03.commands "reduce").otherSorters = [("sorter", .byContextual), ("sorter", .reverse (.other "sorter"))] ∧
    (∀ c ∈ Gen.C03.commands, ∀ f ∈ c.sorterFlags,
      (match parseSort asciiLower (asc f.2.2) with
       | .ok (name, rev) => (lookupMode asciiLower name == some .value && rev) || (lookupMode asciiLower name == some .numeric && !rev)
       | .error _ => false) = true) := by
  decide

/-- `DetermineErrorState` as the source has it – the regenerated if-chain with the regenerated exit-code constants –
computes the modelled exit status for ALL counter values. -/
theorem exit_chain_from_source (readErrors : Int) (aggNil : Bool) (parseErrors matched : Nat) :
    evalExitChain Gen.C03.exitChain Gen.C03.exitDefault readErrors aggNil parseErrors matched =
      determineErrorState readErrors aggNil parseErrors matched ∧
    Gen.C03.exitCodeNoData = 1 ∧ Gen.C03.exitCodeInvalidUsage = 2 :=
  ⟨evalExitChain_model readErrors aggNil parseErrors matched, rfl, rfl⟩

/-- `histo --csv`: for the sorter NAMED IN THE SOURCE of `WriteCounter` (`Gen.C03`; by `csv_sorters_from_source`
it is `NVValueSorter`, a strict total order on rows with distinct names by C13/`nvValueLess_order`), the CSV text
is a function of the counter's observable state: any `sort.Sort` meeting its contract, any two map iteration
orders, any two counters with equal look-ups. -/
theorem csv_of_state_deterministic_histo (alg : List NV → Algo NV (List NV)) (hc : SortContract alg)
    (c₁ c₂ : Counter) (hobs : ∀ k, aget c₁.items k = aget c₂.items k)
    (o₁ o₂ : List Bytes) (r₁ : IsRangeOf o₁ c₁.items) (r₂ : IsRangeOf o₂ c₂.items) :
    let less := SortExpr.nvLess Gen.C03.sorterVars ((findWriter Gen.C03.csvWriters "WriteCounter").sorterOf "ItemsSortedBy")
    (findCommand Gen.C03.commands "histo").csvWriter = "csv.WriteCounter" ∧
    (∀ items : List NV, (items.map (·.name)).Nodup → OrderOn (· ∈ items) less) ∧
    writeCsv (counterRowsBy less (sortOf alg) o₁ fun k => (aget c₁.items k).getD 0) =
      writeCsv (counterRowsBy less (sortOf alg) o₂ fun k => (aget c₂.items k).getD 0) ∧
    counterRowsBy less (sortOf alg) o₂ (fun k => (aget c₂.items k).getD 0) = counterCsvRows isortFn o₁ c₁ := by
  intro less
  have hl : less = nvValueLess := csv_sorters_from_source.1
  rw [hl]
  have := csv_of_state_deterministic alg hc c₁ c₂ hobs o₁ o₂ r₁ r₂
  exact ⟨by decide, nvValueLess_order, this.1, this.2⟩

/-- `table`, `heatmap`, `spark` `--csv` (all three hand their `TableAggregator` to `WriteTable`): same statement for
the sorter named in the source of `WriteTable` for columns and for rows. -/
theorem csv_of_state_deterministic_table_commands (alg : List NV → Algo NV (List NV)) (hc : SortContract alg)
    (t₁ t₂ : Table) (hcols : ∀ c, aget t₁.cols c = aget t₂.cols c)
    (hrows : ∀ r, (aget t₁.rows r).isSome = (aget t₂.rows r).isSome)
    (hcells : ∀ r row1 row2, aget t₁.rows r = some row1 → aget t₂.rows r = some row2 →
      row1.name = row2.name ∧ row1.sum = row2.sum ∧ ∀ c, aget row1.cols c = aget row2.cols c)
    (co₁ co₂ ro₁ ro₂ : List Bytes) (hco₁ : IsRangeOf co₁ t₁.cols) (hco₂ : IsRangeOf co₂ t₂.cols)
    (hro₁ : IsRangeOf ro₁ t₁.rows) (hro₂ : IsRangeOf ro₂ t₂.rows) :
    let colLess := SortExpr.nvLess Gen.C03.sorterVars ((findWriter Gen.C03.csvWriters "WriteTable").sorterOf "OrderedColumns")
    let rowLess := SortExpr.nvLess Gen.C03.sorterVars ((findWriter Gen.C03.csvWriters "WriteTable").sorterOf "OrderedRows")
    (∀ n ∈ ["table", "heatmap", "spark"], (findCommand Gen.C03.commands n).csvWriter = "csv.WriteTable") ∧
    (∀ items : List NV, (items.map (·.name)).Nodup → OrderOn (· ∈ items) colLess ∧ OrderOn (· ∈ items) rowLess) ∧
    writeCsv (tableRowsBy colLess rowLess (sortOf alg) co₁ ro₁ t₁.colTotal (fun r => ((aget t₁.rows r).map (·.sum)).getD 0)
        fun r c => ((aget t₁.rows r).map (·.value c)).getD 0) =
      writeCsv (tableRowsBy colLess rowLess (sortOf alg) co₂ ro₂ t₂.colTotal (fun r => ((aget t₂.rows r).map (·.sum)).getD 0)
        fun r c => ((aget t₂.rows r).map (·.value c)).getD 0) := by
  intro colLess rowLess
  have h1 : colLess = nvNameLess := csv_sorters_from_source.2.1
  have h2 : rowLess = nvNameLess := csv_sorters_from_source.2.2.1
  rw [h1, h2]
  exact ⟨by decide, fun items hnd => ⟨nvNameLess_order items hnd, nvNameLess_order items hnd⟩,
    (csv_of_state_deterministic_table alg hc t₁ t₂ hcols hrows hcells co₁ co₂ ro₁ ro₂ hco₁ hco₂ hro₁ hro₂).1⟩

/-- `bargraph --csv`: same statement for the sorter named in the source of `WriteSubCounter`. -/
theorem csv_of_state_deterministic_bargraph (alg : List NV → Algo NV (List NV)) (hc : SortContract alg)
    (s₁ s₂ : SubKeyCounter) (hk : s₁.subKeys = s₂.subKeys)
    (hpres : ∀ k, (aget s₁.items k).isSome = (aget s₂.items k).isSome)
    (hitems : ∀ k it1 it2, aget s₁.items k = some it1 → aget s₂.items k = some it2 →
      it1.count = it2.count ∧ it1.submatches = it2.submatches)
    (o₁ o₂ : List Bytes) (r₁ : IsRangeOf o₁ s₁.items) (r₂ : IsRangeOf o₂ s₂.items) :
    let less := SortExpr.nvLess Gen.C03.sorterVars ((findWriter Gen.C03.csvWriters "WriteSubCounter").sorterOf "ItemsSorted")
    (findCommand Gen.C03.commands "bargraph").csvWriter = "csv.WriteSubCounter" ∧
    (∀ items : List NV, (items.map (·.name)).Nodup → OrderOn (· ∈ items) less) ∧
    writeCsv (subCounterRowsBy less (sortOf alg) o₁ s₁.subKeys (fun k => ((aget s₁.items k).map (·.count)).getD 0)
        fun k => ((aget s₁.items k).map (·.submatches)).getD []) =
      writeCsv (subCounterRowsBy less (sortOf alg) o₂ s₂.subKeys (fun k => ((aget s₂.items k).map (·.count)).getD 0)
        fun k => ((aget s₂.items k).map (·.submatches)).getD []) := by
  intro less
  have hl : less = nvNameLess := csv_sorters_from_source.2.2.2.1
  rw [hl]
  exact ⟨by decide, nvNameLess_order, (csv_of_state_deterministic_subkey alg hc s₁ s₂ hk hpres hitems o₁ o₂ r₁ r₂).1⟩

/-- `reduce --csv`: `WriteAccumulator` hands `Groups` the sorter named in the source (`ByName`), which is the
strict total order `bLt`; so for every reachable aggregator the CSV outcome does not depend on the order the map
is ranged over (`reduceCsv` is `WriteAccumulator` over `Groups(bLt)`). -/
theorem csv_of_state_deterministic_reduce (s : AccGroup) (hs : AccReach s) (o₁ o₂ : List Bytes)
    (r₁ : IsRangeOf o₁ s.data) (r₂ : IsRangeOf o₂ s.data) :
    let less := SortExpr.nameLess Gen.C03.sorterVars ((findWriter Gen.C03.csvWriters "WriteAccumulator").sorterOf "Groups")
    (findCommand Gen.C03.commands "reduce").csvWriter = "csv.WriteAccumulator" ∧ C07.StrictTotal less ∧
    SameOutcome ((s.groupsWith less o₁).map fun gs => writeCsv (writeAccumulatorRows s gs))
      ((s.groupsWith less o₂).map fun gs => writeCsv (writeAccumulatorRows s gs)) ∧
    reduceCsv s o₁ = (s.groupsWith less o₁).map fun gs => writeCsv (writeAccumulatorRows s gs) := by
  intro less
  have hl : less = bLt := csv_sorters_from_source.2.2.2.2
  rw [hl]
  have _ := hs
  exact ⟨by decide, bLt_strictTotal, reduceCsv_sameOutcome (ObsEq.refl s) (isRange_perm_obs (fun _ => rfl) r₁ r₂), rfl⟩

/-- Every flag that shapes the final aggregate or its export, as the SOURCE declares it (regenerated on every run):
the limits and their defaults (`histo --num` alias `-n` 5, `--atleast` 0; `table`, `heatmap`, `spark`, `reduce` `--num` alias `--rows`, `-n`
20; `table`/`reduce` `--cols` 10; `spark --notruncate` off), the sort flags and their defaults, `--delim` = the
expression array separator, `reduce --initial` "0", `analyze --quantile` 90/99/99.9 (what `AnalyzeArgs` assumes), and
that all six exporting commands share ONE `--csv` flag, all seven one `--snapshot` flag. -/
theorem command_flags_from_source :
    flagOf Gen.C03.commandFlags "histo" "num" = some ("IntFlag", "num", ["n"], "5") ∧
    flagOf Gen.C03.commandFlags "histo" "atleast" = some ("Int64Flag", "atleast", [], "0") ∧
    flagOf Gen.C03.commandFlags "histo" "all" = some ("BoolFlag", "all", ["a"], "") ∧
    hasShared Gen.C03.commandFlags "histo" "helpers.DefaultSortFlagWithDefault(\"value\")" = true ∧
    hasShared Gen.C03.commandFlags "bargraph" "helpers.DefaultSortFlag" = true ∧
    flagOf Gen.C03.commandFlags "bargraph" "stacked" = some ("BoolFlag", "stacked", ["s"], "") ∧
    (["table", "heatmap", "spark"].all fun c =>
      flagOf Gen.C03.commandFlags c "delim" == some ("StringFlag", "delim", [], "expressions.ArraySeparatorString") &&
      flagOf Gen.C03.commandFlags c "num" == some ("IntFlag", "num", ["rows", "n"], "20")) = true ∧
    flagOf Gen.C03.commandFlags "table" "cols" = some ("IntFlag", "cols", [], "10") ∧
    flagOf Gen.C03.commandFlags "table" "sort-rows" = some ("StringFlag", "sort-rows", [], "\"value\"") ∧
    flagOf Gen.C03.commandFlags "table" "sort-cols" = some ("StringFlag", "sort-cols", [], "\"value\"") ∧
    flagOf Gen.C03.commandFlags "heatmap" "sort-rows" = some ("StringFlag", "sort-rows", [], "helpers.DefaultSortFlag.Value") ∧
    flagOf Gen.C03.commandFlags "heatmap" "sort-cols" = some ("StringFlag", "sort-cols", [], "helpers.DefaultSortFlag.Value") ∧
    flagOf Gen.C03.commandFlags "spark" "sort-rows" = some ("StringFlag", "sort-rows", [], "\"value\"") ∧
    flagOf Gen.C03.commandFlags "spark" "sort-cols" = some ("StringFlag", "sort-cols", [], "\"numeric\"") ∧
    flagOf Gen.C03.commandFlags "spark" "notruncate" = some ("BoolFlag", "notruncate", [], "false") ∧
    flagOf Gen.C03.commandFlags "reduce" "num" = some ("IntFlag", "num", ["rows", "n"], "20") ∧
    flagOf Gen.C03.commandFlags "reduce" "cols" = some ("IntFlag", "cols", [], "10") ∧
    flagOf Gen.C03.commandFlags "reduce" "initial" = some ("StringFlag", "initial", [], "\"0\"") ∧
    flagOf Gen.C03.commandFlags "reduce" "sort" = some ("StringFlag", "sort", [], "") ∧
    flagOf Gen.C03.commandFlags "reduce" "sort-reverse" = some ("BoolFlag", "sort-reverse", [], "") ∧
    flagOf Gen.C03.commandFlags "analyze" "quantile" =
      some ("StringSliceFlag", "quantile", ["q"], "cli.NewStringSlice(\"90\", \"99\", \"99.9\")") ∧
    ({} : AnalyzeArgs).quantiles = [[57, 48], [57, 57], [57, 57, 46, 57]] ∧ ({} : ReduceArgs).initial = [48] ∧
    (["histo", "table", "heatmap", "spark", "bargraph", "reduce"].all fun c => hasShared Gen.C03.commandFlags c "helpers.CSVFlag" &&
      hasShared Gen.C03.commandFlags c "helpers.NoOutFlag") = true ∧
    hasShared Gen.C03.commandFlags "analyze" "helpers.CSVFlag" = false ∧
    (["histo", "table", "heatmap", "spark", "bargraph", "analyze", "reduce"].all fun c =>
      hasShared Gen.C03.commandFlags c "helpers.SnapshotFlag") = true := by
  and_intros <;> decide

/-- Which flag every variable of the command functions is read from (a swapped or renamed flag breaks this): the
limits, the delimiter, the sort names, `spark`'s `noTruncate`. -/
theorem command_flag_reads_from_source :
    readOf Gen.C03.commandFlagReads "histo" "topItems" = some "c.Int(\"n\")" ∧
    readOf Gen.C03.commandFlagReads "histo" "atLeast" = some "c.Int64(\"atleast\")" ∧
    readOf Gen.C03.commandFlagReads "histo" "all" = some "c.Bool(\"all\")" ∧
    readOf Gen.C03.commandFlagReads "histo" "sortName" = some "c.String(helpers.DefaultSortFlag.Name)" ∧
    readOf Gen.C03.commandFlagReads "bargraph" "sortName" = some "c.String(helpers.DefaultSortFlag.Name)" ∧
    readOf Gen.C03.commandFlagReads "bargraph" "stacked" = some "c.Bool(\"stacked\")" ∧
    (["table", "heatmap", "spark"].all fun c =>
      readOf Gen.C03.commandFlagReads c "delim" == some "c.String(\"delim\")" &&
      readOf Gen.C03.commandFlagReads c "numRows" == some "c.Int(\"num\")" &&
      readOf Gen.C03.commandFlagReads c "numCols" == some "c.Int(\"cols\")" &&
      readOf Gen.C03.commandFlagReads c "sortRows" == some "c.String(\"sort-rows\")" &&
      readOf Gen.C03.commandFlagReads c "sortCols" == some "c.String(\"sort-cols\")") = true ∧
    readOf Gen.C03.commandFlagReads "spark" "noTruncate" = some "c.Bool(\"notruncate\")" ∧
    readOf Gen.C03.commandFlagReads "reduce" "defaultInitial" = some "c.String(\"initial\")" ∧
    readOf Gen.C03.commandFlagReads "reduce" "sort" = some "c.String(\"sort\")" ∧
    readOf Gen.C03.commandFlagReads "reduce" "sortReverse" = some "c.Bool(\"sort-reverse\")" := by
  decide

/-- The trim step of `spark`'s render callback as the source spells it: guarded by `--notruncate` and by the column
sort NOT being value-ordered (b216f7d), and a body that is statement for statement what `renderStep` / `sparkTrim`
model (`OrderedColumns(colSorter)`, more than `numCols` ⇒ keep the LAST `numCols`, `Trim` everything else) – the `tbl`
correspondence op replays this very block on the real aggregator. -/
theorem spark_trim_from_source :
    Gen.C03.sparkTrimGuard = "!noTruncate && !helpers.SortsByValue(sortCols)" ∧
    Gen.C03.sortsByValueSrc = "{ name, _, err := parseSort(fullName) return err == nil && name == \"value\" }" ∧
    Gen.C03.sparkTrimBody = [
      "{",
      "if keepCols := counter.OrderedColumns(colSorter); len(keepCols) > numCols {",
      "keepCols = keepCols[len(keepCols)-numCols:]",
      "keepLookup := make(map[string]struct{})",
      "for _, item := range keepCols {",
      "keepLookup[item] = struct{}{}",
      "}",
      "counter.Trim(func(col, row string, val int64) bool {",
      "_, ok := keepLookup[col]",
      "return !ok",
      "})",
      "}",
      "}"] := by
  decide

/-! ### non-vacuity for the wiring theorems -/

example : SortContract (isortA (α := NV)) := C13.sort_contract_satisfiable
example : (SortExpr.byContextual).nvCmp = none ∧ (SortExpr.valueNilSorter .byNameSmart).nvCmp = none ∧
    ((SortExpr.named "NVNameSorter").subst Gen.C03.sorterVars) = .valueNilSorter .byName := by decide
example : evalExitChain Gen.C03.exitChain Gen.C03.exitDefault 0 false 3 10 = 2 ∧
    evalExitChain Gen.C03.exitChain Gen.C03.exitDefault 0 true 3 10 = 0 ∧
    evalExitChain Gen.C03.exitChain Gen.C03.exitDefault 0 false 0 0 = 1 := by decide

/-! ## the command functions (`Model/C03Cmd.lean`; correspondence op `cmd`) -/

/-- Every `--sort` / `--sort-cols` / `--sort-rows` name that denotes a comparator WITHOUT hidden state – `text`, `value`
and `numeric` (`ByNameSmart` with the real `strconv.ParseFloat`, a strict total order on ALL keys by C13's
`numeric_real_strict_total`) in any spelling with any modifier (`:asc`, `:desc`, `:rev`, `:reverse`) – is a strict total
order on rows with distinct names (map keys are distinct): `sort.Sort` has one possible answer.  The table of what the
common names denote; `contextual`, `date` infer and are C13's. -/
theorem sort_names_pure_strict_total :
    (∀ fullName less, pureSortLess fullName = some less →
      ∀ items : List NV, (items.map (·.name)).Nodup → OrderOn (· ∈ items) less) ∧
    pureSortLess (asc "value") = some (revLess nvValueAscLess) ∧ pureSortLess (asc "VALUE:rev") = some nvValueAscLess ∧
    pureSortLess (asc "value:asc") = some nvValueAscLess ∧ pureSortLess (asc "text") = some nvNameLess ∧
    pureSortLess (asc "Text:desc") = some (revLess nvNameLess) ∧ pureSortLess [] = some nvNameLess ∧
    pureSortLess (asc "numeric") = some nvSmartLess ∧ pureSortLess (asc "NUMERIC:desc") = some (revLess nvSmartLess) ∧
    pureSortLess (asc "contextual") = none ∧ pureSortLess (asc "date") = none ∧
    pureSortLess (asc "value:up") = none ∧
    sortsByValue (asc "value") = true ∧ sortsByValue (asc "Value:ASC") = true ∧ sortsByValue (asc "text") = false ∧
    sortsByValue (asc "value:up") = false :=
  ⟨pureSortLess_order C13.numeric_real_strict_total,
   pureSortLess_value _ (asc "value") true (by decide +kernel) (by decide +kernel),
   pureSortLess_value _ (asc "value") false (by decide +kernel) (by decide +kernel),
   pureSortLess_value _ (asc "value") false (by decide +kernel) (by decide +kernel),
   pureSortLess_text _ (asc "text") false (by decide +kernel) (by decide +kernel),
   pureSortLess_text _ (asc "text") true (by decide +kernel) (by decide +kernel),
   pureSortLess_text _ [] false (by decide +kernel) (by decide +kernel),
   pureSortLess_numeric _ (asc "numeric") false (by decide +kernel) (by decide +kernel),
   pureSortLess_numeric _ (asc "numeric") true (by decide +kernel) (by decide +kernel),
   pureSortLess_infer _ (asc "contextual") false .contextual (by decide +kernel) (by decide +kernel) (by decide),
   pureSortLess_infer _ (asc "date") false .date (by decide +kernel) (by decide +kernel) (by decide),
   pureSortLess_error _ (by decide +kernel),
   by decide +kernel, by decide +kernel, by decide +kernel, by decide +kernel⟩

/-- `helpers.SortsByValue` and the guard of spark's trim step EVALUATED from the source (regenerated on every run as small
expression trees, `Gen.C03.sortsByValueFn` / `sparkTrimGuardE`): for every flag text the function of the source answers
what the model's `sortsByValue` answers – with `lowerK` and with Go's `strings.ToLower` under any rune map meeting C13's
`RuneLower` contract (checked against `unicode.ToLower` for all code points by C13's `lowtab` op) – and the guard of the
source is the guard `sparkCmd` evaluates, for every `--notruncate` and `--sort-cols`.  A `SortsByValue` that stops going
through `parseSort` (a case-sensitive comparison of the raw text, say) no longer evaluates to this. -/
theorem sorts_by_value_from_source :
    (∀ fullName, Gen.C03.sortsByValueFn.eval (parseSort lowerK) fullName = some (sortsByValue fullName)) ∧
    (∀ tl, RuneLower tl → ∀ fullName,
      Gen.C03.sortsByValueFn.eval (parseSort (goToLower tl)) fullName = some (sortsByValue fullName)) ∧
    (∀ (noTruncate : Bool) (sortCols : Bytes), Gen.C03.sparkTrimGuardE.eval
        { bools := fun v => if v = "noTruncate" then some noTruncate else none,
          calls := fun f args => if f = "helpers.SortsByValue" ∧ args = ["sortCols"] then
            Gen.C03.sortsByValueFn.eval (parseSort lowerK) sortCols else none } =
      some (!noTruncate && !sortsByValue sortCols)) := by
  have key : ∀ (parse : Bytes → Except SortErr (Bytes × Bool)) (fullName : Bytes),
      Gen.C03.sortsByValueFn.eval parse fullName =
        some (match parse fullName with | .ok (name, _) => name == asc "value" | .error _ => false) := by
    intro parse fullName
    simp only [Gen.C03.sortsByValueFn, SbvSrc.eval, GoB.eval]
    cases parse fullName with
    | error e => simp
    | ok p => obtain ⟨n, r⟩ := p; simp
  have k1 : ∀ f, Gen.C03.sortsByValueFn.eval (parseSort lowerK) f = some (sortsByValue f) := by
    intro f; rw [key]; rfl
  refine ⟨k1, fun tl h f => ?_, fun nt sc => ?_⟩
  · rw [key, ← sortsByValueWith_lower tl h f]; rfl
  · simp only [Gen.C03.sparkTrimGuardE, GoB.eval, if_true, and_self, k1 sc, Option.map_some]

/-- The trim guard and the sorter agree on EVERY spelling: `SortsByValue(text)` is true exactly when `BuildSorter(text)`
builds the value sorter (`VALUE`, `Value:asc`, `vAlUe:Desc` … – names and modifiers are case-insensitive in both, because
both go through `parseSort`); whenever it is false and `BuildSorter` succeeds – `text`, `numeric`, `contextual`, `date`, any
modifier, any oracle for `ParseFloat` and the date formats – the comparator built never looks at the VALUES of the rows, so
the column order `spark` trims by is a function of the column names (the hypothesis of `spark_trim_any_render_schedule`);
for the pure names it is `nvNameLess` / `nvSmartLess` (a function of the two NAMES) or the reverse. -/
theorem sorts_by_value_agrees_with_build_sorter :
    (∀ fullName, sortsByValue fullName = true ↔ ∃ rev, builtSorter lowerK fullName = some (true, rev)) ∧
    (∀ (o : Oracle), o.lower = lowerK → ∀ (sets : List SortSet) (fullName : Bytes) (s : Sorter),
      buildSorter o sets fullName = .ok s →
      (sortsByValue fullName = false →
        ∀ (st : s.σ) (a b : NV) (va vb : Int), s.cmp st a b = s.cmp st ⟨a.name, va⟩ ⟨b.name, vb⟩) ∧
      (sortsByValue fullName = true →
        s = ⟨Unit, (), valueSorterEx (pureCmp byName)⟩ ∨ s = ⟨Unit, (), C13.reverse (valueSorterEx (pureCmp byName))⟩)) ∧
    (∀ fullName less, pureSortLess fullName = some less → sortsByValue fullName = false →
      less = nvNameLess ∨ less = revLess nvNameLess ∨ less = nvSmartLess ∨ less = revLess nvSmartLess) ∧
    sortsByValue (asc "VALUE") = true ∧ sortsByValue (asc "Value:desc") = true ∧ sortsByValue (asc "vAlUe:REV:x") = true ∧
    sortsByValue (asc "TEXT") = false ∧ sortsByValue (asc "VALUE:up") = false ∧ sortsByValue (asc "value ") = false ∧
    builtSorter lowerK (asc "VALUE") = some (true, true) ∧ builtSorter lowerK (asc "Value:Rev") = some (true, false) ∧
    builtSorter lowerK (asc "NUMERIC:desc") = some (false, true) ∧ builtSorter lowerK (asc "VALUE:up") = none := by
  refine ⟨sortsByValue_iff_built, fun o ho sets f s hb => buildSorter_by_name_or_value o ho sets f s hb, ?_,
    by decide +kernel, by decide +kernel, by decide +kernel, by decide +kernel, by decide +kernel, by decide +kernel,
    by decide +kernel, by decide +kernel, by decide +kernel, by decide +kernel⟩
  intro f less hl hv
  unfold pureSortLess at hl
  unfold sortsByValue at hv
  cases hp : parseSort lowerK f with
  | error e => rw [hp] at hl; cases hl
  | ok p =>
    obtain ⟨name, rev⟩ := p
    rw [hp] at hl hv
    simp only at hl hv
    have hiff := sortsByValue_iff_built f
    unfold sortsByValue builtSorter at hiff
    rw [hp] at hiff
    simp only at hiff
    cases hm : lookupMode lowerK name with
    | none => rw [hm] at hl; cases hl
    | some m =>
      rw [hm] at hl hiff
      cases m <;> simp only at hl hiff
      · cases rev
        · left; simp only [Bool.false_eq_true, if_false, Option.some.injEq] at hl; exact hl.symm
        · right; left; simp only [if_true, Option.some.injEq] at hl; exact hl.symm
      · cases rev
        · right; right; left; simp only [Bool.false_eq_true, if_false, Option.some.injEq] at hl; exact hl.symm
        · right; right; right; simp only [if_true, Option.some.injEq] at hl; exact hl.symm
      · cases hl
      · cases hl
      · have := hiff.mpr ⟨rev, rfl⟩
        rw [hv] at this; cases this

/-- Just outside: a `SortsByValue` that compares the raw text case-sensitively (`name, _, _ := strings.Cut(fullName, ":");
return name == "value"`, evaluated by the same interpreter) calls `--sort-cols VALUE` a name sort although `BuildSorter`
builds the value sorter for it – and trimming by a value order is not render-timing independent: `--cols 1`, samples
a a b | a with the descending value order `VALUE` denotes.  All at once: column b is kept (`,b / r,1`); with a render after
the third sample column a is dropped with its two counts, comes back and is kept with 1 (`,a / r,1`); the sequential
reference (no trim for a value order) is `,a,b / r,3,1`. -/
theorem sorts_by_value_case_sensitive_counterexample :
    let raw : SbvSrc := { param := "fullName", lhs := ["name", "_", "_"], callee := "strings.Cut",
                          args := ["fullName", "\":\""], ret := .strEq "name" "value" }
    let valueTrim (t : Table) : Table :=
      let cols := (isort (revLess nvValueAscLess) ((akeys t.cols).map fun c => (⟨c, t.colTotal c⟩ : NV))).map (·.name)
      if cols.length > 1 then
        (t.trim (renderPred (cols.drop (cols.length - 1))) (akeys t.cols) (fun _ => akeys t.rows)).1 else t
    let csvOf (t : Table) : Bytes := writeCsv (tableCsvRows isortFn (akeys t.cols) (akeys t.rows) t)
    let a : Bytes := [97, 0, 114]
    let b : Bytes := [98, 0, 114]
    raw.eval (parseSort lowerK) (asc "VALUE") = some false ∧ raw.eval (parseSort lowerK) (asc "value:asc") = some true ∧
    sortsByValue (asc "VALUE") = true ∧ pureSortLess (asc "VALUE") = some (revLess nvValueAscLess) ∧
    csvOf (valueTrim (Table.run [0] [a, a, b, a])) = ascii ",b\nr,1\n" ∧
    csvOf (valueTrim ([a].foldl Table.sample (valueTrim (Table.run [0] [a, a, b])))) = ascii ",a\nr,1\n" ∧
    csvOf (Table.run [0] [a, a, b, a]) = ascii ",a,b\nr,3,1\n" := by
  intro raw valueTrim csvOf a b
  exact ⟨by decide +kernel, by decide +kernel, by decide +kernel,
    pureSortLess_value _ (asc "value") true (by decide +kernel) (by decide +kernel),
    by decide +kernel, by decide +kernel, by decide +kernel⟩

/-- `rare histo`, everything the command function produces: the `--num` rows on the screen (top `--num` in `--sort`
order, then `--atleast`), the footer `Matched: m / r (Groups: g) (Ignored: i) (Errors: e)`, the `--all` table, the `--csv`
text and the exit status.  Two terminal states of the whole program for the same files and command line – any
`--workers`, `--readers`, `--batch`, `--batch-buffer`, schedule, contract-abiding `sort.Sort`, map iteration orders –
give the SAME result, the result of the sequential reference; the CSV reads back as the reference rows. -/
theorem histo_command_schedule_independent (cls : Line → Cls) (key : Line → Bytes) (datas : List Bytes)
    (cfg₁ cfg₂ : Config) (hW₁ : 1 ≤ cfg₁.W) (hW₂ : 1 ≤ cfg₂.W) (h₁ h₂ : List Bytes) (c₁ c₂ : Counters)
    (t₁ : TerminalC cls key cfg₁ datas h₁ c₁) (t₂ : TerminalC cls key cfg₂ datas h₂ c₂)
    (alg : List NV → Algo NV (List NV)) (hc : SortContract alg)
    (sortName : Bytes) (less : NV → NV → Bool) (hs : pureSortLess sortName = some less)
    (o₁ o₂ oref : List Bytes) (r₁ : IsRangeOf o₁ (Counter.run h₁).items) (r₂ : IsRangeOf o₂ (Counter.run h₂).items)
    (rr : IsRangeOf oref (Counter.run (refSamples cls key datas)).items)
    (num : Nat) (atLeast : Int) (all : Bool) (readErrors : Int) :
    let ref := histoCmd isortFn less oref num atLeast all (Counter.run (refSamples cls key datas)) (refCounters cls datas) readErrors
    histoCmd (sortOf alg) less o₁ num atLeast all (Counter.run h₁) c₁ readErrors = ref ∧
    histoCmd (sortOf alg) less o₂ num atLeast all (Counter.run h₂) c₂ readErrors = ref ∧
    parseCsv ref.csv = counterCsvRows isortFn oref (Counter.run (refSamples cls key datas)) := by
  intro ref
  have hless := pureSortLess_order C13.numeric_real_strict_total sortName less hs
  have key1 : ∀ (cfg : Config) (hW : 1 ≤ cfg.W) (h : List Bytes) (c : Counters) (t : TerminalC cls key cfg datas h c)
      (o : List Bytes) (r : IsRangeOf o (Counter.run h).items),
      histoCmd (sortOf alg) less o num atLeast all (Counter.run h) c readErrors = ref := by
    intro cfg hW h c t o r
    have p := terminal_perm cls key cfg hW datas h t.terminal
    obtain ⟨a1, _, a3⟩ := C07.counter_perm (refSamples cls key datas) h p.symm
    rw [terminalC_counters hW t]
    exact histoCmd_det alg hc less hless _ _ a1 a3 (counter_keys_nodup _) (counter_keys_nodup _) oref o rr r num atLeast all _ readErrors
  refine ⟨key1 cfg₁ hW₁ h₁ c₁ t₁ o₁ r₁, key1 cfg₂ hW₂ h₂ c₂ t₂ o₂ r₂, ?_⟩
  show parseCsv (writeCsv (counterCsvRows isortFn oref _)) = _
  exact csv_roundtrip _ (by intro r hr; simp [counterCsvRows, counterRows] at hr; rcases hr with rfl | ⟨_, _, rfl⟩ <;> simp)

/-- `rare table` / `rare heatmap`: footer `Matched: m / r (R: rows; C: cols) …`, `--csv` text and exit status of two
terminal states under any tuning and schedule are the same, those of the sequential reference. -/
theorem table_command_schedule_independent (cls : Line → Cls) (key : Line → Bytes) (datas : List Bytes) (d : Bytes) (hd : d ≠ [])
    (cfg₁ cfg₂ : Config) (hW₁ : 1 ≤ cfg₁.W) (hW₂ : 1 ≤ cfg₂.W) (h₁ h₂ : List Bytes) (c₁ c₂ : Counters)
    (t₁ : TerminalC cls key cfg₁ datas h₁ c₁) (t₂ : TerminalC cls key cfg₂ datas h₂ c₂)
    (alg : List NV → Algo NV (List NV)) (hc : SortContract alg) (co₁ co₂ ro₁ ro₂ coref roref : List Bytes)
    (hco₁ : IsRangeOf co₁ (Table.run d h₁).cols) (hco₂ : IsRangeOf co₂ (Table.run d h₂).cols)
    (hro₁ : IsRangeOf ro₁ (Table.run d h₁).rows) (hro₂ : IsRangeOf ro₂ (Table.run d h₂).rows)
    (hcor : IsRangeOf coref (Table.run d (refSamples cls key datas)).cols)
    (hror : IsRangeOf roref (Table.run d (refSamples cls key datas)).rows) (readErrors : Int) :
    let ref := tableCmd isortFn coref roref (Table.run d (refSamples cls key datas)) (refCounters cls datas) readErrors
    tableCmd (sortOf alg) co₁ ro₁ (Table.run d h₁) c₁ readErrors = ref ∧
    tableCmd (sortOf alg) co₂ ro₂ (Table.run d h₂) c₂ readErrors = ref ∧
    parseCsv ref.csv = tableCsvRows isortFn coref roref (Table.run d (refSamples cls key datas)) := by
  intro ref
  have key1 : ∀ (cfg : Config) (hW : 1 ≤ cfg.W) (h : List Bytes) (c : Counters) (t : TerminalC cls key cfg datas h c)
      (co ro : List Bytes) (hco : IsRangeOf co (Table.run d h).cols) (hro : IsRangeOf ro (Table.run d h).rows),
      tableCmd (sortOf alg) co ro (Table.run d h) c readErrors = ref := by
    intro cfg hW h c t co ro hco hro
    have p := terminal_perm cls key cfg hW datas h t.terminal
    obtain ⟨b1, b2, b3, _, b5, _⟩ := C07.table_perm d hd (refSamples cls key datas) h p.symm
    have i1 := C07.tableInv_run d hd (refSamples cls key datas)
    have i2 := C07.tableInv_run d hd h
    rw [terminalC_counters hW t]
    exact tableCmd_det alg hc _ _ b1 b2 b3 b5 i1.nodupRows i2.nodupRows i1.nodupCols i2.nodupCols
      (csv_of_state_deterministic_table alg hc _ _ b1 b2 b3 coref co roref ro hcor hco hror hro).2 _ readErrors
  refine ⟨key1 cfg₁ hW₁ h₁ c₁ t₁ co₁ ro₁ hco₁ hro₁, key1 cfg₂ hW₂ h₂ c₂ t₂ co₂ ro₂ hco₂ hro₂, ?_⟩
  show parseCsv (writeCsv (tableCsvRows isortFn coref roref _)) = _
  exact csv_roundtrip _ (tableCsvRows_nonempty _ _ _ _)

/-- `rare bargraph`: footer, `--csv` text and exit status, same statement. -/
theorem bars_command_schedule_independent (cls : Line → Cls) (key : Line → Bytes) (datas : List Bytes)
    (cfg₁ cfg₂ : Config) (hW₁ : 1 ≤ cfg₁.W) (hW₂ : 1 ≤ cfg₂.W) (h₁ h₂ : List Bytes) (c₁ c₂ : Counters)
    (t₁ : TerminalC cls key cfg₁ datas h₁ c₁) (t₂ : TerminalC cls key cfg₂ datas h₂ c₂)
    (alg : List NV → Algo NV (List NV)) (hc : SortContract alg) (readErrors : Int) :
    ∃ s₁ s₂ sr, SubKeyCounter.run h₁ = .ok s₁ ∧ SubKeyCounter.run h₂ = .ok s₂ ∧
      SubKeyCounter.run (refSamples cls key datas) = .ok sr ∧
      ∀ o₁ o₂ oref, IsRangeOf o₁ s₁.items → IsRangeOf o₂ s₂.items → IsRangeOf oref sr.items →
        barsCmd (sortOf alg) o₁ s₁ c₁ readErrors = barsCmd isortFn oref sr (refCounters cls datas) readErrors ∧
        barsCmd (sortOf alg) o₂ s₂ c₂ readErrors = barsCmd isortFn oref sr (refCounters cls datas) readErrors := by
  have p1 := terminal_perm cls key cfg₁ hW₁ datas h₁ t₁.terminal
  have p2 := terminal_perm cls key cfg₂ hW₂ datas h₂ t₂.terminal
  obtain ⟨sr, s₁, e3, e1, a1, ae, a2, a3⟩ := C07.subkey_perm (refSamples cls key datas) h₁ p1.symm
  obtain ⟨sr', s₂, e3', e2, b1, be, b2, b3⟩ := C07.subkey_perm (refSamples cls key datas) h₂ p2.symm
  rw [e3] at e3'; cases e3'
  refine ⟨s₁, s₂, sr, e1, e2, e3, ?_⟩
  intro o₁ o₂ oref r₁ r₂ rr
  rw [terminalC_counters hW₁ t₁, terminalC_counters hW₂ t₂]
  have x1 := (csv_of_state_deterministic_subkey alg hc _ _ a1 a2 a3 oref o₁ rr r₁).2
  have x2 := (csv_of_state_deterministic_subkey alg hc _ _ b1 b2 b3 oref o₂ rr r₂).2
  simp only [barsCmd, x1, x2, ← ae, ← be, and_self]

/-- `rare spark --csv`, at the level of the exported TEXT: after ANY interleaving of the samples with render-trim steps
(any strict total order on column names, any `--cols`, any map iteration orders, any contract-abiding `sort.Sort` in the
renders and in the writer) the CSV written after the final render is byte for byte the CSV of one render step on the
sequentially sampled table; it reads back (RFC 4180) as those rows; and the exit status is the same.  `WriteTable`'s
name sorters are handed row sums and column totals (which a `Trim` leaves behind differently) but never look at them
(`tableCsvRows_of_cells`). -/
theorem spark_csv_any_render_schedule {lt : Bytes → Bytes → Bool} (ho : NameOrder lt) (n : Nat) (d : Bytes) (hd : d ≠ [])
    (h : List Bytes) (t : Table) (hr : SparkReach lt n d h t)
    (st co : List Bytes) (ro : Bytes → List Bytes) (hst : IsSortedCols lt t st) (hcov : Covers t co ro)
    (sF coF : List Bytes) (roF : Bytes → List Bytes) (hsF : IsSortedCols lt (Table.run d h) sF)
    (hcovF : Covers (Table.run d h) coF roF)
    (alg : List NV → Algo NV (List NV)) (hc : SortContract alg) (c₁ r₁ cF rF : List Bytes)
    (hc₁ : IsRangeOf c₁ (renderStep n t st co ro).cols) (hr₁ : IsRangeOf r₁ (renderStep n t st co ro).rows)
    (hcF : IsRangeOf cF (renderStep n (Table.run d h) sF coF roF).cols)
    (hrF : IsRangeOf rF (renderStep n (Table.run d h) sF coF roF).rows) (readErrors : Int) (matched : Nat) :
    writeCsv (tableCsvRows (sortOf alg) c₁ r₁ (renderStep n t st co ro)) =
      writeCsv (tableCsvRows isortFn cF rF (renderStep n (Table.run d h) sF coF roF)) ∧
    parseCsv (writeCsv (tableCsvRows (sortOf alg) c₁ r₁ (renderStep n t st co ro))) =
      tableCsvRows isortFn cF rF (renderStep n (Table.run d h) sF coF roF) ∧
    determineErrorState readErrors false (renderStep n t st co ro).errors matched =
      determineErrorState readErrors false (renderStep n (Table.run d h) sF coF roF).errors matched := by
  obtain ⟨a, b, c, e⟩ := spark_trim_any_render_schedule ho n d hd h t hr st co ro hst hcov sF coF roF hsF hcovF
  have hrows := tableCsvRows_of_cells alg hc _ _ a b c c₁ cF r₁ rF hc₁ hcF hr₁ hrF
  refine ⟨by rw [hrows], ?_, by rw [e]⟩
  rw [hrows]
  exact csv_roundtrip _ (tableCsvRows_nonempty _ _ _ _)

/-- … and the COMPLETE result of `sparkFunction` – the footer `Matched: m / r (R: rows; C: cols) …` with `RowCount` and
`ColumnCount` of the trimmed table, the `--csv` text, the exit status – for the relational reach relation: after ANY
interleaving of the samples with render-trim steps (any strict total order on column names – `text`, `numeric`, reversed –
any sorted column lists, map iteration orders and contract-abiding `sort.Sort`) it is the result of one render step on the
sequentially sampled table.  (Row and column maps of every reachable table have distinct keys: `reach_nd`.) -/
theorem spark_command_any_render_schedule {lt : Bytes → Bytes → Bool} (ho : NameOrder lt) (n : Nat) (d : Bytes) (hd : d ≠ [])
    (h : List Bytes) (t : Table) (hr : SparkReach lt n d h t)
    (st co : List Bytes) (ro : Bytes → List Bytes) (hst : IsSortedCols lt t st) (hcov : Covers t co ro)
    (sF coF : List Bytes) (roF : Bytes → List Bytes) (hsF : IsSortedCols lt (Table.run d h) sF)
    (hcovF : Covers (Table.run d h) coF roF)
    (alg : List NV → Algo NV (List NV)) (hc : SortContract alg) (c₁ r₁ cF rF : List Bytes)
    (hc₁ : IsRangeOf c₁ (renderStep n t st co ro).cols) (hr₁ : IsRangeOf r₁ (renderStep n t st co ro).rows)
    (hcF : IsRangeOf cF (renderStep n (Table.run d h) sF coF roF).cols)
    (hrF : IsRangeOf rF (renderStep n (Table.run d h) sF coF roF).rows) (k : Counters) (readErrors : Int) :
    tableCmd (sortOf alg) c₁ r₁ (renderStep n t st co ro) k readErrors =
      tableCmd isortFn cF rF (renderStep n (Table.run d h) sF coF roF) k readErrors := by
  obtain ⟨a, b, c, e⟩ := spark_trim_any_render_schedule ho n d hd h t hr st co ro hst hcov sF coF roF hsF hcovF
  have hrows := tableCsvRows_of_cells alg hc _ _ a b c c₁ cF r₁ rF hc₁ hcF hr₁ hrF
  have nd1 := reach_nd (SparkReach.render h t st co ro hr hst hcov)
  have i2 := C07.tableInv_run d hd h
  have nd2 := renderStep_nd n (Table.run d h) sF coF roF i2.nodupRows i2.nodupCols
  have hl1 := length_eq_of_same_keys _ _ nd1.1 nd2.1 b
  have hl2 := length_eq_of_same_keys _ _ nd1.2 nd2.2 c
  simp only [tableCmd, hrows, e, hl1, hl2]

/-- The column orders `spark` can trim by are instances of `NameOrder`: `--sort-cols text` (`ByName`), `--sort-cols numeric`
– spark's DEFAULT, `ByNameSmart` with the real `ParseFloat`, a strict total order on all byte strings (C13) – and their
reverses (`:desc`, `:rev`: on distinct names `!lt a b` is `lt b a`); so `spark_trim_any_render_schedule`, `spark_csv_any_render_schedule` and
`spark_command_any_render_schedule` speak about the default command line too. -/
theorem spark_column_orders :
    NameOrder bytesLt ∧ NameOrder byNameSmartF ∧
    (∀ lt : Bytes → Bytes → Bool, NameOrder lt → NameOrder (fun a b => lt b a)) := by
  refine ⟨bytesLt_nameOrder, ⟨fun a => C13.numeric_real_strict_total.irrefl a trivial,
    fun a b c => C13.numeric_real_strict_total.trans a b c trivial trivial trivial,
    fun a b => C13.numeric_real_strict_total.total a b trivial trivial⟩, ?_⟩
  intro lt ho
  exact ⟨fun a => ho.irrefl a, fun a b c hab hbc => ho.trans c b a hbc hab, fun a b hne => (ho.total a b hne).symm⟩

/-- The same for the executable model of `sparkFunction` that the `cmd` / `tbl` correspondence ops run against the real
command: with a trimming configuration (no `--notruncate`, `--sort-cols` not value-ordered) the COMPLETE result – footer
with the row and column counts, `--csv` text, exit status – after any script of samples and renders is the result on
the sequentially sampled table. -/
theorem spark_command_render_timing_independent (n : Nat) (d : Bytes) (hd : d ≠ []) (evs : List SparkEv) (sortCols : Bytes)
    (hs : sortsByValue sortCols = false) (k : Counters) (readErrors : Int) :
    sparkCmd n false sortCols (sparkRun n d evs) k readErrors =
      sparkCmd n false sortCols (Table.run d (sparkSamples evs)) k readErrors := by
  obtain ⟨a, b, c, e⟩ := spark_model_render_timing_independent n d hd evs
  have nd1 := sparkRun_nd n d evs
  have i2 := C07.tableInv_run d hd (sparkSamples evs)
  have t1 := sparkTrim_nd n _ nd1.1 nd1.2
  have t2 := sparkTrim_nd n _ i2.nodupRows i2.nodupCols
  have hrows := tableCsvRows_of_cells_ref _ _ a b c _ _ _ _ ⟨t1.2, fun k => mem_akeys_iff _ _⟩ ⟨t2.2, fun k => mem_akeys_iff _ _⟩
    ⟨t1.1, fun k => mem_akeys_iff _ _⟩ ⟨t2.1, fun k => mem_akeys_iff _ _⟩
  have hl1 := length_eq_of_same_keys _ _ t1.1 t2.1 b
  have hl2 := length_eq_of_same_keys _ _ t1.2 t2.2 c
  simp only [sparkCmd, hs, Bool.not_false, Bool.and_self, if_true, tableCmd, hrows, e, hl1, hl2]

/-- … and without trimming (`--notruncate`, or a value-ordered `--sort-cols`: b216f7d) `sparkFunction` is `tabulateFunction`
on the untouched table, which `table_command_schedule_independent` covers. -/
theorem spark_command_untrimmed (n : Nat) (noTruncate : Bool) (sortCols : Bytes) (t : Table) (k : Counters) (readErrors : Int)
    (h : noTruncate = true ∨ sortsByValue sortCols = true) :
    sparkCmd n noTruncate sortCols t k readErrors = tableCmd isortFn (akeys t.cols) (akeys t.rows) t k readErrors := by
  rcases h with h | h <;> simp [sparkCmd, h]

/-- `writeHistoOutput`, `minSlice` and the footer calls of the five counting commands as the SOURCE spells them
(regenerated on every run), next to what `histoShown` / `histoCmd` / `tableCmd` / `barsCmd` model: sort ALL groups, keep
the first `count` (`minSlice`), show the rows with `count >= atLeast` on consecutive lines; footer 0 =
`FWriteExtractorSummary(ext, counter.ParseErrors(), …)` with `(Groups: GroupCount)` resp. `(R: RowCount; C: ColumnCount)`
resp. nothing – and `histoShown` does exactly that on a concrete counter (ties in `--sort value` come out by descending
name; `--atleast` applies AFTER the cut). -/
theorem histo_output_from_source :
    Gen.C03.histoOutputBody = [
      "{",
      "items := counter.ItemsSortedBy(count, sorter)",
      "line := 0",
      "writer.UpdateTotal(counter.Total())",
      "for _, match := range items {",
      "count := match.Item.Count()",
      "if count >= atLeast {",
      "writer.WriteForLine(line, match.Name, count)",
      "line++",
      "}",
      "}",
      "}"] ∧
    Gen.C03.minSliceBody = ["{", "if len(items) < count {", "return items", "}", "return items[:count]", "}"] ∧
    Gen.C03.footerCalls = [
      ("histo", ["helpers.FWriteExtractorSummary(ext, counter.ParseErrors(), fmt.Sprintf(\"(Groups: %s)\", color.Wrapi(color.BrightBlue, counter.GroupCount())))"]),
      ("table", ["helpers.FWriteExtractorSummary(ext, counter.ParseErrors(), fmt.Sprintf(\"(R: %v; C: %v)\", color.Wrapi(color.Yellow, counter.RowCount()), color.Wrapi(color.BrightBlue, counter.ColumnCount())))"]),
      ("heatmap", ["helpers.FWriteExtractorSummary(ext, counter.ParseErrors(), fmt.Sprintf(\"(R: %v; C: %v)\", color.Wrapi(color.Yellow, counter.RowCount()), color.Wrapi(color.BrightBlue, counter.ColumnCount())))"]),
      ("spark", ["helpers.FWriteExtractorSummary(ext, counter.ParseErrors(), fmt.Sprintf(\"(R: %v; C: %v)\", color.Wrapi(color.Yellow, counter.RowCount()), color.Wrapi(color.BrightBlue, counter.ColumnCount())))"]),
      ("bargraph", ["helpers.FWriteExtractorSummary(ext, counter.ParseErrors())"])] ∧
    (let c := Counter.run [[97], [98], [98], [99], [99], [100, 0, 53]]
     (histoShown isortFn (revLess nvValueAscLess) (akeys c.items) c 3 0).map (fun nv => (nv.name, nv.value)) =
        [([100], 5), ([99], 2), ([98], 2)] ∧
     (histoShown isortFn (revLess nvValueAscLess) (akeys c.items) c 3 3).map (fun nv => (nv.name, nv.value)) = [([100], 5)] ∧
     (histoShown isortFn (revLess nvValueAscLess) (akeys c.items) c 0 0) = [] ∧
     (histoShown isortFn nvNameLess (akeys c.items) c 9 2).map (·.name) = [[98], [99], [100]]) ∧
    groupsPart 3 = ascii "(Groups: 3)" ∧ rcPart 2 10 = ascii "(R: 2; C: 10)" := by
  refine ⟨by decide, by decide, rfl, by decide +kernel, by decide +kernel, by decide +kernel⟩

/-! ### non-vacuity for the command-function theorems -/

/-- samples `a`, `b`, `b`, `c NUL 3`, `x NUL y` (a parse error), `--num 2 --atleast 2 --all`, default `--sort value`:
the screen shows `c 3`, `b 2`, the footer counts 3 groups and 1 error, exit status 2 -/
example : (let smp : List Bytes := [[97], [98], [98], [99, 0, 51], [120, 0, 121]]
    match pureSortLess (asc "value") with
    | some less => some ((histoCmd isortFn less (akeys (Counter.run smp).items) 2 2 true (Counter.run smp) ⟨5, 6, 0⟩ 0).lines,
                         (histoCmd isortFn less (akeys (Counter.run smp).items) 2 2 true (Counter.run smp) ⟨5, 6, 0⟩ 0).exit)
    | none => none) =
    some ([ascii "c    3", ascii "b    2", ascii "Matched: 5 / 6 (Groups: 3) (Errors: 1)", ascii "Full Table:",
           ascii "c    3", ascii "b    2", ascii "Matched: 5 / 6 (Groups: 3) (Errors: 1)"], 2) := by
  decide +kernel
/-- `spark --cols 1 --sort-cols text`: a w | render | b w, a w | render | b x – and the same samples without renders -/
example : (let o := sparkCmd 1 false (asc "text") (sparkRun 1 [0] [.sample [97, 0, 119], .render, .sample [98, 0, 119],
      .sample [97, 0, 119], .render, .sample [98, 0, 120]]) ⟨4, 4, 0⟩ 0
      (o.exit, o.csv, o.lines)) = (0, ascii ",b\nw,1\nx,1\n", [ascii "Matched: 4 / 4 (R: 2; C: 1)"]) ∧
    sparkSamples [.sample [97, 0, 119], .render, .sample [98, 0, 119], .sample [97, 0, 119], .render, .sample [98, 0, 120]] =
      [[97, 0, 119], [98, 0, 119], [97, 0, 119], [98, 0, 120]] := by
  decide +kernel
example : NameOrder bytesLt := bytesLt_nameOrder
example : ∃ h c, TerminalC exCls (·.text) exCfg exData h c := terminalC_inhabited exCls (·.text) exCfg exData (by decide) (by decide) (by decide)

/-! ### spark with the column sorter of `--sort-cols` inside the executable model (round 4, last)

`sparkTrimBy less` / `sparkRunBy less` / `sparkCmdBy`: the trim of every render keeps the last `--cols` columns of
`colSorter = BuildSorter(sortCols)` – `numeric` (spark's DEFAULT), `text`, reversed or not – and the `tbl` / `cmd` ops replay
exactly that on the real `TableAggregator` / the real `sparkFunction`. -/

/-- For EVERY `--sort-cols` text whose comparator is pure and not value-ordered (`text`, `numeric`, any spelling, `:asc`,
`:desc`, `:rev`, `:reverse`) and the executable model run with THAT comparator: after any script of samples and renders the
final render leaves the same cells, rows, columns and parse-error count as one render on the sequentially sampled table. -/
theorem spark_model_any_sort_cols_render_timing_independent (sortCols : Bytes) (less : NV → NV → Bool)
    (hless : pureSortLess sortCols = some less) (hv : sortsByValue sortCols = false)
    (n : Nat) (d : Bytes) (hd : d ≠ []) (evs : List SparkEv) :
    let tf := sparkTrimBy less n (sparkRunBy less n d evs)
    let rf := sparkTrimBy less n (Table.run d (sparkSamples evs))
    (∀ c r, tf.cell c r = rf.cell c r) ∧ (∀ r, (aget tf.rows r).isSome = (aget rf.rows r).isSome) ∧
    (∀ c, (aget tf.cols c).isSome = (aget rf.cols c).isSome) ∧ tf.errors = rf.errors := by
  obtain ⟨lt, ho, hl⟩ := pureSortLess_nameLess C13.numeric_real_strict_total sortCols less hless hv
  exact sparkBy_final ho hl (pureSortLess_order C13.numeric_real_strict_total sortCols less hless) n d hd evs

/-- … and the COMPLETE result of the command model (`sparkCmdBy`: footer with the row and column counts, `--csv` text, exit
status) for that `--sort-cols`, which exists (`isSome`) for every such name. -/
theorem spark_command_any_sort_cols_render_timing_independent (n : Nat) (d : Bytes) (hd : d ≠ []) (evs : List SparkEv)
    (sortCols : Bytes) (less : NV → NV → Bool) (hless : pureSortLess sortCols = some less)
    (hs : sortsByValue sortCols = false) (k : Counters) (readErrors : Int) :
    sparkCmdBy n false sortCols (sparkRunBy less n d evs) k readErrors =
      sparkCmdBy n false sortCols (Table.run d (sparkSamples evs)) k readErrors ∧
    (sparkCmdBy n false sortCols (Table.run d (sparkSamples evs)) k readErrors).isSome = true := by
  obtain ⟨lt, ho, hl⟩ := pureSortLess_nameLess C13.numeric_real_strict_total sortCols less hless hs
  have hord := pureSortLess_order C13.numeric_real_strict_total sortCols less hless
  obtain ⟨a, b, c, e⟩ := sparkBy_final ho hl hord n d hd evs
  have nd1 := reach_nd (sparkRunBy_reach hl hord n d evs)
  have i2 := C07.tableInv_run d hd (sparkSamples evs)
  have t1 := sparkTrimBy_nd less n _ nd1.1 nd1.2
  have t2 := sparkTrimBy_nd less n _ i2.nodupRows i2.nodupCols
  have hrows := tableCsvRows_of_cells_ref _ _ a b c _ _ _ _ ⟨t1.2, fun k => mem_akeys_iff _ _⟩ ⟨t2.2, fun k => mem_akeys_iff _ _⟩
    ⟨t1.1, fun k => mem_akeys_iff _ _⟩ ⟨t2.1, fun k => mem_akeys_iff _ _⟩
  have hl1 := length_eq_of_same_keys _ _ t1.1 t2.1 b
  have hl2 := length_eq_of_same_keys _ _ t1.2 t2.2 c
  simp only [sparkCmdBy, hless, hs, Bool.not_false, Bool.and_self, if_true, tableCmd, hrows, e, hl1, hl2, Option.isSome_some, and_self]

/-- `sparkCmdBy` is `sparkCmd` for the plain `text` order, `tabulateFunction` on the untouched table when nothing trims
(`--notruncate` or a value-ordered name), and undefined exactly when `pureSortLess` is (inferring names, errors); the
comparators it can trim by are the four name orders – text, numeric and their reverses – each a `NameOrder` on the names. -/
theorem spark_command_by_sort_cols (n : Nat) (noTruncate : Bool) (sortCols : Bytes) (t : Table) (k : Counters) (readErrors : Int) :
    (pureSortLess sortCols = some nvNameLess →
      sparkCmdBy n noTruncate sortCols t k readErrors = some (sparkCmd n noTruncate sortCols t k readErrors)) ∧
    (∀ less, pureSortLess sortCols = some less → (noTruncate = true ∨ sortsByValue sortCols = true) →
      sparkCmdBy n noTruncate sortCols t k readErrors = some (tableCmd isortFn (akeys t.cols) (akeys t.rows) t k readErrors)) ∧
    (pureSortLess sortCols = none → sparkCmdBy n noTruncate sortCols t k readErrors = none) ∧
    (∀ less, pureSortLess sortCols = some less → sortsByValue sortCols = false →
      (less = nvNameLess ∨ less = revLess nvNameLess ∨ less = nvSmartLess ∨ less = revLess nvSmartLess) ∧
      ∃ lt : Bytes → Bytes → Bool, NameOrder lt ∧ ∀ a b : NV, a.name ≠ b.name → less a b = lt a.name b.name) := by
  refine ⟨fun h => ?_, fun less h hn => ?_, fun h => ?_, fun less h hv => ?_⟩
  · simp only [sparkCmdBy, h, sparkCmd, sparkTrimBy_text]
  · rcases hn with hn | hn <;> simp [sparkCmdBy, h, hn]
  · simp only [sparkCmdBy, h]
  · exact ⟨pureSortLess_name_cases sortCols less h hv, pureSortLess_nameLess C13.numeric_real_strict_total sortCols less h hv⟩

/-- The order is not decoration (kernel-checked): columns `10` and `9`, `--cols 1`. The untrimmed table is `,10,9 / r,1,5`;
the text order keeps column `9` (`"10" < "9"`), the reversed text order and the numeric order (9 < 10) keep column `10` – a
model that trimmed by the text order whatever `--sort-cols` says would be wrong for spark's default. -/
theorem spark_sort_cols_order_matters :
    let samples : List Bytes := [asc "10" ++ [0] ++ asc "r", asc "9" ++ [0] ++ asc "r" ++ [0] ++ asc "5"]
    let t := Table.run [0] samples
    let csvOf (u : Table) : Bytes := writeCsv (tableCsvRows isortFn (akeys u.cols) (akeys u.rows) u)
    refTableCsv [0] samples = asc ",10,9\nr,1,5\n" ∧
    csvOf (sparkTrimBy nvNameLess 1 t) = asc ",9\nr,5\n" ∧
    csvOf (sparkTrimBy (revLess nvNameLess) 1 t) = asc ",10\nr,1\n" ∧
    csvOf (sparkTrimBy nvSmartLess 1 t) = asc ",10\nr,1\n" ∧
    csvOf (sparkTrimBy (revLess nvSmartLess) 1 t) = asc ",9\nr,5\n" := by
  decide +kernel

/-- the hypotheses are satisfiable: `numeric` (spark's default) and `Text:desc` are pure, not value-ordered names -/
example : pureSortLess (asc "numeric") = some nvSmartLess ∧ sortsByValue (asc "numeric") = false ∧
    pureSortLess (asc "Text:desc") = some (revLess nvNameLess) ∧ sortsByValue (asc "Text:desc") = false :=
  ⟨pureSortLess_numeric _ (asc "numeric") false (by decide +kernel) (by decide +kernel), by decide +kernel,
   pureSortLess_text _ (asc "text") true (by decide +kernel) (by decide +kernel), by decide +kernel⟩

end Rare.C03
