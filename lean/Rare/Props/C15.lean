import Rare.Proofs.C15NotifyLive
import Rare.Proofs.C15PollLive
import Rare.Proofs.C15PollPlain
import Rare.Proofs.C15Drained
import Rare.Model.C15Skeleton
import Rare.Gen.C15
/-!
# C15 — follow mode delivers every appended byte exactly once, in order

Theorems about the transition systems `NStep` (notify.go) and `PStep` (poller.go) of
`Rare.Model.C15`, for ALL reachable states, i.e. for every finite history of
{append, remove, create} and every interleaving with the fsnotify goroutine and the reader.
The configurations are built from the constants regenerated from /repo (`Rare.Gen.C15`): channel
capacities and `ReadAttempts`; the hypotheses `1 ≤ capacity` / `1 ≤ ReadAttempts` are discharged
by `decide` on the generated values, so an unbuffered signal channel or `ReadAttempts = 0` in /repo
breaks these theorems.

Assumptions (not proved): the atomicity granularity of the model; inotify reports every Write /
Remove / Create of the followed name, after the operation, in order, without queue overflow; the
Go scheduler is fair to the fsnotify goroutine and the reader (liveness statements are of the form
"some run of kernel goroutine + reader reaches …" together with a measure that every such step
decreases).  Out of the model: a writer that keeps appending to a file after it was unlinked,
truncation, rename (notify.go does not watch `Rename`).
-/
namespace Rare.C15
open Rare.Follow Rare.C15.Spec

variable {β : Type}

/-- notify.go as configured in /repo -/
def srcN (reopen : Bool) : NCfg :=
  { capW := Gen.C15.eventWriteCap, capD := Gen.C15.eventDeleteCap, reopen := reopen }

/-- poller.go with its default `ReadAttempts` -/
def srcP (reopen : Bool) : PCfg := { attempts := Gen.C15.readAttempts, reopen := reopen }

theorem capW_ok (r : Bool) : 1 ≤ (srcN r).capW := by show 1 ≤ Gen.C15.eventWriteCap; decide
theorem capD_ok (r : Bool) : 1 ≤ (srcN r).capD := by show 1 ≤ Gen.C15.eventDeleteCap; decide
theorem attempts_ok (r : Bool) : 1 ≤ (srcP r).attempts := by show 1 ≤ Gen.C15.readAttempts; decide

/-- The code regenerated from /repo has the shape the transition systems model: non-blocking
    sends, which event becomes which signal, the two `Read` loops and the re-open conditions. -/
theorem skeleton_matches_source :
    Gen.C15.signalIsNonBlocking = true ∧
    Gen.C15.watcherSwitch = Expected.watcherSwitch ∧
    Gen.C15.watcherSkeleton = Expected.watcherSkeleton ∧
    Gen.C15.notifyReadSkeleton = Expected.notifyReadSkeleton ∧
    Gen.C15.notifyReadConds = Expected.notifyReadConds ∧
    Gen.C15.reopenIfReplacedConds = Expected.reopenIfReplacedConds ∧
    Gen.C15.pollReadSkeleton = Expected.pollReadSkeleton ∧
    Gen.C15.pollReadConds = Expected.pollReadConds := by
  refine ⟨rfl, rfl, rfl, rfl, rfl, rfl, rfl, rfl⟩

/-! ## no loss, no duplication, in order -/

/-- **delivered_is_prefix (notify).** While the file stays in place (no removal so far), in every
    reachable state, for start-of-file and `--tail`, with or without re-open: the delivered stream is
    exactly the bytes of the file between the start position and the reader's offset. -/
theorem delivered_is_prefix (c0 : List β) (tail reopen : Bool) {s : NSt β}
    (hr : NReach (srcN reopen) (ninit (some c0) tail) s) (hrm : s.removes = 0) :
    ∃ pos, s.f = some ⟨0, start0 (some c0) tail, pos⟩ ∧
      InPlaceOK (s.fs.content 0) s.delivered (start0 (some c0) tail) pos := by
  have h := ninv_reach (capW_ok reopen) (capD_ok reopen) (some c0) tail hr
  obtain ⟨h1, _, p, h3⟩ := h.inPlace rfl hrm
  refine ⟨p, h3, ?_⟩
  have hb := h.core.bounds ⟨0, start0 (some c0) tail, p⟩ (by simp [h3])
  have hs := h.strong ⟨0, start0 (some c0) tail, p⟩ (by simp [h3])
  refine ⟨hb.1, hs, ?_⟩
  have := h.core.deliv
  rw [h1, h3] at this
  simpa [segments] using this

/-- **delivered_is_prefix (poll).** Same statement for the polling reader; its offset is `readBytes`
    (the re-open of the same file at the same offset that `Read` may perform changes nothing). -/
theorem delivered_is_prefix_poll (c0 : List β) (tail reopen : Bool) {s : PSt β}
    (hr : PReach (srcP reopen) (pinit (some c0) tail) s) (hrm : s.removes = 0) :
    s.f = some ⟨0, start0 (some c0) tail, s.readBytes⟩ ∧
      InPlaceOK (s.fs.content 0) s.delivered (start0 (some c0) tail) s.readBytes := by
  have h := pinv_reach (cfg := srcP reopen) (some c0) tail hr
  obtain ⟨h1, _, h3, h4, _⟩ := h.inPlace rfl hrm
  refine ⟨h3, ?_⟩
  have hb := h.core.bounds ⟨0, start0 (some c0) tail, s.readBytes⟩ (by simp [h3])
  refine ⟨hb.1, h4, ?_⟩
  have := h.core.deliv
  rw [h1, h3] at this
  simpa [segments] using this

/-- Across removals and re-creations (any history, file present or absent at the start): the
    delivered stream is the concatenation of one segment per file handle, each within its file. -/
theorem delivered_is_segments (c0 : Option (List β)) (tail reopen : Bool) {s : NSt β}
    (hr : NReach (srcN reopen) (ninit c0 tail) s) :
    s.delivered = segments s.fs.content (s.hist ++ s.f.toList) ∧
    ∀ h ∈ s.hist ++ s.f.toList, h.start ≤ h.pos ∧ h.pos ≤ (s.fs.content h.ino).length := by
  have h := ninv_reach (capW_ok reopen) (capD_ok reopen) c0 tail hr
  exact ⟨h.core.deliv, fun x hx => ⟨(h.core.bounds x hx).1, h.strong x hx⟩⟩

theorem delivered_is_segments_poll (c0 : Option (List β)) (tail reopen : Bool) {s : PSt β}
    (hr : PReach (srcP reopen) (pinit c0 tail) s) :
    s.delivered = segments s.fs.content (s.hist ++ s.f.toList) ∧
    ∀ h ∈ s.hist ++ s.f.toList, h.start ≤ h.pos ∧
      (h.pos ≤ (s.fs.content h.ino).length ∨ h.pos = h.start) := by
  have h := pinv_reach (cfg := srcP reopen) c0 tail hr
  exact ⟨h.core.deliv, fun x hx => ⟨(h.core.bounds x hx).1, (h.core.bounds x hx).2.1⟩⟩

/-! ## no lost wake-up -/

/-- **no_lost_wakeup.** If the open file has unread bytes then a write signal is pending (a token in
    `eventWrite` or a Write event the goroutine has not dispatched yet) or the reader is not in its
    `select`: the reader is never blocked in front of unread data. -/
theorem no_lost_wakeup (c0 : Option (List β)) (tail reopen : Bool) {s : NSt β}
    (hr : NReach (srcN reopen) (ninit c0 tail) s) (h : Handle) (hf : s.f = some h)
    (hu : unread s.fs h ≠ []) : (0 < s.pw ∨ Ev.write ∈ s.evq) ∨ s.rd ≠ .selecting := by
  have hi := ninv_reach (capW_ok reopen) (capD_ok reopen) c0 tail hr
  rcases hi.wake h hf hu with h1 | h1 | h1
  · exact Or.inl (Or.inl h1)
  · exact Or.inl (Or.inr h1)
  · exact Or.inr h1

/-- In particular the reader is never blocked (in `select`, both channels empty) in front of unread
    data unless the kernel goroutine still has the Write event to dispatch. -/
theorem never_blocked_on_unread (c0 : Option (List β)) (tail reopen : Bool) {s : NSt β}
    (hr : NReach (srcN reopen) (ninit c0 tail) s) (h : Handle) (hf : s.f = some h)
    (hu : unread s.fs h ≠ []) : ¬ (s.blocked ∧ Ev.write ∉ s.evq) := by
  rintro ⟨hb, hq⟩
  rcases no_lost_wakeup c0 tail reopen hr h hf hu with (h1 | h1) | h1
  · have := hb.2.1; omega
  · exact hq h1
  · exact h1 hb.1

/-- …hence, while the file stays in place, with a silent writer the fsnotify goroutine and the reader
    deliver at least one more byte after finitely many steps (every appended byte is eventually
    delivered under a fair schedule); `nstep_terminates` bounds every such run. -/
theorem unread_eventually_delivered (c0 : List β) (tail reopen : Bool) {s : NSt β}
    (hr : NReach (srcN reopen) (ninit (some c0) tail) s) (hrm : s.removes = 0) (h : Handle)
    (hf : s.f = some h) (hu : unread s.fs h ≠ []) :
    ∃ s' bs, NSysReach (srcN reopen) s s' ∧ bs ≠ [] ∧ s'.delivered = s.delivered ++ bs := by
  have hi := ninv_reach (capW_ok reopen) (capD_ok reopen) (some c0) tail hr
  have hne : s.rd ≠ .ended := by
    intro he; have := (hi.ended he).2.1; omega
  exact eventually_delivered (capW_ok reopen) (capD_ok reopen) hi hrm h hf hu hne

/-- Every step of the fsnotify goroutine or the reader delivers a byte or decreases the measure
    `nmu`: between two deliveries they take at most `nmu` steps, whatever the schedule. -/
theorem nstep_terminates (cfg : NCfg) {w : Who} {s s' : NSt β} (hw : w ≠ .writer) (hs : NStep cfg w s s') :
    (∃ bs, bs ≠ [] ∧ s'.delivered = s.delivered ++ bs) ∨ nmu s' < nmu s :=
  nstep_measure hw hs

/-- The polling reader never blocks: until it has returned EOF it always has a next step… -/
theorem poll_never_blocks (c0 : Option (List β)) (tail reopen : Bool) {s : PSt β}
    (hr : PReach (srcP reopen) (pinit c0 tail) s) (hne : s.rd ≠ .ended) :
    ∃ s', PStep (srcP reopen) .reader s s' :=
  poll_progress (pinv_reach (cfg := srcP reopen) c0 tail hr) hne

/-- …and while the file stays in place unread bytes are delivered after finitely many reader steps. -/
theorem poll_unread_eventually_delivered (c0 : List β) (tail reopen : Bool) {s : PSt β}
    (hr : PReach (srcP reopen) (pinit (some c0) tail) s) (hrm : s.removes = 0)
    (hu : unread s.fs ⟨0, start0 (some c0) tail, s.readBytes⟩ ≠ []) :
    ∃ s' bs, PSysReach (srcP reopen) s s' ∧ bs ≠ [] ∧ s'.delivered = s.delivered ++ bs :=
  poll_eventually_delivered_aux (attempts_ok reopen) rfl _ s (Nat.le_refl _)
    (pinv_reach (cfg := srcP reopen) (some c0) tail hr) hrm hu

/-! ## blocks rather than ends while the file exists -/

/-- **blocks_while_exists.** `Read` returns EOF only in plain follow and only after a removal; in
    particular never while the file has stayed in place, and never in re-open mode. -/
theorem blocks_while_exists (c0 : Option (List β)) (tail reopen : Bool) {s : NSt β}
    (hr : NReach (srcN reopen) (ninit c0 tail) s) (he : s.rd = .ended) :
    reopen = false ∧ 0 < s.removes := by
  have h := (ninv_reach (capW_ok reopen) (capD_ok reopen) c0 tail hr).ended he
  exact ⟨h.1, h.2.1⟩

theorem blocks_while_exists_poll (c0 : List β) (tail reopen : Bool) {s : PSt β}
    (hr : PReach (srcP reopen) (pinit (some c0) tail) s) (he : s.rd = .ended) :
    reopen = false ∧ 0 < s.removes := by
  have h := (pinv_reach (cfg := srcP reopen) (some c0) tail hr).ended he
  exact ⟨h.1, h.2 rfl⟩

/-! ## plain follow ends after removal -/

/-- **plain_ends_after_removal (notify).** In plain follow, once the file was removed the delete
    signal is latched (token or undelivered event) until the stream has ended, the fsnotify goroutine
    and the reader can always move until then, and some run of theirs ends the stream… -/
theorem plain_ends_after_removal (c0 : Option (List β)) (tail : Bool) {s : NSt β}
    (hr : NReach (srcN false) (ninit c0 tail) s) (hrm : 0 < s.removes) :
    (s.rd = .ended ∨ 0 < s.pd ∨ Ev.remove ∈ s.evq) ∧
    ∃ s', NSysReach (srcN false) s s' ∧ s'.rd = .ended := by
  have hi := ninv_reach (capW_ok false) (capD_ok false) c0 tail hr
  exact ⟨hi.latch rfl hrm, plain_ends_aux (capW_ok false) (capD_ok false) rfl _ s (Nat.le_refl _) hi hrm⟩

/-- …and every run does: each step of goroutine or reader in plain follow decreases `nmuP`. -/
theorem plain_steps_terminate {w : Who} {s s' : NSt β} (hw : w ≠ .writer) (hs : NStep (srcN false) w s s') :
    nmuP s' < nmuP s :=
  plain_step_measure hw hs rfl

/-- The stream that ended is a prefix of the file's content after the start position (bytes appended
    between the reader's last read and the removal are the only ones that can be missing – hence
    "remove-after-drain" in the property). -/
theorem plain_stream_is_prefix (c0 : Option (List β)) (tail : Bool) {s : NSt β}
    (hr : NReach (srcN false) (ninit c0 tail) s) :
    s.delivered = segments s.fs.content (s.hist ++ s.f.toList) ∧
    ((s.hist ++ s.f.toList).map (·.ino)).Pairwise (· < ·) :=
  ⟨(ninv_reach (capW_ok false) (capD_ok false) c0 tail hr).core.deliv,
   (ninv_reach (capW_ok false) (capD_ok false) c0 tail hr).incr⟩

/-- **remove-after-drain.** Plain notify follow: if the reader had delivered everything when the file
    was removed (no unread bytes at the moment of the removal), then in every state reachable
    afterwards – in particular when the stream has ended – the delivered stream is exactly the whole
    content of the file after the start position, whatever is created or appended at the path later. -/
theorem plain_delivers_all_when_removed_after_drain (c0 : List β) (tail : Bool) {s s2 : NSt β}
    (hr : NReach (srcN false) (ninit (some c0) tail) s) (hrm : s.removes = 0)
    (hdr : ∀ h, s.f = some h → unread s.fs h = [])
    (hr2 : NReach (srcN false)
      { s with fs := s.fs.remove, evq := s.evq ++ [.remove], removes := s.removes + 1 } s2) :
    s2.delivered = (s.fs.content 0).drop (start0 (some c0) tail) := by
  have hi := ninv_reach (capW_ok false) (capD_ok false) (some c0) tail hr
  obtain ⟨h1, h2, p, h3⟩ := hi.inPlace rfl hrm
  have hs := hi.strong ⟨0, start0 (some c0) tail, p⟩ (by simp [h3])
  have hu := hdr _ h3
  simp only [unread, List.drop_eq_nil_iff] at hu
  have hp : p = (s.fs.content 0).length := by simp only at hs; omega
  subst hp
  have hd1 : Drained (s.fs.content 0) (start0 (some c0) tail)
      { s with fs := s.fs.remove, evq := s.evq ++ [.remove], removes := s.removes + 1 } :=
    ⟨rfl, by simp [h1, h3], by simp [FS.remove], hi.core.pathLt 0 h2, by intro i hi'; cases hi'⟩
  have hd2 := drained_reach rfl hd1 hr2
  have hi2 := ninv_reach (capW_ok false) (capD_ok false) (some c0) tail
    (NReach.trans' (.step hr (.remove s 0 h2)) hr2)
  have := hi2.core.deliv
  rw [hd2.handles] at this
  rw [this]
  simp only [segments, List.flatMap_cons, List.flatMap_nil, List.append_nil, hd2.content, extract]
  exact List.take_of_length_le (by simp)

/-- **plain_ends_after_removal (poll).** Plain polling follow: while the path is empty and the writer
    is silent, the reader delivers what is left in the old file, does its `ReadAttempts` empty reads,
    `Stat`s and returns EOF (some run – and, the reader being deterministic up to the size of each
    read, every run – ends the stream).  A file re-created before the poller looks is not noticed by
    plain polling follow (`Stat` succeeds, the old descriptor is kept): the hypothesis `path = none`
    is the "file stays away" part of the property. -/
theorem plain_ends_after_removal_poll (c0 : Option (List β)) (tail : Bool) {s : PSt β}
    (hr : PReach (srcP false) (pinit c0 tail) s) (hp : s.fs.path = none) :
    ∃ s', PSysReach (srcP false) s s' ∧ s'.rd = .ended :=
  poll_plain_ends_aux rfl _ s (Nat.le_refl _) (pinv_reach (cfg := srcP false) c0 tail hr) hp

/-! ## re-open follow -/

/-- **reopen_reads_new_from_start (notify), safety.** Every file the reader opens after the start is
    read from its beginning (`start = 0`; only the initial handle may start elsewhere: `--tail`), files
    are opened in creation order and none twice (inode ids strictly increase along the handles): no
    duplicate delivery after a re-open. -/
theorem reopen_reads_new_from_start (c0 : Option (List β)) (tail reopen : Bool) {s : NSt β}
    (hr : NReach (srcN reopen) (ninit c0 tail) s) :
    (∀ h ∈ s.hist ++ s.f.toList, h.start = 0 ∨ (h.ino = 0 ∧ h.start = start0 c0 tail)) ∧
    ((s.hist ++ s.f.toList).map (·.ino)).Pairwise (· < ·) ∧
    s.delivered = segments s.fs.content (s.hist ++ s.f.toList) := by
  have h := ninv_reach (capW_ok reopen) (capD_ok reopen) c0 tail hr
  exact ⟨h.starts, h.incr, h.core.deliv⟩

/-- **reopen_reads_new_from_start (notify), no lost re-open.** In re-open mode, whenever a file exists
    at the path that the reader does not have open, a signal that will make it look is pending, and
    with a silent writer some run of goroutine + reader ends with that file open
    (`reopen_steps_terminate`: every run does). -/
theorem reopen_eventually_opens_new (c0 : Option (List β)) (tail : Bool) {s : NSt β}
    (hr : NReach (srcN true) (ninit c0 tail) s) (j : Nat) (hp : s.fs.path = some j) :
    (onPath s j ∨ 0 < s.pw ∨ Ev.create ∈ s.evq ∨ 0 < s.pd ∨ Ev.remove ∈ s.evq) ∧
    ∃ s', NSysReach (srcN true) s s' ∧ onPath s' j := by
  have hi := ninv_reach (capW_ok true) (capD_ok true) c0 tail hr
  refine ⟨?_, eventually_reopened_aux (capW_ok true) (capD_ok true) rfl j _ s (Nat.le_refl _) hi hp⟩
  cases hf : s.f with
  | none => exact Or.inr (hi.fresh rfl hf j hp)
  | some x =>
    by_cases hx : x.ino = j
    · exact Or.inl ⟨x, hf, hx⟩
    · have : s.fs.path ≠ some x.ino := by
        intro he; rw [hp] at he; simp only [Option.some.injEq] at he; exact hx he.symm
      exact Or.inr (Or.inr (Or.inr (hi.gone x hf this)))

theorem reopen_steps_terminate {w : Who} {s s' : NSt β} (hw : w ≠ .writer) (hs : NStep (srcN true) w s s')
    (j : Nat) (hp : s.fs.path = some j) : onPath s' j ∨ nmuP s' < nmuP s :=
  reopen_step_measure hw hs rfl j hp

/-- **reopen_reads_new_from_start (poll), under the proviso.** As long as every re-open of a replaced
    file happened under the stated proviso – the new file was shorter than the old offset when the
    poller looked (`skips = 0` counts the re-opens with `readBytes ≤ size`, `0 < readBytes` of a file
    other than the one already open at that offset) – every file opened after the start is read from
    its beginning. -/
theorem reopen_reads_new_from_start_poll (c0 : Option (List β)) (tail : Bool) {s : PSt β}
    (hr : PReach (srcP true) (pinit c0 tail) s) (hsk : s.skips = 0) :
    (∀ h ∈ s.hist ++ s.f.toList, h.start = 0 ∨ (h.ino = 0 ∧ h.start = start0 c0 tail)) ∧
    s.delivered = segments s.fs.content (s.hist ++ s.f.toList) := by
  have h := pinv_reach (cfg := srcP true) c0 tail hr
  exact ⟨h.starts hsk, h.core.deliv⟩

/-- The proviso is exactly what keeps `skips` at zero: a re-open after a `Stat` that reported a size
    below `readBytes` restarts at offset 0 and does not count as a skip. -/
theorem poll_reopen_under_proviso {s : PSt β} (sz : Nat) (hlt : sz < s.readBytes) :
    (openStep s sz).skips = s.skips ∧ (openStep s sz).readBytes = 0 ∧ (openStep s sz).f = openAt s.fs 0 := by
  have hm : merges s sz = false := by
    simp only [merges]
    cases s.f with
    | none => rfl
    | some h =>
      cases s.fs.path with
      | none => rfl
      | some j => simp; intro _ hle; omega
  have hn : ¬ s.readBytes ≤ sz := by omega
  simp [openStep, hm, openNew, hn]

/-- Outside the proviso (expected behaviour, recorded): old file `[1,2,3]` fully delivered, removed,
    new file `[7,8,9,10]` already longer than the old offset when the poller looks → the poller seeks
    to offset 3 of the NEW file and delivers only `[10]`: the first three bytes are never delivered. -/
theorem poll_outside_proviso_skips :
    ∃ s : PSt Nat, PReach ⟨1, true⟩ (pinit (some [1, 2, 3]) false) s ∧
      s.fs.content 1 = [7, 8, 9, 10] ∧ s.delivered = [1, 2, 3, 10] ∧ s.skips = 1 := by
  have hr : PReach ⟨1, true⟩ (pinit (some [(1 : Nat), 2, 3]) false) _ :=
    .step (.step (.step (.step (.step (.step (.step (.step (.step (.refl (s0 := pinit (some [(1 : Nat), 2, 3]) false))
    (.readSome _ ⟨0, 0, 0⟩ 0 3 rfl (by decide) rfl (by decide) (by decide)))
    (.remove _ 0 rfl)) (.create _ rfl)) (.append _ 1 [7, 8, 9, 10] rfl (by decide)))
    (.readEmpty _ ⟨0, 0, 3⟩ 0 rfl (by decide) rfl rfl)) (.loopDone _ ⟨0, 0, 3⟩ rfl rfl))
    (.statDiff _ 1 rfl rfl rfl (by decide))) (.reopen _ 4 rfl))
    (.readSome _ ⟨1, 3, 3⟩ 0 1 rfl (by decide) rfl (by decide) (by decide))
  exact ⟨_, hr, rfl, rfl, rfl⟩

/-! ## non-vacuity -/

/-- A rotation handled in the order that used to lose the wake-up (create signal received before the
    delete signal): `[1]` delivered, file removed, new file `[2,3]`; the reader takes the write signal
    first (no-op, old file still open), then the delete signal, re-opens and delivers `[2,3]`. -/
example : ∃ s : NSt Nat, NReach (srcN true) (ninit (some [1]) false) s ∧ s.delivered = [1, 2, 3] ∧
    s.f = some ⟨1, 0, 2⟩ ∧ s.hist = [⟨0, 0, 1⟩] := by
  have hr : NReach (srcN true) (ninit (some [(1 : Nat)]) false) _ :=
    .step (.step (.step (.step (.step (.step (.step (.step (.step (.step (.step (.step
    (.refl (s0 := ninit (some [(1 : Nat)]) false))
    (.readSome _ ⟨0, 0, 0⟩ 1 rfl rfl (by decide) (by decide)))
    (.remove _ 0 rfl)) (.create _ rfl)) (.append _ 1 [2, 3] rfl (by decide)))
    (.dispatch _ .remove [.create, .write] rfl)) (.dispatch _ .create [.write] rfl))
    (.dispatch _ .write [] rfl))
    (.readEmpty _ ⟨0, 0, 1⟩ rfl rfl rfl)) (.recvW _ rfl (by decide)))
    (.readEmpty _ ⟨0, 0, 1⟩ rfl rfl rfl)) (.recvD _ rfl (by decide) rfl))
    (.readSome _ ⟨1, 0, 0⟩ 2 rfl rfl (by decide) (by decide))
  exact ⟨_, hr, rfl, rfl, rfl⟩

/-- `--tail` in place: start position 2, one append, delivered = exactly the appended bytes. -/
example : ∃ s : NSt Nat, NReach (srcN false) (ninit (some [8, 9]) true) s ∧ s.removes = 0 ∧
    s.delivered = [5, 6] ∧ InPlaceOK (s.fs.content 0) s.delivered 2 4 := by
  have hr : NReach (srcN false) (ninit (some [(8 : Nat), 9]) true) _ :=
    .step (.step (.step (.step (.step (.refl (s0 := ninit (some [(8 : Nat), 9]) true))
    (.readEmpty _ ⟨0, 2, 2⟩ rfl rfl rfl)) (.append _ 0 [5, 6] rfl (by decide)))
    (.dispatch _ .write [] rfl)) (.recvW _ rfl (by decide)))
    (.readSome _ ⟨0, 2, 2⟩ 2 rfl rfl (by decide) (by decide))
  exact ⟨_, hr, rfl, rfl, ⟨by decide, by decide, rfl⟩⟩

/-- The hypotheses of `unread_eventually_delivered` are satisfiable with the reader in its `select`:
    unread bytes, reader selecting, and indeed a write event is still queued. -/
example : ∃ s : NSt Nat, NReach (srcN false) (ninit (some []) false) s ∧ s.removes = 0 ∧
    s.rd = .selecting ∧ unread s.fs ⟨0, 0, 0⟩ = [4] ∧ Ev.write ∈ s.evq := by
  have hr : NReach (srcN false) (ninit (some ([] : List Nat)) false) _ :=
    .step (.step (.refl (s0 := ninit (some ([] : List Nat)) false))
    (.readEmpty _ ⟨0, 0, 0⟩ rfl rfl rfl)) (.append _ 0 [4] rfl (by decide))
  exact ⟨_, hr, rfl, rfl, rfl, by decide⟩

/-- Plain polling follow: a reachable ended state exists (after a removal), with everything delivered. -/
example : ∃ s : PSt Nat, PReach ⟨1, false⟩ (pinit (some [1, 2]) false) s ∧ s.rd = .ended ∧
    s.delivered = [1, 2] ∧ 0 < s.removes := by
  have hr : PReach ⟨1, false⟩ (pinit (some [(1 : Nat), 2]) false) _ :=
    .step (.step (.step (.step (.step (.refl (s0 := pinit (some [(1 : Nat), 2]) false))
    (.readSome _ ⟨0, 0, 0⟩ 0 2 rfl (by decide) rfl (by decide) (by decide)))
    (.remove _ 0 rfl)) (.readEmpty _ ⟨0, 0, 2⟩ 0 rfl (by decide) rfl rfl))
    (.loopDone _ ⟨0, 0, 2⟩ rfl rfl)) (.statGone _ rfl rfl rfl)
  exact ⟨_, hr, rfl, rfl, by decide⟩

end Rare.C15
