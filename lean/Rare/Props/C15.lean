import Rare.Proofs.C15NotifyLive
import Rare.Proofs.C15PollLive
import Rare.Proofs.C15PollPlain
import Rare.Proofs.C15Drained
import Rare.Proofs.C15TailSpec
import Rare.Proofs.C15Live
import Rare.Model.C15Skeleton
import Rare.Proofs.C15Flush
import Rare.Proofs.C15MultiTail
import Rare.Proofs.C15TraceTail
import Rare.Proofs.C15Trunc
import Rare.Proofs.C15Starve
import Rare.Proofs.C15Api
import Rare.Proofs.C15Rename
import Rare.Proofs.C15StatOpen
import Rare.Proofs.C15StatOpenFull
import Rare.Proofs.C15Replace
import Rare.Proofs.C15CatchUp
import Rare.Proofs.C15PollFull
import Rare.Model.C15Wiring
import Rare.Model.C15Open
import Rare.Model.C15Switch
import Rare.Gen.C15
/-!
# C15 — follow mode delivers every appended byte exactly once, in order

Theorems about the transition systems `NStep` (notify.go) and `PStep` (poller.go) of
`Rare.Model.C15`, for ALL reachable states, i.e. for every finite history of
{append, remove, create} and every interleaving with the fsnotify goroutine and the reader.
The configurations are built from the constants regenerated from /repo (`Rare.Gen.C15`): channel
capacities and `ReadAttempts`; the hypotheses `1 ≤ capacity` / `1 ≤ ReadAttempts` are discharged
by `decide` on the generated values, so an unbuffered signal channel or `ReadAttempts = 0` in /repo
breaks these theorems.

Observation point (b) – the batches of `batchers.TailFilesToChan` – is the composition
`Rare.Model.C15Tail`: the follow reader's delivered stream (of a reachable state of the LTS) read by
the scanner of C04 (`Rare.C04.Imm`) inside the time-flush batching loop with the batch slice as a
heap object (`Rare.Model.C15Batch`): `tail_batches_concat`, `batch_contents_stable`,
`tail_follow_batches…`; `batch_heap_refines_batcher` transfers C01's `batches_concat`.

Assumptions (not proved): the atomicity granularity of the model; inotify reports every Write /
Remove / Create of the followed name, after the operation, in order, without queue overflow; the
Go scheduler is fair to the fsnotify goroutine and the reader (liveness statements are of the form
"some run of kernel goroutine + reader reaches …" together with a measure that every such step
decreases).  Out of the model: a writer that keeps appending to a file after it was unlinked or
renamed away.  A file renamed ONTO the followed path (atomic replace) is in the model since the `fix:` commit
f4a9570 (section "a file renamed ONTO the followed path"; `Create` raises the delete signal too with -F).
Rotation by rename (the followed file moved away) is in the model since the `fix:` commit 4cc14c1 (section
"rotation by rename").  In-place truncation (copytruncate) is outside the property; what
the readers do then is modelled by the extended systems of `Rare.Model.C15Trunc` and recorded in the
section "in-place truncation" below.
-/
namespace Rare.C15
open Rare.Follow Rare.C15.Spec Rare.C04 Rare.C15.Tail Rare.C15.Batch

variable {β : Type}

/-- notify.go as configured in /repo -/
def srcN (reopen : Bool) : NCfg :=
  { capW := Gen.C15.eventWriteCap, capD := Gen.C15.eventDeleteCap, reopen := reopen }

/-- poller.go with its default `ReadAttempts` -/
def srcP (reopen : Bool) : PCfg := { attempts := Gen.C15.readAttempts, reopen := reopen }

theorem capW_ok (r : Bool) : 1 ≤ (srcN r).capW := by show 1 ≤ Gen.C15.eventWriteCap; decide
theorem capD_ok (r : Bool) : 1 ≤ (srcN r).capD := by show 1 ≤ Gen.C15.eventDeleteCap; decide
theorem attempts_ok (r : Bool) : 1 ≤ (srcP r).attempts := by show 1 ≤ Gen.C15.readAttempts; decide

/-- The code regenerated from /repo has the shape the transition systems model: non-blocking
    sends, which event becomes which signal, the two `Read` loops and the re-open conditions. -/
theorem skeleton_matches_source :
    Gen.C15.signalIsNonBlocking = true ∧
    Gen.C15.watcherSwitch = Expected.watcherSwitch ∧
    Gen.C15.watcherSkeleton = Expected.watcherSkeleton ∧
    Gen.C15.notifyReadSkeleton = Expected.notifyReadSkeleton ∧
    Gen.C15.notifyReadConds = Expected.notifyReadConds ∧
    Gen.C15.reopenIfReplacedConds = Expected.reopenIfReplacedConds ∧
    Gen.C15.pollReadSkeleton = Expected.pollReadSkeleton ∧
    Gen.C15.pollReadConds = Expected.pollReadConds := by
  refine ⟨rfl, rfl, rfl, rfl, rfl, rfl, rfl, rfl⟩

/-- **dispatch_matches_source.**  The watcher's `switch` regenerated from /repo AS DATA
    (`Gen.C15.watcherSignals`: Op bit, `s.ReOpen` requirement, signals with their `if s.ReOpen` guards) does,
    for every configuration and state, exactly what the transition system's `dispatch1` does – for Write,
    Remove, Create (write signal, plus the delete signal with re-open: the repair of the atomic replace), for a
    Rename of the followed name (`renameEv`: delete signal with re-open, nothing without) and for an event kind
    without a case (Chmod: nothing). -/
theorem dispatch_matches_source (cfg : NCfg) (s : NSt β) :
    dispatch1 cfg s .write = applySignals cfg s (switchSignals Gen.C15.watcherSignals cfg.reopen opWrite) ∧
    dispatch1 cfg s .remove = applySignals cfg s (switchSignals Gen.C15.watcherSignals cfg.reopen opRemove) ∧
    dispatch1 cfg s .create = applySignals cfg s (switchSignals Gen.C15.watcherSignals cfg.reopen opCreate) ∧
    dispatch1 cfg s (renameEv cfg) = applySignals cfg s (switchSignals Gen.C15.watcherSignals cfg.reopen opRename) ∧
    dispatch1 cfg s .other = applySignals cfg s (switchSignals Gen.C15.watcherSignals cfg.reopen opChmod) := by
  cases hre : cfg.reopen <;>
    simp [switchSignals, applySignals, Gen.C15.watcherSignals, dispatch1, renameEv, hre,
      opWrite, opRemove, opCreate, opRename, opChmod, List.find?]

/-- Non-vacuity / what the table says: with re-open a Create raises both signals, without only the write signal. -/
example : switchSignals Gen.C15.watcherSignals true opCreate = [0, 1] ∧
    switchSignals Gen.C15.watcherSignals false opCreate = [0] ∧
    switchSignals Gen.C15.watcherSignals true opRename = [1] ∧
    switchSignals Gen.C15.watcherSignals false opRename = [] := by decide

/-! ## no loss, no duplication, in order -/

/-- **delivered_is_prefix (notify).** While the file stays in place (no removal so far), in every
    reachable state, for start-of-file and `--tail`, with or without re-open: the delivered stream is
    exactly the bytes of the file between the start position and the reader's offset. -/
theorem delivered_is_prefix (c0 : List β) (tail reopen : Bool) {s : NSt β}
    (hr : NReach (srcN reopen) (ninit (some c0) tail) s) (hrm : s.removes = 0) :
    ∃ pos, s.f = some ⟨0, start0 (some c0) tail, pos⟩ ∧
      InPlaceOK (s.fs.content 0) s.delivered (start0 (some c0) tail) pos := by
  have h := ninv_reach (capW_ok reopen) (capD_ok reopen) (some c0) tail hr
  obtain ⟨h1, _, p, h3⟩ := h.inPlace rfl hrm
  refine ⟨p, h3, ?_⟩
  have hb := h.core.bounds ⟨0, start0 (some c0) tail, p⟩ (by simp [h3])
  have hs := h.strong ⟨0, start0 (some c0) tail, p⟩ (by simp [h3])
  refine ⟨hb.1, hs, ?_⟩
  have := h.core.deliv
  rw [h1, h3] at this
  simpa [segments] using this

/-- **delivered_is_prefix (poll).** Same statement for the polling reader; its offset is `readBytes`
    (the re-open of the same file at the same offset that `Read` may perform changes nothing). -/
theorem delivered_is_prefix_poll (c0 : List β) (tail reopen : Bool) {s : PSt β}
    (hr : PReach (srcP reopen) (pinit (some c0) tail) s) (hrm : s.removes = 0) :
    s.f = some ⟨0, start0 (some c0) tail, s.readBytes⟩ ∧
      InPlaceOK (s.fs.content 0) s.delivered (start0 (some c0) tail) s.readBytes := by
  have h := pinv_reach (cfg := srcP reopen) (some c0) tail hr
  obtain ⟨h1, _, h3, h4, _⟩ := h.inPlace rfl hrm
  refine ⟨h3, ?_⟩
  have hb := h.core.bounds ⟨0, start0 (some c0) tail, s.readBytes⟩ (by simp [h3])
  refine ⟨hb.1, h4, ?_⟩
  have := h.core.deliv
  rw [h1, h3] at this
  simpa [segments] using this

/-- Across removals and re-creations (any history, file present or absent at the start): the
    delivered stream is the concatenation of one segment per file handle, each within its file. -/
theorem delivered_is_segments (c0 : Option (List β)) (tail reopen : Bool) {s : NSt β}
    (hr : NReach (srcN reopen) (ninit c0 tail) s) :
    s.delivered = segments s.fs.content (s.hist ++ s.f.toList) ∧
    ∀ h ∈ s.hist ++ s.f.toList, h.start ≤ h.pos ∧ h.pos ≤ (s.fs.content h.ino).length := by
  have h := ninv_reach (capW_ok reopen) (capD_ok reopen) c0 tail hr
  exact ⟨h.core.deliv, fun x hx => ⟨(h.core.bounds x hx).1, h.strong x hx⟩⟩

theorem delivered_is_segments_poll (c0 : Option (List β)) (tail reopen : Bool) {s : PSt β}
    (hr : PReach (srcP reopen) (pinit c0 tail) s) :
    s.delivered = segments s.fs.content (s.hist ++ s.f.toList) ∧
    ∀ h ∈ s.hist ++ s.f.toList, h.start ≤ h.pos ∧
      (h.pos ≤ (s.fs.content h.ino).length ∨ h.pos = h.start) := by
  have h := pinv_reach (cfg := srcP reopen) c0 tail hr
  exact ⟨h.core.deliv, fun x hx => ⟨(h.core.bounds x hx).1, (h.core.bounds x hx).2.1⟩⟩

/-! ## no lost wake-up -/

/-- **no_lost_wakeup.** If the open file has unread bytes then a write signal is pending (a token in
    `eventWrite` or a Write event the goroutine has not dispatched yet) or the reader is not in its
    `select`: the reader is never blocked in front of unread data. -/
theorem no_lost_wakeup (c0 : Option (List β)) (tail reopen : Bool) {s : NSt β}
    (hr : NReach (srcN reopen) (ninit c0 tail) s) (h : Handle) (hf : s.f = some h)
    (hu : unread s.fs h ≠ []) : (0 < s.pw ∨ Ev.write ∈ s.evq) ∨ s.rd ≠ .selecting := by
  have hi := ninv_reach (capW_ok reopen) (capD_ok reopen) c0 tail hr
  rcases hi.wake h hf hu with h1 | h1 | h1
  · exact Or.inl (Or.inl h1)
  · exact Or.inl (Or.inr h1)
  · exact Or.inr h1

/-- In particular the reader is never blocked (in `select`, both channels empty) in front of unread
    data unless the kernel goroutine still has the Write event to dispatch. -/
theorem never_blocked_on_unread (c0 : Option (List β)) (tail reopen : Bool) {s : NSt β}
    (hr : NReach (srcN reopen) (ninit c0 tail) s) (h : Handle) (hf : s.f = some h)
    (hu : unread s.fs h ≠ []) : ¬ (s.blocked ∧ Ev.write ∉ s.evq) := by
  rintro ⟨hb, hq⟩
  rcases no_lost_wakeup c0 tail reopen hr h hf hu with (h1 | h1) | h1
  · have := hb.2.1; omega
  · exact hq h1
  · exact h1 hb.1

/-- …hence, while the file stays in place, with a silent writer the fsnotify goroutine and the reader
    deliver at least one more byte after finitely many steps (every appended byte is eventually
    delivered under a fair schedule); `nstep_terminates` bounds every such run. -/
theorem unread_eventually_delivered (c0 : List β) (tail reopen : Bool) {s : NSt β}
    (hr : NReach (srcN reopen) (ninit (some c0) tail) s) (hrm : s.removes = 0) (h : Handle)
    (hf : s.f = some h) (hu : unread s.fs h ≠ []) :
    ∃ s' bs, NSysReach (srcN reopen) s s' ∧ bs ≠ [] ∧ s'.delivered = s.delivered ++ bs := by
  have hi := ninv_reach (capW_ok reopen) (capD_ok reopen) (some c0) tail hr
  have hne : s.rd ≠ .ended := by
    intro he; have := (hi.ended he).2.1; omega
  exact eventually_delivered (capW_ok reopen) (capD_ok reopen) hi rfl hrm h hf hu hne

/-- Every step of the fsnotify goroutine or the reader delivers a byte or decreases the measure
    `nmu`: between two deliveries they take at most `nmu` steps, whatever the schedule. -/
theorem nstep_terminates (cfg : NCfg) {w : Who} {s s' : NSt β} (hw : w ≠ .writer) (hs : NStep cfg w s s') :
    (∃ bs, bs ≠ [] ∧ s'.delivered = s.delivered ++ bs) ∨ nmu s' < nmu s :=
  nstep_measure hw hs

/-- The polling reader never blocks: until it has returned EOF it always has a next step… -/
theorem poll_never_blocks (c0 : Option (List β)) (tail reopen : Bool) {s : PSt β}
    (hr : PReach (srcP reopen) (pinit c0 tail) s) (hne : s.rd ≠ .ended) :
    ∃ s', PStep (srcP reopen) .reader s s' :=
  poll_progress (pinv_reach (cfg := srcP reopen) c0 tail hr) hne

/-- …and while the file stays in place unread bytes are delivered after finitely many reader steps. -/
theorem poll_unread_eventually_delivered (c0 : List β) (tail reopen : Bool) {s : PSt β}
    (hr : PReach (srcP reopen) (pinit (some c0) tail) s) (hrm : s.removes = 0)
    (hu : unread s.fs ⟨0, start0 (some c0) tail, s.readBytes⟩ ≠ []) :
    ∃ s' bs, PSysReach (srcP reopen) s s' ∧ bs ≠ [] ∧ s'.delivered = s.delivered ++ bs :=
  poll_eventually_delivered_aux (attempts_ok reopen) rfl _ s (Nat.le_refl _)
    (pinv_reach (cfg := srcP reopen) (some c0) tail hr) hrm hu

/-! ## blocks rather than ends while the file exists -/

/-- **blocks_while_exists.** `Read` returns EOF only in plain follow and only after a removal; in
    particular never while the file has stayed in place, and never in re-open mode. -/
theorem blocks_while_exists (c0 : Option (List β)) (tail reopen : Bool) {s : NSt β}
    (hr : NReach (srcN reopen) (ninit c0 tail) s) (he : s.rd = .ended) :
    reopen = false ∧ 0 < s.removes := by
  have h := (ninv_reach (capW_ok reopen) (capD_ok reopen) c0 tail hr).ended he
  exact ⟨h.1, h.2.1⟩

theorem blocks_while_exists_poll (c0 : List β) (tail reopen : Bool) {s : PSt β}
    (hr : PReach (srcP reopen) (pinit (some c0) tail) s) (he : s.rd = .ended) :
    reopen = false ∧ 0 < s.removes := by
  have h := (pinv_reach (cfg := srcP reopen) (some c0) tail hr).ended he
  exact ⟨h.1, h.2 rfl⟩

/-! ## plain follow ends after removal -/

/-- **plain_ends_after_removal (notify).** In plain follow, once the file was removed the delete
    signal is latched (token or undelivered event) until the stream has ended, the fsnotify goroutine
    and the reader can always move until then, and some run of theirs ends the stream… -/
theorem plain_ends_after_removal (c0 : Option (List β)) (tail : Bool) {s : NSt β}
    (hr : NReach (srcN false) (ninit c0 tail) s) (hrm : 0 < s.removes) :
    (s.rd = .ended ∨ 0 < s.pd ∨ Ev.remove ∈ s.evq) ∧
    ∃ s', NSysReach (srcN false) s s' ∧ s'.rd = .ended := by
  have hi := ninv_reach (capW_ok false) (capD_ok false) c0 tail hr
  exact ⟨hi.latch rfl hrm, plain_ends_aux (capW_ok false) (capD_ok false) rfl _ s (Nat.le_refl _) hi hrm⟩

/-- …and every run does: each step of goroutine or reader in plain follow decreases `nmuP`. -/
theorem plain_steps_terminate {w : Who} {s s' : NSt β} (hw : w ≠ .writer) (hs : NStep (srcN false) w s s') :
    nmuP s' < nmuP s :=
  plain_step_measure hw hs rfl

/-- The stream that ended is a prefix of the file's content after the start position (bytes appended
    between the reader's last read and the removal are the only ones that can be missing – hence
    "remove-after-drain" in the property). -/
theorem plain_stream_is_prefix (c0 : Option (List β)) (tail : Bool) {s : NSt β}
    (hr : NReach (srcN false) (ninit c0 tail) s) :
    s.delivered = segments s.fs.content (s.hist ++ s.f.toList) ∧
    ((s.hist ++ s.f.toList).map (·.ino)).Pairwise (· < ·) :=
  ⟨(ninv_reach (capW_ok false) (capD_ok false) c0 tail hr).core.deliv,
   (ninv_reach (capW_ok false) (capD_ok false) c0 tail hr).incr⟩

/-- **remove-after-drain.** Plain notify follow: if the reader had delivered everything when the file
    was removed (no unread bytes at the moment of the removal), then in every state reachable
    afterwards – in particular when the stream has ended – the delivered stream is exactly the whole
    content of the file after the start position, whatever is created or appended at the path later. -/
theorem plain_delivers_all_when_removed_after_drain (c0 : List β) (tail : Bool) {s s2 : NSt β}
    (hr : NReach (srcN false) (ninit (some c0) tail) s) (hrm : s.removes = 0)
    (hdr : ∀ h, s.f = some h → unread s.fs h = [])
    (hr2 : NReach (srcN false)
      { s with fs := s.fs.remove, evq := s.evq ++ [.remove], removes := s.removes + 1 } s2) :
    s2.delivered = (s.fs.content 0).drop (start0 (some c0) tail) := by
  have hi := ninv_reach (capW_ok false) (capD_ok false) (some c0) tail hr
  obtain ⟨h1, h2, p, h3⟩ := hi.inPlace rfl hrm
  have hs := hi.strong ⟨0, start0 (some c0) tail, p⟩ (by simp [h3])
  have hu := hdr _ h3
  simp only [unread, List.drop_eq_nil_iff] at hu
  have hp : p = (s.fs.content 0).length := by simp only at hs; omega
  subst hp
  have hd1 : Drained (s.fs.content 0) (start0 (some c0) tail)
      { s with fs := s.fs.remove, evq := s.evq ++ [.remove], removes := s.removes + 1 } :=
    ⟨rfl, by simp [h1, h3], by simp [FS.remove], hi.core.pathLt 0 h2, by intro i hi'; cases hi'⟩
  have hd2 := drained_reach rfl hd1 hr2
  have hi2 := ninv_reach (capW_ok false) (capD_ok false) (some c0) tail
    (NReach.trans' (.step hr (.remove s 0 h2)) hr2)
  have := hi2.core.deliv
  rw [hd2.handles] at this
  rw [this]
  simp only [segments, List.flatMap_cons, List.flatMap_nil, List.append_nil, hd2.content, extract]
  exact List.take_of_length_le (by simp)

/-- **plain_ends_after_removal (poll).** Plain polling follow: while the path is empty and the writer
    is silent, the reader delivers what is left in the old file, does its `ReadAttempts` empty reads,
    `Stat`s and returns EOF (some run – and, the reader being deterministic up to the size of each
    read, every run – ends the stream).  A file re-created before the poller looks is not noticed by
    plain polling follow (`Stat` succeeds, the old descriptor is kept): the hypothesis `path = none`
    is the "file stays away" part of the property. -/
theorem plain_ends_after_removal_poll (c0 : Option (List β)) (tail : Bool) {s : PSt β}
    (hr : PReach (srcP false) (pinit c0 tail) s) (hp : s.fs.path = none) :
    ∃ s', PSysReach (srcP false) s s' ∧ s'.rd = .ended :=
  poll_plain_ends_aux rfl _ s (Nat.le_refl _) (pinv_reach (cfg := srcP false) c0 tail hr) hp

/-! ## re-open follow -/

/-- **reopen_reads_new_from_start (notify), safety.** Every file the reader opens after the start is
    read from its beginning (`start = 0`; only the initial handle may start elsewhere: `--tail`), files
    are opened in creation order and none twice (inode ids strictly increase along the handles): no
    duplicate delivery after a re-open. -/
theorem reopen_reads_new_from_start (c0 : Option (List β)) (tail reopen : Bool) {s : NSt β}
    (hr : NReach (srcN reopen) (ninit c0 tail) s) :
    (∀ h ∈ s.hist ++ s.f.toList, h.start = 0 ∨ (h.ino = 0 ∧ h.start = start0 c0 tail)) ∧
    ((s.hist ++ s.f.toList).map (·.ino)).Pairwise (· < ·) ∧
    s.delivered = segments s.fs.content (s.hist ++ s.f.toList) := by
  have h := ninv_reach (capW_ok reopen) (capD_ok reopen) c0 tail hr
  exact ⟨h.starts, h.incr, h.core.deliv⟩

/-- **reopen_reads_new_from_start (notify), no lost re-open.** In re-open mode, whenever a file exists
    at the path that the reader does not have open, a signal that will make it look is pending, and
    with a silent writer some run of goroutine + reader ends with that file open
    (`reopen_steps_terminate`: every run does). -/
theorem reopen_eventually_opens_new (c0 : Option (List β)) (tail : Bool) {s : NSt β}
    (hr : NReach (srcN true) (ninit c0 tail) s) (j : Nat) (hp : s.fs.path = some j) :
    (onPath s j ∨ 0 < s.pw ∨ Ev.create ∈ s.evq ∨ 0 < s.pd ∨ Ev.remove ∈ s.evq) ∧
    ∃ s', NSysReach (srcN true) s s' ∧ onPath s' j := by
  have hi := ninv_reach (capW_ok true) (capD_ok true) c0 tail hr
  refine ⟨?_, eventually_reopened_aux (capW_ok true) (capD_ok true) rfl j _ s (Nat.le_refl _) hi hp⟩
  cases hf : s.f with
  | none => exact Or.inr (hi.fresh rfl hf j hp)
  | some x =>
    by_cases hx : x.ino = j
    · exact Or.inl ⟨x, hf, hx⟩
    · have : s.fs.path ≠ some x.ino := by
        intro he; rw [hp] at he; simp only [Option.some.injEq] at he; exact hx he.symm
      rcases hi.gone x hf this with h1 | h1 | ⟨_, h1⟩
      · exact Or.inr (Or.inr (Or.inr (Or.inl h1)))
      · exact Or.inr (Or.inr (Or.inr (Or.inr h1)))
      · exact Or.inr (Or.inr (Or.inl h1))

theorem reopen_steps_terminate {w : Who} {s s' : NSt β} (hw : w ≠ .writer) (hs : NStep (srcN true) w s s')
    (j : Nat) (hp : s.fs.path = some j) : onPath s' j ∨ nmuP s' < nmuP s :=
  reopen_step_measure hw hs rfl j hp

/-- **reopen_reads_new_from_start (poll), under the proviso.** As long as every re-open of a replaced
    file happened under the stated proviso – the new file was shorter than the old offset when the
    poller looked (`skips = 0` counts the re-opens with `readBytes ≤ size`, `0 < readBytes` of a file
    other than the one already open at that offset) – every file opened after the start is read from
    its beginning. -/
theorem reopen_reads_new_from_start_poll (c0 : Option (List β)) (tail : Bool) {s : PSt β}
    (hr : PReach (srcP true) (pinit c0 tail) s) (hsk : s.skips = 0) :
    (∀ h ∈ s.hist ++ s.f.toList, h.start = 0 ∨ (h.ino = 0 ∧ h.start = start0 c0 tail)) ∧
    s.delivered = segments s.fs.content (s.hist ++ s.f.toList) := by
  have h := pinv_reach (cfg := srcP true) c0 tail hr
  exact ⟨h.starts hsk, h.core.deliv⟩

/-- The proviso is exactly what keeps `skips` at zero: a re-open after a `Stat` that reported a size
    below `readBytes` restarts at offset 0 and does not count as a skip. -/
theorem poll_reopen_under_proviso {s : PSt β} (sz : Nat) (hlt : sz < s.readBytes) :
    (openStep s sz).skips = s.skips ∧ (openStep s sz).readBytes = 0 ∧ (openStep s sz).f = openAt s.fs 0 := by
  have hm : merges s sz = false := by
    simp only [merges]
    cases s.f with
    | none => rfl
    | some h =>
      cases s.fs.path with
      | none => rfl
      | some j => simp; intro _ hle; omega
  have hn : ¬ s.readBytes ≤ sz := by omega
  simp [openStep, hm, openNew, hn]

/-- Outside the proviso (expected behaviour, recorded): old file `[1,2,3]` fully delivered, removed,
    new file `[7,8,9,10]` already longer than the old offset when the poller looks → the poller seeks
    to offset 3 of the NEW file and delivers only `[10]`: the first three bytes are never delivered. -/
theorem poll_outside_proviso_skips :
    ∃ s : PSt Nat, PReach ⟨1, true⟩ (pinit (some [1, 2, 3]) false) s ∧
      s.fs.content 1 = [7, 8, 9, 10] ∧ s.delivered = [1, 2, 3, 10] ∧ s.skips = 1 := by
  have hr : PReach ⟨1, true⟩ (pinit (some [(1 : Nat), 2, 3]) false) _ :=
    .step (.step (.step (.step (.step (.step (.step (.step (.step (.refl (s0 := pinit (some [(1 : Nat), 2, 3]) false))
    (.readSome _ ⟨0, 0, 0⟩ 0 3 rfl (by decide) rfl (by decide) (by decide)))
    (.remove _ 0 rfl)) (.create _ rfl)) (.append _ 1 [7, 8, 9, 10] rfl (by decide)))
    (.readEmpty _ ⟨0, 0, 3⟩ 0 rfl (by decide) rfl rfl)) (.loopDone _ ⟨0, 0, 3⟩ rfl rfl))
    (.statDiff _ 1 rfl rfl rfl (by decide))) (.reopen _ 4 rfl))
    (.readSome _ ⟨1, 3, 3⟩ 0 1 rfl (by decide) rfl (by decide) (by decide))
  exact ⟨_, hr, rfl, rfl, rfl⟩

/-! ## observation point (b): the batches of `batchers.TailFilesToChan` -/

/-- The batching loop and `TailFilesToChan` regenerated from /repo have the shape `Rare.C15.Batch` /
    `Rare.C15.Tail` model: `batch` is only ever assigned `make(…)` or `append(batch, …)` (so every send
    is followed by a fresh backing array – `batch = batch[:0]` anywhere breaks this theorem), the slice
    header is what is sent, the flush condition is "full or timer expired" evaluated after an append,
    the remainder is flushed after the loop, and a followed file is `followreader.New` [+ `Drain`] read
    by that loop. -/
theorem batching_loop_matches_source :
    Gen.C15.batchAssigns = Expected.batchAssigns ∧
    Gen.C15.batchSends = Expected.batchSends ∧
    Gen.C15.batchLoopConds = Expected.batchLoopConds ∧
    Gen.C15.tailFilesConds = Expected.tailFilesConds ∧
    Gen.C15.tailFilesCalls = Expected.tailFilesCalls := by
  refine ⟨rfl, rfl, rfl, rfl, rfl⟩

/-- The loop with the batch slice as a heap object (`Model/C15Batch`) sends exactly the batches of the
    value-level loop of `Model/Batcher` (for which C01 proves `batches_concat`), when every sent header
    is read through the heap at the end. -/
theorem batch_heap_refines_batcher {α : Type} (source : String) (batchSize : Nat) (ls : List (α × Bool)) :
    (Batch.run source batchSize ls).out.map (Batch.run source batchSize ls).read = Batcher.run batchSize ls :=
  run_refines source batchSize ls

/-- …so C01's `batches_concat` holds for the heap-explicit loop: read through the heap after the loop,
    the batches are a partition of the lines into non-empty runs with true 1-based line numbers. -/
theorem batch_heap_batches_concat {α : Type} (source : String) (batchSize : Nat) (ls : List (α × Bool)) :
    let bs := (Batch.run source batchSize ls).out.map (Batch.run source batchSize ls).read
    bs.flatMap Batcher.lineNumbers = (ls.map (·.1)).zipIdx 1 ∧ (∀ b ∈ bs, b.lines ≠ []) ∧
    bs.flatMap (·.lines) = ls.map (·.1) := by
  intro bs
  have hr : bs = Batcher.run batchSize ls := run_refines source batchSize ls
  have hinv := Batcher.inv_fold batchSize ls (Batcher.inv_init (α := α))
  simp only [List.nil_append] at hinv
  have hf := Batcher.finish_spec hinv
  rw [hr]
  exact ⟨hf.1, hf.2, flat_of_numbers hf.1⟩

example : ((Batch.run "f" 2 [((1 : Nat), true), (2, false), (3, false), (4, false)]).out.map
    (Batch.run "f" 2 [((1 : Nat), true), (2, false), (3, false), (4, false)]).read).map (fun b => (b.lines, b.start)) =
    [([1], 1), ([2, 3], 2), ([4], 4)] := by decide

/-- The batcher goroutine of a followed file ends when the follow reader does: for every stream, every
    shape of the `Read` calls (incl. failing ones), every timer behaviour, every batch size and every
    scanner buffer size ≥ 1 the loop reaches "channel closed" – and no `Scan()` of any of its trips
    runs out of the model's fuel. -/
theorem tail_terminates (source : String) (bufSize batchSize : Nat) (timer : Nat → Bool) (data : Bytes)
    (script : List Step) (hb : 1 ≤ bufSize) :
    (tailToChan source bufSize batchSize timer data script).status = .closed ∧
    ∀ k, (tailAfter source bufSize batchSize timer data script k).status ≠ .stuck :=
  ⟨tail_closed source bufSize batchSize timer data script hb,
   after_nostuck source bufSize batchSize timer data script hb⟩

/-- **tail_batches_concat.**  For every delivered stream `data`, every way the follow reader's `Read`
    calls cut it up (`script`, incl. a failing `Read`), every behaviour of the flush timer, every batch
    size (0 included) and scanner buffer size: the batches on the channel – each read through its slice
    header and each line through its own header, AFTER the loop has ended – are, in order, a partition
    of the lines (`splitLines`, C04) of the bytes the follow reader delivered, each line paired with
    its true 1-based line number (`lineNumbers b` pairs line `i` of `b` with `BatchStart + i`); no batch
    is empty; every batch carries the source name; the delivered bytes are a prefix of `data`, and all
    of `data` when no `Read` failed. -/
theorem tail_batches_concat (source : String) (bufSize batchSize : Nat) (timer : Nat → Bool) (data : Bytes)
    (script : List Step) (hb : 1 ≤ bufSize) :
    let t := tailToChan source bufSize batchSize timer data script
    t.numbered.flatMap Batcher.lineNumbers = (splitLines t.imm.delivered).zipIdx 1 ∧
    t.numbered.flatMap (·.lines) = splitLines t.imm.delivered ∧
    (∀ b ∈ t.numbered, b.lines ≠ []) ∧
    (∀ b ∈ t.b.out, b.source = source) ∧
    t.imm.delivered <+: data ∧
    ((∀ st ∈ script, st.err = none) → t.imm.delivered = data) := by
  intro t
  have hj : J source t := j_after source bufSize batchSize timer data script hb _
  have hc := tail_closed source bufSize batchSize timer data script hb
  obtain ⟨h1, h2, _⟩ := closed_spec hj hc
  exact ⟨h1, flat_of_numbers h1, h2, hj.src, after_delivered source bufSize batchSize timer data script hb _,
    closed_delivered source bufSize batchSize timer data script hb⟩


/-- Non-vacuity of `tail_batches_concat` / `tail_batch_start`: CRLF line, a line completed by a later
    `Read`, an unterminated last line, scanner buffer of 2 bytes (regrows), a 0-byte `Read`, timer
    expired at the first line, `batchSize = 2`. -/
example : (tailToChan "f" 2 2 (fun k => k == 0) [97, 13, 10, 98, 98, 10, 99] [⟨1, none⟩, ⟨0, none⟩, ⟨3, none⟩]).batches =
    [("f", 1, [[97]]), ("f", 2, [[98, 98], [99]])] := by decide

/-- `batchSize = 0` (not reachable from the CLI, which insists on ≥ 1): every line is its own batch. -/
example : (tailToChan "f" 2 0 (fun _ => false) [97, 13, 10, 98, 98, 10, 99] []).batches =
    [("f", 1, [[97]]), ("f", 2, [[98, 98]]), ("f", 3, [[99]])] := by decide

/-- `BatchStart` is the true line number of the batch's first line: one more than the number of lines
    in all earlier batches. -/
theorem tail_batch_start (source : String) (bufSize batchSize : Nat) (timer : Nat → Bool) (data : Bytes)
    (script : List Step) (hb : 1 ≤ bufSize) (pre post : List (Batcher.Batch Bytes)) (b : Batcher.Batch Bytes)
    (h : (tailToChan source bufSize batchSize timer data script).numbered = pre ++ b :: post) :
    b.start = 1 + (pre.flatMap (·.lines)).length := by
  obtain ⟨h1, _, h2, _⟩ := tail_batches_concat source bufSize batchSize timer data script hb
  exact numbers_start h1 pre post b h (h2 b (by rw [h]; simp))

/-- **batch_contents_stable.**  A batch, once sent, is never modified by later scanning: at every point
    `k` of the loop and after any number `j` of further trips (more `Read`s into the scanner's buffer,
    buffer regrowth, more `append`s to the batch slice, more flushes, the final flush),
    * the channel has only grown,
    * every batch that was on it reads – through its slice header into the batch heap and through each
      line's header into the scanner's buffers – exactly as it read at point `k`,
    * and that is what was recorded at the moment it was sent (`sentAt`). -/
theorem batch_contents_stable (source : String) (bufSize batchSize : Nat) (timer : Nat → Bool) (data : Bytes)
    (script : List Step) (hb : 1 ≤ bufSize) (k j : Nat) :
    let sk := tailAfter source bufSize batchSize timer data script k
    let sj := tailAfter source bufSize batchSize timer data script (k + j)
    sk.b.out <+: sj.b.out ∧
    (∀ x ∈ sk.b.out, sj.readBatch x.batch = sk.readBatch x.batch) ∧
    sk.sentAt = sk.b.out.map (fun x => sk.readBatch x.batch) ∧
    sj.sentAt = sj.b.out.map (fun x => sj.readBatch x.batch) := by
  intro sk sj
  obtain ⟨h1, h2⟩ := after_stable source bufSize batchSize timer data script hb k j
  exact ⟨h1, h2, (j_after source bufSize batchSize timer data script hb k).sent,
    (j_after source bufSize batchSize timer data script hb (k + j)).sent⟩

/-- In particular the consumer that looks at a batch only after everything has ended (late
    consumption) sees what was sent: the batches sent by trip `k` are a prefix of the final batches. -/
theorem batches_sent_are_final_prefix (source : String) (bufSize batchSize : Nat) (timer : Nat → Bool)
    (data : Bytes) (script : List Step) (hb : 1 ≤ bufSize) (k : Nat) :
    (tailAfter source bufSize batchSize timer data script k).numbered <+:
      (tailToChan source bufSize batchSize timer data script).numbered := by
  -- the final state is `tailAfter (k + j)` for a suitable `j`
  have hfin : ∃ j, tailAfter source bufSize batchSize timer data script (k + j) =
      tailToChan source bufSize batchSize timer data script := by
    by_cases hk : k ≤ budget data script
    · exact ⟨budget data script - k, by rw [Nat.add_sub_cancel' hk]; rfl⟩
    · exact ⟨0, after_closed_fix source bufSize batchSize timer data script hb k (by omega)⟩
  obtain ⟨j, hj⟩ := hfin
  obtain ⟨h1, h2⟩ := after_stable source bufSize batchSize timer data script hb k j
  rw [hj] at h1 h2
  obtain ⟨t, ht⟩ := h1
  refine ⟨t.map fun b => ⟨(tailToChan source bufSize batchSize timer data script).readBatch b.batch, b.start⟩, ?_⟩
  simp only [TSt.numbered]
  rw [← ht, List.map_append]
  congr 1
  apply List.map_congr_left
  intro x hx
  rw [h2 x hx]

/-- While the follow reader is still following (any point `k` of the loop): what has been sent plus
    what is waiting in `batch` is a numbered partition of the lines scanned so far, no sent batch is
    empty, and fewer than `batchSize` lines are waiting (they are sent when the next line arrives or
    the stream ends – there is no timer goroutine). -/
theorem tail_sent_so_far (source : String) (bufSize batchSize : Nat) (timer : Nat → Bool) (data : Bytes)
    (script : List Step) (hb : 1 ≤ bufSize) (k : Nat)
    (hrun : (tailAfter source bufSize batchSize timer data script k).status = .running) :
    let s := tailAfter source bufSize batchSize timer data script k
    s.numbered.flatMap Batcher.lineNumbers ++ s.pending.zipIdx s.b.start = (s.toks.map (·.2)).zipIdx 1 ∧
    (∀ b ∈ s.numbered, b.lines ≠ []) ∧ s.b.start + s.pending.length = 1 + s.toks.length :=
  running_spec (j_after source bufSize batchSize timer data script hb k) (by rw [hrun]; decide)


/-- Non-vacuity of `tail_sent_so_far` / `batch_contents_stable`: after two trips the loop is still
    running, one batch is on the channel and one line is waiting (it stays there until the next line
    arrives); the batch reads the same after the remaining trips. -/
example : (tailAfter "f" 2 3 (fun k => k == 0) [97, 13, 10, 98, 98, 10, 99] [] 2).status = .running ∧
    (tailAfter "f" 2 3 (fun k => k == 0) [97, 13, 10, 98, 98, 10, 99] [] 2).batches = [("f", 1, [[97]])] ∧
    (tailAfter "f" 2 3 (fun k => k == 0) [97, 13, 10, 98, 98, 10, 99] [] 2).pending = [[98, 98]] ∧
    (tailAfter "f" 2 3 (fun k => k == 0) [97, 13, 10, 98, 98, 10, 99] [] (2 + 5)).sentAt = [[[97]], [[98, 98], [99]]] := by
  decide

/-- **While the file is still being followed** (the follow reader has delivered `data` without error
    and is blocked in `Read`): the batcher goroutine is still in its loop (the channel is not closed:
    the consumer blocks rather than seeing the end), `data` splits into its newline-terminated part
    `C` and an unterminated rest that waits in the scanner's buffer, what has been sent plus the
    lines waiting in `batch` are exactly the numbered lines of `C`, no sent batch is empty, and fewer
    than `batchSize` lines are waiting – they are not lost, but they surface only when the next line
    arrives or the stream ends (the flush timer is only consulted when a line is appended). -/
theorem tail_live (source : String) (bufSize batchSize : Nat) (timer : Nat → Bool) (data : Bytes)
    (script : List Step) (hb : 1 ≤ bufSize) (hs : ∀ st ∈ script, st.err = none) :
    let s := live source bufSize batchSize timer data script
    s.status = .running ∧
    ∃ C r, data = C ++ r ∧ nl ∉ r ∧ (C = [] ∨ C.getLast? = some nl) ∧
      s.numbered.flatMap Batcher.lineNumbers ++ s.pending.zipIdx s.b.start = (splitLines C).zipIdx 1 ∧
      (∀ b ∈ s.numbered, b.lines ≠ []) ∧
      s.pending.length < max batchSize 1 := by
  intro s
  obtain ⟨hrun, C, r, h1, h2, h3, h4⟩ := live_spec source bufSize batchSize timer data script hb hs
  have hj : J source s := j_after source bufSize batchSize timer data script hb _
  obtain ⟨g1, g2, _⟩ := running_spec hj (by rw [hrun]; decide)
  refine ⟨hrun, C, r, h1, h2, h3, ?_, g2, ?_⟩
  · rw [g1, h4]
  · have hlen : s.pending.length = s.b.cur.len := by
      obtain ⟨hwf, _⟩ := hj.loop (by rw [hrun]; decide)
      simp [TSt.pending, TSt.readBatch, read_len hwf]
    rw [hlen]
    exact iterN_curBound source batchSize _ timer _ _ (by simp [TSt.init, St.init]; omega)

/-- Non-vacuity of `tail_live`: `a\n` `bb\n` delivered, `c` not yet terminated; timer expired at the
    first line: one batch sent, `bb` waiting in `batch`, `c` waiting in the scanner. -/
example : (live "f" 4 3 (fun k => k == 0) [97, 10, 98, 98, 10, 99] []).status = .running ∧
    (live "f" 4 3 (fun k => k == 0) [97, 10, 98, 98, 10, 99] []).batches = [("f", 1, [[97]])] ∧
    (live "f" 4 3 (fun k => k == 0) [97, 10, 98, 98, 10, 99] []).pending = [[98, 98]] ∧
    (live "f" 4 3 (fun k => k == 0) [97, 10, 98, 98, 10, 99] []).imm.pending = [99] := by decide

/-! ### composition with the follow reader -/

/-- **Notify follow → batches.**  In every reachable state of the notify LTS while the file stays in
    place (any history of appends, any interleaving with the fsnotify goroutine and the reader,
    start-of-file or `--tail`, with or without re-open), if the stream ends there, the batches on the
    channel are the numbered lines of exactly the bytes of the file between the start position and
    the reader's offset – for every timer behaviour, batch size and `Read` chunking. -/
theorem tail_follow_batches (c0 : Bytes) (tail reopen : Bool) {s : NSt UInt8}
    (hr : NReach (srcN reopen) (ninit (some c0) tail) s) (hrm : s.removes = 0)
    (source : String) (bufSize batchSize : Nat) (timer : Nat → Bool) (script : List Step) (hb : 1 ≤ bufSize)
    (hs : ∀ st ∈ script, st.err = none) :
    ∃ pos, s.f = some ⟨0, start0 (some c0) tail, pos⟩ ∧ pos ≤ (s.fs.content 0).length ∧
      let t := tailToChan source bufSize batchSize timer s.delivered script
      t.numbered.flatMap Batcher.lineNumbers =
        (splitLines (extract (s.fs.content 0) (start0 (some c0) tail) pos)).zipIdx 1 ∧
      (∀ b ∈ t.numbered, b.lines ≠ []) := by
  obtain ⟨pos, hf, _, hle, hd⟩ := delivered_is_prefix c0 tail reopen hr hrm
  refine ⟨pos, hf, hle, ?_⟩
  obtain ⟨h1, _, h2, _, _, h3⟩ := tail_batches_concat source bufSize batchSize timer s.delivered script hb
  intro t
  have : t.imm.delivered = s.delivered := h3 hs
  refine ⟨?_, h2⟩
  rw [← hd, ← this]; exact h1

/-- …and once the reader has caught up (nothing unread), of ALL the bytes appended after the start
    position: every appended line exactly once, in order, with its true number. -/
theorem tail_follow_batches_caught_up (c0 : Bytes) (tail reopen : Bool) {s : NSt UInt8}
    (hr : NReach (srcN reopen) (ninit (some c0) tail) s) (hrm : s.removes = 0)
    (hcu : ∀ h, s.f = some h → unread s.fs h = [])
    (source : String) (bufSize batchSize : Nat) (timer : Nat → Bool) (script : List Step) (hb : 1 ≤ bufSize)
    (hs : ∀ st ∈ script, st.err = none) :
    (tailToChan source bufSize batchSize timer s.delivered script).numbered.flatMap Batcher.lineNumbers =
      (splitLines ((s.fs.content 0).drop (start0 (some c0) tail))).zipIdx 1 := by
  obtain ⟨pos, hf, hle, h1, _⟩ := tail_follow_batches c0 tail reopen hr hrm source bufSize batchSize timer script hb hs
  have hu := hcu _ hf
  simp only [unread, List.drop_eq_nil_iff] at hu
  have hp : pos = (s.fs.content 0).length := by omega
  rw [h1, hp]
  simp only [extract]
  rw [List.take_of_length_le (by simp)]


/-- Non-vacuity of `tail_follow_batches(_caught_up)`: `--tail` on a file holding `x\n`, `a\nb` appended
    and read in one `Read`: the batches are the lines of exactly the appended bytes. -/
example : ∃ s : NSt UInt8, NReach (srcN false) (ninit (some [120, 10]) true) s ∧ s.removes = 0 ∧
    (∀ h, s.f = some h → unread s.fs h = []) ∧
    (tailToChan "f" 4 10 (fun _ => false) s.delivered []).batches = [("f", 1, [[97], [98]])] := by
  have hr : NReach (srcN false) (ninit (some [(120 : UInt8), 10]) true) _ :=
    .step (.step (.step (.step (.step (.refl (s0 := ninit (some [(120 : UInt8), 10]) true))
    (.readEmpty _ ⟨0, 2, 2⟩ rfl rfl rfl)) (.append _ 0 [97, 10, 98] rfl (by decide)))
    (.dispatch _ .write [] rfl)) (.recvW _ rfl (by decide)))
    (.readSome _ ⟨0, 2, 2⟩ 3 rfl rfl (by decide) (by decide))
  refine ⟨_, hr, rfl, ?_, by decide⟩
  intro h hf
  cases hf
  decide

/-- **Polling follow → batches.**  Same statement for the polling reader. -/
theorem tail_follow_batches_poll (c0 : Bytes) (tail reopen : Bool) {s : PSt UInt8}
    (hr : PReach (srcP reopen) (pinit (some c0) tail) s) (hrm : s.removes = 0)
    (source : String) (bufSize batchSize : Nat) (timer : Nat → Bool) (script : List Step) (hb : 1 ≤ bufSize)
    (hs : ∀ st ∈ script, st.err = none) :
    s.readBytes ≤ (s.fs.content 0).length ∧
      let t := tailToChan source bufSize batchSize timer s.delivered script
      t.numbered.flatMap Batcher.lineNumbers =
        (splitLines (extract (s.fs.content 0) (start0 (some c0) tail) s.readBytes)).zipIdx 1 ∧
      (∀ b ∈ t.numbered, b.lines ≠ []) := by
  obtain ⟨_, _, hle, hd⟩ := delivered_is_prefix_poll c0 tail reopen hr hrm
  refine ⟨hle, ?_⟩
  obtain ⟨h1, _, h2, _, _, h3⟩ := tail_batches_concat source bufSize batchSize timer s.delivered script hb
  intro t
  have : t.imm.delivered = s.delivered := h3 hs
  refine ⟨?_, h2⟩
  rw [← hd, ← this]; exact h1

/-- Across removals and re-creations (re-open follow, any history): the batches are the numbered lines
    of the concatenation of one segment per file that was opened (`delivered_is_segments`). -/
theorem tail_follow_batches_segments (c0 : Option Bytes) (tail reopen : Bool) {s : NSt UInt8}
    (hr : NReach (srcN reopen) (ninit c0 tail) s)
    (source : String) (bufSize batchSize : Nat) (timer : Nat → Bool) (script : List Step) (hb : 1 ≤ bufSize)
    (hs : ∀ st ∈ script, st.err = none) :
    (tailToChan source bufSize batchSize timer s.delivered script).numbered.flatMap Batcher.lineNumbers =
      (splitLines (segments s.fs.content (s.hist ++ s.f.toList))).zipIdx 1 := by
  obtain ⟨h1, _, _, _, _, h3⟩ := tail_batches_concat source bufSize batchSize timer s.delivered script hb
  rw [← (delivered_is_segments c0 tail reopen hr).1, h1, h3 hs]


/-! ## when do waiting lines surface?  (no timer goroutine)

`syncReaderToBatcherWithTimeFlush` evaluates `time.Since(lastBatchFlush) >= autoFlush` only right after a line
was appended to `batch`.  The liveness the code HAS is "flush on the next line"; the liveness a user of
`rare -f` might expect – "a line is on the channel at most `AutoFlushTimeout` after it was read" – it
does not have.  Both are theorems; /repo is left as it is. -/

/-- The state of the batcher goroutine blocked in `Read` (after the follow reader delivered `data`) depends
    on the flush timer only through its answers at the lines that HAVE arrived: whatever the clock does
    afterwards is not a transition of the loop. -/
theorem tail_timer_consulted_only_at_lines (source : String) (bufSize batchSize : Nat) (t1 t2 : Nat → Bool)
    (data : Bytes) (script : List Step) (h : ∀ j, j < completeLines data → t1 j = t2 j) :
    live source bufSize batchSize t1 data script = live source bufSize batchSize t2 data script :=
  live_timer_congr source bufSize batchSize t1 t2 data script h

/-- **tail_flush_on_next_line** – the liveness the code satisfies.  If the flush timer had expired when the
    LAST complete line of the delivered stream arrived (`timer (n-1)`, `n` = number of complete lines), then
    nothing is waiting in `batch`: every complete line delivered so far is on the channel, numbered, in
    order (`C` = the newline-terminated part of the stream).  So a line that waits (fewer than `batchSize`
    of them can, `tail_live`) is flushed by the next line that arrives `AutoFlushTimeout` or more after the
    previous flush – and by the end of the stream (`tail_batches_concat`). -/
theorem tail_flush_on_next_line (source : String) (bufSize batchSize : Nat) (timer : Nat → Bool) (data : Bytes)
    (script : List Step) (hb : 1 ≤ bufSize) (hs : ∀ st ∈ script, st.err = none)
    (hn : 0 < completeLines data) (ht : timer (completeLines data - 1) = true) :
    let s := live source bufSize batchSize timer data script
    s.pending = [] ∧
    ∃ C r, data = C ++ r ∧ nl ∉ r ∧ (C = [] ∨ C.getLast? = some nl) ∧
      s.numbered.flatMap Batcher.lineNumbers = (splitLines C).zipIdx 1 := by
  intro s
  have hp : s.pending = [] := live_flushed source bufSize batchSize timer data script hb hs hn ht
  obtain ⟨_, C, r, h1, h2, h3, h4, _⟩ := tail_live source bufSize batchSize timer data script hb hs
  refine ⟨hp, C, r, h1, h2, h3, ?_⟩
  have h4' : s.numbered.flatMap Batcher.lineNumbers ++ s.pending.zipIdx s.b.start = (splitLines C).zipIdx 1 := h4
  rw [hp] at h4'
  simpa using h4'

/-- Non-vacuity: `a⏎ b⏎` with the timer expired at the second line, `batchSize = 5`: both lines are on the
    channel in one batch, nothing waits; `c` (unterminated) waits in the scanner. -/
example : (live "f" 4 5 (fun k => k == 1) [97, 10, 98, 10, 99] []).pending = [] ∧
    (live "f" 4 5 (fun k => k == 1) [97, 10, 98, 10, 99] []).batches = [("f", 1, [[97], [98]])] := by decide

/-- **tail_no_flush_without_next_line** – the liveness a user might expect fails.  One complete line `a⏎`
    has been delivered, `batchSize = 2`, the timer had not expired when it arrived but is expired at every
    later moment (`timer k = true` for all `k ≥ 1`): the goroutine is running (blocked in `Read`), NOTHING
    is on the channel, `a` waits in `batch` – and no behaviour of the clock after the line arrived changes
    that state: the line surfaces only when another line arrives or the stream ends. -/
theorem tail_no_flush_without_next_line :
    ∃ (batchSize : Nat) (timer : Nat → Bool) (data : Bytes),
      (∀ k, completeLines data ≤ k → timer k = true) ∧
      (live "f" 4 batchSize timer data []).status = .running ∧
      (live "f" 4 batchSize timer data []).b.out = [] ∧
      (live "f" 4 batchSize timer data []).pending = [[97]] ∧
      ∀ timer' : Nat → Bool, (∀ k, k < completeLines data → timer' k = timer k) →
        live "f" 4 batchSize timer' data [] = live "f" 4 batchSize timer data [] := by
  refine ⟨2, fun k => k != 0, [97, 10], ?_, by decide, by decide, by decide, ?_⟩
  · intro k hk
    have : completeLines [97, 10] = 1 := by decide
    rw [this] at hk
    cases k with
    | zero => omega
    | succ k => rfl
  · intro timer' h
    exact live_timer_congr "f" 4 2 timer' _ [97, 10] [] h

/-! ## several followed files on ONE batch channel (`TailFilesToChan`)

`Rare.C15.Multi`: one follower goroutine per file, each running the loop above on its own follow reader,
scanner and batch heap; only the sends on `out.c` interleave.  `hist = recvd ++ q` is the order in which
the sends completed – the order in which the consumer receives.  All statements are for EVERY reachable
state, i.e. every schedule of the followers, the consumer and the closer, and every channel capacity
(0 included). -/

section Multi
open Rare.C15.Multi

/-- Any followers: the batches of follower `i` in the channel history are exactly the first `sent i`
    batches of its own sequence, in its own order – whatever the other followers do. -/
theorem multi_per_source_prefix (fs : List Follower) (B : Nat) {s : MSt} (hr : Reach fs B s)
    (i : Nat) (f : Follower) (p : Phase) (hf : fs[i]? = some f) (hp : s.ph[i]? = some p) :
    ofSource s.hist i = f.batches.take (sentOf f p) ∧ ofSource s.hist i <+: f.batches :=
  ⟨(inv_reach hr).part i f p hf hp, by rw [(inv_reach hr).part i f p hf hp]; exact List.take_prefix _ _⟩

/-- **Per-source partition, every schedule.**  Followers built from the single-file model: in every
    reachable state the batches of file `i` on the channel are, in order, a NUMBERED PREFIX of the lines
    `L` of that file's stream (`LinesOf`: all lines of the delivered bytes if its stream ends, the lines of
    the newline-terminated part while it is followed), none is empty, and once the follower has ended
    (`done`) they are ALL of them: exactly the numbered partition of `tail_batches_concat` for that file. -/
theorem multi_per_source_partition (runs : List FileRun) (bufSize batchSize B : Nat) (hb : 1 ≤ bufSize)
    {s : MSt} (hr : Reach (runs.map (FileRun.follower bufSize batchSize)) B s)
    (i : Nat) (r : FileRun) (hi : runs[i]? = some r) (hs : ∀ st ∈ r.script, st.err = none) :
    ∃ L, LinesOf r L ∧
      (ofSource s.hist i).flatMap Batcher.lineNumbers <+: L.zipIdx 1 ∧
      (∀ b ∈ ofSource s.hist i, b.lines ≠ []) ∧
      (s.ph[i]? = some .done → ofSource s.hist i = (r.follower bufSize batchSize).batches ∧
        (ofSource s.hist i).flatMap Batcher.lineNumbers = L.zipIdx 1 ∧
        (ofSource s.hist i).flatMap (·.lines) = L) := by
  obtain ⟨L, hL, h1, h2, h3⟩ := follower_lines bufSize batchSize hb r hs
  have hinv := inv_reach hr
  have hf := get_map_follower (bufSize := bufSize) (batchSize := batchSize) hi
  have hlt : i < s.ph.length := by rw [hinv.len]; exact lt_of_get hf
  obtain ⟨p, hp⟩ : ∃ p, s.ph[i]? = some p := ⟨s.ph[i], List.getElem?_eq_getElem hlt⟩
  have hpart := hinv.part i _ p hf hp
  have hpre : ofSource s.hist i <+: (r.follower bufSize batchSize).batches := by
    rw [hpart]; exact List.take_prefix _ _
  refine ⟨L, hL, (prefix_flatMap _ hpre).trans h1, fun b hb' => h3 b (hpre.subset hb'), ?_⟩
  intro hd
  rw [hp] at hd
  cases hd
  have hall : ofSource s.hist i = (r.follower bufSize batchSize).batches := by
    rw [hpart]; simp [sentOf]
  have hends : r.ends = true := hinv.doneEnds i _ hf hp
  refine ⟨hall, ?_, ?_⟩
  · rw [hall]; exact h2 hends
  · apply flat_of_numbers; rw [hall]; exact h2 hends

/-- **No batch mixes sources.**  Every batch on the channel was sent by ONE follower `i`, is one of the
    batches of that follower's own loop, is not empty, and every line in it – with the line number the
    extractor will attach to it – is a numbered line of file `i`'s stream. -/
theorem multi_no_mixing (runs : List FileRun) (bufSize batchSize B : Nat) (hb : 1 ≤ bufSize)
    (hs : ∀ r ∈ runs, ∀ st ∈ r.script, st.err = none)
    {s : MSt} (hr : Reach (runs.map (FileRun.follower bufSize batchSize)) B s) (x : Item) (hx : x ∈ s.hist) :
    ∃ r L, runs[x.1]? = some r ∧ LinesOf r L ∧ x.2 ∈ (r.follower bufSize batchSize).batches ∧ x.2.lines ≠ [] ∧
      ∀ ln ∈ Batcher.lineNumbers x.2, ln ∈ L.zipIdx 1 := by
  have hinv := inv_reach hr
  have hlt : x.1 < runs.length := by simpa using hinv.idx x hx
  have hi : runs[x.1]? = some runs[x.1] := List.getElem?_eq_getElem hlt
  obtain ⟨L, hL, h1, h2, _⟩ := multi_per_source_partition runs bufSize batchSize B hb hr x.1 runs[x.1] hi
    (hs _ (List.getElem_mem hlt))
  have hmem : x.2 ∈ ofSource s.hist x.1 := by
    simp only [ofSource, List.mem_map, List.mem_filter]
    exact ⟨x, ⟨hx, by simp⟩, rfl⟩
  have hf := get_map_follower (bufSize := bufSize) (batchSize := batchSize) hi
  obtain ⟨p, hp⟩ : ∃ p, s.ph[x.1]? = some p :=
    ⟨s.ph[x.1]'(by rw [hinv.len]; simpa using hlt), List.getElem?_eq_getElem _⟩
  have hpre := (multi_per_source_prefix _ B hr x.1 _ p hf hp).2
  refine ⟨runs[x.1], L, hi, hL, hpre.subset hmem, h2 _ hmem, ?_⟩
  intro ln hln
  apply h1.subset
  exact List.mem_flatMap.mpr ⟨x.2, hmem, hln⟩

/-- **The channel is closed only after every follower has ended** (plain follow): in a state with the
    channel closed every follower's stream has ended, every follower has called `wg.Done()`, and the
    channel history holds ALL batches of every file. -/
theorem multi_close_only_after_all_ended (fs : List Follower) (B : Nat) {s : MSt} (hr : Reach fs B s)
    (hc : s.closed = true) (i : Nat) (f : Follower) (hf : fs[i]? = some f) :
    f.ends = true ∧ s.ph[i]? = some .done ∧ ofSource s.hist i = f.batches := by
  have hinv := inv_reach hr
  have hlt : i < s.ph.length := by rw [hinv.len]; exact lt_of_get hf
  have hp : s.ph[i]? = some s.ph[i] := List.getElem?_eq_getElem hlt
  have hd : s.ph[i] = .done := all_done_get (hinv.closedDone hc) hp
  rw [hd] at hp
  refine ⟨hinv.doneEnds i f hf hp, hp, ?_⟩
  rw [hinv.part i f _ hf hp]; simp [sentOf]

/-- …and hence a send never finds the channel closed (no `send on closed channel` panic): while any
    follower is still running the channel is open. -/
theorem multi_no_send_on_closed (fs : List Follower) (B : Nat) {s : MSt} (hr : Reach fs B s)
    (i k : Nat) (hp : s.ph[i]? = some (.running k)) : s.closed = false :=
  running_not_closed (inv_reach hr) hp

/-- **Re-open follow never closes the channel**: if some follower's stream never ends (`-F`: `Read` has no
    EOF path, `blocks_while_exists`), then in every reachable state the channel is open and the consumer
    has not been told that the stream ended. -/
theorem multi_reopen_never_closes (fs : List Follower) (B : Nat) (i : Nat) (f : Follower) (hf : fs[i]? = some f)
    (hne : f.ends = false) {s : MSt} (hr : Reach fs B s) : s.closed = false ∧ s.consDone = false := by
  have hcl : s.closed = false := by
    cases hc : s.closed with
    | false => rfl
    | true =>
      have := (multi_close_only_after_all_ended fs B hr hc i f hf).1
      rw [hne] at this; cases this
  refine ⟨hcl, ?_⟩
  cases hd : s.consDone with
  | false => rfl
  | true => have := ((inv_reach hr).consClosed hd).1; rw [hcl] at this; cases this

/-- When the consumer sees the end of the stream it has received everything: per file, exactly that
    file's batches, in order. -/
theorem multi_consumer_sees_all (fs : List Follower) (B : Nat) {s : MSt} (hr : Reach fs B s)
    (hd : s.consDone = true) (i : Nat) (f : Follower) (hf : fs[i]? = some f) :
    ofSource s.recvd i = f.batches := by
  obtain ⟨hc, hq⟩ := (inv_reach hr).consClosed hd
  have := (multi_close_only_after_all_ended fs B hr hc i f hf).2.2
  simpa [MSt.hist, hq] using this

/-- What the consumer can actually tell apart is `InputBatch.Source`: with pairwise different file names
    the batches carrying the name of file `i` are the batches of follower `i`. -/
theorem multi_by_source_name (fs : List Follower) (B : Nat) (hnd : (fs.map (·.src)).Nodup) {s : MSt}
    (hr : Reach fs B s) (i : Nat) (f : Follower) (hf : fs[i]? = some f) :
    ofName fs s.hist f.src = ofSource s.hist i :=
  ofName_eq_ofSource hnd (inv_reach hr).idx hf

/-- Non-vacuity (and that schedules really interleave): files `a⏎b⏎c⏎` (batch size 2, ends) and `x⏎`
    (re-open follow: blocked in `Read` with its line flushed by the timer), channel capacity 1: a reachable
    state in which the consumer has received file 0's first batch, then file 1's batch, then file 0's
    remainder; file 0's follower is done, file 1's never will be, the channel is open. -/
example : ∃ s : MSt, Reach ([(⟨"f0", fun _ => false, [97, 10, 98, 10, 99, 10], [], true⟩ : FileRun),
      ⟨"f1", fun k => k == 0, [120, 10], [], false⟩].map (FileRun.follower 4 2)) 1 s ∧
    s.recvd.map (fun x => (x.1, x.2.start, x.2.lines)) = [(0, 1, [[97], [98]]), (1, 1, [[120]]), (0, 3, [[99]])] ∧
    s.ph = [.done, .running 1] ∧ s.closed = false := by
  refine ⟨_, (applyAll_lpath [.spawn 0, .spawn 1, .send 0, .recv, .send 1, .recv, .send 0, .finish 0, .recv] _ _ rfl).reach .init,
    by decide, by decide, by decide⟩

end Multi

/-! ## the event log of a real run is a run of these models (trace inclusion) -/

section Trace
open Rare.TraceOrder Rare.C15.Multi Rare.C15.Trace

/-- The flush log the trace check compares the logged `flush`/`flush.eof` events with IS the batching loop
    of `Model/Batcher` (and hence of the heap loop `Model/C15Batch`, `batch_heap_refines_batcher`) with the
    lines forgotten: same `BatchStart`s, same sizes, for every batch size and timer behaviour. -/
theorem trace_flush_log_is_batching_loop {α : Type} (source : String) (batchSize : Nat) (ls : List (α × Bool)) :
    (flushLog batchSize (ls.map (·.2)) true).map fshape = (Batcher.run batchSize ls).map shape ∧
    (flushLog batchSize (ls.map (·.2)) true).map fshape =
      ((Batch.run source batchSize ls).out.map (Batch.run source batchSize ls).read).map shape := by
  refine ⟨flushLog_run batchSize ls, ?_⟩
  rw [run_refines]; exact flushLog_run batchSize ls

/-- …and of `tailToChan`: the starts and sizes of the batches of a followed file are those of the flush
    log under the oracle `timer 0, …, timer (L-1)`, `L` the number of lines of the delivered stream. -/
theorem trace_flush_log_is_tail_loop (source : String) (bufSize batchSize : Nat) (timer : Nat → Bool) (data : Bytes)
    (script : List Step) (hb : 1 ≤ bufSize) :
    let t := tailToChan source bufSize batchSize timer data script
    t.numbered.map shape =
      (flushLog batchSize ((List.range (splitLines t.imm.delivered).length).map timer) true).map fshape :=
  tail_shapes_eq_flushLog source bufSize batchSize timer data script hb

/-- **What a flush's reason means**, for every batch size, oracle and stream: a `full` flush has at least
    `batchSize` lines, a `timer` flush fewer, no flush is empty, and `eof` occurs only as the LAST flush of
    a stream that ended, with fewer than `batchSize` lines.  The trace check demands of every logged
    `flush` (`n ≥ batchSize`: full, `n < batchSize`: timer) and `flush.eof` that it is the model's next flush
    with that reason, start and size (`Trace.evLabels`, `Trace.flushesAgree`). -/
theorem trace_flush_reasons (batchSize : Nat) (oracle : List Bool) (ended : Bool) :
    ∀ e ∈ flushLog batchSize oracle ended, 1 ≤ e.n ∧ (e.reason = .full → batchSize ≤ e.n) ∧
      (e.reason = .timer → e.n < batchSize) ∧
      (e.reason = .eof → ended = true ∧ e.n < max batchSize 1 ∧ (flushLog batchSize oracle ended).getLast? = some e) :=
  flushLog_reasons batchSize oracle ended

/-- **Trace inclusion.**  If the checker accepts the event log `tr` of a real `TailFilesToChan` /
    `VerifOpenReaderToChan` run, then there is an admissible reordering of the log (`Rare.TraceOrder`) whose
    replay performs transitions of `Rare.C15.Multi` only and ends in a REACHABLE state that is final for the
    machine; so everything proved above for reachable states holds of the real run: what the consumer
    logged as received is, per source, a prefix of that follower's batches in order (all of them when the
    run ended), and the channel was closed only after every follower had ended. -/
theorem trace_accepts_sound_follow (cfg : Trace.Cfg) (L : Lin Trace.PSt) (tr : Array TraceOrder.Ev)
    (h : TraceOrder.accepts (Trace.machine cfg) L (Trace.initSt cfg) tr = true) :
    ∃ sched ps, Admissible tr sched ∧
      replay (Trace.machine cfg) (Trace.initSt cfg) (sched.map (evAt tr)) = some ps ∧
      Reach cfg.fs cfg.B ps.lts ∧ Trace.final cfg ps = true ∧
      (∀ i f, cfg.fs[i]? = some f → ofSource ps.lts.hist i <+: f.batches) ∧
      (cfg.ends = true → ps.lts.consDone = true ∧ ∀ i f, cfg.fs[i]? = some f → ofSource ps.lts.recvd i = f.batches) ∧
      (cfg.ends = false → ps.lts.closed = false) := by
  obtain ⟨sched, ps, hadm, hrep, hr, hfin⟩ := accepts_reach h
  refine ⟨sched, ps, hadm, hrep, hr, hfin, ?_, ?_, ?_⟩
  · intro i f hf
    have hinv := inv_reach hr
    have hlt : i < ps.lts.ph.length := by rw [hinv.len]; exact lt_of_get hf
    exact (multi_per_source_prefix cfg.fs cfg.B hr i f _ hf (List.getElem?_eq_getElem hlt)).2
  · intro he
    simp only [Trace.final, he, if_true, Bool.and_eq_true] at hfin
    exact ⟨hfin.1, fun i f hf => multi_consumer_sees_all cfg.fs cfg.B hr hfin.1 i f hf⟩
  · intro he
    simp only [Trace.final, he, Bool.false_eq_true, if_false, Bool.and_eq_true, Bool.not_eq_true'] at hfin
    exact hfin.1.1.1

/-- Non-vacuity: the real-shaped two-file log `Trace.exampleLog` (every follower's `src.close` is logged before
    the closer's `c.close`, because `stopFileReading` runs before `wg.Done()`) is accepted; … -/
example : TraceOrder.accepts (Trace.machine Trace.exampleCfg) (Trace.lin Trace.exampleLog)
    (Trace.initSt Trace.exampleCfg) Trace.exampleLog.toArray = true := by decide

/-- … the log order itself is not a path (follower 1 logs its `flush` while the channel of capacity 1 still
    holds follower 0's batch – the send itself completes later): the reordering is needed; … -/
example : replay (Trace.machine Trace.exampleCfg) (Trace.initSt Trace.exampleCfg) Trace.exampleLog = none := by
  decide

/-- … the same log with the timer flush of file 1 reported as an end-of-stream flush is rejected; … -/
example : TraceOrder.accepts (Trace.machine Trace.exampleCfg) (Trace.lin Trace.exampleLog)
    (Trace.initSt Trace.exampleCfg)
    (Trace.exampleLog.map fun e => if e.kind = "fl" ∧ e.src = 1 then { e with kind := "fe" } else e).toArray = false := by
  decide

/-- … and so is a log in which the consumer sees the end of the stream while follower 0 still has its
    remainder to send (moving the closer's `c.close` event earlier would NOT do: that hook sits before the
    `close`, which may happen any time later). -/
example : TraceOrder.accepts (Trace.machine Trace.exampleCfg) (Trace.lin Trace.exampleLog)
    (Trace.initSt Trace.exampleCfg)
    ((Trace.exampleLog.take 12 ++ [(⟨2, "bd", noSrc, 0, 0, []⟩ : TraceOrder.Ev)] ++ (Trace.exampleLog.drop 12).filter (·.kind != "bd"))).toArray = false := by
  decide

end Trace

/-! ## the poller's offset is written where the model writes it -/

/-- poller.go as regenerated from /repo writes `s.readBytes` in exactly the three places the polling LTS
    does (`Drain`: the tail offset; `Read`: `+= n` after every read and `= 0` on the "shorter file at the path"
    branch), replaces `s.f` only by the `os.Open` of the re-open block, and that block is "open; size ≥ offset
    → `Seek(readBytes)`, else `readBytes = 0`" (`openNew`).  A helper that resets the offset before the
    `Seek` – so that a re-open of the SAME, grown file starts again at 0 – breaks this theorem. -/
theorem poll_offset_writes_match_source :
    Gen.C15.pollOffsetWrites = Expected.pollOffsetWrites ∧
    Gen.C15.pollHandleWrites = Expected.pollHandleWrites ∧
    Gen.C15.pollReopenBlock = Expected.pollReopenBlock := by
  refine ⟨rfl, rfl, rfl⟩

/-- In the model, the re-open of the same file that has grown (an append landed in the last `PollDelay` sleep,
    after the last empty read and before the `Stat`) resumes at the offset: nothing is delivered twice.
    `openStep` then is the identity up to the attempt counter. -/
theorem poll_reopen_same_file_resumes {s : PSt β} (h : Handle) (sz : Nat) (hf : s.f = some h)
    (hp : s.fs.path = some h.ino) (hpos : h.pos = s.readBytes) (hsz : s.readBytes ≤ sz) :
    openStep s sz = { s with rd := .attempt 0 } := by
  have hm : merges s sz = true := by simp [merges, hf, hp, hpos, hsz]
  simp [openStep, hm]

/-- Non-vacuity, as a run of the LTS: `ab` delivered, two empty polls, `cd` appended during the last sleep,
    `Stat` sees size 4 ≠ 2, re-open, next read delivers `cd` – the stream is `abcd`, not `ababcd`. -/
example : ∃ s : PSt Nat, PReach ⟨2, true⟩ (pinit (some [1, 2]) false) s ∧ s.delivered = [1, 2, 3, 4] ∧ s.skips = 0 := by
  have hr : PReach ⟨2, true⟩ (pinit (some [(1 : Nat), 2]) false) _ :=
    .step (.step (.step (.step (.step (.step (.step (.step (.refl (s0 := pinit (some [(1 : Nat), 2]) false))
    (.readSome _ ⟨0, 0, 0⟩ 0 2 rfl (by decide) rfl (by decide) (by decide)))
    (.readEmpty _ ⟨0, 0, 2⟩ 0 rfl (by decide) rfl rfl)) (.readEmpty _ ⟨0, 0, 2⟩ 1 rfl (by decide) rfl rfl))
    (.append _ 0 [3, 4] rfl (by decide))) (.loopDone _ ⟨0, 0, 2⟩ rfl rfl))
    (.statDiff _ 0 rfl rfl rfl (by decide))) (.reopen _ 4 rfl))
    (.readSome _ ⟨0, 0, 2⟩ 0 2 rfl (by decide) rfl (by decide) (by decide))
  exact ⟨_, hr, rfl, rfl⟩

/-! ### sensitivity: the aliasing the heap model is there to exclude -/

/-- If the loop kept the backing array after a timer-forced flush of a short batch (`batch = batch[:0]`,
    NOT what the code does – `Batch.stepSeeded`), stability would fail: lines 1, 2, 3 with the timer
    expired at lines 1 and 3 and `batchSize = 5` are sent as `[1]`, `[2,3]`, and that is what the real
    loop's batches read as afterwards; with the re-used array the first batch reads as `[2]`
    afterwards – the consumer sees 2, 2, 3. -/
theorem batch_reuse_breaks_stability :
    let ls : List (Nat × Bool) := [(1, true), (2, false), (3, true)]
    let real := ls.foldl (Batch.step "f" 5) (St.init 5)
    let seeded := ls.foldl (Batch.stepSeeded "f" 5) (St.init 5)
    real.out.map (fun b => (real.read b).lines) = [[1], [2, 3]] ∧
    seeded.out.map (fun b => (seeded.read b).lines) = [[2], [2, 3]] ∧
    seeded.out.map (·.start) = [1, 2] := by
  decide


/-! ## the wiring: from the command line to the follow reader -/

section Wiring
open Rare.C15.Wiring

/-- The chain command line → `TailFilesToChan` → `followreader.New` → `NewNotify` / `NewPolling` regenerated from
    /repo is the one `Rare.C15.Wiring.plan` was written against: `-F` implies following, `--poll` / `--tail`
    without `-f`/`-F` are usage errors, the one call site passes `(reopen, poll, tail)` in the order of
    `TailFilesToChan`'s parameters, `New` passes `reopen` on and lets `poll` choose the reader, both
    constructors open `filename`, fail on a missing file exactly when `!reopen`, and store `reopen` in their
    option field; the poller's defaults are the model's; and `TailFilesToChan` starts one goroutine per
    file name with nothing but `wg` between them (no semaphore: `--readers` does not limit followed files). -/
theorem wiring_matches_source :
    Gen.C15.cliFollowFlags = Expected.cliFollowFlags ∧
    Gen.C15.cliFollowVars = Expected.cliFollowVars ∧
    Gen.C15.cliFatals = Expected.cliFatals ∧
    Gen.C15.cliBatcherConds = Expected.cliBatcherConds ∧
    Gen.C15.cliBatcherCalls = Expected.cliBatcherCalls ∧
    Gen.C15.tailFilesParams = Expected.tailFilesParams ∧
    Gen.C15.tailFilesSkeleton = Expected.tailFilesSkeleton ∧
    Gen.C15.tailFilesBookkeeping = Expected.tailFilesBookkeeping ∧
    Gen.C15.followNewParams = Expected.followNewParams ∧
    Gen.C15.followNewBody = Expected.followNewBody ∧
    Gen.C15.newNotifyWiring = Expected.newNotifyWiring ∧
    Gen.C15.newPollingWiring = Expected.newPollingWiring ∧
    Gen.C15.readAttempts = defaultAttempts ∧ Gen.C15.pollDelayMs = defaultDelayMs := by
  refine ⟨rfl, rfl, rfl, rfl, rfl, rfl, rfl, rfl, rfl, rfl, rfl, rfl, rfl, rfl⟩

/-- `plan` in closed form, for all sixteen flag combinations: without `-f`/`-F` the files are read once (and
    `--poll` / `--tail` are refused); with either, every file is followed by the notify reader, or the polling
    reader iff `--poll`, with re-open iff `-F` and from its end iff `--tail`. -/
theorem wiring_plan (fl : Flags) :
    plan fl = if fl.follow || fl.reopen then
        .follow ⟨if fl.poll then .poll else .notify, fl.reopen, fl.tail⟩
      else if fl.poll || fl.tail then .usage else .files := by
  obtain ⟨f, r, p, t⟩ := fl
  cases f <;> cases r <;> cases p <;> cases t <;> rfl

/-- **Every accepted flag combination is covered by the theorems above**: whatever follow plan the command
    line yields, the transition system it selects – notify or polling reader, configured from /repo, with
    that `reopen`, started at the end of the file iff `--tail` – delivers, while the file stays in place,
    exactly the bytes between the start position and the reader's offset, and `Read` does not end. -/
theorem cli_follow_in_place (fl : Flags) (w : Follow) (hp : plan fl = .follow w) (c0 : List β) :
    (w.kind = .notify → ∀ s : NSt β, NReach (srcN w.reopen) (ninit (some c0) w.tail) s → s.removes = 0 →
      s.rd ≠ .ended ∧ ∃ pos, s.f = some ⟨0, start0 (some c0) w.tail, pos⟩ ∧
        InPlaceOK (s.fs.content 0) s.delivered (start0 (some c0) w.tail) pos) ∧
    (w.kind = .poll → ∀ s : PSt β, PReach (srcP w.reopen) (pinit (some c0) w.tail) s → s.removes = 0 →
      s.rd ≠ .ended ∧ InPlaceOK (s.fs.content 0) s.delivered (start0 (some c0) w.tail) s.readBytes) ∧
    w.reopen = fl.reopen ∧ w.tail = fl.tail ∧ (w.kind = .poll ↔ fl.poll = true) := by
  refine ⟨?_, ?_, ?_⟩
  · intro _ s hr hrm
    refine ⟨?_, delivered_is_prefix c0 w.tail w.reopen hr hrm⟩
    intro he
    have := (blocks_while_exists (some c0) w.tail w.reopen hr he).2
    omega
  · intro _ s hr hrm
    refine ⟨?_, (delivered_is_prefix_poll c0 w.tail w.reopen hr hrm).2⟩
    intro he
    have := (blocks_while_exists_poll c0 w.tail w.reopen hr he).2
    omega
  · rw [wiring_plan] at hp
    obtain ⟨f, r, p, t⟩ := fl
    cases f <;> cases r <;> cases p <;> cases t <;> simp at hp <;> subst hp <;> simp

/-- Non-vacuity: `-F` alone follows (notify, re-open, from the start); `--poll --tail` alone is refused. -/
example : plan ⟨false, true, false, false⟩ = .follow ⟨.notify, true, false⟩ ∧
    plan ⟨false, false, true, true⟩ = .usage ∧ plan ⟨true, false, true, true⟩ = .follow ⟨.poll, false, true⟩ ∧
    plan ⟨false, false, false, false⟩ = .files := by decide

/-- **No followed file starves another.**  In every reachable state of `TailFilesToChan`'s goroutines
    (`Rare.C15.Multi`, any number of files, any channel capacity), whatever the other followers are doing –
    e.g. blocked in `Read` for ever, as every follower of a quiet file is –
    * a file whose follower has not been started yet can be started right away, and
    * a running follower that has a batch to send gets it to the consumer by steps of the consumer and ONE
      step of its own: after them the consumer has received everything that was in flight, then that batch. -/
theorem multi_no_starvation (fs : List Multi.Follower) (B : Nat) {s : Multi.MSt} (hr : Multi.Reach fs B s) (i : Nat) :
    (s.ph[i]? = some .waiting →
      Multi.apply fs B s (.spawn i) = some { s with ph := s.ph.set i (.running 0) }) ∧
    (∀ k f b, s.ph[i]? = some (.running k) → fs[i]? = some f → f.batches[k]? = some b →
      ∃ s', Multi.LPath fs B s (List.replicate s.q.length .recv ++ [.handoff i]) s' ∧
        s'.recvd = s.hist ++ [(i, b)] ∧ s'.ph = s.ph.set i (.running (k + 1))) := by
  refine ⟨Multi.spawn_enabled fs B s i, ?_⟩
  intro k f b hp hf hb
  obtain ⟨s', h1, h2, _, h4⟩ := Multi.batch_gets_through hr i k f b hp hf hb
  exact ⟨s', h1, h2, h4⟩

end Wiring

/-! ## `Read` / `Drain` / `Close` called from one goroutine (`Rare.C15.Api`, op `api`) -/

section Api
open Rare.C15.Api

/-- **api_stream_in_place.**  For every initial content and every sequence of `Read(buf)` (any buffer sizes),
    `Drain()`, `Close()` and appends issued from one goroutine: the bytes returned since the last `Drain`
    (since the start if there was none) are exactly the bytes of the file between that position and the
    reader's offset – nothing lost, duplicated or reordered, also across `Close`. -/
theorem api_stream_in_place (content : Api.Bytes) (calls : List Call) :
    let s := (Api.run (init content) calls).1
    InPlaceOK s.content s.delivered s.start s.pos :=
  inv_run calls (init content) (inv_init content)

/-- Without a `Drain`, ghost-free: the concatenation of what the `Read` calls returned is a prefix of the
    file's final content (`extract c 0 pos`). -/
theorem api_reads_are_prefix (content : Api.Bytes) (calls : List Call) (hnd : calls.all noDrain = true) :
    let r := Api.run (init content) calls
    bytesOf r.2 = extract r.1.content 0 r.1.pos ∧ bytesOf r.2 <+: r.1.content := by
  intro r
  have h1 := delivered_run calls (init content) hnd
  have h2 := inv_run calls (init content) (inv_init content)
  have hst : r.1.start = 0 := by
    have : ∀ (cs : List Call) (s : St), cs.all noDrain = true → (Api.run s cs).1.start = s.start := by
      intro cs
      induction cs with
      | nil => intro s _; rfl
      | cons c cs ih =>
        intro s hnd
        simp only [List.all_cons, Bool.and_eq_true] at hnd
        cases c with
        | drain => simp [noDrain] at hnd
        | close => simp only [Api.run, Api.step]; exact ih _ hnd.2
        | append b => simp only [Api.run, Api.step]; exact ih _ hnd.2
        | read n =>
          rcases read_cases s n with h | h | h
          · simp only [Api.run, h]; exact ih _ hnd.2
          · simp only [Api.run, h]
          · simp only [Api.run, h]; exact ih _ hnd.2
    exact this calls (init content) hnd
  have hd : bytesOf r.2 = r.1.delivered := by
    have : (init content).delivered = [] := rfl
    rw [h1, this]; rfl
  obtain ⟨_, _, h5⟩ := h2
  refine ⟨by rw [hd, h5, hst], ?_⟩
  rw [hd, h5, hst]
  simp only [extract, List.drop_zero, Nat.sub_zero]
  exact List.take_prefix _ _

/-- **api_closed_is_final.**  Once `Close` has been called, every later `Read` answers `io.EOF` without bytes
    (also when bytes are unread), `Drain` and `Close` answer nil, and the reader stays closed. -/
theorem api_closed_is_final (s : St) (hc : s.closed = true) (calls : List Call) :
    (Api.run s calls).1.closed = true ∧ (∀ r ∈ (Api.run s calls).2, r = .eof ∨ r = .ok) ∧
    ∀ n, Api.step s (.read n) = (s, .eof) := by
  obtain ⟨a, b⟩ := closed_run calls s hc
  exact ⟨a, b, fun n => by simp [Api.step, hc]⟩

/-- Non-vacuity: `abc`, Read(2), append `de`, Drain, append `f`, Read(8), Close, Read(1). -/
example : (Api.run (init [97, 98, 99]) [.read 2, .append [100, 101], .drain, .append [102], .read 8, .close, .read 1]).2 =
    [.bytes [97, 98], .ok, .ok, .ok, .bytes [102], .ok, .eof] := by decide

end Api

/-! ## the atomicity assumption narrowed: `reopenIfReplaced` is `Stat`, then `Open` -/

/-- **stat_open_linearizable.**  The notify LTS takes `reopenIfReplaced` as one transition; the code does
    `os.Stat(path)` + `os.SameFile` first and `os.Open(path)` later.  For every reachable state `s1` (the
    `Stat`) and EVERY interleaving of writer operations (append, remove, create, other events) and dispatches
    of the fsnotify goroutine leading to `s2` (the `Open`): the outcome of the split execution is the outcome of
    the atomic transition executed at the `Open` when the `Stat` saw another file or none (the path never gets
    an old inode back, so "not the open file" is still true), and – when the `Stat` saw the open file – of the
    atomic transition executed at the `Stat`, which does nothing.  What remains assumed: each single system
    call is atomic, and the delete token is consumed at the linearization point (a token that arrives between
    the two calls only causes one more, harmless, `reopenIfReplaced`). -/
theorem stat_open_linearizable (c0 : Option (List β)) (tail reopen : Bool) {s1 s2 : NSt β}
    (hr : NReach (srcN reopen) (ninit c0 tail) s1) (hs : EnvSteps (srcN reopen) s1 s2) :
    reopenAfterStat (sameFile s1) s2 = (if sameFile s1 then s2 else reopenIfReplaced s2) ∧
    (sameFile s1 = true → reopenIfReplaced s1 = s1) ∧ s2.f = s1.f ∧ s2.delivered = s1.delivered := by
  have hi := ninv_reach (capW_ok reopen) (capD_ok reopen) c0 tail hr
  have halloc : ∀ h, s1.f = some h → h.ino < s1.fs.next := fun h hf =>
    (hi.core.bounds h (by simp [hf])).2.2
  have he := envInv_steps hs
  refine ⟨?_, ?_, he.handle, he.delivered⟩
  · cases hsf : sameFile s1 with
    | true => simp [reopenAfterStat]
    | false =>
      have h2 := not_same_stable hs halloc hsf
      simp [reopenAfterStat, reopenIfReplaced, h2]
  · intro hsf; simp [reopenIfReplaced, hsf]

/-- Non-vacuity: `Stat` sees that the open file is gone (removed), the writer creates a new file and appends
    before the `Open`: the split execution opens the NEW file from its beginning, like the atomic step there. -/
example : ∃ s1 s2 : NSt Nat, NReach (srcN true) (ninit (some [1]) false) s1 ∧ EnvSteps (srcN true) s1 s2 ∧
    sameFile s1 = false ∧ (reopenAfterStat (sameFile s1) s2).f = some ⟨1, 0, 0⟩ ∧ s2.fs.content 1 = [5] := by
  have hr : NReach (srcN true) (ninit (some [(1 : Nat)]) false) _ :=
    .step (.refl (s0 := ninit (some [(1 : Nat)]) false)) (.remove _ 0 rfl)
  refine ⟨_, _, hr, .step (w := .writer) (by decide) (.create _ rfl)
    (.step (w := .writer) (by decide) (.append _ 1 [5] rfl (by decide)) (.refl _)), rfl, rfl, rfl⟩

/-! ## rotation by rename (`mv file file.1`, new file at the path) -/

/-- **rename_is_removal_for_reopen.**  Re-open follow (-F), notify reader as configured in /repo: the writer
    step "the followed file is renamed away" is the step "the followed file is removed" (the watcher turns
    the Rename event into the delete signal – `skeleton_matches_source` ties that row of the switch to
    /repo), so every run with rotations by rename is a run of the system all theorems above are about:
    the delivered stream is one segment per file, every file opened after the start is read from its
    beginning, none twice (`reopen_reads_new_from_start`), `Read` never ends (`blocks_while_exists`), … -/
theorem rename_is_removal_for_reopen (c0 : Option (List β)) (tail : Bool) {s : NSt β}
    (hr : NReachR (srcN true) (ninit c0 tail) s) :
    NReach (srcN true) (ninit c0 tail) s ∧ s.rd ≠ .ended ∧
    (∀ h ∈ s.hist ++ s.f.toList, h.start = 0 ∨ (h.ino = 0 ∧ h.start = start0 c0 tail)) ∧
    ((s.hist ++ s.f.toList).map (·.ino)).Pairwise (· < ·) ∧
    s.delivered = segments s.fs.content (s.hist ++ s.f.toList) := by
  have h := nreachR_is_nreach (cfg := srcN true) rfl hr
  refine ⟨h, ?_, reopen_reads_new_from_start c0 tail true h⟩
  intro he
  have := (blocks_while_exists c0 tail true h he).1
  cases this

/-- …and the file created at the path after the rename IS followed: some run of the fsnotify goroutine and the
    reader opens it (every run does: `reopen_steps_terminate`). -/
theorem reopen_follows_after_rename (c0 : Option (List β)) (tail : Bool) {s : NSt β}
    (hr : NReachR (srcN true) (ninit c0 tail) s) (j : Nat) (hp : s.fs.path = some j) :
    ∃ s', NSysReach (srcN true) s s' ∧ onPath s' j :=
  (reopen_eventually_opens_new c0 tail (nreachR_is_nreach (cfg := srcN true) rfl hr) j hp).2

/-- Non-vacuity, the run that used to go wrong: `[1]` delivered, the file renamed away, a new file `[2,3]` at
    the path: the Rename event becomes the delete signal, the reader re-opens and delivers `[2,3]`. -/
example : ∃ s : NSt Nat, NReachR (srcN true) (ninit (some [1]) false) s ∧ s.delivered = [1, 2, 3] ∧
    s.f = some ⟨1, 0, 2⟩ ∧ s.hist = [⟨0, 0, 1⟩] := by
  have hr : NReachR (srcN true) (ninit (some [(1 : Nat)]) false) _ :=
    .step (.step (.step (.step (.step (.step (.step (.step (.step (.step
    (.refl (s0 := ninit (some [(1 : Nat)]) false))
    (.base (.readSome _ ⟨0, 0, 0⟩ 1 rfl rfl (by decide) (by decide))))
    (.rename _ 0 rfl)) (.base (.create _ rfl))) (.base (.append _ 1 [2, 3] rfl (by decide))))
    (.base (.dispatch _ .remove [.create, .write] rfl))) (.base (.dispatch _ .create [.write] rfl)))
    (.base (.dispatch _ .write [] rfl)))
    (.base (.readEmpty _ ⟨0, 0, 1⟩ rfl rfl rfl))) (.base (.recvD _ rfl (by decide) rfl)))
    (.base (.readSome _ ⟨1, 0, 0⟩ 2 rfl rfl (by decide) (by decide)))
  exact ⟨_, hr, rfl, rfl, rfl⟩

/-- **plain_rename_not_followed_counterexample** (expected behaviour of plain -f, recorded).  Without re-open
    the Rename event is ignored: `[1]` delivered, the file renamed away, a new file `[2,3]` at the path – the
    reader is back in its `select` with nothing pending, still holds the renamed file, the stream is `[1]`
    and has not ended. -/
theorem plain_rename_not_followed_counterexample :
    ∃ s : NSt Nat, NReachR (srcN false) (ninit (some [1]) false) s ∧ s.delivered = [1] ∧
      s.f = some ⟨0, 0, 1⟩ ∧ s.fs.path = some 1 ∧ s.fs.content 1 = [2, 3] ∧
      s.rd = .selecting ∧ s.pw = 0 ∧ s.pd = 0 ∧ s.evq = [] := by
  have hr : NReachR (srcN false) (ninit (some [(1 : Nat)]) false) _ :=
    .step (.step (.step (.step (.step (.step (.step (.step (.step (.step (.step (.step
    (.refl (s0 := ninit (some [(1 : Nat)]) false))
    (.base (.readSome _ ⟨0, 0, 0⟩ 1 rfl rfl (by decide) (by decide))))
    (.rename _ 0 rfl)) (.base (.create _ rfl))) (.base (.append _ 1 [2, 3] rfl (by decide))))
    (.base (.dispatch _ .other [.create, .write] rfl))) (.base (.dispatch _ .create [.write] rfl)))
    (.base (.dispatch _ .write [] rfl)))
    (.base (.readEmpty _ ⟨0, 0, 1⟩ rfl rfl rfl))) (.base (.recvW _ rfl (by decide))))
    (.base (.readEmpty _ ⟨0, 0, 1⟩ rfl rfl rfl)))
    (.base (.noise _))) (.base (.dispatch _ .other [] rfl))
  exact ⟨_, hr, rfl, rfl, rfl, rfl, rfl, rfl, rfl, rfl⟩

/-! ## a file renamed ONTO the followed path (atomic replace: write `f.tmp`, `rename(f.tmp, f)`) -/

/-- **reopen_follows_new_file.**  Re-open follow (-F), notify reader as configured in /repo, EVERY history of
    the full writer – append, remove, create, other events, rename away, and a new file renamed ONTO the path
    (one `Create` event, no `Remove`) – and every interleaving with the fsnotify goroutine and the reader:
    whenever a file `j` is at the path, the reader has it open or a signal that makes it look is pending
    (a token, or an event the goroutine has not dispatched yet), and with a silent writer some run of goroutine
    and reader ends with `j` open (`reopen_steps_terminate`: every run does).  Before the `fix:` commit
    f4a9570 this failed for an atomic replace: `Create` raised only the write signal, whose handler re-opens
    only when no file is open (`replace.case` of the corpus; the seeded change `C15-create-no-delete`). -/
theorem reopen_follows_new_file (c0 : Option (List β)) (tail : Bool) {s : NSt β}
    (hr : NReachO (srcN true) (ninit c0 tail) s) (j : Nat) (hp : s.fs.path = some j) :
    (onPath s j ∨ 0 < s.pw ∨ Ev.create ∈ s.evq ∨ 0 < s.pd ∨ Ev.remove ∈ s.evq) ∧
    ∃ s', NSysReach (srcN true) s s' ∧ onPath s' j := by
  have hi := ninvO_reach (capW_ok true) (capD_ok true) rfl c0 tail hr
  refine ⟨?_, eventually_reopened_aux (capW_ok true) (capD_ok true) rfl j _ s (Nat.le_refl _) hi hp⟩
  cases hf : s.f with
  | none => exact Or.inr (hi.fresh rfl hf j hp)
  | some x =>
    by_cases hx : x.ino = j
    · exact Or.inl ⟨x, hf, hx⟩
    · have : s.fs.path ≠ some x.ino := by
        intro he; rw [hp] at he; simp only [Option.some.injEq] at he; exact hx he.symm
      rcases hi.gone x hf this with h1 | h1 | ⟨_, h1⟩
      · exact Or.inr (Or.inr (Or.inr (Or.inl h1)))
      · exact Or.inr (Or.inr (Or.inr (Or.inr h1)))
      · exact Or.inr (Or.inr (Or.inl h1))

/-- **reopen_any_rotation_exactly_once.**  The safety half for the same histories (removal + re-creation,
    rotation by rename, atomic replace, in any mix): `Read` never ends, the delivered stream is one segment per
    file handle, every file opened after the start is read from its beginning (only the initial handle may start
    elsewhere: `--tail`), files are opened in creation order and none twice, every handle is within its file, and
    the reader is never blocked in front of unread bytes of the file it has open. -/
theorem reopen_any_rotation_exactly_once (c0 : Option (List β)) (tail : Bool) {s : NSt β}
    (hr : NReachO (srcN true) (ninit c0 tail) s) :
    s.rd ≠ .ended ∧
    s.delivered = segments s.fs.content (s.hist ++ s.f.toList) ∧
    (∀ h ∈ s.hist ++ s.f.toList, h.start = 0 ∨ (h.ino = 0 ∧ h.start = start0 c0 tail)) ∧
    ((s.hist ++ s.f.toList).map (·.ino)).Pairwise (· < ·) ∧
    (∀ h ∈ s.hist ++ s.f.toList, h.start ≤ h.pos ∧ h.pos ≤ (s.fs.content h.ino).length) ∧
    (∀ h, s.f = some h → unread s.fs h ≠ [] → 0 < s.pw ∨ Ev.write ∈ s.evq ∨ s.rd ≠ .selecting) := by
  have hi := ninvO_reach (capW_ok true) (capD_ok true) rfl c0 tail hr
  refine ⟨?_, hi.core.deliv, hi.starts, hi.incr, fun x hx => ⟨(hi.core.bounds x hx).1, hi.strong x hx⟩, hi.wake⟩
  intro he
  have := (hi.ended he).1
  cases this

/-- The system without rename and replace is part of the full one (so the two theorems above speak about
    every state the earlier sections speak about). -/
theorem full_writer_extends (cfg : NCfg) (n0 : NSt β) {s : NSt β} (hr : NReach cfg n0 s) : NReachO cfg n0 s := by
  induction hr with
  | refl => exact .refl
  | step _ hs ih => exact .step ih (.base (.base hs))

/-- Non-vacuity, the run that used to go wrong (the known finding of round 4): `[1]` delivered, a new file
    `[2,3]` renamed onto the path – one `Create` event, which now raises BOTH signals; the write signal finds a
    file open and does nothing, the delete signal finds another file at the path: the reader re-opens and
    delivers `[2,3]` from the beginning. -/
example : ∃ s : NSt Nat, NReachO (srcN true) (ninit (some [1]) false) s ∧ s.delivered = [1, 2, 3] ∧
    s.f = some ⟨1, 0, 2⟩ ∧ s.hist = [⟨0, 0, 1⟩] ∧ s.fs.path = some 1 := by
  have hr : NReachO (srcN true) (ninit (some [(1 : Nat)]) false) _ :=
    .step (.step (.step (.step (.step (.step (.step (.step
    (.refl (s0 := ninit (some [(1 : Nat)]) false))
    (.base (.base (.readSome _ ⟨0, 0, 0⟩ 1 rfl rfl (by decide) (by decide)))))
    (.replace _ 0 [2, 3] rfl)) (.base (.base (.dispatch _ .create [] rfl))))
    (.base (.base (.readEmpty _ ⟨0, 0, 1⟩ rfl rfl rfl)))) (.base (.base (.recvW _ rfl (by decide)))))
    (.base (.base (.readEmpty _ ⟨0, 0, 1⟩ rfl rfl rfl)))) (.base (.base (.recvD _ rfl (by decide) rfl))))
    (.base (.base (.readSome _ ⟨1, 0, 0⟩ 2 rfl rfl (by decide) (by decide))))
  exact ⟨_, hr, rfl, rfl, rfl, rfl⟩

/-- **plain_replace_not_followed_counterexample** (expected behaviour of plain -f, recorded; `tail -f` does the
    same – it follows the descriptor).  Without re-open nothing tells the reader that its file was unlinked by
    the rename: `[1]` delivered, `[2,3]` renamed onto the path – the reader is back in its `select` with nothing
    pending, still holds the unlinked file, the stream is `[1]`, has not ended, and NO run of goroutine and
    reader from there changes that. -/
theorem plain_replace_not_followed_counterexample :
    ∃ (s : NSt Nat) (j : Nat), NReachO (srcN false) (ninit (some [1]) false) s ∧ s.fs.path = some j ∧
      s.fs.content j = [2, 3] ∧ s.delivered = [1] ∧ s.rd = .selecting ∧
      ∀ s', NSysReach (srcN false) s s' → ¬ onPath s' j ∧ s'.rd ≠ .ended ∧ s'.delivered = [1] := by
  have hr : NReachO (srcN false) (ninit (some [(1 : Nat)]) false) _ :=
    .step (.step (.step (.step (.step (.step
    (.refl (s0 := ninit (some [(1 : Nat)]) false))
    (.base (.base (.readSome _ ⟨0, 0, 0⟩ 1 rfl rfl (by decide) (by decide)))))
    (.replace _ 0 [2, 3] rfl)) (.base (.base (.dispatch _ .create [] rfl))))
    (.base (.base (.readEmpty _ ⟨0, 0, 1⟩ rfl rfl rfl)))) (.base (.base (.recvW _ rfl (by decide)))))
    (.base (.base (.readEmpty _ ⟨0, 0, 1⟩ rfl rfl rfl)))
  refine ⟨_, 1, hr, rfl, rfl, rfl, rfl, ?_⟩
  intro s' hs'
  rw [quiet_stays ⟨rfl, rfl, rfl, rfl⟩ hs']
  refine ⟨?_, by simp, rfl⟩
  rintro ⟨x, hx, hino⟩
  have hx' : some (⟨0, 0, 1⟩ : Handle) = some x := hx
  cases hx'
  cases hino

/-! ## catching up: every appended byte IS delivered -/

/-- **in_place_catches_up.**  Notify follow (-f or -F, from the start or `--tail`), the file stays in place:
    from every reachable state, with a silent writer, some run of the fsnotify goroutine and the reader ends
    with the delivered stream being EXACTLY the content of the file after the start position – every byte
    appended so far has been delivered, once, in order (`onpath_steps_terminate`: every run gets there, each
    step decreases `nmuP`). -/
theorem in_place_catches_up (c0 : List β) (tail reopen : Bool) {s : NSt β}
    (hr : NReach (srcN reopen) (ninit (some c0) tail) s) (hrm : s.removes = 0) :
    ∃ s', NSysReach (srcN reopen) s s' ∧ s'.fs = s.fs ∧
      s'.delivered = (s.fs.content 0).drop (start0 (some c0) tail) := by
  have hi := ninv_reach (capW_ok reopen) (capD_ok reopen) (some c0) tail hr
  obtain ⟨_, hp, p, hf⟩ := hi.inPlace rfl hrm
  obtain ⟨s', hr', hi', hfs', hrm', x, hfx, hxj, hu⟩ :=
    catch_up_aux (capW_ok reopen) (capD_ok reopen) 0 _ s (Nat.le_refl _) hi hp ⟨_, hf, rfl⟩ (Or.inr ⟨rfl, hrm⟩)
  refine ⟨s', hr', hfs', ?_⟩
  obtain ⟨hh, _, p', hf'⟩ := hi'.inPlace rfl (by rw [hrm']; exact hrm)
  rw [hf'] at hfx
  cases hfx
  have hs := hi'.strong ⟨0, start0 (some c0) tail, p'⟩ (by simp [hf'])
  simp only [unread, List.drop_eq_nil_iff] at hu
  have hpl : p' = (s'.fs.content 0).length := by simp only at hs; omega
  have hd := hi'.core.deliv
  rw [hh, hf'] at hd
  rw [hd, hpl, ← hfs']
  simp [segments, extract_to_end]

/-- **reopen_catches_up.**  Re-open follow (-F), notify reader, after ANY history of the full writer (append,
    remove, create, rename away, atomic replace, other events): with a silent writer some run of goroutine and
    reader ends with the file `j` that is at the path open and read to its end, and the delivered stream then
    ends with the whole content of `j` from the handle's start – which is 0 for every file opened after the
    start (only the initial file under `--tail` starts elsewhere): everything in the file at the path is
    delivered, from its beginning, exactly once. -/
theorem reopen_catches_up (c0 : Option (List β)) (tail : Bool) {s : NSt β}
    (hr : NReachO (srcN true) (ninit c0 tail) s) (j : Nat) (hp : s.fs.path = some j) :
    ∃ s', NSysReach (srcN true) s s' ∧ s'.fs = s.fs ∧ ∃ x, s'.f = some x ∧ x.ino = j ∧
      (x.start = 0 ∨ (j = 0 ∧ x.start = start0 c0 tail)) ∧
      s'.delivered = segments s.fs.content s'.hist ++ (s.fs.content j).drop x.start := by
  have hi := ninvO_reach (capW_ok true) (capD_ok true) rfl c0 tail hr
  obtain ⟨s', hr', hi', hfs', _, x, hfx, hxj, hu⟩ :=
    reopen_catch_up (capW_ok true) (capD_ok true) rfl hi j hp
  refine ⟨s', hr', hfs', x, hfx, hxj, ?_, ?_⟩
  · rcases hi'.starts x (by simp [hfx]) with h1 | ⟨h1, h2⟩
    · exact Or.inl h1
    · exact Or.inr ⟨by rw [← hxj]; exact h1, h2⟩
  · have hs := hi'.strong x (by simp [hfx])
    simp only [unread, List.drop_eq_nil_iff] at hu
    have hpl : x.pos = (s'.fs.content x.ino).length := by omega
    have hd := hi'.core.deliv
    rw [hfx] at hd
    rw [hd, ← hfs', ← hxj]
    simp only [Option.toList_some, segments_append, segments_single, hpl, extract_to_end]

/-- Every run gets there: while the file at the path is open (and stays: re-open follow, or nothing removed
    from a file present at the start), each step of goroutine or reader keeps it open and decreases `nmuP`. -/
theorem onpath_steps_terminate (c0 : Option (List β)) (tail reopen : Bool) {w : Who} {s s' : NSt β}
    (hr : NReach (srcN reopen) (ninit c0 tail) s) (hw : w ≠ .writer) (hs : NStep (srcN reopen) w s s')
    (j : Nat) (hp : s.fs.path = some j) (hon : onPath s j)
    (hst : reopen = true ∨ (c0.isSome = true ∧ s.removes = 0)) : onPath s' j ∧ nmuP s' < nmuP s :=
  onpath_step (ninv_reach (capW_ok reopen) (capD_ok reopen) c0 tail hr) hw hs j hp hon hst

/-- **poll_in_place_catches_up.**  The polling reader (-f or -F, from the start or `--tail`), the file stays in
    place: from every reachable state, with a silent writer, finitely many steps of the reader end with the
    delivered stream being EXACTLY the content of the file after the start position (the reader is deterministic
    up to the size of each read: every run gets there). -/
theorem poll_in_place_catches_up (c0 : List β) (tail reopen : Bool) {s : PSt β}
    (hr : PReach (srcP reopen) (pinit (some c0) tail) s) (hrm : s.removes = 0) :
    ∃ s', PSysReach (srcP reopen) s s' ∧ s'.fs = s.fs ∧
      s'.delivered = (s.fs.content 0).drop (start0 (some c0) tail) := by
  have hi := pinv_reach (cfg := srcP reopen) (some c0) tail hr
  obtain ⟨s', hr', hi', hfs', hrm', hrb'⟩ :=
    poll_catch_up_aux (attempts_ok reopen) rfl _ s (Nat.le_refl _) hi hrm
  refine ⟨s', hr', hfs', ?_⟩
  have hl := pinplace_len hi' rfl hrm'
  rw [hl.1, hrb', hfs', extract_to_end]

/-- Non-vacuity of `reopen_catches_up`: after an atomic replace with the reader not yet told (`Create` still
    queued) the hypotheses hold with `j = 1`. -/
example : ∃ s : NSt Nat, NReachO (srcN true) (ninit (some [1]) false) s ∧ s.fs.path = some 1 ∧
    s.fs.content 1 = [2, 3] ∧ s.f = some ⟨0, 0, 0⟩ :=
  ⟨_, .step (.refl (s0 := ninit (some [(1 : Nat)]) false)) (.replace _ 0 [2, 3] rfl), rfl, rfl, rfl⟩

/-- Non-vacuity of the in-place statements: `--tail` on `[8,9]`, `[5]` appended, nothing read yet. -/
example : ∃ s : NSt Nat, NReach (srcN false) (ninit (some [8, 9]) true) s ∧ s.removes = 0 ∧
    s.fs.content 0 = [8, 9, 5] ∧ s.delivered = [] :=
  ⟨_, .step (.refl (s0 := ninit (some [(8 : Nat), 9]) true)) (.append _ 0 [5] rfl (by decide)), rfl, rfl, rfl⟩

/-! ## the `Stat`/`Open` split of `reopenIfReplaced` under the full writer -/

/-- **stat_open_linearizable_full_writer.**  `stat_open_linearizable` with the FULL writer on both sides: the
    state in which `Stat` is called is any reachable state of -F notify under {append, remove, create, rename
    away, atomic replace}, and between the `Stat` and the `Open` the writer may do any of these (and the fsnotify
    goroutine may dispatch).  A file renamed onto the path is a fresh inode as well, so "the file at the path is
    not the open one" is stable: the split execution equals the atomic `reopenIfReplaced` at the `Open`, or – when
    `Stat` saw the open file – does nothing (linearised at the `Stat`; a replacement that arrives after it has
    queued its own `Create`, which raises the delete signal again: `reopen_follows_new_file`). -/
theorem stat_open_linearizable_full_writer (c0 : Option (List β)) (tail : Bool) {s1 s2 : NSt β}
    (hr : NReachO (srcN true) (ninit c0 tail) s1) (hs : EnvStepsO (srcN true) s1 s2) :
    reopenAfterStat (sameFile s1) s2 = (if sameFile s1 then s2 else reopenIfReplaced s2) ∧
    (sameFile s1 = true → reopenIfReplaced s1 = s1) ∧ s2.f = s1.f ∧ s2.delivered = s1.delivered := by
  have hi := ninvO_reach (capW_ok true) (capD_ok true) rfl c0 tail hr
  have halloc : ∀ h, s1.f = some h → h.ino < s1.fs.next := fun h hf =>
    (hi.core.bounds h (by simp [hf])).2.2
  have he := envInv_stepsO hs
  refine ⟨?_, ?_, he.handle, he.delivered⟩
  · cases hsf : sameFile s1 with
    | true => simp [reopenAfterStat]
    | false =>
      have h2 := not_same_of_envInv he halloc hsf
      simp [reopenAfterStat, reopenIfReplaced, h2]
  · intro hsf; simp [reopenIfReplaced, hsf]

/-- The basic environment is part of the full one (the theorem above extends `stat_open_linearizable`). -/
theorem stat_open_env_extends (cfg : NCfg) {s1 s2 : NSt β} (hs : EnvSteps cfg s1 s2) : EnvStepsO cfg s1 s2 :=
  envSteps_is_envStepsO hs

/-- Non-vacuity, the two interesting interleavings.  (1) `Stat` sees the open file, THEN a new file is renamed onto
    the path: the split execution keeps the old file – and the `Create` of the replacement is queued, it will raise
    the delete signal again.  (2) `Stat` sees that the open file was renamed away, then a file is renamed onto the
    path before the `Open`: the new file `[2,3]` is opened from its beginning. -/
example : ∃ s1 s2 : NSt Nat, NReachO (srcN true) (ninit (some [1]) false) s1 ∧ EnvStepsO (srcN true) s1 s2 ∧
    sameFile s1 = true ∧ s2.fs.path = some 1 ∧ reopenAfterStat (sameFile s1) s2 = s2 ∧ s2.evq = [.create] :=
  ⟨_, _, .refl, .step (w := .writer) (by decide) (.replace _ 0 [2, 3] rfl) (.refl _), rfl, rfl, rfl, rfl⟩

example : ∃ s1 s2 : NSt Nat, NReachO (srcN true) (ninit (some [1]) false) s1 ∧ EnvStepsO (srcN true) s1 s2 ∧
    sameFile s1 = false ∧ (reopenAfterStat (sameFile s1) s2).f = some ⟨1, 0, 0⟩ ∧
    (reopenAfterStat (sameFile s1) s2).hist = [⟨0, 0, 0⟩] ∧ s2.fs.content 1 = [2, 3] := by
  refine ⟨_, _, .step .refl (.base (.rename _ 0 rfl)), .step (w := .writer) (by decide) (.base (.base (.create _ rfl)))
    (.step (w := .writer) (by decide) (.base (.base (.append _ 1 [2, 3] rfl (by decide)))) (.refl _)), rfl, rfl, rfl, rfl⟩

/-! ## the polling reader under the full writer (rotation by rename, atomic replace) -/

/-- **poll_full_writer_same_reach.**  poller.go never sees events, it only reads its descriptor, `Stat`s and
    `Open`s the path.  With "followed file renamed away" and "a file with content `bs` renamed ONTO the path"
    (one system call each) as additional writer steps (`PStepO`) the polling system reaches EXACTLY the states
    it reaches with {append, remove, create}: a rename away is a removal, an atomic replace leaves the file
    system as `remove; create; append bs` does (`FS.replace_eq_remove_create_append`) and no reader step can run in between to tell
    the difference.  So every theorem about `PReach` above and below is a theorem about every kind of rotation. -/
theorem poll_full_writer_same_reach (cfg : PCfg) (p0 s : PSt β) : PReachO cfg p0 s ↔ PReach cfg p0 s :=
  preachO_iff

/-- **poll_any_rotation_exactly_once.**  poll -F, every history of the full writer (append, remove, create,
    rename away, atomic replace), every interleaving with the poller: the stream is one segment per handle, in
    order; as long as every re-open happened under the proviso of the property (`skips = 0`) every file opened
    after the start was read from its beginning; every handle delivered a range of its own file. -/
theorem poll_any_rotation_exactly_once (c0 : Option (List β)) (tail : Bool) {s : PSt β}
    (hr : PReachO (srcP true) (pinit c0 tail) s) (hsk : s.skips = 0) :
    s.delivered = segments s.fs.content (s.hist ++ s.f.toList) ∧
    (∀ h ∈ s.hist ++ s.f.toList, h.start = 0 ∨ (h.ino = 0 ∧ h.start = start0 c0 tail)) ∧
    (∀ h ∈ s.hist ++ s.f.toList, h.start ≤ h.pos ∧ (h.pos ≤ (s.fs.content h.ino).length ∨ h.pos = h.start)) := by
  have hr' := (poll_full_writer_same_reach _ _ _).mp hr
  exact ⟨(delivered_is_segments_poll c0 tail true hr').1, (reopen_reads_new_from_start_poll c0 tail hr' hsk).1,
    (delivered_is_segments_poll c0 tail true hr').2⟩

/-- **poll_plain_full_writer_blocks**: plain poll -f and the full writer – the stream ends only after a
    removal / rename away / replace of the file (`removes` counts all three), never while the first file is in place. -/
theorem poll_plain_full_writer_blocks (c0 : List β) (tail : Bool) {s : PSt β}
    (hr : PReachO (srcP false) (pinit (some c0) tail) s) (hrm : s.removes = 0) : s.rd ≠ .ended := fun he =>
  have h := (blocks_while_exists_poll c0 tail false ((poll_full_writer_same_reach _ _ _).mp hr) he).2
  by omega

/-- Non-vacuity with a replace step: `[1,2,3]` delivered, `[7,8]` renamed onto the path (shorter than the
    offset: inside the proviso), two empty polls, `Stat` sees size 2 ≠ 3, re-open at 0: the stream is
    `[1,2,3,7,8]`, no skip. -/
example : ∃ s : PSt Nat, PReachO ⟨2, true⟩ (pinit (some [1, 2, 3]) false) s ∧ s.delivered = [1, 2, 3, 7, 8] ∧
    s.skips = 0 ∧ s.removes = 1 ∧ s.f = some ⟨1, 0, 2⟩ ∧ s.hist = [⟨0, 0, 3⟩] := by
  have hr : PReachO ⟨2, true⟩ (pinit (some [(1 : Nat), 2, 3]) false) _ :=
    .step (.step (.step (.step (.step (.step (.step (.step (.refl (s0 := pinit (some [(1 : Nat), 2, 3]) false))
    (.base (.readSome _ ⟨0, 0, 0⟩ 0 3 rfl (by decide) rfl (by decide) (by decide))))
    (.replace _ 0 [7, 8] rfl))
    (.base (.readEmpty _ ⟨0, 0, 3⟩ 0 rfl (by decide) rfl rfl))) (.base (.readEmpty _ ⟨0, 0, 3⟩ 1 rfl (by decide) rfl rfl)))
    (.base (.loopDone _ ⟨0, 0, 3⟩ rfl rfl)))
    (.base (.statDiff _ 1 rfl rfl rfl (by decide)))) (.base (.reopen _ 2 rfl)))
    (.base (.readSome _ ⟨1, 0, 0⟩ 0 2 rfl (by decide) rfl (by decide) (by decide)))
  exact ⟨_, hr, rfl, rfl, rfl, rfl, rfl⟩

/-! ## the prologue of the per-file goroutine of `TailFilesToChan` (regular file, pipe, missing file / directory)

`Rare.Model.C15Open`: `followreader.New`, the optional `Drain`, the error bookkeeping.  The shape of the code (one
`incErrors` + `return` after a failed `New`, one `incErrors` WITHOUT `return` after a failed `Drain`, then
`startFileReading` and the batching loop) is `Gen.C15.tailFilesSkeleton` / `tailFilesConds` in
`wiring_matches_source`; the correspondence op `prologue` runs the real `TailFilesToChan` on all four kinds of path. -/

section prologue
open Rare.C15.Open

/-- **prologue_regular_is_initial_state.**  On a regular file nothing fails, and what the prologue leaves is
    exactly the initial state of the two transition systems every theorem above starts from: the file open at
    offset 0, or (`--tail`) at its end; the poller's `readBytes` is that offset. -/
theorem prologue_regular_is_initial_state (w : Wiring.Follow) (c : List β) :
    prologue w .regular c.length = ⟨0, true, true, start0 (some c) w.tail⟩ ∧
    (ninit (some c) w.tail).f = some ⟨0, (prologue w .regular c.length).offset, (prologue w .regular c.length).offset⟩ ∧
    (pinit (some c) w.tail).f = some ⟨0, (prologue w .regular c.length).offset, (prologue w .regular c.length).offset⟩ ∧
    (pinit (some c) w.tail).readBytes = (prologue w .regular c.length).offset := by
  rcases w with ⟨k, r, t⟩
  cases k <;> cases r <;> cases t <;> exact ⟨rfl, rfl, rfl, rfl⟩

/-- **prologue_missing_file.**  Nothing at the path (the directory exists): with re-open the goroutine follows
    without a file (`ninit none` / `pinit none`), no error, `--tail` has nothing to skip; without re-open it
    counts one error and returns. -/
theorem prologue_missing_file (w : Wiring.Follow) (size : Nat) :
    prologue w .absent size = if w.reopen then ⟨0, true, false, 0⟩ else ⟨1, false, false, 0⟩ := by
  rcases w with ⟨k, r, t⟩
  cases k <;> cases r <;> cases t <;> rfl

/-- **prologue_started_iff.**  The goroutine gives up (one error, the file is never listed as being read, nothing
    is delivered) exactly when the file cannot be opened and re-open is off, or – notify reader only, also WITH
    re-open – there is no directory to watch.  The poller with re-open waits even for the directory. -/
theorem prologue_started_iff (w : Wiring.Follow) (st : FileState) (size : Nat) :
    ((prologue w st size).started = false ↔
      (opens st = false ∧ w.reopen = false) ∨ (w.kind = .notify ∧ st = .nodir)) ∧
    ((prologue w st size).started = false → (prologue w st size).errors = 1 ∧ (prologue w st size).hasFile = false) ∧
    (newOn w.kind w.reopen st = .err ↔ Wiring.newFails (opens st) w.reopen = true ∨ (w.kind = .notify ∧ st = .nodir)) := by
  rcases w with ⟨k, r, t⟩
  cases st <;> cases k <;> cases r <;> cases t <;>
    simp [prologue, newOn, opens, watchable, seekable, drain, Wiring.newFails]

/-- **prologue_errors.**  At most one error per file; a started follower has one exactly when `--tail` met a
    file it cannot seek in. -/
theorem prologue_errors (w : Wiring.Follow) (st : FileState) (size : Nat) :
    (prologue w st size).errors ≤ 1 ∧
    ((prologue w st size).started = true →
      ((prologue w st size).errors = 1 ↔ w.tail = true ∧ st = .fifo)) := by
  rcases w with ⟨k, r, t⟩
  cases st <;> cases k <;> cases r <;> cases t <;>
    simp [prologue, newOn, opens, watchable, seekable, drain]

/-- **tail_on_pipe_counts_error_and_reads_all** (behaviour of the code, recorded): `--tail` on a named pipe –
    `Drain` fails (ESPIPE), one error is counted, there is NO `return`: the pipe is followed from its beginning,
    what was already in it is delivered too.  On a regular file `--tail` skips exactly the content. -/
theorem tail_on_pipe_counts_error_and_reads_all (w : Wiring.Follow) (content extra : List β) :
    (w.tail = true → (prologue w .fifo content.length).errors = 1) ∧
    (prologue w .fifo content.length).started = true ∧
    delivers w .fifo content extra = content ++ extra ∧
    delivers w .regular content extra = (if w.tail then extra else content ++ extra) ∧
    (prologue w .regular content.length).errors = 0 := by
  rcases w with ⟨k, r, t⟩
  cases k <;> cases r <;> cases t <;>
    simp [delivers, following, readFails, readable, prologue, newOn, opens, watchable, seekable, drain]

/-- **read_error_ends_the_file** (behaviour of the code, recorded).  The followed path is a directory: `New` and
    `Drain` succeed, the first `Read` of the descriptor fails with a non-EOF error, which BOTH readers return at
    once (notify.go / poller.go `if err != nil && err != io.EOF { return n, err }`), also with re-open: one error
    is counted, nothing is delivered, the file is not followed any more.  In general: a file is being followed
    iff the prologue started it and it is not a directory; there is never more than one error per file. -/
theorem read_error_ends_the_file (w : Wiring.Follow) (st : FileState) (content extra : List β) :
    (following w st content.length = true ↔ (prologue w st content.length).started = true ∧ st ≠ .directory) ∧
    totalErrors w st content.length ≤ 1 ∧
    (st = .directory → totalErrors w st content.length = 1 ∧ delivers w st content extra = []) ∧
    (following w st content.length = false → delivers w st content extra = []) := by
  rcases w with ⟨k, r, t⟩
  cases st <;> cases k <;> cases r <;> cases t <;>
    simp [delivers, following, totalErrors, readFails, readable, prologue, newOn, opens, watchable, seekable, drain]

example : prologue ⟨.notify, true, true⟩ .nodir 0 = ⟨1, false, false, 0⟩ ∧
    prologue ⟨.poll, true, true⟩ .nodir 0 = ⟨0, true, false, 0⟩ ∧
    prologue ⟨.poll, false, true⟩ .fifo 7 = ⟨1, true, true, 0⟩ ∧
    prologue ⟨.poll, false, true⟩ .regular 7 = ⟨0, true, true, 7⟩ ∧
    delivers ⟨.notify, false, true⟩ .fifo [1, 2] [3] = [1, 2, 3] ∧
    delivers ⟨.notify, false, true⟩ .regular [1, 2] [3] = [3] ∧
    following ⟨.notify, true, false⟩ .directory 2 = false ∧ totalErrors ⟨.poll, true, true⟩ .directory 2 = 1 := by decide

end prologue

/-! ## in-place truncation (copytruncate rotation) – outside the property, behaviour recorded -/

/-- **notify_truncate_never_seeks_back.**  Notify follow under a writer that appends AND truncates in place
    (no removal): in every reachable state the file opened at the start is still the open one, and the
    number of delivered bytes is exactly the distance its offset has travelled from the start position –
    the reader never goes back, so nothing is ever delivered twice, and nothing written below the
    offset after a truncation is ever delivered. -/
theorem notify_truncate_never_seeks_back (c0 : List β) (tail reopen : Bool) {s : NSt β}
    (hr : NReachT (srcN reopen) (ninit (some c0) tail) s) (hrm : s.removes = 0) :
    ∃ pos, s.f = some ⟨0, start0 (some c0) tail, pos⟩ ∧ s.delivered.length + start0 (some c0) tail = pos ∧
      s.rd ≠ .ended :=
  let hi := ntinv_reach c0 tail hr hrm
  let ⟨p, h1, _, h3⟩ := hi.handle
  ⟨p, h1, h3, hi.alive⟩

/-- Every step of the extended notify LTS (writer incl. truncation, fsnotify goroutine, reader), seen through
    a descriptor that stays open: the offset only grows, and what is delivered is what the file held
    between the old and the new offset. -/
theorem notify_truncate_reads_forward (reopen : Bool) {w : Who} {s s' : NSt β} (hs : NStepT (srcN reopen) w s s')
    (h h' : Handle) (hf : s.f = some h) (hf' : s'.f = some h') (hino : h'.ino = h.ino) :
    h.pos ≤ h'.pos ∧ s'.delivered = s.delivered ++ extract (s.fs.content h.ino) h.pos h'.pos :=
  let ⟨a, _, c⟩ := nstepT_forward hs h h' hf hf' hino
  ⟨a, c⟩

/-- **notify_blind_below_offset.**  While the open file is the one at the path and is not longer than the
    reader's offset (after a truncation, however much has been written below the offset since), no step of
    the fsnotify goroutine or the reader delivers a byte. -/
theorem notify_blind_below_offset (reopen : Bool) {w : Who} {s s' : NSt β} (hw : w ≠ .writer)
    (hs : NStep (srcN reopen) w s s') (h : Handle) (hf : s.f = some h) (hp : s.fs.path = some h.ino)
    (hb : (s.fs.content h.ino).length ≤ h.pos) : s'.delivered = s.delivered ∧ s'.fs = s.fs :=
  let ⟨a, b, _⟩ := nstep_blind_beyond_end hw hs h hf hp hb
  ⟨a, b⟩

/-- the run of `notify_truncate_loses_counterexample` -/
local macro "truncLosesRun" r:term : term => `(
    (NReachT.step (.step (.step (.step (.step (.step (.step (.step (.step (.step (.step (.step (.step (.step (.step
    (.refl (cfg := srcN $r) (s0 := ninit (some [(1 : Nat), 2, 3]) false))
    (.base (.readSome _ ⟨0, 0, 0⟩ 3 rfl rfl (by decide) (by decide))))
    (.truncate _ 0 0 rfl (by decide)))
    (.base (.dispatch _ .write [] rfl)))
    (.base (.readEmpty _ ⟨0, 0, 3⟩ rfl rfl rfl)))
    (.base (.recvW _ rfl (by decide))))
    (.base (.readEmpty _ ⟨0, 0, 3⟩ rfl rfl rfl)))
    (.base (.append _ 0 [7, 8] rfl (by decide))))
    (.base (.dispatch _ .write [] rfl)))
    (.base (.recvW _ rfl (by decide))))
    (.base (.readEmpty _ ⟨0, 0, 3⟩ rfl rfl rfl)))
    (.base (.append _ 0 [9, 10] rfl (by decide))))
    (.base (.dispatch _ .write [] rfl)))
    (.base (.recvW _ rfl (by decide))))
    (.base (.readSome _ ⟨0, 0, 3⟩ 1 rfl rfl (by decide) (by decide))))
    (.base (.readEmpty _ ⟨0, 0, 4⟩ rfl rfl rfl))))

/-- **notify_truncate_loses_counterexample** (expected behaviour, recorded; -f and -F alike).  `[1,2,3]`
    delivered, the file truncated to nothing, `[7,8]` written, then `[9,10]`: the reader is back in its
    `select` with no signal pending and no event queued, the file holds `[7,8,9,10]`, and the stream is
    `[1,2,3,10]`: the first three bytes of the new generation are never delivered. -/
theorem notify_truncate_loses_counterexample (reopen : Bool) :
    ∃ s : NSt Nat, NReachT (srcN reopen) (ninit (some [1, 2, 3]) false) s ∧ s.removes = 0 ∧ s.quiet ∧
      s.fs.content 0 = [7, 8, 9, 10] ∧ s.delivered = [1, 2, 3, 10] := by
  cases reopen
  · exact ⟨_, truncLosesRun false, rfl, ⟨rfl, rfl, rfl, rfl⟩, rfl, rfl⟩
  · exact ⟨_, truncLosesRun true, rfl, ⟨rfl, rfl, rfl, rfl⟩, rfl, rfl⟩

/-- **poll_reopen_restarts_shorter_file.**  Polling follow with re-open, reader at the top of `Read`, nothing
    left to read through the old descriptor, and the file at the path – the SAME inode after a truncation,
    or a new one after a rotation – shorter than the poller's offset: with a silent writer the reader does
    its `ReadAttempts` empty reads, `Stat`s, re-opens, resets its offset and delivers the whole file at the
    path from its beginning; no skip is counted.  (copytruncate rotation is handled like remove + create,
    under the same proviso.) -/
theorem poll_reopen_restarts_shorter_file (s : PSt β) (h : Handle) (j : Nat) (hf : s.f = some h)
    (hp : s.fs.path = some j) (hrd : s.rd = .attempt 0) (hu : unread s.fs h = [])
    (hlt : (s.fs.content j).length < s.readBytes) :
    ∃ s', PSysReach (srcP true) s s' ∧ s'.delivered = s.delivered ++ s.fs.content j ∧
      s'.f = some ⟨j, 0, (s.fs.content j).length⟩ ∧ s'.readBytes = (s.fs.content j).length ∧
      s'.skips = s.skips := by
  obtain ⟨s', h1, h2, h3, h4, h5, _⟩ := poll_restart_run (attempts_ok true) rfl s h j hf hp hrd hu hlt
  exact ⟨s', h1, h2, h3, h4, h5⟩

/-- Non-vacuity, as a run of the extended LTS: `[1,2,3]` delivered, truncated to nothing, `[7,8]` written; the
    hypotheses of `poll_reopen_restarts_shorter_file` hold in that reachable state (same inode!). -/
example : ∃ s : PSt Nat, PReachT (srcP true) (pinit (some [1, 2, 3]) false) s ∧ s.f = some ⟨0, 0, 3⟩ ∧
    s.fs.path = some 0 ∧ s.rd = .attempt 0 ∧ unread s.fs ⟨0, 0, 3⟩ = [] ∧
    (s.fs.content 0).length < s.readBytes ∧ s.fs.content 0 = [7, 8] := by
  have hr : PReachT (srcP true) (pinit (some [(1 : Nat), 2, 3]) false) _ :=
    .step (.step (.step (.refl (s0 := pinit (some [(1 : Nat), 2, 3]) false))
    (.base (.readSome _ ⟨0, 0, 0⟩ 0 3 rfl (by decide) rfl (by decide) (by decide))))
    (.truncate _ 0 0 rfl (by decide)))
    (.base (.append _ 0 [7, 8] rfl (by decide)))
  exact ⟨_, hr, rfl, rfl, rfl, rfl, by decide, rfl⟩

/-- **poll_plain_truncate_loses_counterexample** (expected behaviour, recorded).  Plain polling follow never
    re-opens: after the same history as `notify_truncate_loses_counterexample` the poller has done a full
    quiet cycle, the file holds `[7,8,9,10]` and the stream is `[1,2,3,10]`. -/
theorem poll_plain_truncate_loses_counterexample :
    ∃ s : PSt Nat, PReachT ⟨1, false⟩ (pinit (some [1, 2, 3]) false) s ∧ s.removes = 0 ∧ s.rd = .attempt 0 ∧
      s.fs.content 0 = [7, 8, 9, 10] ∧ s.delivered = [1, 2, 3, 10] ∧ unread s.fs ⟨0, 0, 4⟩ = [] := by
  have hr : PReachT ⟨1, false⟩ (pinit (some [(1 : Nat), 2, 3]) false) _ :=
    .step (.step (.step (.step (.step (.step (.step (.step (.step (.step (.step
    (.refl (s0 := pinit (some [(1 : Nat), 2, 3]) false))
    (.base (.readSome _ ⟨0, 0, 0⟩ 0 3 rfl (by decide) rfl (by decide) (by decide))))
    (.truncate _ 0 0 rfl (by decide)))
    (.base (.append _ 0 [7, 8] rfl (by decide))))
    (.base (.readEmpty _ ⟨0, 0, 3⟩ 0 rfl (by decide) rfl rfl)))
    (.base (.loopDone _ ⟨0, 0, 3⟩ rfl rfl)))
    (.base (.statThere _ 0 rfl rfl rfl)))
    (.base (.append _ 0 [9, 10] rfl (by decide))))
    (.base (.readSome _ ⟨0, 0, 3⟩ 0 1 rfl (by decide) rfl (by decide) (by decide))))
    (.base (.readEmpty _ ⟨0, 0, 4⟩ 0 rfl (by decide) rfl rfl)))
    (.base (.loopDone _ ⟨0, 0, 4⟩ rfl rfl)))
    (.base (.statThere _ 0 rfl rfl rfl))
  exact ⟨_, hr, rfl, rfl, rfl, rfl, rfl⟩

/-- **poll_reopen_truncate_duplicates_counterexample** (expected behaviour, recorded).  Polling follow with
    re-open takes a file that is shorter than its offset for a NEW file: after a truncation to `n > 0` bytes
    the surviving `n` bytes are delivered a second time.  `[1,2,3]` delivered, truncated to `[1,2]`: the
    stream is `[1,2,3,1,2]`. -/
theorem poll_reopen_truncate_duplicates_counterexample :
    ∃ s : PSt Nat, PReachT ⟨1, true⟩ (pinit (some [1, 2, 3]) false) s ∧ s.removes = 0 ∧
      s.fs.content 0 = [1, 2] ∧ s.delivered = [1, 2, 3, 1, 2] ∧ s.hist = [⟨0, 0, 3⟩] ∧ s.f = some ⟨0, 0, 2⟩ := by
  have hr : PReachT ⟨1, true⟩ (pinit (some [(1 : Nat), 2, 3]) false) _ :=
    .step (.step (.step (.step (.step (.step (.step
    (.refl (s0 := pinit (some [(1 : Nat), 2, 3]) false))
    (.base (.readSome _ ⟨0, 0, 0⟩ 0 3 rfl (by decide) rfl (by decide) (by decide))))
    (.truncate _ 0 2 rfl (by decide)))
    (.base (.readEmpty _ ⟨0, 0, 3⟩ 0 rfl (by decide) rfl rfl)))
    (.base (.loopDone _ ⟨0, 0, 3⟩ rfl rfl)))
    (.base (.statDiff _ 0 rfl rfl rfl (by decide))))
    (.base (.reopen _ 2 rfl)))
    (.base (.readSome _ ⟨0, 0, 0⟩ 0 2 rfl (by decide) rfl (by decide) (by decide)))
  exact ⟨_, hr, rfl, rfl, rfl, rfl, rfl⟩

/-- **poll_reopen_truncate_regrown_counterexample** (expected behaviour, recorded).  The size comparison is
    all the poller has: a file truncated and grown back to EXACTLY the old offset before the poller looks is
    not noticed (`statSame`), and what is appended later is delivered from the old offset on.  `[1,2,3]`
    delivered, truncated, `[7,8,9]` written, a quiet cycle, `[10]` appended: the stream is `[1,2,3,10]`. -/
theorem poll_reopen_truncate_regrown_counterexample :
    ∃ s : PSt Nat, PReachT ⟨1, true⟩ (pinit (some [1, 2, 3]) false) s ∧ s.removes = 0 ∧ s.skips = 0 ∧
      s.fs.content 0 = [7, 8, 9, 10] ∧ s.delivered = [1, 2, 3, 10] := by
  have hr : PReachT ⟨1, true⟩ (pinit (some [(1 : Nat), 2, 3]) false) _ :=
    .step (.step (.step (.step (.step (.step (.step (.step
    (.refl (s0 := pinit (some [(1 : Nat), 2, 3]) false))
    (.base (.readSome _ ⟨0, 0, 0⟩ 0 3 rfl (by decide) rfl (by decide) (by decide))))
    (.truncate _ 0 0 rfl (by decide)))
    (.base (.append _ 0 [7, 8, 9] rfl (by decide))))
    (.base (.readEmpty _ ⟨0, 0, 3⟩ 0 rfl (by decide) rfl rfl)))
    (.base (.loopDone _ ⟨0, 0, 3⟩ rfl rfl)))
    (.base (.statSame _ 0 rfl rfl rfl rfl)))
    (.base (.append _ 0 [10] rfl (by decide))))
    (.base (.readSome _ ⟨0, 0, 3⟩ 0 1 rfl (by decide) rfl (by decide) (by decide)))
  exact ⟨_, hr, rfl, rfl, rfl, rfl⟩

/-- The extended systems contain the original ones: every reachable state of `NStep` / `PStep` is one of
    `NStepT` / `PStepT` (so the witnesses above differ from the runs of the property only by `truncate`). -/
theorem truncate_extends (cn : NCfg) (cp : PCfg) (n0 : NSt β) (p0 : PSt β) :
    (∀ s, NReach cn n0 s → NReachT cn n0 s) ∧ (∀ s, PReach cp p0 s → PReachT cp p0 s) := by
  constructor
  · intro s h
    induction h with
    | refl => exact .refl
    | step _ hs ih => exact .step ih (.base hs)
  · intro s h
    induction h with
    | refl => exact .refl
    | step _ hs ih => exact .step ih (.base hs)

/-! ## non-vacuity (observation point (a)) -/

/-- A rotation handled in the order that used to lose the wake-up (create signal received before the
    delete signal): `[1]` delivered, file removed, new file `[2,3]`; the reader takes the write signal
    first (no-op, old file still open), then the delete signal, re-opens and delivers `[2,3]`. -/
example : ∃ s : NSt Nat, NReach (srcN true) (ninit (some [1]) false) s ∧ s.delivered = [1, 2, 3] ∧
    s.f = some ⟨1, 0, 2⟩ ∧ s.hist = [⟨0, 0, 1⟩] := by
  have hr : NReach (srcN true) (ninit (some [(1 : Nat)]) false) _ :=
    .step (.step (.step (.step (.step (.step (.step (.step (.step (.step (.step (.step
    (.refl (s0 := ninit (some [(1 : Nat)]) false))
    (.readSome _ ⟨0, 0, 0⟩ 1 rfl rfl (by decide) (by decide)))
    (.remove _ 0 rfl)) (.create _ rfl)) (.append _ 1 [2, 3] rfl (by decide)))
    (.dispatch _ .remove [.create, .write] rfl)) (.dispatch _ .create [.write] rfl))
    (.dispatch _ .write [] rfl))
    (.readEmpty _ ⟨0, 0, 1⟩ rfl rfl rfl)) (.recvW _ rfl (by decide)))
    (.readEmpty _ ⟨0, 0, 1⟩ rfl rfl rfl)) (.recvD _ rfl (by decide) rfl))
    (.readSome _ ⟨1, 0, 0⟩ 2 rfl rfl (by decide) (by decide))
  exact ⟨_, hr, rfl, rfl, rfl⟩

/-- `--tail` in place: start position 2, one append, delivered = exactly the appended bytes. -/
example : ∃ s : NSt Nat, NReach (srcN false) (ninit (some [8, 9]) true) s ∧ s.removes = 0 ∧
    s.delivered = [5, 6] ∧ InPlaceOK (s.fs.content 0) s.delivered 2 4 := by
  have hr : NReach (srcN false) (ninit (some [(8 : Nat), 9]) true) _ :=
    .step (.step (.step (.step (.step (.refl (s0 := ninit (some [(8 : Nat), 9]) true))
    (.readEmpty _ ⟨0, 2, 2⟩ rfl rfl rfl)) (.append _ 0 [5, 6] rfl (by decide)))
    (.dispatch _ .write [] rfl)) (.recvW _ rfl (by decide)))
    (.readSome _ ⟨0, 2, 2⟩ 2 rfl rfl (by decide) (by decide))
  exact ⟨_, hr, rfl, rfl, ⟨by decide, by decide, rfl⟩⟩

/-- The hypotheses of `unread_eventually_delivered` are satisfiable with the reader in its `select`:
    unread bytes, reader selecting, and indeed a write event is still queued. -/
example : ∃ s : NSt Nat, NReach (srcN false) (ninit (some []) false) s ∧ s.removes = 0 ∧
    s.rd = .selecting ∧ unread s.fs ⟨0, 0, 0⟩ = [4] ∧ Ev.write ∈ s.evq := by
  have hr : NReach (srcN false) (ninit (some ([] : List Nat)) false) _ :=
    .step (.step (.refl (s0 := ninit (some ([] : List Nat)) false))
    (.readEmpty _ ⟨0, 0, 0⟩ rfl rfl rfl)) (.append _ 0 [4] rfl (by decide))
  exact ⟨_, hr, rfl, rfl, rfl, by decide⟩

/-- Plain polling follow: a reachable ended state exists (after a removal), with everything delivered. -/
example : ∃ s : PSt Nat, PReach ⟨1, false⟩ (pinit (some [1, 2]) false) s ∧ s.rd = .ended ∧
    s.delivered = [1, 2] ∧ 0 < s.removes := by
  have hr : PReach ⟨1, false⟩ (pinit (some [(1 : Nat), 2]) false) _ :=
    .step (.step (.step (.step (.step (.refl (s0 := pinit (some [(1 : Nat), 2]) false))
    (.readSome _ ⟨0, 0, 0⟩ 0 2 rfl (by decide) rfl (by decide) (by decide)))
    (.remove _ 0 rfl)) (.readEmpty _ ⟨0, 0, 2⟩ 0 rfl (by decide) rfl rfl))
    (.loopDone _ ⟨0, 0, 2⟩ rfl rfl)) (.statGone _ rfl rfl rfl)
  exact ⟨_, hr, rfl, rfl, by decide⟩

end Rare.C15
