import Rare.Proofs.C02
import Rare.Proofs.C02Filter
import Rare.Proofs.C02Named
import Rare.Model.C02Plan
import Rare.Props.C01
import Rare.Props.C04
import Rare.Props.C12
import Rare.Gen.C02
/-!
# C02 — each match carries its true source, line number, text and capture groups
-/
namespace Rare.C02
open Rare.Pipeline Rare.Batcher

/-- The line number attached to a line (`BatchStart + idx`) is its true 1-based position in its
    input — for every batch size and every behaviour of the 250ms flush timer. -/
theorem lineNumber_true {α : Type} (batchSize : Nat) (ls : List (α × Bool)) :
    (run batchSize ls).flatMap lineNumbers = (ls.map (·.1)).zipIdx 1 :=
  (C01.batches_concat batchSize ls).2.2

/-- `GetMatch`: for index slices as matchers produce them, group `k` reads as the text between its
    two offsets in the leftmost match; groups that did not participate (−1), do not exist, or are
    addressed by a negative / huge index read as empty; it never panics. -/
theorem getMatch_spec (line : Bytes) (indices : List Int) (idx : Int)
    (hwf : WF line indices) (hlen : (indices.length : Int) < 4611686018427387904)
    (hidx : minInt64 ≤ idx ∧ idx ≤ maxInt64) :
    getMatch line indices idx = .ok (specGroup line indices idx) :=
  getMatch_eq_spec line indices idx hwf hlen hidx

/-- **`{name}`.**  For a name table built as the regex wrapper builds it from `regexp.SubexpNames()`
(`C16.regexNameTable`: every group, named or not, advances the index; a repeated name keeps its last
group), in any iteration order `σ` of the map: `GetKey(name)` is `GetMatch` of the REAL submatch index
of the last group carrying that name – so, on an engine's index list, the text of that group in the
leftmost match, empty when the group did not participate – wherever unnamed groups stand before,
after, around or inside the named one.  A name no group carries reads as the `<NAME>` error marker.
(`src`, `line`, `.`, `#`, `.#`, `#.`, `@` are answered by `GetKey` itself before the table is consulted:
a group named `line` or `src` is shadowed.) -/
theorem named_group_value (c : MatchCtx) (subexpNames : List Bytes) (key : Bytes) (k : Nat)
    (hσ : c.names.Perm (C16.regexNameTable subexpNames)) (hres : key ∉ reservedKeys)
    (hk : subexpNames[k]? = some key) (hne : key ≠ [])
    (hlast : ∀ j, k < j → subexpNames[j]? ≠ some key)
    (hwf : WF c.line c.indices) (hlen : (c.indices.length : Int) < 4611686018427387904)
    (hkr : (k : Int) ≤ maxInt64) :
    getKey c key = (getMatch c.line c.indices (k : Int)).map .val ∧
    getKey c key = .ok (.val (specGroup c.line c.indices (k : Int))) := by
  have h1 := getKey_regex_name c subexpNames key k hσ hres hk hne hlast
  refine ⟨h1, ?_⟩
  rw [h1, getMatch_eq_spec c.line c.indices k hwf hlen ⟨by unfold minInt64; omega, hkr⟩]
  rfl

/-- a name that no group of the expression carries -/
theorem unknown_name_marker (c : MatchCtx) (subexpNames : List Bytes) (key : Bytes)
    (hσ : c.names.Perm (C16.regexNameTable subexpNames)) (hres : key ∉ reservedKeys) (hno : key ∉ subexpNames) :
    getKey c key = .ok (.val Expr.ErrorArgName) :=
  getKey_regex_missing c subexpNames key hσ hres hno

/-- Groups that do not exist read as empty. -/
theorem missing_group_empty (line : Bytes) (indices : List Int) (k : Int)
    (h : k < 0 ∨ (indices.length : Int) ≤ 2 * k + 1) : specGroup line indices k = [] := by
  unfold specGroup
  have : ¬ (0 ≤ k ∧ 2 * k + 1 < (indices.length : Int)) := by omega
  simp [this]

/-- With one reader and one worker the consumer receives the matches in input order: in every
    terminal state `consumed` is exactly the matched lines in their original order. -/
theorem fifo_order {α : Type} [DecidableEq α] (cls : α → Cls) (R B K : Nat) (batches : List (List α)) {s : St α}
    (hr : Reach cls R B K (init [batches] 1) s) (hd : s.consDone = true) :
    s.consumed = batches.flatten.filter (isMatched cls) := by
  have hf := fifo_reach cls (by simp [init]) (by simp [init]) hr
  have hinv : Pipeline.Inv cls B K _ s := Pipeline.inv_reach (Pipeline.inv_init cls B K [batches] 1) hr
  obtain ⟨hrcl, hrc⟩ := hinv.consdone hd
  have hwall := hinv.rcclosed hrcl
  obtain ⟨w, hw⟩ := single_of_length_one hf.2.2
  rw [hw] at hwall
  simp at hwall
  have hwx : w = .exited := by cases w <;> simp_all [WSt.isExited]
  have hany : s.workers.any WSt.isExited = true := by rw [hw, hwx]; rfl
  obtain ⟨hcl, hc⟩ := hinv.exited hany
  have hsall := hinv.cclosed hcl
  obtain ⟨x, hx⟩ := single_of_length_one hf.2.1
  rw [hx] at hsall
  simp at hsall
  have hxd : x = .done := by cases x <;> simp_all [SrcSt.isDone]
  have h0 : orderSeq cls (init [batches] 1) = batches.flatten.filter (isMatched cls) := by
    simp [orderSeq, init, wAcc, wTodo, srcLines, WSt.acc, WSt.todo, SrcSt.lines]
  have h1 : orderSeq cls s = s.consumed := by
    simp [orderSeq, hrc, hc, wAcc, wTodo, srcLines, hw, hwx, hx, hxd, WSt.acc, WSt.todo, SrcSt.lines]
  rw [← h1, hf.1, h0]

/-- `WrapIndices` (default `filter` output): for every line and every in-range index list, overlapping,
    empty, absent and out-of-order groups included, the function does not panic and removing the inserted
    colour/reset codes yields the line byte for byte. -/
theorem wrapIndices_strip (s : Bytes) (colors : List Bytes) (reset : Bytes) (groups : List Int)
    (hg : ∀ g ∈ groups, g ≤ s.length) :
    ∃ segs, wrapIndices s colors reset groups = .ok segs ∧ strip segs = s :=
  wrapIndices_strip_eq s colors reset groups hg

/-- The colour table the model uses is the one in the source. -/
theorem colors_from_source : Gen.C02.groupColors.length = 12 ∧ Gen.C02.reset = "\x1b[0m" := by decide

/-- **`{@}`.**  `SliceSpaceExpressionContext.array()` is the NUL-joined list of groups `1 … n-1`
(`n = len(indices)/2`): the whole match (group 0) is NOT part of it, a group that did not participate
contributes the empty text between its separators, there is no leading and no trailing separator,
and with no groups at all it is the empty text.  It never panics on an engine's index list. -/
theorem array_spec (line : Bytes) (indices : List Int) (hwf : WF line indices)
    (hlen : (indices.length : Int) < 4611686018427387904) :
    array line indices =
      .ok (joinSep [0] ((List.range' 1 (indices.length / 2 - 1)).map fun (k : Nat) => specGroup line indices (k : Int))) :=
  array_eq line indices hwf hlen

/-- The constants of the model are the ones in the source: the array separator, the escape byte and
code terminator of `color.StrLen`, and the two numbers of `filter`'s default-output branch. -/
theorem c02_constants_from_source :
    Gen.C02.arraySeparator = 0 ∧ Gen.C02.escapeRune = 0x1b ∧ Gen.C02.codeEnd = 0x6d ∧
    Gen.C02.filterWholeLen = 2 ∧ Gen.C02.filterSkip = 2 := by decide

/-- Every colour code `WrapIndices` can insert is one complete code for `color.StrLen`'s state machine
(ESC … `m`), so "with colour codes removed" (`visible`) removes each of them entirely and nothing after it. -/
theorem codes_closed : ∀ c ∈ lit Gen.C02.reset :: Gen.C02.groupColors.map lit, ClosedCode 0x1b c := by
  decide

/-- **Default `filter` output, colour codes removed, is the matched line** – for EVERY index list a
matcher can hand out (`2 ≤ len`, offsets `≤ len(line)`; overlapping, nested, empty, absent (−1),
out-of-order groups and an odd tail included – `EngineWF` is a special case, `filter_output_engine`):
the output is the line cut into pieces, in order, with codes between them and a final newline;
removing exactly the inserted codes (`strip`) gives the line followed by the newline, byte for byte;
every inserted code comes from the source's table; and it does not panic.  With colours off the
output is the line and the newline. -/
theorem filter_output_eq_line (line : Bytes) (indices : List Int)
    (h2 : 2 ≤ indices.length) (hr : ∀ g ∈ indices, g ≤ line.length) :
    (∃ segs, filterLine true (Gen.C02.groupColors.map lit) (lit Gen.C02.reset) line indices = .ok segs ∧
      strip segs = line ++ [0x0a] ∧ (texts segs).flatten = line ++ [0x0a] ∧
      ∀ c ∈ codes segs, c = lit Gen.C02.reset ∨ c ∈ Gen.C02.groupColors.map lit) ∧
    (∃ segs, filterLine false (Gen.C02.groupColors.map lit) (lit Gen.C02.reset) line indices = .ok segs ∧
      render segs = line ++ [0x0a]) := by
  obtain ⟨segs, h, hs, hc⟩ := filterLine_on (Gen.C02.groupColors.map lit) (lit Gen.C02.reset) line indices h2 hr
  have hst : strip (segs ++ [Seg.text [0x0a]]) = line ++ [0x0a] := by rw [strip_append, hs]; rfl
  refine ⟨⟨_, h, hst, by rw [← strip_eq_texts]; exact hst, ?_⟩,
    ⟨_, filterLine_off _ _ line indices h2, by simp [render]⟩⟩
  intro c hcm
  rw [codes_append] at hcm
  simp only [codes, List.append_nil] at hcm
  exact hc (by decide) c hcm

/-- The same for index lists as the engines return them. -/
theorem filter_output_engine (line : Bytes) (indices : List Int) (h : EngineWF line indices) :
    ∃ segs, filterLine true (Gen.C02.groupColors.map lit) (lit Gen.C02.reset) line indices = .ok segs ∧
      strip segs = line ++ [0x0a] :=
  let ⟨⟨segs, h1, h2, _⟩, _⟩ := filter_output_eq_line line indices h.two (h.wf.le_length h.even)
  ⟨segs, h1, h2⟩

/-- **What "colour codes removed" means on bytes.**  `visible` is `color.StrLen`'s state machine (ESC
starts a code, the next `m` ends it) returning the bytes it counts.  If the line itself contains no
ESC byte, the visible bytes of the coloured output are exactly the line and the newline.  (For a line
that does contain ESC the byte-level reading cannot tell the line's own sequences from inserted ones –
then `filter_output_eq_line` (removing the codes *that were inserted*) and
`existing_escape_survives` are the statements.) -/
theorem filter_output_visible (line : Bytes) (indices : List Int)
    (h2 : 2 ≤ indices.length) (hr : ∀ g ∈ indices, g ≤ line.length) (hesc : (0x1b : UInt8) ∉ line) :
    ∃ segs, filterLine true (Gen.C02.groupColors.map lit) (lit Gen.C02.reset) line indices = .ok segs ∧
      visible (render segs) = line ++ [0x0a] := by
  obtain ⟨⟨segs, h, hs, ht, hc⟩, _⟩ := filter_output_eq_line line indices h2 hr
  refine ⟨segs, h, ?_⟩
  unfold visible
  rw [visible_render 0x1b segs ?_ ?_, hs]
  · intro t htm he
    have hm := texts_bytes_of_strip segs t htm _ he
    rw [hs] at hm
    rcases List.mem_append.mp hm with h' | h'
    · exact hesc h'
    · exact absurd h' (by decide)
  · intro c hcm
    have := hc c hcm
    apply codes_closed
    rcases this with e | e
    · simp [e]
    · exact List.mem_cons_of_mem _ e

/-- **An escape sequence already present in the line survives.**  Any stretch `line[a:b]` of the matched
line that no offset of the index list falls strictly inside of – e.g. a colour sequence the log line
already carried – stands in the coloured output contiguously and unchanged.  (A group boundary inside
such a sequence puts a code there, as it would between any two bytes; all bytes of the line are still
there in order – `filter_output_eq_line`.) -/
theorem existing_escape_survives (line : Bytes) (indices : List Int) (segs : List Seg)
    (h : filterLine true (Gen.C02.groupColors.map lit) (lit Gen.C02.reset) line indices = .ok segs)
    (a b : Nat) (hab : a ≤ b) (hb : b ≤ line.length)
    (hno : ∀ g ∈ indices, ¬ ((a : Int) < g ∧ g < (b : Int))) :
    (line.drop a).take (b - a) <:+: render segs := by
  unfold filterLine filterLineK at h
  simp only [] at h
  have key : ∀ (groups : List Int) (segs' : List Seg), (∀ g ∈ groups, g ∈ indices) →
      wrapIndicesE true line (Gen.C02.groupColors.map lit) (lit Gen.C02.reset) groups = .ok segs' →
      (line.drop a).take (b - a) <:+: render (segs' ++ [Seg.text [0x0a]]) := by
    intro groups segs' hsub hw
    simp only [wrapIndicesE, Bool.not_true, Bool.false_eq_true, if_false] at hw
    obtain ⟨p, q, e⟩ := wrapIndices_keeps line _ _ groups segs' hw a b hab hb (fun g hg => hno g (hsub g hg))
    exact ⟨p, q ++ [0x0a], by rw [render_append, ← e]; simp [render]⟩
  split at h
  · rename_i segs' hw
    simp only [Except.ok.injEq] at h; subst h
    split at hw
    · exact key indices segs' (fun g hg => hg) hw
    · split at hw
      · cases hw
      · exact key _ segs' (fun g hg => List.mem_of_mem_drop hg) hw
  · cases h

/-- The line text of a match stays what it was however long the consumer holds it (C04: slices handed
    out by the scanner are never overwritten by later reads or buffer growth). -/
theorem match_line_stable (bufSize : Nat) (data : Bytes) (script : List C04.Step) (h : 1 ≤ bufSize) :
    ∀ vb ∈ (C04.Imm.run bufSize data script).1,
      C04.readView (C04.Imm.run bufSize data script).2.2.arrays vb.1 = vb.2 :=
  C04.imm_tokens_stable bufSize data script h

/-- The index slice of a dissect match stays what it was: results for earlier lines are not altered by
    matching later lines (C12: the IntPool hands out disjoint views).  Go's `regexp` allocates a fresh
    slice per call, so nothing is shared there. -/
theorem match_indices_stable (ic : Bool) (p : C12.Pat) (hp : p.Shape) (d : C12.Dissect)
    (hc : C12.compileEx p.render ic = .ok d) (lines more : List Bytes) :
    ∃ r rAll, C12.matchAll d lines = .ok r ∧ C12.matchAll d (lines ++ more) = .ok rAll ∧
      rAll.take lines.length = r :=
  C12.earlier_results_unaltered ic p hp d hc lines more

/-- **Flag plumbing** (`BuildMatcherFromArguments`): `--match` together with `--dissect` is refused;
`--dissect` selects dissect with the ignore-case flag passed on; `--match` selects the regex engine in
POSIX or Perl mode, on the user's expression – prefixed by the source's `(?i)` under `--ignore-case`
and otherwise untouched; with neither flag every line matches.  (What the engines then do is their
contract; `plan` cases compare the real function with the engines' own answers.) -/
theorem matcher_plan_table (matchExpr dissectExpr : Bytes) (posix ic : Bool) :
    matcherPlan true true matchExpr dissectExpr posix ic = .conflict ∧
    matcherPlan false true matchExpr dissectExpr posix ic = .dissect dissectExpr ic ∧
    matcherPlan true false matchExpr dissectExpr posix false = .regex matchExpr posix ∧
    matcherPlan true false matchExpr dissectExpr posix true = .regex (lit Gen.C02.icPrefix ++ matchExpr) posix ∧
    matcherPlan false false matchExpr dissectExpr posix ic = .always := by
  have hp : lit Gen.C02.icPrefix = icPrefix := by decide
  refine ⟨by simp [matcherPlan], by simp [matcherPlan], by simp [matcherPlan], ?_, by simp [matcherPlan]⟩
  rw [hp]; simp [matcherPlan]

/-- Without a matcher flag (`AlwaysMatch`) the index list is the single pair of the whole line: it is an
engine-shaped list, group 0 is the line, there are no further groups and `{@}` is empty. -/
theorem always_match_spec (line : Bytes) :
    EngineWF line (alwaysIndices line) ∧ specGroup line (alwaysIndices line) 0 = line ∧
    (∀ k : Int, k ≠ 0 → specGroup line (alwaysIndices line) k = []) := by
  refine ⟨⟨by simp [alwaysIndices], by simp [alwaysIndices], ?_⟩, ?_, ?_⟩
  · intro k hk
    have : k = 0 := by simp [alwaysIndices] at hk; omega
    subst this
    right
    simp [alwaysIndices]
  · simp [specGroup, alwaysIndices]
    intro h; omega
  · intro k hk
    unfold specGroup
    have : ¬ (0 ≤ k ∧ 2 * k + 1 < ((alwaysIndices line).length : Int)) := by simp [alwaysIndices]; omega
    simp [this]

/-- Non-vacuity: an optional group that did not participate, a nested group, and a missing group. -/
example : WF [97, 98, 99] [0, 3, -1, -1, 1, 2] ∧
    specGroup [97, 98, 99] [0, 3, -1, -1, 1, 2] 0 = [97, 98, 99] ∧
    specGroup [97, 98, 99] [0, 3, -1, -1, 1, 2] 1 = [] ∧
    specGroup [97, 98, 99] [0, 3, -1, -1, 1, 2] 2 = [98] ∧
    specGroup [97, 98, 99] [0, 3, -1, -1, 1, 2] 3 = [] := by
  refine ⟨?_, by decide, by decide, by decide, by decide⟩
  intro k hk
  have : k = 0 ∨ k = 1 ∨ k = 2 := by simp at hk; omega
  rcases this with rfl | rfl | rfl <;> decide

example : (match wrapIndices [97, 98, 99] [[1], [2]] [0] [0, 1, 1, 3] with
    | .ok segs => strip segs
    | .error _ => []) = [97, 98, 99] := by decide

/-- `EngineWF` is satisfiable on a list with an absent group, nested / overlapping groups and a group
that lies *before* an earlier-numbered one (`(?:(b)|(a))*` on `ab` gives `[0,2, 1,2, 0,1]`). -/
example : EngineWF [97, 98] [0, 2, 1, 2, 0, 1] ∧ EngineWF [97, 98, 99] [0, 3, -1, -1, 0, 3, 1, 2, 1, 1] := by
  refine ⟨⟨by decide, by decide, ?_⟩, ⟨by decide, by decide, ?_⟩⟩
  · intro k hk
    have : k = 0 ∨ k = 1 ∨ k = 2 := by simp at hk; omega
    rcases this with rfl | rfl | rfl <;> decide
  · intro k hk
    have : k = 0 ∨ k = 1 ∨ k = 2 ∨ k = 3 ∨ k = 4 := by simp at hk; omega
    rcases this with rfl | rfl | rfl | rfl | rfl <;> decide

/-- `{@}`: group 0 is not included, the absent group 2 is the empty text between two separators -/
example : (array (lit "x yz") [0, 4, 0, 1, -1, -1, 2, 4]).toOption = some (lit "x" ++ [0, 0] ++ lit "yz") ∧
    (array (lit "x") [0, 1]).toOption = some [] ∧ (array (lit "x") [0, 1, 0, 1]).toOption = some (lit "x") := by
  decide

/-- default `filter` output on the out-of-order list: group 2 (before group 1) is skipped, nothing is lost -/
example : (match filterLine true [[1], [2]] [9] [97, 98] [0, 2, 1, 2, 0, 1] with
    | .ok segs => (render segs, texts segs, codes segs)
    | .error _ => ([], [], [])) = ([97, 1, 98, 9, 10], [[97], [98], [10]], [[1], [9]]) := by decide

/-- a line that already carries `ESC[1m`: the sequence stands in the output untouched, while the byte-level
reading (`visible`) removes it together with the inserted codes – it cannot tell them apart -/
example :
    (match filterLine true (Gen.C02.groupColors.map lit) (lit Gen.C02.reset) (lit "a\x1b[1mb c") [0, 8, 7, 8] with
     | .ok segs => (render segs, visible (render segs), strip segs)
     | .error _ => ([], [], []))
    = (lit "a\x1b[1mb \x1b[31mc\x1b[0m\n", lit "ab c\n", lit "a\x1b[1mb c\n") := by decide

/-- `(\w+) (?P<path>\S+) (?P<status>\d+)` on `GET /x 200`: `path` is group 2, `status` group 3 (the unnamed
group counts); `(?P<a>x)(y)(?P<a>z)`: the name keeps its last group -/
example : C16.regexNameTable [[], [], lit "path", lit "status"] = [(lit "path", 2), (lit "status", 3)] ∧
    (getKey ⟨lit "GET /x 200", [0, 10, 0, 3, 4, 6, 7, 10], C16.regexNameTable [[], [], lit "path", lit "status"], [], 1⟩
      (lit "path")).toOption.map (fun a => match a with | .val b => b | .json => []) = some (lit "/x") ∧
    C16.regexNameTable [[], lit "a", [], lit "a"] = [(lit "a", 3)] := by decide +kernel

/-- the hypotheses of `named_group_value` are satisfiable (`path` is not a reserved key, it is group 2) -/
example : lit "path" ∉ reservedKeys ∧ ([[], [], lit "path", lit "status"] : List Bytes)[2]? = some (lit "path") ∧
    lit "line" ∈ reservedKeys := by decide +kernel

example : matcherPlan true false (lit "err (\\d+)") [] true true = .regex (lit "(?i)err (\\d+)") true := by decide

/-- an index list of odd length < 2 would panic in `match.Indices[2:]` (no matcher returns one) -/
example : (filterLine true [] [] [97] [0]).toBool = false := by decide

end Rare.C02
