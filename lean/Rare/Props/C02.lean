import Rare.Proofs.C02
import Rare.Props.C01
import Rare.Props.C04
import Rare.Props.C12
import Rare.Gen.C02
/-!
# C02 — each match carries its true source, line number, text and capture groups
-/
namespace Rare.C02
open Rare.Pipeline Rare.Batcher

/-- The line number attached to a line (`BatchStart + idx`) is its true 1-based position in its
    input — for every batch size and every behaviour of the 250ms flush timer. -/
theorem lineNumber_true {α : Type} (batchSize : Nat) (ls : List (α × Bool)) :
    (run batchSize ls).flatMap lineNumbers = (ls.map (·.1)).zipIdx 1 :=
  (C01.batches_concat batchSize ls).2.2

/-- `GetMatch`: for index slices as matchers produce them, group `k` reads as the text between its
    two offsets in the leftmost match; groups that did not participate (−1), do not exist, or are
    addressed by a negative / huge index read as empty; it never panics. -/
theorem getMatch_spec (line : Bytes) (indices : List Int) (idx : Int)
    (hwf : WF line indices) (hlen : (indices.length : Int) < 4611686018427387904)
    (hidx : minInt64 ≤ idx ∧ idx ≤ maxInt64) :
    getMatch line indices idx = .ok (specGroup line indices idx) :=
  getMatch_eq_spec line indices idx hwf hlen hidx

/-- Groups that do not exist read as empty. -/
theorem missing_group_empty (line : Bytes) (indices : List Int) (k : Int)
    (h : k < 0 ∨ (indices.length : Int) ≤ 2 * k + 1) : specGroup line indices k = [] := by
  unfold specGroup
  have : ¬ (0 ≤ k ∧ 2 * k + 1 < (indices.length : Int)) := by omega
  simp [this]

/-- With one reader and one worker the consumer receives the matches in input order: in every
    terminal state `consumed` is exactly the matched lines in their original order. -/
theorem fifo_order {α : Type} [DecidableEq α] (cls : α → Cls) (R B K : Nat) (batches : List (List α)) {s : St α}
    (hr : Reach cls R B K (init [batches] 1) s) (hd : s.consDone = true) :
    s.consumed = batches.flatten.filter (isMatched cls) := by
  have hf := fifo_reach cls (by simp [init]) (by simp [init]) hr
  have hinv : Pipeline.Inv cls B K _ s := Pipeline.inv_reach (Pipeline.inv_init cls B K [batches] 1) hr
  obtain ⟨hrcl, hrc⟩ := hinv.consdone hd
  have hwall := hinv.rcclosed hrcl
  obtain ⟨w, hw⟩ := single_of_length_one hf.2.2
  rw [hw] at hwall
  simp at hwall
  have hwx : w = .exited := by cases w <;> simp_all [WSt.isExited]
  have hany : s.workers.any WSt.isExited = true := by rw [hw, hwx]; rfl
  obtain ⟨hcl, hc⟩ := hinv.exited hany
  have hsall := hinv.cclosed hcl
  obtain ⟨x, hx⟩ := single_of_length_one hf.2.1
  rw [hx] at hsall
  simp at hsall
  have hxd : x = .done := by cases x <;> simp_all [SrcSt.isDone]
  have h0 : orderSeq cls (init [batches] 1) = batches.flatten.filter (isMatched cls) := by
    simp [orderSeq, init, wAcc, wTodo, srcLines, WSt.acc, WSt.todo, SrcSt.lines]
  have h1 : orderSeq cls s = s.consumed := by
    simp [orderSeq, hrc, hc, wAcc, wTodo, srcLines, hw, hwx, hx, hxd, WSt.acc, WSt.todo, SrcSt.lines]
  rw [← h1, hf.1, h0]

/-- `WrapIndices` (default `filter` output): for every line and every in-range index list, overlapping,
    empty, absent and out-of-order groups included, the function does not panic and removing the inserted
    colour/reset codes yields the line byte for byte. -/
theorem wrapIndices_strip (s : Bytes) (colors : List Bytes) (reset : Bytes) (groups : List Int)
    (hg : ∀ g ∈ groups, g ≤ s.length) :
    ∃ segs, wrapIndices s colors reset groups = .ok segs ∧ strip segs = s :=
  wrapIndices_strip_eq s colors reset groups hg

/-- The colour table the model uses is the one in the source. -/
theorem colors_from_source : Gen.C02.groupColors.length = 12 ∧ Gen.C02.reset = "\x1b[0m" := by decide

/-- The line text of a match stays what it was however long the consumer holds it (C04: slices handed
    out by the scanner are never overwritten by later reads or buffer growth). -/
theorem match_line_stable (bufSize : Nat) (data : Bytes) (script : List C04.Step) (h : 1 ≤ bufSize) :
    ∀ vb ∈ (C04.Imm.run bufSize data script).1,
      C04.readView (C04.Imm.run bufSize data script).2.2.arrays vb.1 = vb.2 :=
  C04.imm_tokens_stable bufSize data script h

/-- The index slice of a dissect match stays what it was: results for earlier lines are not altered by
    matching later lines (C12: the IntPool hands out disjoint views).  Go's `regexp` allocates a fresh
    slice per call, so nothing is shared there. -/
theorem match_indices_stable (ic : Bool) (p : C12.Pat) (hp : p.Shape) (d : C12.Dissect)
    (hc : C12.compileEx p.render ic = .ok d) (lines more : List Bytes) :
    ∃ r rAll, C12.matchAll d lines = .ok r ∧ C12.matchAll d (lines ++ more) = .ok rAll ∧
      rAll.take lines.length = r :=
  C12.earlier_results_unaltered ic p hp d hc lines more

/-- Non-vacuity: an optional group that did not participate, a nested group, and a missing group. -/
example : WF [97, 98, 99] [0, 3, -1, -1, 1, 2] ∧
    specGroup [97, 98, 99] [0, 3, -1, -1, 1, 2] 0 = [97, 98, 99] ∧
    specGroup [97, 98, 99] [0, 3, -1, -1, 1, 2] 1 = [] ∧
    specGroup [97, 98, 99] [0, 3, -1, -1, 1, 2] 2 = [98] ∧
    specGroup [97, 98, 99] [0, 3, -1, -1, 1, 2] 3 = [] := by
  refine ⟨?_, by decide, by decide, by decide, by decide⟩
  intro k hk
  have : k = 0 ∨ k = 1 ∨ k = 2 := by simp at hk; omega
  rcases this with rfl | rfl | rfl <;> decide

example : (match wrapIndices [97, 98, 99] [[1], [2]] [0] [0, 1, 1, 3] with
    | .ok segs => strip segs
    | .error _ => []) = [97, 98, 99] := by decide

end Rare.C02
