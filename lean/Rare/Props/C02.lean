import Rare.Proofs.C02
import Rare.Proofs.C02Filter
import Rare.Proofs.C02Named
import Rare.Proofs.C02RxIdx
import Rare.Proofs.C02RxPosix
import Rare.Proofs.C02RxRep
import Rare.Proofs.C02Batch
import Rare.Proofs.C02Hist
import Rare.Model.C02RxParse
import Rare.Model.C02Plan
import Rare.Props.C01
import Rare.Props.C04
import Rare.Props.C12
import Rare.Gen.C02
/-!
# C02 — each match carries its true source, line number, text and capture groups
-/
namespace Rare.C02
open Rare.Pipeline Rare.Batcher

/-- The line number attached to a line (`BatchStart + idx`) is its true 1-based position in its
    input — for every batch size and every behaviour of the 250ms flush timer. -/
theorem lineNumber_true {α : Type} (batchSize : Nat) (ls : List (α × Bool)) :
    (run batchSize ls).flatMap lineNumbers = (ls.map (·.1)).zipIdx 1 :=
  (C01.batches_concat batchSize ls).2.2

/-- `GetMatch`: for index slices as matchers produce them, group `k` reads as the text between its
    two offsets in the leftmost match; groups that did not participate (−1), do not exist, or are
    addressed by a negative / huge index read as empty; it never panics. -/
theorem getMatch_spec (line : Bytes) (indices : List Int) (idx : Int)
    (hwf : WF line indices) (hlen : (indices.length : Int) < 4611686018427387904)
    (hidx : minInt64 ≤ idx ∧ idx ≤ maxInt64) :
    getMatch line indices idx = .ok (specGroup line indices idx) :=
  getMatch_eq_spec line indices idx hwf hlen hidx

/-- **`{name}`.**  For a name table built as the regex wrapper builds it from `regexp.SubexpNames()`
(`C16.regexNameTable`: every group, named or not, advances the index; a repeated name keeps its last
group), in any iteration order `σ` of the map: `GetKey(name)` is `GetMatch` of the REAL submatch index
of the last group carrying that name – so, on an engine's index list, the text of that group in the
leftmost match, empty when the group did not participate – wherever unnamed groups stand before,
after, around or inside the named one.  A name no group carries reads as the `<NAME>` error marker.
(`src`, `line`, `.`, `#`, `.#`, `#.`, `@` are answered by `GetKey` itself before the table is consulted:
a group named `line` or `src` is shadowed.) -/
theorem named_group_value (c : MatchCtx) (subexpNames : List Bytes) (key : Bytes) (k : Nat)
    (hσ : c.names.Perm (C16.regexNameTable subexpNames)) (hres : key ∉ reservedKeys)
    (hk : subexpNames[k]? = some key) (hne : key ≠ [])
    (hlast : ∀ j, k < j → subexpNames[j]? ≠ some key)
    (hwf : WF c.line c.indices) (hlen : (c.indices.length : Int) < 4611686018427387904)
    (hkr : (k : Int) ≤ maxInt64) :
    getKey c key = (getMatch c.line c.indices (k : Int)).map .val ∧
    getKey c key = .ok (.val (specGroup c.line c.indices (k : Int))) := by
  have h1 := getKey_regex_name c subexpNames key k hσ hres hk hne hlast
  refine ⟨h1, ?_⟩
  rw [h1, getMatch_eq_spec c.line c.indices k hwf hlen ⟨by unfold minInt64; omega, hkr⟩]
  rfl

/-- a name that no group of the expression carries -/
theorem unknown_name_marker (c : MatchCtx) (subexpNames : List Bytes) (key : Bytes)
    (hσ : c.names.Perm (C16.regexNameTable subexpNames)) (hres : key ∉ reservedKeys) (hno : key ∉ subexpNames) :
    getKey c key = .ok (.val Expr.ErrorArgName) :=
  getKey_regex_missing c subexpNames key hσ hres hno

/-- Groups that do not exist read as empty. -/
theorem missing_group_empty (line : Bytes) (indices : List Int) (k : Int)
    (h : k < 0 ∨ (indices.length : Int) ≤ 2 * k + 1) : specGroup line indices k = [] := by
  unfold specGroup
  have : ¬ (0 ≤ k ∧ 2 * k + 1 < (indices.length : Int)) := by omega
  simp [this]

/-- With one reader and one worker the consumer receives the matches in input order: in every
    terminal state `consumed` is exactly the matched lines in their original order. -/
theorem fifo_order {α : Type} [DecidableEq α] (cls : α → Cls) (R B K : Nat) (batches : List (List α)) {s : St α}
    (hr : Reach cls R B K (init [batches] 1) s) (hd : s.consDone = true) :
    s.consumed = batches.flatten.filter (isMatched cls) := by
  have hf := fifo_reach cls (by simp [init]) (by simp [init]) hr
  have hinv : Pipeline.Inv cls B K _ s := Pipeline.inv_reach (Pipeline.inv_init cls B K [batches] 1) hr
  obtain ⟨hrcl, hrc⟩ := hinv.consdone hd
  have hwall := hinv.rcclosed hrcl
  obtain ⟨w, hw⟩ := single_of_length_one hf.2.2
  rw [hw] at hwall
  simp at hwall
  have hwx : w = .exited := by cases w <;> simp_all [WSt.isExited]
  have hany : s.workers.any WSt.isExited = true := by rw [hw, hwx]; rfl
  obtain ⟨hcl, hc⟩ := hinv.exited hany
  have hsall := hinv.cclosed hcl
  obtain ⟨x, hx⟩ := single_of_length_one hf.2.1
  rw [hx] at hsall
  simp at hsall
  have hxd : x = .done := by cases x <;> simp_all [SrcSt.isDone]
  have h0 : orderSeq cls (init [batches] 1) = batches.flatten.filter (isMatched cls) := by
    simp [orderSeq, init, wAcc, wTodo, srcLines, WSt.acc, WSt.todo, SrcSt.lines]
  have h1 : orderSeq cls s = s.consumed := by
    simp [orderSeq, hrc, hc, wAcc, wTodo, srcLines, hw, hwx, hx, hxd, WSt.acc, WSt.todo, SrcSt.lines]
  rw [← h1, hf.1, h0]

/-- `WrapIndices` (default `filter` output): for every line and every in-range index list, overlapping,
    empty, absent and out-of-order groups included, the function does not panic and removing the inserted
    colour/reset codes yields the line byte for byte. -/
theorem wrapIndices_strip (s : Bytes) (colors : List Bytes) (reset : Bytes) (groups : List Int)
    (hg : ∀ g ∈ groups, g ≤ s.length) :
    ∃ segs, wrapIndices s colors reset groups = .ok segs ∧ strip segs = s :=
  wrapIndices_strip_eq s colors reset groups hg

/-- The colour table the model uses is the one in the source. -/
theorem colors_from_source : Gen.C02.groupColors.length = 12 ∧ Gen.C02.reset = "\x1b[0m" := by decide

/-- **`{@}`.**  `SliceSpaceExpressionContext.array()` is the NUL-joined list of groups `1 … n-1`
(`n = len(indices)/2`): the whole match (group 0) is NOT part of it, a group that did not participate
contributes the empty text between its separators, there is no leading and no trailing separator,
and with no groups at all it is the empty text.  It never panics on an engine's index list. -/
theorem array_spec (line : Bytes) (indices : List Int) (hwf : WF line indices)
    (hlen : (indices.length : Int) < 4611686018427387904) :
    array line indices =
      .ok (joinSep [0] ((List.range' 1 (indices.length / 2 - 1)).map fun (k : Nat) => specGroup line indices (k : Int))) :=
  array_eq line indices hwf hlen

/-- The constants of the model are the ones in the source: the array separator, the escape byte and
code terminator of `color.StrLen`, and the two numbers of `filter`'s default-output branch. -/
theorem c02_constants_from_source :
    Gen.C02.arraySeparator = 0 ∧ Gen.C02.escapeRune = 0x1b ∧ Gen.C02.codeEnd = 0x6d ∧
    Gen.C02.filterWholeLen = 2 ∧ Gen.C02.filterSkip = 2 := by decide

/-- **`GetMatch` is written with the source's own guards and index arithmetic** (regenerated from
/repo on every run): `sliceIndex := idx*2` (int64), the bounds guard, the two reads and the `-1` guard. -/
theorem getMatch_guards_from_source (line : Bytes) (indices : List Int) (idx : Int) :
    getMatch line indices idx =
      (let si := wrap64 (Gen.C02.getMatchSliceIndex idx)
       if Gen.C02.getMatchGuard0 idx si indices.length then .ok []
       else
         let start := indices.getD (Gen.C02.getMatchStartAt si).toNat 0
         let stop := indices.getD (Gen.C02.getMatchEndAt si).toNat 0
         if Gen.C02.getMatchGuard1 start stop then .ok [] else goSlice line start stop) := by
  unfold getMatch Gen.C02.getMatchGuard0 Gen.C02.getMatchGuard1 Gen.C02.getMatchSliceIndex
    Gen.C02.getMatchStartAt Gen.C02.getMatchEndAt
  simp only [Bool.or_eq_true, decide_eq_true_eq, or_assoc]
  by_cases h : idx < 0 ∨ wrap64 (idx * 2) < 0 ∨ wrap64 (idx * 2) + 1 ≥ (indices.length : Int)
  · rw [if_pos h, if_pos h]
  · rw [if_neg h, if_neg h]
    have e : (wrap64 (idx * 2) + 1).toNat = (wrap64 (idx * 2)).toNat + 1 := by omega
    rw [e]

/-- `array()`'s loop starts at group 1, runs while `i < len(indices)/2`, and writes the separator
before every element but the first (`i > 1`) – the source's expressions. -/
theorem array_guards_from_source :
    Gen.C02.arrayFirst = 1 ∧
    (∀ i n : Nat, Gen.C02.arrayLoopCond i n = decide (i < n / 2)) ∧
    (∀ i : Nat, Gen.C02.arraySepCond i = decide (i > 1)) := by
  refine ⟨rfl, ?_, ?_⟩
  · intro i n
    unfold Gen.C02.arrayLoopCond
    rw [Int.tdiv_eq_ediv_of_nonneg (by omega)]
    apply decide_eq_decide.mpr
    omega
  · intro i
    unfold Gen.C02.arraySepCond
    apply decide_eq_decide.mpr
    omega

/-- `WrapIndices`' conditions are the source's: the early return on an empty or odd list, the per-pair
guard (absent, empty, reversed and overlapping groups are skipped), the tail guard, and the colour of
pair `i` is entry `i mod 12` of the table. -/
theorem wrap_guards_from_source :
    (∀ n : Nat, Gen.C02.wrapEarly n = decide (n = 0 ∨ n % 2 ≠ 0)) ∧
    (∀ start stop last : Int, Gen.C02.wrapPairGuard start stop last =
      decide (start ≥ 0 ∧ stop ≥ 0 ∧ stop > start ∧ start ≥ last)) ∧
    (∀ (last : Int) (n : Nat), Gen.C02.wrapTailGuard last n = decide (last < n)) ∧
    (∀ i : Nat, Gen.C02.wrapColorIndex ((2 * i : Nat) : Int) (Gen.C02.groupColors.length : Nat) =
      ((i % Gen.C02.groupColors.length : Nat) : Int)) := by
  refine ⟨?_, ?_, ?_, ?_⟩
  · intro n
    unfold Gen.C02.wrapEarly
    rw [Int.tmod_eq_emod_of_nonneg (by omega)]
    rw [← Bool.decide_or]
    apply decide_eq_decide.mpr
    omega
  · intro a b c
    unfold Gen.C02.wrapPairGuard
    simp only [← Bool.decide_and, and_assoc]
  · intro l n; rfl
  · intro i
    have hl : Gen.C02.groupColors.length = 12 := by decide
    unfold Gen.C02.wrapColorIndex
    rw [hl, Int.tdiv_eq_ediv_of_nonneg (by omega), Int.tmod_eq_emod_of_nonneg (by omega)]
    omega

/-- The two `switch`es are the source's: `GetKey` answers exactly the reserved keys (in this order, each
by the expected method) before consulting the name table; `BuildMatcherFromArguments` tests
conflict, dissect, match, default in this order; the regex wrapper compiles with `CompilePOSIX` under
`--posix` and `Compile` otherwise. -/
theorem switches_from_source :
    (Gen.C02.getKeyCases.flatMap (·.1)).map lit = reservedKeys ∧
    Gen.C02.getKeyCases.map (·.2) = ["s.source", "strconv.FormatUint(s.lineNum,10)", "s.json(true,false)",
      "s.json(false,true)", "s.json(true,true)", "s.array()"] ∧
    Gen.C02.planSwitch = ["c.IsSet(\"match\")&&c.IsSet(\"dissect\")", "c.IsSet(\"dissect\")", "c.IsSet(\"match\")", "default"] ∧
    Gen.C02.buildRegexp = ["if:posix", "return:regexp.CompilePOSIX", "return:regexp.Compile"] := by
  decide +kernel

/-- Every colour code `WrapIndices` can insert is one complete code for `color.StrLen`'s state machine
(ESC … `m`), so "with colour codes removed" (`visible`) removes each of them entirely and nothing after it. -/
theorem codes_closed : ∀ c ∈ lit Gen.C02.reset :: Gen.C02.groupColors.map lit, ClosedCode 0x1b c := by
  decide

/-- **Default `filter` output, colour codes removed, is the matched line** – for EVERY index list a
matcher can hand out (`2 ≤ len`, offsets `≤ len(line)`; overlapping, nested, empty, absent (−1),
out-of-order groups and an odd tail included – `EngineWF` is a special case, `filter_output_engine`):
the output is the line cut into pieces, in order, with codes between them and a final newline;
removing exactly the inserted codes (`strip`) gives the line followed by the newline, byte for byte;
every inserted code comes from the source's table; and it does not panic.  With colours off the
output is the line and the newline. -/
theorem filter_output_eq_line (line : Bytes) (indices : List Int)
    (h2 : 2 ≤ indices.length) (hr : ∀ g ∈ indices, g ≤ line.length) :
    (∃ segs, filterLine true (Gen.C02.groupColors.map lit) (lit Gen.C02.reset) line indices = .ok segs ∧
      strip segs = line ++ [0x0a] ∧ (texts segs).flatten = line ++ [0x0a] ∧
      ∀ c ∈ codes segs, c = lit Gen.C02.reset ∨ c ∈ Gen.C02.groupColors.map lit) ∧
    (∃ segs, filterLine false (Gen.C02.groupColors.map lit) (lit Gen.C02.reset) line indices = .ok segs ∧
      render segs = line ++ [0x0a]) := by
  obtain ⟨segs, h, hs, hc⟩ := filterLine_on (Gen.C02.groupColors.map lit) (lit Gen.C02.reset) line indices h2 hr
  have hst : strip (segs ++ [Seg.text [0x0a]]) = line ++ [0x0a] := by rw [strip_append, hs]; rfl
  refine ⟨⟨_, h, hst, by rw [← strip_eq_texts]; exact hst, ?_⟩,
    ⟨_, filterLine_off _ _ line indices h2, by simp [render]⟩⟩
  intro c hcm
  rw [codes_append] at hcm
  simp only [codes, List.append_nil] at hcm
  exact hc (by decide) c hcm

/-- The same for index lists as the engines return them. -/
theorem filter_output_engine (line : Bytes) (indices : List Int) (h : EngineWF line indices) :
    ∃ segs, filterLine true (Gen.C02.groupColors.map lit) (lit Gen.C02.reset) line indices = .ok segs ∧
      strip segs = line ++ [0x0a] :=
  let ⟨⟨segs, h1, h2, _⟩, _⟩ := filter_output_eq_line line indices h.two (h.wf.le_length h.even)
  ⟨segs, h1, h2⟩

/-- **The whole output of `rare filter`** (`--line`, `--num`, `--extract` included), colours on or off:
with the colour codes that were inserted removed, the output is – for every match in the order received,
up to the `--num` limit when there is one – the line `<source> <line number>: ` (only with `--line`)
followed by the unmodified line text (or the extracted text with `--extract`) and a newline; nothing else.
The palette (group colours, reset, bright green for the source, bright yellow for the number) and the
prefix format are the source's. -/
theorem filter_lines_output (en wl cu : Bool) (num : Nat) (ms : List FMatch)
    (hok : ∀ m ∈ ms, cu = false → m.OK) :
    (∃ segs, filterAll en wl cu ⟨Gen.C02.groupColors.map lit, lit Gen.C02.reset, lit Gen.C02.filterSrcColor,
        lit Gen.C02.filterNumColor⟩ num ms 0 = .ok segs ∧
      strip segs = ((if num = 0 then ms else ms.take num).flatMap (plainLine wl cu))) ∧
    Gen.C02.filterPrefixFormat = "%s %s: " ∧ Gen.C02.filterSrcColor = "\x1b[32;1m" ∧
    Gen.C02.filterNumColor = "\x1b[33;1m" := by
  refine ⟨?_, by decide, by decide, by decide⟩
  obtain ⟨segs, h1, h2⟩ := filterAll_strip en wl cu _ num ms 0 hok (by omega)
  exact ⟨segs, h1, by simpa using h2⟩

/-- **What "colour codes removed" means on bytes.**  `visible` is `color.StrLen`'s state machine (ESC
starts a code, the next `m` ends it) returning the bytes it counts.  If the line itself contains no
ESC byte, the visible bytes of the coloured output are exactly the line and the newline.  (For a line
that does contain ESC the byte-level reading cannot tell the line's own sequences from inserted ones –
then `filter_output_eq_line` (removing the codes *that were inserted*) and
`existing_escape_survives` are the statements.) -/
theorem filter_output_visible (line : Bytes) (indices : List Int)
    (h2 : 2 ≤ indices.length) (hr : ∀ g ∈ indices, g ≤ line.length) (hesc : (0x1b : UInt8) ∉ line) :
    ∃ segs, filterLine true (Gen.C02.groupColors.map lit) (lit Gen.C02.reset) line indices = .ok segs ∧
      visible (render segs) = line ++ [0x0a] := by
  obtain ⟨⟨segs, h, hs, ht, hc⟩, _⟩ := filter_output_eq_line line indices h2 hr
  refine ⟨segs, h, ?_⟩
  unfold visible
  rw [visible_render 0x1b segs ?_ ?_, hs]
  · intro t htm he
    have hm := texts_bytes_of_strip segs t htm _ he
    rw [hs] at hm
    rcases List.mem_append.mp hm with h' | h'
    · exact hesc h'
    · exact absurd h' (by decide)
  · intro c hcm
    have := hc c hcm
    apply codes_closed
    rcases this with e | e
    · simp [e]
    · exact List.mem_cons_of_mem _ e

/-- **An escape sequence already present in the line survives.**  Any stretch `line[a:b]` of the matched
line that no offset of the index list falls strictly inside of – e.g. a colour sequence the log line
already carried – stands in the coloured output contiguously and unchanged.  (A group boundary inside
such a sequence puts a code there, as it would between any two bytes; all bytes of the line are still
there in order – `filter_output_eq_line`.) -/
theorem existing_escape_survives (line : Bytes) (indices : List Int) (segs : List Seg)
    (h : filterLine true (Gen.C02.groupColors.map lit) (lit Gen.C02.reset) line indices = .ok segs)
    (a b : Nat) (hab : a ≤ b) (hb : b ≤ line.length)
    (hno : ∀ g ∈ indices, ¬ ((a : Int) < g ∧ g < (b : Int))) :
    (line.drop a).take (b - a) <:+: render segs := by
  unfold filterLine filterLineK at h
  simp only [] at h
  have key : ∀ (groups : List Int) (segs' : List Seg), (∀ g ∈ groups, g ∈ indices) →
      wrapIndicesE true line (Gen.C02.groupColors.map lit) (lit Gen.C02.reset) groups = .ok segs' →
      (line.drop a).take (b - a) <:+: render (segs' ++ [Seg.text [0x0a]]) := by
    intro groups segs' hsub hw
    simp only [wrapIndicesE, Bool.not_true, Bool.false_eq_true, if_false] at hw
    obtain ⟨p, q, e⟩ := wrapIndices_keeps line _ _ groups segs' hw a b hab hb (fun g hg => hno g (hsub g hg))
    exact ⟨p, q ++ [0x0a], by rw [render_append, ← e]; simp [render]⟩
  split at h
  · rename_i segs' hw
    simp only [Except.ok.injEq] at h; subst h
    split at hw
    · exact key indices segs' (fun g hg => hg) hw
    · split at hw
      · cases hw
      · exact key _ segs' (fun g hg => List.mem_of_mem_drop hg) hw
  · cases h

/-- The line text of a match stays what it was however long the consumer holds it (C04: slices handed
    out by the scanner are never overwritten by later reads or buffer growth). -/
theorem match_line_stable (bufSize : Nat) (data : Bytes) (script : List C04.Step) (h : 1 ≤ bufSize) :
    ∀ vb ∈ (C04.Imm.run bufSize data script).1,
      C04.readView (C04.Imm.run bufSize data script).2.2.arrays vb.1 = vb.2 :=
  C04.imm_tokens_stable bufSize data script h

/-- The same for the buffered scanner (`readahead.New…`/`Scan` with look-ahead buffers, used by the
file readers): a slice it handed out is never overwritten by a later refill. -/
theorem match_line_stable_buffered (m : Nat) (data : Bytes) (script : List C04.Step) (h : 2 ≤ m) :
    ∀ vb ∈ (C04.Buf.run m data script).1,
      C04.readView (C04.Buf.run m data script).2.2.arrays vb.1 = vb.2 :=
  C04.buf_tokens_stable m data script h

/-- The index slice of a dissect match stays what it was: results for earlier lines are not altered by
    matching later lines (C12: the IntPool hands out disjoint views).  Go's `regexp` allocates a fresh
    slice per call, so nothing is shared there. -/
theorem match_indices_stable (ic : Bool) (p : C12.Pat) (hp : p.Shape) (d : C12.Dissect)
    (hc : C12.compileEx p.render ic = .ok d) (lines more : List Bytes) :
    ∃ r rAll, C12.matchAll d lines = .ok r ∧ C12.matchAll d (lines ++ more) = .ok rAll ∧
      rAll.take lines.length = r :=
  C12.earlier_results_unaltered ic p hp d hc lines more

/-- **Flag plumbing** (`BuildMatcherFromArguments`): `--match` together with `--dissect` is refused;
`--dissect` selects dissect with the ignore-case flag passed on; `--match` selects the regex engine in
POSIX or Perl mode, on the user's expression – prefixed by the source's `(?i)` under `--ignore-case`
and otherwise untouched; with neither flag every line matches.  (What the engines then do is their
contract; `plan` cases compare the real function with the engines' own answers.) -/
theorem matcher_plan_table (matchExpr dissectExpr : Bytes) (posix ic : Bool) :
    matcherPlan true true matchExpr dissectExpr posix ic = .conflict ∧
    matcherPlan false true matchExpr dissectExpr posix ic = .dissect dissectExpr ic ∧
    matcherPlan true false matchExpr dissectExpr posix false = .regex matchExpr posix ∧
    matcherPlan true false matchExpr dissectExpr posix true = .regex (lit Gen.C02.icPrefix ++ matchExpr) posix ∧
    matcherPlan false false matchExpr dissectExpr posix ic = .always := by
  have hp : lit Gen.C02.icPrefix = icPrefix := by decide
  refine ⟨by simp [matcherPlan], by simp [matcherPlan], by simp [matcherPlan], ?_, by simp [matcherPlan]⟩
  rw [hp]; simp [matcherPlan]

/-- Without a matcher flag (`AlwaysMatch`) the index list is the single pair of the whole line: it is an
engine-shaped list, group 0 is the line, there are no further groups and `{@}` is empty. -/
theorem always_match_spec (line : Bytes) :
    EngineWF line (alwaysIndices line) ∧ specGroup line (alwaysIndices line) 0 = line ∧
    (∀ k : Int, k ≠ 0 → specGroup line (alwaysIndices line) k = []) := by
  refine ⟨⟨by simp [alwaysIndices], by simp [alwaysIndices], ?_⟩, ?_, ?_⟩
  · intro k hk
    have : k = 0 := by simp [alwaysIndices] at hk; omega
    subst this
    right
    simp [alwaysIndices]
  · simp [specGroup, alwaysIndices]
    intro h; omega
  · intro k hk
    unfold specGroup
    have : ¬ (0 ≤ k ∧ 2 * k + 1 < ((alwaysIndices line).length : Int)) := by simp [alwaysIndices]; omega
    simp [this]


/-! ### The regex engine, for a fragment of the syntax (literals, classes, `.`, `^`, `$`, concatenation,
alternation, greedy and lazy `*` `+` `?` over bodies that cannot match the empty text, capture groups)

`Rx.den` lists all ways an expression matches from an offset in priority order (its head = the
leftmost-first answer), `Rx.mk` is the executable backtracking matcher, `Rx.Derives` the derivation
relation ("`r` matches `s[i:j]`"), `Rx.search` the unanchored search, `Rx.findSubmatchIndex` the `[]int`.
The `rx` / `rxkey` cases compare them with the real `fastregex.CompileEx(…).FindSubmatchIndex`. -/

/-- The backtracking matcher explores the alternatives in priority order and stops at the first
complete match: it returns exactly the first element of the priority list that the rest of the match
(`k`) accepts; anchored at `p` with nothing after it, the head of the list. -/
theorem rx_backtracking_is_first {β : Type} (s : Bytes) (r : Rx.Re) (i : Nat) (c : Rx.Caps)
    (k : Nat → Rx.Caps → Option β) :
    Rx.mk s r i c k = (Rx.den s r i c).findSome? (fun x => k x.1 x.2) ∧
    Rx.matchAt s r i = (Rx.den s r i []).head? :=
  ⟨Rx.mk_eq s r i c k, Rx.matchAt_eq s r i⟩

/-- The priority list contains exactly the derivations: `r` can match `s[p:j]` iff some element of the
list ends at `j`. -/
theorem rx_list_is_derivations (s : Bytes) (r : Rx.Re) (p j : Nat) (hp : p ≤ s.length) :
    (∃ c, (j, c) ∈ Rx.den s r p []) ↔ Rx.Derives s r p j :=
  ⟨fun ⟨c, h⟩ => (Rx.den_sound s r p [] (j, c) hp h).1,
   fun h => Rx.den_complete s r p j [] h (h.le_length hp)⟩

/-- **Leftmost-first.**  When the search reports `(p, j, c)`: `s[p:j]` is a match of `r`; nothing at all
matches from any earlier start offset (leftmost); among the matches from `p` it is the first in priority
order; and when it reports nothing, no stretch of the text matches. -/
theorem rx_leftmost_first (s : Bytes) (r : Rx.Re) :
    (∀ p j c, Rx.search s r = some (p, j, c) →
      p ≤ j ∧ j ≤ s.length ∧ Rx.Derives s r p j ∧ (∀ q, q < p → ∀ j', ¬ Rx.Derives s r q j') ∧
      (Rx.den s r p []).head? = some (j, c)) ∧
    (Rx.search s r = none → ∀ q, q ≤ s.length → ∀ j', ¬ Rx.Derives s r q j') := by
  refine ⟨?_, Rx.search_none s r⟩
  intro p j c h
  obtain ⟨h1, h2, h3, h4, h5, _⟩ := Rx.search_some s r p j c h
  exact ⟨h1, h2, h3, h5, h4⟩

/-- **Group spans are sub-matches.**  The value the search reports for group `n` is a stretch inside the
whole match that the body of a group numbered `n` in `r` derives. -/
theorem rx_groups_are_submatches (s : Bytes) (r : Rx.Re) (p j : Nat) (c : Rx.Caps)
    (h : Rx.search s r = some (p, j, c)) (n a b : Nat) (hl : Rx.lookup c n = some (a, b)) :
    p ≤ a ∧ a ≤ b ∧ b ≤ j ∧ ∃ body, Rx.Sub r n body ∧ Rx.Derives s body a b :=
  (Rx.search_some s r p j c h).2.2.2.2.2 _ (Rx.lookup_mem hl)

/-- **The seam "engine = data", closed for the fragment.**  The index list the model engine hands to the
extractor is empty exactly when nothing matches, and otherwise an engine-shaped list (`EngineWF` – the
hypothesis of `getMatch_spec`, `array_spec`, `filter_output_engine`, `named_group_value`) of
`2·(groups+1)` entries. -/
theorem rx_indices_engineWF (s : Bytes) (r : Rx.Re) (ng : Nat) :
    (Rx.findSubmatchIndex s r ng = [] ↔ Rx.search s r = none) ∧
    (Rx.findSubmatchIndex s r ng ≠ [] →
      EngineWF s (Rx.findSubmatchIndex s r ng) ∧ (Rx.findSubmatchIndex s r ng).length = 2 * (ng + 1)) := by
  unfold Rx.findSubmatchIndex
  cases h : Rx.search s r with
  | none => simp
  | some m =>
    obtain ⟨p, j, c⟩ := m
    have hne : Rx.indicesOf ng (p, j, c) ≠ [] := by
      intro e
      have := Rx.indicesOf_length ng (p, j, c)
      rw [e] at this
      simp at this
    obtain ⟨h1, h2, _, _, _, h6⟩ := Rx.search_some s r p j c h
    refine ⟨⟨fun e => absurd e hne, fun e => by cases e⟩, fun _ => ?_⟩
    exact ⟨Rx.indicesOf_engineWF s ng p j c h1 h2 (Rx.capsIn_of_entries h6), Rx.indicesOf_length ng _⟩

/-- **Capture values of the leftmost-first match through `GetMatch`.**  On the model engine's index
list `{0}` is the matched stretch, `{n}` (`1 ≤ n ≤ groups`) is the text of group `n`'s span – empty when
the group did not participate – and it never panics. -/
theorem rx_capture_values (s : Bytes) (r : Rx.Re) (ng p j : Nat) (c : Rx.Caps)
    (h : Rx.search s r = some (p, j, c)) (hng : (ng : Int) < 2305843009213693951) :
    getMatch s (Rx.findSubmatchIndex s r ng) 0 = .ok ((s.drop p).take (j - p)) ∧
    ∀ n : Nat, 1 ≤ n → n ≤ ng →
      getMatch s (Rx.findSubmatchIndex s r ng) (n : Int) =
        .ok (match Rx.lookup c n with
          | some (a, b) => (s.drop a).take (b - a)
          | none => []) := by
  have hidx : Rx.findSubmatchIndex s r ng = Rx.indicesOf ng (p, j, c) := by simp [Rx.findSubmatchIndex, h]
  obtain ⟨h1, h2, _, _, _, h6⟩ := Rx.search_some s r p j c h
  have hwf := (Rx.indicesOf_engineWF s ng p j c h1 h2 (Rx.capsIn_of_entries h6)).wf
  have hlen : ((Rx.indicesOf ng (p, j, c)).length : Int) < 4611686018427387904 := by
    rw [Rx.indicesOf_length]; omega
  rw [hidx]
  refine ⟨?_, ?_⟩
  · rw [getMatch_eq_spec s _ 0 hwf hlen (by unfold minInt64 maxInt64; omega), Rx.specGroup_zero]
  · intro n hn1 hn2
    rw [getMatch_eq_spec s _ n hwf hlen (by unfold minInt64 maxInt64; omega), Rx.specGroup_group s ng _ n hn1 hn2]
    rfl

/-- **`{name}` on the leftmost-first match.**  With the name table the regex wrapper builds (in any map order),
`{name}` evaluated on the model engine's index list is the text of the span of the last group carrying that
name – empty when that group did not participate. -/
theorem rx_named_capture (s : Bytes) (r : Rx.Re) (ng p j : Nat) (c : Rx.Caps)
    (h : Rx.search s r = some (p, j, c)) (hng : (ng : Int) < 2305843009213693951)
    (subexpNames : List Bytes) (names : List (Bytes × Int)) (src : Bytes) (ln : Nat) (key : Bytes) (k : Nat)
    (hσ : names.Perm (C16.regexNameTable subexpNames)) (hres : key ∉ reservedKeys)
    (hk : subexpNames[k]? = some key) (hne : key ≠ [])
    (hlast : ∀ j, k < j → subexpNames[j]? ≠ some key) (hk1 : 1 ≤ k) (hk2 : k ≤ ng) :
    getKey ⟨s, Rx.findSubmatchIndex s r ng, names, src, ln⟩ key =
      .ok (.val (match Rx.lookup c k with
        | some (a, b) => (s.drop a).take (b - a)
        | none => [])) := by
  have h1 := getKey_regex_name ⟨s, Rx.findSubmatchIndex s r ng, names, src, ln⟩ subexpNames key k hσ hres hk hne hlast
  rw [h1]
  have hidx : Rx.findSubmatchIndex s r ng = Rx.indicesOf ng (p, j, c) := by simp [Rx.findSubmatchIndex, h]
  obtain ⟨q1, q2, _, _, _, q6⟩ := Rx.search_some s r p j c h
  have hwf := (Rx.indicesOf_engineWF s ng p j c q1 q2 (Rx.capsIn_of_entries q6)).wf
  have hlen : ((Rx.indicesOf ng (p, j, c)).length : Int) < 4611686018427387904 := by
    rw [Rx.indicesOf_length]; omega
  simp only [hidx]
  rw [getMatch_eq_spec s _ k hwf hlen (by unfold minInt64 maxInt64; omega), Rx.specGroup_group s ng _ k hk1 hk2]
  rfl

/-- **`{@}` on the leftmost-first match**: the group texts `1 … ng` of the search result joined by NUL
(a group that did not participate is an empty element; group 0 is not included). -/
theorem rx_array_value (s : Bytes) (r : Rx.Re) (ng p j : Nat) (c : Rx.Caps)
    (h : Rx.search s r = some (p, j, c)) (hng : (ng : Int) < 2305843009213693951) :
    array s (Rx.findSubmatchIndex s r ng) =
      .ok (joinSep [0] ((List.range' 1 ng).map fun n =>
        match Rx.lookup c n with
        | some (a, b) => (s.drop a).take (b - a)
        | none => [])) := by
  have hidx : Rx.findSubmatchIndex s r ng = Rx.indicesOf ng (p, j, c) := by simp [Rx.findSubmatchIndex, h]
  obtain ⟨q1, q2, _, _, _, q6⟩ := Rx.search_some s r p j c h
  have hwf := (Rx.indicesOf_engineWF s ng p j c q1 q2 (Rx.capsIn_of_entries q6)).wf
  have hlen : ((Rx.indicesOf ng (p, j, c)).length : Int) < 4611686018427387904 := by
    rw [Rx.indicesOf_length]; omega
  rw [hidx, array_eq s _ hwf hlen, Rx.indicesOf_length]
  have e : 2 * (ng + 1) / 2 - 1 = ng := by omega
  rw [e]
  congr 2
  apply List.map_congr_left
  intro n hn
  have := List.mem_range'_1.mp hn
  rw [Rx.specGroup_group s ng _ n (by omega) (by omega)]
  rfl


/-! ### `--posix` (leftmost-longest), counted repetition, empty-width assertions -/

/-- **POSIX mode: leftmost-longest.**  When the search reports `(p, j, c)`: `s[p:j]` is a match of `r`; nothing
matches from an earlier start offset (leftmost); no match from `p` ends later (longest); among the matches
from `p` that end at `j` it is the first in priority order (what a backtracking search would have found
first – Go's documented choice, not POSIX's sub-match rule); every reported group span lies inside the match
and is derived by the body of a group with that number.  When it reports nothing, no stretch of the text matches. -/
theorem rx_posix_leftmost_longest (s : Bytes) (r : Rx.Re) :
    (∀ p j c, Rx.searchL s r = some (p, j, c) →
      p ≤ j ∧ j ≤ s.length ∧ Rx.Derives s r p j ∧ (∀ q, q < p → ∀ j', ¬ Rx.Derives s r q j') ∧
      (∀ j', Rx.Derives s r p j' → j' ≤ j) ∧
      (∃ l1 l2, Rx.den s r p [] = l1 ++ (j, c) :: l2 ∧ ∀ y ∈ l1, y.1 < j) ∧
      (∀ n a b, Rx.lookup c n = some (a, b) →
        p ≤ a ∧ a ≤ b ∧ b ≤ j ∧ ∃ body, Rx.Sub r n body ∧ Rx.Derives s body a b)) ∧
    (Rx.searchL s r = none → ∀ q, q ≤ s.length → ∀ j', ¬ Rx.Derives s r q j') := by
  refine ⟨?_, Rx.searchL_none s r⟩
  intro p j c h
  obtain ⟨h1, h2, h3, h4, h5, ⟨l1, l2, e, hl1, _⟩, h7⟩ := Rx.searchL_some s r p j c h
  exact ⟨h1, h2, h3, h4, h5, ⟨l1, l2, e, hl1⟩, fun n a b hl => h7 _ (Rx.lookup_mem hl)⟩

/-- Both modes match the same lines from the same start offset; the POSIX match is at least as long. -/
theorem rx_posix_vs_perl (s : Bytes) (r : Rx.Re) :
    (Rx.search s r = none ↔ Rx.searchL s r = none) ∧
    (∀ p j c, Rx.search s r = some (p, j, c) → ∃ j' c', Rx.searchL s r = some (p, j', c') ∧ j ≤ j') :=
  Rx.searchL_vs_search s r

/-- **Capture values in POSIX mode**: the index list is `[]` iff nothing matches, otherwise engine-shaped
(`EngineWF`, `2·(groups+1)` entries); `{0}` is the leftmost-longest stretch and `{n}` the text of group `n`'s
span in the reported match (empty when the group did not participate); `GetMatch` does not panic. -/
theorem rx_posix_capture_values (s : Bytes) (r : Rx.Re) (ng : Nat) (hng : (ng : Int) < 2305843009213693951) :
    (Rx.findSubmatchIndexL s r ng = [] ↔ Rx.searchL s r = none) ∧
    (∀ p j c, Rx.searchL s r = some (p, j, c) →
      EngineWF s (Rx.findSubmatchIndexL s r ng) ∧ (Rx.findSubmatchIndexL s r ng).length = 2 * (ng + 1) ∧
      getMatch s (Rx.findSubmatchIndexL s r ng) 0 = .ok ((s.drop p).take (j - p)) ∧
      ∀ n : Nat, 1 ≤ n → n ≤ ng →
        getMatch s (Rx.findSubmatchIndexL s r ng) (n : Int) =
          .ok (match Rx.lookup c n with
            | some (a, b) => (s.drop a).take (b - a)
            | none => [])) := by
  constructor
  · unfold Rx.findSubmatchIndexL
    cases h : Rx.searchL s r with
    | none => simp
    | some m =>
      have hne : Rx.indicesOf ng m ≠ [] := by
        intro e
        have := Rx.indicesOf_length ng m
        rw [e] at this
        simp at this
      exact ⟨fun e => absurd e hne, fun e => by cases e⟩
  · intro p j c h
    have hidx : Rx.findSubmatchIndexL s r ng = Rx.indicesOf ng (p, j, c) := by simp [Rx.findSubmatchIndexL, h]
    obtain ⟨h1, h2, _, _, _, _, h6⟩ := Rx.searchL_some s r p j c h
    have hewf := Rx.indicesOf_engineWF s ng p j c h1 h2 (Rx.capsIn_of_entries h6)
    have hlen : ((Rx.indicesOf ng (p, j, c)).length : Int) < 4611686018427387904 := by
      rw [Rx.indicesOf_length]; omega
    rw [hidx]
    refine ⟨hewf, Rx.indicesOf_length ng _, ?_, ?_⟩
    · rw [getMatch_eq_spec s _ 0 hewf.wf hlen (by unfold minInt64 maxInt64; omega), Rx.specGroup_zero]
    · intro n hn1 hn2
      rw [getMatch_eq_spec s _ n hewf.wf hlen (by unfold minInt64 maxInt64; omega), Rx.specGroup_group s ng _ n hn1 hn2]
      rfl

/-- **Counted repetition.**  What the parser builds for `x{n,m}` (`n ≤ m`; `x{n}` is `x{n,n}`) matches exactly
`k` matches of `x` in a row for some `n ≤ k ≤ m`, and `x{n,}` for some `k ≥ n` – greedy or lazy, whatever `x` is
(groups, alternations, bodies that can match the empty text). -/
theorem rx_counted_repetition (s : Bytes) (g : Bool) (a : Rx.Re) (n i j : Nat) :
    (∀ m, n ≤ m → (Rx.Derives s (Rx.repeatRe g a n (some m)) i j ↔ ∃ k, n ≤ k ∧ k ≤ m ∧ Rx.Pow s a k i j)) ∧
    (Rx.Derives s (Rx.repeatRe g a n none) i j ↔ ∃ k, n ≤ k ∧ Rx.Pow s a k i j) :=
  ⟨fun m h => Rx.repeat_bounded_derives s g a n m i j h, Rx.repeat_open_derives s g a n i j⟩

/-- **Empty-width assertions** match the empty stretch exactly where `syntax.EmptyOpContext` says: `\A`/`^`
at offset 0, `\z`/`$` at the end of the text, POSIX-mode `^` also after and `$` also before a line feed, `\b` where
exactly one of the two neighbouring bytes is a word byte (`\B`: elsewhere). -/
theorem rx_assertions (s : Bytes) (k : Rx.Look) (i j : Nat) :
    (Rx.Derives s (.look k) i j ↔ i = j ∧ Rx.holds s k i = true) ∧
    (Rx.holds s .bot i = true ↔ i = 0) ∧ (Rx.holds s .eot i = true ↔ i = s.length) ∧
    (Rx.holds s .bol i = true ↔ i = 0 ∨ s[i - 1]? = some 10) ∧
    (Rx.holds s .eol i = true ↔ i = s.length ∨ s[i]? = some 10) ∧
    (Rx.holds s .wb i = true ↔ Rx.wordBefore s i ≠ Rx.wordAt s i) ∧
    (Rx.holds s .nwb i = true ↔ Rx.wordBefore s i = Rx.wordAt s i) := by
  refine ⟨⟨fun h => ?_, fun ⟨e, h⟩ => e ▸ .look h⟩, ?_, ?_, ?_, ?_, ?_, ?_⟩
  · cases h with
    | look h => exact ⟨rfl, h⟩
  all_goals simp [Rx.holds]


/-! ### Batches at the level of Go slices: what a late consumer reads (`Model/C02Batch`) -/

/-- the text of the two batching loops as the translator reads it from `batcher.go` on every run -/
def loopTextPlain : BatchH.LoopText :=
  ⟨Gen.C02.batchLoopPlain_pre, Gen.C02.batchLoopPlain_start, Gen.C02.batchLoopPlain_loopCond, Gen.C02.batchLoopPlain_head,
   Gen.C02.batchLoopPlain_cond, Gen.C02.batchLoopPlain_flush, Gen.C02.batchLoopPlain_tailCond, Gen.C02.batchLoopPlain_tail⟩
def loopTextTimed : BatchH.LoopText :=
  ⟨Gen.C02.batchLoopTimed_pre, Gen.C02.batchLoopTimed_start, Gen.C02.batchLoopTimed_loopCond, Gen.C02.batchLoopTimed_head,
   Gen.C02.batchLoopTimed_cond, Gen.C02.batchLoopTimed_flush, Gen.C02.batchLoopTimed_tailCond, Gen.C02.batchLoopTimed_tail⟩

/-- **The batching loops of the model are the source's**, statement by statement: `syncReaderToBatcher` and
`syncReaderToBatcherWithTimeFlush` start from `make(…, 0, batchSize)` and `batchStart = 1`, append the scanned
line, flush on `len(batch) >= batchSize` (timed loop: `|| time.Since(lastBatchFlush) >= autoFlush`) by sending
`InputBatch{batch, sourceName, batchStart}`, advancing `batchStart` by `len(batch)` and ALLOCATING a new slice,
and send the remainder after the loop.  The worker walks `batch.Batch` with `idx` and numbers line `idx`
`batch.BatchStart + idx`.  Stdin and followed files run the timed loop with the 250 ms `AutoFlushTimeout`, plain files
the loop without timer.  (A changed statement, condition or order in /repo makes this false.) -/
theorem batch_loops_from_source :
    BatchH.parseLoop loopTextPlain = some BatchH.plainLoop ∧ BatchH.parseLoop loopTextTimed = some BatchH.timedLoop ∧
    Gen.C02.workerRange = ["idx", "str", "batch.Batch"] ∧
    Gen.C02.workerCall = ["batch.Source", "batch.BatchStart+uint64(idx)", "str"] ∧
    (∀ start idx : Int, Gen.C02.workerLineNum start idx = start + idx) ∧
    Gen.C02.autoFlushTimeoutMs = 250 ∧
    Gen.C02.batchLoopCalls = ["OpenReaderToChan:syncReaderToBatcherWithTimeFlush:AutoFlushTimeout",
      "TailFilesToChan:syncReaderToBatcherWithTimeFlush:AutoFlushTimeout", "OpenFilesToChan:syncReaderToBatcher:batchSize"] := by
  refine ⟨by decide +kernel, by decide +kernel, by decide +kernel, by decide +kernel, fun _ _ => rfl, by decide, by decide +kernel⟩

/-- **However long the consumer holds a batch, and however the 250 ms timer fired.**  Run the source's timed loop
(`l`, the program the translator read) on the slice-level machine – backing arrays, `append` in place, `make` – for
any batch size `≥ 1` (the CLI refuses others), any lines and any timer behaviour; let every `InputBatch` that was
sent be read only at the very end, after all later lines were appended (`lateRead`), and numbered the way the worker
numbers (`BatchStart + idx`): every line of the input appears exactly once, in order, with its own text and its true
1-based number.  The same at every earlier moment for the batches sent so far (they read what the list-level loop
`Rare.Batcher.step` sent), and for the loop without timer. -/
theorem sent_batches_stable {α : Type} (l : BatchH.BLoop) (hl : BatchH.parseLoop loopTextTimed = some l)
    (batchSize : Nat) (hbs : 1 ≤ batchSize) (ls : List (α × Bool)) :
    BatchH.numbered (BatchH.lateRead (BatchH.runH l batchSize ls)) = ((ls.map (·.1)).zipIdx 1).map (fun p => (some p.1, p.2)) ∧
    (let s := ls.foldl (BatchH.stepH l batchSize) (BatchH.initH l batchSize)
     BatchH.readSent s.heap s.sent =
       ((ls.foldl (Batcher.step batchSize) ⟨[], [], 1⟩).out.map fun b => (b.lines.map some, b.start))) := by
  have e : l = BatchH.timedLoop := by
    have := batch_loops_from_source.2.1
    rw [hl] at this
    exact Option.some.inj this
  subst e
  refine ⟨?_, BatchH.midRead_timed batchSize hbs ls⟩
  rw [BatchH.lateRead_timed batchSize hbs ls, BatchH.numbered_map, lineNumber_true]

/-- the file readers' loop (no timer) -/
theorem sent_batches_stable_files {α : Type} (l : BatchH.BLoop) (hl : BatchH.parseLoop loopTextPlain = some l)
    (batchSize : Nat) (hbs : 1 ≤ batchSize) (ls : List (α × Bool)) :
    BatchH.numbered (BatchH.lateRead (BatchH.runH l batchSize ls)) = ((ls.map (·.1)).zipIdx 1).map (fun p => (some p.1, p.2)) := by
  have e : l = BatchH.plainLoop := by
    have := batch_loops_from_source.1
    rw [hl] at this
    exact Option.some.inj this
  subst e
  rw [BatchH.lateRead_plain batchSize hbs ls, BatchH.numbered_map, lineNumber_true]
  simp [Function.comp_def]

/-- **The boundary: the allocation after a flush is what the property rests on.**  The same loop with
`batch = batch[:0]` in place of `batch = make(…)` (`BatchH.reuseLoop`): batch size 3, line `1` arrives after a pause
(timer fired, the short batch `[1]` is sent), line `2` follows at once.  A consumer that reads late sees line
number 1 carrying the text of line 2 – the text of line 1 is gone. -/
theorem batch_reuse_counterexample :
    BatchH.numbered (BatchH.lateRead (BatchH.runH BatchH.reuseLoop 3 [(1, true), (2, false)])) = [(some 2, 1), (some 2, 2)] ∧
    BatchH.numbered (BatchH.lateRead (BatchH.runH BatchH.timedLoop 3 [(1, true), (2, false)])) = [(some 1, 1), (some 2, 2)] := by
  decide +kernel

/-- `a|ab` on `xab`: Perl mode reports `a`, POSIX mode `ab`; `(a*)(a|b)*` on `aab`: the longest match with the
captures a backtracking search finds first; `(\d{1,3})\.(\d{2})` and `\bb` through the parser -/
example :
    (Rx.parseEx false (lit "a|ab")).map (fun p => Rx.findSubmatchIndex (lit "xab") p.re p.ng) = some [1, 2] ∧
    (Rx.parseEx true (lit "a|ab")).map (fun p => Rx.findSubmatchIndexL (lit "xab") p.re p.ng) = some [1, 3] ∧
    (Rx.parseEx true (lit "(a*)(a|b)*")).map (fun p => Rx.findSubmatchIndexL (lit "aab") p.re p.ng) = some [0, 3, 0, 2, 2, 3] ∧
    (Rx.parseEx false (lit "(\\d{1,3})\\.(\\d{2})")).map (fun p => Rx.findSubmatchIndex (lit "v1234.567") p.re p.ng)
      = some [2, 8, 2, 5, 6, 8] ∧
    (Rx.parseEx false (lit "\\bb")).map (fun p => Rx.findSubmatchIndex (lit "ab b") p.re p.ng) = some [3, 4] ∧
    (Rx.parseEx true (lit "\\d")).isNone = true ∧ (Rx.parseEx false (lit "(a{30}){40}")).isNone = true := by
  decide +kernel

/-- flag groups (`s`: the dot also matches the line feed; `m`: `^` is line-wise; `U`: greedy and lazy swapped; a scoped
`(?i:…)` ends at its parenthesis), POSIX classes, hex escapes and `\Q…\E`, a `{` that is not a repetition, a repetition of a repetition (POSIX syntax only) -/
example :
    (Rx.parse (lit "(?s)a.b")).map (fun p => Rx.findSubmatchIndex (lit "a\nb") p.re p.ng) = some [0, 3] ∧
    (Rx.parse (lit "a.b")).map (fun p => Rx.findSubmatchIndex (lit "a\nb") p.re p.ng) = some [] ∧
    (Rx.parse (lit "(?m)^b")).map (fun p => Rx.findSubmatchIndex (lit "a\nb") p.re p.ng) = some [2, 3] ∧
    (Rx.parse (lit "(?U)a+")).map (fun p => Rx.findSubmatchIndex (lit "aaa") p.re p.ng) = some [0, 1] ∧
    (Rx.parse (lit "(?U)a+?")).map (fun p => Rx.findSubmatchIndex (lit "aaa") p.re p.ng) = some [0, 3] ∧
    (Rx.parse (lit "(?i:a)b")).map (fun p => Rx.findSubmatchIndex (lit "Ab") p.re p.ng) = some [0, 2] ∧
    (Rx.parse (lit "(?i:a)b")).map (fun p => Rx.findSubmatchIndex (lit "AB") p.re p.ng) = some [] ∧
    (Rx.parse (lit "(x(?i)a)a")).map (fun p => Rx.findSubmatchIndex (lit "xAA xAa") p.re p.ng) = some [4, 7, 4, 6] ∧
    (Rx.parseEx true (lit "[[:alpha:]]+")).map (fun p => Rx.findSubmatchIndexL (lit "12ab3") p.re p.ng) = some [2, 4] ∧
    (Rx.parse (lit "[[:^alpha:][:digit:]]+")).map (fun p => Rx.findSubmatchIndex (lit "ab12 c") p.re p.ng) = some [2, 5] ∧
    (Rx.parse (lit "\\x41\\Q.\\E")).map (fun p => Rx.findSubmatchIndex (lit "AxA.") p.re p.ng) = some [2, 4] ∧
    (Rx.parse (lit "a{,2}")).map (fun p => Rx.findSubmatchIndex (lit "a{,2}") p.re p.ng) = some [0, 5] ∧
    (Rx.parseEx true (lit "a{2}{3}")).map (fun p => Rx.findSubmatchIndexL (lit "aaaaaaa") p.re p.ng) = some [0, 6] ∧
    (Rx.parse (lit "a{2}{3}")).isNone = true ∧
    (Rx.parse (lit "a{1001}")).isNone = true ∧ (Rx.parseEx true (lit "[a-c-e]")).isNone = true := by
  decide +kernel

/-- `^` under `--posix` is line-wise (no `OneLine` flag) -/
example : (Rx.parseEx true (lit "^b")).map (fun p => Rx.findSubmatchIndexL (lit "a\nb") p.re p.ng) = some [2, 3] ∧
    (Rx.parseEx false (lit "^b")).map (fun p => Rx.findSubmatchIndex (lit "a\nb") p.re p.ng) = some [] := by
  decide +kernel

/-- **The boundary of the fragment: loops over bodies that can match the empty text.**  `([ab]*?)*b` on
`ababaaa`: the parser refuses it (`unmodelled`), and for a reason – read with plain backtracking priority (one
more iteration before leaving a greedy loop, iterations must advance) the answer would be `[0,4, 2,3]`, while Go's
engines answer `[0,2, 0,1]`: they never enter the same instruction twice at one offset, so the second iteration
dies at the inner loop's exit test that the first iteration has just passed at offset 1.  For such expressions
Go's answer is not the first derivation in priority order; `corpus/C02/rxnull.case` keeps the examples. -/
example :
    (Rx.parse (lit "([ab]*?)*b")).isNone = true ∧ (Rx.parse (lit "(a*)*")).isNone = true ∧
    (Rx.parse (lit "(a*){2,}")).isNone = true ∧ (Rx.parse (lit "(a*){2,3}")).isSome = true ∧
    Rx.findSubmatchIndex (lit "ababaaa")
      (.cat (.star true (.grp 1 (.star false (.cls false [(97, 98)])))) (.cls false [(98, 98)])) 1 = [0, 4, 2, 3] := by
  decide +kernel

/-- non-vacuity of `rx_counted_repetition`: three `a` in a row for `a{2,3}` -/
example : Rx.Pow (lit "aaa") (.cls false [(97, 97)]) 3 0 3 :=
  .succ (.cls (b := 97) rfl rfl) (.succ (.cls (b := 97) rfl rfl) (.succ (.cls (b := 97) rfl rfl) (.zero 3)))

/-- Non-vacuity: an optional group that did not participate, a nested group, and a missing group. -/
example : WF [97, 98, 99] [0, 3, -1, -1, 1, 2] ∧
    specGroup [97, 98, 99] [0, 3, -1, -1, 1, 2] 0 = [97, 98, 99] ∧
    specGroup [97, 98, 99] [0, 3, -1, -1, 1, 2] 1 = [] ∧
    specGroup [97, 98, 99] [0, 3, -1, -1, 1, 2] 2 = [98] ∧
    specGroup [97, 98, 99] [0, 3, -1, -1, 1, 2] 3 = [] := by
  refine ⟨?_, by decide, by decide, by decide, by decide⟩
  intro k hk
  have : k = 0 ∨ k = 1 ∨ k = 2 := by simp at hk; omega
  rcases this with rfl | rfl | rfl <;> decide

example : (match wrapIndices [97, 98, 99] [[1], [2]] [0] [0, 1, 1, 3] with
    | .ok segs => strip segs
    | .error _ => []) = [97, 98, 99] := by decide

/-- `EngineWF` is satisfiable on a list with an absent group, nested / overlapping groups and a group
that lies *before* an earlier-numbered one (`(?:(b)|(a))*` on `ab` gives `[0,2, 1,2, 0,1]`). -/
example : EngineWF [97, 98] [0, 2, 1, 2, 0, 1] ∧ EngineWF [97, 98, 99] [0, 3, -1, -1, 0, 3, 1, 2, 1, 1] := by
  refine ⟨⟨by decide, by decide, ?_⟩, ⟨by decide, by decide, ?_⟩⟩
  · intro k hk
    have : k = 0 ∨ k = 1 ∨ k = 2 := by simp at hk; omega
    rcases this with rfl | rfl | rfl <;> decide
  · intro k hk
    have : k = 0 ∨ k = 1 ∨ k = 2 ∨ k = 3 ∨ k = 4 := by simp at hk; omega
    rcases this with rfl | rfl | rfl | rfl | rfl <;> decide

/-- `{@}`: group 0 is not included, the absent group 2 is the empty text between two separators -/
example : (array (lit "x yz") [0, 4, 0, 1, -1, -1, 2, 4]).toOption = some (lit "x" ++ [0, 0] ++ lit "yz") ∧
    (array (lit "x") [0, 1]).toOption = some [] ∧ (array (lit "x") [0, 1, 0, 1]).toOption = some (lit "x") := by
  decide

/-- default `filter` output on the out-of-order list: group 2 (before group 1) is skipped, nothing is lost -/
example : (match filterLine true [[1], [2]] [9] [97, 98] [0, 2, 1, 2, 0, 1] with
    | .ok segs => (render segs, texts segs, codes segs)
    | .error _ => ([], [], [])) = ([97, 1, 98, 9, 10], [[97], [98], [10]], [[1], [9]]) := by decide

/-- a line that already carries `ESC[1m`: the sequence stands in the output untouched, while the byte-level
reading (`visible`) removes it together with the inserted codes – it cannot tell them apart -/
example :
    (match filterLine true (Gen.C02.groupColors.map lit) (lit Gen.C02.reset) (lit "a\x1b[1mb c") [0, 8, 7, 8] with
     | .ok segs => (render segs, visible (render segs), strip segs)
     | .error _ => ([], [], []))
    = (lit "a\x1b[1mb \x1b[31mc\x1b[0m\n", lit "ab c\n", lit "a\x1b[1mb c\n") := by decide

/-- `(\w+) (?P<path>\S+) (?P<status>\d+)` on `GET /x 200`: `path` is group 2, `status` group 3 (the unnamed
group counts); `(?P<a>x)(y)(?P<a>z)`: the name keeps its last group -/
example : C16.regexNameTable [[], [], lit "path", lit "status"] = [(lit "path", 2), (lit "status", 3)] ∧
    (getKey ⟨lit "GET /x 200", [0, 10, 0, 3, 4, 6, 7, 10], C16.regexNameTable [[], [], lit "path", lit "status"], [], 1⟩
      (lit "path")).toOption.map (fun a => match a with | .val b => b | .json => []) = some (lit "/x") ∧
    C16.regexNameTable [[], lit "a", [], lit "a"] = [(lit "a", 3)] := by decide +kernel

/-- the hypotheses of `named_group_value` are satisfiable (`path` is not a reserved key, it is group 2) -/
example : lit "path" ∉ reservedKeys ∧ ([[], [], lit "path", lit "status"] : List Bytes)[2]? = some (lit "path") ∧
    lit "line" ∈ reservedKeys := by decide +kernel

example : matcherPlan true false (lit "err (\\d+)") [] true true = .regex (lit "(?i)err (\\d+)") true := by decide

/-- an index list of odd length < 2 would panic in `match.Indices[2:]` (no matcher returns one) -/
example : (filterLine true [] [] [97] [0]).toBool = false := by decide


/-- `(a|ab)(c|bcd)(d*)` on `abcd`: leftmost-FIRST takes `a`, then `bcd`, then the empty `d*`
(POSIX leftmost-longest would take `ab`, `c`, `d`) -/
example : Rx.findSubmatchIndex (lit "abcd")
    (.cat (.grp 1 (.alt (.cls false [(97, 97)]) (.cat (.cls false [(97, 97)]) (.cls false [(98, 98)]))))
      (.cat (.grp 2 (.alt (.cls false [(99, 99)])
          (.cat (.cls false [(98, 98)]) (.cat (.cls false [(99, 99)]) (.cls false [(100, 100)])))))
        (.grp 3 (.star true (.cls false [(100, 100)]))))) 3 = [0, 4, 0, 1, 1, 4, 4, 4] := by decide +kernel

/-- `(?:(b)|(a))*` on `ab`: a group inside a loop keeps its last participation (`[0,2, 1,2, 0,1]`);
`x(a)?` on `xb`: a group that did not participate reads `-1,-1` -/
example : Rx.findSubmatchIndex (lit "ab")
      (.star true (.alt (.grp 1 (.cls false [(98, 98)])) (.grp 2 (.cls false [(97, 97)])))) 2 = [0, 2, 1, 2, 0, 1] ∧
    Rx.findSubmatchIndex (lit "xb")
      (.cat (.cls false [(120, 120)]) (.alt (.grp 1 (.cls false [(97, 97)])) .eps)) 1 = [0, 1, -1, -1] := by
  decide +kernel

/-- the parser: `(\w+) (?P<path>\S+)` has two groups, the second is named -/
example : (Rx.parse (lit "(\\w+) (?P<path>\\S+)")).map (fun p => (p.ng, p.subexpNames)) = some (2, [[], [], lit "path"]) := by
  decide +kernel

/-- `filter -l -n 2` on three matches: two lines `IN <n>: <line>`, and `plainLine` is what it says -/
example : (match filterAll false true false ⟨[], [], [], []⟩ 2
      [⟨lit "IN", 1, lit "a", [0, 1], lit "a"⟩, ⟨lit "IN", 3, lit "bc", [0, 2], lit "bc"⟩, ⟨lit "IN", 4, lit "d", [0, 1], lit "d"⟩] 0 with
    | .ok segs => render segs
    | .error _ => []) = lit "IN 1: a\nIN 3: bc\n" := by decide +kernel

/-! ## Round 4d: ONE context object over a HISTORY of matches

The extractor does not build a context per match.  Every worker goroutine owns one
`SliceSpaceExpressionContext`; `processLineSync` re-points it at each matched line; all sources go through the
same workers and line numbers restart at 1 in every source.  "Capture values equal to those of the leftmost
match on THAT line" is therefore a statement about an object with a past: `{N}`, `{name}`, `{@}`, `{src}`,
`{line}` must be functions of the CURRENT match only. -/

/-- **The worker's loop is the map of a context-free function.**  One worker (`histWorker`: a context created
once with the name table, then `processLineSync` for every line it is handed, expression `{k₁}|{k₂}|…` over
arbitrary keys – decimal group numbers, group names, `@`, `src`, `line`) produces, for EVERY history `hs` – any
sources in any order, equal or restarting line numbers, unmatched lines in between, the same match again –
exactly what the context-free `captureOf` gives line by line (same panics too). -/
theorem capture_history_is_map (keys : List Bytes) (nt : List (Bytes × Int)) (hs : List LineHit) :
    histWorker keys nt hs = hs.mapM (captureOf keys nt) :=
  histWorker_eq_mapM keys nt hs

/-- Pointwise: the `Extracted` at position `i` of a history is determined by the line at position `i` alone. -/
theorem capture_is_function_of_current_match (keys : List Bytes) (nt : List (Bytes × Int)) (hs : List LineHit)
    (outs : List (Option KeyAns)) (hrun : histWorker keys nt hs = .ok outs) :
    outs.length = hs.length ∧
    ∀ (i : Nat) (x : LineHit), hs[i]? = some x → ∃ o, outs[i]? = some o ∧ captureOf keys nt x = .ok o := by
  rw [capture_history_is_map] at hrun
  exact C16.mapM_ok_pointwise _ hs outs hrun

/-- The state a context is in does not matter: from ANY context `c` (whatever line, indices, source and line
number an earlier match – or nobody – left in it) `processLineSync` extracts what a context built from the
match alone would; only the name table, set at construction and never again, is kept. -/
theorem capture_context_state_is_irrelevant (keys : List Bytes) (c : MatchCtx) (h : LineHit) :
    (histLine keys c h).map (·.2) = captureOf keys c.names h ∧
    ∀ c' o, histLine keys c h = .ok (c', o) → c'.names = c.names := by
  refine ⟨?_, fun c' o hp => histLine_names keys c c' h o hp⟩
  rw [histLine_eq]
  cases captureOf keys c.names h <;> rfl

/-- What the capture keys read of a match: `{N}` is `GetMatch N` of (line, indices) – so, by `getMatch_spec`, the
text of group N of THIS line's match –, `{@}` is `array` of (line, indices), `{src}` and `{line}` are the source
and the number the line came with.  Nothing else enters. -/
theorem capture_keys_read_match_only (nt : List (Bytes × Int)) (h : LineHit) :
    (∀ k i, atoi k = some i → captureKey nt h k = (getMatch h.line h.indices i).map .val) ∧
    captureKey nt h (ascii "@") = (array h.line h.indices).map .val ∧
    captureKey nt h (ascii "src") = .ok (.val h.source) ∧
    captureKey nt h (ascii "line") = .ok (.val (itoa h.lineNum)) := by
  have a1 : atoi (ascii "@") = none := by decide +kernel
  have a2 : atoi (ascii "src") = none := by decide +kernel
  have a3 : atoi (ascii "line") = none := by decide +kernel
  have n1 : ascii "@" ≠ ascii "src" ∧ ascii "@" ≠ ascii "line" ∧ ascii "@" ≠ ascii "." ∧ ascii "@" ≠ ascii "#" ∧
      ascii "@" ≠ ascii ".#" ∧ ascii "@" ≠ ascii "#." := by decide +kernel
  have n2 : ascii "line" ≠ ascii "src" := by decide +kernel
  refine ⟨?_, ?_, ?_, ?_⟩
  · intro k i hk
    simp only [captureKey, MatchCtx.keyVal, hk]
  · simp only [captureKey, MatchCtx.keyVal, a1, getKey, n1.1, n1.2.1, n1.2.2.1, n1.2.2.2.1, n1.2.2.2.2.1,
      n1.2.2.2.2.2, if_false, or_self, if_true]
  · simp only [captureKey, MatchCtx.keyVal, a2, getKey, if_true]
  · simp only [captureKey, MatchCtx.keyVal, a3, getKey, n2, if_false, if_true]

/-- the history the seeded change `C02-array-memo-linenum` gets wrong, in the model: two one-line files through
one worker (`(\w+)=(\d+)` on `alpha=1` and `beta=2`, both line 1 of their source), an unmatched line, and the
first match again – every match reports ITS OWN groups for `{@}`, and the same match the same text again -/
theorem capture_history_witness :
    (histWorker [lit "src", lit "line", lit "@", lit "1"] []
      [⟨lit "a.log", 1, [0, 7, 0, 5, 6, 7], lit "alpha=1"⟩, ⟨lit "b.log", 1, [0, 6, 0, 4, 5, 6], lit "beta=2"⟩,
       ⟨lit "c.log", 1, [], lit "zz"⟩, ⟨lit "a.log", 1, [0, 7, 0, 5, 6, 7], lit "alpha=1"⟩]).toOption
      = some [some (.val (lit "a.log|1|alpha" ++ [0] ++ lit "1|alpha")),
              some (.val (lit "b.log|1|beta" ++ [0] ++ lit "2|beta")), none,
              some (.val (lit "a.log|1|alpha" ++ [0] ++ lit "1|alpha"))] := by
  decide +kernel

/-- **The context's fields, their writers and their readers ARE the source's** (regenerated from
pkg/extractor/sliceSpaceExpressionContext.go and extractor.go on every run, `Gen.C02.ctx*`).  The struct has
exactly the five fields of `MatchCtx`; `processLineSync` binds the worker's context, assigns exactly `linePtr`,
`indices`, `source`, `lineNum` (= `MatchCtx.load`) and only then hands the context to `IgnoreMatch` / `BuildKey`;
the only constructor site sets `nameTable` (= `MatchCtx.fresh`), nothing else in the package assigns such a
field; NO method of the context writes a field, takes its address, hands a map/slice field on or lets the
receiver escape; `GetMatch`, `GetKey` and `array` – everything `{N}`, `{name}`, `{@}`, `{src}`, `{line}` run
through – read no field but those four and the name table.  A memo of the joined groups, a cache keyed by line
number, a lazily filled field: any state a method could carry from one match to the next changes these lists. -/
theorem capture_context_is_source :
    Gen.C02.ctxFields = [("linePtr", "string"), ("indices", "[]int"), ("nameTable", "map[string]int"),
      ("source", "string"), ("lineNum", "uint64")] ∧
    Gen.C02.ctxLoadEvents = [("bind", "expContext", "s.context"), ("set", "linePtr", "lineStringPtr"),
      ("set", "indices", "matches"), ("set", "source", "source"), ("set", "lineNum", "lineNum"),
      ("use", "s.ignore.IgnoreMatch", ""), ("use", "s.keyBuilder.BuildKey", "")] ∧
    loadSetFields Gen.C02.ctxLoadEvents = ["linePtr", "indices", "source", "lineNum"] ∧
    setsBeforeUses Gen.C02.ctxLoadEvents = true ∧
    Gen.C02.ctxLiterals = ["asyncWorker:nameTable"] ∧ Gen.C02.ctxFieldSetsElsewhere = [] ∧
    (Gen.C02.ctxMethods.filter fun m => captureMethods.contains m.1) =
      [("GetMatch", ["indices", "linePtr"], [], [], []),
       ("GetKey", ["source", "lineNum", "nameTable"], [], ["json", "array", "GetMatch"], []),
       ("array", ["indices"], [], ["GetMatch"], [])] ∧
    methodWrites Gen.C02.ctxMethods = [] ∧
    (Gen.C02.ctxMethods.all fun m => m.2.2.2.2.isEmpty) = true ∧
    (∀ f ∈ methodReadsOf captureMethods Gen.C02.ctxMethods,
      f ∈ loadSetFields Gen.C02.ctxLoadEvents ∨ f ∈ ["nameTable"]) ∧
    Gen.C02.arrayOutline =
      ["varsbstrings.Builder", "for i:=1;i<len(s.indices)/2;i++{", "val:=s.GetMatch(i)", "if i>1{",
       "sb.WriteRune(expressions.ArraySeparator)", "}", "sb.WriteString(val)", "}", "returnsb.String()"] := by
  decide

/-- **History independence of the capture values from the source's own read/write sets** (C16's frame argument,
`C16.frame`, applied to the methods the capture keys run through).  Take the fields `processLineSync` assigns
(`W`), the fields ANY method of the context may write (`MW`) and the fields `GetMatch` / `GetKey` / `array` read
(`R`) as the translator found them in /repo.  Then for ANY function `view` of the object that reads only `R`,
after ANY history of re-pointings and method calls (`before`), a re-pointing at the match `m` and any number of
further method calls on that match (`after` – the ignore expressions, the earlier keys of the same expression),
`view` answers what it answers on the constructed object re-pointed once at `m`.  The only premise, `R ∩ MW = ∅`,
is decided on the generated lists – with a memo field written by `array()` it is false. -/
theorem capture_history_frame_source {V β : Type} (view : C16.Obj V → β)
    (hv : C16.ReadsOnly (methodReadsOf captureMethods Gen.C02.ctxMethods) view)
    (o₀ : C16.Obj V) (before : List (C16.ObjStep V)) (m : C16.Obj V) (after : List (C16.Obj V)) :
    view ((after.map C16.ObjStep.method).foldl
        (C16.ObjStep.apply (loadSetFields Gen.C02.ctxLoadEvents) (methodWrites Gen.C02.ctxMethods))
        (C16.ObjStep.apply (loadSetFields Gen.C02.ctxLoadEvents) (methodWrites Gen.C02.ctxMethods)
          (before.foldl (C16.ObjStep.apply (loadSetFields Gen.C02.ctxLoadEvents) (methodWrites Gen.C02.ctxMethods)) o₀)
          (.repoint m)))
      = view (C16.ObjStep.apply (loadSetFields Gen.C02.ctxLoadEvents) (methodWrites Gen.C02.ctxMethods) o₀ (.repoint m)) :=
  C16.frame _ _ _ (by decide) view hv o₀ before m after

/-- **This model of the context and C16's are one object** (`C16.Ctx`, `Model/C16Ctx.lean`, which the JSON views
`{.}` `{#}` `{.#}` are proved history-independent on): the same four assignments, the same constructor, and for
every context and every key that is not a view – a decimal group number, `src`, `line`, `@`, a group name, an
unknown name – the very bytes (or the panic) of C16's `GetMatch` / `GetKey`. -/
theorem capture_models_agree_C16 :
    (∀ (c : C16.Ctx) (h : C16.Hit), ofC16 (c.load h) = (ofC16 c).load (ofC16Hit h)) ∧
    (∀ nt, ofC16 (C16.Ctx.fresh nt) = MatchCtx.fresh nt) ∧
    (∀ (c : C16.Ctx) (key : Bytes) (i : Int), atoi key = some i →
      (ofC16 c).keyVal key = (c.getMatch i).map KeyAns.val) ∧
    (∀ (c : C16.Ctx) (key : Bytes), atoi key = none → C16.viewFlags key = none →
      (ofC16 c).keyVal key = (c.getKey key).map KeyAns.val) :=
  ⟨ofC16_load, ofC16_fresh, keyVal_decimal_eq_C16, keyVal_eq_C16⟩

/-! non-vacuity of the round-4d theorems -/
/-- a history with two sources at the same line number, a named group, `{0}` and an unknown name -/
example : (histWorker [lit "k", lit "0", lit "@", lit "nope"] [(lit "k", 1)]
      [⟨lit "a.log", 7, [0, 3, 0, 1, 2, 3], lit "x=1"⟩, ⟨lit "b.log", 7, [0, 3, 0, 1, 2, 3], lit "y=2"⟩]).toOption
      = some [some (.val (lit "x|x=1|x" ++ [0] ++ lit "1|<NAME>")), some (.val (lit "y|y=2|y" ++ [0] ++ lit "2|<NAME>"))] := by
  decide +kernel
/-- an empty key drops the line (group 2 did not participate), a view key makes the model decline -/
example : (captureOf [lit "2"] [] ⟨lit "f", 1, [0, 1, 0, 1, -1, -1], lit "a"⟩).toOption = some none ∧
    (captureOf [lit "1", lit "."] [] ⟨lit "f", 1, [0, 1, 0, 1], lit "a"⟩).toOption = some (some .json) := by
  decide +kernel
/-- a view that reads what the source's capture methods read: `ReadsOnly` is satisfiable and not trivial -/
example : C16.ReadsOnly (methodReadsOf captureMethods Gen.C02.ctxMethods)
    (fun o : C16.Obj Nat => o "indices" + o "linePtr" + o "lineNum") :=
  fun o o' h => by simp [h "indices" (by decide), h "linePtr" (by decide), h "lineNum" (by decide)]
example : atoi (lit "2") = some 2 ∧ atoi (lit "k") = none ∧ C16.viewFlags (lit "@") = none := by decide +kernel

end Rare.C02
